(* C12 at the text level, for schemas without descriptions, defaults and
   applied custom directives ("plain" schemas): the text the schema printer
   writes parses (parser model of C01, through the C03 round trip) to a
   document that builds (C11_exact_build) a schema equivalent to the one
   printed, and printing that schema gives the same text again. *)
From PyGql Require Import Lang.PrinterModel Spec.PrinterSpec Lang.Parser Spec.GrammarSpec Spec.SdlGrammarSpec
                          Proofs.PrinterRoundtrip Proofs.PrinterSdlRoundtrip.
From PyGql Require Import Spec.SdlSpec Schema.SdlPrint Spec.SdlRoundtripSpec.
From PyGql Require Import Proofs.SdlProofs Proofs.SdlExactProofs Proofs.SdlOrderProofs Proofs.SdlPrintProofs
                          Proofs.SdlTextProofs Proofs.SdlTextSchemaProofs Proofs.SdlDocRoundtripProofs
                          Proofs.SdlValidInvProofs Proofs.SdlDocRulesProofs.
From Coq Require Import Lia Sorting.Permutation Sorting.Sorted.

Lemma plain_ivalues sc a : plain_schema sc -> In a (schema_ivalues sc) -> plain_siv a.
Proof.
  intros (Ht & Hd & _) Hin. unfold schema_ivalues in Hin. apply in_app_or in Hin. destruct Hin as [Hin|Hin].
  - apply in_flat_map in Hin. destruct Hin as (t & Htin & Ha). rewrite Forall_forall in Ht.
    destruct (Ht t Htin) as (_ & _ & _ & Hk).
    destruct t; cbn [tdef_ivalues] in Ha; try contradiction.
    + destruct Hk as (_ & Hf & _). apply in_flat_map in Ha. destruct Ha as (f & Hfin & Ha).
      rewrite Forall_forall in Hf. destruct (Hf f Hfin) as (_ & _ & _ & _ & Hargs).
      rewrite Forall_forall in Hargs. apply Hargs; exact Ha.
    + destruct Hk as (_ & Hf). apply in_flat_map in Ha. destruct Ha as (f & Hfin & Ha).
      rewrite Forall_forall in Hf. destruct (Hf f Hfin) as (_ & _ & _ & _ & Hargs).
      rewrite Forall_forall in Hargs. apply Hargs; exact Ha.
    + destruct Hk as (_ & Hf). rewrite Forall_forall in Hf. apply Hf; exact Ha.
  - apply in_flat_map in Hin. destruct Hin as (dd & Hdin & Ha). rewrite Forall_forall in Hd.
    destruct (Hd dd Hdin) as (_ & _ & Hargs & _). rewrite Forall_forall in Hargs. apply Hargs; exact Ha.
Qed.

Lemma plain_default_rt Ep E sc a : plain_schema sc -> In a (schema_ivalues sc) -> default_rt Ep E a.
Proof.
  intros Hp Hin. destruct (plain_ivalues sc a Hp Hin) as (Hd & _). unfold default_rt. rewrite Hd. discriminate.
Qed.

Lemma doc_of_no_defaults sc x iv : In x (doc_defs (doc_of sc)) -> In iv (def_ivalues x) -> iv_default iv = None.
Proof.
  unfold doc_of. cbn [doc_defs]. intros Hx Hiv. apply in_app_or in Hx. destruct Hx as [Hx|Hx].
  - destruct (schema_def_needed sc); [|contradiction]. destruct Hx as [<-|[]]. contradiction.
  - apply in_app_or in Hx. destruct Hx as [Hx|Hx]; apply in_map_iff in Hx; destruct Hx as (y & <- & _).
    + cbn [ddef1_of def_ivalues] in Hiv. apply in_map_iff in Hiv. destruct Hiv as (a & <- & _). reflexivity.
    + destruct y; cbn [def1_of def_ivalues] in Hiv; try contradiction.
      * apply in_flat_map in Hiv. destruct Hiv as (f & Hf & Hiv). apply in_map_iff in Hf. destruct Hf as (g & <- & _).
        cbn [fd_of fd_args] in Hiv. apply in_map_iff in Hiv. destruct Hiv as (a & <- & _). reflexivity.
      * apply in_flat_map in Hiv. destruct Hiv as (f & Hf & Hiv). apply in_map_iff in Hf. destruct Hf as (g & <- & _).
        cbn [fd_of fd_args] in Hiv. apply in_map_iff in Hiv. destruct Hiv as (a & <- & _). reflexivity.
      * apply in_map_iff in Hiv. destruct Hiv as (a & <- & _). reflexivity.
Qed.

Lemma plain_defaults_stable sc : defaults_stable (doc_of sc).
Proof.
  split; intros iv Hin v Hv; exfalso.
  - unfold base_ivalues in Hin. apply in_flat_map in Hin. destruct Hin as (x & Hx & Hiv).
    assert (Hx' : In x (doc_defs (doc_of sc))).
    { apply in_app_or in Hx. destruct Hx as [Hx|Hx]; apply filter_In in Hx; apply Hx. }
    rewrite (doc_of_no_defaults sc x iv Hx' Hiv) in Hv. discriminate.
  - unfold ext_ivalues, type_exts in Hin. apply in_flat_map in Hin. destruct Hin as (x & Hx & Hiv).
    apply filter_In in Hx. destruct Hx as [Hx' _].
    rewrite (doc_of_no_defaults sc x iv Hx' Hiv) in Hv. discriminate.
Qed.

(* C12_text_roundtrip for plain schemas *)
Theorem text_roundtrip_plain intro spec o fl sc text :
  plain_schema sc -> valid_locations sc -> schema_okb sc = true ->
  po_introspection o = false ->
  no_location fl = true -> allow_type_system fl = true -> all_ws (po_indent o) ->
  print_schema intro spec o sc = Ok text ->
  exists d sc', parse_document fl text = Ok d
                /\ build_model (BOpts true []) d = Ok sc'
                /\ roundtrip_equiv sc' sc = true
                /\ declares_again sc sc'.
Proof.
  intros Hp Hl Hok Hi Hnl Hts Hws Hprint.
  destruct (text_parses_to_ast intro spec o fl sc text Hp Hl Hi Hnl Hts Hws Hprint) as [Hparse Hast].
  assert (Hrules : sdl_rules_ok (doc_of sc)).
  { apply (ast_rules_ok sc (doc_of sc) Hok Hast). intros a Ha. apply (plain_default_rt _ _ sc a Hp Ha). }
  exists (doc_of sc), (declared (doc_of sc)). split; [exact Hparse|].
  destruct (members_roundtrip_doc sc (doc_of sc) Hok Hast
              (fun a Ha => plain_default_rt _ _ sc a Hp Ha) Hrules (plain_defaults_stable sc)) as (Hb & He & _).
  split; [exact Hb|]. split; [exact He|].
  apply declared_of_ast_struct; [exact Hok|exact Hast|]. intros a Ha. apply (plain_default_rt _ _ sc a Hp Ha).
Qed.

(* ------------------------------------------------------------------ *)
(* printing again: the rebuilt schema prints to the same text           *)

Lemma map_eq_transfer {A B} (s : A -> A) (P : A -> Prop) (g : A -> B) :
  (forall a b, s a = s b -> P b -> P a /\ g a = g b) ->
  forall l1 l2, map s l1 = map s l2 -> Forall P l2 -> Forall P l1 /\ map g l1 = map g l2.
Proof.
  intros H. induction l1 as [|a l1 IH]; intros [|b l2] He Hf; try discriminate; [split; [constructor|reflexivity]|].
  cbn [map] in He. injection He as Hab Hl. inversion Hf as [|? ? Hb Hl2]; subst.
  destruct (H a b Hab Hb) as [Pa Ga]. destruct (IH l2 Hl Hl2) as [Pl Gl].
  split; [constructor; assumption|]. cbn [map]. rewrite Ga, Gl. reflexivity.
Qed.

Lemma map_eq_nonempty {A B} (s : A -> B) l1 l2 : map s l1 = map s l2 -> l2 <> [] -> l1 <> [].
Proof. destruct l1, l2; try discriminate; congruence. Qed.

Lemma strip_siv_plain a b : strip_siv a = strip_siv b -> plain_siv b -> plain_siv a /\ iv_of a = iv_of b.
Proof.
  destruct a, b. unfold strip_siv, plain_siv, iv_of, nodirs. cbn. intros H. injection H as -> -> -> -> -> Hd.
  intros (H1 & H2 & H3 & H4 & H5). rewrite Hd. repeat split; assumption.
Qed.

Lemma strip_sivs_plain l1 l2 :
  map strip_siv l1 = map strip_siv l2 -> Forall plain_siv l2 -> Forall plain_siv l1 /\ map iv_of l1 = map iv_of l2.
Proof. apply map_eq_transfer. apply strip_siv_plain. Qed.

Lemma strip_sf_plain a b : strip_sf a = strip_sf b -> plain_sf b -> plain_sf a /\ fd_of a = fd_of b.
Proof.
  destruct a, b. unfold strip_sf, plain_sf, fd_of, nodirs. cbn. intros H. injection H as -> _ Ha -> -> -> Hd.
  intros (H1 & H2 & H3 & H4 & H5). destruct (strip_sivs_plain _ _ Ha H5) as [P G].
  rewrite Hd, G. repeat split; assumption.
Qed.

Lemma strip_sfs_plain l1 l2 :
  map strip_sf l1 = map strip_sf l2 -> Forall plain_sf l2 -> Forall plain_sf l1 /\ map fd_of l1 = map fd_of l2.
Proof. apply map_eq_transfer. apply strip_sf_plain. Qed.

Lemma strip_sev_plain a b : strip_sev a = strip_sev b -> plain_sev b -> plain_sev a /\ ev_of a = ev_of b.
Proof.
  destruct a, b. unfold strip_sev, plain_sev, ev_of, nodirs. cbn. intros H. injection H as -> _ -> -> Hd.
  intros (H1 & H2 & H3 & H4). rewrite Hd. repeat split; assumption.
Qed.

Lemma strip_sevs_plain l1 l2 :
  map strip_sev l1 = map strip_sev l2 -> Forall plain_sev l2 -> Forall plain_sev l1 /\ map ev_of l1 = map ev_of l2.
Proof. apply map_eq_transfer. apply strip_sev_plain. Qed.

Lemma strip_tdef_plain a b : strip_tdef a = strip_tdef b -> plain_tdef b -> plain_tdef a /\ def1_of a = def1_of b.
Proof.
  destruct a, b; cbn [strip_tdef]; intros H; try discriminate; injection H; clear H;
    unfold plain_tdef, nodirs; cbn [tdef_desc tdef_dirs tdef_name def1_of].
  - intros Hd -> ->. intros (H1 & H2 & H3 & _). rewrite Hd. repeat split; assumption.
  - intros Hd Hf -> -> ->. intros (H1 & H2 & H3 & Hne & Hfs & His).
    destruct (strip_sfs_plain _ _ Hf Hfs) as [P G]. rewrite Hd, G. repeat split; try assumption.
    eapply map_eq_nonempty; eassumption.
  - intros Hd Hf -> ->. intros (H1 & H2 & H3 & Hne & Hfs).
    destruct (strip_sfs_plain _ _ Hf Hfs) as [P G]. rewrite Hd, G. repeat split; try assumption.
    eapply map_eq_nonempty; eassumption.
  - intros Hd -> -> ->. intros (H1 & H2 & H3 & Hne & Hms). rewrite Hd. repeat split; assumption.
  - intros Hd Hv -> ->. intros (H1 & H2 & H3 & Hne & Hvs).
    destruct (strip_sevs_plain _ _ Hv Hvs) as [P G]. rewrite Hd, G. repeat split; try assumption.
    eapply map_eq_nonempty; eassumption.
  - intros Hd Hf -> ->. intros (H1 & H2 & H3 & Hne & Hfs).
    destruct (strip_sivs_plain _ _ Hf Hfs) as [P G]. rewrite Hd, G. repeat split; try assumption.
    eapply map_eq_nonempty; eassumption.
Qed.

Lemma strip_ddef_plain a b : strip_ddef a = strip_ddef b -> plain_ddef b -> plain_ddef a /\ ddef1_of a = ddef1_of b.
Proof.
  destruct a, b. unfold strip_ddef, plain_ddef, ddef1_of. cbn. intros H. injection H as -> -> -> Ha.
  intros (H1 & H2 & H3 & H4 & H5). destruct (strip_sivs_plain _ _ Ha H3) as [P G]. rewrite G. repeat split; assumption.
Qed.

(* ---- sorting a sorted list ------------------------------------------- *)
Lemma str_leb_refl a : str_leb a a = true.
Proof. induction a as [|x a IH]; cbn [str_leb]; [reflexivity|]. rewrite N.ltb_irrefl. exact IH. Qed.

Lemma str_leb_trans a b c : str_leb a b = true -> str_leb b c = true -> str_leb a c = true.
Proof.
  revert b c; induction a as [|x a IH]; intros [|y b] [|z c]; cbn [str_leb]; try discriminate; try reflexivity.
  destruct (N.ltb_spec x y), (N.ltb_spec y x), (N.ltb_spec y z), (N.ltb_spec z y), (N.ltb_spec x z), (N.ltb_spec z x);
    try discriminate; try reflexivity; try lia.
  intros; eapply IH; eauto.
Qed.

Lemma str_leb_total a b : str_leb a b = false -> str_leb b a = true.
Proof.
  revert b; induction a as [|x a IH]; intros [|y b]; cbn [str_leb]; try discriminate; try reflexivity.
  destruct (N.ltb_spec x y), (N.ltb_spec y x); try discriminate; try reflexivity; try lia. apply IH.
Qed.

Section Sorted.
  Context {A : Type} (key : A -> str).
  Let le (x y : A) : Prop := str_leb (key x) (key y) = true.

  Lemma insert_by_sorted x l : StronglySorted le l -> StronglySorted le (insert_by key x l).
  Proof.
    induction 1 as [|y l Hs IH Hall]; cbn [insert_by].
    - constructor; constructor.
    - destruct (str_leb (key y) (key x)) eqn:Hyx.
      + constructor; [exact IH|]. eapply Permutation_Forall; [apply Permutation_sym; apply insert_by_perm|].
        constructor; assumption.
      + assert (Hxy : le x y) by (apply str_leb_total; exact Hyx).
        constructor; [constructor; assumption|]. constructor; [exact Hxy|].
        eapply Forall_impl; [|exact Hall]. intros z Hz. unfold le in *. eapply str_leb_trans; eauto.
  Qed.

  Lemma sort_by_sorted l : StronglySorted le (sort_by key l).
  Proof.
    unfold sort_by.
    assert (H : forall acc, StronglySorted le acc -> StronglySorted le (fold_left (fun a x => insert_by key x a) l acc)).
    { induction l as [|x l IH]; intros acc Hacc; [exact Hacc|]. cbn [fold_left]. apply IH. apply insert_by_sorted; exact Hacc. }
    apply H. constructor.
  Qed.

  Lemma insert_by_last x acc : Forall (fun y => le y x) acc -> insert_by key x acc = acc ++ [x].
  Proof.
    induction 1 as [|y acc Hy _ IH]; [reflexivity|]. cbn [insert_by app]. unfold le in Hy. rewrite Hy, IH. reflexivity.
  Qed.

  Lemma sort_by_id l : StronglySorted le l -> sort_by key l = l.
  Proof.
    unfold sort_by.
    assert (H : forall l acc, StronglySorted le l -> Forall (fun y => Forall (le y) l) acc ->
                              fold_left (fun a x => insert_by key x a) l acc = acc ++ l).
    { clear l. induction l as [|x l IH]; intros acc Hs Hacc; cbn [fold_left]; [rewrite app_nil_r; reflexivity|].
      inversion Hs as [|? ? Hsl Hxl]; subst.
      rewrite insert_by_last by (eapply Forall_impl; [|exact Hacc]; intros y Hy; inversion Hy; assumption).
      rewrite IH; [rewrite <- app_assoc; reflexivity|exact Hsl|].
      apply Forall_app; split.
      - eapply Forall_impl; [|exact Hacc]. intros y Hy; inversion Hy; assumption.
      - constructor; [exact Hxl|constructor]. }
    intros Hs. apply (H l [] Hs). constructor.
  Qed.
End Sorted.

Lemma sorted_by_keys {A B} (ka : A -> str) (kb : B -> str) (l1 : list A) (l2 : list B) :
  map ka l1 = map kb l2 ->
  StronglySorted (fun x y => str_leb (kb x) (kb y) = true) l2 ->
  StronglySorted (fun x y => str_leb (ka x) (ka y) = true) l1.
Proof.
  revert l2; induction l1 as [|a l1 IH]; intros [|b l2] He Hs; try discriminate; [constructor|].
  cbn [map] in He. injection He as Hab Hl. inversion Hs as [|? ? Hs2 Hall]; subst. constructor; [eapply IH; eassumption|].
  rewrite Hab. clear IH Hs Hs2 Hab. revert l2 Hl Hall. induction l1 as [|x l1 IH]; intros [|y l2] Hl Hall; try discriminate; [constructor|].
  cbn [map] in Hl. injection Hl as Hxy Hl. inversion Hall; subst. constructor; [rewrite Hxy; assumption|eapply IH; eassumption].
Qed.

Lemma root_is_default_alt sc r dn :
  root_is_default sc r dn
  = match r with
    | Some n => str_eqb n dn
    | None => match default_root (s_types sc) dn with Some _ => false | None => true end
    end.
Proof. unfold root_is_default, default_root. destruct r; [reflexivity|]. destruct (find_type dn (s_types sc)) as [[]|]; reflexivity. Qed.

Lemma declares_again_doc sc sc' :
  plain_schema sc -> has_dup (map tdef_name (s_types sc)) = false ->
  declares_again sc sc' -> plain_schema sc' /\ doc_of sc' = doc_of sc.
Proof.
  intros (Ht & Hd & Hr & Hne) Hdup (Hts & HD & Rq & Rm & Rs & Rd).
  set (st := sort_by tdef_name (s_types sc)) in *. set (sd := sort_by dd_name (s_ddefs sc)) in *.
  assert (Hst : Forall plain_tdef st) by (apply sort_by_Forall; exact Ht).
  assert (Hsd : Forall plain_ddef sd) by (apply sort_by_Forall; exact Hd).
  destruct (map_eq_transfer strip_tdef plain_tdef def1_of strip_tdef_plain _ _ Hts Hst) as [Pt Gt].
  destruct (map_eq_transfer strip_ddef plain_ddef ddef1_of strip_ddef_plain _ _ HD Hsd) as [Pd Gd].
  (* the rebuilt lists are sorted already *)
  assert (Hsort_t : sort_by tdef_name (s_types sc') = s_types sc').
  { apply sort_by_id. apply (sorted_by_keys tdef_name tdef_name _ st); [|apply sort_by_sorted].
    rewrite <- (strip_names (s_types sc')), <- (strip_names st), Hts. reflexivity. }
  assert (Hsort_d : sort_by dd_name (s_ddefs sc') = s_ddefs sc').
  { apply sort_by_id. apply (sorted_by_keys dd_name dd_name _ sd); [|apply sort_by_sorted].
    rewrite <- (strip_ddef_names (s_ddefs sc')), <- (strip_ddef_names sd), HD. reflexivity. }
  (* default roots *)
  assert (Pst : Permutation st (s_types sc)) by apply sort_by_perm.
  assert (Hnd : NoDup (map tdef_name st)).
  { apply has_dup_NoDup. eapply has_dup_perm; [apply Permutation_map; apply Permutation_sym; exact Pst|exact Hdup]. }
  assert (Hdr : forall n, default_root (s_types sc') n = default_root (s_types sc) n).
  { intros n. rewrite (strip_eq_default_root n _ st Hts). unfold default_root.
    rewrite (find_type_perm st (s_types sc) n Pst Hnd). reflexivity. }
  assert (Hneeded : schema_def_needed sc' = schema_def_needed sc).
  { unfold schema_def_needed. rewrite !root_is_default_alt, Rq, Rm, Rs, Rd, !Hdr. reflexivity. }
  assert (Hsdef : sdef_of sc' = sdef_of sc) by (unfold sdef_of; rewrite Rq, Rm, Rs; reflexivity).
  split.
  - split; [exact Pt|]. split; [exact Pd|]. split.
    + destruct Hr as (Hn & Hq & Hm & Hs). unfold plain_roots. rewrite Rq, Rm, Rs. unfold nodirs in *. rewrite Rd.
      repeat split; assumption.
    + eapply map_eq_nonempty; [exact Hts|]. apply sort_by_nonempty; exact Hne.
  - unfold doc_of. rewrite Hsort_t, Hsort_d, Gt, Gd, Hneeded, Hsdef. reflexivity.
Qed.

(* C12_fixpoint for plain schemas: the rebuilt schema prints to the same text *)
Theorem fixpoint_plain intro spec o sc sc' :
  plain_schema sc -> has_dup (map tdef_name (s_types sc)) = false -> declares_again sc sc' ->
  po_introspection o = false ->
  print_schema intro spec o sc' = print_schema intro spec o sc.
Proof.
  intros Hp Hdup Hda Hi. destruct (declares_again_doc sc sc' Hp Hdup Hda) as [Hp' Hdoc].
  destruct (print_is_print_ast o intro spec sc Hp Hi) as (d & Hd & Ht).
  destruct (print_is_print_ast o intro spec sc' Hp' Hi) as (d' & Hd' & Ht').
  rewrite (ast_of_schema_plain sc Hp) in Hd. rewrite (ast_of_schema_plain sc' Hp') in Hd'.
  injection Hd as <-. injection Hd' as <-. rewrite Ht, Ht', Hdoc. reflexivity.
Qed.

Theorem text_roundtrip_fixpoint_plain intro spec o fl sc text :
  plain_schema sc -> valid_locations sc -> schema_okb sc = true ->
  po_introspection o = false ->
  no_location fl = true -> allow_type_system fl = true -> all_ws (po_indent o) ->
  print_schema intro spec o sc = Ok text ->
  exists d sc', parse_document fl text = Ok d
                /\ build_model (BOpts true []) d = Ok sc'
                /\ roundtrip_equiv sc' sc = true
                /\ print_schema intro spec o sc' = Ok text.
Proof.
  intros Hp Hl Hok Hi Hnl Hts Hws Hprint.
  destruct (text_roundtrip_plain intro spec o fl sc text Hp Hl Hok Hi Hnl Hts Hws Hprint)
    as (d & sc' & H1 & H2 & H3 & H4).
  exists d, sc'. repeat split; try assumption. rewrite <- Hprint. apply fixpoint_plain; try assumption.
  unfold schema_okb in Hok.
  apply andb_prop in Hok; destruct Hok as [Hok _].
  apply andb_prop in Hok; destruct Hok as [Hok _].
  apply andb_prop in Hok; destruct Hok as [Hok _].
  apply andb_prop in Hok; destruct Hok as [Hok _].
  apply andb_prop in Hok; destruct Hok as [Hok _].
  apply andb_prop in Hok; destruct Hok as [_ Hdupt].
  apply Bool.negb_true_iff in Hdupt. exact Hdupt.
Qed.
