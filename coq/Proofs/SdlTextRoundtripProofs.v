(* C12 at the text level, for schemas whose members carry no descriptions
   ([desc_schema]: descriptions of types and directive definitions, default
   values and applied custom directives included): the text the
   schema printer writes parses (parser model of C01, through the C03 round
   trip) to a document that builds (C11_exact_build) a schema equivalent to
   the one printed, and printing that schema gives the same text again. *)
From PyGql Require Import Lang.PrinterModel Spec.PrinterSpec Lang.Parser Spec.GrammarSpec Spec.SdlGrammarSpec
                          Proofs.PrinterRoundtrip Proofs.PrinterSdlRoundtrip.
From PyGql Require Import Spec.SdlSpec Schema.SdlPrint Spec.SdlRoundtripSpec.
From PyGql Require Import Proofs.SdlProofs Proofs.SdlExactProofs Proofs.SdlOrderProofs Proofs.SdlPrintProofs
                          Proofs.SdlTextProofs Proofs.SdlTextSchemaProofs Proofs.SdlDescLexProofs Proofs.SdlTextDescProofs Proofs.SdlMemberDescProofs
                          Proofs.SdlDocRoundtripProofs Proofs.SdlValidInvProofs Proofs.SdlDocRulesProofs.
From Coq Require Import Lia Sorting.Permutation Sorting.Sorted.

(* the guards that exclude the open findings: every default's literal coerces
   back at its declared type (custom-scalar-numeric-string-default of C12),
   and the emitted document is outside the two findings of C11 *)
Definition defaults_guard (sc : schema) : Prop :=
  exists d, ast_of_schema sc = Ok d
            /\ (forall a, In a (schema_ivalues sc) -> default_rt (env_of_schema [] sc) (declared_env d) a)
            /\ defaults_stable d.

(* schemas without descriptions are a special case *)
Lemma clear_tdesc_id t : tdef_desc t = None -> clear_tdesc t = t.
Proof. destruct t; cbn; intros ->; reflexivity. Qed.

Lemma text_schema_desc o sc : text_schema o sc -> desc_schema o sc.
Proof.
  intros (Ht & Hd & Hr & Hne). split; [|split; [|split; assumption]].
  - eapply Forall_impl; [|exact Ht]. intros t Hp. pose proof Hp as (Hde & _). split; [rewrite (clear_tdesc_id t Hde); exact Hp|].
    rewrite Hde. exact I.
  - eapply Forall_impl; [|exact Hd]. intros d Hp. pose proof Hp as (Hde & _). split; [|rewrite Hde; exact I].
    unfold clear_ddesc. destruct d as [n de l a]. cbn in Hde. subst de. exact Hp.
Qed.

(* without default values the guards hold *)
Definition no_defaults (sc : schema) : Prop := forall a, In a (schema_ivalues sc) -> siv_default a = None.

Lemma Forall2_in_right {A B} (R : A -> B -> Prop) l1 l2 y :
  Forall2 R l1 l2 -> In y l2 -> exists x, In x l1 /\ R x y.
Proof.
  induction 1 as [|a b l1 l2 Hab _ IH]; intros Hin; [destruct Hin|].
  destruct Hin as [<-|Hin]; [exists a; split; [left; reflexivity|exact Hab]|].
  destruct (IH Hin) as (x & Hx & HR). exists x. split; [right; exact Hx|exact HR].
Qed.

Lemma ast_no_defaults sc d :
  ast_of_schema sc = Ok d -> no_defaults sc ->
  forall x iv, In x (doc_defs d) -> In iv (def_ivalues x) -> iv_default iv = None.
Proof.
  intros Hast Hnd x iv Hx Hiv. destruct (ast_of_schema_inv sc d Hast) as (dds & tds & Fd & Ft & ->).
  set (E := env_of_schema [] sc) in *. cbn [doc_defs] in Hx.
  assert (Hargs : forall l ivs, Forall2 (fun a iv => ivdef_of E a = Ok iv) l ivs ->
            (forall a, In a l -> siv_default a = None) -> In iv ivs -> iv_default iv = None).
  { intros l ivs F Hl Hin. destruct (Forall2_in_right _ _ _ _ F Hin) as (a & Ha & Hiva).
    destruct (ivdef_of_facts E a iv Hiva) as (_ & _ & Hdef). rewrite (Hl a Ha) in Hdef. exact Hdef. }
  apply in_app_or in Hx. destruct Hx as [Hx|Hx].
  - unfold schema_defs in Hx. destruct (schema_def_needed sc); [|contradiction]. destruct Hx as [<-|[]]. destruct Hiv.
  - apply in_app_or in Hx. destruct Hx as [Hx|Hx].
    + destruct (Forall2_in_right _ _ _ _ Fd Hx) as (dd & Hdd & Hdef). apply sort_by_in in Hdd.
      destruct (def_of_ddef_shape E dd x Hdef) as (args & -> & Ho). cbn [def_ivalues] in Hiv.
      apply (Hargs _ _ (omap_inv _ _ _ Ho)); [|exact Hiv].
      intros a Ha. apply Hnd. unfold schema_ivalues. apply in_or_app; right. apply in_flat_map. eauto.
    + destruct (Forall2_in_right _ _ _ _ Ft Hx) as (t & Ht & Hdef). apply sort_by_in in Ht.
      assert (Hin : forall a, In a (tdef_ivalues t) -> siv_default a = None).
      { intros a Ha. apply Hnd. unfold schema_ivalues. apply in_or_app; left. apply in_flat_map. eauto. }
      assert (Hfields : forall fs fds, omap (fdef_of E) fs = Ok fds ->
                (forall a, In a (flat_map sf_args fs) -> siv_default a = None) ->
                In iv (flat_map fd_args fds) -> iv_default iv = None).
      { intros fs fds Ho Hl Hi. apply in_flat_map in Hi. destruct Hi as (fd & Hfd & Hi).
        destruct (Forall2_in_right _ _ _ _ (omap_inv _ _ _ Ho) Hfd) as (f & Hf & Hff).
        destruct (fdef_of_facts E f fd Hff) as (_ & Fa & _). apply (Hargs _ _ Fa); [|exact Hi].
        intros a Ha. apply Hl. apply in_flat_map. eauto. }
      destruct t as [n de ds|n de is_ fs ds|n de fs ds|n de ms ds|n de vs ds|n de fs ds];
        cbn [def_of_tdef tdef_ivalues] in Hdef, Hin.
      * inversion Hdef; subst x. destruct Hiv.
      * destruct (omap (fdef_of E) fs) as [fds| | |] eqn:Ho; cbn [obind] in Hdef; try discriminate. inversion Hdef; subst x.
        cbn [def_ivalues] in Hiv. apply (Hfields _ _ Ho Hin Hiv).
      * destruct (omap (fdef_of E) fs) as [fds| | |] eqn:Ho; cbn [obind] in Hdef; try discriminate. inversion Hdef; subst x.
        cbn [def_ivalues] in Hiv. apply (Hfields _ _ Ho Hin Hiv).
      * inversion Hdef; subst x. destruct Hiv.
      * inversion Hdef; subst x. destruct Hiv.
      * destruct (omap (ivdef_of E) fs) as [ivs| | |] eqn:Ho; cbn [obind] in Hdef; try discriminate. inversion Hdef; subst x.
        cbn [def_ivalues] in Hiv. apply (Hargs _ _ (omap_inv _ _ _ Ho) Hin Hiv).
Qed.

Lemma no_defaults_guard sc d : ast_of_schema sc = Ok d -> no_defaults sc -> defaults_guard sc.
Proof.
  intros Hast Hnd. exists d. split; [exact Hast|]. split.
  - intros a Ha. unfold default_rt. rewrite (Hnd a Ha). discriminate.
  - pose proof (ast_no_defaults sc d Hast Hnd) as Hdoc.
    split; intros iv Hin v Hv; exfalso.
    + unfold base_ivalues in Hin. apply in_flat_map in Hin. destruct Hin as (x & Hx & Hiv).
      assert (Hx' : In x (doc_defs d)).
      { apply in_app_or in Hx. destruct Hx as [Hx|Hx]; apply filter_In in Hx; apply Hx. }
      rewrite (Hdoc x iv Hx' Hiv) in Hv. discriminate.
    + unfold ext_ivalues, type_exts in Hin. apply in_flat_map in Hin. destruct Hin as (x & Hx & Hiv).
      apply filter_In in Hx. destruct Hx as [Hx' _].
      rewrite (Hdoc x iv Hx' Hiv) in Hv. discriminate.
Qed.

(* from the parsed document to the rebuilt schema *)
Lemma roundtrip_from_parse fl sc text d :
  parse_document fl text = Ok d -> ast_of_schema sc = Ok d -> schema_okb sc = true -> defaults_guard sc ->
  exists sc', build_model (BOpts true []) d = Ok sc' /\ roundtrip_equiv sc' sc = true /\ declares_again sc sc'.
Proof.
  intros _ Hast Hok (d' & Hast' & Hrt & Hstable). rewrite Hast in Hast'. injection Hast' as <-.
  exists (declared d).
  destruct (members_roundtrip_guarded sc d Hok Hast Hrt Hstable) as (_ & Hb & He & _).
  split; [exact Hb|]. split; [exact He|]. exact (declared_of_ast_struct sc d Hok Hast Hrt).
Qed.

(* C12_text_roundtrip *)
Theorem text_roundtrip intro spec o fl sc text :
  desc_schema o sc -> valid_locations sc -> schema_okb sc = true -> defaults_guard sc ->
  po_introspection o = false ->
  no_location fl = true -> allow_type_system fl = true -> all_ws (po_indent o) ->
  print_schema intro spec o sc = Ok text ->
  exists d sc', parse_document fl text = Ok d
                /\ build_model (BOpts true []) d = Ok sc'
                /\ roundtrip_equiv sc' sc = true
                /\ declares_again sc sc'.
Proof.
  intros Hp Hl Hok Hg Hi Hnl Hts Hws Hprint.
  destruct (text_parses_desc intro spec o fl sc text Hp Hl Hi Hnl Hts Hws Hprint) as [Hparse Hast].
  destruct (roundtrip_from_parse fl sc text _ Hparse Hast Hok Hg) as (sc' & H1 & H2 & H3).
  exists (doc_d o sc), sc'. auto.
Qed.

(* ------------------------------------------------------------------ *)
(* printing again: the rebuilt schema prints to the same text           *)

Lemma map_eq_transfer {A B} (s : A -> A) (P Q : A -> Prop) (g g' : A -> B) :
  (forall a b, s a = s b -> P b -> Q a /\ g' a = g b) ->
  forall l1 l2, map s l1 = map s l2 -> Forall P l2 -> Forall Q l1 /\ map g' l1 = map g l2.
Proof.
  intros H. induction l1 as [|a l1 IH]; intros [|b l2] He Hf; try discriminate; [split; [constructor|reflexivity]|].
  cbn [map] in He. injection He as Hab Hl. inversion Hf as [|? ? Hb Hl2]; subst.
  destruct (H a b Hab Hb) as [Pa Ga]. destruct (IH l2 Hl Hl2) as [Pl Gl].
  split; [constructor; assumption|]. cbn [map]. rewrite Ga, Gl. reflexivity.
Qed.

Lemma map_eq_nonempty {A B} (s : A -> B) l1 l2 : map s l1 = map s l2 -> l2 <> [] -> l1 <> [].
Proof. destruct l1, l2; try discriminate; congruence. Qed.

Section StripTransfer.
  Variable o : popts.
  Variables E0 E0' : env.
  Hypothesis Henv : forall n, alookup n E0 = alookup n E0'.

  Lemma dflt_transfer a b :
    siv_default a = siv_default b -> siv_type a = siv_type b -> dflt_ok E0 b ->
    dflt_ok E0' a /\ dflt_of E0' a = dflt_of E0 b.
  Proof.
    unfold dflt_ok, dflt_of. intros -> -> H. destruct (siv_default b) as [v|]; [|split; [exact I|reflexivity]].
    destruct H as (n & Hn & Hg).
    assert (Hn' : node_of_value print_fuel E0' v (siv_type b) = Ok n).
    { apply (node_env_mono E0 E0'); [|exact Hn]. intros m info Hm. rewrite <- Henv. exact Hm. }
    split; [exists n; split; assumption|rewrite Hn, Hn'; reflexivity].
  Qed.

  Lemma strip_siv_plain a b : strip_siv a = strip_siv b -> plain_siv o E0 b -> plain_siv o E0' a /\ iv_of E0' a = iv_of E0 b.
  Proof.
    intros H (H1 & H2 & H3 & H4 & H5).
    assert (Hf : siv_name a = siv_name b /\ siv_type a = siv_type b /\ siv_default a = siv_default b
                 /\ siv_desc a = siv_desc b /\ custom_dirs (siv_dirs a) = custom_dirs (siv_dirs b)).
    { clear -H. destruct a, b. unfold strip_siv in H. cbn in *. injection H as -> _ -> -> -> Hd. repeat split; try reflexivity; assumption. }
    destruct Hf as (Fn & Ft & Fd & Fde & Fdi). destruct (dflt_transfer a b Fd Ft H1) as [D1 D2].
    split.
    - unfold plain_siv, dirs_ok. rewrite Fn, Ft, Fde, Fdi. repeat split; try assumption; apply H3.
    - unfold iv_of. rewrite Fn, Ft, Fdi, D2. reflexivity.
  Qed.

  Lemma strip_sivs_plain l1 l2 :
    map strip_siv l1 = map strip_siv l2 -> Forall (plain_siv o E0) l2 ->
    Forall (plain_siv o E0') l1 /\ map (iv_of E0') l1 = map (iv_of E0) l2.
  Proof. apply map_eq_transfer. apply strip_siv_plain. Qed.

  Lemma strip_sf_plain a b : strip_sf a = strip_sf b -> plain_sf o E0 b -> plain_sf o E0' a /\ fd_of E0' a = fd_of E0 b.
  Proof.
    intros H (H1 & H2 & H3 & H4 & H5).
    assert (Hf : sf_name a = sf_name b /\ map strip_siv (sf_args a) = map strip_siv (sf_args b)
                 /\ sf_type a = sf_type b /\ sf_desc a = sf_desc b /\ sf_dep a = sf_dep b
                 /\ custom_dirs (sf_dirs a) = custom_dirs (sf_dirs b)).
    { clear -H. destruct a, b. unfold strip_sf in H. cbn in *. injection H as -> _ Ha -> -> -> Hd. repeat split; try reflexivity; assumption. }
    destruct Hf as (Fn & Fa & Ft & Fde & Fdp & Fdi). destruct (strip_sivs_plain _ _ Fa H5) as [P G].
    split.
    - unfold plain_sf, dirs_ok. rewrite Fn, Ft, Fde, Fdi. repeat split; try assumption; apply H2.
    - unfold fd_of, fdirs. rewrite Fn, Ft, Fdi, Fdp, G. reflexivity.
  Qed.

  Lemma strip_sfs_plain l1 l2 :
    map strip_sf l1 = map strip_sf l2 -> Forall (plain_sf o E0) l2 ->
    Forall (plain_sf o E0') l1 /\ map (fd_of E0') l1 = map (fd_of E0) l2.
  Proof. apply map_eq_transfer. apply strip_sf_plain. Qed.

  Lemma strip_sev_plain a b : strip_sev a = strip_sev b -> plain_sev o b -> plain_sev o a /\ ev_of a = ev_of b.
  Proof.
    intros H (H1 & H2 & H3 & H4).
    assert (Hf : sev_name a = sev_name b /\ sev_desc a = sev_desc b /\ sev_dep a = sev_dep b
                 /\ custom_dirs (sev_dirs a) = custom_dirs (sev_dirs b)).
    { clear -H. destruct a, b. unfold strip_sev in H. cbn in *. injection H as -> _ -> -> Hd. repeat split; try reflexivity; assumption. }
    destruct Hf as (Fn & Fde & Fdp & Fdi). split.
    - unfold plain_sev, dirs_ok. rewrite Fn, Fde, Fdi. repeat split; try assumption; apply H2.
    - unfold ev_of, edirs. rewrite Fn, Fdp, Fdi. reflexivity.
  Qed.

  Lemma strip_sevs_plain l1 l2 :
    map strip_sev l1 = map strip_sev l2 -> Forall (plain_sev o) l2 ->
    Forall (plain_sev o) l1 /\ map ev_of l1 = map ev_of l2.
  Proof. apply map_eq_transfer. apply strip_sev_plain. Qed.

  Lemma strip_tdef_plain a b :
    strip_tdef a = strip_tdef b -> plain_tdef o E0 b -> plain_tdef o E0' a /\ def1_of E0' a = def1_of E0 b.
  Proof.
    destruct a, b; cbn [strip_tdef]; intros H; try discriminate; injection H; clear H;
      unfold plain_tdef, dirs_ok; cbn [tdef_desc tdef_dirs tdef_name def1_of].
    - intros Hd -> ->. intros (H1 & [H2a H2b] & H3 & _). rewrite Hd. repeat split; assumption.
    - intros Hd Hf -> -> ->. intros (H1 & [H2a H2b] & H3 & Hne & Hfs & His).
      destruct (strip_sfs_plain _ _ Hf Hfs) as [P G]. rewrite Hd, G. repeat split; try assumption.
      exact (map_eq_nonempty _ _ _ Hf Hne).
    - intros Hd Hf -> ->. intros (H1 & [H2a H2b] & H3 & Hne & Hfs).
      destruct (strip_sfs_plain _ _ Hf Hfs) as [P G]. rewrite Hd, G. repeat split; try assumption.
      exact (map_eq_nonempty _ _ _ Hf Hne).
    - intros Hd -> -> ->. intros (H1 & [H2a H2b] & H3 & Hne & Hms). rewrite Hd. repeat split; assumption.
    - intros Hd Hv -> ->. intros (H1 & [H2a H2b] & H3 & Hne & Hvs).
      destruct (strip_sevs_plain _ _ Hv Hvs) as [P G]. rewrite Hd, G. repeat split; try assumption.
      exact (map_eq_nonempty _ _ _ Hv Hne).
    - intros Hd Hf -> ->. intros (H1 & [H2a H2b] & H3 & Hne & Hfs).
      destruct (strip_sivs_plain _ _ Hf Hfs) as [P G]. rewrite Hd, G. repeat split; try assumption.
      exact (map_eq_nonempty _ _ _ Hf Hne).
  Qed.

  Lemma strip_ddef_plain a b :
    strip_ddef a = strip_ddef b -> plain_ddef o E0 b -> plain_ddef o E0' a /\ ddef1_of E0' a = ddef1_of E0 b.
  Proof.
    destruct a as [an ad al aa], b as [bn bd bl ba]. unfold strip_ddef, plain_ddef, ddef1_of.
    cbn [dd_name dd_desc dd_locs dd_args]. intros H. injection H as -> -> -> Ha.
    intros (H1 & H2 & H3 & H4 & H5). destruct (strip_sivs_plain _ _ Ha H3) as [P G]. rewrite G. repeat split; assumption.
  Qed.
End StripTransfer.

(* ---- sorting a sorted list ------------------------------------------- *)
Lemma str_leb_refl a : str_leb a a = true.
Proof. induction a as [|x a IH]; cbn [str_leb]; [reflexivity|]. rewrite N.ltb_irrefl. exact IH. Qed.

Lemma str_leb_trans a b c : str_leb a b = true -> str_leb b c = true -> str_leb a c = true.
Proof.
  revert b c; induction a as [|x a IH]; intros [|y b] [|z c]; cbn [str_leb]; try discriminate; try reflexivity.
  destruct (N.ltb_spec x y), (N.ltb_spec y x), (N.ltb_spec y z), (N.ltb_spec z y), (N.ltb_spec x z), (N.ltb_spec z x);
    try discriminate; try reflexivity; try lia.
  intros; eapply IH; eauto.
Qed.

Lemma str_leb_total a b : str_leb a b = false -> str_leb b a = true.
Proof.
  revert b; induction a as [|x a IH]; intros [|y b]; cbn [str_leb]; try discriminate; try reflexivity.
  destruct (N.ltb_spec x y), (N.ltb_spec y x); try discriminate; try reflexivity; try lia. apply IH.
Qed.

Section Sorted.
  Context {A : Type} (key : A -> str).
  Let le (x y : A) : Prop := str_leb (key x) (key y) = true.

  Lemma insert_by_sorted x l : StronglySorted le l -> StronglySorted le (insert_by key x l).
  Proof.
    induction 1 as [|y l Hs IH Hall]; cbn [insert_by].
    - constructor; constructor.
    - destruct (str_leb (key y) (key x)) eqn:Hyx.
      + constructor; [exact IH|]. eapply Permutation_Forall; [apply Permutation_sym; apply insert_by_perm|].
        constructor; assumption.
      + assert (Hxy : le x y) by (apply str_leb_total; exact Hyx).
        constructor; [constructor; assumption|]. constructor; [exact Hxy|].
        eapply Forall_impl; [|exact Hall]. intros z Hz. unfold le in *. eapply str_leb_trans; eauto.
  Qed.

  Lemma sort_by_sorted l : StronglySorted le (sort_by key l).
  Proof.
    unfold sort_by.
    assert (H : forall acc, StronglySorted le acc -> StronglySorted le (fold_left (fun a x => insert_by key x a) l acc)).
    { induction l as [|x l IH]; intros acc Hacc; [exact Hacc|]. cbn [fold_left]. apply IH. apply insert_by_sorted; exact Hacc. }
    apply H. constructor.
  Qed.

  Lemma insert_by_last x acc : Forall (fun y => le y x) acc -> insert_by key x acc = acc ++ [x].
  Proof.
    induction 1 as [|y acc Hy _ IH]; [reflexivity|]. cbn [insert_by app]. unfold le in Hy. rewrite Hy, IH. reflexivity.
  Qed.

  Lemma sort_by_id l : StronglySorted le l -> sort_by key l = l.
  Proof.
    unfold sort_by.
    assert (H : forall l acc, StronglySorted le l -> Forall (fun y => Forall (le y) l) acc ->
                              fold_left (fun a x => insert_by key x a) l acc = acc ++ l).
    { clear l. induction l as [|x l IH]; intros acc Hs Hacc; cbn [fold_left]; [rewrite app_nil_r; reflexivity|].
      inversion Hs as [|? ? Hsl Hxl]; subst.
      rewrite insert_by_last by (eapply Forall_impl; [|exact Hacc]; intros y Hy; inversion Hy; assumption).
      rewrite IH; [rewrite <- app_assoc; reflexivity|exact Hsl|].
      apply Forall_app; split.
      - eapply Forall_impl; [|exact Hacc]. intros y Hy; inversion Hy; assumption.
      - constructor; [exact Hxl|constructor]. }
    intros Hs. apply (H l [] Hs). constructor.
  Qed.
End Sorted.

Lemma sorted_by_keys {A B} (ka : A -> str) (kb : B -> str) (l1 : list A) (l2 : list B) :
  map ka l1 = map kb l2 ->
  StronglySorted (fun x y => str_leb (kb x) (kb y) = true) l2 ->
  StronglySorted (fun x y => str_leb (ka x) (ka y) = true) l1.
Proof.
  revert l2; induction l1 as [|a l1 IH]; intros [|b l2] He Hs; try discriminate; [constructor|].
  cbn [map] in He. injection He as Hab Hl. inversion Hs as [|? ? Hs2 Hall]; subst. constructor; [eapply IH; eassumption|].
  rewrite Hab. clear IH Hs Hs2 Hab. revert l2 Hl Hall. induction l1 as [|x l1 IH]; intros [|y l2] Hl Hall; try discriminate; [constructor|].
  cbn [map] in Hl. injection Hl as Hxy Hl. inversion Hall; subst. constructor; [rewrite Hxy; assumption|eapply IH; eassumption].
Qed.

Lemma root_is_default_alt sc r dn :
  root_is_default sc r dn
  = match r with
    | Some n => str_eqb n dn
    | None => match default_root (s_types sc) dn with Some _ => false | None => true end
    end.
Proof. unfold root_is_default, default_root. destruct r; [reflexivity|]. destruct (find_type dn (s_types sc)) as [[]|]; reflexivity. Qed.

Lemma tinfo_strip t : tinfo_of_tdef (strip_tdef t) = tinfo_of_tdef t.
Proof.
  destruct t; cbn [strip_tdef tinfo_of_tdef]; try reflexivity; rewrite map_map; f_equal; apply map_ext; intros []; reflexivity.
Qed.

Lemma env_declares_again sc sc' :
  has_dup (map tdef_name (s_types sc)) = false -> declares_again sc sc' ->
  forall n, alookup n (env_of_schema [] sc) = alookup n (env_of_schema [] sc').
Proof.
  intros Hdup (Hts & _) n. unfold env_of_schema. rewrite !app_nil_r.
  set (f := fun t => (tdef_name t, tinfo_of_tdef t)).
  assert (Hf : forall l, map f (map strip_tdef l) = map f l).
  { intros l. rewrite map_map. apply map_ext. intros t. unfold f. rewrite strip_tdef_name, tinfo_strip. reflexivity. }
  rewrite <- (Hf (s_types sc')), Hts, Hf. symmetry. apply alookup_perm.
  - apply Permutation_map. apply sort_by_perm.
  - rewrite map_map. cbn [fst]. apply has_dup_NoDup.
    eapply has_dup_perm; [apply Permutation_map; apply Permutation_sym; apply sort_by_perm|exact Hdup].
Qed.

Lemma clear_strip t : strip_tdef (clear_tdesc t) = clear_tdesc (strip_tdef t).
Proof. destruct t; reflexivity. Qed.

Lemma strip_tdef_desc a b : strip_tdef a = strip_tdef b -> tdef_desc a = tdef_desc b.
Proof. destruct a, b; cbn [strip_tdef tdef_desc]; intros H; try discriminate; injection H; intros; subst; reflexivity. Qed.

Section DescTransfer.
  Variable o : popts.
  Variables E0 E0' : env.
  Hypothesis Henv : forall n, alookup n E0 = alookup n E0'.

  Lemma strip_dt_tdef a b :
    strip_tdef a = strip_tdef b -> dt_tdef o E0 b ->
    dt_tdef o E0' a /\ text_d o E0' a = text_d o E0 b /\ def_d E0' a = def_d E0 b.
  Proof.
    intros H [Hp Hd]. pose proof (strip_tdef_desc a b H) as Hde.
    assert (Hc : strip_tdef (clear_tdesc a) = strip_tdef (clear_tdesc b)) by (rewrite !clear_strip, H; reflexivity).
    destruct (strip_tdef_plain o E0 E0' Henv _ _ Hc Hp) as [Pa Ga].
    split; [split; [exact Pa|rewrite Hde; exact Hd]|]. split.
    - unfold text_d. rewrite Hde. f_equal.
      rewrite <- (pr_definition_plain o E0' _ Pa), <- (pr_definition_plain o E0 _ Hp), Ga. reflexivity.
    - unfold def_d. rewrite Hde, Ga. reflexivity.
  Qed.

  Lemma strip_dt_ddef a b :
    strip_ddef a = strip_ddef b -> dt_ddef o E0 b ->
    dt_ddef o E0' a /\ dtext_d o E0' a = dtext_d o E0 b /\ ddef_d E0' a = ddef_d E0 b.
  Proof.
    intros H [Hp Hd].
    assert (Hde : dd_desc a = dd_desc b) by (destruct a, b; unfold strip_ddef in H; cbn in H; injection H; intros; subst; reflexivity).
    assert (Hc : strip_ddef (clear_ddesc a) = strip_ddef (clear_ddesc b)).
    { destruct a, b; unfold strip_ddef, clear_ddesc in *; cbn in *. injection H; intros; subst. f_equal; assumption. }
    destruct (strip_ddef_plain o E0 E0' Henv _ _ Hc Hp) as [Pa Ga].
    split; [split; [exact Pa|rewrite Hde; exact Hd]|]. split.
    - unfold dtext_d. rewrite Hde. f_equal.
      rewrite <- (pr_ddef_plain o E0' _ Pa), <- (pr_ddef_plain o E0 _ Hp), Ga. reflexivity.
    - unfold ddef_d. rewrite Hde, Ga. reflexivity.
  Qed.
End DescTransfer.

Lemma map_eq_transfer3 {A B C} (s : A -> A) (P Q : A -> Prop) (g g' : A -> B) (h h' : A -> C) :
  (forall a b, s a = s b -> P b -> Q a /\ g' a = g b /\ h' a = h b) ->
  forall l1 l2, map s l1 = map s l2 -> Forall P l2 ->
    Forall Q l1 /\ map (fun x => (g' x, h' x)) l1 = map (fun x => (g x, h x)) l2.
Proof.
  intros H. induction l1 as [|a l1 IH]; intros [|b l2] He Hf; try discriminate; [split; [constructor|reflexivity]|].
  cbn [map] in He. injection He as Hab Hl. inversion Hf as [|? ? Hb Hl2]; subst.
  destruct (H a b Hab Hb) as (Pa & Ga & Ha). destruct (IH l2 Hl Hl2) as [Pl Gl].
  split; [constructor; assumption|]. cbn [map]. rewrite Ga, Ha, Gl. reflexivity.
Qed.

Lemma declares_again_doc o sc sc' :
  desc_schema o sc -> has_dup (map tdef_name (s_types sc)) = false ->
  declares_again sc sc' -> desc_schema o sc' /\ doc_items o sc' = doc_items o sc.
Proof.
  intros (Ht & Hd & Hr & Hne) Hdup Hda. pose proof (env_declares_again sc sc' Hdup Hda) as Henv.
  destruct Hda as (Hts & HD & Rq & Rm & Rs & Rd).
  set (E0 := env_of_schema [] sc) in *. set (E0' := env_of_schema [] sc') in *.
  set (st := sort_by tdef_name (s_types sc)) in *. set (sd := sort_by dd_name (s_ddefs sc)) in *.
  assert (Hst : Forall (dt_tdef o E0) st) by (apply sort_by_Forall; exact Ht).
  assert (Hsd : Forall (dt_ddef o E0) sd) by (apply sort_by_Forall; exact Hd).
  destruct (map_eq_transfer3 strip_tdef (dt_tdef o E0) (dt_tdef o E0') (text_d o E0) (text_d o E0') (def_d E0) (def_d E0')
              (strip_dt_tdef o E0 E0' Henv) _ _ Hts Hst) as [Pt Gt].
  destruct (map_eq_transfer3 strip_ddef (dt_ddef o E0) (dt_ddef o E0') (dtext_d o E0) (dtext_d o E0') (ddef_d E0) (ddef_d E0')
              (strip_dt_ddef o E0 E0' Henv) _ _ HD Hsd) as [Pd Gd].
  assert (Hsort_t : sort_by tdef_name (s_types sc') = s_types sc').
  { apply sort_by_id. apply (sorted_by_keys tdef_name tdef_name _ st); [|apply sort_by_sorted].
    rewrite <- (strip_names (s_types sc')), <- (strip_names st), Hts. reflexivity. }
  assert (Hsort_d : sort_by dd_name (s_ddefs sc') = s_ddefs sc').
  { apply sort_by_id. apply (sorted_by_keys dd_name dd_name _ sd); [|apply sort_by_sorted].
    rewrite <- (strip_ddef_names (s_ddefs sc')), <- (strip_ddef_names sd), HD. reflexivity. }
  assert (Pst : Permutation st (s_types sc)) by apply sort_by_perm.
  assert (Hnd : NoDup (map tdef_name st)).
  { apply has_dup_NoDup. eapply has_dup_perm; [apply Permutation_map; apply Permutation_sym; exact Pst|exact Hdup]. }
  assert (Hdr : forall n, default_root (s_types sc') n = default_root (s_types sc) n).
  { intros n. rewrite (strip_eq_default_root n _ st Hts). unfold default_root.
    rewrite (find_type_perm st (s_types sc) n Pst Hnd). reflexivity. }
  assert (Hneeded : schema_def_needed sc' = schema_def_needed sc).
  { unfold schema_def_needed. rewrite !root_is_default_alt, Rq, Rm, Rs, Rd, !Hdr. reflexivity. }
  assert (Hsdef : sdef_of sc' = sdef_of sc) by (unfold sdef_of; rewrite Rq, Rm, Rs, Rd; reflexivity).
  assert (Hstext : sdef_text o sc' = sdef_text o sc) by (unfold sdef_text; rewrite Rq, Rm, Rs, Rd; reflexivity).
  split.
  - split; [exact Pt|]. split; [exact Pd|]. split.
    + destruct Hr as (Hn & Hq & Hm & Hs). unfold plain_roots, dirs_ok in *. rewrite Rq, Rm, Rs, Rd.
      repeat split; try assumption; apply Hn.
    + eapply map_eq_nonempty; [exact Hts|]. apply sort_by_nonempty; exact Hne.
  - unfold doc_items. fold E0 E0' st sd. rewrite Hsort_t, Hsort_d, Gt, Gd, Hneeded, Hsdef, Hstext. reflexivity.
Qed.

(* C12_fixpoint: a schema that declares [sc] again prints to the same text *)
Theorem fixpoint_declares_again intro spec o sc sc' :
  desc_schema o sc -> has_dup (map tdef_name (s_types sc)) = false -> declares_again sc sc' ->
  po_introspection o = false ->
  print_schema intro spec o sc' = print_schema intro spec o sc.
Proof.
  intros Hp Hdup Hda Hi. destruct (declares_again_doc o sc sc' Hp Hdup Hda) as [Hp' Hdoc].
  rewrite (print_schema_desc intro spec o sc Hp Hi), (print_schema_desc intro spec o sc' Hp' Hi), Hdoc. reflexivity.
Qed.

Theorem text_roundtrip_fixpoint intro spec o fl sc text :
  desc_schema o sc -> valid_locations sc -> schema_okb sc = true -> defaults_guard sc ->
  po_introspection o = false ->
  no_location fl = true -> allow_type_system fl = true -> all_ws (po_indent o) ->
  print_schema intro spec o sc = Ok text ->
  exists d sc', parse_document fl text = Ok d
                /\ build_model (BOpts true []) d = Ok sc'
                /\ roundtrip_equiv sc' sc = true
                /\ print_schema intro spec o sc' = Ok text.
Proof.
  intros Hp Hl Hok Hg Hi Hnl Hts Hws Hprint.
  destruct (text_roundtrip intro spec o fl sc text Hp Hl Hok Hg Hi Hnl Hts Hws Hprint)
    as (d & sc' & H1 & H2 & H3 & H4).
  exists d, sc'. repeat split; try assumption. rewrite <- Hprint. apply fixpoint_declares_again; try assumption.
  unfold schema_okb in Hok.
  apply andb_prop in Hok; destruct Hok as [Hok _].
  apply andb_prop in Hok; destruct Hok as [Hok _].
  apply andb_prop in Hok; destruct Hok as [Hok _].
  apply andb_prop in Hok; destruct Hok as [Hok _].
  apply andb_prop in Hok; destruct Hok as [Hok _].
  apply andb_prop in Hok; destruct Hok as [_ Hdupt].
  apply Bool.negb_true_iff in Hdupt. exact Hdupt.
Qed.

(* ------------------------------------------------------------------ *)
(* with descriptions on fields, enum values and input fields             *)
Theorem text_roundtrip_full intro spec o fl sc text :
  full_schema o sc -> valid_locations sc -> schema_okb sc = true -> defaults_guard sc ->
  po_introspection o = false ->
  no_location fl = true -> allow_type_system fl = true -> all_ws (po_indent o) ->
  print_schema intro spec o sc = Ok text ->
  exists d sc', parse_document fl text = Ok d
                /\ build_model (BOpts true []) d = Ok sc'
                /\ roundtrip_equiv sc' sc = true
                /\ declares_again sc sc'.
Proof.
  intros Hp Hl Hok Hg Hi Hnl Hts Hws Hprint.
  destruct (text_parses_full intro spec o fl sc text Hp Hl Hi Hnl Hts Hws Hprint) as [Hparse Hast].
  destruct (roundtrip_from_parse fl sc text _ Hparse Hast Hok Hg) as (sc' & H1 & H2 & H3).
  exists (doc_f o sc), sc'. auto.
Qed.

Section FullTransfer.
  Variable o : popts.
  Variables E0 E0' : env.
  Hypothesis Henv : forall n, alookup n E0 = alookup n E0'.

  Lemma strip_d_sev first a b :
    strip_sev a = strip_sev b -> d_sev o b ->
    d_sev o a /\ ev_line o first a = ev_line o first b /\ ev_d a = ev_d b.
  Proof.
    intros H [Hp Hd].
    assert (Hf : sev_name a = sev_name b /\ sev_value a = sev_value b /\ sev_desc a = sev_desc b /\ sev_dep a = sev_dep b
                 /\ custom_dirs (sev_dirs a) = custom_dirs (sev_dirs b)).
    { clear -H. destruct a, b. unfold strip_sev in H. cbn in *. injection H as -> -> -> -> Hd. repeat split; try reflexivity; assumption. }
    destruct Hf as (Fn & Fv & Fde & Fdp & Fdi).
    assert (Hc : strip_sev (clear_sev a) = strip_sev (clear_sev b)).
    { unfold strip_sev, clear_sev. cbn [sev_name sev_value sev_desc sev_dep sev_dirs]. rewrite Fn, Fv, Fdp, Fdi. reflexivity. }
    destruct (strip_sev_plain o _ _ Hc Hp) as [Pa Ga].
    split; [split; [exact Pa|rewrite Fde; exact Hd]|]. split.
    - unfold ev_line, et, edirs. rewrite Fde, Fn, Fdp, Fdi. reflexivity.
    - unfold ev_d, edirs. rewrite Fde, Fn, Fdp, Fdi. reflexivity.
  Qed.

  Lemma strip_d_siv first a b :
    strip_siv a = strip_siv b -> d_siv o E0 b ->
    d_siv o E0' a /\ iv_line o E0' first a = iv_line o E0 first b /\ iv_d E0' a = iv_d E0 b.
  Proof.
    intros H [Hp Hd].
    assert (Hf : siv_name a = siv_name b /\ siv_py a = siv_py b /\ siv_type a = siv_type b
                 /\ siv_default a = siv_default b /\ siv_desc a = siv_desc b
                 /\ custom_dirs (siv_dirs a) = custom_dirs (siv_dirs b)).
    { clear -H. destruct a, b. unfold strip_siv in H. cbn in *. injection H as -> -> -> -> -> Hd. repeat split; try reflexivity; assumption. }
    destruct Hf as (Fn & Fp & Ft & Fd & Fde & Fdi).
    assert (Hc : strip_siv (clear_siv a) = strip_siv (clear_siv b)).
    { unfold strip_siv, clear_siv. cbn [siv_name siv_py siv_type siv_default siv_desc siv_dirs]. rewrite Fn, Fp, Ft, Fd, Fdi. reflexivity. }
    destruct (strip_siv_plain o E0 E0' Henv _ _ Hc Hp) as [Pa Ga].
    assert (Hiv : iv_text o E0' a = iv_text o E0 b).
    { change (iv_text o E0' a) with (iv_text o E0' (clear_siv a)). change (iv_text o E0 b) with (iv_text o E0 (clear_siv b)).
      rewrite <- (pr_input_value_plain o E0' _ Pa), <- (pr_input_value_plain o E0 _ Hp), Ga. reflexivity. }
    split; [split; [exact Pa|rewrite Fde; exact Hd]|]. split.
    - unfold iv_line. rewrite Fde, Hiv. reflexivity.
    - unfold iv_d. rewrite Fde, Fn, Ft, Fdi.
      assert (Hdf : dflt_of E0' a = dflt_of E0 b).
      { apply (f_equal iv_default) in Ga. cbn [iv_default iv_of] in Ga. exact Ga. }
      rewrite Hdf. reflexivity.
  Qed.

  Lemma strip_d_arg depth first a b :
    strip_siv a = strip_siv b -> d_arg o E0 depth b ->
    d_arg o E0' depth a /\ arg_line o E0' depth first a = arg_line o E0 depth first b /\ iv_d E0' a = iv_d E0 b
    /\ iv_text o E0' a = iv_text o E0 b /\ hasdesc a = hasdesc b.
  Proof.
    intros H [Hp Hd].
    assert (Hf : siv_name a = siv_name b /\ siv_py a = siv_py b /\ siv_type a = siv_type b
                 /\ siv_default a = siv_default b /\ siv_desc a = siv_desc b
                 /\ custom_dirs (siv_dirs a) = custom_dirs (siv_dirs b)).
    { clear -H. destruct a, b. unfold strip_siv in H. cbn in *. injection H as -> -> -> -> -> Hd. repeat split; try reflexivity; assumption. }
    destruct Hf as (Fn & Fp & Ft & Fd & Fde & Fdi).
    assert (Hc : strip_siv (clear_siv a) = strip_siv (clear_siv b)).
    { unfold strip_siv, clear_siv. cbn [siv_name siv_py siv_type siv_default siv_desc siv_dirs]. rewrite Fn, Fp, Ft, Fd, Fdi. reflexivity. }
    destruct (strip_siv_plain o E0 E0' Henv _ _ Hc Hp) as [Pa Ga].
    assert (Hiv : iv_text o E0' a = iv_text o E0 b).
    { change (iv_text o E0' a) with (iv_text o E0' (clear_siv a)). change (iv_text o E0 b) with (iv_text o E0 (clear_siv b)).
      rewrite <- (pr_input_value_plain o E0' _ Pa), <- (pr_input_value_plain o E0 _ Hp), Ga. reflexivity. }
    split; [split; [exact Pa|rewrite Fde; exact Hd]|]. split; [unfold arg_line; rewrite Fde, Hiv; reflexivity|].
    split; [|split; [exact Hiv|unfold hasdesc; rewrite Fde; reflexivity]].
    unfold iv_d. rewrite Fde, Fn, Ft, Fdi.
    assert (Hdf : dflt_of E0' a = dflt_of E0 b).
    { apply (f_equal iv_default) in Ga. cbn [iv_default iv_of] in Ga. exact Ga. }
    rewrite Hdf. reflexivity.
  Qed.

  Lemma strip_gargs depth : forall l1 l2 first,
    map strip_siv l1 = map strip_siv l2 -> Forall (d_arg o E0 depth) l2 ->
    Forall (d_arg o E0' depth) l1
    /\ first_map (arg_line o E0' depth) first l1 = first_map (arg_line o E0 depth) first l2
    /\ map (iv_d E0') l1 = map (iv_d E0) l2
    /\ map (iv_text o E0') l1 = map (iv_text o E0) l2
    /\ existsb hasdesc l1 = existsb hasdesc l2.
  Proof.
    induction l1 as [|a l1 IH]; intros l2 first He Hf; destruct l2 as [|b l2]; cbn [map] in He;
      [split; [constructor|cbn [first_map map existsb]; repeat split]|discriminate He|discriminate He|].
    pose proof (f_equal (fun l => hd (strip_siv a) l) He) as Hab. pose proof (f_equal (@tl _) He) as Hl.
    cbn [hd tl] in Hab, Hl. inversion Hf as [|? ? Hb Hl2]; subst.
    destruct (strip_d_arg depth first a b Hab Hb) as (Pa & La & Ga & Ta & Ha).
    destruct (IH l2 false Hl Hl2) as (Pl & Ll & Gl & Tl & Hl').
    split; [constructor; assumption|]. cbn [first_map map existsb]. rewrite La, Ll, Ga, Gl, Ta, Tl, Ha, Hl'. repeat split.
  Qed.

  Lemma gargs_transfer depth l1 l2 :
    map strip_siv l1 = map strip_siv l2 -> Forall (d_arg o E0 depth) l2 ->
    Forall (d_arg o E0' depth) l1 /\ gargs o E0' depth l1 = gargs o E0 depth l2 /\ map (iv_d E0') l1 = map (iv_d E0) l2.
  Proof.
    intros He Hf. destruct (strip_gargs depth l1 l2 true He Hf) as (P & L & G & T & Hh).
    split; [exact P|]. split; [|exact G]. unfold gargs, args_block, args_text. rewrite Hh, !(arg_items_first o), L, T.
    destruct l1, l2; try discriminate; reflexivity.
  Qed.

  Lemma strip_d_sf first a b :
    strip_sf a = strip_sf b -> d_sf o E0 b ->
    d_sf o E0' a /\ f_line o E0' first a = f_line o E0 first b /\ fd_d E0' a = fd_d E0 b.
  Proof.
    intros H (([Hg Hc] & Hn & Ht) & Ha & Hd).
    assert (Hf : sf_name a = sf_name b /\ map strip_siv (sf_args a) = map strip_siv (sf_args b)
                 /\ sf_type a = sf_type b /\ sf_desc a = sf_desc b /\ sf_dep a = sf_dep b
                 /\ custom_dirs (sf_dirs a) = custom_dirs (sf_dirs b)).
    { clear -H. destruct a, b. unfold strip_sf in H. cbn in *. injection H as -> _ Ha -> -> -> Hd. repeat split; try reflexivity; assumption. }
    destruct Hf as (Fn & Fa & Ft & Fde & Fdp & Fdi).
    destruct (gargs_transfer 1 _ _ Fa Ha) as (Pa & Ga & Ia).
    split; [|split].
    - unfold d_sf, dirs_ok. rewrite Fn, Ft, Fde, Fdi. repeat split; assumption.
    - unfold f_line, ftd, fdirs. rewrite Fde, Fn, Ft, Fdp, Fdi, Ga. reflexivity.
    - unfold fd_d, fdirs. rewrite Fde, Fn, Ft, Fdp, Fdi, Ia. reflexivity.
  Qed.

  Lemma strip_m_ddef a b :
    strip_ddef a = strip_ddef b -> m_ddef o E0 b ->
    m_ddef o E0' a /\ mdtext o E0' a = mdtext o E0 b /\ mddef E0' a = mddef E0 b.
  Proof.
    intros H (Hn & Ha & Hlne & Hl & Hd).
    assert (Hf : dd_name a = dd_name b /\ dd_desc a = dd_desc b /\ dd_locs a = dd_locs b
                 /\ map strip_siv (dd_args a) = map strip_siv (dd_args b)).
    { clear -H. destruct a, b. unfold strip_ddef in H. cbn in *. injection H as -> -> -> Hargs. repeat split; try reflexivity; assumption. }
    destruct Hf as (Fn & Fde & Fl & Fa).
    destruct (gargs_transfer 0 _ _ Fa Ha) as (Pa & Ga & Ia).
    split; [|split].
    - unfold m_ddef. rewrite Fn, Fde, Fl. repeat split; assumption.
    - unfold mdtext, mdcore. rewrite Fn, Fde, Fl, Ga. reflexivity.
    - unfold mddef, mdcore_def. rewrite Fn, Fde, Fl, Ia. reflexivity.
  Qed.
End FullTransfer.

Lemma items_transfer {A B} (s : A -> A) (P Q : A -> Prop) (line line' : bool -> A -> str) (g g' : A -> B) :
  (forall first a b, s a = s b -> P b -> Q a /\ line' first a = line first b /\ g' a = g b) ->
  forall l1 l2 first, map s l1 = map s l2 -> Forall P l2 ->
    Forall Q l1 /\ first_map line' first l1 = first_map line first l2 /\ map g' l1 = map g l2.
Proof.
  intros H. induction l1 as [|a l1 IH]; intros [|b l2] first He Hf; try discriminate; [repeat split; constructor|].
  cbn [map] in He. injection He as Hab Hl. inversion Hf as [|? ? Hb Hl2]; subst.
  destruct (H first a b Hab Hb) as (Pa & La & Ga). destruct (IH l2 false Hl Hl2) as (Pl & Ll & Gl).
  split; [constructor; assumption|]. cbn [first_map map]. rewrite La, Ll, Ga, Gl. split; reflexivity.
Qed.

Lemma ev_items_first o first vs : map fst (ev_items o first vs) = first_map (ev_line o) first vs.
Proof. revert first. induction vs as [|f r IH]; intros first; [reflexivity|]. cbn [ev_items first_map map fst]. rewrite IH. reflexivity. Qed.

Section FullTransfer2.
  Variable o : popts.
  Variables E0 E0' : env.
  Hypothesis Henv : forall n, alookup n E0 = alookup n E0'.

  Lemma strip_m_tdef a b :
    strip_tdef a = strip_tdef b -> m_tdef o E0 b ->
    m_tdef o E0' a /\ mtext o E0' a = mtext o E0 b /\ mdef E0' a = mdef E0 b.
  Proof.
    intros H Hm. pose proof Hm as (Hde & Hdirs & Hname & Hk).
    destruct a as [n d ds|n d is_ fs ds|n d fs ds|n d ms ds|n d vs ds|n d fs ds],
             b as [n' d' ds'|n' d' is' fs' ds'|n' d' fs' ds'|n' d' ms' ds'|n' d' vs' ds'|n' d' fs' ds'];
      cbn [strip_tdef] in H; try discriminate; injection H; clear H;
      cbn [tdef_desc tdef_dirs tdef_name] in Hde, Hdirs, Hname; subst d'.
    - intros Hd -> ->. unfold m_tdef, dirs_ok in *. cbn [tdef_desc tdef_dirs tdef_name mtext mdef type_text def1_of].
      rewrite Hd. repeat split; try assumption; apply Hdirs.
    - intros Hd Hf -> -> ->. destruct Hk as (Hne & Hfs & His).
      destruct (items_transfer strip_sf (d_sf o E0) (d_sf o E0') (f_line o E0) (f_line o E0') (fd_d E0) (fd_d E0')
                  (fun first x y => strip_d_sf o E0 E0' Henv first x y) _ _ true Hf Hfs) as (P & L & G).
      unfold m_tdef, dirs_ok in *. cbn [tdef_desc tdef_dirs tdef_name mtext mdef].
      rewrite !(f_items_first o), L, G, Hd. repeat split; try assumption; try apply Hdirs.
      exact (map_eq_nonempty _ _ _ Hf Hne).
    - intros Hd Hf -> ->. destruct Hk as (Hne & Hfs).
      destruct (items_transfer strip_sf (d_sf o E0) (d_sf o E0') (f_line o E0) (f_line o E0') (fd_d E0) (fd_d E0')
                  (fun first x y => strip_d_sf o E0 E0' Henv first x y) _ _ true Hf Hfs) as (P & L & G).
      unfold m_tdef, dirs_ok in *. cbn [tdef_desc tdef_dirs tdef_name mtext mdef].
      rewrite !(f_items_first o), L, G, Hd. repeat split; try assumption; try apply Hdirs.
      exact (map_eq_nonempty _ _ _ Hf Hne).
    - intros Hd -> -> ->. unfold m_tdef, dirs_ok in *. cbn [tdef_desc tdef_dirs tdef_name mtext mdef type_text def1_of].
      rewrite Hd. repeat split; try assumption; try apply Hdirs; apply Hk.
    - intros Hd Hv -> ->. destruct Hk as (Hne & Hvs).
      destruct (items_transfer strip_sev (d_sev o) (d_sev o) (ev_line o) (ev_line o) ev_d ev_d
                  (fun first x y => strip_d_sev o first x y) _ _ true Hv Hvs) as (P & L & G).
      unfold m_tdef, dirs_ok in *. cbn [tdef_desc tdef_dirs tdef_name mtext mdef].
      rewrite !ev_items_first, L, G, Hd. repeat split; try assumption; try apply Hdirs.
      exact (map_eq_nonempty _ _ _ Hv Hne).
    - intros Hd Hf -> ->. destruct Hk as (Hne & Hfs).
      destruct (items_transfer strip_siv (d_siv o E0) (d_siv o E0') (iv_line o E0) (iv_line o E0') (iv_d E0) (iv_d E0')
                  (fun first x y => strip_d_siv o E0 E0' Henv first x y) _ _ true Hf Hfs) as (P & L & G).
      unfold m_tdef, dirs_ok in *. cbn [tdef_desc tdef_dirs tdef_name mtext mdef].
      rewrite !(iv_items_first o), L, G, Hd. repeat split; try assumption; try apply Hdirs.
      exact (map_eq_nonempty _ _ _ Hf Hne).
  Qed.

  Lemma strip_full_tdef a b :
    strip_tdef a = strip_tdef b -> full_tdef o E0 b ->
    full_tdef o E0' a /\ ftext o E0' a = ftext o E0 b /\ fdef E0' a = fdef E0 b.
  Proof.
    intros H [Hm Hd]. pose proof (strip_tdef_desc a b H) as Hde.
    assert (Hc : strip_tdef (clear_tdesc a) = strip_tdef (clear_tdesc b)) by (rewrite !clear_strip, H; reflexivity).
    destruct (strip_m_tdef _ _ Hc Hm) as (Pa & Ta & Ga).
    split; [split; [exact Pa|rewrite Hde; exact Hd]|]. split.
    - unfold ftext. rewrite Hde, Ta. reflexivity.
    - unfold fdef. rewrite Hde, Ga. reflexivity.
  Qed.
End FullTransfer2.

Lemma declares_again_full o sc sc' :
  full_schema o sc -> has_dup (map tdef_name (s_types sc)) = false ->
  declares_again sc sc' -> full_schema o sc' /\ full_items o sc' = full_items o sc.
Proof.
  intros (Ht & Hd & Hr & Hne) Hdup Hda. pose proof (env_declares_again sc sc' Hdup Hda) as Henv.
  destruct Hda as (Hts & HD & Rq & Rm & Rs & Rd).
  set (E0 := env_of_schema [] sc) in *. set (E0' := env_of_schema [] sc') in *.
  set (st := sort_by tdef_name (s_types sc)) in *. set (sd := sort_by dd_name (s_ddefs sc)) in *.
  assert (Hst : Forall (full_tdef o E0) st) by (apply sort_by_Forall; exact Ht).
  assert (Hsd : Forall (m_ddef o E0) sd) by (apply sort_by_Forall; exact Hd).
  destruct (map_eq_transfer3 strip_tdef (full_tdef o E0) (full_tdef o E0') (ftext o E0) (ftext o E0') (fdef E0) (fdef E0')
              (strip_full_tdef o E0 E0' Henv) _ _ Hts Hst) as [Pt Gt].
  destruct (map_eq_transfer3 strip_ddef (m_ddef o E0) (m_ddef o E0') (mdtext o E0) (mdtext o E0') (mddef E0) (mddef E0')
              (strip_m_ddef o E0 E0' Henv) _ _ HD Hsd) as [Pd Gd].
  assert (Hsort_t : sort_by tdef_name (s_types sc') = s_types sc').
  { apply sort_by_id. apply (sorted_by_keys tdef_name tdef_name _ st); [|apply sort_by_sorted].
    rewrite <- (strip_names (s_types sc')), <- (strip_names st), Hts. reflexivity. }
  assert (Hsort_d : sort_by dd_name (s_ddefs sc') = s_ddefs sc').
  { apply sort_by_id. apply (sorted_by_keys dd_name dd_name _ sd); [|apply sort_by_sorted].
    rewrite <- (strip_ddef_names (s_ddefs sc')), <- (strip_ddef_names sd), HD. reflexivity. }
  assert (Pst : Permutation st (s_types sc)) by apply sort_by_perm.
  assert (Hnd : NoDup (map tdef_name st)).
  { apply has_dup_NoDup. eapply has_dup_perm; [apply Permutation_map; apply Permutation_sym; exact Pst|exact Hdup]. }
  assert (Hdr : forall n, default_root (s_types sc') n = default_root (s_types sc) n).
  { intros n. rewrite (strip_eq_default_root n _ st Hts). unfold default_root.
    rewrite (find_type_perm st (s_types sc) n Pst Hnd). reflexivity. }
  assert (Hneeded : schema_def_needed sc' = schema_def_needed sc).
  { unfold schema_def_needed. rewrite !root_is_default_alt, Rq, Rm, Rs, Rd, !Hdr. reflexivity. }
  assert (Hsdef : sdef_of sc' = sdef_of sc) by (unfold sdef_of; rewrite Rq, Rm, Rs, Rd; reflexivity).
  assert (Hstext : sdef_text o sc' = sdef_text o sc) by (unfold sdef_text; rewrite Rq, Rm, Rs, Rd; reflexivity).
  split.
  - split; [exact Pt|]. split; [exact Pd|]. split.
    + destruct Hr as (Hn & Hq & Hm & Hs). unfold plain_roots, dirs_ok in *. rewrite Rq, Rm, Rs, Rd.
      repeat split; try assumption; apply Hn.
    + eapply map_eq_nonempty; [exact Hts|]. apply sort_by_nonempty; exact Hne.
  - unfold full_items. fold E0 E0' st sd. rewrite Hsort_t, Hsort_d, Gt, Gd, Hneeded, Hsdef, Hstext. reflexivity.
Qed.

Theorem fixpoint_declares_again_full intro spec o sc sc' :
  full_schema o sc -> all_ws (po_indent o) -> has_dup (map tdef_name (s_types sc)) = false -> declares_again sc sc' ->
  po_introspection o = false ->
  print_schema intro spec o sc' = print_schema intro spec o sc.
Proof.
  intros Hp Hws Hdup Hda Hi. destruct (declares_again_full o sc sc' Hp Hdup Hda) as [Hp' Hdoc].
  rewrite (print_schema_full intro spec o sc Hp Hws Hi), (print_schema_full intro spec o sc' Hp' Hws Hi), Hdoc. reflexivity.
Qed.

Theorem text_roundtrip_fixpoint_full intro spec o fl sc text :
  full_schema o sc -> valid_locations sc -> schema_okb sc = true -> defaults_guard sc ->
  po_introspection o = false ->
  no_location fl = true -> allow_type_system fl = true -> all_ws (po_indent o) ->
  print_schema intro spec o sc = Ok text ->
  exists d sc', parse_document fl text = Ok d
                /\ build_model (BOpts true []) d = Ok sc'
                /\ roundtrip_equiv sc' sc = true
                /\ print_schema intro spec o sc' = Ok text.
Proof.
  intros Hp Hl Hok Hg Hi Hnl Hts Hws Hprint.
  destruct (text_roundtrip_full intro spec o fl sc text Hp Hl Hok Hg Hi Hnl Hts Hws Hprint)
    as (d & sc' & H1 & H2 & H3 & H4).
  exists d, sc'. repeat split; try assumption. rewrite <- Hprint. apply fixpoint_declares_again_full; try assumption.
  unfold schema_okb in Hok.
  apply andb_prop in Hok; destruct Hok as [Hok _].
  apply andb_prop in Hok; destruct Hok as [Hok _].
  apply andb_prop in Hok; destruct Hok as [Hok _].
  apply andb_prop in Hok; destruct Hok as [Hok _].
  apply andb_prop in Hok; destruct Hok as [Hok _].
  apply andb_prop in Hok; destruct Hok as [_ Hdupt].
  apply Bool.negb_true_iff in Hdupt. exact Hdupt.
Qed.

(* inclusion of the classes *)
Lemma clear_sf_id f : sf_desc f = None -> clear_sf f = f.
Proof. destruct f; cbn; intros ->; reflexivity. Qed.
Lemma clear_sev_id v : sev_desc v = None -> clear_sev v = v.
Proof. destruct v; cbn; intros ->; reflexivity. Qed.
Lemma clear_siv_id a : siv_desc a = None -> clear_siv a = a.
Proof. destruct a; cbn; intros ->; reflexivity. Qed.

Lemma plain_d_sf o E0 f : plain_sf o E0 f -> d_sf o E0 f.
Proof.
  intros (Hd & Hdirs & Hn & Ht & Ha). split; [split; [exact Hdirs|split; assumption]|]. split; [|rewrite Hd; exact I].
  eapply Forall_impl; [|exact Ha]. intros a Hp. pose proof Hp as (_ & Hde & _).
  split; [rewrite (clear_siv_id a Hde); exact Hp|rewrite Hde; exact I].
Qed.

Lemma plain_m_tdef o E0 t : plain_tdef o E0 t -> m_tdef o E0 t.
Proof.
  intros (Hde & Hdirs & Hname & Hk). split; [exact Hde|]. split; [exact Hdirs|]. split; [exact Hname|].
  destruct t; try exact Hk.
  - destruct Hk as (Hne & Hf & Hi). split; [exact Hne|]. split; [|exact Hi].
    eapply Forall_impl; [|exact Hf]. intros f Hp. apply plain_d_sf; exact Hp.
  - destruct Hk as (Hne & Hf). split; [exact Hne|].
    eapply Forall_impl; [|exact Hf]. intros f Hp. apply plain_d_sf; exact Hp.
  - destruct Hk as (Hne & Hf). split; [exact Hne|].
    eapply Forall_impl; [|exact Hf]. intros f Hp. pose proof Hp as (Hd & _). split; [rewrite (clear_sev_id f Hd); exact Hp|rewrite Hd; exact I].
  - destruct Hk as (Hne & Hf). split; [exact Hne|].
    eapply Forall_impl; [|exact Hf]. intros f Hp. pose proof Hp as (_ & Hd & _). split; [rewrite (clear_siv_id f Hd); exact Hp|rewrite Hd; exact I].
Qed.

Lemma dt_m_ddef o E0 d :
  dt_ddef o E0 d -> Forall (fun l => In l (map str_of_string directive_location_names)) (dd_locs d) -> m_ddef o E0 d.
Proof.
  intros [(_ & Hn & Ha & Hlne & _) Hd] Hl. cbn [clear_ddesc dd_name dd_args dd_locs] in *.
  split; [exact Hn|]. split; [|split; [exact Hlne|split; [exact Hl|exact Hd]]].
  eapply Forall_impl; [|exact Ha]. intros a Hp. pose proof Hp as (_ & Hde & _).
  split; [rewrite (clear_siv_id a Hde); exact Hp|rewrite Hde; exact I].
Qed.

Lemma desc_schema_full o sc : desc_schema o sc -> valid_locations sc -> full_schema o sc.
Proof.
  intros (Ht & Hd & Hr & Hne) Hl. split; [|split; [|split; assumption]].
  - eapply Forall_impl; [|exact Ht]. intros t [Hp Hde]. split; [apply plain_m_tdef; exact Hp|exact Hde].
  - apply Forall_forall. intros d Hin. unfold valid_locations in Hl. rewrite Forall_forall in Hd, Hl.
    apply dt_m_ddef; [apply Hd|apply Hl]; exact Hin.
Qed.
