(* C20: when the differ reports nothing BREAKING, operations valid against
   the old schema (rule core of Spec/DifferSpec.v) stay valid. *)
From PyGql Require Import Schema.SchemaFull Schema.DifferModel Spec.DifferSpec
  Proofs.SchemaFullLemmas Proofs.DifferProofs Proofs.DifferEditProofs.

Definition no_breaking (l : list change) : Prop := forall c, In c l -> c_sev c <> Breaking.

Lemma has_breaking_false l : has_breaking l = false -> no_breaking l.
Proof.
  unfold has_breaking, no_breaking. intros H c Hc Hs.
  assert (existsb (fun c => match c_sev c with Breaking => true | _ => false end) l = true).
  { apply existsb_exists. exists c. split; [exact Hc|]. rewrite Hs. reflexivity. }
  congruence.
Qed.

Lemma no_breaking_app_l a b : no_breaking (a ++ b) -> no_breaking a.
Proof. intros H c Hc. apply H. apply in_or_app; left; exact Hc. Qed.
Lemma no_breaking_app_r a b : no_breaking (a ++ b) -> no_breaking b.
Proof. intros H c Hc. apply H. apply in_or_app; right; exact Hc. Qed.
Lemma no_breaking_flat_map {A} (f : A -> list change) l x :
  no_breaking (flat_map f l) -> In x l -> no_breaking (f x).
Proof. intros H Hx c Hc. apply H. apply in_flat_map. exists x. auto. Qed.
Lemma breaking_absurd c p l : no_breaking (ch c Breaking p :: l) -> False.
Proof. intros H. apply (H (ch c Breaking p)); [left; reflexivity|reflexivity]. Qed.

Lemma safe_in_nonnull o x : safe_in o (TyNonNull x) = true -> is_non_null o = true.
Proof. destruct o; simpl; try discriminate; reflexivity. Qed.

Lemma safe_out_unwrap : forall n o, safe_out o n = true -> unwrap o = unwrap n.
Proof.
  induction n as [b|ni IH|ni IH]; intros o H.
  - destruct o as [a| |]; simpl in H; try discriminate. apply str_eqb_eq in H. simpl. congruence.
  - destruct o as [a|oi|oi]; simpl in H; try discriminate.
    apply andb_true_iff in H. destruct H as [H _]. simpl. apply IH; exact H.
  - destruct o as [a|oi|oi]; simpl in H.
    + exact (IH _ H).
    + exact (IH _ H).
    + simpl. apply IH; exact H.
Qed.

Definition same_builtins (o n : schema) : Prop :=
  forall tn t t', find_type (s_types o) tn = Some t -> find_type (s_types n) tn = Some t' ->
                  t_intro t = t_intro t'.

Section Sound.
  Variables o n : schema.
  Hypothesis NB : no_breaking (diff_model o n).
  Hypothesis Hintro : same_builtins o n.
  Hypothesis Hwf : wf_schema n.

  Let ots := s_types o.
  Let nts := s_types n.

  Lemma pass_removed t : In t ots -> no_breaking (removed_of nts t).
  Proof. intros Hin c Hc. apply NB. in_model 0. apply in_flat_map. exists t. auto. Qed.
  Lemma pass_kind t : In t ots -> no_breaking (changed_kind_of nts t).
  Proof. intros Hin c Hc. apply NB. in_model 3. apply in_flat_map. exists t. auto. Qed.
  Lemma pass_object t : In t ots -> no_breaking (object_of nts t).
  Proof. intros Hin c Hc. apply NB. in_model 6. apply in_flat_map. exists t. auto. Qed.
  Lemma pass_interface t : In t ots -> no_breaking (interface_of nts t).
  Proof. intros Hin c Hc. apply NB. in_model 7. apply in_flat_map. exists t. auto. Qed.

  Lemma type_kept tn t :
    find_type ots tn = Some t ->
    exists t', find_type nts tn = Some t' /\ kind_code (t_body t) = kind_code (t_body t').
  Proof.
    intros Hf. destruct (look_some_in t_name _ _ _ Hf) as [Hin Hn].
    pose proof (pass_removed t Hin) as H1. pose proof (pass_kind t Hin) as H2.
    unfold removed_of in H1. unfold changed_kind_of in H2. rewrite Hn in H1, H2.
    destruct (find_type nts tn) as [t'|]; [|exfalso; exact (breaking_absurd _ _ _ H1)].
    exists t'. split; [reflexivity|].
    destruct (N.eqb_spec (kind_code (t_body t)) (kind_code (t_body t'))); [assumption|].
    exfalso; exact (breaking_absurd _ _ _ H2).
  Qed.

  Lemma is_leaf_kept tn : is_leaf o tn = true -> is_leaf n tn = true.
  Proof.
    unfold is_leaf. fold ots nts. destruct (find_type ots tn) as [t|] eqn:E; [|discriminate].
    destruct (type_kept _ _ E) as (t' & -> & Hk).
    destruct (t_body t), (t_body t'); simpl in Hk; try discriminate; auto.
  Qed.

  Lemma composite_kept tn fs :
    composite_fields o tn = Some fs ->
    exists fs', composite_fields n tn = Some fs' /\ no_breaking (diff_fields tn fs fs')
                /\ is_leaf n tn = false
                /\ Forall (fun g => names_unique a_name (f_args g)) fs'.
  Proof.
    unfold composite_fields, user_body, is_leaf. fold ots nts.
    destruct (find_type ots tn) as [t|] eqn:E; [|discriminate].
    destruct (t_intro t) eqn:Ei; [discriminate|].
    destruct (type_kept _ _ E) as (t' & E' & Hk). rewrite E'.
    rewrite <- (Hintro tn t t' E E'), Ei.
    destruct (look_some_in t_name _ _ _ E) as [Hin Hn].
    destruct (look_some_in t_name _ _ _ E') as [Hin' _].
    destruct Hwf as (_ & _ & Hb & _). rewrite Forall_forall in Hb. specialize (Hb t' Hin').
    destruct (t_body t) as [|i f r|f|ms| |] eqn:Eb; try discriminate; intros H; injection H as <-;
      destruct (t_body t') as [|i' f' r'|f'|ms'| |] eqn:Eb'; simpl in Hk; try discriminate.
    - exists f'. repeat split; try reflexivity; [|apply Hb].
      pose proof (pass_object t Hin) as Hp. unfold object_of in Hp.
      rewrite Ei, Eb, Hn in Hp. fold nts in Hp. rewrite E', Eb' in Hp.
      apply no_breaking_app_l in Hp. exact Hp.
    - exists f'. repeat split; try reflexivity; [|apply Hb].
      pose proof (pass_interface t Hin) as Hp. unfold interface_of in Hp.
      rewrite Ei, Eb, Hn in Hp. fold nts in Hp. rewrite E', Eb' in Hp. exact Hp.
    - exists []. repeat split; try reflexivity; [|constructor].
      intros c Hc; destruct Hc.
  Qed.

  Lemma field_kept tn fs fs' name f :
    no_breaking (diff_fields tn fs fs') -> find_field fs name = Some f ->
    exists g, find_field fs' name = Some g /\ In g fs' /\ no_breaking (diff_field tn f g).
  Proof.
    intros Hnb Hf. destruct (look_some_in f_name _ _ _ Hf) as [Hin Hn].
    apply no_breaking_app_l in Hnb. pose proof (no_breaking_flat_map _ _ f Hnb Hin) as H. simpl in H.
    rewrite Hn in H. destruct (find_field fs' name) as [g|] eqn:Eg; [|exfalso; exact (breaking_absurd _ _ _ H)].
    exists g. split; [reflexivity|]. split; [|exact H].
    apply (look_some_in f_name _ _ _ Eg).
  Qed.

  Lemma args_kept R C D A path oa na :
    no_breaking (diff_args R C D A path oa na) ->
    (forall a, find_arg oa a <> None -> find_arg na a <> None)
    /\ (NoDup (map a_name na) ->
        forall b, In b na -> required_arg b ->
                  exists a, In a oa /\ a_name a = a_name b /\ required_arg a).
  Proof.
    intros Hnb. pose proof (no_breaking_app_l _ _ Hnb) as H1. pose proof (no_breaking_app_r _ _ Hnb) as H2.
    split.
    - intros an Ha. apply (look_not_none a_name) in Ha. destruct Ha as [a Ha].
      destruct (look_some_in a_name _ _ _ Ha) as [Hin Hn].
      pose proof (no_breaking_flat_map _ _ a H1 Hin) as H. simpl in H. rewrite Hn in H.
      destruct (find_arg na an); [congruence|exfalso; exact (breaking_absurd _ _ _ H)].
    - intros Hnd b Hb [Hbn Hbd].
      pose proof (no_breaking_flat_map _ _ b H2 Hb) as H. simpl in H.
      destruct (find_arg oa (a_name b)) as [a|] eqn:Ea.
      + destruct (look_some_in a_name _ _ _ Ea) as [Hin Hn].
        exists a. split; [exact Hin|]. split; [exact Hn|].
        pose proof (no_breaking_flat_map _ _ a H1 Hin) as H'. simpl in H'.
        rewrite Hn in H'. unfold find_arg in H'. rewrite (find_unique a_name na b Hnd Hb) in H'.
        destruct (negb (safe_in (a_type a) (a_type b))) eqn:Es; [exfalso; exact (breaking_absurd _ _ _ H')|].
        apply negb_false_iff in Es.
        assert (Hnn : is_non_null (a_type a) = true).
        { destruct (a_type b) as [|?|x] eqn:Et; simpl in Hbn; try discriminate.
          apply (safe_in_nonnull _ x). exact Es. }
        split; [exact Hnn|].
        destruct (a_default a) as [dv|] eqn:Ed; [|reflexivity]. exfalso.
        rewrite Hbd in H'. simpl in H'.
        unfold arg_required in H'. rewrite Hbn, Hbd, Hnn, Ed in H'. simpl in H'.
        exact (breaking_absurd _ _ _ H').
      + unfold arg_required in H. rewrite Hbn, Hbd in H. simpl in H.
        exfalso; exact (breaking_absurd _ _ _ H).
  Qed.

  Fixpoint sel_ok_kept (x : sel) : forall parent, sel_ok o parent x -> sel_ok n parent x.
  Proof.
    destruct x as [name args sub|tc sub]; intros parent H; simpl in H |- *.
    - destruct H as (fs & f & Hc & Hf & Hk & Hreq & Hsub).
      destruct (composite_kept _ _ Hc) as (fs' & Hc' & Hnb & _ & Hun).
      destruct (field_kept _ _ _ _ _ Hnb Hf) as (g & Hg & Hgin & Hd).
      exists fs', g. split; [exact Hc'|]. split; [exact Hg|].
      assert (Hso : safe_out (f_type f) (f_type g) = true).
      { unfold diff_field in Hd. apply no_breaking_app_l in Hd.
        destruct (safe_out (f_type f) (f_type g)); [reflexivity|]. simpl in Hd.
        exfalso; exact (breaking_absurd _ _ _ Hd). }
      assert (Ha : no_breaking (diff_args CFieldArgumentRemoved CFieldArgumentChangedType
                                  CFieldArgumentDefaultValueChange CFieldArgumentAdded
                                  [parent; f_name f] (f_args f) (f_args g))).
      { unfold diff_field in Hd. apply no_breaking_app_r in Hd. apply no_breaking_app_l in Hd. exact Hd. }
      destruct (args_kept _ _ _ _ _ _ _ Ha) as [A1 A2].
      rewrite Forall_forall in Hun. specialize (A2 (Hun g Hgin)).
      split; [intros a Hin; apply A1; apply Hk; exact Hin|].
      split.
      { intros b Hb Hr. destruct (A2 b Hb Hr) as (a & Hain & Hn & Hra). rewrite <- Hn. apply Hreq; assumption. }
      rewrite <- (safe_out_unwrap _ _ Hso).
      destruct (is_leaf o (unwrap (f_type f))) eqn:El.
      + rewrite (is_leaf_kept _ El). exact Hsub.
      + destruct Hsub as (Hne & Hcomp & Hall).
        destruct (composite_fields o (unwrap (f_type f))) as [cf|] eqn:Ecf; [|congruence].
        destruct (composite_kept _ _ Ecf) as (cf' & Hcf' & _ & Hl & _).
        rewrite Hl. split; [exact Hne|]. split; [congruence|].
        clear Hne. induction sub as [|y l IHl]; [exact I|].
        destruct Hall as [Hy Hl']. split; [apply sel_ok_kept; exact Hy|apply IHl; exact Hl'].
    - destruct H as (Hcomp & Hall).
      destruct (composite_fields o tc) as [cf|] eqn:Ecf; [|congruence].
      destruct (composite_kept _ _ Ecf) as (cf' & Hcf' & _ & _ & _).
      split; [congruence|].
      induction sub as [|y l IHl]; [exact I|].
      destruct Hall as [Hy Hl']. split; [apply sel_ok_kept; exact Hy|apply IHl; exact Hl'].
  Qed.

  Theorem no_breaking_sound op :
    s_query o = s_query n -> client_ok o op -> client_ok n op.
  Proof.
    intros Hq (q & Hoq & Hc & Hall). exists q. split; [congruence|].
    destruct (composite_fields o q) as [cf|] eqn:Ecf; [|congruence].
    destruct (composite_kept _ _ Ecf) as (cf' & Hcf' & _ & _ & _).
    split; [congruence|].
    eapply Forall_impl; [|exact Hall]. intros x. apply sel_ok_kept.
  Qed.
End Sound.
