(* C01_follow: in no derivable document, value or type is a Float token
   directly followed by an Ellip token; hence the documented (strict) lexical
   grammar and the implemented one coincide on derivable token sequences. *)
From PyGql Require Import Lang.Parser Spec.LexSpec Spec.LexicalSpec Spec.GrammarSpec Spec.DocGrammarSpec
  Spec.SdlGrammarSpec Proofs.LexProofs Proofs.LexicalProofs Proofs.GrammarProofs.
Local Open Scope N_scope.

(* stronger and compositional: every Float token has a successor, which is not an Ellip *)
Fixpoint ffe (ts : list ptok) : Prop :=
  match ts with
  | t1 :: r => (tk t1 = KFloat -> match r with t2 :: _ => tk t2 <> KEllip | [] => False end) /\ ffe r
  | [] => True
  end.

Definition ef (ts : list ptok) : Prop := Forall (fun t => tk t <> KEllip) ts.   (* no Ellip at all *)
Definition nf (ts : list ptok) : Prop := Forall (fun t => tk t <> KFloat) ts.   (* no Float at all *)

Lemma ffe_nfe ts : ffe ts -> nfe ts.
Proof.
  induction ts as [|t r IH]; simpl; [auto|]. intros [H1 H2]. split; [|auto].
  destruct r; [exact I|exact H1].
Qed.

Lemma ffe_app a b : ffe a -> ffe b -> ffe (a ++ b).
Proof.
  induction a as [|t r IH]; simpl; [auto|]. intros [H1 H2] Hb. split; [|auto].
  intros K. specialize (H1 K). destruct r; [contradiction|exact H1].
Qed.

Lemma ffe_nf ts : nf ts -> ffe ts.
Proof. induction 1; simpl; [exact I|]. split; [intros K; contradiction|assumption]. Qed.

Lemma ffe_one t : tk t <> KFloat -> ffe [t].
Proof. intros H. apply ffe_nf. constructor; [exact H|constructor]. Qed.

Lemma ffe_cons t r : tk t <> KFloat -> ffe r -> ffe (t :: r).
Proof. intros H Hr. apply (ffe_app [t] r); [apply ffe_one; exact H|exact Hr]. Qed.

(* an Ellip-free body closed by a token that is neither Ellip nor Float *)
Lemma ffe_closed body cl : ef body -> tk cl <> KEllip -> tk cl <> KFloat -> ffe (body ++ [cl]).
Proof.
  intros Hb H1 H2. induction Hb as [|t r Ht Hr IH]; simpl; [split; [intros K; contradiction|exact I]|].
  split; [|exact IH]. intros _. destruct r as [|t2 r']; simpl; [exact H1|]. inversion Hr; assumption.
Qed.

Lemma ef_app a b : ef (a ++ b) <-> ef a /\ ef b.
Proof. apply Forall_app. Qed.

Lemma nf_app a b : nf (a ++ b) <-> nf a /\ nf b.
Proof. apply Forall_app. Qed.

Ltac kind_ne :=
  match goal with
  | K : tk ?t = _ |- tk ?t <> _ => rewrite K; discriminate
  | W : is_word _ ?t |- tk ?t <> _ => destruct W as [K _]; rewrite K; discriminate
  | D : D_operation_type ?t _ |- tk ?t <> _ => destruct D as [? [K _]|? [K _]|? [K _]]; rewrite K; discriminate
  end.

(* decompose a goal  P (t1 :: a ++ t2 :: b ++ ...)  for P = ef / nf *)
Ltac forall_parts :=
  repeat first [ apply Forall_nil
               | apply Forall_cons; [try kind_ne|]
               | apply Forall_app; split
               | assumption ].

Ltac ffe_parts :=
  repeat first [ exact I
               | assumption
               | apply ffe_cons; [try kind_ne|]
               | apply ffe_app ].

Section Follow.
Variable nl : bool.

(* ---- Ellip-free pieces ---- *)
Lemma D_type_ef_nf ts t : D_type nl ts t -> ef ts /\ nf ts.
Proof.
  induction 1 as [t Hk|o ts c inner Ho Hc Hd [IH1 IH2]|ts b inner Hb Hd [IH1 IH2] Hnn];
    split; unfold ef, nf in *; forall_parts.
Qed.

Lemma D_value_ef_all :
  (forall c ts v, D_value nl c ts v -> ef ts)
  /\ (forall c ts vs, D_values nl c ts vs -> ef ts)
  /\ (forall c ts fs, D_fields nl c ts fs -> ef ts).
Proof.
  apply (D_value_mutind nl (fun c ts v => ef ts) (fun c ts vs => ef ts) (fun c ts fs => ef ts));
    intros; unfold ef in *; forall_parts.
Qed.

Lemma D_value_ef c ts v : D_value nl c ts v -> ef ts.
Proof. apply (proj1 D_value_ef_all). Qed.

Lemma D_list_ef {A} (R : list ptok -> A -> Prop) ts xs :
  (forall ts x, R ts x -> ef ts) -> D_list R ts xs -> ef ts.
Proof. intros HR H. induction H; unfold ef in *; forall_parts. eapply HR; eassumption. Qed.

Lemma D_list_ffe {A} (R : list ptok -> A -> Prop) ts xs :
  (forall ts x, R ts x -> ffe ts) -> D_list R ts xs -> ffe ts.
Proof. intros HR H. induction H; [exact I|]. apply ffe_app; [eapply HR; eassumption|assumption]. Qed.

Lemma D_argument_ef c ts a : D_argument nl c ts a -> ef ts.
Proof. intros [t colon vts v Kt Kc Dv]. pose proof (D_value_ef _ _ _ Dv). unfold ef in *. forall_parts. Qed.

Lemma D_arguments_ef c ts a : D_arguments nl c ts a -> ef ts.
Proof.
  intros [|o body cl args Ko Kc Hl Hne]; [constructor|].
  pose proof (D_list_ef _ _ _ (D_argument_ef c) Hl). unfold ef in *. forall_parts.
Qed.

Lemma D_arguments_ffe c ts a : D_arguments nl c ts a -> ffe ts.
Proof.
  intros [|o body cl args Ko Kc Hl Hne]; [exact I|].
  apply ffe_cons; [kind_ne|]. apply ffe_closed; [exact (D_list_ef _ _ _ (D_argument_ef c) Hl)|kind_ne|kind_ne].
Qed.

Lemma D_directive_ef c ts d : D_directive nl c ts d -> ef ts.
Proof. intros [a t ats args Ka Kt Da]. pose proof (D_arguments_ef _ _ _ Da). unfold ef in *. forall_parts. Qed.

Lemma D_directive_ffe c ts d : D_directive nl c ts d -> ffe ts.
Proof. intros [a t ats args Ka Kt Da]. pose proof (D_arguments_ffe _ _ _ Da). ffe_parts. Qed.

Lemma D_directives_ef c ts ds : D_directives nl c ts ds -> ef ts.
Proof. apply D_list_ef. apply D_directive_ef. Qed.

Lemma D_directives_ffe c ts ds : D_directives nl c ts ds -> ffe ts.
Proof. apply D_list_ffe. apply D_directive_ffe. Qed.

Lemma D_default_ef ts dv : D_default nl ts dv -> ef ts.
Proof. intros [|eq vts v Ke Dv]; [constructor|]. pose proof (D_value_ef _ _ _ Dv). unfold ef in *. forall_parts. Qed.

Lemma D_variable_definition_ef ts vd : D_variable_definition nl ts vd -> ef ts.
Proof.
  intros [d nm colon tyts t defts dv dts dirs Kd Kn Kc Dt Ddef Dd].
  destruct (D_type_ef_nf _ _ Dt) as [H1 _]. pose proof (D_default_ef _ _ Ddef). pose proof (D_directives_ef _ _ _ Dd).
  unfold ef in *. forall_parts.
Qed.

Lemma D_variable_definitions_ffe ts vds : D_variable_definitions nl ts vds -> ffe ts.
Proof.
  intros [|o body cl vds0 Ko Kc Hl Hne]; [exact I|].
  apply ffe_cons; [kind_ne|]. apply ffe_closed; [exact (D_list_ef _ _ _ D_variable_definition_ef Hl)|kind_ne|kind_ne].
Qed.

(* ---- selections, executable definitions ---- *)
Lemma D_selection_ffe_all :
  (forall ts s, D_selection nl ts s -> ffe ts)
  /\ (forall ts sl sub, D_opt_selection_set nl ts sl sub -> ffe ts)
  /\ (forall ts ss, D_selections nl ts ss -> ffe ts).
Proof.
  apply (D_selection_mutind nl (fun ts s => ffe ts) (fun ts sl sub => ffe ts) (fun ts ss => ffe ts)).
  - intros ats al nt argts args dts dirs ssts sl sub Dal Kn Da Dd Dss IH.
    pose proof (D_arguments_ffe _ _ _ Da). pose proof (D_directives_ffe _ _ _ Dd).
    assert (ffe ats) by (destruct Dal; ffe_parts). ffe_parts.
  - intros e nt dts dirs Ke Kn Hon Dd. pose proof (D_directives_ffe _ _ _ Dd). ffe_parts.
  - intros e tcts tc dts dirs o body cl sub Ke Dtc Dd Ko Kc Dsub IH Hne.
    pose proof (D_directives_ffe _ _ _ Dd).
    assert (ffe tcts) by (destruct Dtc as [|on tn [Kon _] Ktn]; ffe_parts).
    assert (ffe [cl]) by (apply ffe_one; kind_ne). ffe_parts.
  - exact I.
  - intros o body cl sub Ko Kc Dsub IH Hne. assert (ffe [cl]) by (apply ffe_one; kind_ne). ffe_parts.
  - exact I.
  - intros. ffe_parts.
Qed.

Lemma D_selection_set_ffe ts sels l : D_selection_set nl ts sels l -> ffe ts.
Proof.
  intros [o body cl sub Ko Kc Ds Hne]. pose proof (proj2 (proj2 D_selection_ffe_all) _ _ Ds).
  assert (ffe [cl]) by (apply ffe_one; kind_ne). ffe_parts.
Qed.

Lemma D_executable_definition_ffe fv ts d : D_executable_definition nl fv ts d -> ffe ts.
Proof.
  intros [ts0 d0 Do|ts0 d0 Df].
  - destruct Do as [ts1 sels l Dss|k kind nts nm vdts vds dts dirs ssts sels ssl Dk Dn Dv Dd Dss].
    + eapply D_selection_set_ffe; eassumption.
    + pose proof (D_variable_definitions_ffe _ _ Dv). pose proof (D_directives_ffe _ _ _ Dd).
      pose proof (D_selection_set_ffe _ _ _ Dss). assert (ffe nts) by (destruct Dn; ffe_parts). ffe_parts.
  - destruct Df as [f nm vdts vds o tcn dts dirs ssts sels ssl Wf Kn Hon Dv Wo Ktc Dd Dss].
    pose proof (D_directives_ffe _ _ _ Dd). pose proof (D_selection_set_ffe _ _ _ Dss).
    assert (ffe vdts) by (destruct fv; [eapply D_variable_definitions_ffe; eassumption|destruct Dv as [-> _]; exact I]).
    ffe_parts.
Qed.

Theorem D_document_exec_ffe fv ts d : D_document_exec nl fv ts d -> ffe ts.
Proof.
  intros [sof body eof defs Ks Ke Hl Hne].
  pose proof (D_list_ffe _ _ _ (D_executable_definition_ffe fv) Hl). assert (ffe [eof]) by (apply ffe_one; kind_ne).
  ffe_parts.
Qed.

(* ---- type-system definitions ---- *)
Lemma D_description_ffe ts d : D_description nl ts d -> ffe ts /\ ef ts.
Proof. intros [|t K|t K]; split; unfold ef; try exact I; try (apply ffe_one; kind_ne); forall_parts. Qed.

Lemma D_sep_list_ffe {A} (R : list ptok -> A -> Prop) delim ts xs :
  (forall ts x, R ts x -> ffe ts) -> delim <> KFloat -> D_sep_list R delim ts xs -> ffe ts.
Proof.
  intros HR Hd H. induction H as [ts x Hx|ts x d ts' xs Hx Kd Hxs IH]; [eapply HR; eassumption|].
  apply ffe_app; [eapply HR; eassumption|]. apply ffe_cons; [rewrite Kd; exact Hd|exact IH].
Qed.

Lemma D_opt_lead_ffe delim lead : delim <> KFloat -> D_opt_lead delim lead -> ffe lead.
Proof. intros Hd [|d Kd]; [exact I|apply ffe_one; rewrite Kd; exact Hd]. Qed.

Lemma opt_block_ffe_ef {A} (R : list ptok -> A -> Prop) open close ts xs :
  (forall ts x, R ts x -> ef ts) -> open <> KFloat -> close <> KFloat -> close <> KEllip ->
  D_opt_block R open close ts xs -> ffe ts.
Proof.
  intros HR Ho Hc1 Hc2 [|o body cl ys Ko Kc Hl Hne]; [exact I|].
  apply ffe_cons; [rewrite Ko; exact Ho|].
  apply ffe_closed; [exact (D_list_ef _ _ _ HR Hl)|rewrite Kc; exact Hc2|rewrite Kc; exact Hc1].
Qed.

Lemma opt_block_ffe {A} (R : list ptok -> A -> Prop) open close ts xs :
  (forall ts x, R ts x -> ffe ts) -> open <> KFloat -> close <> KFloat ->
  D_opt_block R open close ts xs -> ffe ts.
Proof.
  intros HR Ho Hc [|o body cl ys Ko Kc Hl Hne]; [exact I|].
  apply ffe_cons; [rewrite Ko; exact Ho|]. apply ffe_app; [exact (D_list_ffe _ _ _ HR Hl)|].
  apply ffe_one. rewrite Kc. exact Hc.
Qed.

Lemma D_input_value_ef ts iv : D_input_value nl ts iv -> ef ts.
Proof.
  intros [dsts desc nm colon tyts t defts dv dts dirs Ddesc Kn Kc Dt Ddef Dd].
  destruct (D_description_ffe _ _ Ddesc) as [_ H0]. destruct (D_type_ef_nf _ _ Dt) as [H1 _].
  pose proof (D_default_ef _ _ Ddef). pose proof (D_directives_ef _ _ _ Dd). unfold ef in *. forall_parts.
Qed.

Lemma D_args_def_ffe ts a : D_args_def nl ts a -> ffe ts.
Proof. apply opt_block_ffe_ef; [apply D_input_value_ef|discriminate..]. Qed.

Lemma D_input_fields_ffe ts a : D_input_fields nl ts a -> ffe ts.
Proof. apply opt_block_ffe_ef; [apply D_input_value_ef|discriminate..]. Qed.

Lemma D_field_def_ffe ts fd : D_field_def nl ts fd -> ffe ts.
Proof.
  intros [dsts desc nm ats args colon tyts t dts dirs Ddesc Kn Da Kc Dt Dd].
  destruct (D_description_ffe _ _ Ddesc) as [H0 _]. pose proof (D_args_def_ffe _ _ Da).
  pose proof (ffe_nf _ (proj2 (D_type_ef_nf _ _ Dt))). pose proof (D_directives_ffe _ _ _ Dd). ffe_parts.
Qed.

Lemma D_fields_def_ffe ts fs : D_fields_def nl ts fs -> ffe ts.
Proof. apply opt_block_ffe; [apply D_field_def_ffe|discriminate..]. Qed.

Lemma D_enum_value_ffe ts ev : D_enum_value nl ts ev -> ffe ts.
Proof.
  intros [dsts desc nm dts dirs Ddesc Kn Hres Dd].
  destruct (D_description_ffe _ _ Ddesc) as [H0 _]. pose proof (D_directives_ffe _ _ _ Dd). ffe_parts.
Qed.

Lemma D_enum_values_ffe ts vs : D_enum_values nl ts vs -> ffe ts.
Proof. apply opt_block_ffe; [apply D_enum_value_ffe|discriminate..]. Qed.

Lemma D_named_type_ffe ts t : D_named_type nl ts t -> ffe ts.
Proof. intros [n K]. apply ffe_one. kind_ne. Qed.

Lemma D_implements_ffe ts ifs : D_implements nl ts ifs -> ffe ts.
Proof.
  intros [|k lead ts0 tys Wk Dl Ds]; [exact I|].
  pose proof (D_opt_lead_ffe KAmp lead ltac:(discriminate) Dl).
  pose proof (D_sep_list_ffe _ KAmp _ _ D_named_type_ffe ltac:(discriminate) Ds). ffe_parts.
Qed.

Lemma D_union_members_ffe ts tys : D_union_members nl ts tys -> ffe ts.
Proof.
  intros [|eq lead ts0 tys0 Ke Dl Ds]; [exact I|].
  pose proof (D_opt_lead_ffe KPipe lead ltac:(discriminate) Dl).
  pose proof (D_sep_list_ffe _ KPipe _ _ D_named_type_ffe ltac:(discriminate) Ds). ffe_parts.
Qed.

Lemma D_op_type_def_ffe ts o : D_op_type_def nl ts o -> ffe ts.
Proof. intros [k kind colon n Dk Kc Kn]. ffe_parts. Qed.

Lemma D_op_types_ffe ts ots : D_op_types nl ts ots -> ffe ts.
Proof.
  intros [o body cl ots0 Ko Kc Hl Hne]. pose proof (D_list_ffe _ _ _ D_op_type_def_ffe Hl).
  assert (ffe [cl]) by (apply ffe_one; kind_ne). ffe_parts.
Qed.

Lemma D_directive_location_ffe ts x : D_directive_location nl ts x -> ffe ts.
Proof. intros [n K _]. apply ffe_one. kind_ne. Qed.

Ltac sdl_parts :=
  repeat match goal with
         | D : D_description _ _ _ |- _ => apply D_description_ffe in D; destruct D as [D _]
         | D : D_directives _ _ _ _ |- _ => apply D_directives_ffe in D
         | D : D_opt_op_types _ _ _ |- _ => destruct D as [|? ? D]
         | D : D_op_types _ _ _ |- _ => apply D_op_types_ffe in D
         | D : D_implements _ _ _ |- _ => apply D_implements_ffe in D
         | D : D_fields_def _ _ _ |- _ => apply D_fields_def_ffe in D
         | D : D_union_members _ _ _ |- _ => apply D_union_members_ffe in D
         | D : D_enum_values _ _ _ |- _ => apply D_enum_values_ffe in D
         | D : D_input_fields _ _ _ |- _ => apply D_input_fields_ffe in D
         | D : D_args_def _ _ _ |- _ => apply D_args_def_ffe in D
         | D : D_opt_lead KPipe _ |- _ => apply (D_opt_lead_ffe KPipe _ ltac:(discriminate)) in D
         | D : D_sep_list (D_directive_location _) KPipe _ _ |- _ =>
             apply (D_sep_list_ffe _ KPipe _ _ D_directive_location_ffe ltac:(discriminate)) in D
         end.

Lemma D_type_system_definition_ffe ts d : D_type_system_definition nl ts d -> ffe ts.
Proof. intros H; destruct H; sdl_parts; ffe_parts. Qed.

Lemma D_type_system_extension_ffe ts d : D_type_system_extension nl ts d -> ffe ts.
Proof. intros H; destruct H; sdl_parts; ffe_parts. Qed.

Lemma D_definition_ffe fv en ts d : D_definition nl fv en ts d -> ffe ts.
Proof.
  intros [ts0 d0 He|ts0 d0 _ Ht|ts0 d0 _ Ht];
    [eapply D_executable_definition_ffe|eapply D_type_system_definition_ffe|eapply D_type_system_extension_ffe];
    eassumption.
Qed.

Theorem D_document_ffe fv en ts d : D_document nl fv en ts d -> ffe ts.
Proof.
  intros [sof body eof defs Ks Ke Hl Hne].
  pose proof (D_list_ffe _ _ _ (D_definition_ffe fv en) Hl). assert (ffe [eof]) by (apply ffe_one; kind_ne).
  ffe_parts.
Qed.

End Follow.

(* ---- values and types between SOF and EOF ---- *)
Lemma whole_nfe_value nl c ts body v : whole ts body -> D_value nl c body v -> nfe ts.
Proof.
  intros (sof & eof & Ks & Ke & ->) Dv. apply ffe_nfe.
  apply ffe_cons; [kind_ne|]. apply ffe_closed; [eapply D_value_ef; eassumption|kind_ne|kind_ne].
Qed.

Lemma whole_nfe_type nl ts body t : whole ts body -> D_type nl body t -> nfe ts.
Proof.
  intros (sof & eof & Ks & Ke & ->) Dt. apply ffe_nfe. destruct (D_type_ef_nf _ _ _ Dt) as [H _].
  apply ffe_cons; [kind_ne|]. apply ffe_closed; [exact H|kind_ne|kind_ne].
Qed.

(* ---- on such token sequences the strict and the implemented lexical grammar agree ---- *)
Lemma Ignored_head_dot ign f : Ignored ign f -> head_is (fun c => c = 46) (ign ++ f) -> ign = [].
Proof.
  intros H Hh. destruct H as [f|c ign f Hc H|body ign f Hb Hn H]; [reflexivity| |]; simpl in Hh; exfalso.
  - subst c. unfold IgnoredChar in Hc. lia.
  - discriminate.
Qed.

Lemma Token_head_dot F lexeme rest k v : Token F lexeme rest k v -> head_is (fun c => c = 46) lexeme -> k = KEllip.
Proof.
  intros H Hh. destruct H as [c k rest Hp|rest|c cs rest Hc Hcs Hn|l rest Hi Hf|l rest Hfl Hf|raw v rest Hb Hn|body raw rest Hb];
    simpl in Hh; try reflexivity; try discriminate; exfalso.
  - subst c. inversion Hp.
  - subst c. unfold NameStart, Letter in Hc. lia.
  - destruct (number_head false l (fun _ => Hi) ltac:(discriminate)) as (c & l' & -> & Hc). simpl in Hh. subst c.
    unfold Digit in Hc. lia.
  - destruct (number_head true l ltac:(discriminate) (fun _ => Hfl)) as (c & l' & -> & Hc). simpl in Hh. subst c.
    unfold Digit in Hc. lia.
Qed.

Lemma lexes_from_head_dot F txt pos ts :
  lexes_from F txt pos ts -> head_is (fun c => c = 46) txt -> exists t ts', ts = t :: ts' /\ tk t = KEllip.
Proof.
  intros H Hh. destruct H as [ign pos Hi|ign lexeme rest k v ts pos Hi Htok Hl].
  - assert (ign = []) by (eapply (Ignored_head_dot ign []); [exact Hi|rewrite app_nil_r; exact Hh]).
    subst ign. destruct Hh.
  - assert (ign = []) by (eapply Ignored_head_dot; [exact Hi|exact Hh]). subst ign. simpl in Hh.
    eexists _, _. split; [reflexivity|]. simpl. eapply Token_head_dot; [exact Htok|].
    destruct (Token_start _ _ _ _ _ Htok) as [_ Hne]. destruct lexeme; [congruence|exact Hh].
Qed.

Lemma lexes_from_strict txt pos ts :
  lexes_from follow_impl txt pos ts -> nfe ts -> lexes_from (fun _ => follow_ok) txt pos ts.
Proof.
  induction 1 as [ign pos Hi|ign lexeme rest k v ts pos Hi Htok Hl IH]; intros Hn.
  - constructor. exact Hi.
  - assert (Hn' : nfe ts) by (simpl in Hn; destruct Hn; assumption).
    constructor; [exact Hi| |apply IH; exact Hn'].
    destruct Htok as [c k rest Hp|rest|c cs rest Hc Hcs Hnc|l rest Hi' Hf|l rest Hfl Hf|raw v rest Hb Hnt|body raw rest Hb];
      try (constructor; assumption).
    + (* Int *) constructor; [exact Hi'|]. destruct rest as [|c r]; [exact I|]. simpl in *.
      destruct Hf as (H1 & H2 & H3). auto.
    + (* Float *) constructor; [exact Hfl|]. destruct rest as [|c r]; [exact I|]. simpl in Hf |- *.
      destruct Hf as (H1 & _ & H3). repeat split; auto. intros ->.
      destruct (lexes_from_head_dot _ _ _ _ Hl eq_refl) as (t & ts' & -> & Kt).
      simpl in Hn. destruct Hn as [Hn0 _]. exact (Hn0 eq_refl Kt).
Qed.

Theorem lexes_slack_strict s ts : lexes_slack s ts -> nfe ts -> lexes s ts.
Proof.
  intros (ts' & -> & Hl) Hn. exists ts'. split; [reflexivity|]. apply lexes_from_strict; [exact Hl|].
  simpl in Hn. destruct Hn; assumption.
Qed.
