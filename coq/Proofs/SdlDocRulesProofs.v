(* C12: the document [ast_of_schema sc] of a schema that SDL can express obeys
   the type-system rules of C11 ([sdl_rules_ok]). *)
From PyGql Require Import Spec.SdlSpec Schema.SdlPrint Spec.SdlRoundtripSpec.
From PyGql Require Import Proofs.SdlProofs Proofs.SdlExactProofs Proofs.SdlOrderProofs Proofs.SdlPrintProofs
                          Proofs.SdlDocRoundtripProofs Proofs.SdlValidInvProofs.
From Coq Require Import Lia Sorting.Permutation.

(* ---- what the emitted members look like -------------------------------- *)
Lemma ivdef_of_facts E a iv :
  ivdef_of E a = Ok iv ->
  n_val (iv_name iv) = siv_name a /\ tref_of (iv_type iv) = siv_type a
  /\ match siv_default a with
     | None => iv_default iv = None
     | Some v => exists n, node_of_value print_fuel E v (siv_type a) = Ok n /\ iv_default iv = Some (relex n)
     end.
Proof.
  unfold ivdef_of. intros H. destruct (siv_default a) as [v|].
  - destruct (node_of_value print_fuel E v (siv_type a)) as [n| | |] eqn:Hn; cbn [obind] in H; try discriminate.
    inversion H; subst iv. cbn [iv_name iv_type iv_default mk_name n_val]. rewrite tref_roundtrip.
    repeat split. exists n. split; reflexivity.
  - cbn [obind] in H. inversion H; subst iv. cbn [iv_name iv_type iv_default mk_name n_val]. rewrite tref_roundtrip.
    repeat split.
Qed.

Lemma ivdefs_names E l ivs :
  Forall2 (fun a iv => ivdef_of E a = Ok iv) l ivs -> map (fun iv => n_val (iv_name iv)) ivs = map siv_name l.
Proof.
  induction 1 as [|a iv l ivs H _ IH]; [reflexivity|]. cbn [map]. rewrite IH.
  destruct (ivdef_of_facts E a iv H) as (-> & _). reflexivity.
Qed.

Lemma fdef_of_facts E f fd :
  fdef_of E f = Ok fd ->
  n_val (fd_name fd) = sf_name f
  /\ Forall2 (fun a iv => ivdef_of E a = Ok iv) (sf_args f) (fd_args fd)
  /\ fd_dirs fd = deprecated_dir (sf_dep f) ++ custom_dirs (sf_dirs f).
Proof.
  unfold fdef_of. intros H. destruct (omap (ivdef_of E) (sf_args f)) as [args| | |] eqn:Ho; cbn [obind] in H; try discriminate.
  inversion H; subst fd. cbn [fd_name fd_args fd_dirs mk_name n_val]. repeat split. apply omap_inv; exact Ho.
Qed.

Lemma fdefs_names E l fds :
  Forall2 (fun f fd => fdef_of E f = Ok fd) l fds -> map (fun fd => n_val (fd_name fd)) fds = map sf_name l.
Proof.
  induction 1 as [|a iv l ivs H _ IH]; [reflexivity|]. cbn [map]. rewrite IH.
  destruct (fdef_of_facts E a iv H) as (-> & _). reflexivity.
Qed.

Lemma ty_names ns : map ty_name (map named_ty ns) = ns.
Proof. rewrite map_map. cbn [ty_name tref_of named_ty tref_name mk_name n_val]. apply map_id. Qed.

Lemma def_of_tdef_kind E t x : def_of_tdef E t = Ok x -> def_kind x = Some (tdef_kind t).
Proof.
  destruct t; cbn [def_of_tdef]; intros H;
    repeat match type of H with
           | obind ?o _ = Ok _ => destruct o eqn:?; cbn [obind] in H; try discriminate
           end; inversion H; subst x; reflexivity.
Qed.

(* ---- kinds of the emitted document are the kinds of the schema --------- *)
Lemma kinds_of_tds E st tds :
  Forall2 (fun t x => def_of_tdef E t = Ok x) st tds ->
  kinds_of [] tds = map (fun t => (tdef_name t, tdef_kind t)) st.
Proof.
  unfold kinds_of. cbn [map app]. induction 1 as [|t x st tds H _ IH]; [reflexivity|]. cbn [flat_map map].
  destruct (def_of_tdef_shape E t x H) as (-> & _). rewrite (def_of_tdef_kind E t x H), IH. reflexivity.
Qed.

Lemma alookup_kinds n l :
  alookup n (map (fun t => (tdef_name t, tdef_kind t)) l) = option_map tdef_kind (find_type n l).
Proof.
  induction l as [|t l IH]; [reflexivity|]. cbn [map alookup find_type].
  destruct (str_eqb n (tdef_name t)); [reflexivity|exact IH].
Qed.

Lemma kind_in_skind sc l n :
  (forall m, find_type m l = find_type m (s_types sc)) ->
  kind_in (map (fun t => (tdef_name t, tdef_kind t)) l) n = skind sc n.
Proof. intros H. unfold kind_in, skind. rewrite alookup_kinds, H. reflexivity. Qed.

(* ---- generic list facts -------------------------------------------------- *)
Lemma flat_map_nil {A B} (f : A -> list B) l : Forall (fun x => f x = []) l -> flat_map f l = [].
Proof. induction 1 as [|x l Hx _ IH]; [reflexivity|]. cbn [flat_map]. rewrite Hx, IH. reflexivity. Qed.

Lemma flat_map_single {A B C} (R : A -> B -> Prop) (f : B -> list C) (g : A -> C) l1 l2 :
  (forall a b, R a b -> f b = [g a]) -> Forall2 R l1 l2 -> flat_map f l2 = map g l1.
Proof.
  intros H. induction 1 as [|a b l1 l2 Hab _ IH]; [reflexivity|]. cbn [flat_map map]. rewrite (H a b Hab), IH. reflexivity.
Qed.

Lemma Forall2_forallb_right {A B} (R : A -> B -> Prop) (p : B -> bool) l1 l2 :
  (forall a b, In a l1 -> R a b -> p b = true) -> Forall2 R l1 l2 -> forallb p l2 = true.
Proof.
  intros H F. induction F as [|a b l1 l2 Hab _ IH]; [reflexivity|]. cbn [forallb].
  rewrite (H a b (or_introl eq_refl) Hab), IH; [reflexivity|]. intros; eapply H; [right; eassumption|assumption].
Qed.

Lemma existsb_names {A} (key : A -> str) (p : str -> bool) l :
  existsb (fun x => p (key x)) l = existsb p (map key l).
Proof. induction l as [|x l IH]; [reflexivity|]. cbn [existsb map]. rewrite IH. reflexivity. Qed.

Definition enum_names_unique (sc : schema) : bool :=
  forallb (fun t => match t with TEnum _ _ vs _ => negb (has_dup (map sev_name vs)) | _ => true end) (s_types sc).

Lemma tdef_refs_strip t : tdef_refs (strip_tdef t) = tdef_refs t.
Proof.
  assert (Hsiv : forall l, map siv_refs (map strip_siv l) = map siv_refs l).
  { intros l. rewrite map_map. apply map_ext. intros []; reflexivity. }
  assert (Hsf : forall l, flat_map sf_refs (map strip_sf l) = flat_map sf_refs l).
  { induction l as [|f l IH]; [reflexivity|]. cbn [map flat_map]. rewrite IH. destruct f. unfold sf_refs. cbn. rewrite Hsiv. reflexivity. }
  destruct t; cbn [strip_tdef tdef_refs]; rewrite ?Hsf, ?Hsiv; reflexivity.
Qed.

Lemma forallb_strip_eq (g : tdef -> bool) l1 l2 :
  (forall t, g (strip_tdef t) = g t) -> map strip_tdef l1 = map strip_tdef l2 -> forallb g l1 = forallb g l2.
Proof.
  intros Hg He.
  rewrite <- (forallb_ext _ _ l1 Hg), <- (forallb_ext _ _ l2 Hg), <- (forallb_map strip_tdef g l1), <- (forallb_map strip_tdef g l2), He. reflexivity.
Qed.

Lemma count_ops_schema_ops sc k : count_ops k (schema_ops sc) <= 1.
Proof.
  unfold schema_ops, count_ops. destruct (s_query sc), (s_mutation sc), (s_subscription sc), k; cbn; lia.
Qed.
