(* C12: the document [ast_of_schema sc] of a schema that SDL can express obeys
   the type-system rules of C11 ([sdl_rules_ok]). *)
From PyGql Require Import Spec.SdlSpec Schema.SdlPrint Spec.SdlRoundtripSpec.
From PyGql Require Import Proofs.SdlProofs Proofs.SdlExactProofs Proofs.SdlOrderProofs Proofs.SdlPrintProofs
                          Proofs.SdlDocRoundtripProofs Proofs.SdlValidInvProofs.
From Coq Require Import Lia Sorting.Permutation.

(* ---- what the emitted members look like -------------------------------- *)
Lemma ivdef_of_facts E a iv :
  ivdef_of E a = Ok iv ->
  n_val (iv_name iv) = siv_name a /\ tref_of (iv_type iv) = siv_type a
  /\ match siv_default a with
     | None => iv_default iv = None
     | Some v => exists n, node_of_value print_fuel E v (siv_type a) = Ok n /\ iv_default iv = Some (relex n)
     end.
Proof.
  unfold ivdef_of. intros H. destruct (siv_default a) as [v|].
  - destruct (node_of_value print_fuel E v (siv_type a)) as [n| | |] eqn:Hn; cbn [obind] in H; try discriminate.
    inversion H; subst iv. cbn [iv_name iv_type iv_default mk_name n_val]. rewrite tref_roundtrip.
    repeat split. exists n. split; reflexivity.
  - cbn [obind] in H. inversion H; subst iv. cbn [iv_name iv_type iv_default mk_name n_val]. rewrite tref_roundtrip.
    repeat split.
Qed.

Lemma ivdefs_names E l ivs :
  Forall2 (fun a iv => ivdef_of E a = Ok iv) l ivs -> map (fun iv => n_val (iv_name iv)) ivs = map siv_name l.
Proof.
  induction 1 as [|a iv l ivs H _ IH]; [reflexivity|]. cbn [map]. rewrite IH.
  destruct (ivdef_of_facts E a iv H) as (-> & _). reflexivity.
Qed.

Lemma fdef_of_facts E f fd :
  fdef_of E f = Ok fd ->
  n_val (fd_name fd) = sf_name f
  /\ Forall2 (fun a iv => ivdef_of E a = Ok iv) (sf_args f) (fd_args fd)
  /\ fd_dirs fd = deprecated_dir (sf_dep f) ++ custom_dirs (sf_dirs f).
Proof.
  unfold fdef_of. intros H. destruct (omap (ivdef_of E) (sf_args f)) as [args| | |] eqn:Ho; cbn [obind] in H; try discriminate.
  inversion H; subst fd. cbn [fd_name fd_args fd_dirs mk_name n_val]. repeat split. apply omap_inv; exact Ho.
Qed.

Lemma fdefs_names E l fds :
  Forall2 (fun f fd => fdef_of E f = Ok fd) l fds -> map (fun fd => n_val (fd_name fd)) fds = map sf_name l.
Proof.
  induction 1 as [|a iv l ivs H _ IH]; [reflexivity|]. cbn [map]. rewrite IH.
  destruct (fdef_of_facts E a iv H) as (-> & _). reflexivity.
Qed.

Lemma ty_names ns : map ty_name (map named_ty ns) = ns.
Proof. rewrite map_map. cbn [ty_name tref_of named_ty tref_name mk_name n_val]. apply map_id. Qed.

Lemma def_of_tdef_kind E t x : def_of_tdef E t = Ok x -> def_kind x = Some (tdef_kind t).
Proof.
  destruct t; cbn [def_of_tdef]; intros H;
    repeat match type of H with
           | obind ?o _ = Ok _ => destruct o eqn:?; cbn [obind] in H; try discriminate
           end; inversion H; subst x; reflexivity.
Qed.

(* ---- kinds of the emitted document are the kinds of the schema --------- *)
Lemma kinds_of_tds E st tds :
  Forall2 (fun t x => def_of_tdef E t = Ok x) st tds ->
  kinds_of [] tds = map (fun t => (tdef_name t, tdef_kind t)) st.
Proof.
  unfold kinds_of. cbn [map app]. induction 1 as [|t x st tds H _ IH]; [reflexivity|]. cbn [flat_map map].
  destruct (def_of_tdef_shape E t x H) as (-> & _). rewrite (def_of_tdef_kind E t x H), IH. reflexivity.
Qed.

Lemma alookup_kinds n l :
  alookup n (map (fun t => (tdef_name t, tdef_kind t)) l) = option_map tdef_kind (find_type n l).
Proof.
  induction l as [|t l IH]; [reflexivity|]. cbn [map alookup find_type].
  destruct (str_eqb n (tdef_name t)); [reflexivity|exact IH].
Qed.

Lemma kind_in_skind sc l n :
  (forall m, find_type m l = find_type m (s_types sc)) ->
  kind_in (map (fun t => (tdef_name t, tdef_kind t)) l) n = skind sc n.
Proof. intros H. unfold kind_in, skind. rewrite alookup_kinds, H. reflexivity. Qed.

(* ---- generic list facts -------------------------------------------------- *)
Lemma flat_map_nil {A B} (f : A -> list B) l : Forall (fun x => f x = []) l -> flat_map f l = [].
Proof. induction 1 as [|x l Hx _ IH]; [reflexivity|]. cbn [flat_map]. rewrite Hx, IH. reflexivity. Qed.

Lemma flat_map_single {A B C} (R : A -> B -> Prop) (f : B -> list C) (g : A -> C) l1 l2 :
  (forall a b, R a b -> f b = [g a]) -> Forall2 R l1 l2 -> flat_map f l2 = map g l1.
Proof.
  intros H. induction 1 as [|a b l1 l2 Hab _ IH]; [reflexivity|]. cbn [flat_map map]. rewrite (H a b Hab), IH. reflexivity.
Qed.

Lemma Forall2_forallb_right {A B} (R : A -> B -> Prop) (p : B -> bool) l1 l2 :
  (forall a b, In a l1 -> R a b -> p b = true) -> Forall2 R l1 l2 -> forallb p l2 = true.
Proof.
  intros H F. induction F as [|a b l1 l2 Hab _ IH]; [reflexivity|]. cbn [forallb].
  rewrite (H a b (or_introl eq_refl) Hab), IH; [reflexivity|]. intros; eapply H; [right; eassumption|assumption].
Qed.

Lemma existsb_names {A} (key : A -> str) (p : str -> bool) l :
  existsb (fun x => p (key x)) l = existsb p (map key l).
Proof. induction l as [|x l IH]; [reflexivity|]. cbn [existsb map]. rewrite IH. reflexivity. Qed.

Lemma tdef_refs_strip t : tdef_refs (strip_tdef t) = tdef_refs t.
Proof.
  assert (Hsiv : forall l, map siv_refs (map strip_siv l) = map siv_refs l).
  { intros l. rewrite map_map. apply map_ext. intros []; reflexivity. }
  assert (Hsf : forall l, flat_map sf_refs (map strip_sf l) = flat_map sf_refs l).
  { induction l as [|f l IH]; [reflexivity|]. cbn [map flat_map]. rewrite IH. destruct f. unfold sf_refs. cbn. rewrite Hsiv. reflexivity. }
  destruct t; cbn [strip_tdef tdef_refs]; rewrite ?Hsf, ?Hsiv; reflexivity.
Qed.

Lemma forallb_strip_eq (g : tdef -> bool) l1 l2 :
  (forall t, g (strip_tdef t) = g t) -> map strip_tdef l1 = map strip_tdef l2 -> forallb g l1 = forallb g l2.
Proof.
  intros Hg He.
  rewrite <- (forallb_ext _ _ l1 Hg), <- (forallb_ext _ _ l2 Hg), <- (forallb_map strip_tdef g l1), <- (forallb_map strip_tdef g l2), He. reflexivity.
Qed.

Lemma count_ops_schema_ops sc k : count_ops k (schema_ops sc) <= 1.
Proof.
  unfold schema_ops, count_ops. destruct (s_query sc), (s_mutation sc), (s_subscription sc), k; cbn; lia.
Qed.

Definition members_unique_def (d : definition) : bool :=
  negb (has_dup (map (fun f => n_val (fd_name f)) (ext_fields d)))
  && negb (has_dup (map ty_name (ext_ifaces d)))
  && negb (has_dup (map ty_name (ext_members d)))
  && negb (has_dup (map (fun v => n_val (ev_name v)) (ext_values d)))
  && negb (has_dup (map (fun f => n_val (iv_name f)) (ext_ifields d))).

Lemma valid_fields_nodup sc fs : valid_fields sc fs = true -> has_dup (map sf_name fs) = false.
Proof.
  unfold valid_fields. intros H. apply andb_prop in H; destruct H as [H _]. apply andb_prop in H; destruct H as [_ H].
  apply Bool.negb_true_iff in H. exact H.
Qed.

Lemma unique_members_of sc E t x :
  valid_type sc t = true ->
  match t with TEnum _ _ vs _ => negb (has_dup (map sev_name vs)) | _ => true end = true ->
  def_of_tdef E t = Ok x -> members_unique_def x = true.
Proof.
  unfold valid_type, members_unique_def. intros Hv He Hx. apply andb_prop in Hv; destruct Hv as [_ Hv].
  destruct t as [n d ds|n d is_ fs ds|n d fs ds|n d ms ds|n d vs ds|n d fs ds]; cbn [def_of_tdef] in Hx.
  - inversion Hx; subst x. reflexivity.
  - destruct (omap (fdef_of E) fs) as [fds| | |] eqn:Ho; cbn [obind] in Hx; try discriminate. inversion Hx; subst x.
    cbn [ext_fields ext_ifaces ext_members ext_values ext_ifields map has_dup negb andb].
    apply andb_prop in Hv; destruct Hv as [Hv _]. apply andb_prop in Hv; destruct Hv as [Hf Hi].
    rewrite (fdefs_names E fs fds (omap_inv _ _ _ Ho)), (valid_fields_nodup sc fs Hf), ty_names.
    rewrite Hi. reflexivity.
  - destruct (omap (fdef_of E) fs) as [fds| | |] eqn:Ho; cbn [obind] in Hx; try discriminate. inversion Hx; subst x.
    cbn [ext_fields ext_ifaces ext_members ext_values ext_ifields map has_dup negb andb].
    rewrite (fdefs_names E fs fds (omap_inv _ _ _ Ho)), (valid_fields_nodup sc fs Hv). reflexivity.
  - inversion Hx; subst x. cbn [ext_fields ext_ifaces ext_members ext_values ext_ifields map has_dup negb andb].
    apply andb_prop in Hv; destruct Hv as [_ Hm]. rewrite ty_names, Hm. reflexivity.
  - inversion Hx; subst x. cbn [ext_fields ext_ifaces ext_members ext_values ext_ifields map has_dup negb andb].
    rewrite map_map. cbn [evdef_of ev_name mk_name n_val].
    change (map (fun x : sevalue => sev_name x) vs) with (map sev_name vs). rewrite He. reflexivity.
  - destruct (omap (ivdef_of E) fs) as [ivs| | |] eqn:Ho; cbn [obind] in Hx; try discriminate. inversion Hx; subst x.
    cbn [ext_fields ext_ifaces ext_members ext_values ext_ifields map has_dup negb andb].
    apply andb_prop in Hv; destruct Hv as [Hv _]. apply andb_prop in Hv; destruct Hv as [_ Hn].
    rewrite (ivdefs_names E fs ivs (omap_inv _ _ _ Ho)), Hn. reflexivity.
Qed.

Lemma forallb_flat_map {A B} (p : B -> bool) (f : A -> list B) l :
  forallb p (flat_map f l) = forallb (fun x => forallb p (f x)) l.
Proof. induction l as [|x l IH]; [reflexivity|]. cbn [flat_map forallb]. rewrite forallb_app, IH. reflexivity. Qed.

Section MemberRules.
  Variables (sc : schema) (E Ed : env) (K : list (str * kind)).
  Hypothesis HK : forall n, kind_in K n = skind sc n.

  Definition iv_input (iv : input_value_def) : bool := tref_is_input K (tref_of (iv_type iv)).

  Lemma tref_is_input_s t : tref_is_input K t = s_is_input sc t.
  Proof. unfold tref_is_input, s_is_input. rewrite HK. reflexivity. Qed.

  Lemma ivs_rules l ivs :
    Forall2 (fun a iv => ivdef_of E a = Ok iv) l ivs ->
    forallb (fun a => valid_name (siv_name a) && s_is_input sc (siv_type a)) l = true ->
    (forall a, In a l -> default_rt E Ed a) ->
    forallb iv_input ivs = true /\ forallb (coercible Ed) ivs = true.
  Proof.
    induction 1 as [|a iv l ivs Hiv _ IH]; intros Hv Hd; [split; reflexivity|].
    cbn [forallb] in Hv |- *. apply andb_prop in Hv; destruct Hv as [Ha Hl].
    apply andb_prop in Ha; destruct Ha as [_ Ha].
    destruct (IH Hl (fun b Hb => Hd b (or_intror Hb))) as [I1 I2]. rewrite I1, I2.
    destruct (ivdef_of_facts E a iv Hiv) as (_ & Ht & Hdef).
    unfold iv_input, coercible. rewrite Ht, tref_is_input_s, Ha. split; [reflexivity|].
    pose proof (Hd a (or_introl eq_refl)) as Hrt. unfold default_rt in Hrt.
    destruct (siv_default a) as [v|].
    - destruct Hdef as (n & Hn & ->). rewrite (Hrt v n eq_refl Hn). reflexivity.
    - rewrite Hdef. reflexivity.
  Qed.

  Lemma valid_args_ivs args :
    valid_args sc args = true -> forallb (fun a => valid_name (siv_name a) && s_is_input sc (siv_type a)) args = true.
  Proof. unfold valid_args. intros H. apply andb_prop in H; apply H. Qed.

  Lemma fds_rules fs fds :
    Forall2 (fun f fd => fdef_of E f = Ok fd) fs fds ->
    valid_fields sc fs = true ->
    (forall f, In f fs -> forall a, In a (sf_args f) -> default_rt E Ed a) ->
    forallb iv_input (flat_map fd_args fds) = true /\ forallb (coercible Ed) (flat_map fd_args fds) = true
    /\ forallb (fun f => dep_ok (fd_dirs f)) fds = true.
  Proof.
    intros F Hv Hd. unfold valid_fields in Hv. apply andb_prop in Hv; destruct Hv as [_ Hv].
    induction F as [|f fd fs fds Hfd _ IH]; [repeat split; reflexivity|].
    cbn [forallb] in Hv. apply andb_prop in Hv; destruct Hv as [Hf Hl]. apply andb_prop in Hf; destruct Hf as [_ Hargs].
    destruct (IH Hl (fun g Hg => Hd g (or_intror Hg))) as (I1 & I2 & I3).
    destruct (fdef_of_facts E f fd Hfd) as (_ & Fa & Hdirs).
    destruct (ivs_rules _ _ Fa (valid_args_ivs _ Hargs) (Hd f (or_introl eq_refl))) as [J1 J2].
    cbn [flat_map forallb]. rewrite !forallb_app, I1, I2, I3, J1, J2. repeat split.
    unfold dep_ok. rewrite Hdirs, deprecation_roundtrip. reflexivity.
  Qed.

  Lemma tdef_rules t x :
    valid_type sc t = true -> def_of_tdef E t = Ok x ->
    (forall a, In a (tdef_ivalues t) -> default_rt E Ed a) ->
    forallb iv_input (def_ivalues x) = true /\ forallb (coercible Ed) (def_ivalues x) = true /\ def_deps_ok x = true.
  Proof.
    unfold valid_type. intros Hv Hx Hd. apply andb_prop in Hv; destruct Hv as [_ Hv].
    destruct t as [n d ds|n d is_ fs ds|n d fs ds|n d ms ds|n d vs ds|n d fs ds]; cbn [def_of_tdef tdef_ivalues] in Hx, Hd.
    - inversion Hx; subst x. repeat split; reflexivity.
    - destruct (omap (fdef_of E) fs) as [fds| | |] eqn:Ho; cbn [obind] in Hx; try discriminate. inversion Hx; subst x.
      apply andb_prop in Hv; destruct Hv as [Hv _]. apply andb_prop in Hv; destruct Hv as [Hf _].
      cbn [def_ivalues def_deps_ok]. apply (fds_rules fs fds (omap_inv _ _ _ Ho) Hf).
      intros f Hf' a Ha. apply Hd. apply in_flat_map. exists f; split; assumption.
    - destruct (omap (fdef_of E) fs) as [fds| | |] eqn:Ho; cbn [obind] in Hx; try discriminate. inversion Hx; subst x.
      cbn [def_ivalues def_deps_ok]. apply (fds_rules fs fds (omap_inv _ _ _ Ho) Hv).
      intros f Hf' a Ha. apply Hd. apply in_flat_map. exists f; split; assumption.
    - inversion Hx; subst x. repeat split; reflexivity.
    - inversion Hx; subst x. cbn [def_ivalues def_deps_ok forallb]. repeat split.
      rewrite forallb_map. apply forallb_forall. intros v _. unfold dep_ok, evdef_of. cbn [ev_dirs].
      rewrite deprecation_roundtrip. reflexivity.
    - destruct (omap (ivdef_of E) fs) as [ivs| | |] eqn:Ho; cbn [obind] in Hx; try discriminate. inversion Hx; subst x.
      cbn [def_ivalues def_deps_ok]. apply andb_prop in Hv; destruct Hv as [_ Hv].
      destruct (ivs_rules fs ivs (omap_inv _ _ _ Ho) Hv Hd) as [J1 J2]. repeat split; assumption.
  Qed.

  Lemma ddef_rules dd x :
    valid_args sc (dd_args dd) = true -> def_of_ddef E dd = Ok x ->
    (forall a, In a (dd_args dd) -> default_rt E Ed a) ->
    forallb iv_input (def_ivalues x) = true /\ forallb (coercible Ed) (def_ivalues x) = true /\ def_deps_ok x = true.
  Proof.
    intros Hv Hx Hd. destruct (def_of_ddef_shape E dd x Hx) as (args & -> & Ho).
    cbn [def_ivalues def_deps_ok].
    destruct (ivs_rules _ _ (omap_inv _ _ _ Ho) (valid_args_ivs _ Hv) Hd) as [J1 J2]. repeat split; assumption.
  Qed.
End MemberRules.

Theorem ast_rules_ok sc d :
  schema_okb sc = true -> ast_of_schema sc = Ok d ->
  (forall a, In a (schema_ivalues sc) -> default_rt (env_of_schema [] sc) (declared_env d) a) ->
  sdl_rules_ok d.
Proof.
  intros Hok Hast Hrt.
  pose proof (declared_of_ast_struct sc d Hok Hast Hrt) as Hda.
  unfold schema_okb in Hok.
  apply andb_prop in Hok; destruct Hok as [Hok Henum].
  apply andb_prop in Hok; destruct Hok as [Hok Hrefs].
  apply andb_prop in Hok; destruct Hok as [Hok Hnoover].
  apply andb_prop in Hok; destruct Hok as [Hok Hnodef].
  apply andb_prop in Hok; destruct Hok as [Hok Hdupd].
  apply andb_prop in Hok; destruct Hok as [Hok Hdupt].
  apply andb_prop in Hok; destruct Hok as [Hok Hdsdl].
  apply andb_prop in Hok; destruct Hok as [Hvalid Htsdl].
  apply Bool.negb_true_iff in Hdupd, Hdupt.
  destruct (ast_of_schema_inv sc d Hast) as (dds & tds & Fd & Ft & ->).
  set (Ep := env_of_schema [] sc) in *.
  set (st := sort_by tdef_name (s_types sc)) in *. set (sd := sort_by dd_name (s_ddefs sc)) in *.
  assert (Pst : Permutation st (s_types sc)) by apply sort_by_perm.
  assert (Psd : Permutation sd (s_ddefs sc)) by apply sort_by_perm.
  assert (Hnd : NoDup (map tdef_name st)).
  { apply has_dup_NoDup. eapply has_dup_perm; [apply Permutation_map; apply Permutation_sym; exact Pst|exact Hdupt]. }
  assert (Lst : forall m, find_type m st = find_type m (s_types sc)) by (intros m; apply find_type_perm; assumption).
  assert (HS : Forall (fun x => exists dirs ots, x = DSchema false dirs ots None) (schema_defs sc)).
  { unfold schema_defs. destruct (schema_def_needed sc); repeat constructor. eexists _, _. reflexivity. }
  assert (Hdds : Forall (fun x => is_directive_def x = true) dds).
  { eapply Forall2_right; [|exact Fd]. intros a b Hab. cbn beta in Hab.
    destruct (def_of_ddef_shape _ _ _ Hab) as (args & -> & _). reflexivity. }
  assert (Htds : Forall (fun x => typedef_name x <> None /\ typeext_name x = None
                                   /\ is_schema_def x = false /\ is_directive_def x = false) tds).
  { eapply Forall2_right; [|exact Ft]. intros a b Hab. cbn beta in Hab.
    destruct (def_of_tdef_shape _ _ _ Hab) as (H1 & H2 & H3 & H4). repeat split; try assumption. congruence. }
  set (ds := schema_defs sc ++ dds ++ tds) in *.
  assert (X1 : declared_defs (Doc ds None) = tds) by (apply (shape_declared_defs _ _ _ HS Hdds Htds)).
  assert (X3 : schema_def_of ds = hd_error (schema_defs sc)) by (apply (shape_schema_def _ _ _ HS Hdds Htds)).
  assert (X4 : schema_exts ds = []) by (apply (shape_schema_exts _ _ _ HS Hdds Htds)).
  assert (X5 : Forall (fun x => typeext_name x = None) ds) by (apply (shape_no_typeext _ _ _ HS Hdds Htds)).
  set (Ed := declared_env (Doc ds None)) in *.
  set (D := declared (Doc ds None)) in *.
  destruct Hda as (Hts & HD & Rq & Rm & Rs & Rd). fold st in Hts. fold sd in HD.
  (* kinds *)
  assert (HKeq : declared_kinds (Doc ds None) = map (fun t => (tdef_name t, tdef_kind t)) st).
  { unfold declared_kinds. rewrite X1. apply (kinds_of_tds Ep); exact Ft. }
  assert (HK : forall n, kind_in (declared_kinds (Doc ds None)) n = skind sc n).
  { intros n. rewrite HKeq. apply kind_in_skind. exact Lst. }
  assert (HK0 : forall n, kind_in (map (fun t => (tdef_name t, tdef_kind t)) (s_types sc)) n = skind sc n).
  { intros n. apply kind_in_skind. reflexivity. }
  (* validity facts of sc *)
  pose proof Hvalid as Hvalid0.
  unfold validate_schema in Hvalid.
  apply andb_prop in Hvalid; destruct Hvalid as [Hvalid Hvdd].
  apply andb_prop in Hvalid; destruct Hvalid as [Hvalid Hvty].
  apply andb_prop in Hvalid; destruct Hvalid as [Hvalid Hvs].
  apply andb_prop in Hvalid; destruct Hvalid as [Hvalid Hvm].
  apply andb_prop in Hvalid; destruct Hvalid as [_ Hvq].
  assert (Hin_st : forall t, In t st -> In t (s_types sc)) by (intros t Ht; eapply Permutation_in; eassumption).
  assert (Hin_sd : forall t, In t sd -> In t (s_ddefs sc)) by (intros t Ht; eapply Permutation_in; eassumption).
  (* all operation types of the document *)
  assert (Hops : all_ops ds = if schema_def_needed sc then schema_ops sc else []).
  { unfold all_ops. rewrite X3, X4, app_nil_r. unfold schema_defs.
    destruct (schema_def_needed sc); cbn [hd_error flat_map]; rewrite ?app_nil_r; reflexivity. }
  unfold sdl_rules_ok, sdl_rules_okb.
  (* 1 *)
  assert (R1 : r_unique_types (Doc ds None) = true).
  { unfold r_unique_types. cbn [doc_defs]. unfold ds. rewrite !flat_map_app.
    rewrite (flat_map_nil _ (schema_defs sc)), (flat_map_nil _ dds); cbn [app].
    - rewrite (flat_map_single (fun t x => def_of_tdef Ep t = Ok x) _ tdef_name st tds); [|  |exact Ft].
      + apply Bool.negb_true_iff. apply has_dup_NoDup. exact Hnd.
      + intros t x Hx. destruct (def_of_tdef_shape Ep t x Hx) as (-> & _). reflexivity.
    - eapply Forall_impl; [|exact Hdds]. intros x Hx. destruct x; try discriminate. reflexivity.
    - eapply Forall_impl; [|exact HS]. intros x (dirs & ots & ->). reflexivity. }
  (* 2 *)
  assert (R2 : r_unique_directives (Doc ds None) = true).
  { unfold r_unique_directives. cbn [doc_defs]. unfold ds. rewrite !flat_map_app.
    rewrite (flat_map_nil _ (schema_defs sc)), (flat_map_nil _ tds); cbn [app]; rewrite ?app_nil_r.
    - rewrite (flat_map_single (fun dd x => def_of_ddef Ep dd = Ok x) _ dd_name sd dds); [| |exact Fd].
      + apply Bool.negb_true_iff. eapply has_dup_perm; [apply Permutation_map; apply Permutation_sym; exact Psd|exact Hdupd].
      + intros dd x Hx. destruct (def_of_ddef_shape Ep dd x Hx) as (args & -> & _). reflexivity.
    - eapply Forall_impl; [|exact Htds]. intros x (_ & _ & _ & Hx). destruct x; try discriminate; reflexivity.
    - eapply Forall_impl; [|exact HS]. intros x (dirs & ots & ->). reflexivity. }
  (* 3 *)
  assert (R3 : r_one_schema (Doc ds None) = true).
  { unfold r_one_schema. cbn [doc_defs]. unfold ds. rewrite !filter_app.
    rewrite (filter_none _ dds), (filter_none _ tds); rewrite ?app_nil_r.
    - unfold schema_defs. destruct (schema_def_needed sc); reflexivity.
    - eapply Forall_impl; [|exact Htds]. intros x (_ & _ & Hx & _). destruct x; try discriminate; reflexivity.
    - eapply Forall_impl; [|exact Hdds]. intros x Hx. destruct x; try discriminate. reflexivity. }
  (* 4 *)
  assert (R4 : r_ext_targets (Doc ds None) = true).
  { unfold r_ext_targets. cbn [doc_defs]. apply forallb_forall. intros x Hx.
    rewrite Forall_forall in X5. rewrite (X5 x Hx). reflexivity. }
  (* 5 *)
  assert (R5 : r_unique_members (Doc ds None) = true).
  { unfold r_unique_members. rewrite X1. change (forallb members_unique_def tds = true).
    eapply Forall2_forallb_right; [|exact Ft]. intros t x Hin Hx. cbn beta in Hx.
    apply (unique_members_of sc Ep t x); [| |exact Hx].
    - rewrite forallb_forall in Hvty. apply Hvty. apply Hin_st; exact Hin.
    - unfold enum_names_unique in Henum. rewrite forallb_forall in Henum. apply Henum. apply Hin_st; exact Hin. }
  (* 6 *)
  assert (R6 : r_refs (Doc ds None) = true).
  { unfold r_refs. fold D. unfold refs_known in Hrefs |- *.
    set (g := fun t => forallb (known (declared_kinds (Doc ds None))) (tdef_refs t)).
    assert (Hg : forall t, g (strip_tdef t) = g t) by (intros t; unfold g; rewrite tdef_refs_strip; reflexivity).
    rewrite (forallb_strip_eq g _ _ Hg Hts), (forallb_perm g _ _ Pst).
    rewrite <- Hrefs. apply forallb_ext. intros t. unfold g. apply forallb_ext. intros n.
    unfold known. rewrite HK, HK0. reflexivity. }
  (* the directive definitions of the document *)
  assert (Hdir_defs : dir_defs ds = dds).
  { unfold dir_defs, ds. rewrite !filter_app.
    rewrite (filter_none _ (schema_defs sc)), (filter_none _ tds), (filter_all _ dds), app_nil_r; [reflexivity| | |].
    - eapply Forall_impl; [|exact Hdds]. intros x Hx. destruct x; try discriminate. reflexivity.
    - eapply Forall_impl; [|exact Htds]. intros x (_ & _ & _ & Hx). destruct x; try discriminate; reflexivity.
    - eapply Forall_impl; [|exact HS]. intros x (dirs & ots & ->). reflexivity. }
  assert (Hmember_t : Forall (fun x => forallb (iv_input (declared_kinds (Doc ds None))) (def_ivalues x) = true
                                       /\ forallb (coercible Ed) (def_ivalues x) = true /\ def_deps_ok x = true) tds).
  { assert (F : Forall2 (fun t x => In t st /\ def_of_tdef Ep t = Ok x) st tds).
    { eapply Forall2_impl_in; [|exact Ft]. intros a b Hin Hab. split; assumption. }
    eapply Forall2_right; [|exact F]. intros t x [Hin Hx].
    apply (tdef_rules sc Ep Ed _ HK t x); [|exact Hx|].
    - rewrite forallb_forall in Hvty. apply Hvty. apply Hin_st; exact Hin.
    - intros a Ha. apply Hrt. unfold schema_ivalues. apply in_or_app; left. apply in_flat_map.
      exists t; split; [apply Hin_st; exact Hin|exact Ha]. }
  assert (Hmember_d : Forall (fun x => forallb (iv_input (declared_kinds (Doc ds None))) (def_ivalues x) = true
                                       /\ forallb (coercible Ed) (def_ivalues x) = true /\ def_deps_ok x = true) dds).
  { assert (F : Forall2 (fun t x => In t sd /\ def_of_ddef Ep t = Ok x) sd dds).
    { eapply Forall2_impl_in; [|exact Fd]. intros a b Hin Hab. split; assumption. }
    eapply Forall2_right; [|exact F]. intros dd x [Hin Hx].
    apply (ddef_rules sc Ep Ed _ HK dd x); [|exact Hx|].
    - rewrite forallb_forall in Hvdd. pose proof (Hvdd dd (Hin_sd dd Hin)) as H. apply andb_prop in H; apply H.
    - intros a Ha. apply Hrt. unfold schema_ivalues. apply in_or_app; right. apply in_flat_map.
      exists dd; split; [apply Hin_sd; exact Hin|exact Ha]. }
  (* 7 *)
  assert (R7 : r_input_types (Doc ds None) = true).
  { unfold r_input_types. rewrite X1. cbn [doc_defs]. rewrite Hdir_defs. apply forallb_forall. intros x Hx.
    apply in_app_or in Hx. rewrite Forall_forall in Hmember_t, Hmember_d.
    destruct Hx as [Hx|Hx]; [apply (Hmember_t x Hx)|apply (Hmember_d x Hx)]. }
  (* 8 *)
  assert (R8 : r_defaults (Doc ds None) = true).
  { unfold r_defaults. rewrite X1. cbn [doc_defs]. rewrite Hdir_defs. fold Ed. apply forallb_forall. intros x Hx.
    apply in_app_or in Hx. rewrite Forall_forall in Hmember_t, Hmember_d.
    destruct Hx as [Hx|Hx]; [destruct (Hmember_t x Hx) as (_ & H1 & H2)|destruct (Hmember_d x Hx) as (_ & H1 & H2)];
      rewrite H1, H2; reflexivity. }
  (* 9 *)
  assert (R9 : r_ops_once (Doc ds None) = true).
  { unfold r_ops_once. cbn [doc_defs]. rewrite Hops. apply forallb_forall. intros k _. apply Nat.leb_le.
    destruct (schema_def_needed sc); [apply count_ops_schema_ops|cbn; lia]. }
  (* 10 *)
  assert (R10 : r_ops_known (Doc ds None) = true).
  { unfold r_ops_known. cbn [doc_defs]. rewrite Hops. destruct (schema_def_needed sc); [|reflexivity].
    assert (Hobj : forall r n, valid_root sc r = true -> r = Some n -> known (declared_kinds (Doc ds None)) n = true).
    { intros r n Hv ->. cbn [valid_root] in Hv. unfold s_is_object in Hv. unfold known. rewrite HK.
      destruct (skind sc n); [reflexivity|discriminate]. }
    unfold schema_ops. rewrite !forallb_app.
    destruct (s_query sc) as [q|] eqn:Eq, (s_mutation sc) as [m|] eqn:Em, (s_subscription sc) as [u|] eqn:Eu;
      cbn [forallb ot_type ty_name tref_of named_ty tref_name mk_name n_val andb];
      rewrite ?(Hobj _ q Hvq eq_refl), ?(Hobj _ m Hvm eq_refl), ?(Hobj _ u Hvs eq_refl); reflexivity. }
  (* 11 *)
  assert (R11 : r_default_roots (Doc ds None) = true).
  { unfold r_default_roots. cbn [doc_defs]. rewrite X3, Hops. unfold schema_defs.
    destruct (schema_def_needed sc); cbn [hd_error]; [reflexivity|].
    cbn [forallb count_ops filter length Nat.eqb].
    repeat match goal with |- context [default_root ?a ?b] => destruct (default_root a b) end; reflexivity. }
  (* 12 *)
  assert (R12 : r_no_override (Doc ds None) = true).
  { unfold r_no_override. fold D. unfold overrides_specified_directive in Hnoover |- *.
    rewrite (existsb_names dd_name (fun n => mem_str n specified_directive_names)) in Hnoover |- *.
    rewrite <- (strip_ddef_names (s_ddefs D)), HD, strip_ddef_names.
    rewrite (existsb_perm _ _ _ (Permutation_map dd_name Psd)). exact Hnoover. }
  (* 13 *)
  assert (R13 : r_valid (Doc ds None) = true).
  { unfold r_valid. fold D. rewrite (validate_declares_again sc D Hdupt); [exact Hvalid0|].
    repeat split; assumption. }
  rewrite R1, R2, R3, R4, R5, R6, R7, R8, R9, R10, R11, R12, R13. reflexivity.
Qed.

(* C12_members_roundtrip, guarded by the complements of the open findings:
   [default_rt] (custom-scalar-numeric-string-default of C12) and
   [defaults_stable] (input-default-self-cycle, default-vs-extension of C11) *)
Theorem members_roundtrip_guarded sc d :
  schema_okb sc = true -> ast_of_schema sc = Ok d ->
  (forall a, In a (schema_ivalues sc) -> default_rt (env_of_schema [] sc) (declared_env d) a) ->
  defaults_stable d ->
  sdl_rules_ok d
  /\ build_model (BOpts true []) d = Ok (declared d)
  /\ roundtrip_equiv (declared d) sc = true
  /\ members_roundtrip sc = true.
Proof.
  intros Hok Hast Hrt Hst. pose proof (ast_rules_ok sc d Hok Hast Hrt) as Hr.
  split; [exact Hr|]. apply members_roundtrip_doc; assumption.
Qed.
