(* parse_document on source text against D_document, every flag triple. *)
From PyGql Require Import Lang.Parser Spec.GrammarSpec Spec.DocGrammarSpec Spec.SdlGrammarSpec
  Proofs.GrammarProofs Proofs.EntryProofs Proofs.DocGrammarSound Proofs.SdlGrammarSound.

Theorem parse_document_sound_full fl s d :
  parse_document fl s = Ok d ->
  exists ts, lex s = Ok ts /\
    D_document (no_location fl) (fragment_variables fl) (allow_type_system fl) ts d.
Proof.
  intros H. unfold parse_document, run in H.
  destruct (parse_document_p fl (parse_fuel (lex_stream s)) (PSt (lex_stream s) 0)) as [[d' st']| | |] eqn:E;
    try discriminate.
  inversion H; subst d'. clear H.
  destruct (parse_document_p_sound_full fl _ _ _ _ E) as (ts & [Ht _] & Dd).
  simpl in Ht. exists ts. split; [|exact Dd].
  destruct Dd as [sof body eof defs Ks Ke Hl Hne].
  assert (Hstream : lex_stream s = (LT sof :: map LT body) ++ LT eof :: toks st').
  { rewrite Ht. simpl. rewrite map_app, <- app_assoc. reflexivity. }
  pose proof (lex_stream_eof_last _ _ _ _ Hstream Ke) as Hnil.
  unfold lex. rewrite Ht, Hnil, app_nil_r. apply collect_map.
Qed.

From PyGql Require Import Proofs.SdlGrammarComplete Spec.LexicalSpec Proofs.LexicalProofs.

Theorem parse_document_complete_full fl s ts d :
  lex s = Ok ts ->
  D_document_la (no_location fl) (fragment_variables fl) (allow_type_system fl) ts d ->
  parse_document fl s = Ok d.
Proof.
  intros Hl Dd. apply collect_ok_map in Hl. unfold parse_document, run. rewrite Hl.
  rewrite <- (app_nil_r (map LT ts)).
  rewrite (parse_document_p_complete_full fl (parse_fuel (map LT ts ++ [])) ts d [] 0 Dd).
  - reflexivity.
  - unfold parse_fuel. rewrite app_nil_r, map_length. lia.
Qed.

(* the disambiguated relation is a sub-relation of the plain one *)
Lemma D_definitions_la_list nl fv en ts ds :
  D_definitions_la nl fv en ts ds -> D_list (D_definition nl fv en) ts ds.
Proof. induction 1; constructor; assumption. Qed.

Lemma D_document_la_document nl fv en ts d : D_document_la nl fv en ts d -> D_document nl fv en ts d.
Proof. intros [sof body eof defs Ks Ke Hl Hne]. constructor; auto. apply D_definitions_la_list; exact Hl. Qed.

Theorem accepts_document_sound fl s d :
  parse_document fl s = Ok d ->
  exists ts, lexes_slack s ts /\
    D_document (no_location fl) (fragment_variables fl) (allow_type_system fl) ts d.
Proof.
  intros H. destruct (parse_document_sound_full fl s d H) as (ts & Hl & Dd).
  exists ts. split; [apply lex_lexes_slack; exact Hl|exact Dd].
Qed.

Theorem accepts_document_complete fl s ts d :
  lexes_slack s ts ->
  D_document_la (no_location fl) (fragment_variables fl) (allow_type_system fl) ts d ->
  parse_document fl s = Ok d.
Proof. intros Hl Dd. apply lex_lexes_slack in Hl. eapply parse_document_complete_full; eassumption. Qed.

From PyGql Require Import Proofs.SdlLookahead.

Theorem parse_document_sound_la fl s d :
  parse_document fl s = Ok d ->
  exists ts, lex s = Ok ts /\
    D_document_la (no_location fl) (fragment_variables fl) (allow_type_system fl) ts d.
Proof.
  intros H. unfold parse_document, run in H.
  destruct (parse_document_p fl (parse_fuel (lex_stream s)) (PSt (lex_stream s) 0)) as [[d' st']| | |] eqn:E;
    try discriminate.
  inversion H; subst d'. clear H.
  destruct (parse_document_p_sound_la fl _ _ _ _ E) as (ts & [Ht _] & Dd).
  simpl in Ht. exists ts. split; [|exact Dd].
  destruct Dd as [sof body eof defs Ks Ke Hl Hne].
  assert (Hstream : lex_stream s = (LT sof :: map LT body) ++ LT eof :: toks st').
  { rewrite Ht. simpl. rewrite map_app, <- app_assoc. reflexivity. }
  pose proof (lex_stream_eof_last _ _ _ _ Hstream Ke) as Hnil.
  unfold lex. rewrite Ht, Hnil, app_nil_r. apply collect_map.
Qed.

(* acceptance = derivability, for every flag triple and every document *)
Theorem accepts_document fl s d :
  parse_document fl s = Ok d <->
  exists ts, lexes_slack s ts /\
    D_document_la (no_location fl) (fragment_variables fl) (allow_type_system fl) ts d.
Proof.
  split.
  - intros H. destruct (parse_document_sound_la fl s d H) as (ts & Hl & Dd).
    exists ts. split; [apply lex_lexes_slack; exact Hl|exact Dd].
  - intros (ts & Hl & Dd). eapply accepts_document_complete; eassumption.
Qed.
