(* C16 -- proofs about Spec/TraceSpec.v and Exec/TraceModel.v *)
From Coq Require Import List NArith Arith Bool Lia.
Import ListNotations.
From PyGql Require Import Spec.TraceSpec Exec.TraceModel.

(* ================================================================ A. the checker decides the spec *)

Lemma dec_true : forall (P : Prop) (d : {P} + {~ P}), (if d then true else false) = true <-> P.
Proof. intros P [H|H]; split; intros; try discriminate; tauto. Qed.

Lemma bool_iff_eq : forall a b : bool, (a = true <-> b = true) -> a = b.
Proof. intros [|] [|] [H1 H2]; auto; try (symmetry; auto); exfalso; try (discriminate (H1 eq_refl)); discriminate (H2 eq_refl). Qed.

Lemma shape_P : forall p v e, In (Lp SP) (stage_shape p v e) <-> p = true.
Proof. intros [|] [|] [|]; cbn; intuition (try discriminate; try congruence). Qed.
Lemma shape_V : forall p v e, In (Lp SV) (stage_shape p v e) <-> v = true.
Proof. intros [|] [|] [|]; cbn; intuition (try discriminate; try congruence). Qed.
Lemma shape_E : forall p v e, In (Lp SE) (stage_shape p v e) <-> v && e = true.
Proof. intros [|] [|] [|]; cbn; intuition (try discriminate; try congruence). Qed.
Lemma shape_norm : forall p v e, stage_shape p v e = stage_shape p v (v && e).
Proof. intros p [|] e; reflexivity. Qed.
Lemma exec_reaches : forall oc, reaches_validation oc && is_exec oc = is_exec oc.
Proof. intros []; reflexivity. Qed.

Lemma stage_decides : forall c sw, sw = stage_word c <-> stage_spec c sw.
Proof.
  intros c sw; split.
  - intros ->. exists (stage_shape (c_text c) (reaches_validation (c_class c)) (is_exec (c_class c))).
    split; [do 3 eexists; reflexivity|].
    rewrite shape_P, shape_V, shape_E, exec_reaches. repeat split; auto.
  - intros (w & (p & v & e & ->) & HP & HV & HE & ->).
    rewrite shape_P in HP. rewrite shape_V in HV. rewrite shape_E in HE.
    apply bool_iff_eq in HP. apply bool_iff_eq in HV. apply bool_iff_eq in HE.
    unfold stage_word. rewrite (shape_norm p v e), HE, HP, HV. reflexivity.
Qed.

Lemma field_not_e : forall x, is_field x = true -> is_estart x = false /\ is_eend x = false.
Proof. intros [] H; cbn in *; try discriminate; auto. Qed.
Lemma estart_not_eend : forall x, is_estart x = true -> is_eend x = false.
Proof. intros [[] ?| | | | | | | | ] H; cbn in *; try discriminate; auto. Qed.

Lemma count_cons : forall f x l, count f (x :: l) = (if f x then 1 else 0) + count f l.
Proof. intros; unfold count; cbn. destruct (f x); reflexivity. Qed.

Lemma nest_scan_spec : forall k t s e,
  nest_scan k s e t = true <->
  (forall a x b, t = a ++ x :: b -> is_field x = true ->
     s + count is_estart a = k /\ e + count is_eend a = 0).
Proof.
  intros k t; induction t as [|y t IH]; intros s e; cbn [nest_scan].
  - split; auto. intros _ [|? ?] x b H; discriminate H.
  - split.
    + intros Hs a x b Heq Hf. destruct a as [|y' a]; cbn in Heq; injection Heq as <- Heq.
      * destruct (field_not_e _ Hf) as [E1 E2]. rewrite E1, E2, Hf in Hs.
        apply andb_prop in Hs as [Hs _]. apply andb_prop in Hs as [H1 H2].
        apply Nat.eqb_eq in H1, H2. unfold count; cbn. lia.
      * rewrite !count_cons.
        destruct (is_estart y) eqn:E1.
        { rewrite (estart_not_eend _ E1). destruct (proj1 (IH _ _) Hs a x b Heq Hf). lia. }
        destruct (is_eend y) eqn:E2.
        { destruct (proj1 (IH _ _) Hs a x b Heq Hf). lia. }
        destruct (is_field y) eqn:E3.
        { apply andb_prop in Hs as [_ Hs]. destruct (proj1 (IH _ _) Hs a x b Heq Hf). lia. }
        destruct (proj1 (IH _ _) Hs a x b Heq Hf). lia.
    + intros H.
      assert (Hrec : forall s' e', s' = s + (if is_estart y then 1 else 0) ->
                                   e' = e + (if is_eend y then 1 else 0) ->
                                   nest_scan k s' e' t = true).
      { intros s' e' -> ->. apply IH. intros a x b Heq Hf.
        assert (Hd : y :: t = (y :: a) ++ x :: b) by (cbn; rewrite Heq; reflexivity).
        specialize (H (y :: a) x b Hd Hf).
        rewrite !count_cons in H. lia. }
      destruct (is_estart y) eqn:E1.
      { apply Hrec; [lia|]. rewrite (estart_not_eend _ E1). lia. }
      destruct (is_eend y) eqn:E2.
      { apply Hrec; lia. }
      destruct (is_field y) eqn:E3.
      { destruct (H [] y t eq_refl E3) as [H1 H2]. unfold count in H1, H2; cbn in H1, H2.
        rewrite (proj2 (Nat.eqb_eq _ _)) by lia. rewrite (proj2 (Nat.eqb_eq _ _)) by lia.
        cbn. apply Hrec; lia. }
      apply Hrec; lia.
Qed.

Lemma nest_decides : forall c t, nest_scan (c_k c) 0 0 t = true <-> nest_spec c t.
Proof. intros c t. rewrite nest_scan_spec. unfold nest_spec. cbn. tauto. Qed.

Lemma guard_scan_spec : forall g p t,
  guard_scan g p t = true <->
  (forall a x b, t = a ++ x :: b -> about p x = true -> In g a).
Proof.
  intros g p t; induction t as [|y t IH]; cbn [guard_scan].
  - split; auto. intros _ [|? ?] x b H; discriminate H.
  - destruct (about p y) eqn:Ea.
    + split; [discriminate|]. intros H. destruct (H [] y t eq_refl Ea).
    + destruct (event_eq_dec y g) as [->|Hne].
      * split; auto. intros _ a x b Heq Hx. destruct a as [|y' a]; cbn in Heq; injection Heq as <- Heq.
        { congruence. } { left; reflexivity. }
      * rewrite IH. split.
        { intros H a x b Heq Hx. destruct a as [|y' a]; cbn in Heq; injection Heq as <- Heq.
          - congruence. - right. eapply H; eauto. }
        { intros H a x b Heq Hx. destruct (H (y :: a) x b) as [E|E]; auto.
          - cbn. rewrite Heq. reflexivity. - congruence. }
Qed.

Lemma parent_decides : forall t nd, parent_okb t nd = true <-> parent_spec t nd.
Proof.
  intros t nd; unfold parent_okb, parent_spec. destruct (nd_parent nd) as [q|].
  - rewrite guard_scan_spec. split.
    + intros H q' [= <-]. exact H.
    + intros H. exact (H q eq_refl).
  - split; auto. intros _ q H; discriminate H.
Qed.

Lemma word_decides : forall c nd w, word_okb c nd w = true <-> word_spec c nd w.
Proof.
  intros c nd w; unfold word_okb, word_spec. destruct (submit_mode c nd).
  - rewrite andb_true_iff, !dec_true. tauto.
  - apply dec_true.
Qed.

Lemma known_decides : forall (ns : list node) t,
  forallb (fun x => negb (is_field x) || existsb (fun nd => about (nd_path nd) x) ns) t = true <->
  (forall x, In x t -> is_field x = true -> exists nd, In nd ns /\ about (nd_path nd) x = true).
Proof.
  intros ns t. rewrite forallb_forall. split.
  - intros H x Hin Hf. specialize (H x Hin). rewrite Hf in H. cbn in H.
    apply existsb_exists in H. exact H.
  - intros H x Hin. destruct (is_field x) eqn:Hf; cbn; auto.
    apply existsb_exists. auto.
Qed.

Theorem trace_ok_decides : forall c t, trace_ok c t = true <-> trace_spec c t.
Proof.
  intros c t; unfold trace_ok. rewrite !andb_true_iff, dec_true, stage_decides, nest_decides,
    known_decides, !forallb_forall. split.
  - intros ((((H1 & H2) & H3) & H4) & H5). constructor; auto.
    + intros nd Hin. apply word_decides. auto.
    + intros nd Hin. apply parent_decides. auto.
  - intros [H1 H2 H3 H4 H5]. split; [split; [split; [split|]|]|]; auto.
    + intros nd Hin. apply word_decides. auto.
    + intros nd Hin. apply parent_decides. auto.
Qed.

(* ================================================================ B. MultiInstrumentation *)

Section inst_ind2.
  Variable P : inst -> Prop.
  Hypothesis Hleaf : forall i, P (ILeaf i).
  Hypothesis Hmulti : forall l, Forall P l -> P (IMulti l).
  Fixpoint inst_ind2 (x : inst) : P x :=
    match x with
    | ILeaf i => Hleaf i
    | IMulti l =>
        Hmulti l ((fix go (l : list inst) : Forall P l :=
                     match l with
                     | [] => Forall_nil P
                     | y :: l' => Forall_cons y (inst_ind2 y) (go l')
                     end) l)
    end.
End inst_ind2.

Lemma fold_right_rev_flat : forall (f : inst -> list event) l,
  fold_right (fun y acc => acc ++ f y) [] l = flat_map f (rev l).
Proof.
  intros f l; induction l as [|y l IH]; cbn; auto.
  rewrite flat_map_app, IH. cbn. rewrite app_nil_r. reflexivity.
Qed.

Lemma flat_map_rev_rev : forall (A B : Type) (f : A -> list B) l,
  rev (flat_map f l) = flat_map (fun x => rev (f x)) (rev l).
Proof.
  intros A B f l; induction l as [|y l IH]; cbn; auto.
  rewrite rev_app_distr, flat_map_app, IH. cbn. rewrite app_nil_r. reflexivity.
Qed.

(* however MultiInstrumentations are nested: start hooks fire in flattening
   order, end hooks in exactly the reverse order *)
Lemma fire_start_ids : forall mk x, fire_start mk x = map mk (inst_ids x).
Proof.
  intros mk x; induction x as [i|l IH] using inst_ind2; cbn; auto.
  induction IH as [|y l Hy _ IHl]; cbn; auto. rewrite map_app, Hy, IHl. reflexivity.
Qed.

Lemma fire_end_ids : forall mk x, fire_end mk x = map mk (rev (inst_ids x)).
Proof.
  intros mk x; induction x as [i|l IH] using inst_ind2; cbn [fire_end inst_ids]; auto.
  induction IH as [|y l Hy _ IHl]; cbn [fold_right flat_map]; auto.
  rewrite IHl, Hy, rev_app_distr, map_app. reflexivity.
Qed.

Lemma stack_ids : forall k, inst_ids (stack k) = seq 0 k.
Proof.
  intros k; unfold stack; cbn. generalize (seq 0 k) as l.
  induction l as [|y l IH]; cbn; auto. rewrite IH; reflexivity.
Qed.

(* ================================================================ C. stage machine *)

Lemma hook_start_stack : forall k s, hook_start (stack k) s = expand1 k (Lp s).
Proof. intros; unfold hook_start. rewrite fire_start_ids, stack_ids. reflexivity. Qed.
Lemma hook_end_stack : forall k s, hook_end (stack k) s = expand1 k (Lm s).
Proof. intros; unfold hook_end. rewrite fire_end_ids, stack_ids. reflexivity. Qed.

(* the letters before / after the place where the executor runs *)
Definition pre_letters (p v e : bool) : list sletter :=
  [Lp SQ] ++ opt p [Lp SP; Lm SP] ++ opt v ([Lp SV; Lm SV] ++ opt e [Lp SE]).
Definition post_letters (e : bool) : list sletter := opt e [Lm SE] ++ [Lm SQ].
Definition stage_pre (c : config) : list event :=
  expand (c_k c) (pre_letters (c_text c) (reaches_validation (c_class c)) (is_exec (c_class c))).
Definition stage_post (c : config) : list event :=
  expand (c_k c) (post_letters (is_exec (c_class c))).

Lemma expand_app : forall k a b, expand k (a ++ b) = expand k a ++ expand k b.
Proof. intros; unfold expand; apply flat_map_app. Qed.

Lemma pre_post_word : forall c, stage_pre c ++ stage_post c = stage_word c.
Proof.
  intros c; unfold stage_pre, stage_post, stage_word. rewrite <- expand_app. f_equal.
  destruct (c_class c), (c_text c); reflexivity.
Qed.

Definition wf_request (text : bool) (oc : oclass) : Prop := oc = OCSyntax -> text = true.

Lemma process_split : forall k n text oc ns mwa fields, wf_request text oc ->
  let c := mkConfig k n text oc mwa ns in
  process (stack k) text oc fields = stage_pre c ++ opt (is_exec oc) fields ++ stage_post c.
Proof.
  intros k n text oc ns mwa fields Hwf c.
  unfold process, from_validation, abort, on_end, stage_pre, stage_post, c; cbn [c_k c_text c_class].
  rewrite !hook_start_stack, !hook_end_stack.
  destruct text, oc; try (discriminate (Hwf eq_refl));
    cbn [is_exec reaches_validation pre_letters post_letters opt app expand flat_map];
    rewrite ?app_nil_r, <- ?app_assoc; reflexivity.
Qed.

Lemma expand1_stage : forall k l, Forall (fun x => is_stage x = true) (expand1 k l).
Proof. intros k [s|s]; cbn; apply Forall_forall; intros x Hx; apply in_map_iff in Hx as (i & <- & _); reflexivity. Qed.
Lemma expand_stage : forall k w, Forall (fun x => is_stage x = true) (expand k w).
Proof.
  intros k w; induction w as [|l w IH]; cbn; [constructor|].
  apply Forall_app; split; auto using expand1_stage.
Qed.

Lemma filter_all : forall (A : Type) (f : A -> bool) l, Forall (fun x => f x = true) l -> filter f l = l.
Proof. intros A f l H; induction H as [|x l Hx _ IH]; cbn; auto. rewrite Hx, IH; reflexivity. Qed.
Lemma filter_none : forall (A : Type) (f : A -> bool) l, Forall (fun x => f x = false) l -> filter f l = [].
Proof. intros A f l H; induction H as [|x l Hx _ IH]; cbn; auto. rewrite Hx, IH; reflexivity. Qed.

Lemma count_estart_expand1 : forall k l, count is_estart (expand1 k l) = match l with Lp SE => k | _ => 0 end.
Proof.
  intros k l. unfold count.
  destruct l as [[]|[]]; cbn [expand1];
    try (rewrite filter_none; [reflexivity|apply Forall_forall; intros x Hx; apply in_map_iff in Hx as (i & <- & _); reflexivity]).
  rewrite filter_all; [rewrite map_length, seq_length; reflexivity|].
  apply Forall_forall; intros x Hx; apply in_map_iff in Hx as (i & <- & _); reflexivity.
Qed.
Lemma count_eend_expand1 : forall k l, count is_eend (expand1 k l) = match l with Lm SE => k | _ => 0 end.
Proof.
  intros k l. unfold count.
  destruct l as [[]|[]]; cbn [expand1];
    try (rewrite filter_none; [reflexivity|apply Forall_forall; intros x Hx; apply in_map_iff in Hx as (i & <- & _); reflexivity]).
  rewrite filter_all; [rewrite map_length, rev_length, seq_length; reflexivity|].
  apply Forall_forall; intros x Hx; apply in_map_iff in Hx as (i & <- & _); reflexivity.
Qed.
Lemma count_app : forall f a b, count f (a ++ b) = count f a + count f b.
Proof. intros; unfold count. rewrite filter_app, app_length. reflexivity. Qed.

Lemma stage_pre_counts : forall c, is_exec (c_class c) = true ->
  count is_estart (stage_pre c) = c_k c /\ count is_eend (stage_pre c) = 0.
Proof.
  intros c He; unfold stage_pre. rewrite He.
  assert (Hv : reaches_validation (c_class c) = true) by (destruct (c_class c); auto; discriminate).
  rewrite Hv. destruct (c_text c); cbn [pre_letters opt app expand flat_map];
    rewrite !count_app, !count_estart_expand1, !count_eend_expand1; unfold count; cbn; lia.
Qed.

(* ================================================================ D. middlewares *)

Lemma apply_mw_bracket : forall n f o p,
  apply_middlewares f (rec_mws n) o p = enters n p ++ f o p ++ exits n p.
Proof.
  intros n f o p; induction n as [|n IH].
  - cbn. rewrite app_nil_r. reflexivity.
  - unfold apply_middlewares, rec_mws, enters, exits in *.
    rewrite seq_S, map_app, fold_left_app. cbn [map fold_left plus].
    unfold rec_mw at 1. rewrite IH.
    rewrite rev_app_distr. cbn [rev app map]. rewrite map_app. cbn [map].
    rewrite <- !app_assoc. reflexivity.
Qed.

Lemma enters_in : forall n p j, In (MwEnter j p) (enters n p) <-> j < n.
Proof.
  intros n p j; unfold enters. rewrite in_map_iff. split.
  - intros (i & [= <-] & Hi). apply in_rev in Hi. apply in_seq in Hi. lia.
  - intros H. exists j; split; auto. apply -> in_rev. apply in_seq. lia.
Qed.
Lemma exits_in : forall n p j, In (MwExit j p) (exits n p) <-> j < n.
Proof.
  intros n p j; unfold exits. rewrite in_map_iff. split.
  - intros (i & [= <-] & Hi). apply in_seq in Hi. lia.
  - intros H. exists j; split; auto. apply in_seq. lia.
Qed.
Lemma NoDup_map_inj : forall (A B : Type) (f : A -> B) l,
  (forall x y, f x = f y -> x = y) -> NoDup l -> NoDup (map f l).
Proof.
  intros A B f l Hinj H; induction H as [|x l Hx _ IH]; cbn; constructor; auto.
  intros Hin. apply in_map_iff in Hin as (y & Hy & Hin). apply Hinj in Hy. subst; auto.
Qed.
Lemma enters_nodup : forall n p, NoDup (enters n p).
Proof. intros; apply NoDup_map_inj; [intros x y [= ->]; auto|]. apply NoDup_rev, seq_NoDup. Qed.
Lemma exits_nodup : forall n p, NoDup (exits n p).
Proof. intros; apply NoDup_map_inj; [intros x y [= ->]; auto|]. apply seq_NoDup. Qed.

(* the resolver cache only ever holds the middleware-wrapped resolver *)
Definition bracket (n : nat) (w : callable) : Prop :=
  forall o p, w o p = enters n p ++ resolver_body o p ++ exits n p.
Definition cache_ok (n : nat) (c : cache) : Prop :=
  forall r w, cache_get c r = Some w -> bracket n w.

Lemma fr_ok : forall n c r, cache_ok n c ->
  bracket n (fst (fr n c r)) /\ cache_ok n (snd (fr n c r)).
Proof.
  intros n c r Hc; unfold fr, field_resolver. destruct (cache_get c r) as [w|] eqn:Hg; cbn [fst snd].
  - split; auto. eapply Hc; eauto.
  - assert (Hb : bracket n (match rec_mws n with
                            | [] => resolver_body
                            | _ :: _ => apply_middlewares resolver_body (rec_mws n) end)).
    { intros o p. rewrite <- apply_mw_bracket. destruct (rec_mws n); reflexivity. }
    split; auto. intros r' w' H. cbn in H. destruct (Nat.eqb r r').
    + injection H as <-. exact Hb.
    + eapply Hc; eauto.
Qed.

(* ================================================================ E. sequential executors *)

Section ftree_ind2.
  Variable P : ftree -> Prop.
  Hypothesis Hnode : forall rel o d kids, Forall P kids -> P (FNode rel o d kids).
  Fixpoint ftree_ind2 (t : ftree) : P t :=
    match t with
    | FNode rel o d kids =>
        Hnode rel o d kids ((fix go (l : list ftree) : Forall P l :=
                               match l with
                               | [] => Forall_nil P
                               | y :: l' => Forall_cons y (ftree_ind2 y) (go l')
                               end) kids)
    end.
End ftree_ind2.

Lemma field_start_stack : forall k p, field_start (stack k) p = starts k p.
Proof. intros; unfold field_start. rewrite fire_start_ids, stack_ids. reflexivity. Qed.
Lemma field_end_stack : forall k p, field_end (stack k) p = ends k p.
Proof. intros; unfold field_end. rewrite fire_end_ids, stack_ids. reflexivity. Qed.

Lemma seq_fields_words : forall (ef : cache -> ftree -> list event * cache)
    (W : ftree -> list event) (inv : cache -> Prop) l,
  Forall (fun k => forall c, inv c -> fst (ef c k) = W k /\ inv (snd (ef c k))) l ->
  forall c, inv c -> fst (seq_fields ef c l) = flat_map W l /\ inv (snd (seq_fields ef c l)).
Proof.
  intros ef W inv l H; induction H as [|k l Hk _ IH]; intros c Hc; cbn; auto.
  destruct (Hk c Hc) as [E1 I1]. destruct (ef c k) as [e1 c1]; cbn in E1, I1.
  destruct (IH c1 I1) as [E2 I2]. destruct (seq_fields ef c1 l) as [e2 c2]; cbn in E2, I2 |- *.
  subst. auto.
Qed.

Lemma concat_map_flat_map : forall (A B C : Type) (g : B -> list C) (f : A -> list B) l,
  concat (map g (flat_map f l)) = flat_map (fun x => concat (map g (f x))) l.
Proof.
  intros A B C g f l; induction l as [|x l IH]; cbn; auto.
  rewrite map_app, concat_app, IH. reflexivity.
Qed.

Definition words (k n : nat) (ns : list node) : list event := concat (map (inline_word k n) ns).

Lemma exec_b_words : forall k n rid_of t c pre par, cache_ok n c ->
  fst (exec_field_b (stack k) n rid_of c pre t) = words k n (expected pre par t)
  /\ cache_ok n (snd (exec_field_b (stack k) n rid_of c pre t)).
Proof.
  intros k n rid_of t; induction t as [rel o d kids IH] using ftree_ind2; intros c pre par Hc.
  cbn [exec_field_b expected]. set (p := pre ++ rel).
  destruct (fr_ok n c (rid_of p) Hc) as [Hb Hc1].
  destruct (fr n c (rid_of p)) as [resolver c1]; cbn [fst snd] in Hb, Hc1.
  rewrite field_start_stack, field_end_stack.
  destruct o; cbn [fst snd]; unfold words; cbn [map concat]; unfold inline_word at 1;
    cbn [nd_path nd_out mws call_word]; rewrite ?Hb; cbn [resolver_body]; rewrite ?app_nil_r.
  - (* OVal *)
    assert (Hk : Forall (fun k0 => forall c0, cache_ok n c0 ->
                 fst (exec_field_b (stack k) n rid_of c0 p k0) = words k n (expected p (Some p) k0)
                 /\ cache_ok n (snd (exec_field_b (stack k) n rid_of c0 p k0))) kids).
    { eapply Forall_impl; [|exact IH]. intros a Ha c0 Hc0. apply Ha; auto. }
    destruct (seq_fields_words _ _ _ _ Hk c1 Hc1) as [E I].
    destruct (seq_fields (fun c0 k0 => exec_field_b (stack k) n rid_of c0 p k0) c1 kids) as [evs c2].
    cbn [fst snd] in *. split; auto. rewrite E. unfold words. rewrite concat_map_flat_map.
    rewrite <- !app_assoc. reflexivity.
  - split; auto. rewrite <- !app_assoc. reflexivity.
  - split; auto. rewrite <- !app_assoc. reflexivity.
  - split; auto.
Qed.

(* Executor.resolve_field under the blocking runtime emits what
   BlockingExecutor.resolve_field emits *)
Lemma seq_fields_ext : forall ef1 ef2 l,
  Forall (fun k => forall c, ef1 c k = ef2 c k) l -> forall c, seq_fields ef1 c l = seq_fields ef2 c l.
Proof.
  intros ef1 ef2 l H; induction H as [|k l Hk _ IH]; intros c; cbn; auto.
  rewrite Hk. destruct (ef2 c k) as [e1 c1]. rewrite IH. reflexivity.
Qed.

Lemma exec_g_eq_b : forall I n rid_of t c pre,
  exec_field_g I n rid_of c pre t = exec_field_b I n rid_of c pre t.
Proof.
  (* the fail/complete closures and the try/except/finally have the same
     shape as event emitters: the two fixpoints are convertible *)
  intros. reflexivity.
Qed.

Lemma cache_ok_nil : forall n, cache_ok n [].
Proof. intros n r w H; discriminate H. Qed.

Lemma exec_roots_words : forall k n rid_of ts,
  fst (exec_roots (exec_field_b (stack k) n rid_of) [] ts) = words k n (expected_roots ts).
Proof.
  intros k n rid_of ts; unfold exec_roots, expected_roots, words.
  rewrite concat_map_flat_map.
  apply (seq_fields_words _ (fun t => concat (map (inline_word k n) (expected [] None t))) (cache_ok n)).
  - apply Forall_forall. intros t _ c Hc. apply exec_b_words; auto.
  - apply cache_ok_nil.
Qed.

(* ================================================================ F. every admissible interleaving is accepted *)

Lemma merge_filter : forall (A : Type) (f : A -> bool) a b t,
  merge a b t -> merge (filter f a) (filter f b) (filter f t).
Proof.
  intros A f a b t H; induction H; cbn; try constructor.
  - destruct (f x); [constructor|]; auto.
  - destruct (f x); [constructor|]; auto.
Qed.
Lemma merge_nil_r : forall (A : Type) (a t : list A), merge a [] t -> t = a.
Proof. intros A a t H; remember [] as b; induction H; try discriminate; auto. f_equal; auto. Qed.
Lemma merge_nil_l : forall (A : Type) (b t : list A), merge [] b t -> t = b.
Proof. intros A b t H; remember [] as a; induction H; try discriminate; auto. f_equal; auto. Qed.
Lemma merge_in : forall (A : Type) (a b t : list A) x, merge a b t -> In x t -> In x a \/ In x b.
Proof.
  intros A a b t x H; induction H; cbn; auto.
  - intros [->|Hin]; auto. destruct (IHmerge Hin); auto.
  - intros [->|Hin]; auto. destruct (IHmerge Hin); auto.
Qed.
Lemma merge_app : forall (A : Type) (a b : list A), merge a b (a ++ b).
Proof.
  intros A a b; induction a as [|x a IH]; cbn.
  - induction b; constructor; auto.
  - constructor; auto.
Qed.
Lemma interleave_in : forall (A : Type) (ws : list (list A)) t x,
  interleave_all ws t -> In x t -> exists w, In w ws /\ In x w.
Proof.
  intros A ws t x H; induction H; cbn; [tauto|]. intros Hin.
  destruct (merge_in _ _ _ _ _ H0 Hin) as [Hw|Ht].
  - exists w; auto.
  - destruct (IHinterleave_all Ht) as (w' & ? & ?). exists w'; auto.
Qed.
Lemma interleave_concat : forall (A : Type) (ws : list (list A)), interleave_all ws (concat ws).
Proof. intros A ws; induction ws; cbn; econstructor; eauto using merge_app. Qed.

Lemma about_unique : forall p q x, about p x = true -> about q x = true -> p = q.
Proof.
  intros p q x; unfold about. destruct (ev_path x) as [r|]; try discriminate.
  destruct (path_eq_dec r p), (path_eq_dec r q); try discriminate; congruence.
Qed.
Lemma about_field : forall p x, about p x = true -> is_stage x = false.
Proof. intros p x; unfold about, is_stage. destruct (ev_path x); auto; discriminate. Qed.
Lemma stage_not_about : forall p x, is_stage x = true -> about p x = false.
Proof. intros p x; unfold about, is_stage. destruct (ev_path x); auto; discriminate. Qed.

Definition all_about (W : node -> list event) (nd : node) : Prop :=
  Forall (fun x => about (nd_path nd) x = true) (W nd).

Lemma interleave_proj : forall (W : node -> list event) ns t,
  NoDup (map nd_path ns) ->
  (forall nd, In nd ns -> all_about W nd) ->
  interleave_all (map W ns) t ->
  forall nd, In nd ns -> filter (about (nd_path nd)) t = W nd.
Proof.
  intros W ns; induction ns as [|n0 ns IH]; intros t Hnd Hab Hil nd Hin; [destruct Hin|].
  cbn in Hil. inversion Hil as [|w ws t' t0 Hil' Hm]; subst. inversion Hnd as [|? ? Hnotin Hnd']; subst.
  assert (Hother : forall x, In x t' -> exists n1, In n1 ns /\ about (nd_path n1) x = true).
  { intros x Hx. destruct (interleave_in _ _ _ _ Hil' Hx) as (w & Hw & Hxw).
    apply in_map_iff in Hw as (n1 & <- & Hn1). exists n1; split; auto.
    assert (Ha : all_about W n1) by (apply Hab; right; auto).
    unfold all_about in Ha. rewrite Forall_forall in Ha. auto. }
  pose proof (merge_filter _ (about (nd_path nd)) _ _ _ Hm) as Hmf.
  destruct Hin as [->|Hin].
  - rewrite (filter_all _ _ (W nd)) in Hmf by (apply Hab; left; auto).
    rewrite (filter_none _ _ t') in Hmf.
    + apply merge_nil_r in Hmf. exact Hmf.
    + apply Forall_forall. intros x Hx. destruct (Hother x Hx) as (n1 & Hn1 & Ha1).
      destruct (about (nd_path nd) x) eqn:Ea; auto.
      exfalso. apply Hnotin. rewrite (about_unique _ _ _ Ea Ha1). apply in_map; auto.
  - rewrite (filter_none _ _ (W n0)) in Hmf.
    + apply merge_nil_l in Hmf. rewrite Hmf. apply IH; auto. intros; apply Hab; right; auto.
    + assert (Ha0 : all_about W n0) by (apply Hab; left; auto).
      unfold all_about in Ha0. rewrite Forall_forall in Ha0 |- *. intros x Hx.
      destruct (about (nd_path nd) x) eqn:Ea; auto.
      exfalso. apply Hnotin. rewrite <- (about_unique _ _ _ Ea (Ha0 x Hx)). apply in_map; auto.
Qed.

(* --- scanning through the stage prefix / suffix *)
Lemma stage_flags : forall x, is_stage x = true -> is_field x = false.
Proof. intros x H; unfold is_field; rewrite H; reflexivity. Qed.

Lemma nest_scan_stage : forall k l s e, Forall (fun x => is_stage x = true) l -> nest_scan k s e l = true.
Proof.
  intros k l; induction l as [|x l IH]; intros s e H; cbn; auto. inversion H; subst.
  rewrite (stage_flags x) by auto. destruct (is_estart x), (is_eend x); auto.
Qed.
Lemma nest_scan_prefix : forall k pre r s e, Forall (fun x => is_stage x = true) pre ->
  nest_scan k s e (pre ++ r) = nest_scan k (s + count is_estart pre) (e + count is_eend pre) r.
Proof.
  intros k pre r; induction pre as [|x pre IH]; intros s e H; cbn [app nest_scan].
  - unfold count; cbn. rewrite !Nat.add_0_r. reflexivity.
  - inversion H; subst. rewrite !count_cons, (stage_flags x) by auto.
    destruct (is_estart x) eqn:E1.
    { rewrite (estart_not_eend _ E1), IH by auto. f_equal; lia. }
    destruct (is_eend x) eqn:E2; rewrite IH by auto; f_equal; lia.
Qed.
Lemma nest_scan_fields : forall k mid post,
  Forall (fun x => is_stage x = false) mid -> Forall (fun x => is_stage x = true) post ->
  nest_scan k k 0 (mid ++ post) = true.
Proof.
  intros k mid post Hm Hp; induction Hm as [|x mid Hx _ IH]; cbn [app].
  - apply nest_scan_stage; auto.
  - cbn [nest_scan]. assert (Hf : is_field x = true) by (unfold is_field; rewrite Hx; reflexivity).
    destruct (field_not_e _ Hf) as [-> ->]. rewrite Hf, Nat.eqb_refl. cbn. exact IH.
Qed.

Lemma guard_no_about : forall g p l, Forall (fun x => about p x = false) l -> guard_scan g p l = true.
Proof.
  intros g p l H; induction H as [|x l Hx _ IH]; cbn; auto. rewrite Hx.
  destruct (event_eq_dec x g); auto.
Qed.
Lemma guard_app : forall g p mid post, guard_scan g p mid = true ->
  Forall (fun x => about p x = false) post -> guard_scan g p (mid ++ post) = true.
Proof.
  intros g p mid post; induction mid as [|x mid IH]; cbn [app guard_scan]; intros H Hp.
  - apply guard_no_about; auto.
  - destruct (about p x); auto. destruct (event_eq_dec x g); auto.
Qed.
Lemma guard_hit : forall g p a r, Forall (fun x => about p x = false) a -> In g a ->
  guard_scan g p (a ++ r) = true.
Proof.
  intros g p a r H; induction H as [|x a Hx _ IH]; cbn [app guard_scan In]; [tauto|].
  intros Hin. rewrite Hx. destruct (event_eq_dec x g) as [|Hne]; auto.
  destruct Hin; [contradiction|auto].
Qed.
Lemma guard_prefix : forall g p pre r, Forall (fun x => is_stage x = true) pre -> is_stage g = false ->
  guard_scan g p (pre ++ r) = guard_scan g p r.
Proof.
  intros g p pre r H Hg; induction H as [|x pre Hx _ IH]; cbn [app guard_scan]; auto.
  rewrite (stage_not_about p x Hx). destruct (event_eq_dec x g) as [->|]; auto. congruence.
Qed.

Lemma Forall_weaken : forall (A : Type) (P Q : A -> Prop) l, (forall x, P x -> Q x) -> Forall P l -> Forall Q l.
Proof. intros; eapply Forall_impl; eauto. Qed.

Theorem interleave_ok : forall c (W : node -> list event) pre mid post,
  NoDup (map nd_path (nodes_of c)) ->
  Forall (fun x => is_stage x = true) pre -> Forall (fun x => is_stage x = true) post ->
  pre ++ post = stage_word c ->
  (mid = [] \/ (count is_estart pre = c_k c /\ count is_eend pre = 0)) ->
  (forall nd, In nd (nodes_of c) -> word_spec c nd (W nd) /\ all_about W nd) ->
  interleave_all (map W (nodes_of c)) mid ->
  (forall nd, In nd (nodes_of c) -> parent_spec mid nd) ->
  trace_ok c (pre ++ mid ++ post) = true.
Proof.
  intros c W pre mid post Hnd Hpre Hpost Hword Hcnt HW Hil Hpar.
  assert (Hmid : forall x, In x mid -> exists nd, In nd (nodes_of c) /\ about (nd_path nd) x = true).
  { intros x Hx. destruct (interleave_in _ _ _ _ Hil Hx) as (w & Hw & Hxw).
    apply in_map_iff in Hw as (n1 & <- & Hn1). exists n1; split; auto.
    destruct (HW n1 Hn1) as [_ Ha]. unfold all_about in Ha. rewrite Forall_forall in Ha. auto. }
  assert (Hmidf : Forall (fun x => is_stage x = false) mid).
  { apply Forall_forall. intros x Hx. destruct (Hmid x Hx) as (nd & _ & Ha). eapply about_field; eauto. }
  unfold trace_ok. rewrite !andb_true_iff. split; [split; [split; [split|]|]|].
  - apply dec_true. rewrite !filter_app, (filter_all _ _ pre), (filter_all _ _ post) by auto.
    rewrite (filter_none _ _ mid); auto.
  - destruct Hcnt as [->|[H1 H2]].
    + cbn. apply nest_scan_stage. apply Forall_app; auto.
    + rewrite nest_scan_prefix by auto. rewrite H1, H2. cbn. apply nest_scan_fields; auto.
  - apply forallb_forall. intros x Hx. apply in_app_or in Hx as [Hx|Hx]; [|apply in_app_or in Hx as [Hx|Hx]].
    + rewrite Forall_forall in Hpre. rewrite (stage_flags x); auto.
    + destruct (Hmid x Hx) as (nd & Hn & Ha). apply orb_true_iff; right. apply existsb_exists. eauto.
    + rewrite Forall_forall in Hpost. rewrite (stage_flags x); auto.
  - apply forallb_forall. intros nd Hn. apply word_decides.
    rewrite !filter_app.
    rewrite (filter_none _ _ pre) by (eapply Forall_weaken; [|exact Hpre]; intros; apply stage_not_about; auto).
    rewrite (filter_none _ _ post) by (eapply Forall_weaken; [|exact Hpost]; intros; apply stage_not_about; auto).
    rewrite app_nil_r. cbn [app].
    rewrite (interleave_proj W (nodes_of c) mid); auto.
    + apply HW; auto.
    + intros n1 Hn1. apply HW; auto.
  - apply forallb_forall. intros nd Hn. specialize (Hpar nd Hn). apply parent_decides in Hpar.
    unfold parent_okb in *. destruct (nd_parent nd) as [q|]; auto.
    rewrite guard_prefix by auto. apply guard_app; auto.
    eapply Forall_weaken; [|exact Hpost]; intros; apply stage_not_about; auto.
Qed.

(* ================================================================ G. the model's traces are accepted *)

Theorem stage_bracket : forall k n text oc mwa ns fields, wf_request text oc ->
  Forall (fun x => is_stage x = false) fields ->
  stage_spec (mkConfig k n text oc mwa ns) (filter is_stage (process (stack k) text oc fields)).
Proof.
  intros k n text oc mwa ns fields Hwf Hf. apply stage_decides.
  rewrite (process_split k n text oc ns mwa fields Hwf). rewrite !filter_app.
  rewrite <- pre_post_word. unfold stage_pre, stage_post.
  rewrite !(filter_all _ is_stage (expand _ _)) by apply expand_stage.
  rewrite (filter_none _ is_stage (opt _ _)); [reflexivity|].
  destruct (is_exec oc); cbn; auto.
Qed.

Theorem stage_only_ok : forall k n text oc mwa ns fields, wf_request text oc -> is_exec oc = false ->
  trace_ok (mkConfig k n text oc mwa ns) (process (stack k) text oc fields) = true.
Proof.
  intros k n text oc mwa ns fields Hwf He.
  rewrite (process_split k n text oc ns mwa fields Hwf). rewrite He. cbn [opt].
  assert (Hn : nodes_of (mkConfig k n text oc mwa ns) = []) by (unfold nodes_of; cbn; rewrite He; reflexivity).
  apply (interleave_ok _ (fun _ => [])); rewrite ?Hn; cbn [map].
  - constructor.
  - apply expand_stage.
  - apply expand_stage.
  - apply pre_post_word.
  - left; reflexivity.
  - intros nd [].
  - constructor.
  - intros nd [].
Qed.

Lemma about_self : forall p x, ev_path x = Some p -> about p x = true.
Proof. intros p x H; unfold about; rewrite H. destruct (path_eq_dec p p); congruence. Qed.

Lemma Forall_map_about : forall (A : Type) (f : A -> event) p l,
  (forall a, ev_path (f a) = Some p) -> Forall (fun x => about p x = true) (map f l).
Proof. intros A f p l H. apply Forall_forall. intros x Hx. apply in_map_iff in Hx as (a & <- & _). apply about_self; auto. Qed.

Lemma inline_about : forall k n nd, Forall (fun x => about (nd_path nd) x = true) (inline_word k n nd).
Proof.
  intros k n nd; unfold inline_word, starts, ends, enters, exits.
  repeat (apply Forall_app; split); try (apply Forall_map_about; reflexivity).
  - destruct (nd_out nd); cbn; try constructor; apply Forall_map_about; reflexivity.
  - destruct (nd_out nd); cbn; repeat constructor; apply about_self; reflexivity.
  - destruct (nd_out nd); cbn; try constructor; apply Forall_map_about; reflexivity.
Qed.

Lemma inline_return : forall k n nd, nd_out nd = OVal -> In (Return (nd_path nd)) (inline_word k n nd).
Proof.
  intros k n nd H; unfold inline_word. rewrite H. cbn [call_word mws].
  apply in_or_app; right. apply in_or_app; right. apply in_or_app; left. cbn; auto.
Qed.

(* every resolved sub-field comes after the field it hangs off, which returned a value *)
Definition pcond (par : option path) (seen : list node) : Prop :=
  forall q, par = Some q -> exists pn, In pn seen /\ nd_path pn = q /\ nd_out pn = OVal.
Fixpoint parents_first (seen : list node) (ns : list node) : Prop :=
  match ns with
  | [] => True
  | nd :: ns' => pcond (nd_parent nd) seen /\ parents_first (nd :: seen) ns'
  end.

Lemma pcond_mono : forall par s1 s2, (forall x, In x s1 -> In x s2) -> pcond par s1 -> pcond par s2.
Proof. intros par s1 s2 Hs H q Hq. destruct (H q Hq) as (pn & ? & ?). exists pn; auto. Qed.
Lemma pf_mono : forall ns s1 s2, (forall x, In x s1 -> In x s2) -> parents_first s1 ns -> parents_first s2 ns.
Proof.
  intros ns; induction ns as [|nd ns IH]; cbn; auto. intros s1 s2 Hs [H1 H2]. split.
  - eapply pcond_mono; eauto.
  - eapply IH; [|exact H2]. intros x [->|Hx]; cbn; auto.
Qed.
Lemma pf_app : forall a b s, parents_first s a -> parents_first (rev a ++ s) b -> parents_first s (a ++ b).
Proof.
  intros a; induction a as [|x a IH]; cbn; auto. intros b s [H1 H2] Hb. split; auto.
  apply IH; auto. rewrite <- app_assoc in Hb. exact Hb.
Qed.
Lemma pf_flat_map : forall (f : ftree -> list node) (cond : list node -> Prop) kids,
  (forall s1 s2, (forall x, In x s1 -> In x s2) -> cond s1 -> cond s2) ->
  Forall (fun k => forall s, cond s -> parents_first s (f k)) kids ->
  forall s, cond s -> parents_first s (flat_map f kids).
Proof.
  intros f cond kids Hmono H; induction H as [|k kids Hk _ IH]; intros s Hs; cbn; auto.
  apply pf_app; auto. apply IH. eapply Hmono; [|exact Hs]. intros x Hx. apply in_or_app; auto.
Qed.

Lemma expected_pf : forall t pre par seen, pcond par seen -> parents_first seen (expected pre par t).
Proof.
  intros t; induction t as [rel o d kids IH] using ftree_ind2; intros pre par seen Hc.
  cbn [expected parents_first nd_parent]. split; auto.
  destruct o; cbn; auto.
  apply (pf_flat_map _ (pcond (Some (pre ++ rel)))).
  - intros; eapply pcond_mono; eauto.
  - eapply Forall_impl; [|exact IH]. intros a Ha s Hs. apply Ha; auto.
  - intros q [= <-]. eexists; split; [left; reflexivity|]. cbn; auto.
Qed.

Lemma expected_roots_pf : forall ts, parents_first [] (expected_roots ts).
Proof.
  intros ts; unfold expected_roots. apply (pf_flat_map _ (fun _ => True)); auto.
  apply Forall_forall. intros t _ s _. apply expected_pf. intros q H; discriminate H.
Qed.

Lemma pf_split : forall l1 nd l2 s, parents_first s (l1 ++ nd :: l2) -> pcond (nd_parent nd) (rev l1 ++ s).
Proof.
  intros l1; induction l1 as [|x l1 IH]; cbn; intros nd l2 s [H1 H2]; auto.
  rewrite <- app_assoc. cbn. eapply IH; eauto.
Qed.

Lemma words_app : forall k n a b, words k n (a ++ b) = words k n a ++ words k n b.
Proof. intros; unfold words. rewrite map_app, concat_app. reflexivity. Qed.

Lemma words_parent_ok : forall k n ns, parents_first [] ns -> NoDup (map nd_path ns) ->
  forall nd, In nd ns -> parent_okb (words k n ns) nd = true.
Proof.
  intros k n ns Hpf Hnd nd Hin. unfold parent_okb. destruct (nd_parent nd) as [q|] eqn:Hq; auto.
  apply in_split in Hin as (l1 & l2 & ->).
  apply pf_split in Hpf. rewrite app_nil_r in Hpf. destruct (Hpf q Hq) as (pn & Hpn & Hpath & Hout).
  apply in_rev in Hpn. rewrite words_app. apply guard_hit.
  - rewrite map_app in Hnd. cbn in Hnd. apply NoDup_remove_2 in Hnd.
    unfold words. apply Forall_forall. intros x Hx. apply in_concat in Hx as (w & Hw & Hxw).
    apply in_map_iff in Hw as (n1 & <- & Hn1).
    pose proof (inline_about k n n1) as Ha. rewrite Forall_forall in Ha. specialize (Ha x Hxw).
    destruct (about (nd_path nd) x) eqn:Ea; auto. exfalso. apply Hnd.
    apply in_or_app; left. rewrite (about_unique _ _ _ Ea Ha). apply in_map; auto.
  - unfold words. apply in_concat. exists (inline_word k n pn). split; [apply in_map; auto|].
    rewrite <- Hpath. apply inline_return; auto.
Qed.

Theorem blocking_ok : forall k n rid_of text oc ts, wf_request text oc ->
  NoDup (map nd_path (expected_roots ts)) ->
  trace_ok (mkConfig k n text oc true (expected_roots ts)) (request_blocking k n rid_of text oc ts) = true.
Proof.
  intros k n rid_of text oc ts Hwf Hnd. unfold request_blocking.
  destruct (is_exec oc) eqn:He; [|apply stage_only_ok; auto].
  rewrite (process_split k n text oc (expected_roots ts) true _ Hwf). rewrite He. cbn [opt].
  rewrite exec_roots_words.
  assert (Hnodes : nodes_of (mkConfig k n text oc true (expected_roots ts)) = expected_roots ts)
    by (unfold nodes_of; cbn; rewrite He; reflexivity).
  apply (interleave_ok _ (inline_word k n)); rewrite ?Hnodes; auto using pre_post_word; try apply expand_stage.
  - right. apply stage_pre_counts. exact He.
  - intros nd Hin. split; [|apply inline_about].
    unfold word_spec, submit_mode. cbn [c_mw_awaits c_k c_n]. rewrite andb_false_r. reflexivity.
  - apply interleave_concat.
  - intros nd Hin. apply parent_decides. apply words_parent_ok; auto. apply expected_roots_pf.
Qed.

Theorem generic_same : forall k n rid_of text oc ts,
  request_generic k n rid_of text oc ts = request_blocking k n rid_of text oc ts.
Proof. intros. reflexivity. Qed.

(* ================================================================ H. packaged statements *)

Theorem interleave_ok_std : forall c (W : node -> list event) mid,
  NoDup (map nd_path (nodes_of c)) ->
  (forall nd, In nd (nodes_of c) ->
     word_spec c nd (W nd) /\ Forall (fun x => about (nd_path nd) x = true) (W nd)) ->
  interleave_all (map W (nodes_of c)) mid ->
  (forall nd, In nd (nodes_of c) -> parent_spec mid nd) ->
  trace_ok c (stage_pre c ++ mid ++ stage_post c) = true.
Proof.
  intros c W mid Hnd HW Hil Hpar.
  apply (interleave_ok c W); auto using pre_post_word; try apply expand_stage.
  destruct (is_exec (c_class c)) eqn:He.
  - right. apply stage_pre_counts; auto.
  - left. unfold nodes_of in Hil. rewrite He in Hil. cbn in Hil. inversion Hil; reflexivity.
Qed.

Fixpoint fr_all (n : nat) (c : cache) (rs : list rid) : list callable :=
  match rs with
  | [] => []
  | r :: rs' => let (w, c') := fr n c r in w :: fr_all n c' rs'
  end.
Lemma fr_all_ok : forall n rs c, cache_ok n c -> Forall (bracket n) (fr_all n c rs).
Proof.
  intros n rs; induction rs as [|r rs IH]; intros c Hc; cbn; [constructor|].
  destruct (fr_ok n c r Hc) as [Hb Hc']. destruct (fr n c r) as [w c']. cbn in Hb, Hc'.
  constructor; auto.
Qed.

Lemma middleware_once : forall n (f : callable) o p,
  apply_middlewares f (rec_mws n) o p = enters n p ++ f o p ++ exits n p
  /\ NoDup (enters n p) /\ NoDup (exits n p)
  /\ (forall j, In (MwEnter j p) (enters n p) <-> j < n)
  /\ (forall j, In (MwExit j p) (exits n p) <-> j < n).
Proof.
  intros. repeat split; try apply apply_mw_bracket; try apply enters_nodup; try apply exits_nodup;
    try apply enters_in; try apply exits_in.
Qed.
