(* parse_document on source text against D_document_exec. *)
From PyGql Require Import Lang.Parser Spec.GrammarSpec Spec.DocGrammarSpec Proofs.GrammarProofs
  Proofs.EntryProofs Proofs.DocGrammarSound Proofs.DocGrammarComplete.

Theorem parse_document_exec_sound fl s d :
  allow_type_system fl = false ->
  parse_document fl s = Ok d ->
  exists ts, lex s = Ok ts /\ D_document_exec (no_location fl) (fragment_variables fl) ts d.
Proof.
  intros Hts H. unfold parse_document, run in H.
  destruct (parse_document_p fl (parse_fuel (lex_stream s)) (PSt (lex_stream s) 0)) as [[d' st']| | |] eqn:E;
    try discriminate.
  inversion H; subst d'. clear H.
  destruct (parse_document_p_sound fl _ Hts _ _ _ E) as (ts & [Ht _] & Dd).
  simpl in Ht. exists ts. split; [|exact Dd].
  destruct Dd as [sof body eof defs Ks Ke Hl Hne].
  assert (Hstream : lex_stream s = (LT sof :: map LT body) ++ LT eof :: toks st').
  { rewrite Ht. simpl. rewrite map_app, <- app_assoc. reflexivity. }
  pose proof (lex_stream_eof_last _ _ _ _ Hstream Ke) as Hnil.
  unfold lex. rewrite Ht, Hnil, app_nil_r. apply collect_map.
Qed.

Theorem parse_document_exec_complete fl s ts d :
  lex s = Ok ts -> D_document_exec (no_location fl) (fragment_variables fl) ts d ->
  parse_document fl s = Ok d.
Proof.
  intros Hl Dd. apply collect_ok_map in Hl. unfold parse_document, run. rewrite Hl.
  rewrite <- (app_nil_r (map LT ts)).
  rewrite (parse_document_p_complete fl (parse_fuel (map LT ts ++ [])) ts d [] 0 Dd).
  - reflexivity.
  - unfold parse_fuel. rewrite app_nil_r, map_length. lia.
Qed.
