(* The executor model with the real argument coercion: C07's model of
   utilities.coerce_argument_values (Exec/CoerceModel.v, imported read-only)
   plugged in as the [coerce_args] parameter of Exec/ExecModel.v through a
   thin adapter, and the C04 theorems instantiated with it.

   What the adapter assumes: an input-side schema description [isch]
   (CoerceModel.schema: scalars, enums, input objects by name) given next to
   the output-side one, closed and consisting of input types
   (CoerceSpec.schema_closed / schema_inputs), in which the type of every
   argument of every object field is usable (CoerceSpec.usable). Nothing links
   the two descriptions beyond that: the executor theorems hold for any
   argument coercion; the link is only needed to discharge "argument coercion
   terminates without crashing". *)
From PyGql Require Import Spec.ExecSpec Proofs.ExecTopProofs Proofs.DepthTermination.
From PyGql Require Import Proofs.ExecCollectFull Proofs.ExecSpecFull Proofs.ExecTerminates.
From PyGql Require Exec.CoerceModel Spec.CoerceSpec Proofs.CoerceProofs.

Arguments field_definition : simpl never.

(* tref (NonNull as a wrapper) -> ity (nullability as a flag) *)
Fixpoint ity_of_tref_nn (nn : bool) (t : tref) : CoerceModel.ity :=
  match t with
  | RNamed n => CoerceModel.INamed nn n
  | RList t' => CoerceModel.IList nn (ity_of_tref_nn false t')
  | RNonNull t' => ity_of_tref_nn true t'
  end.
Definition ity_of_tref : tref -> CoerceModel.ity := ity_of_tref_nn false.

Definition ifield_of_adef (a : adef) : CoerceModel.ifield :=
  CoerceModel.IField (ad_name a) (ad_pyname a) (ity_of_tref (ad_type a)) (ad_default a).

Definition node_args (node : selection) : list argument :=
  match node with SField _ _ args _ _ _ _ => args | _ => [] end.

(* coerce_argument_values(field_definition, node, variables) *)
Definition coerce_args_c07 (isch : CoerceModel.schema) (vs : vars) (fd : fdef) (node : selection)
  : outcome (list (str * pv)) :=
  CoerceModel.coerce_argument_values isch (map ifield_of_adef (f_args fd)) (node_args node) vs.

Definition args_usable (sch : schema) (isch : CoerceModel.schema) : Prop :=
  forall tn fs ifs f a, get_type sch tn = Some (TObject fs ifs) -> In f fs -> In a (f_args f) ->
                        CoerceSpec.usable isch (ity_of_tref (ad_type a)).

Section WithC07.
  Variable sch : schema.
  Variable isch : CoerceModel.schema.
  Hypothesis Hclosed : CoerceSpec.schema_closed isch.
  Hypothesis Hinputs : CoerceSpec.schema_inputs isch.
  (* no scalar of the input-side schema raises anything but ValueError /
     TypeError from its parser (C07's model has a user scalar kind that does) *)
  Hypothesis Hbehaved : CoerceSpec.scalars_behaved isch.
  Hypothesis Husable : args_usable sch isch.

  (* on the fields the executor meets, the real coercion returns the kwargs or
     the library's CoercionError -- never a crash, never "out of fuel" *)
  Lemma coerce_args_c07_decided vs tn name k fd node :
    field_definition sch tn name = Ok (Some (k, fd)) ->
    CoerceProofs.decided_k CoerceModel.RK_coercion (coerce_args_c07 isch vs fd node).
  Proof.
    intros Hd. unfold coerce_args_c07. apply CoerceProofs.cav_total; [exact Hclosed|exact Hinputs|exact Hbehaved|].
    intros d Hin. apply in_map_iff in Hin as [a [<- Ha]]. simpl.
    unfold field_definition in Hd.
    destruct (str_eqb name s_typename); [inversion Hd; subst; destruct Ha|].
    destruct (str_eqb name s_schema || str_eqb name s_type); [discriminate|].
    destruct (get_type sch tn) as [[fs ifs| | | | |]|] eqn:Eg; try discriminate.
    destruct (find_field name fs) as [f|] eqn:Ef; simpl in Hd; [|discriminate].
    inversion Hd; subst. eapply Husable; [exact Eg|eapply find_field_in; exact Ef|exact Ha].
  Qed.

  Lemma coerce_args_c07_not_oof vs tn name k fd node :
    field_definition sch tn name = Ok (Some (k, fd)) -> coerce_args_c07 isch vs fd node <> OutOfFuel.
  Proof.
    intros Hd H. pose proof (coerce_args_c07_decided vs tn name k fd node Hd) as D.
    rewrite H in D. exact D.
  Qed.

  (* ---- the C04 theorems for the real argument coercion *)
  Theorem exec_terminates_c07 frags vs world tyres rank :
    acyclic frags rank ->
    forall ss tname v p,
      exists F CF, forall fuel cfuel, F <= fuel -> CF <= cfuel ->
        exec_sel sch frags vs (coerce_args_c07 isch vs) world tyres cfuel fuel tname v p ss <> OutOfFuel.
  Proof.
    intros Hacyc ss tname v p.
    apply (exec_terminates_fields sch frags vs (coerce_args_c07 isch vs) world tyres rank Hacyc).
    intros tn name k fd node Hd. eapply coerce_args_c07_not_oof; exact Hd.
  Qed.

  Theorem exec_eq_spec_full_c07 frags vs world tyres cfuel rank :
    acyclic frags rank ->
    forall fuel tname v p sels r,
      exec_sel sch frags vs (coerce_args_c07 isch vs) world tyres cfuel fuel tname v p sels = Ok r ->
      no_abort (snd r) ->
      exists es',
        SSel sch (coerce_args_c07 isch vs) world tyres
             (fun tn ss g => SCollect (applies sch tn) frags vs ss g) tname v p sels (fst r) es' /\
        Forall2 (fun e e' => e_path e = e_path e' /\ e_kind e = e_kind e' /\
                             incl (e_locs e) (e_locs e') /\ incl (e_locs e') (e_locs e)) (snd r) es'.
  Proof.
    intros Hacyc fuel tname v p sels r H NA.
    exact (exec_eq_spec_full sch frags vs (coerce_args_c07 isch vs) world tyres cfuel rank Hacyc fuel tname v p sels r H NA).
  Qed.

  Theorem null_error_bijection_c07 frags vs world tyres cfuel fuel tname v p sels d es :
    schema_nn_ok sch ->
    exec_sel sch frags vs (coerce_args_c07 isch vs) world tyres cfuel fuel tname v p sels = Ok (d, es) ->
    NoDup (map e_path es) /\
    Forall (fun e => exists q, e_path e = p ++ q /\ null_on_path d q) es.
  Proof. apply exec_sel_errors_nulls. Qed.

  (* an argument the real coercion rejects is a field error at that field,
     and it is the only way argument coercion can fail *)
  Theorem argument_failure_c07 vs world tyres sub_exec tn name k fd tname parent node nodes p :
    field_definition sch tn name = Ok (Some (k, fd)) ->
    (exists args, coerce_args_c07 isch vs fd node = Ok args) \/
    resolve_field sch (coerce_args_c07 isch vs) world tyres sub_exec tname parent k fd (node :: nodes) p =
      Ok (PNone, [Err p [sel_loc node] ECoercion]).
  Proof.
    intros Hd. pose proof (coerce_args_c07_decided vs tn name k fd node Hd) as D.
    destruct (coerce_args_c07 isch vs fd node) as [args| |c q|] eqn:E; simpl in D; try contradiction.
    - left; eauto.
    - right. eapply coercion_error_local. exact E.
  Qed.
End WithC07.
