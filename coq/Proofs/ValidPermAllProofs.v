(* Invariance of the verdict of the 23 rules with a specification form under
   every permutation of the definitions: proved on the specification side and
   transported through [verdict]. *)
From PyGql Require Import Valid.ValidOverlap Spec.ValidSpec Spec.ValidLocalSpec Proofs.ValidCloseProofs
     Proofs.ValidGraphProofs Proofs.ValidVarProofs Proofs.ValidPermProofs Proofs.ValidStaticProofs
     Proofs.ValidUniqueProofs Proofs.ValidUnusedProofs Proofs.ValidLocalProofs Proofs.ValidVerdictProofs.
From Coq Require Import Lia Permutation.

Lemma perm_filter {A} (f : A -> bool) l l' : Permutation l l' -> Permutation (filter f l) (filter f l').
Proof.
  induction 1 as [|x l l' Hp IH|x y l|l l' l'' H1 IH1 H2 IH2]; simpl.
  - constructor.
  - destruct (f x); [constructor; exact IH|exact IH].
  - destruct (f x), (f y); try apply Permutation_refl. apply perm_swap.
  - eapply Permutation_trans; eassumption.
Qed.

Section SameDefs.
  Variables (s : schema) (d d' : document).
  Hypothesis Hp : Permutation (doc_defs d) (doc_defs d').
  Let Hs : same_defs d d' := perm_same_defs d d' Hp.

  Lemma reaches_same q z : reaches s d q z -> reaches s d' q z.
  Proof. intros (df & x & Hdf & Hx & Hd). exists df, x. split; [apply Hs; exact Hdf|tauto]. Qed.

  Lemma directive_at_same w dr : directive_at s d w dr -> directive_at s d' w dr.
  Proof.
    intros [(q & z & Hr & H)|(df & Hdf & H)]; [left; exists q, z; split; [apply reaches_same; exact Hr|exact H]|].
    right. exists df. split; [apply Hs; exact Hdf|exact H].
  Qed.

  Lemma frag_type_of_spec ds f :
    NoDup (flat_map (fun x => match frag_name x with Some n => [n] | None => [] end) ds) ->
    forall r,
    (frag_type_of s ds f = Some r <->
     exists n vds tc dirs ssl sels l, In (DFragment n vds tc dirs ssl sels l) ds /\ n_val n = f /\ type_from_ast s tc = Some r).
  Proof.
    induction ds as [|a ds IH]; intros Hnd r; simpl.
    - split; [discriminate|intros (n & vds & tc & dirs & ssl & sels & l & [] & _)].
    - assert (Hnd' : NoDup (flat_map (fun x => match frag_name x with Some n => [n] | None => [] end) ds)).
      { simpl in Hnd. destruct (frag_name a); [inversion Hnd; assumption|exact Hnd]. }
      specialize (IH Hnd').
      destruct (frag_type_of s ds f) as [r0|] eqn:Ef.
      + split.
        * intros E. inversion E; subst. destruct (proj1 (IH _) eq_refl) as (n & vds & tc & dirs & ssl & sels & l & Hin & H).
          exists n, vds, tc, dirs, ssl, sels, l. split; [right; exact Hin|exact H].
        * intros (n & vds & tc & dirs & ssl & sels & l & [->|Hin] & Hn & Ht).
          -- exfalso. destruct (proj1 (IH r0) eq_refl) as (n' & vds' & tc' & dirs' & ssl' & sels' & l' & Hin' & Hn' & _).
             simpl in Hnd. apply NoDup_cons_iff in Hnd. destruct Hnd as [Hnot _]. apply Hnot.
             apply in_flat_map. eexists. split; [exact Hin'|]. simpl. rewrite Hn', Hn. left. reflexivity.
          -- f_equal. assert (E : Some r0 = Some r) by (apply (IH r); exists n, vds, tc, dirs, ssl, sels, l; tauto).
             inversion E; reflexivity.
      + destruct (existsb (fun y => match frag_name y with Some f' => str_eqb f f' | None => false end) ds) eqn:Ex.
        * split; [discriminate|].
          intros (n & vds & tc & dirs & ssl & sels & l & [->|Hin] & Hn & Ht).
          -- exfalso. apply existsb_exists in Ex. destruct Ex as [y [Hy Hfy]].
             destruct (frag_name y) as [f'|] eqn:Efy; [|discriminate]. apply str_eqb_eq in Hfy. subst f'.
             simpl in Hnd. rewrite Hn in Hnd. apply NoDup_cons_iff in Hnd. destruct Hnd as [Hnot _]. apply Hnot.
             apply in_flat_map. exists y. split; [exact Hy|]. rewrite Efy. left. reflexivity.
          -- assert (E : None = Some r) by (apply (IH r); exists n, vds, tc, dirs, ssl, sels, l; tauto). discriminate.
        * split.
          -- destruct a; try discriminate. destruct (str_eqb_spec (n_val n) f) as [Hn|]; [|discriminate].
             intros Ht. exists n, vds, tc, dirs, ssl, sels, l. tauto.
          -- intros (n & vds & tc & dirs & ssl & sels & l & [->|Hin] & Hn & Ht).
             ++ rewrite Hn, str_eqb_refl. exact Ht.
             ++ exfalso. assert (Ht' : existsb (fun y => match frag_name y with Some f' => str_eqb f f' | None => false end) ds = true).
                { apply existsb_exists. eexists. split; [exact Hin|]. simpl. rewrite Hn. apply str_eqb_refl. }
                congruence.
  Qed.
End SameDefs.

Lemma valid_spec_perm s d d' :
  Permutation (doc_defs d) (doc_defs d') -> valid_spec s d -> valid_spec s d'.
Proof.
  intros Hp (H1 & H2 & H3 & H4 & H5 & H6 & H7 & H8 & H9 & H10 & H11 & H12 & H13 & H14 & H15 & H16 & H17 &
             H18 & H19 & H20 & H21 & H23 & H26).
  pose proof (perm_same_defs _ _ Hp) as Hs. pose proof (same_defs_sym _ _ Hs) as Hs'.
  assert (Hp' : Permutation (doc_defs d') (doc_defs d)) by (symmetry; exact Hp).
  assert (R : forall q z, reaches s d' q z -> reaches s d q z) by (intros q z; apply reaches_same; exact Hp').
  assert (D : forall w dr, directive_at s d' w dr -> directive_at s d w dr) by (intros w dr; apply directive_at_same; exact Hp').
  assert (I' : forall df, In df (doc_defs d') -> In df (doc_defs d)) by (intros df; apply (proj1 (Hs' df))).
  assert (I2 : forall df, In df (doc_defs d) -> In df (doc_defs d')) by (intros df; apply (proj1 (Hs df))).
  assert (N10 : NoDup (frag_names d')) by (eapply Permutation_NoDup; [apply frag_names_perm; exact Hp|exact H10]).
  unfold valid_spec. repeat match goal with |- _ /\ _ => split end.
  - intros df Hdf. apply H1. apply I'. exact Hdf.
  - eapply Permutation_NoDup; [apply op_key_list_perm; exact Hp|exact H2].
  - unfold spec_lone_anonymous in *. intros [a [Ha Han]].
    rewrite <- (Permutation_length (perm_filter _ _ _ Hp)). apply H3. exists a. split; [apply Hs'; exact Ha|exact Han].
  - intros n vds dirs ssl sels l Hin. eapply H4. apply I'. exact Hin.
  - intros df vd Hdf. apply H5. apply I'. exact Hdf.
  - destruct H6 as [H6a H6b]. split.
    + intros n vds tc dirs ssl sels l Hin. eapply H6a. apply I'. exact Hin.
    + intros q t dirs ssl sub l Hr. apply (H6b q t dirs ssl sub l). apply R. exact Hr.
  - intros df vd Hdf. apply H7. apply I'. exact Hdf.
  - intros (p & a & n & args & dirs & sl & sub & l & f & Hr & H). apply H8.
    exists p, a, n, args, dirs, sl, sub, l, f. split; [apply R; exact Hr|exact H].
  - intros p a n args dirs sl sub l Hr. apply (H9 p a n args dirs sl sub l). apply R. exact Hr.
  - exact N10.
  - eapply spec_known_same; eassumption.
  - intros f [df [Hdf Hn]]. destruct (H12 f) as (op & Hop & Hisop & Hreach); [exists df; split; [apply Hs'; exact Hdf|exact Hn]|].
    exists op. split; [apply I2; exact Hop|]. split; [exact Hisop|]. eapply frag_reach_same; eassumption.
  - destruct H13 as [Ha Hb]. split.
    + intros p n dirs l ft Hr Hft Hc. apply (Ha p n dirs l ft); [apply R; exact Hr| |exact Hc].
      apply (frag_type_of_spec s (doc_defs d) (n_val n) H10 (RNamed ft)).
      apply (frag_type_of_spec s (doc_defs d') (n_val n) N10 (RNamed ft)) in Hft.
      destruct Hft as (n0 & vds & tc & dirs0 & ssl & sels & l0 & Hin & H). exists n0, vds, tc, dirs0, ssl, sels, l0.
      split; [apply I'; exact Hin|exact H].
    + intros p t dirs ssl sub l ft Hr. apply (Hb p t dirs ssl sub l ft). apply R. exact Hr.
  - intros Hc. apply H14. apply (has_cycle_same d d' Hs). exact Hc.
  - intros df Hdf. apply H15. apply I'. exact Hdf.
  - eapply spec_undefined_same; eassumption.
  - eapply spec_unused_same; eassumption.
  - intros w dr Hat. apply H18. apply D. exact Hat.
  - destruct H19 as [Ha Hb]. split.
    + intros q z Hr. apply (Ha q z). apply R. exact Hr.
    + intros df Hdf. apply Hb. apply I'. exact Hdf.
  - destruct H20 as [Ha Hb]. split.
    + intros p a n args dirs sl sub l f Hr. apply (Ha p a n args dirs sl sub l f). apply R. exact Hr.
    + intros w dr dd Hat. apply (Hb w dr dd). apply D. exact Hat.
  - destruct H21 as [Ha Hb]. split.
    + intros q a n args dirs sl sub l Hr. apply (Ha q a n args dirs sl sub l). apply R. exact Hr.
    + intros w dr Hat. apply (Hb w dr). apply D. exact Hat.
  - destruct H23 as [Ha Hb]. split.
    + intros p a n args dirs sl sub l f Hr. apply (Ha p a n args dirs sl sub l f). apply R. exact Hr.
    + intros w dr dd Hat. apply (Hb w dr dd). apply D. exact Hat.
  - intros v [(q & a & n & args & dirs & sl & sub & l & x & Hr & H)|[(w & dr & x & Hat & H)|(df & vd & Hdf & H)]]; apply H26.
    + left. exists q, a, n, args, dirs, sl, sub, l, x. split; [apply R; exact Hr|exact H].
    + right. left. exists w, dr, x. split; [apply D; exact Hat|exact H].
    + right. right. exists df, vd. split; [apply Hs'; exact Hdf|exact H].
Qed.

Theorem perm_definitions_all fuel s d d' :
  Permutation (doc_defs d) (doc_defs d') ->
  (validate_rules fuel s d rules_with_spec = Ok [] <-> validate_rules fuel s d' rules_with_spec = Ok []).
Proof.
  intros Hp. rewrite !verdict. split; apply valid_spec_perm; [exact Hp|symmetry; exact Hp].
Qed.
