(* C16_apollo: on every trace that satisfies the specification, the tracer's
   resolver list is a function of the event word: exactly the resolved fields,
   once each, in the order their start hook fired, every one ended. *)
From Coq Require Import List NArith Arith Bool Lia.
Import ListNotations.
From PyGql Require Import Spec.TraceSpec Exec.TraceTracer Proofs.TraceProofs.

Definition peq (q p : path) : bool := if path_eq_dec q p then true else false.
Definition is_s (i : nat) (p : path) (e : event) : bool :=
  match e with FieldStart j q => Nat.eqb j i && peq q p | _ => false end.
Definition is_e (i : nat) (p : path) (e : event) : bool :=
  match e with FieldEnd j q => Nat.eqb j i && peq q p | _ => false end.
Definition is_se (i : nat) (p : path) (e : event) : bool := is_s i p e || is_e i p e.
Definition ended (i : nat) (t : list event) (p : path) : bool := existsb (is_e i p) t.
Definition spec_state (i : nat) (t : list event) : tfields :=
  map (fun p => (p, ended i t p)) (start_paths i t).

Lemma peq_refl : forall p, peq p p = true.
Proof. intros p; unfold peq; destruct (path_eq_dec p p); congruence. Qed.
Lemma peq_true : forall q p, peq q p = true -> q = p.
Proof. intros q p; unfold peq; destruct (path_eq_dec q p); congruence. Qed.

Lemma is_s_true : forall i p e, is_s i p e = true -> e = FieldStart i p.
Proof.
  intros i p [] H; cbn in H; try discriminate. apply andb_prop in H as [H1 H2].
  apply Nat.eqb_eq in H1. apply peq_true in H2. subst. reflexivity.
Qed.
Lemma is_e_true : forall i p e, is_e i p e = true -> e = FieldEnd i p.
Proof.
  intros i p [] H; cbn in H; try discriminate. apply andb_prop in H as [H1 H2].
  apply Nat.eqb_eq in H1. apply peq_true in H2. subst. reflexivity.
Qed.
Lemma is_s_self : forall i p, is_s i p (FieldStart i p) = true.
Proof. intros; cbn. rewrite Nat.eqb_refl, peq_refl. reflexivity. Qed.
Lemma is_e_self : forall i p, is_e i p (FieldEnd i p) = true.
Proof. intros; cbn. rewrite Nat.eqb_refl, peq_refl. reflexivity. Qed.

Lemma start_paths_app : forall i a b, start_paths i (a ++ b) = start_paths i a ++ start_paths i b.
Proof. intros; unfold start_paths; apply flat_map_app. Qed.
Lemma start_paths_in : forall i t p, In p (start_paths i t) <-> In (FieldStart i p) t.
Proof.
  intros i t p; unfold start_paths. rewrite in_flat_map. split.
  - intros (e & He & Hp). destruct e; try destruct Hp. destruct (Nat.eqb i0 i) eqn:E; [|destruct Hp].
    apply Nat.eqb_eq in E. destruct Hp as [->|[]]. subst. exact He.
  - intros H. exists (FieldStart i p). split; auto. rewrite Nat.eqb_refl. left; reflexivity.
Qed.
Lemma ended_app : forall i a b p, ended i (a ++ b) p = ended i a p || ended i b p.
Proof. intros; unfold ended; apply existsb_app. Qed.

(* ---- the dict operations on a state of the expected shape *)
Lemma upsert_fresh : forall p l, ~ In p (map fst l) -> upsert p l = l ++ [(p, false)].
Proof.
  intros p l; induction l as [|[q b] l IH]; cbn; intros H; auto.
  destruct (path_eq_dec q p) as [->|Hne]; [exfalso; apply H; left; reflexivity|].
  rewrite IH; auto.
Qed.
Lemma set_end_map : forall q (f : path -> bool) l, NoDup l -> In q l ->
  set_end q (map (fun p => (p, f p)) l) = Some (map (fun p => (p, f p || peq p q)) l).
Proof.
  intros q f l; induction l as [|a l IH]; intros Hnd Hin; [destruct Hin|]. cbn [map set_end].
  apply NoDup_cons_iff in Hnd as [Hnotin Hnd]. unfold peq at 1.
  destruct (path_eq_dec a q) as [->|Hne].
  - rewrite orb_true_r. f_equal. f_equal. apply map_ext_in. intros p Hp.
    unfold peq. destruct (path_eq_dec p q) as [->|]; [contradiction|]. rewrite orb_false_r. reflexivity.
  - destruct Hin as [->|Hin]; [congruence|]. rewrite (IH Hnd Hin). rewrite orb_false_r. reflexivity.
Qed.

Lemma NoDup_snoc : forall (A : Type) (l : list A) x, NoDup l -> ~ In x l -> NoDup (l ++ [x]).
Proof.
  intros A l x H; induction H as [|y l Hy _ IH]; cbn; intros Hx.
  - constructor; [intros []|constructor].
  - constructor.
    + intros Hin. apply in_app_or in Hin as [Hin|[->|[]]]; [contradiction|]. apply Hx; left; reflexivity.
    + apply IH. intros Hin. apply Hx; right; exact Hin.
Qed.

(* ---- prefix-well-bracketed traces *)
Definition pwb (i : nat) (t : list event) : Prop :=
  forall p, exists rest, filter (is_se i p) t ++ rest = [FieldStart i p; FieldEnd i p].

Lemma pwb_prefix : forall i a b, pwb i (a ++ b) -> pwb i a.
Proof.
  intros i a b H p. destruct (H p) as (rest & Hr). rewrite filter_app, <- app_assoc in Hr. eauto.
Qed.

Lemma filter_nil_not_in : forall (f : event -> bool) l x, filter f l = [] -> f x = true -> ~ In x l.
Proof. intros f l x H Hf Hin. assert (Hx : In x (filter f l)) by (apply filter_In; auto). rewrite H in Hx. destruct Hx. Qed.

Lemma ended_false : forall i t p, (forall x, In x (filter (is_se i p) t) -> is_e i p x = false) -> ended i t p = false.
Proof.
  intros i t p H. unfold ended. destruct (existsb (is_e i p) t) eqn:E; auto.
  apply existsb_exists in E as (x & Hx & He). rewrite (H x) in He; [discriminate|].
  apply filter_In. split; auto. unfold is_se. rewrite He. apply orb_true_r.
Qed.

Lemma tracer_run_spec : forall i t, pwb i t ->
  tracer_fields i t = Some (spec_state i t) /\ NoDup (start_paths i t).
Proof.
  intros i t; induction t as [|e t IH] using rev_ind; intros Hp.
  - split; [reflexivity|constructor].
  - destruct (IH (pwb_prefix _ _ _ Hp)) as [Hrun Hnd].
    unfold tracer_fields in *. rewrite fold_left_app, Hrun. cbn [fold_left tracer_step].
    unfold spec_state. rewrite start_paths_app.
    assert (Hother : start_paths i [e] = [] -> (forall p, is_e i p e = false) ->
                     Some (map (fun p => (p, ended i t p)) (start_paths i t)) =
                     Some (map (fun p => (p, ended i (t ++ [e]) p)) (start_paths i t ++ start_paths i [e]))
                     /\ NoDup (start_paths i t ++ start_paths i [e])).
    { intros Hs He. rewrite Hs, app_nil_r. split; auto. f_equal. apply map_ext. intros p.
      rewrite ended_app. unfold ended at 2. cbn. rewrite He. rewrite !orb_false_r. reflexivity. }
    destruct e as [s j|s j|j q|j q|j q|j q|q|q|q]; try (apply Hother; [reflexivity|intros; reflexivity]).
    + (* FieldStart *)
      destruct (Nat.eqb j i) eqn:Ej.
      2:{ apply Hother; [cbn; rewrite Ej; reflexivity|intros; reflexivity]. }
      apply Nat.eqb_eq in Ej. subst j. destruct (Hp q) as (rest & Hr).
      rewrite filter_app in Hr. cbn [filter] in Hr. unfold is_se at 2 in Hr. rewrite is_s_self in Hr. cbn in Hr.
      assert (Hnil : filter (is_se i q) t = []).
      { destruct (filter (is_se i q) t) as [|x [|y l]] eqn:Ef; auto; cbn in Hr.
        - injection Hr as Hx Hr. destruct rest; discriminate.
        - injection Hr as _ Hy Hr. destruct l; discriminate. }
      assert (Hfresh : ~ In q (start_paths i t)).
      { rewrite start_paths_in. apply (filter_nil_not_in _ _ _ Hnil). unfold is_se. rewrite is_s_self. reflexivity. }
      assert (Hs : start_paths i [FieldStart i q] = [q]) by (cbn; rewrite Nat.eqb_refl; reflexivity).
      rewrite Hs. split; [|apply NoDup_snoc; auto].
      rewrite upsert_fresh by (rewrite map_map; cbn; rewrite map_id; exact Hfresh).
      f_equal. rewrite map_app. cbn [map]. f_equal.
      * apply map_ext. intros p. rewrite ended_app. cbn. rewrite orb_false_r. reflexivity.
      * f_equal. f_equal. rewrite ended_app. cbn. rewrite orb_false_r. symmetry. apply ended_false.
        rewrite Hnil. intros x [].
    + (* FieldEnd *)
      destruct (Nat.eqb j i) eqn:Ej.
      2:{ apply Hother; [reflexivity|]. intros p. cbn. rewrite Ej. reflexivity. }
      apply Nat.eqb_eq in Ej. subst j. destruct (Hp q) as (rest & Hr).
      rewrite filter_app in Hr. cbn [filter] in Hr. unfold is_se at 2 in Hr. rewrite is_e_self, orb_true_r in Hr.
      assert (Hone : filter (is_se i q) t = [FieldStart i q]).
      { destruct (filter (is_se i q) t) as [|x [|y l]] eqn:Ef; cbn in Hr.
        - injection Hr as Hx _. discriminate.
        - injection Hr as Hx _. subst x. reflexivity.
        - injection Hr as _ _ Hr. destruct l; discriminate. }
      assert (Hin : In q (start_paths i t)).
      { rewrite start_paths_in. assert (H : In (FieldStart i q) (filter (is_se i q) t)) by (rewrite Hone; left; reflexivity).
        apply filter_In in H. tauto. }
      assert (Hs : start_paths i [FieldEnd i q] = []) by reflexivity.
      rewrite Hs, app_nil_r. split; auto.
      rewrite (set_end_map q (ended i t) _ Hnd Hin). f_equal. apply map_ext. intros p.
      rewrite ended_app. f_equal. unfold ended. cbn. rewrite Nat.eqb_refl, orb_false_r. cbn.
      unfold peq. destruct (path_eq_dec p q), (path_eq_dec q p); congruence.
Qed.

(* ---- a trace that satisfies the specification is well bracketed for every
        stacked instrumentation *)
Lemma filter_filter_imp : forall (A : Type) (f g : A -> bool) l,
  (forall x, f x = true -> g x = true) -> filter f (filter g l) = filter f l.
Proof.
  intros A f g l H; induction l as [|x l IH]; cbn; auto.
  destruct (g x) eqn:Eg; cbn; rewrite IH; auto.
  destruct (f x) eqn:Ef; auto. rewrite (H x Ef) in Eg. discriminate.
Qed.

Lemma is_se_about : forall i p x, is_se i p x = true -> about p x = true /\ is_field x = true.
Proof.
  intros i p x H. unfold is_se in H. apply orb_prop in H as [H|H].
  - apply is_s_true in H. subst. split; [apply about_self|]; reflexivity.
  - apply is_e_true in H. subst. split; [apply about_self|]; reflexivity.
Qed.
Lemma is_se_not_call : forall i p x, is_se i p x = true -> negb (is_call x) = true.
Proof.
  intros i p x H. unfold is_se in H. apply orb_prop in H as [H|H];
    [apply is_s_true in H|apply is_e_true in H]; subst; reflexivity.
Qed.

Lemma filter_eqb_seq : forall i k a, a <= i < a + k -> filter (fun j => Nat.eqb j i) (seq a k) = [i].
Proof.
  intros i k; induction k as [|k IH]; intros a H; [lia|]. cbn [seq filter].
  destruct (Nat.eqb a i) eqn:E.
  - apply Nat.eqb_eq in E. subst. f_equal.
    assert (Hn : forall k' b, i < b -> filter (fun j => Nat.eqb j i) (seq b k') = []).
    { induction k' as [|k' IHk]; intros b Hb; cbn; auto.
      replace (Nat.eqb b i) with false by (symmetry; apply Nat.eqb_neq; lia). apply IHk. lia. }
    apply Hn. lia.
  - apply Nat.eqb_neq in E. apply IH. lia.
Qed.
Lemma filter_rev' : forall (A : Type) (f : A -> bool) l, filter f (rev l) = rev (filter f l).
Proof.
  intros A f l; induction l as [|x l IH]; cbn; auto. rewrite filter_app, IH. cbn.
  destruct (f x); cbn; auto. apply app_nil_r.
Qed.

Lemma filter_se_starts : forall i p k, i < k -> filter (is_se i p) (starts k p) = [FieldStart i p].
Proof.
  intros i p k H. unfold starts.
  assert (Hm : forall l, filter (is_se i p) (map (fun j => FieldStart j p) l)
                         = map (fun j => FieldStart j p) (filter (fun j => Nat.eqb j i) l)).
  { induction l as [|j l IH]; cbn [map filter]; auto. unfold is_se at 1. cbn [is_s is_e].
    rewrite peq_refl, andb_true_r, orb_false_r. destruct (Nat.eqb j i); cbn [map]; rewrite IH; reflexivity. }
  rewrite Hm, filter_eqb_seq by lia. reflexivity.
Qed.
Lemma filter_se_ends : forall i p k, i < k -> filter (is_se i p) (ends k p) = [FieldEnd i p].
Proof.
  intros i p k H. unfold ends.
  assert (Hm : forall l, filter (is_se i p) (map (fun j => FieldEnd j p) l)
                         = map (fun j => FieldEnd j p) (filter (fun j => Nat.eqb j i) l)).
  { induction l as [|j l IH]; cbn [map filter]; auto. unfold is_se at 1. cbn [is_s is_e].
    rewrite peq_refl, andb_true_r. cbn [orb]. destruct (Nat.eqb j i); cbn [map]; rewrite IH; reflexivity. }
  rewrite Hm, filter_rev', filter_eqb_seq by lia. reflexivity.
Qed.
Lemma filter_se_none : forall i p l, Forall (fun x => match x with FieldStart _ _ | FieldEnd _ _ => False | _ => True end) l ->
  filter (is_se i p) l = [].
Proof.
  intros i p l H; induction H as [|x l Hx _ IH]; cbn; auto. destruct x; try contradiction; cbn; exact IH.
Qed.

Lemma middle_no_hooks : forall n o p (extra : list event),
  Forall (fun x => match x with FieldStart _ _ | FieldEnd _ _ => False | _ => True end) extra ->
  Forall (fun x => match x with FieldStart _ _ | FieldEnd _ _ => False | _ => True end)
         (mws o (enters n p) ++ extra ++ mws o (exits n p)).
Proof.
  intros n o p extra He. repeat (apply Forall_app; split); auto.
  - destruct o; cbn; try constructor; unfold enters; apply Forall_forall; intros x Hx;
      apply in_map_iff in Hx as (j & <- & _); exact I.
  - destruct o; cbn; try constructor; unfold exits; apply Forall_forall; intros x Hx;
      apply in_map_iff in Hx as (j & <- & _); exact I.
Qed.

Lemma word_bracket : forall c nd w i, i < c_k c -> word_spec c nd w ->
  filter (is_se i (nd_path nd)) w = [FieldStart i (nd_path nd); FieldEnd i (nd_path nd)].
Proof.
  intros c nd w i Hi Hw. unfold word_spec in Hw.
  assert (Hcall : Forall (fun x => match x with FieldStart _ _ | FieldEnd _ _ => False | _ => True end)
                         (call_word (nd_out nd) (nd_path nd))) by (destruct (nd_out nd); cbn; repeat constructor).
  destruct (submit_mode c nd).
  - destruct Hw as [Hw _].
    rewrite <- (filter_filter_imp _ (is_se i (nd_path nd)) (fun e => negb (is_call e)) w)
      by (intros x Hx; eapply is_se_not_call; eauto).
    rewrite Hw. unfold nocall_word. rewrite !filter_app.
    rewrite filter_se_starts, filter_se_ends by auto.
    pose proof (middle_no_hooks (c_n c) (nd_out nd) (nd_path nd) [] (Forall_nil _)) as Hm. cbn [app] in Hm.
    apply Forall_app in Hm as [Hm1 Hm2].
    rewrite (filter_se_none _ _ _ Hm1), (filter_se_none _ _ _ Hm2). reflexivity.
  - subst w. unfold inline_word. rewrite !filter_app.
    rewrite filter_se_starts, filter_se_ends by auto.
    pose proof (middle_no_hooks (c_n c) (nd_out nd) (nd_path nd) _ Hcall) as Hm.
    apply Forall_app in Hm as [Hm1 Hm2]. apply Forall_app in Hm2 as [Hm2 Hm3].
    rewrite (filter_se_none _ _ _ Hm1), (filter_se_none _ _ _ Hm2), (filter_se_none _ _ _ Hm3). reflexivity.
Qed.

Lemma spec_brackets : forall c t i p, trace_spec c t -> i < c_k c ->
  (In p (map nd_path (nodes_of c)) ->
     filter (is_se i p) t = [FieldStart i p; FieldEnd i p]) /\
  (~ In p (map nd_path (nodes_of c)) -> filter (is_se i p) t = []).
Proof.
  intros c t i p [_ _ Hknown Hfield _] Hi. split.
  - intros Hin. apply in_map_iff in Hin as (nd & <- & Hnd).
    rewrite <- (filter_filter_imp _ (is_se i (nd_path nd)) (about (nd_path nd)) t)
      by (intros x Hx; apply (is_se_about i); exact Hx).
    apply (word_bracket c nd); auto.
  - intros Hnot. destruct (filter (is_se i p) t) as [|x l] eqn:Ef; auto. exfalso.
    assert (Hx : In x (filter (is_se i p) t)) by (rewrite Ef; left; reflexivity).
    apply filter_In in Hx as [Hxt Hse]. apply is_se_about in Hse as [Ha Hf].
    destruct (Hknown x Hxt Hf) as (nd & Hnd & Ha'). apply Hnot.
    rewrite (about_unique _ _ _ Ha Ha'). apply in_map. exact Hnd.
Qed.

Theorem apollo_resolvers : forall c t i, trace_spec c t -> i < c_k c ->
  tracer_fields i t = Some (map (fun p => (p, true)) (start_paths i t))
  /\ NoDup (start_paths i t)
  /\ (forall p, In p (start_paths i t) <-> In p (map nd_path (nodes_of c))).
Proof.
  intros c t i Hs Hi.
  assert (Hdec : forall p, {In p (map nd_path (nodes_of c))} + {~ In p (map nd_path (nodes_of c))})
    by (intros p; apply in_dec, path_eq_dec).
  assert (Hp : pwb i t).
  { intros p. destruct (spec_brackets c t i p Hs Hi) as [H1 H2]. destruct (Hdec p) as [Hin|Hnot].
    - exists []. rewrite (H1 Hin). reflexivity.
    - exists [FieldStart i p; FieldEnd i p]. rewrite (H2 Hnot). reflexivity. }
  destruct (tracer_run_spec i t Hp) as [Hrun Hnd].
  assert (Hiff : forall p, In p (start_paths i t) <-> In p (map nd_path (nodes_of c))).
  { intros p. destruct (spec_brackets c t i p Hs Hi) as [H1 H2]. rewrite start_paths_in. split.
    - intros Hin. destruct (Hdec p) as [|Hnot]; auto. exfalso.
      apply (filter_nil_not_in _ _ (FieldStart i p) (H2 Hnot)); auto. unfold is_se. rewrite is_s_self. reflexivity.
    - intros Hin. assert (H : In (FieldStart i p) (filter (is_se i p) t)) by (rewrite (H1 Hin); left; reflexivity).
      apply filter_In in H. tauto. }
  split; [|split; auto]. rewrite Hrun. f_equal. unfold spec_state. apply map_ext_in. intros p Hin.
  f_equal. apply Hiff in Hin. destruct (spec_brackets c t i p Hs Hi) as [H1 _]. specialize (H1 Hin).
  unfold ended. apply existsb_exists. exists (FieldEnd i p). split; [|apply is_e_self].
  assert (H : In (FieldEnd i p) (filter (is_se i p) t)) by (rewrite H1; right; left; reflexivity).
  apply filter_In in H. tauto.
Qed.
