(* C14 -- proofs about the store model, part 8: [observe] only reads the heap
   cells reachable from the schema record (its footprint); hence heap-cell
   non-interference gives equality of the observable dumps. *)
From PyGql Require Import Spec.StoreSpec Proofs.StoreProofs Proofs.StoreHeal Proofs.StoreLoop
     Proofs.StoreFrame Proofs.StoreClone Proofs.StoreOps.
Local Open Scope N_scope.

Definition input_fp (m : mem) (a : oid) : list oid :=
  a :: match mget m a with Some (OInput _ _ _ ty _ _ _) => [unwrap ty] | _ => [] end.
Definition field_fp (m : mem) (f : oid) : list oid :=
  f :: match mget m f with
       | Some (OField _ _ ty args _ _ _ _ _) => unwrap ty :: flat_map (input_fp m) args
       | _ => []
       end.
Definition type_fp (m : mem) (t : oid) : list oid :=
  t :: match mget m t with
       | Some (OType _ k _ ms ifs _ _) =>
           ifs ++ match k with
                  | Kobject | Kinterface => flat_map (field_fp m) ms
                  | Kinput => flat_map (input_fp m) ms
                  | Kenum => ms
                  | _ => []
                  end
       | _ => []
       end.
Definition dir_fp (m : mem) (d : oid) : list oid :=
  d :: match mget m d with Some (ODir _ _ _ args) => flat_map (input_fp m) args | _ => [] end.

(* every cell [observe m s] (and [touch_poss m s]) looks at *)
Definition footprint (m : mem) (s : schema) : list oid :=
  flat_map (type_fp m) (map snd (s_types s)) ++ flat_map (dir_fp m) (map snd (s_dirs s))
  ++ otolist (s_query s) ++ otolist (s_mut s) ++ otolist (s_sub s)
  ++ flat_map snd (s_impls s) ++ flat_map snd (s_poss s).

Section Agree.
Variables (m m' : mem) (tm : list (str * oid)).

Definition agree_on (l : list oid) : Prop := forall o, In o l -> mget m' o = mget m o.

Lemma agree_app l1 l2 : agree_on (l1 ++ l2) -> agree_on l1 /\ agree_on l2.
Proof. intros H. split; intros o Ho; apply H; apply in_or_app; auto. Qed.
Lemma agree_cons x l : agree_on (x :: l) -> mget m' x = mget m x /\ agree_on l.
Proof. intros H. split; [apply H; left; reflexivity|intros o Ho; apply H; right; assumption]. Qed.
Lemma agree_flat {A} (f : A -> list oid) l x : agree_on (flat_map f l) -> In x l -> agree_on (f x).
Proof. intros H Hx o Ho. apply H. apply in_flat_map. exists x; split; assumption. Qed.

Lemma tname_agree o : mget m' o = mget m o -> tname m' o = tname m o.
Proof. unfold tname. intros ->. reflexivity. Qed.

Lemma sx_named_agree o : mget m' o = mget m o -> sx_named m' tm o = sx_named m tm o.
Proof. intros H. unfold sx_named, registered. rewrite (tname_agree o H). reflexivity. Qed.

Lemma sx_ref_agree r : mget m' (unwrap r) = mget m (unwrap r) -> sx_ref m' tm r = sx_ref m tm r.
Proof. intros H. unfold sx_ref. rewrite (sx_named_agree _ H). reflexivity. Qed.

Lemma sx_input_agree a : agree_on (input_fp m a) -> sx_input m' tm a = sx_input m tm a.
Proof.
  intros H. unfold input_fp in H. apply agree_cons in H. destruct H as [Ha H].
  unfold sx_input. rewrite Ha. destruct (mget m a) as [[| |? ? ? ty ? ? ?| |]|]; try reflexivity.
  rewrite (sx_ref_agree ty); [reflexivity|]. apply H. left; reflexivity.
Qed.

Lemma map_agree {A} (f g : oid -> A) (fp : oid -> list oid) l :
  (forall x, agree_on (fp x) -> f x = g x) -> agree_on (flat_map fp l) -> map f l = map g l.
Proof.
  intros Hf H. apply map_ext_in. intros x Hx. apply Hf. eapply agree_flat; eauto.
Qed.

Lemma sx_field_agree f : agree_on (field_fp m f) -> sx_field m' tm f = sx_field m tm f.
Proof.
  intros H. unfold field_fp in H. apply agree_cons in H. destruct H as [Hf H].
  unfold sx_field. rewrite Hf. destruct (mget m f) as [[|? ? ty args ? ? ? ? ?| | |]|]; try reflexivity.
  apply agree_cons in H. destruct H as [Ht H].
  rewrite (sx_ref_agree ty Ht). rewrite (map_agree _ _ (input_fp m) args sx_input_agree H). reflexivity.
Qed.

Lemma sx_enumv_agree o : mget m' o = mget m o -> sx_enumv m' o = sx_enumv m o.
Proof. intros H. unfold sx_enumv. rewrite H. reflexivity. Qed.

Lemma sx_type_agree t : agree_on (type_fp m t) -> sx_type m' tm t = sx_type m tm t.
Proof.
  intros H. unfold type_fp in H. apply agree_cons in H. destruct H as [Ht H].
  unfold sx_type. rewrite Ht. destruct (mget m t) as [[n k d ms ifs r ds| | | |]|]; try reflexivity.
  apply agree_app in H. destruct H as [Hi Hm].
  assert (Hifs : map (sx_named m' tm) ifs = map (sx_named m tm) ifs).
  { apply map_ext_in. intros x Hx. apply sx_named_agree. apply Hi. assumption. }
  rewrite Hifs. destruct k; try reflexivity.
  - rewrite (map_agree _ _ (field_fp m) ms sx_field_agree Hm). reflexivity.
  - rewrite (map_agree _ _ (field_fp m) ms sx_field_agree Hm). reflexivity.
  - assert (He : map (sx_enumv m') ms = map (sx_enumv m) ms).
    { apply map_ext_in. intros x Hx. apply sx_enumv_agree. apply Hm. assumption. }
    rewrite He. reflexivity.
  - rewrite (map_agree _ _ (input_fp m) ms sx_input_agree Hm). reflexivity.
Qed.

Lemma sx_dir_agree d : agree_on (dir_fp m d) -> sx_dir m' tm d = sx_dir m tm d.
Proof.
  intros H. unfold dir_fp in H. apply agree_cons in H. destruct H as [Hd H].
  unfold sx_dir. rewrite Hd. destruct (mget m d) as [[| | | |? ? ? args]|]; try reflexivity.
  rewrite (map_agree _ _ (input_fp m) args sx_input_agree H). reflexivity.
Qed.

Lemma type_fp_head t : In t (type_fp m t).
Proof. unfold type_fp. left; reflexivity. Qed.

End Agree.

Lemma flat_map_ext_in {A B} (f g : A -> list B) l :
  (forall x, In x l -> f x = g x) -> flat_map f l = flat_map g l.
Proof. induction l as [|a l IH]; simpl; intros H; [reflexivity|]. rewrite (H a), IH; auto. Qed.

Theorem observe_agree m m' s :
  agree_on m m' (footprint m s) -> observe m' s = observe m s.
Proof.
  intros H. unfold footprint in H.
  apply agree_app in H. destruct H as [Ht H]. apply agree_app in H. destruct H as [Hd H].
  apply agree_app in H. destruct H as [Hq H]. apply agree_app in H. destruct H as [Hm H].
  apply agree_app in H. destruct H as [Hs H]. apply agree_app in H. destruct H as [Hi Hp].
  unfold observe.
  assert (Hroot : forall r, agree_on m m' (otolist r) ->
            SL (match r with Some o => [sx_named m' (s_types s) o] | None => [] end) =
            SL (match r with Some o => [sx_named m (s_types s) o] | None => [] end)).
  { intros [o|] Hr; [|reflexivity]. rewrite (sx_named_agree m m' _ o); [reflexivity|]. apply Hr. left; reflexivity. }
  rewrite (Hroot _ Hq), (Hroot _ Hm), (Hroot _ Hs).
  assert (Htypes : map (fun e => sx_type m' (s_types s) (snd e)) (filter (fun e => negb (is_builtin (snd e))) (s_types s))
                 = map (fun e => sx_type m (s_types s) (snd e)) (filter (fun e => negb (is_builtin (snd e))) (s_types s))).
  { apply map_ext_in. intros e He. apply filter_In in He. destruct He as [He _].
    apply sx_type_agree. eapply agree_flat; [exact Ht|]. apply in_map. exact He. }
  rewrite Htypes.
  assert (Hdirs : map (fun e => sx_dir m' (s_types s) (snd e)) (s_dirs s)
                = map (fun e => sx_dir m (s_types s) (snd e)) (s_dirs s)).
  { apply map_ext_in. intros e He. apply sx_dir_agree. eapply agree_flat; [exact Hd|]. apply in_map. exact He. }
  rewrite Hdirs.
  assert (Himpls : flat_map (fun e => match snd e with
                                      | [] => []
                                      | l => [SL [SS (fst e); SL (sx_sort (map (sx_named m' (s_types s)) l))]]
                                      end) (s_impls s)
                 = flat_map (fun e => match snd e with
                                      | [] => []
                                      | l => [SL [SS (fst e); SL (sx_sort (map (sx_named m (s_types s)) l))]]
                                      end) (s_impls s)).
  { apply flat_map_ext_in. intros e He.
    assert (Hl : map (sx_named m' (s_types s)) (snd e) = map (sx_named m (s_types s)) (snd e)).
    { apply map_ext_in. intros x Hx. apply sx_named_agree. apply Hi. apply in_flat_map. exists e; split; assumption. }
    revert Hl. destruct (snd e) as [|a l]; intros Hl; [reflexivity|rewrite Hl; reflexivity]. }
  rewrite Himpls.
  assert (Hposs : flat_map (fun e =>
                     if is_abstract m' (snd e) then
                       [SL [SS (fst e);
                            SL (sx_sort (map (sx_named m' (s_types s))
                                  (match nlookup (snd e) (s_poss s) with Some l => l | None => [] end)))]]
                     else []) (s_types s)
                = flat_map (fun e =>
                     if is_abstract m (snd e) then
                       [SL [SS (fst e);
                            SL (sx_sort (map (sx_named m (s_types s))
                                  (match nlookup (snd e) (s_poss s) with Some l => l | None => [] end)))]]
                     else []) (s_types s)).
  { apply flat_map_ext_in. intros e He.
    assert (Hk : is_abstract m' (snd e) = is_abstract m (snd e)).
    { unfold is_abstract, tkind. rewrite (Ht (snd e)); [reflexivity|].
      apply in_flat_map. exists (snd e). split; [apply in_map; exact He|apply type_fp_head]. }
    rewrite Hk. destruct (is_abstract m (snd e)); [|reflexivity].
    destruct (nlookup (snd e) (s_poss s)) as [l|] eqn:Hn; [|reflexivity].
    assert (Hl : map (sx_named m' (s_types s)) l = map (sx_named m (s_types s)) l).
    { apply map_ext_in. intros x Hx. apply sx_named_agree. apply Hp.
      clear - Hn Hx. induction (s_poss s) as [|[k v] ps IH]; simpl in *; [discriminate|].
      destruct (N.eqb (snd e) k); [inversion Hn; subst; apply in_or_app; left; assumption|].
      apply in_or_app; right; auto. }
    rewrite Hl. reflexivity. }
  rewrite Hposs. reflexivity.
Qed.

(* filling the possible-types cache reads the registered type objects only *)
Lemma touch_poss_agree m m' s :
  agree_on m m' (map snd (s_types s)) -> touch_poss m' s = touch_poss m s.
Proof.
  intros H. unfold touch_poss. f_equal.
  assert (Hgen : forall (l : list (str * oid)) acc, (forall e, In e l -> mget m' (snd e) = mget m (snd e)) ->
            fold_left (fun cache e => match nlookup (snd e) cache with
                                      | Some _ => cache
                                      | None => match possible_of m' s (snd e) with
                                                | Some l => cache ++ [(snd e, l)]
                                                | None => cache
                                                end
                                      end) l acc =
            fold_left (fun cache e => match nlookup (snd e) cache with
                                      | Some _ => cache
                                      | None => match possible_of m s (snd e) with
                                                | Some l => cache ++ [(snd e, l)]
                                                | None => cache
                                                end
                                      end) l acc).
  { induction l as [|e l IH]; intros acc Hl; simpl; [reflexivity|].
    assert (Hp : possible_of m' s (snd e) = possible_of m s (snd e))
      by (unfold possible_of; rewrite (Hl e (or_introl eq_refl)); reflexivity).
    rewrite Hp. apply IH. intros; apply Hl; right; assumption. }
  apply Hgen. intros e He. apply H. apply in_map. exact He.
Qed.

(* heap-cell non-interference => equal dumps, for schemas without dangling
   references (every cell of the footprint exists) *)
Theorem frame_observe n0 m m' s :
  fresh_ok m -> n0 = m_next m -> (forall o, o < n0 -> mget m' o = mget m o) ->
  Forall (fun o => mget m o <> None) (footprint m (touch_poss m s)) ->
  observe m' (touch_poss m' s) = observe m (touch_poss m s).
Proof.
  intros Hf -> Hfr Hex.
  assert (Hag : agree_on m m' (footprint m (touch_poss m s))).
  { intros o Ho. apply Hfr. rewrite Forall_forall in Hex. specialize (Hex o Ho).
    destruct (N.lt_ge_cases o (m_next m)) as [Hlt|Hge]; [assumption|]. rewrite (Hf o Hge) in Hex. congruence. }
  assert (Ht : touch_poss m' s = touch_poss m s).
  { apply touch_poss_agree. intros o Ho. apply Hag. unfold footprint. apply in_or_app. left.
    simpl. apply in_map_iff in Ho. destruct Ho as (e & <- & He).
    apply in_flat_map. exists (snd e). split; [apply in_map; exact He|apply type_fp_head]. }
  rewrite Ht. apply observe_agree. exact Hag.
Qed.
