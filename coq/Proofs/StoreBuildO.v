(* C14 -- proofs about the store model, part 20: the registry order of
   Schema(...) is stable.  Rebuilding a schema from the types of a registry
   that _build_type_map produced (in the registry's order, followed by
   anything that was on the first run's stack) reproduces that registry,
   entry by entry: the pre-order traversal is idempotent.  This discharges
   the registry-order hypothesis of C14_clone_observe_equal for every schema
   that came out of the constructor. *)
From PyGql Require Import Spec.StoreSpec Proofs.StoreProofs Proofs.StoreHeal Proofs.StoreLoop.
Local Open Scope N_scope.

Lemma NoDup_app_l {A} (a b : list A) : NoDup (a ++ b) -> NoDup a.
Proof.
  induction a as [|x a IH]; simpl; intros H; [constructor|]. inversion H; subst. constructor; [|auto].
  intros Hin. apply H2. apply in_or_app. left; exact Hin.
Qed.

Section BuildOrder.
Variable m : mem.

Lemma bm_fuel : forall f st tm r k, build_map f m st tm = Ok r -> build_map (f + k) m st tm = Ok r.
Proof.
  induction f as [|f IH]; intros st tm r k H; simpl in *; [discriminate|].
  destruct st as [|o rest]; [exact H|].
  destruct (tname m o) as [n|]; [|discriminate].
  destruct (alookup n tm) as [o'|]; [destruct (N.eqb o o'); [apply IH; exact H|discriminate]|apply IH; exact H].
Qed.

Lemma bm_ext : forall f st tm r, build_map f m st tm = Ok r -> exists X, r = (tm ++ X)%list.
Proof.
  induction f as [|f IH]; intros st tm r H; simpl in *; [discriminate|].
  destruct st as [|o rest]; [inversion H; subst; exists []; rewrite app_nil_r; reflexivity|].
  destruct (tname m o) as [n|]; [|discriminate].
  destruct (alookup n tm) as [o'|].
  - destruct (N.eqb o o'); [exact (IH _ _ _ H)|discriminate].
  - destruct (IH _ _ _ H) as (X & ->). exists ((n, o) :: X). rewrite <- app_assoc. reflexivity.
Qed.

Lemma bm_split : forall f a b tm r, build_map f m (a ++ b) tm = Ok r ->
  exists t1, build_map f m a tm = Ok t1 /\ build_map f m b t1 = Ok r.
Proof.
  induction f as [|f IH]; intros a b tm r H; [simpl in H; discriminate|].
  destruct a as [|o a].
  - exists tm. split; [reflexivity|exact H].
  - simpl in H. simpl. destruct (tname m o) as [n|]; [|discriminate].
    destruct (alookup n tm) as [o'|].
    + destruct (N.eqb o o'); [|discriminate]. destruct (IH _ _ _ _ H) as (t1 & A & B). exists t1. split; [exact A|].
      pose proof (bm_fuel f b t1 r 1 B) as B'. replace (f + 1)%nat with (S f) in B' by lia. exact B'.
    + rewrite app_assoc in H. destruct (IH _ _ _ _ H) as (t1 & A & B). exists t1. split; [exact A|].
      pose proof (bm_fuel f b t1 r 1 B) as B'. replace (f + 1)%nat with (S f) in B' by lia. exact B'.
Qed.

Lemma bm_join : forall f1 a b tm t1 f2 r, build_map f1 m a tm = Ok t1 -> build_map f2 m b t1 = Ok r ->
  build_map (f1 + f2) m (a ++ b) tm = Ok r.
Proof.
  induction f1 as [|f1 IH]; intros a b tm t1 f2 r A B; [simpl in A; discriminate|].
  destruct a as [|o a].
  - simpl in A. inversion A; subst t1. simpl app. replace (S f1 + f2)%nat with (f2 + S f1)%nat by lia. apply bm_fuel. exact B.
  - simpl in A. simpl. destruct (tname m o) as [n|]; [|discriminate].
    destruct (alookup n tm) as [o'|].
    + destruct (N.eqb o o'); [|discriminate]. exact (IH _ _ _ _ _ _ A B).
    + rewrite app_assoc. exact (IH _ _ _ _ _ _ A B).
Qed.

(* objects registered as themselves are skipped *)
Lemma bm_skip : forall l tm, (forall o, In o l -> exists n, tname m o = Some n /\ alookup n tm = Some o) ->
  build_map (S (length l)) m l tm = Ok tm.
Proof.
  induction l as [|o l IH]; intros tm H; [reflexivity|].
  destruct (H o (or_introl eq_refl)) as (n & Hn & Hl). simpl. rewrite Hn, Hl, N.eqb_refl.
  apply IH. intros o' Ho'. apply H. right; exact Ho'.
Qed.

(* when an entry was registered, its children were pushed on the stack *)
Lemma bm_trace : forall f st tm r, build_map f m st tm = Ok r ->
  forall X n o Q, r = (tm ++ X ++ (n, o) :: Q)%list ->
  exists rest g, build_map g m (children m o ++ rest) (tm ++ X ++ [(n, o)]) = Ok r.
Proof.
  induction f as [|f IH]; intros st tm r H X n o Q Hr; simpl in H; [discriminate|].
  destruct st as [|o1 rest].
  - inversion H as [E]. rewrite <- E in Hr. exfalso. apply (f_equal (@length _)) in Hr. rewrite !app_length in Hr. simpl in Hr. lia.
  - destruct (tname m o1) as [n1|]; [|discriminate].
    destruct (alookup n1 tm) as [o'|].
    + destruct (N.eqb o1 o'); [exact (IH _ _ _ H _ _ _ _ Hr)|discriminate].
    + destruct (bm_ext _ _ _ _ H) as (Z & Hz). rewrite Hz in Hr. rewrite <- app_assoc in Hr. apply app_inv_head in Hr.
      simpl in Hr. destruct X as [|x X'].
      * simpl in Hr. injection Hr as E1 E2 E3. subst n o Q. exists rest, f. simpl. exact H.
      * simpl in Hr. injection Hr as E1 E2. subst x Z.
        assert (Hr' : r = ((tm ++ [(n1, o1)]) ++ X' ++ (n, o) :: Q)%list) by (rewrite Hz, <- app_assoc; reflexivity).
        destruct (IH _ _ _ H _ _ _ _ Hr') as (rest' & g & Hg). exists rest', g.
        replace (tm ++ ((n1, o1) :: X') ++ [(n, o)])%list with ((tm ++ [(n1, o1)]) ++ X' ++ [(n, o)])%list
          by (rewrite <- app_assoc; reflexivity). exact Hg.
Qed.

(* re-running the traversal over the new entries of a registry it produced
   (from the state in which they were new) reproduces the registry *)
Lemma bm_replay f0 st0 tm0 R :
  build_map f0 m st0 tm0 = Ok R -> NoDup (map fst R) -> (forall n o, In (n, o) R -> tname m o = Some n) ->
  forall k Q X, (length Q <= k)%nat -> R = (tm0 ++ X ++ Q)%list ->
  exists F, build_map F m (map snd Q) (tm0 ++ X) = Ok R.
Proof.
  intros H0 Hnd Hnm. induction k as [|k IH]; intros Q X Hlen HR.
  - destruct Q; [|simpl in Hlen; lia]. exists 1%nat. simpl. rewrite HR, app_nil_r. reflexivity.
  - destruct Q as [|[n o] Q']; [exists 1%nat; simpl; rewrite HR, app_nil_r; reflexivity|].
    assert (Hin : In (n, o) R) by (rewrite HR; apply in_or_app; right; apply in_or_app; right; left; reflexivity).
    pose proof (Hnm _ _ Hin) as Hn.
    assert (Hnew : alookup n (tm0 ++ X) = None).
    { destruct (alookup n (tm0 ++ X)) as [o'|] eqn:E; [|reflexivity]. exfalso.
      rewrite HR, app_assoc, map_app in Hnd. apply NoDup_remove_2 in Hnd.
      apply Hnd. apply in_or_app. left. apply in_map_iff. exists (n, o'). split; [reflexivity|apply alookup_In; exact E]. }
    destruct (bm_trace _ _ _ _ H0 X n o Q' HR) as (rest & g & Hg).
    destruct (bm_split _ _ _ _ _ Hg) as (t1 & A & B).
    destruct (bm_ext _ _ _ _ A) as (D & Ht1). destruct (bm_ext _ _ _ _ B) as (Y & HY).
    assert (HQ : Q' = (D ++ Y)%list).
    { rewrite Ht1 in HY. rewrite HY in HR. rewrite <- !app_assoc in HR. apply app_inv_head in HR. apply app_inv_head in HR.
      simpl in HR. inversion HR. reflexivity. }
    assert (Hskip : build_map (S (length (map snd D))) m (map snd D) t1 = Ok t1).
    { apply bm_skip. intros o' Ho'. apply in_map_iff in Ho'. destruct Ho' as ([n' o2] & <- & Hd). simpl.
      assert (HinR : In (n', o2) R) by (rewrite HY, Ht1; apply in_or_app; left; apply in_or_app; right; exact Hd).
      exists n'. split; [exact (Hnm _ _ HinR)|]. apply nodup_lookup.
      - rewrite HY, map_app in Hnd. exact (NoDup_app_l _ _ Hnd).
      - rewrite Ht1. apply in_or_app. right. exact Hd. }
    assert (HR2 : R = (tm0 ++ (X ++ [(n, o)] ++ D) ++ Y)%list).
    { rewrite HY, Ht1. rewrite <- !app_assoc. reflexivity. }
    assert (HlenY : (length Y <= k)%nat) by (simpl in Hlen; rewrite HQ, app_length in Hlen; lia).
    destruct (IH Y (X ++ [(n, o)] ++ D)%list HlenY HR2) as (F2 & HF2).
    replace (tm0 ++ X ++ [(n, o)] ++ D)%list with t1 in HF2 by (rewrite Ht1, <- !app_assoc; reflexivity).
    pose proof (bm_join _ _ _ _ _ _ _ Hskip HF2) as J1.
    pose proof (bm_join _ _ _ _ _ _ _ A J1) as J2.
    exists (S (g + (S (length (map snd D)) + F2))). simpl. rewrite Hn, Hnew.
    rewrite HQ, map_app. rewrite <- (app_assoc tm0 X [(n, o)]). exact J2.
Qed.

(* every object of the stack ends up registered as itself *)
Lemma bm_stack_reg : forall f st tm r, build_map f m st tm = Ok r ->
  (forall n o, In (n, o) tm -> alookup n tm = Some o) ->
  (forall n o, In (n, o) r -> alookup n r = Some o) ->
  forall o, In o st -> exists n, tname m o = Some n /\ alookup n r = Some o.
Proof.
  induction f as [|f IH]; intros st tm r H Htm Hr o Ho; simpl in H; [discriminate|].
  destruct st as [|o1 rest]; [destruct Ho|].
  destruct (tname m o1) as [n1|] eqn:Hn1; [|discriminate].
  destruct (alookup n1 tm) as [o'|] eqn:Hl.
  - destruct (N.eqb_spec o1 o') as [<-|]; [|discriminate]. destruct Ho as [<-|Ho]; [|exact (IH _ _ _ H Htm Hr o Ho)].
    exists n1. split; [exact Hn1|]. destruct (bm_ext _ _ _ _ H) as (X & ->). apply Hr. apply in_or_app. left.
    apply alookup_In. exact Hl.
  - destruct Ho as [<-|Ho].
    + exists n1. split; [exact Hn1|]. destruct (bm_ext _ _ _ _ H) as (X & ->). apply Hr. apply in_or_app. left.
      apply in_or_app. right. left; reflexivity.
    + apply (IH _ _ _ H); [|exact Hr|apply in_or_app; right; exact Ho].
      intros n2 o2 Hin2. apply in_app_or in Hin2. destruct Hin2 as [Hin2|[He|[]]].
      * rewrite (alookup_app_some _ _ _ _ (Htm _ _ Hin2)). reflexivity.
      * inversion He; subst. exact (alookup_app_none _ _ _ Hl).
Qed.

End BuildOrder.
