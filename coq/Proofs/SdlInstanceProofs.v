(* C12: a concrete schema satisfying every hypothesis of the text-level
   theorems (non-vacuity), kept out of Properties/C12.v because its proofs
   compute for ~20 s *)
From PyGql Require Import Lang.PrinterModel Spec.PrinterSpec Proofs.PrinterSdlRoundtrip Spec.LexSpec Proofs.PrinterValueRoundtrip.
From PyGql Require Import Run.Driver Spec.SdlSpec Schema.SdlPrint Schema.SdlIntro Spec.SdlRoundtripSpec
     Proofs.SdlPrintProofs Proofs.SdlTextProofs Lang.Parser.
From PyGql Require Import Proofs.SdlTextSchemaProofs Proofs.SdlDescLexProofs Proofs.SdlTextDescProofs Proofs.SdlMemberDescProofs Proofs.SdlDescClassProofs
     Proofs.SdlDocRoundtripProofs Proofs.SdlValidInvProofs Proofs.SdlDocRulesProofs Proofs.SdlTextRoundtripProofs.
From Coq Require Import Lia.

(* the hypotheses of C12_text_roundtrip_partial / C12_fixpoint_partial hold of a
   schema with an object, an interface, arguments with defaults (Int, list of
   enum, input object, String with an escape), a deprecated field and a
   deprecated enum value, applied custom directives with arguments, a union,
   an input type with defaults and a directive definition, descriptions in the
   one-line and in the block layout on types, the directive definition, fields,
   an enum value, an input field and an argument (the one-argument-per-line layout); the
   conclusion is
   also checked by computation (text, document, rebuilt schema, second print) *)
Definition tag_dir (z : Z) : directive :=
  Dir (Name (s "tag") None) [Arg (Name (s "n") None) (VInt (str_of_Z z) None) None] None.

Definition plain_example : schema :=
  Sch [TObject (s "Query") (Some (s "The root")) [s "Node"]
         [SF (s "id") (s "id") [] (RNonNull (RNamed (s "ID"))) (Some (s "the id")) None [];
          SF (s "e") (s "e")
             [SIV (s "x") (s "x") (RList (RNonNull (RNamed (s "In")))) None (Some (s "the ""x"", described")) [];
              SIV (s "n") (s "n") (RNamed (s "Int")) (Some (PInt 5)) None [tag_dir 1];
              SIV (s "es") (s "es") (RList (RNamed (s "E"))) (Some (PList [PStr (s "A"); PNone])) None [];
              SIV (s "i") (s "i") (RNamed (s "In")) (Some (PDict [(s "n", PInt 7); (s "t", PStr [104; 10; 34]%N)])) None []]
             (RNamed (s "E")) (Some [116; 119; 111; 10; 108; 105; 110; 101; 115]%N) (Some (s "old")) [tag_dir 2]] [tag_dir 3];
       TInterface (s "Node") (Some (s "ends with a ""quote""")) [SF (s "id") (s "id") [] (RNonNull (RNamed (s "ID"))) None None []] [];
       TEnum (s "E") (Some [116; 119; 111; 10; 108; 105; 110; 101; 115; 92; 10; 10; 101; 110; 100]%N)
             [SEV (s "A") (PStr (s "A")) (Some (s "first value")) (Some default_deprecation) [tag_dir 4];
                           SEV (s "B") (PStr (s "B")) (Some [98; 92]%N) None [];
                           SEV (s "C") (PStr (s "C")) (Some (s "two ""lines""
with """"""triple"""""" and a final """)) None []] [];
       TUnion (s "U") (Some (s "say ""hi"", then """"""triple"""""" quotes, here")) [s "Query"] [];
       TInput (s "In") None [SIV (s "n") (s "n") (RNamed (s "Int")) (Some (PInt 1)) (Some (s "how many")) [];
                             SIV (s "t") (s "t") (RNamed (s "String")) (Some (PStr (s "x"))) None []] [];
       TScalar (s "Date") None [tag_dir 5]]
      [DD (s "tag") (Some (s "a tag, with a backslash \ inside")) [s "FIELD_DEFINITION"; s "OBJECT"; s "SCALAR"; s "ENUM_VALUE"; s "ARGUMENT_DEFINITION"; s "SCHEMA"]
          [SIV (s "n") (s "n") (RNamed (s "Int")) (Some (PInt 0)) (Some (s "the number, described")) []]]
      (Some (s "Query")) None None [tag_dir 6].

Definition example_opts : popts := POpts (s "  ") true false CustomAll.

Ltac vname_tac := eexists _, _; split; [reflexivity|]; split; [reflexivity|repeat constructor].

Ltac good_value_tac :=
  repeat match goal with
         | |- _ /\ _ => split
         | |- True => exact I
         | |- _ = _ => reflexivity
         | |- LexSpec.IntValue _ => apply int_re_spec; vm_compute; reflexivity
         | |- PrinterRoundtrip.valid_name _ => vname_tac
         | |- (_ <= _)%N => lia
         | |- ~ _ => vm_compute; intuition discriminate
         end.

Ltac dirs_ok_tac :=
  split; [vm_compute custom_dirs; repeat constructor; cbn; good_value_tac
         |first [left; reflexivity|right; reflexivity]].

Ltac desc_ok_tac :=
  first [ exact I
        | apply desc_ok_single_line;
          [reflexivity|vm_compute; reflexivity|vm_compute; reflexivity|vm_compute; lia|vm_compute; discriminate
          |apply source_chars_b; vm_compute; reflexivity]
        | apply desc_ok_single_line_quotes;
          [reflexivity|vm_compute; reflexivity|vm_compute; reflexivity|vm_compute; lia|vm_compute; discriminate|vm_compute; discriminate
          |apply source_chars_b; vm_compute; reflexivity]
        | apply desc_ok_block;
          [reflexivity|discriminate|vm_compute; reflexivity|vm_compute; reflexivity|vm_compute; discriminate
          |vm_compute; discriminate|vm_compute; first [lia|right; right; reflexivity]|apply source_chars_b; vm_compute; reflexivity]
        | apply desc_ok_block_quotes;
          [reflexivity|discriminate|vm_compute; reflexivity|vm_compute; reflexivity|vm_compute; discriminate
          |vm_compute; discriminate|vm_compute; first [lia|right; right; reflexivity]|apply source_chars_b; vm_compute; reflexivity] ].

Ltac desc_okd_tac :=
  first [ exact I
        | apply desc_okd_single_line;
          [reflexivity|vm_compute; reflexivity|vm_compute; reflexivity|vm_compute; lia|vm_compute; lia
          |vm_compute; discriminate|apply source_chars_b; vm_compute; reflexivity]
        | apply desc_okd_single_line_quotes;
          [reflexivity|vm_compute; reflexivity|vm_compute; reflexivity|vm_compute; lia|vm_compute; lia
          |vm_compute; discriminate|vm_compute; discriminate|apply source_chars_b; vm_compute; reflexivity]
        | apply desc_okd_block;
          [reflexivity|discriminate|vm_compute; reflexivity|vm_compute; reflexivity|vm_compute; reflexivity
          |vm_compute; discriminate|vm_compute; discriminate|vm_compute; first [lia|right; right; reflexivity]|apply source_chars_b; vm_compute; reflexivity]
        | apply desc_okd_block_quotes;
          [reflexivity|discriminate|vm_compute; reflexivity|vm_compute; reflexivity|vm_compute; reflexivity
          |vm_compute; discriminate|vm_compute; discriminate|vm_compute; first [lia|right; right; reflexivity]|apply source_chars_b; vm_compute; reflexivity] ].

Lemma text_roundtrip_instance :
  full_schema example_opts plain_example /\ valid_locations plain_example
  /\ schema_okb plain_example = true /\ defaults_guard plain_example.
Proof.
  split; [|split; [|split]].
  - unfold full_schema, plain_example. cbn [s_types s_ddefs].
    repeat match goal with
           | |- _ /\ _ => split
           | |- Forall _ _ => constructor
           | |- PrinterRoundtrip.valid_name _ => vname_tac
           | |- _ = None => reflexivity
           | |- dirs_ok _ _ => dirs_ok_tac
           | |- dflt_ok _ _ => unfold dflt_ok; cbn [siv_default siv_type clear_siv];
                               first [exact I|eexists; split; [vm_compute; reflexivity|cbn; good_value_tac]]
           | |- desc_ok _ _ => cbn [tdef_desc dd_desc]; desc_ok_tac
           | |- desc_okd _ _ _ => cbn [sf_desc sev_desc siv_desc]; desc_okd_tac
           | |- _ <> _ => discriminate
           | |- True => exact I
           | |- wf_tref _ => cbn [wf_tref]
           | |- full_tdef _ _ _ => unfold full_tdef; cbn [clear_tdesc]
           | |- m_tdef _ _ _ => unfold m_tdef; cbn [tdef_desc tdef_dirs tdef_name]
           | |- d_sf _ _ _ => unfold d_sf; cbn [sf_name sf_args sf_type sf_dirs sf_desc]
           | |- d_arg _ _ _ _ => unfold d_arg, clear_siv; cbn [siv_name siv_py siv_type siv_default siv_dirs]
           | |- d_sev _ _ => unfold d_sev, clear_sev; cbn [sev_name sev_value sev_dep sev_dirs]
           | |- d_siv _ _ _ => unfold d_siv, clear_siv; cbn [siv_name siv_py siv_type siv_default siv_dirs]
           | |- m_ddef _ _ _ => unfold m_ddef; cbn [dd_name dd_locs dd_args dd_desc]
           | |- In _ _ => vm_compute; repeat (first [left; reflexivity | right])
           | |- plain_sf _ _ _ => unfold plain_sf; cbn [sf_desc sf_dirs sf_name sf_type sf_args]
           | |- plain_siv _ _ _ => unfold plain_siv; cbn [siv_desc siv_dirs siv_name siv_type]
           | |- plain_sev _ _ => unfold plain_sev; cbn [sev_desc sev_dirs sev_name]
           | |- plain_ddef _ _ _ => unfold plain_ddef; cbn [dd_desc dd_name dd_args dd_locs]
           | |- plain_roots _ _ => unfold plain_roots; cbn [s_dirs s_query s_mutation s_subscription]
           | |- ~ _ => vm_compute; intuition discriminate
           | |- exists q, Some ?x = Some q /\ _ => exists x; split; [reflexivity|]
           | |- forall m, None = Some m -> _ => intros ? ?; discriminate
           end.
  - unfold valid_locations, plain_example. cbn [s_ddefs dd_locs].
    repeat (first [apply Forall_nil | apply Forall_cons]); vm_compute; repeat (first [left; reflexivity | right]).
  - vm_compute; reflexivity.
  - eexists. split; [vm_compute; reflexivity|]. split.
    + intros a Ha v n Hv Hn. vm_compute in Ha.
      repeat (destruct Ha as [<-|Ha]; [try discriminate; inversion Hv; subst; vm_compute in Hn; inversion Hn; subst; vm_compute; reflexivity|]).
      destruct Ha.
    + split; intros iv Hin v Hv; vm_compute in Hin.
      * repeat (destruct Hin as [<-|Hin]; [try discriminate; inversion Hv; subst; vm_compute; reflexivity|]). destruct Hin.
      * destruct Hin.
Qed.

Lemma fixpoint_instance :
  let o := example_opts in
  match print_schema introspection_types specified_ddefs o plain_example with
  | Ok text =>
      match parse_document (Flags true true false) text with
      | Ok d => match build_model (BOpts true []) d with
                | Ok sc' => roundtrip_equiv sc' plain_example
                            && match print_schema introspection_types specified_ddefs o sc' with
                               | Ok text' => str_eqb text' text
                               | _ => false
                               end
                | _ => false
                end
      | _ => false
      end
  | _ => false
  end = true.
Proof. vm_compute; reflexivity. Qed.
