(* C14 -- proofs about the store model, part 1: dictionaries, memory,
   Schema construction (C14_build_closed). *)
From PyGql Require Import Spec.StoreSpec.
Local Open Scope N_scope.

(* ----------------------------------------------------------- dictionaries *)
Lemma alookup_app_some {A} n (tm l : list (str * A)) o :
  alookup n tm = Some o -> alookup n (tm ++ l) = Some o.
Proof.
  induction tm as [|[k v] tm IH]; simpl; [discriminate|].
  destruct (str_eqb n k); auto.
Qed.

Lemma alookup_app_none {A} n (tm : list (str * A)) o :
  alookup n tm = None -> alookup n (tm ++ [(n, o)]) = Some o.
Proof.
  induction tm as [|[k v] tm IH]; simpl.
  - rewrite str_eqb_refl; reflexivity.
  - destruct (str_eqb n k); [discriminate|auto].
Qed.

Lemma alookup_app_other {A} n n' (tm : list (str * A)) o :
  alookup n tm = None -> n <> n' -> alookup n (tm ++ [(n', o)]) = None.
Proof.
  intros H Hn. induction tm as [|[k v] tm IH]; simpl in *.
  - destruct (str_eqb_spec n n'); [contradiction|reflexivity].
  - destruct (str_eqb n k); [discriminate|auto].
Qed.

Lemma reg_app m tm l o : reg m tm o -> reg m (tm ++ l) o.
Proof. intros (n & Hn & Hl). exists n. split; [assumption|apply alookup_app_some; assumption]. Qed.

(* ------------------------------------------------------------ build_map *)
Lemma build_map_closed m : forall fuel stack tm tm',
  names_ok m tm ->
  (forall n o, In (n, o) tm -> forall c, In c (children m o) -> reg m tm c \/ In c stack) ->
  build_map fuel m stack tm = Ok tm' ->
  names_ok m tm' /\
  (forall c, In c stack -> reg m tm' c) /\
  (forall n o, In (n, o) tm' -> forall c, In c (children m o) -> reg m tm' c) /\
  (forall c, reg m tm c -> reg m tm' c).
Proof.
  induction fuel as [|fuel IH]; intros stack tm tm' Hnames Hinv Hb; simpl in Hb; [discriminate|].
  destruct stack as [|o rest].
  - inversion Hb; subst tm'. split; [assumption|]. split; [intros c []|]. split; [|auto].
    intros n o Hin c Hc. destruct (Hinv n o Hin c Hc) as [H|[]]; assumption.
  - destruct (tname m o) as [n|] eqn:Hn; [|discriminate].
    destruct (alookup n tm) as [o'|] eqn:Hl.
    + destruct (N.eqb_spec o o') as [->|Hne]; [|discriminate].
      assert (Hreg : reg m tm o') by (exists n; split; assumption).
      destruct (IH rest tm tm' Hnames) as (H1 & H2 & H3 & H4); auto.
      * intros n1 o1 Hin c Hc. destruct (Hinv n1 o1 Hin c Hc) as [H|[<-|H]]; auto.
      * split; [assumption|]. split; [|split; assumption]. intros c [<-|Hc]; auto.
    + assert (Hnames' : names_ok m (tm ++ [(n, o)])).
      { intros n1 o1 Hin. apply in_app_or in Hin. destruct Hin as [Hin|[Heq|[]]].
        - destruct (Hnames n1 o1 Hin) as [Ha Hb']. split; [assumption|apply alookup_app_some; assumption].
        - inversion Heq; subst. split; [assumption|apply alookup_app_none; assumption]. }
      assert (Hrego : reg m (tm ++ [(n, o)]) o).
      { exists n. split; [assumption|apply alookup_app_none; assumption]. }
      destruct (IH (children m o ++ rest) (tm ++ [(n, o)]) tm' Hnames') as (H1 & H2 & H3 & H4); auto.
      * intros n1 o1 Hin c Hc. apply in_app_or in Hin. destruct Hin as [Hin|[Heq|[]]].
        -- destruct (Hinv n1 o1 Hin c Hc) as [H|[<-|H]].
           ++ left. apply reg_app; assumption.
           ++ left; assumption.
           ++ right. apply in_or_app; right; assumption.
        -- inversion Heq; subst. right. apply in_or_app; left; assumption.
      * split; [assumption|]. split; [|split; [assumption|]].
        -- intros c [<-|Hc]; [apply H4; assumption|apply H2; apply in_or_app; right; assumption].
        -- intros c Hc. apply H4. apply reg_app; assumption.
Qed.

Lemma builtin_names_ok m : builtins_ok m -> names_ok m builtin_types.
Proof.
  intros Hb n o Hin. split.
  - unfold tname. rewrite (Hb n o Hin). reflexivity.
  - simpl in Hin. repeat (destruct Hin as [Heq|Hin]; [inversion Heq; subst; vm_compute; reflexivity|]).
    destruct Hin.
Qed.

Lemma builtin_children m : builtins_ok m ->
  forall n o, In (n, o) builtin_types -> children m o = [].
Proof. intros Hb n o Hin. unfold children. rewrite (Hb n o Hin). reflexivity. Qed.

(* --------------------------------------------------------- rebuild_caches *)
Lemma aappend_values k v l x :
  In x (flat_map snd (aappend k v l)) -> x = v \/ In x (flat_map snd l).
Proof.
  induction l as [|[k' vs] l IH]; simpl.
  - intros [H|[]]; auto.
  - destruct (str_eqb k k'); simpl; intros H.
    + apply in_app_or in H. destruct H as [H|H].
      * apply in_app_or in H. destruct H as [H|[H|[]]]; auto.
        right. apply in_or_app; left; assumption.
      * right. apply in_or_app; right; assumption.
    + apply in_app_or in H. destruct H as [H|H].
      * right. apply in_or_app; left; assumption.
      * destruct (IH H) as [H'|H']; auto. right. apply in_or_app; right; assumption.
Qed.

Lemma impls_of_type_values m acc e x :
  In x (flat_map snd (impls_of_type m acc e)) -> x = snd e \/ In x (flat_map snd acc).
Proof.
  unfold impls_of_type.
  destruct (mget m (snd e)) as [[n k d members ifaces r ds| | | |]|]; auto.
  destruct k; auto.
  revert acc. induction ifaces as [|i ifaces IH]; intros acc; simpl; auto.
  intros H. destruct (IH _ H) as [H'|H']; auto.
  destruct (tname m i); auto.
  apply aappend_values in H'. destruct H'; auto.
Qed.

Lemma rebuild_impls_values m tm : forall acc x,
  In x (flat_map snd (fold_left (impls_of_type m) tm acc)) ->
  In x (map snd tm) \/ In x (flat_map snd acc).
Proof.
  induction tm as [|e tm IH]; intros acc x; simpl; auto.
  intros H. destruct (IH _ _ H) as [H'|H']; auto.
  apply impls_of_type_values in H'. destruct H'; auto.
Qed.

Lemma Forall_flat_values (P : oid -> Prop) (l : list (str * list oid)) :
  (forall x, In x (flat_map snd l) -> P x) -> Forall (fun e => Forall P (snd e)) l.
Proof.
  intros H. apply Forall_forall. intros e He. apply Forall_forall. intros x Hx.
  apply H. apply in_flat_map. exists e; split; assumption.
Qed.

Lemma names_ok_reg m tm n o : names_ok m tm -> In (n, o) tm -> reg m tm o.
Proof. intros Hn Hin. destruct (Hn n o Hin). exists n; split; assumption. Qed.

Lemma rebuild_caches_impls m s :
  names_ok m (s_types s) ->
  Forall (fun e => Forall (reg m (s_types s)) (snd e)) (s_impls (rebuild_caches m s)).
Proof.
  intros Hn. simpl. apply Forall_flat_values. intros x Hx.
  apply rebuild_impls_values in Hx. destruct Hx as [Hx|[]].
  apply in_map_iff in Hx. destruct Hx as ([n o] & <- & Hin). eapply names_ok_reg; eauto.
Qed.

(* ------------------------------------------------------------------ build *)
Theorem build_closed fuel m q mu su dirs types s :
  builtins_ok m ->
  build fuel m q mu su dirs types = Ok s ->
  closed m s /\ names_ok m (s_types s).
Proof.
  intros Hb H. unfold build in H.
  destruct (build_dirs m dirs []) as [dm| | |] eqn:Hd; simpl in H; try discriminate.
  match type of H with obind (build_map ?f ?mm ?st ?t0) _ = _ =>
    destruct (build_map f mm st t0) as [tm| | |] eqn:Hm; simpl in H; try discriminate;
    pose proof (build_map_closed m f st t0 tm (builtin_names_ok m Hb)) as Hc end.
  inversion H; subst s; clear H.
  destruct Hc as (Hnames & Hstack & Hch & _); [|assumption|].
  { intros n o Hin c Hc. rewrite (builtin_children m Hb n o Hin) in Hc. destruct Hc. }
  assert (Hroot : forall r, root_ok m tm r ->  True) by auto.
  split; [|exact Hnames].
  constructor; simpl.
  - apply Forall_forall. intros [n o] Hin _. unfold type_ok. apply Forall_forall. intros c Hc.
    eapply Hch; eauto.
  - apply Forall_forall. intros [n d] Hin. unfold dir_ok. apply Forall_forall. intros c Hc.
    apply Hstack. repeat (apply in_or_app; right).
    apply in_flat_map in Hc. destruct Hc as (a & Ha & Hc).
    apply in_flat_map. exists a. split; [|assumption].
    apply in_flat_map. exists d. split; [|assumption].
    apply in_map_iff. exists (n, d); split; auto.
  - destruct q as [o|]; simpl; auto. apply Hstack.
    apply in_or_app; right. apply in_or_app; left. left; reflexivity.
  - destruct mu as [o|]; simpl; auto. apply Hstack.
    apply in_or_app; right. apply in_or_app; right. apply in_or_app; left. left; reflexivity.
  - destruct su as [o|]; simpl; auto. apply Hstack.
    do 3 (apply in_or_app; right). apply in_or_app; left. left; reflexivity.
  - apply (rebuild_caches_impls m (MkSchema tm dm q mu su [] [])). exact Hnames.
  - constructor.
Qed.
