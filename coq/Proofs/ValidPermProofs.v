(* Local rules against their specification forms (KnownFragmentNames,
   LoneAnonymousOperation, the easy half of NoUnusedFragments) and invariance
   of the specification forms under permutation of the definitions. *)
From PyGql Require Import Valid.ValidOverlap Spec.ValidSpec Proofs.ValidCloseProofs
     Proofs.ValidGraphProofs Proofs.ValidVarProofs.
From Coq Require Import Lia Permutation.

Lemma flat_map_nil_iff {A B} (f : A -> list B) l : flat_map f l = [] <-> forall e, In e l -> f e = [].
Proof.
  induction l as [|a l IH]; simpl; [split; [intros _ e []|reflexivity]|].
  split.
  - intros H. apply app_eq_nil in H. destruct H as [Ha Hl]. intros e [<-|He]; [exact Ha|].
    apply IH; assumption.
  - intros H. rewrite (H a (or_introl eq_refl)). simpl. apply IH. intros e He. apply H. right. exact He.
Qed.

Lemma doc_events_In s d e : In e (doc_events s d) <-> exists df, In df (doc_defs d) /\ In e (def_events s df).
Proof. unfold doc_events. apply in_flat_map. Qed.

(* ---- KnownFragmentNames ---- *)
Theorem r11_equiv s d : r11_known_fragment_names s d = [] <-> spec_known_fragment_names d.
Proof.
  unfold r11_known_fragment_names, spec_known_fragment_names. rewrite flat_map_nil_iff. split.
  - intros H df x Hdf Hs. apply (def_spreads_spec s) in Hs. apply spread_event in Hs.
    destruct Hs as (p & n & dirs & l & He & <-).
    specialize (H (ESpread p n dirs l)). simpl in H.
    destruct (mem_str (n_val n) (frag_names d)) eqn:Hm.
    + apply frag_names_In. apply mem_str_In. exact Hm.
    + exfalso. assert (Hnil : [mk 11 l] = []) by (apply H; apply doc_events_In; eauto). discriminate.
  - intros H e He. destruct e; try reflexivity.
    apply doc_events_In in He. destruct He as [df [Hdf He]].
    assert (Hd : defined_fragment d (n_val n)).
    { apply (H df); [exact Hdf|]. apply (def_spreads_spec s). apply spread_event. eauto 6. }
    apply frag_names_In in Hd. apply mem_str_In in Hd. rewrite Hd. reflexivity.
Qed.

(* ---- LoneAnonymousOperation ---- *)
Theorem r03_equiv d : r03_lone_anonymous d = [] <-> spec_lone_anonymous d.
Proof.
  unfold r03_lone_anonymous, spec_lone_anonymous.
  assert (Hfilt : filter (fun x => match x with DOperation _ _ _ _ _ _ _ => true | _ => false end) (doc_defs d)
                  = filter is_op (doc_defs d)).
  { apply filter_ext. intros x. destruct x; reflexivity. }
  rewrite Hfilt.
  destruct (existsb (fun x => match x with DOperation _ None _ _ _ _ _ => true | _ => false end)
                    (filter is_op (doc_defs d))) eqn:Hanon.
  - simpl. destruct (Nat.ltb 1 (length (filter is_op (doc_defs d)))) eqn:Hlen.
    + split; [discriminate|]. intros H. exfalso.
      apply existsb_exists in Hanon. destruct Hanon as [a [Ha Hb]]. apply filter_In in Ha.
      assert (Hle : length (filter is_op (doc_defs d)) <= 1).
      { apply H. exists a. split; [tauto|]. destruct a; try discriminate. destruct n; [discriminate|exact I]. }
      apply Nat.ltb_lt in Hlen. lia.
    + split; [|reflexivity]. intros _ _. apply Nat.ltb_ge in Hlen. exact Hlen.
  - simpl. split; [|reflexivity]. intros _ [a [Ha Han]]. exfalso.
    assert (Ht : existsb (fun x => match x with DOperation _ None _ _ _ _ _ => true | _ => false end)
                         (filter is_op (doc_defs d)) = true).
    { apply existsb_exists. exists a. split.
      - apply filter_In. split; [exact Ha|]. destruct a; simpl in Han; try (exfalso; exact Han). reflexivity.
      - destruct a; simpl in Han; try (exfalso; exact Han). destruct n; [exfalso; exact Han|reflexivity]. }
    congruence.
Qed.

(* ---- NoUnusedFragments: the two directions that hold for the rule alone ---- *)
Lemma all_spreads_In s d x :
  In x (all_spreads s d) <-> exists df, In df (doc_defs d) /\ sels_spread (def_sels df) x.
Proof.
  unfold all_spreads, doc_events. rewrite in_flat_map2. split.
  - intros [df [Hdf Hx]]. exists df. split; [exact Hdf|]. apply (def_spreads_spec s). exact Hx.
  - intros [df [Hdf Hx]]. exists df. split; [exact Hdf|]. apply (def_spreads_spec s) in Hx. exact Hx.
Qed.

Theorem r12_silent_iff s d :
  r12_no_unused_fragments s d = [] <->
  forall f, defined_fragment d f -> exists df, In df (doc_defs d) /\ sels_spread (def_sels df) f.
Proof.
  unfold r12_no_unused_fragments.
  destruct (forallb (fun f => mem_str f (all_spreads s d)) (frag_names d)) eqn:Hall.
  - split; [|reflexivity]. intros _ f Hf. rewrite forallb_forall in Hall.
    apply frag_names_In in Hf. specialize (Hall f Hf). apply mem_str_In in Hall.
    apply all_spreads_In in Hall. exact Hall.
  - split; [discriminate|]. intros H. exfalso.
    assert (Ht : forallb (fun f => mem_str f (all_spreads s d)) (frag_names d) = true).
    { apply forallb_forall. intros f Hf. apply mem_str_In. apply all_spreads_In.
      apply H. apply frag_names_In. exact Hf. }
    congruence.
Qed.

Lemma frag_reach_spread d sels f :
  frag_reach d sels f -> sels_spread sels f \/ exists y, frag_edge d y f.
Proof. intros H. destruct H as [x Hx|y x Hy He]; [left; exact Hx|right; exists y; exact He]. Qed.

Theorem r12_spec_implies_silent s d : spec_no_unused_fragments d -> r12_no_unused_fragments s d = [].
Proof.
  intros H. apply r12_silent_iff. intros f Hf. destruct (H f Hf) as [op [Hop [_ Hr]]].
  destruct (frag_reach_spread _ _ _ Hr) as [Hs|[y [df [Hdf [_ Hs]]]]]; eauto.
Qed.

(* ---- permutation of the definitions ---- *)
Definition same_defs (d d' : document) : Prop := forall df, In df (doc_defs d) <-> In df (doc_defs d').

Lemma same_defs_sym d d' : same_defs d d' -> same_defs d' d.
Proof. intros H df. symmetry. apply H. Qed.

Lemma perm_same_defs d d' : Permutation (doc_defs d) (doc_defs d') -> same_defs d d'.
Proof. intros H df. split; apply Permutation_in; [exact H|symmetry; exact H]. Qed.

Lemma frag_edge_same d d' f x : same_defs d d' -> frag_edge d f x -> frag_edge d' f x.
Proof. intros H [df [Hdf Hr]]. exists df. split; [apply H; exact Hdf|exact Hr]. Qed.

Lemma walk_same d d' f x : same_defs d d' -> walk d f x -> walk d' f x.
Proof.
  intros H Hw. induction Hw as [f x He|f y x Hw IH He].
  - apply walk_one. eapply frag_edge_same; eassumption.
  - eapply walk_step; [exact IH|]. eapply frag_edge_same; eassumption.
Qed.

Lemma has_cycle_same d d' : same_defs d d' -> (has_cycle d <-> has_cycle d').
Proof.
  intros H. split; intros [f Hw]; exists f; eapply walk_same; try eassumption. apply same_defs_sym. exact H.
Qed.

Lemma frag_reach_same d d' sels f : same_defs d d' -> frag_reach d sels f -> frag_reach d' sels f.
Proof.
  intros H Hr. induction Hr as [x Hx|y x Hy IH He].
  - apply fr_direct. exact Hx.
  - eapply fr_step; [exact IH|]. eapply frag_edge_same; eassumption.
Qed.

Lemma op_uses_var_same d d' op x : same_defs d d' -> op_uses_var d op x -> op_uses_var d' op x.
Proof.
  intros H [Hv|[f [df [Hr [Hdf Hrest]]]]]; [left; exact Hv|right].
  exists f, df. split; [eapply frag_reach_same; eassumption|]. split; [apply H; exact Hdf|exact Hrest].
Qed.

Lemma spec_undefined_same d d' : same_defs d d' -> spec_no_undefined_variables d -> spec_no_undefined_variables d'.
Proof.
  intros H Hs op x Hop Hisop Hu. apply (Hs op x); [apply H; exact Hop|exact Hisop|].
  eapply op_uses_var_same; [apply same_defs_sym; exact H|exact Hu].
Qed.
Lemma spec_unused_same d d' : same_defs d d' -> spec_no_unused_variables d -> spec_no_unused_variables d'.
Proof.
  intros H Hs op x Hop Hisop Hd. eapply op_uses_var_same; [exact H|].
  apply (Hs op x); [apply H; exact Hop|exact Hisop|exact Hd].
Qed.
Lemma spec_known_same d d' : same_defs d d' -> spec_known_fragment_names d -> spec_known_fragment_names d'.
Proof.
  intros H Hs df x Hdf Hsp. destruct (Hs df x) as [df' [Hdf' Hn]]; [apply H; exact Hdf|exact Hsp|].
  exists df'. split; [apply H; exact Hdf'|exact Hn].
Qed.

Lemma frag_names_perm d d' : Permutation (doc_defs d) (doc_defs d') -> Permutation (frag_names d) (frag_names d').
Proof. intros H. unfold frag_names. apply Permutation_flat_map. exact H. Qed.
Lemma op_key_list_perm d d' : Permutation (doc_defs d) (doc_defs d') -> Permutation (op_key_list d) (op_key_list d').
Proof. intros H. unfold op_key_list. apply Permutation_flat_map. exact H. Qed.

Theorem perm_definitions s d d' :
  Permutation (doc_defs d) (doc_defs d') ->
  NoDup (frag_names d) -> NoDup (op_key_list d) ->
  (r14_no_fragment_cycles s d = Ok [] <-> r14_no_fragment_cycles s d' = Ok []) /\
  (r16_no_undefined_variables s d = Ok [] <-> r16_no_undefined_variables s d' = Ok []) /\
  (r17_no_unused_variables s d = Ok [] <-> r17_no_unused_variables s d' = Ok []) /\
  (r11_known_fragment_names s d = [] <-> r11_known_fragment_names s d' = []).
Proof.
  intros Hp Hf Hk.
  pose proof (perm_same_defs _ _ Hp) as Hs. pose proof (same_defs_sym _ _ Hs) as Hs'.
  assert (Hf' : NoDup (frag_names d')) by (eapply Permutation_NoDup; [apply frag_names_perm; exact Hp|exact Hf]).
  assert (Hk' : NoDup (op_key_list d')) by (eapply Permutation_NoDup; [apply op_key_list_perm; exact Hp|exact Hk]).
  split; [|split; [|split]].
  - rewrite (r14_equiv s d Hf), (r14_equiv s d' Hf'), (has_cycle_same d d' Hs). tauto.
  - rewrite (r16_equiv s d Hk), (r16_equiv s d' Hk'). split; apply spec_undefined_same; assumption.
  - rewrite (r17_equiv s d Hk), (r17_equiv s d' Hk'). split; apply spec_unused_same; assumption.
  - rewrite (r11_equiv s d), (r11_equiv s d'). split; apply spec_known_same; assumption.
Qed.
