(* C14 -- proofs about the store model, part 9: the visibility transform
   removes exactly the rejected types from the registry. *)
From PyGql Require Import Spec.StoreSpec Proofs.StoreProofs Proofs.StoreHeal Proofs.StoreLoop
     Proofs.StoreFrame Proofs.StoreClone Proofs.StoreOps Proofs.StoreTerm.
Local Open Scope N_scope.

Definition vinv (m : mem) : Prop := fresh_ok m /\ 5 < m_next m.
(* names of type objects are kept, the allocation pointer only grows *)
Definition tyi (m : mem) (o : oid) : option (str * kind) :=
  match mget m o with Some (OType n k _ _ _ _ _) => Some (n, k) | _ => None end.
(* ... and objects that are not type objects (fields, arguments, input fields,
   enum values, directives) are not written at all *)
Definition tnr (m m' : mem) : Prop :=
  m_next m <= m_next m' /\
  ((forall o i, tyi m o = Some i -> tyi m' o = Some i) /\
   (forall o v, mget m o = Some v -> tyi m o = None -> mget m' o = Some v)).
Lemma tyi_tname m o n k : tyi m o = Some (n, k) -> tname m o = Some n /\ tkind m o = Some k.
Proof. unfold tyi, tname, tkind. destruct (mget m o) as [[| | | |]|]; try discriminate. intros H; inversion H; auto. Qed.
Lemma tname_tyi m o n : tname m o = Some n -> exists k, tyi m o = Some (n, k).
Proof. unfold tyi, tname. destruct (mget m o) as [[n0 k| | | |]|]; try discriminate. intros H; inversion H; eauto. Qed.
Definition hook_tn (h : hook) : Prop :=
  forall m x m' r, vinv m -> h m x = Some (m', r) -> vinv m' /\ tnr m m'.

Lemma tnr_refl m : tnr m m.
Proof. split; [lia|split; auto]. Qed.
Lemma tnr_trans m m' m'' : tnr m m' -> tnr m' m'' -> tnr m m''.
Proof.
  intros (N1 & T1 & P1) (N2 & T2 & P2). split; [lia|]. split; [auto|].
  intros o v Hg Ht. pose proof (P1 o v Hg Ht) as Hg'. apply P2; [assumption|].
  unfold tyi in *. rewrite Hg'. rewrite Hg in Ht. exact Ht.
Qed.

Lemma tnr_alloc m v : vinv m -> vinv (fst (alloc m v)) /\ tnr m (fst (alloc m v)).
Proof.
  intros [Hf Hn]. split; [split; [apply fresh_alloc; assumption|simpl; lia]|].
  split; [simpl; lia|]. split.
  - intros o n Ht. unfold tyi in *. rewrite mget_alloc.
    destruct (N.eqb_spec o (m_next m)) as [->|]; [|assumption].
    rewrite (Hf (m_next m)) in Ht; [discriminate|lia].
  - intros o w Hg _. rewrite mget_alloc. destruct (N.eqb_spec o (m_next m)) as [->|]; [|assumption].
    rewrite (Hf (m_next m)) in Hg; [discriminate|lia].
Qed.

Lemma hook_tn_hid : hook_tn hid.
Proof. intros m x m' r Hi H. inversion H; subst. split; [assumption|apply tnr_refl]. Qed.

Lemma hook_tn_hseq pre base post : hook_tn pre -> hook_tn base -> hook_tn post -> hook_tn (hseq pre base post).
Proof.
  intros H1 H2 H3 m x m' r Hi H. unfold hseq in H.
  destruct (pre m x) as [[m1 [o1|]]|] eqn:E1; try discriminate.
  - destruct (H1 _ _ _ _ Hi E1) as (I1 & R1).
    destruct (base m1 o1) as [[m2 [o2|]]|] eqn:E2; try discriminate.
    + destruct (H2 _ _ _ _ I1 E2) as (I2 & R2). destruct (H3 _ _ _ _ I2 H) as (I3 & R3).
      split; [assumption|eapply tnr_trans; [exact R1|eapply tnr_trans; eauto]].
    + destruct (H2 _ _ _ _ I1 E2) as (I2 & R2). inversion H; subst. split; [assumption|eapply tnr_trans; eauto].
  - destruct (H1 _ _ _ _ Hi E1) as (I1 & R1). inversion H; subst. split; assumption.
Qed.

Lemma map_filter_tn (f : hook) : hook_tn f ->
  forall l m m' rs, vinv m -> map_filter f m l = Some (m', rs) -> vinv m' /\ tnr m m'.
Proof.
  intros Hf. induction l as [|x l IH]; intros m m' rs Hi H; simpl in H.
  - inversion H; subst. split; [assumption|apply tnr_refl].
  - destruct (f m x) as [[m1 r]|] eqn:Hx; [|discriminate].
    destruct (map_filter f m1 l) as [[m2 rs']|] eqn:Hr; [|discriminate]. inversion H; subst.
    destruct (Hf _ _ _ _ Hi Hx) as (I1 & R1). destruct (IH _ _ _ I1 Hr) as (I2 & R2).
    split; [assumption|eapply tnr_trans; eauto].
Qed.

Lemma base_field_tn v : hook_tn (visit_arg v) -> hook_tn (base_field v).
Proof.
  intros Ha m f m' r Hi H. unfold base_field in H.
  destruct (mget m f) as [[|n py ty args d dp rs sb ds| | |]|]; try discriminate.
  destruct (map_filter (visit_arg v) m args) as [[m1 args']|] eqn:Hmf; [|discriminate].
  destruct (map_filter_tn _ Ha _ _ _ _ Hi Hmf) as (I1 & R1).
  destruct (oids_eqb args' args); [inversion H; subst; split; assumption|].
  destruct (mget m1 f) as [[|n1 py1 ty1 a1 d1 dp1 rs1 sb1 ds1| | |]|]; try discriminate.
  destruct (tnr_alloc m1 (OField n1 py1 ty1 args' d1 dp1 rs1 sb1 ds1) I1) as (I2 & R2).
  unfold alloc in H, I2, R2. simpl in I2, R2. inversion H; subst. split; [assumption|eapply tnr_trans; eauto].
Qed.

Lemma base_dir_tn v : hook_tn (visit_arg v) -> hook_tn (base_dir v).
Proof.
  intros Ha m f m' r Hi H. unfold base_dir in H.
  destruct (mget m f) as [[| | | |n ds locs args]|]; try discriminate.
  destruct (map_filter (visit_arg v) m args) as [[m1 args']|] eqn:Hmf; [|discriminate].
  destruct (map_filter_tn _ Ha _ _ _ _ Hi Hmf) as (I1 & R1).
  destruct (oids_eqb args' args); [inversion H; subst; split; assumption|].
  destruct (mget m1 f) as [[| | | |n1 ds1 locs1 a1]|]; try discriminate.
  destruct (tnr_alloc m1 (ODir n1 ds1 locs1 args') I1) as (I2 & R2).
  unfold alloc in H, I2, R2. simpl in I2, R2. inversion H; subst. split; [assumption|eapply tnr_trans; eauto].
Qed.

(* SchemaVisitor.on_<type>: the result is the type itself or a new object of the same name and kind *)
Lemma base_type_tn v : hook_tn (visit_field v) -> hook_tn (visit_inf v) -> hook_tn (visit_env v) ->
  forall m t m' r i, vinv m -> tyi m t = Some i -> base_type v m t = Some (m', r) ->
    vinv m' /\ tnr m m' /\ exists y, r = Some y /\ tyi m' y = Some i /\ (y = t \/ m_next m <= y).
Proof.
  intros Hfd Hin Hen m t m' r i Hi Ht H. unfold base_type in H. unfold tyi in Ht.
  destruct (mget m t) as [[n k d ms ifs rs ds| | | |]|] eqn:Hg; try discriminate. inversion Ht; subst i.
  assert (Hsame : m' = m -> r = Some t ->
            vinv m' /\ tnr m m' /\ exists y, r = Some y /\ tyi m' y = Some (n, k) /\ (y = t \/ m_next m <= y)).
  { intros -> ->. split; [assumption|]. split; [apply tnr_refl|]. exists t. split; [reflexivity|].
    split; [unfold tyi; rewrite Hg; reflexivity|left; reflexivity]. }
  assert (Hgen : forall h : hook, hook_tn h ->
    match map_filter h m ms with
    | None => None
    | Some (m1, members') =>
        if oids_eqb members' ms then Some (m1, Some t)
        else match mget m1 t with
             | Some (OType n1 k1 d1 _ ifaces r1 ds1) =>
                 let (m2, t') := alloc m1 (OType n1 k1 d1 members' ifaces r1 ds1) in Some (m2, Some t')
             | _ => None
             end
    end = Some (m', r) ->
    vinv m' /\ tnr m m' /\ exists y, r = Some y /\ tyi m' y = Some (n, k) /\ (y = t \/ m_next m <= y)).
  { intros h Hh H0. destruct (map_filter h m ms) as [[m1 ms']|] eqn:Hmf; [|discriminate].
    destruct (map_filter_tn _ Hh _ _ _ _ Hi Hmf) as (I1 & R1).
    assert (Ht1 : tyi m1 t = Some (n, k)) by (apply (proj1 (proj2 R1)); unfold tyi; rewrite Hg; reflexivity).
    destruct (oids_eqb ms' ms).
    - inversion H0; subst. split; [assumption|]. split; [assumption|]. exists t. auto.
    - unfold tyi in Ht1. destruct (mget m1 t) as [[n1 k1 d1 ms1 ifs1 rs1 ds1| | | |]|]; try discriminate.
      inversion Ht1; subst n1 k1.
      destruct (tnr_alloc m1 (OType n k d1 ms' ifs1 rs1 ds1) I1) as (I2 & R2).
      unfold alloc in H0, I2, R2. simpl in I2, R2. inversion H0; subst m' r.
      split; [assumption|]. split; [eapply tnr_trans; eauto|]. exists (m_next m1). split; [reflexivity|].
      split; [unfold tyi, mget; simpl; rewrite N.eqb_refl; reflexivity|right; exact (proj1 R1)]. }
  destruct k; [inversion H; subst; apply Hsame; reflexivity|apply (Hgen _ Hfd H)|apply (Hgen _ Hfd H)|
               inversion H; subst; apply Hsame; reflexivity|apply (Hgen _ Hen H)|apply (Hgen _ Hin H)].
Qed.

Section Vis.
Variable p : vis_preds.

Lemma by_name_tn pred : hook_tn (by_name pred).
Proof.
  intros m x m' r Hi H. unfold by_name in H. destruct (oname m x); [|discriminate].
  inversion H; subst. split; [assumption|apply tnr_refl].
Qed.

Lemma vis_inf_pre_tn : hook_tn (vis_inf_pre p).
Proof.
  intros m x m' r Hi H. unfold vis_inf_pre in H.
  destruct (mget m x) as [[| | | |]|]; try discriminate. inversion H; subst. split; [assumption|apply tnr_refl].
Qed.

Lemma vis_members_tn : hook_tn (visit_field (vis_visitor p)) /\ hook_tn (visit_inf (vis_visitor p))
                       /\ hook_tn (visit_env (vis_visitor p)).
Proof.
  assert (Ha : hook_tn (visit_arg (vis_visitor p))).
  { apply hook_tn_hseq; simpl; [apply by_name_tn|apply hook_tn_hid|apply hook_tn_hid]. }
  split; [|split].
  - apply hook_tn_hseq; simpl; [apply hook_tn_hid|apply base_field_tn; exact Ha|apply hook_tn_hid].
  - apply hook_tn_hseq; simpl; [apply vis_inf_pre_tn|apply hook_tn_hid|apply hook_tn_hid].
  - apply hook_tn_hseq; simpl; [apply by_name_tn|apply hook_tn_hid|apply hook_tn_hid].
Qed.

(* the pre hook: rejects an invisible object / interface, otherwise filters members in place *)
Lemma vis_type_pre_spec m o m1 r1 n k :
  vinv m -> tyi m o = Some (n, k) -> is_builtin o = false -> vis_type_pre p m o = Some (m1, r1) ->
  vinv m1 /\ tnr m m1 /\
  match k with
  | Kobject | Kinterface => if vp_type p n then r1 = Some o else r1 = None
  | _ => r1 = Some o
  end.
Proof.
  intros Hi Ht Hb Hp. unfold vis_type_pre in Hp. unfold tyi in Ht.
  destruct (mget m o) as [[n0 k0 d ms ifs rs ds| | | |]|] eqn:Hg; try discriminate. inversion Ht; subst n0 k0.
  assert (Hvis : type_visible p m o = vp_type p n).
  { unfold type_visible, tname. rewrite Hb, Hg. reflexivity. }
  assert (Hw : forall ms', vinv (if oids_eqb ms' ms then m else write m o (OType n k d ms' ifs rs ds)) /\
                          tnr m (if oids_eqb ms' ms then m else write m o (OType n k d ms' ifs rs ds))).
  { intros ms'. destruct (oids_eqb ms' ms); [split; [assumption|apply tnr_refl]|].
    split; [split; [eapply fresh_write; [exact (proj1 Hi)|exact Hg]|exact (proj2 Hi)]|].
    split; [simpl; lia|]. split.
    - intros x i Hx. unfold tyi in *. rewrite mget_write.
      destruct (N.eqb_spec x o) as [->|]; [|assumption]. rewrite Hg in Hx. exact Hx.
    - intros x w Hx Hty. rewrite mget_write. destruct (N.eqb_spec x o) as [->|]; [|assumption].
      unfold tyi in Hty. rewrite Hg in Hty. discriminate. }
  destruct k; try (inversion Hp; subst; split; [assumption|split; [apply tnr_refl|reflexivity]]).
  - rewrite Hvis in Hp. destruct (vp_type p n); inversion Hp; subst.
    + destruct (Hw (filter_by_name m (vp_field p n) ms)). split; [assumption|split; [assumption|reflexivity]].
    + split; [assumption|split; [apply tnr_refl|reflexivity]].
  - rewrite Hvis in Hp. destruct (vp_type p n); inversion Hp; subst.
    + destruct (Hw (filter_by_name m (vp_field p n) ms)). split; [assumption|split; [assumption|reflexivity]].
    + split; [assumption|split; [apply tnr_refl|reflexivity]].
  - inversion Hp; subst. destruct (Hw (filter_by_name m (vp_inf p n) ms)). split; [assumption|split; [assumption|reflexivity]].
Qed.

(* on_object / on_interface / ... of the visibility transform return None
   exactly for the rejected types *)
Lemma vis_visit_type m o m' r n :
  vinv m -> tname m o = Some n -> is_builtin o = false ->
  visit_type (vis_visitor p) m o = Some (m', r) ->
  vinv m' /\ tnr m m' /\ (vp_type p n = false -> r = None) /\ (forall y, r = Some y -> vp_type p n = true).
Proof.
  intros Hi Ht Hb H. destruct (tname_tyi _ _ _ Ht) as (k & Hty).
  change (visit_type (vis_visitor p) m o) with (hseq (vis_type_pre p) (base_type (vis_visitor p)) (vis_type_post p) m o) in H.
  unfold hseq in H. destruct vis_members_tn as (Hfd & Hin & Hen).
  destruct (vis_type_pre p m o) as [[m1 r1]|] eqn:Ep; [|discriminate].
  destruct (vis_type_pre_spec _ _ _ _ _ _ Hi Hty Hb Ep) as (I1 & R1 & Hr1).
  destruct r1 as [o1|].
  - assert (o1 = o /\ (k = Kobject \/ k = Kinterface -> vp_type p n = true)).
    { destruct k; try (inversion Hr1; subst; split; [reflexivity|intros [Hc|Hc]; discriminate]);
        (destruct (vp_type p n); [inversion Hr1; auto|discriminate]). }
    destruct H0 as (-> & Hoi).
    pose proof (proj1 (proj2 R1) _ _ Hty) as Hty1.
    destruct (base_type (vis_visitor p) m1 o) as [[m2 r2]|] eqn:Eb; [|discriminate].
    destruct (base_type_tn _ Hfd Hin Hen _ _ _ _ _ I1 Hty1 Eb) as (I2 & R2 & y & -> & Hty2 & Hy).
    unfold vis_type_post in H. destruct (tyi_tname _ _ _ _ Hty2) as (Hn2 & Hk2). rewrite Hk2 in H.
    assert (Hyb : is_builtin y = false).
    { destruct Hy as [->|Hy]; [assumption|]. unfold is_builtin. destruct I1 as [_ I1].
      apply andb_false_iff. right. apply N.leb_gt. destruct R1. lia. }
    assert (Hvis : type_visible p m2 y = vp_type p n) by (unfold type_visible; rewrite Hyb, Hn2; reflexivity).
    assert (R : tnr m m2) by (eapply tnr_trans; eauto).
    destruct k; try (rewrite Hvis in H; inversion H; subst; split; [assumption|]; split; [assumption|];
                     destruct (vp_type p n); split; intros; try discriminate; reflexivity);
      (inversion H; subst; split; [assumption|]; split; [assumption|];
       rewrite (Hoi (ltac:(auto))); split; intros; [discriminate|reflexivity]).
  - inversion H; subst. split; [assumption|]. split; [assumption|]. split; [reflexivity|]. intros y Hy; discriminate.
Qed.

End Vis.

Lemma tnr_tname m m' o n : tnr m m' -> tname m o = Some n -> tname m' o = Some n.
Proof.
  intros (_ & R & _) Ht. destruct (tname_tyi _ _ _ Ht) as (k & Hty). exact (proj1 (tyi_tname _ _ _ _ (R _ _ Hty))).
Qed.

Lemma vis_traverse_removed p : forall l m m' ups,
  vinv m -> (forall n o, In (n, o) l -> tname m o = Some n) ->
  traverse_list (visit_type (vis_visitor p)) is_builtin m l = Some (m', ups) ->
  forall n o, In (n, o) l -> is_builtin o = false -> vp_type p n = false -> In (n, None) ups.
Proof.
  induction l as [|[n0 o0] l IH]; intros m m' ups Hi Hnames H n o Hin Hb Hv; simpl in H; [destruct Hin|].
  destruct (is_builtin o0) eqn:Hb0.
  - destruct Hin as [Heq|Hin]; [inversion Heq; subst; congruence|].
    eapply IH; eauto. intros; apply Hnames; right; assumption.
  - destruct (visit_type (vis_visitor p) m o0) as [[m1 r]|] eqn:Hv0; [|discriminate].
    destruct (traverse_list (visit_type (vis_visitor p)) is_builtin m1 l) as [[m2 ups']|] eqn:Hl; [|discriminate].
    inversion H; subst m' ups; clear H.
    destruct (vis_visit_type p _ _ _ _ _ Hi (Hnames n0 o0 (or_introl eq_refl)) Hb0 Hv0) as (I1 & R1 & Hnone & _).
    destruct Hin as [Heq|Hin].
    + inversion Heq; subst n0 o0. rewrite (Hnone Hv). simpl. left; reflexivity.
    + assert (Hrest : In (n, None) ups').
      { eapply IH; [exact I1| |exact Hl|exact Hin|exact Hb|exact Hv].
        intros n1 o1 Hin1. eapply tnr_tname; [exact R1|]. apply Hnames. right; assumption. }
      destruct (ooid_eqb r (Some o0)); [assumption|right; assumption].
Qed.

(* VisibilitySchemaTransform: whatever the healing loop rebuilds, the types
   registered afterwards are types that were registered before, and each is a
   specified scalar or accepted by is_type_visible *)
Theorem vis_types_removed fuel p m s m' s' :
  fresh_ok m -> builtins_ok m -> NoDup (map fst (s_types s)) ->
  (forall n o, In (n, o) (s_types s) -> tname m o = Some n) ->
  on_schema fuel (vis_visitor p) m s = Ok (m', s') ->
  forall n, In n (map fst (s_types s')) ->
    exists o, In (n, o) (s_types s) /\ (is_builtin o = true \/ vp_type p n = true).
Proof.
  intros Hf Hb Hnd Hnames H n Hk.
  assert (Hi : vinv m).
  { split; [assumption|]. destruct (N.lt_ge_cases 5 (m_next m)) as [Hlt|Hle]; [assumption|].
    pose proof (Hb (str_of_string "ID") 5) as Hg. rewrite (Hf 5 Hle) in Hg.
    exfalso. assert (Hin : In (str_of_string "ID", 5) builtin_types) by (simpl; auto 10).
    specialize (Hg Hin). discriminate. }
  unfold on_schema, traverse in H.
  destruct (traverse_list (visit_type (vis_visitor p)) is_builtin m (s_types s)) as [[m1 tu]|] eqn:Ht; [|discriminate].
  destruct (traverse_list (visit_dir (vis_visitor p)) (fun _ => false) m1 (s_dirs s)) as [[m2 du]|] eqn:Hd; [|discriminate].
  destruct (replace_and_heal_ok_rt _ _ _ _ _ _ H) as (tm1 & b & Hrt).
  pose proof (replace_and_heal_keys _ _ _ _ _ _ _ _ _ Hrt H n Hk) as Hk1.
  pose proof (replace_types_keys _ _ _ _ _ _ Hrt n Hk1) as Hk0.
  apply in_map_iff in Hk0. destruct Hk0 as ([n0 o] & Hn0 & Hin). simpl in Hn0; subst n0.
  exists o. split; [assumption|].
  destruct (is_builtin o) eqn:Hbo; [left; reflexivity|right].
  destruct (vp_type p n) eqn:Hv; [reflexivity|exfalso].
  pose proof (vis_traverse_removed p _ _ _ _ Hi Hnames Ht n o Hin Hbo Hv) as Hrem.
  destruct (traverse_list_keys _ _ _ _ _ _ Hnd Ht) as (Hndu & _).
  exact (removed_stays_removed _ _ _ _ _ _ _ _ Hnd Hndu Hrem H Hk).
Qed.
