(* C14 -- proofs about the store model, part 16: completeness of the
   visibility transform.  Every member (argument) of a source type that has no
   descendant in the result was rejected by a predicate or refers to a type
   that was removed.  [cov K D l srcs]: every source element is excused by K
   or has a D-descendant in l. *)
From PyGql Require Import Spec.StoreExtSpec Proofs.StoreProofs Proofs.StoreHeal Proofs.StoreLoop
     Proofs.StoreFrame Proofs.StoreClone Proofs.StoreOps Proofs.StoreTerm Proofs.StoreVis Proofs.StoreVisM
     Proofs.StoreCloneP Proofs.StoreDesc Proofs.StoreXform Proofs.StoreGen.
Local Open Scope N_scope.
Notation vpres := StoreVisM.pres.

Definition cov (K : oid -> Prop) (Dr : oid -> oid -> Prop) (l srcs : list oid) : Prop :=
  forall s, In s srcs -> K s \/ exists y, In y l /\ Dr y s.

Lemma cov_impl (K : oid -> Prop) (Dr Dr' : oid -> oid -> Prop) l srcs :
  (forall y s, Dr y s -> Dr' y s) -> cov K Dr l srcs -> cov K Dr' l srcs.
Proof. intros H C s Hs. destruct (C s Hs) as [A|(y & A & B)]; [left; assumption|right; exists y; auto]. Qed.

Lemma cov_filter (K : oid -> Prop) (Dr : oid -> oid -> Prop) (f : oid -> bool) l srcs :
  (forall y s, In y l -> Dr y s -> f y = false -> K s) -> cov K Dr l srcs -> cov K Dr (filter f l) srcs.
Proof.
  intros H C s Hs. destruct (C s Hs) as [A|(y & A & B)]; [left; assumption|].
  destruct (f y) eqn:E; [right; exists y; split; [apply filter_In; auto|assumption]|left; eapply H; eauto].
Qed.

Lemma cov_F2 (K : oid -> Prop) (Dr : oid -> oid -> Prop) l srcs : Forall2 (fun s y => Dr y s) srcs l -> cov K Dr l srcs.
Proof.
  induction 1 as [|s y srcs l Hd Hf IH]; intros s0 Hs; [destruct Hs|].
  destruct Hs as [->|Hs]; [right; exists y; split; [left; reflexivity|assumption]|].
  destruct (IH s0 Hs) as [A|(y0 & A & B)]; [left; assumption|right; exists y0; split; [right; assumption|assumption]].
Qed.

(* map_and_filter: a dropped element is excused *)
Section MapFilterCov.
Variables (I : mem -> Prop) (R : mem -> mem -> Prop).
Hypothesis R_refl : forall m, R m m.
Hypothesis R_trans : forall a b c, R a b -> R b c -> R a c.

Lemma map_filter_cov (f : hook) (E Din Dout : mem -> oid -> oid -> Prop) (K : oid -> Prop) :
  (forall m x s m' r, I m -> E m x s -> f m x = Some (m', r) -> I m' /\ R m m') ->
  (forall m x s m' r, I m -> Din m x s -> f m x = Some (m', r) -> forall y, r = Some y -> Dout m' y s) ->
  (forall m x s m', I m -> Din m x s -> f m x = Some (m', None) -> K s) ->
  (forall a b y z, R a b -> E a y z -> E b y z) ->
  (forall a b y z, R a b -> Din a y z -> Din b y z) ->
  (forall a b y z, R a b -> Dout a y z -> Dout b y z) ->
  forall l m m' rs, I m -> (forall x, In x l -> exists s, E m x s) -> map_filter f m l = Some (m', rs) ->
    I m' /\ R m m' /\ forall x s, In x l -> Din m x s -> K s \/ exists y, In y rs /\ Dout m' y s.
Proof.
  intros Hf Hs Hn HE HDi HDo. induction l as [|x l IH]; intros m m' rs Hi Hex H; simpl in H.
  - inversion H; subst. split; [assumption|]. split; [apply R_refl|]. intros x s [].
  - destruct (f m x) as [[m1 r]|] eqn:Hfx; [|discriminate].
    destruct (map_filter f m1 l) as [[m2 rs']|] eqn:Hr; [|discriminate].
    inversion H; subst m' rs; clear H.
    destruct (Hex x (or_introl eq_refl)) as (sx & Hsx).
    destruct (Hf _ _ _ _ _ Hi Hsx Hfx) as (I1 & R1).
    assert (Hex1 : forall x0, In x0 l -> exists s, E m1 x0 s).
    { intros x0 Hx0. destruct (Hex x0 (or_intror Hx0)) as (s0 & A). exists s0. eapply HE; eauto. }
    destruct (IH _ _ _ I1 Hex1 Hr) as (I2 & R2 & C2).
    split; [assumption|]. split; [eapply R_trans; eauto|].
    intros x0 s [->|Hx0] Hd.
    + pose proof (Hs _ _ _ _ _ Hi Hd Hfx) as Q1. destruct r as [y|].
      * right. exists y. split; [left; reflexivity|]. eapply HDo; [exact R2|]. apply Q1. reflexivity.
      * left. exact (Hn _ _ _ _ Hi Hd Hfx).
    + destruct (C2 x0 s Hx0 (HDi _ _ _ _ R1 Hd)) as [A|(y & A & B)]; [left; assumption|].
      right. exists y. split; [|assumption]. destruct r; [right; assumption|assumption].
Qed.

Lemma map_filter_cov' (f : hook) (E Din Dout : mem -> oid -> oid -> Prop) (K : oid -> Prop) :
  (forall m x s m' r, I m -> E m x s -> f m x = Some (m', r) -> I m' /\ R m m') ->
  (forall m x s m' r, I m -> Din m x s -> f m x = Some (m', r) -> forall y, r = Some y -> Dout m' y s) ->
  (forall m x s m', I m -> Din m x s -> f m x = Some (m', None) -> K s) ->
  (forall a b y z, R a b -> E a y z -> E b y z) ->
  (forall a b y z, R a b -> Din a y z -> Din b y z) ->
  (forall a b y z, R a b -> Dout a y z -> Dout b y z) ->
  forall l srcs m m' rs, I m -> (forall x, In x l -> exists s, E m x s) -> cov K (Din m) l srcs ->
    map_filter f m l = Some (m', rs) -> I m' /\ R m m' /\ cov K (Dout m') rs srcs.
Proof.
  intros Hf Hs Hn HE HDi HDo l srcs m m' rs Hi Hex C H.
  destruct (map_filter_cov f E Din Dout K Hf Hs Hn HE HDi HDo _ _ _ _ Hi Hex H) as (A & B & Q).
  split; [assumption|]. split; [assumption|].
  intros s Hin. destruct (C s Hin) as [A1|(x & A1 & B1)]; [left; assumption|]. exact (Q x s A1 B1).
Qed.
End MapFilterCov.

Lemma subseq_exists D l srcs : subseq D l srcs -> forall x, In x l -> exists s, D x s.
Proof.
  induction 1 as [|s srcs l Hs IH|y s l srcs Hd Hs IH]; intros x Hx; [destruct Hx|auto|].
  destruct Hx as [->|Hx]; [exists s; assumption|auto].
Qed.

(* ------------------------------------------------------------ the relation *)
Section VisC.
Variable src : oid -> option obj.
Variable p : vis_preds.
Variable live : str -> Prop.          (* the names registered in the end *)
Notation D := (desc src (fun n => n)).
Notation MD := (mdesc src (fun n => n)).

Definition sname (s : oid) : option str :=
  match src s with
  | Some (OField n _ _ _ _ _ _ _ _) | Some (OInput _ n _ _ _ _ _) | Some (OEnumV n _ _ _ _) => Some n
  | _ => None
  end.
Definition soty (s : oid) : option tref := match src s with Some v => oty v | None => None end.
(* the element was rejected by a predicate on its name *)
Definition rejected (pred : str -> bool) (s : oid) : Prop := exists nm, sname s = Some nm /\ pred nm = false.
(* the type the element refers to is not registered in the end / is hidden *)
Definition tgone (s : oid) : Prop :=
  exists ts, soty s = Some ts /\ forall nm, stname src (unwrap ts) = Some nm -> ~ live nm.
Definition thidden (s : oid) : Prop :=
  exists ts nm, soty s = Some ts /\ stname src (unwrap ts) = Some nm /\ vp_type p nm = false.
Definition Ka (s : oid) : Prop := rejected (vp_arg p) s \/ tgone s.
Definition Km (n : str) (k : kind) (s : oid) : Prop :=
  match k with
  | Kobject | Kinterface => rejected (vp_field p n) s \/ tgone s
  | Kinput => rejected (vp_inf p n) s \/ thidden s \/ tgone s
  | Kenum => rejected (vp_env p) s
  | _ => False
  end.

Definition cdesc (M : mem) (y s : oid) : Prop :=
  MD M y s /\ cov Ka (D M) (oargs M y) (sargs src s).
Definition ctd (M : mem) (n : str) (o t : oid) : Prop :=
  exists k d ms ifs r ds ms' ifs',
    src t = Some (OType n k d ms ifs r ds) /\ mget M o = Some (OType n k d ms' ifs' r ds) /\
    subseq (MD M) ms' ms /\ cov (Km n k) (cdesc M) ms' ms.

Lemma cdesc_keep M M' y s : keepm M M' -> cdesc M y s -> cdesc M' y s.
Proof.
  intros K [A B]. split; [eapply mdesc_keep; eauto|]. rewrite (oargs_keep src _ M M' y s K (proj1 A)).
  eapply cov_impl; [|exact B]. intros a sa. apply desc_keep. exact K.
Qed.

Lemma ctd_exists M n o t : ctd M n o t -> exists v, mget M o = Some v.
Proof. intros (k & d & ms & ifs & r & ds & ms' & ifs' & _ & Ho & _). eauto. Qed.

Lemma ctd_keep m m' n y t v :
  tnr m m' -> mget m y = Some v -> mget m' y = Some v -> ctd m n y t -> ctd m' n y t.
Proof.
  intros R Hg Hg' (k & d & ms & ifs & r & ds & ms' & ifs' & Hs & Ho & Hm & Hc).
  exists k, d, ms, ifs, r, ds, ms', ifs'. split; [assumption|]. rewrite Hg in Ho. split; [rewrite Hg'; exact Ho|]. split.
  - eapply subseq_impl; [|exact Hm]. intros a b. apply mdesc_keep. apply tnr_keepm. exact R.
  - eapply cov_impl; [|exact Hc]. intros a b. apply cdesc_keep. apply tnr_keepm. exact R.
Qed.

Lemma ctd_ext tm m m' n o t : ext tm m m' -> ctd m n o t -> ctd m' n o t.
Proof.
  intros He (k & d & ms & ifs & r & ds & ms' & ifs' & Hs & Ho & Hm & Hc).
  destruct (proj2 He o _ Ho) as (v' & Hg' & Hr).
  destruct v' as [n2 k2 d2 ms2 ifs2 r2 ds2| | | |]; simpl in Hr; try contradiction.
  destruct Hr as (-> & -> & -> & _ & -> & -> & ->).
  exists k, d, ms, ifs, r, ds, ms', ifs2. split; [assumption|]. split; [assumption|]. split.
  - eapply subseq_impl; [|exact Hm]. intros a b. apply mdesc_keep. apply (ext_keepm tm). exact He.
  - eapply cov_impl; [|exact Hc]. intros a b. apply cdesc_keep. apply (ext_keepm tm). exact He.
Qed.

(* an element and its source carry the same name *)
Lemma desc_oname M x s : D M x s -> exists nm, oname M x = Some nm /\ sname s = Some nm.
Proof.
  intros (vs & vy & Hs & Hy & Hc & _). unfold oname, sname. rewrite Hs, Hy.
  destruct vs, vy; simpl in Hc; try contradiction.
  - destruct Hc as (-> & _). eauto.
  - destruct Hc as (_ & -> & _). eauto.
  - inversion Hc; subst. eauto.
Qed.

Lemma by_name_none pred m x m' : by_name pred m x = Some (m', None) -> exists nm, oname m x = Some nm /\ pred nm = false.
Proof.
  unfold by_name. destruct (oname m x) as [nm|]; [|discriminate]. destruct (pred nm) eqn:E; [discriminate|].
  intros _. exists nm. auto.
Qed.

Lemma by_name_rejected pred m x s m' : D m x s -> by_name pred m x = Some (m', None) -> rejected pred s.
Proof.
  intros Hd H. destruct (by_name_none _ _ _ _ H) as (nm & A & B). destruct (desc_oname _ _ _ Hd) as (nm' & C & E).
  exists nm. split; [congruence|assumption].
Qed.

(* ------------------------------------------- the visibility pass: reasons *)
Lemma vis_arg_none m x s m' :
  vinv m -> D m x s -> visit_arg (vis_visitor p) m x = Some (m', None) -> Ka s.
Proof.
  intros _ Hd H. unfold visit_arg, hseq in H. simpl in H.
  destruct (by_name (vp_arg p) m x) as [[m1 ro]|] eqn:E; [|discriminate].
  destruct ro as [o1|]; [unfold hid in H; discriminate|]. left. eapply by_name_rejected; eauto.
Qed.

Lemma vis_env_none m x s m' :
  vinv m -> MD m x s -> visit_env (vis_visitor p) m x = Some (m', None) -> rejected (vp_env p) s.
Proof.
  intros _ [Hd _] H. unfold visit_env, hseq in H. simpl in H.
  destruct (by_name (vp_env p) m x) as [[m1 ro]|] eqn:E; [|discriminate].
  destruct ro as [o1|]; [unfold hid in H; discriminate|]. eapply by_name_rejected; eauto.
Qed.

Lemma vis_inf_none m x s m' :
  vinv m -> MD m x s -> visit_inf (vis_visitor p) m x = Some (m', None) -> thidden s \/ tgone s.
Proof.
  intros _ [(vs & vy & Hs & Hy & Hc & Hl) _] H. unfold visit_inf, hseq in H. simpl in H.
  unfold vis_inf_pre in H. rewrite Hy in H.
  destruct vy as [| |ia nn py ty df dd dss| |]; try discriminate.
  destruct (type_visible p m (unwrap ty)) eqn:Hv; [unfold hid in H; discriminate|].
  unfold type_visible in Hv. apply Bool.orb_false_iff in Hv. destruct Hv as [_ Hv].
  destruct (tname m (unwrap ty)) as [nm|] eqn:Hn; [|discriminate].
  destruct vs as [| |sa sn spy ts sdf sd sds| |]; simpl in Hc; try contradiction.
  unfold tylk in Hl. simpl in Hl. destruct Hl as (_ & Hl).
  assert (Hso : soty s = Some ts) by (unfold soty; rewrite Hs; reflexivity).
  destruct (stname src (unwrap ts)) as [nm'|] eqn:Hst.
  - left. exists ts, nm'. split; [assumption|]. split; [assumption|]. rewrite (Hl nm' eq_refl) in Hn. inversion Hn; subst. exact Hv.
  - right. exists ts. split; [assumption|]. intros nm0 Hnm0. rewrite Hst in Hnm0. discriminate.
Qed.

Lemma D_pres' a b y t : vpres a b -> D a y t -> D b y t.
Proof. intros P. apply desc_keep. apply pres_keepm. exact P. Qed.
Lemma cdesc_pres a b y t : vpres a b -> cdesc a y t -> cdesc b y t.
Proof. intros P. apply cdesc_keep. apply pres_keepm. exact P. Qed.

Lemma vis_field_c m x s m' r :
  vinv m -> cdesc m x s -> visit_field (vis_visitor p) m x = Some (m', r) ->
  vinv m' /\ vpres m m' /\ (forall y, r = Some y -> cdesc m' y s).
Proof.
  intros Hi [Hd Hc] H. destruct (vis_field_desc src p _ _ _ _ _ Hi Hd H) as (I' & R' & HMD).
  split; [assumption|]. split; [assumption|]. intros y ->. split; [apply HMD; reflexivity|].
  unfold visit_field, hseq in H. simpl in H. unfold hid in H at 1.
  destruct (base_field (vis_visitor p) m x) as [[m2 ro]|] eqn:Hb; [|discriminate].
  destruct ro as [y2|]; [|discriminate]. unfold hid in H. inversion H; subst m2 y2. clear H.
  unfold base_field in Hb. destruct (mget m x) as [v|] eqn:Hv; [|discriminate].
  destruct v as [|nf py ty args d dp rs sb ds| | |]; try discriminate.
  assert (Hargs : cov Ka (D m) args (sargs src s)) by (unfold oargs in Hc; rewrite Hv in Hc; exact Hc).
  assert (Hex : forall a, In a args -> exists sa, D m a sa).
  { destruct Hd as [_ Ha]. unfold oargs in Ha. rewrite Hv in Ha. exact (subseq_exists _ _ _ Ha). }
  destruct (map_filter (visit_arg (vis_visitor p)) m args) as [[m1 args']|] eqn:Hmf; [|discriminate].
  destruct (map_filter_cov' vinv vpres pres_refl pres_trans _ (desc src (fun n => n)) (desc src (fun n => n)) (desc src (fun n => n)) Ka
                (fun m0 x0 s0 m0' r0 A B C => let (a, b) := vis_arg_desc src p m0 x0 s0 m0' r0 A B C in conj a (proj1 b))
                (fun m0 x0 s0 m0' r0 A B C => proj2 (proj2 (vis_arg_desc src p m0 x0 s0 m0' r0 A B C)))
                vis_arg_none D_pres' D_pres' D_pres' _ _ _ _ _ Hi Hex Hargs Hmf) as (Hi1 & R1 & Hq).
  pose proof (proj2 R1 x _ Hv) as Hg1.
  destruct (oids_eqb args' args) eqn:Heq.
  - inversion Hb; subst m' y. apply oids_eqb_eq in Heq. subst args'. unfold oargs. rewrite Hg1. exact Hq.
  - rewrite Hg1 in Hb. destruct (pres_alloc m1 (OField nf py ty args' d dp rs sb ds) Hi1) as (Hi2 & R2).
    unfold alloc in Hb, Hi2, R2. simpl in Hi2, R2. inversion Hb; subst m' y.
    unfold oargs, mget; simpl. rewrite N.eqb_refl.
    eapply cov_impl; [|exact Hq]. intros a b. apply D_pres'. exact R2.
Qed.

Lemma vis_field_none m x s m' :
  vinv m -> cdesc m x s -> visit_field (vis_visitor p) m x = Some (m', None) -> False.
Proof.
  intros _ _ H. unfold visit_field, hseq in H. simpl in H. unfold hid in H at 1.
  destruct (base_field (vis_visitor p) m x) as [[m2 ro]|] eqn:Hb; [|discriminate].
  destruct ro as [y2|]; [unfold hid in H; discriminate|].
  unfold base_field in Hb. destruct (mget m x) as [[|nf py ty args d dp rs sb ds| | |]|]; try discriminate.
  destruct (map_filter (visit_arg (vis_visitor p)) m args) as [[m1 args']|]; [|discriminate].
  destruct (oids_eqb args' args); [discriminate|].
  destruct (mget m1 x) as [[|? ? ? ? ? ? ? ? ?| | |]|]; discriminate.
Qed.

(* leaves: input fields and enum values carry no arguments *)
Lemma cdesc_of_MD_same m m' x s : MD m' x s -> cdesc m x s -> oargs m' x = oargs m x ->
  (forall a sa, D m a sa -> D m' a sa) -> cdesc m' x s.
Proof.
  intros A [_ B] E HD. split; [assumption|]. rewrite E. eapply cov_impl; [|exact B]. intros a sa. apply HD.
Qed.

Lemma vis_inf_c m x s m' r :
  vinv m -> cdesc m x s -> visit_inf (vis_visitor p) m x = Some (m', r) ->
  vinv m' /\ vpres m m' /\ (forall y, r = Some y -> cdesc m' y s).
Proof.
  intros Hi Hd H. unfold visit_inf, hseq in H. simpl in H.
  unfold vis_inf_pre in H. destruct (mget m x) as [[| |ia nn py ty df dd dss| |]|]; try discriminate.
  destruct (type_visible p m (unwrap ty)); unfold hid in H; inversion H; subst;
    (split; [assumption|]; split; [apply pres_refl|]; intros y Hy; inversion Hy; subst). assumption.
Qed.

Lemma vis_env_c m x s m' r :
  vinv m -> cdesc m x s -> visit_env (vis_visitor p) m x = Some (m', r) ->
  vinv m' /\ vpres m m' /\ (forall y, r = Some y -> cdesc m' y s).
Proof.
  intros Hi Hd H. unfold visit_env, hseq in H. simpl in H.
  destruct (by_name (vp_env p) m x) as [[m1 ro]|] eqn:E; [|discriminate].
  destruct (by_name_good _ _ _ _ _ E) as (-> & C).
  destruct ro as [o1|]; unfold hid in H; inversion H; subst; (split; [assumption|]; split; [apply pres_refl|]).
  - intros y Hy. inversion Hy; subst. destruct (C y eq_refl) as (_ & ->). assumption.
  - intros y Hy; discriminate.
Qed.

(* the pre hook keeps the type object but for a filtered member list; what is
   filtered out was rejected by the field / input field predicate *)
Definition mpred (n : str) (k : kind) (nm : str) : bool :=
  match k with Kobject | Kinterface => vp_field p n nm | Kinput => vp_inf p n nm | _ => true end.

Lemma vis_type_pre_reason m o m1 n k d ms ifs r ds :
  mget m o = Some (OType n k d ms ifs r ds) -> vis_type_pre p m o = Some (m1, Some o) ->
  exists f, mget m1 o = Some (OType n k d (filter f ms) ifs r ds) /\
    forall x, f x = false -> match oname m x with Some nm => mpred n k nm = false | None => True end.
Proof.
  intros Hg Ep. unfold vis_type_pre in Ep. rewrite Hg in Ep.
  assert (Hw : forall q, exists f,
            mget (if oids_eqb (filter_by_name m q ms) ms then m else write m o (OType n k d (filter_by_name m q ms) ifs r ds)) o
              = Some (OType n k d (filter f ms) ifs r ds) /\
            forall x, f x = false -> match oname m x with Some nm => q nm = false | None => True end).
  { intros q. exists (fun o0 => match oname m o0 with Some n0 => q n0 | None => false end). split.
    - destruct (oids_eqb (filter_by_name m q ms) ms) eqn:Heq.
      + apply oids_eqb_eq in Heq. unfold filter_by_name in Heq. rewrite Heq. exact Hg.
      + rewrite mget_write, N.eqb_refl. reflexivity.
    - intros x Hx. destruct (oname m x); [exact Hx|exact I]. }
  assert (Hid : exists f, mget m o = Some (OType n k d (filter f ms) ifs r ds) /\
            forall x, f x = false -> match oname m x with Some nm => mpred n k nm = false | None => True end).
  { exists (fun _ => true). split; [|intros x Hx; discriminate]. rewrite Hg. f_equal. f_equal. clear. induction ms; simpl; congruence. }
  destruct k; try (inversion Ep; subst; exact Hid).
  - destruct (type_visible p m o); inversion Ep; subst. apply (Hw (vp_field p n)).
  - destruct (type_visible p m o); inversion Ep; subst. apply (Hw (vp_field p n)).
  - inversion Ep; subst. apply (Hw (vp_inf p n)).
Qed.

Lemma MD_pres' a b y t : vpres a b -> MD a y t -> MD b y t.
Proof. intros P. apply mdesc_keep. apply pres_keepm. exact P. Qed.

Lemma vis_base_type_c m1 o m2 y2 n k d ms' ifs r ds ms :
  vinv m1 -> mget m1 o = Some (OType n k d ms' ifs r ds) -> subseq (MD m1) ms' ms ->
  cov (Km n k) (cdesc m1) ms' ms ->
  base_type (vis_visitor p) m1 o = Some (m2, Some y2) ->
  exists ms2 ifs2, mget m2 y2 = Some (OType n k d ms2 ifs2 r ds) /\ cov (Km n k) (cdesc m2) ms2 ms.
Proof.
  intros I1 Hg1 Hms Hc Eb. unfold base_type in Eb. rewrite Hg1 in Eb.
  assert (Hgen : forall (h : hook),
    (forall m x s m' r, vinv m -> MD m x s -> h m x = Some (m', r) ->
       vinv m' /\ vpres m m' /\ (forall y, r = Some y -> MD m' y s)) ->
    (forall m x s m' r, vinv m -> cdesc m x s -> h m x = Some (m', r) ->
       vinv m' /\ vpres m m' /\ (forall y, r = Some y -> cdesc m' y s)) ->
    (forall m x s m', vinv m -> cdesc m x s -> h m x = Some (m', None) -> Km n k s) ->
    match map_filter h m1 ms' with
    | None => None
    | Some (mx, members') =>
        if oids_eqb members' ms' then Some (mx, Some o)
        else match mget mx o with
             | Some (OType n1 k1 d1 _ ifaces r1 ds1) =>
                 let (m3, t') := alloc mx (OType n1 k1 d1 members' ifaces r1 ds1) in Some (m3, Some t')
             | _ => None
             end
    end = Some (m2, Some y2) ->
    exists ms2 ifs2, mget m2 y2 = Some (OType n k d ms2 ifs2 r ds) /\ cov (Km n k) (cdesc m2) ms2 ms).
  { intros h Hh Hhc Hhn H0. destruct (map_filter h m1 ms') as [[mx ms'']|] eqn:Hmf; [|discriminate].
    destruct (map_filter_cov' vinv vpres pres_refl pres_trans h (mdesc src (fun n0 => n0)) cdesc cdesc (Km n k)
                (fun m0 x0 s0 m0' r0 A B C => let (a, b) := Hh m0 x0 s0 m0' r0 A B C in conj a (proj1 b))
                (fun m0 x0 s0 m0' r0 A B C => proj2 (proj2 (Hhc m0 x0 s0 m0' r0 A B C)))
                Hhn MD_pres' cdesc_pres cdesc_pres _ _ _ _ _ I1 (subseq_exists _ _ _ Hms) Hc Hmf) as (Ix & Rx & Hqx).
    pose proof (proj2 Rx o _ Hg1) as Hgx.
    destruct (oids_eqb ms'' ms') eqn:Heq.
    - inversion H0; subst m2 y2. apply oids_eqb_eq in Heq. subst ms''. exists ms', ifs. split; assumption.
    - rewrite Hgx in H0. unfold alloc in H0. inversion H0; subst m2 y2.
      destruct (pres_alloc mx (OType n k d ms'' ifs r ds) Ix) as (_ & R3). unfold alloc in R3; simpl in R3.
      exists ms'', ifs. split; [unfold mget; simpl; rewrite N.eqb_refl; reflexivity|].
      eapply cov_impl; [|exact Hqx]. intros a b. apply cdesc_pres. exact R3. }
  assert (Hsame : Some (m1, Some o) = Some (m2, Some y2) ->
            exists ms2 ifs2, mget m2 y2 = Some (OType n k d ms2 ifs2 r ds) /\ cov (Km n k) (cdesc m2) ms2 ms).
  { intros H0. inversion H0; subst. exists ms', ifs. split; assumption. }
  destruct k.
  - apply Hsame; exact Eb.
  - apply (Hgen _ (vis_field_desc src p) vis_field_c); [|exact Eb]. intros m x s m' A B C. destruct (vis_field_none _ _ _ _ A B C).
  - apply (Hgen _ (vis_field_desc src p) vis_field_c); [|exact Eb]. intros m x s m' A B C. destruct (vis_field_none _ _ _ _ A B C).
  - apply Hsame; exact Eb.
  - apply (Hgen _ (vis_env_desc src p) vis_env_c); [|exact Eb]. intros m x s m' A B C. exact (vis_env_none _ _ _ _ A (proj1 B) C).
  - apply (Hgen _ (vis_inf_desc src p) vis_inf_c); [|exact Eb]. intros m x s m' A B C. right. exact (vis_inf_none _ _ _ _ A (proj1 B) C).
Qed.

Lemma vis_type_c m o m' y n t :
  vinv m -> ctd m n o t -> is_builtin o = false ->
  visit_type (vis_visitor p) m o = Some (m', Some y) -> ctd m' n y t.
Proof.
  intros Hi Hctd Hb H. pose proof Hctd as (k & d & ms & ifs & r & ds & ms' & ifs' & Hs & Ho & Hm & Hc).
  assert (HTD : tdesc src (fun n0 => n0) m n o t) by (exists k, d, ms, ifs, r, ds, ms', ifs'; auto).
  destruct (vis_type_desc src p _ _ _ _ _ _ Hi HTD Hb H) as (k2 & d2 & ms2 & ifs2 & r2 & ds2 & ms2' & ifs2' & Hs2 & Ho2 & Hm2).
  rewrite Hs in Hs2. inversion Hs2; subst k2 d2 ms2 ifs2 r2 ds2. clear Hs2.
  assert (Hty : tyi m o = Some (n, k)) by (unfold tyi; rewrite Ho; reflexivity).
  change (visit_type (vis_visitor p) m o) with (hseq (vis_type_pre p) (base_type (vis_visitor p)) (vis_type_post p) m o) in H.
  unfold hseq in H.
  destruct (vis_type_pre p m o) as [[m1 r1]|] eqn:Ep; [|discriminate].
  destruct (vis_type_pre_spec p _ _ _ _ _ _ Hi Hty Hb Ep) as (I1 & R1 & Hr1).
  destruct r1 as [o1|]; [|discriminate].
  assert (o1 = o) by (destruct k; try (inversion Hr1; reflexivity); destruct (vp_type p n); inversion Hr1; reflexivity).
  subst o1. destruct (vis_type_pre_reason _ _ _ _ _ _ _ _ _ _ Ho Ep) as (f & Hg1 & Hf).
  assert (Hms1 : subseq (MD m1) (filter f ms') ms).
  { apply subseq_filter. eapply subseq_impl; [|exact Hm]. intros a b. apply mdesc_keep. apply tnr_keepm. exact R1. }
  assert (Hc1 : cov (Km n k) (cdesc m1) (filter f ms') ms).
  { eapply cov_impl; [intros a b; apply cdesc_keep; apply tnr_keepm; exact R1|].
    apply cov_filter; [|exact Hc].
    intros x s Hx Hd Hfx. pose proof (Hf x Hfx) as Hq.
    destruct (desc_oname _ _ _ (proj1 (proj1 Hd))) as (nm & A & B). rewrite A in Hq.
    unfold mpred in Hq. destruct k; try discriminate; simpl.
    - left. exists nm. auto.
    - left. exists nm. auto.
    - left. exists nm. auto. }
  destruct (base_type (vis_visitor p) m1 o) as [[m2 r2]|] eqn:Eb; [|discriminate].
  destruct r2 as [y2|]; [|discriminate].
  destruct (vis_base_type_c _ _ _ _ _ _ _ _ _ _ _ _ I1 Hg1 Hms1 Hc1 Eb) as (ms3 & ifs3 & Hg2 & Hc2).
  unfold vis_type_post in H. destruct (tkind m2 y2) as [k2|]; [|discriminate].
  assert (Hres : m' = m2 /\ y = y2) by (destruct k2; try (destruct (type_visible p m2 y2)); inversion H; auto).
  destruct Hres as (-> & ->). rewrite Hg2 in Ho2. inversion Ho2; subst ms2' ifs2'.
  exists k, d, ms, ifs, r, ds, ms3, ifs3. auto.
Qed.

(* ------------------------------------------------ the healing pass: reasons *)
Lemma In_keys_alookup {A} k (tm : list (str * A)) : In k (map fst tm) -> alookup k tm <> None.
Proof. intros Hin Hn. exact (alookup_none_key _ _ Hn Hin). Qed.

Lemma heal_member_none tm m x s m' :
  (forall nm, live nm -> In nm (map fst tm)) -> D m x s -> heal_member tm m x = Some (m', None) -> tgone s.
Proof.
  intros HP (vs & vy & Hs & Hy & Hc & Hl) H. unfold heal_member in H. rewrite Hy in H.
  assert (Hgen : forall ts ty, soty s = Some ts ->
            (forall nm, stname src (unwrap ts) = Some nm -> tname m (unwrap ty) = Some nm) ->
            healed m tm ty = None -> tgone s).
  { intros ts ty Hso Hlk Hh. exists ts. split; [assumption|]. intros nm Hn Hlv.
    apply (healed_some tm m ty nm (Hlk nm Hn) (In_keys_alookup _ _ (HP nm Hlv))). exact Hh. }
  destruct vy as [|n py ty args d dp rs sb ds|a n py ty df d ds| |]; try discriminate.
  - destruct (healed m tm ty) as [ty'|] eqn:Hh; [discriminate|].
    destruct vs as [|sn spy ts sargs0 sd sdp srs ssb sds| | |]; simpl in Hc; try contradiction.
    unfold tylk in Hl; simpl in Hl. eapply (Hgen ts ty); [unfold soty; rewrite Hs; reflexivity|exact (proj2 Hl)|exact Hh].
  - destruct (healed m tm ty) as [ty'|] eqn:Hh; [discriminate|].
    destruct vs as [| |sa sn spy ts sdf sd sds| |]; simpl in Hc; try contradiction.
    unfold tylk in Hl; simpl in Hl. eapply (Hgen ts ty); [unfold soty; rewrite Hs; reflexivity|exact (proj2 Hl)|exact Hh].
Qed.

Lemma heal_arg_none tm m x s m' :
  (forall nm, live nm -> In nm (map fst tm)) -> inv tm m -> D m x s ->
  visit_arg (heal_visitor tm) m x = Some (m', None) -> Ka s.
Proof. intros HP _ Hd H. rewrite visit_arg_heal in H. right. eapply heal_member_none; eauto. Qed.

Lemma cdesc_ext tm a b y t : ext tm a b -> cdesc a y t -> cdesc b y t.
Proof. intros He. apply cdesc_keep. apply (ext_keepm tm). exact He. Qed.
Lemma D_ext tm a b y t : ext tm a b -> D a y t -> D b y t.
Proof. intros He. apply desc_keep. apply (ext_keepm tm). exact He. Qed.
Lemma MD_ext tm a b y t : ext tm a b -> MD a y t -> MD b y t.
Proof. intros He. apply mdesc_keep. apply (ext_keepm tm). exact He. Qed.

Lemma heal_field_c tm m x s m' r :
  (forall nm, live nm -> In nm (map fst tm)) -> inv tm m -> cdesc m x s ->
  visit_field (heal_visitor tm) m x = Some (m', r) ->
  (forall y, r = Some y -> cdesc m' y s) /\ (r = None -> tgone s).
Proof.
  intros HP Hi [Hd Hc] H.
  destruct (heal_field_desc src _ tm _ _ _ _ _ Hi Hd H) as (Hi' & He' & HMD).
  change (visit_field (heal_visitor tm) m x)
    with (match base_field (heal_visitor tm) m x with
          | None => None
          | Some (m2, None) => Some (m2, None)
          | Some (m2, Some o2) => heal_member tm m2 o2
          end) in H.
  destruct (base_field (heal_visitor tm) m x) as [[m2 ro]|] eqn:Hb; [|discriminate].
  destruct (heal_base_field_desc src _ tm _ _ _ _ _ Hi Hd Hb) as (Hi2 & He2 & y0 & -> & Hy0).
  assert (Hc2 : cov Ka (D m2) (oargs m2 y0) (sargs src s)).
  { unfold base_field in Hb. destruct (mget m x) as [v|] eqn:Hv; [|discriminate].
    destruct v as [|nf py ty args d dp rs sb ds| | |]; try discriminate.
    assert (Hargs : cov Ka (D m) args (sargs src s)) by (unfold oargs in Hc; rewrite Hv in Hc; exact Hc).
    assert (Hex : forall a, In a args -> exists sa, D m a sa).
    { destruct Hd as [_ Ha]. unfold oargs in Ha. rewrite Hv in Ha. exact (subseq_exists _ _ _ Ha). }
    destruct (map_filter (visit_arg (heal_visitor tm)) m args) as [[m1 args']|] eqn:Hmf; [|discriminate].
    destruct (map_filter_cov' (inv tm) (ext tm) (ext_refl tm) (ext_trans tm) _
                (desc src (fun n => n)) (desc src (fun n => n)) (desc src (fun n => n)) Ka
                (fun m0 x0 s0 m0' r0 A B C => let (a, b) := heal_arg_desc src _ tm m0 x0 s0 m0' r0 A B C in conj a (proj1 b))
                (fun m0 x0 s0 m0' r0 A B C => proj2 (proj2 (heal_arg_desc src _ tm m0 x0 s0 m0' r0 A B C)))
                (fun m0 x0 s0 m0' A B C => heal_arg_none tm m0 x0 s0 m0' HP A B C)
                (D_ext tm) (D_ext tm) (D_ext tm) _ _ _ _ _ Hi Hex Hargs Hmf) as (Hi1 & He1 & Hq).
    destruct (oids_eqb args' args) eqn:Heq.
    - inversion Hb; subst m2 y0. apply oids_eqb_eq in Heq. subst args'.
      rewrite (oargs_keep src _ m m1 x s (ext_keepm tm _ _ He1) (proj1 Hd)). unfold oargs. rewrite Hv. exact Hq.
    - destruct (proj2 He1 x _ Hv) as (v1 & Hg1 & Hr1). rewrite Hg1 in Hb.
      destruct v1 as [|n1 py1 ty1 a1 d1 dp1 rs1 sb1 ds1| | |]; simpl in Hr1; try contradiction.
      destruct (inv_alloc tm m1 (OField n1 py1 ty1 args' d1 dp1 rs1 sb1 ds1) Hi1) as (Hi3 & He3).
      unfold alloc in Hb. inversion Hb; subst m2 y0.
      unfold oargs, mget; simpl. rewrite N.eqb_refl.
      eapply cov_impl; [|exact Hq]. intros a b. apply (D_ext tm). exact He3. }
  destruct (heal_member_spec tm _ _ _ _ Hi2 H) as (Hi3 & He3 & _ & Hr).
  split.
  - intros y ->. destruct Hr as (-> & _ & Hargs). split; [apply HMD; reflexivity|].
    change (oargs m' y0) with (args_of m' y0). rewrite Hargs. change (args_of m2 y0) with (oargs m2 y0).
    eapply cov_impl; [|exact Hc2]. intros a b. apply (D_ext tm). exact He3.
  - intros ->. eapply heal_member_none; [exact HP|exact (proj1 Hy0)|exact H].
Qed.

Lemma heal_inf_c tm m x s m' r :
  (forall nm, live nm -> In nm (map fst tm)) -> inv tm m -> cdesc m x s ->
  visit_inf (heal_visitor tm) m x = Some (m', r) ->
  (forall y, r = Some y -> cdesc m' y s) /\ (r = None -> tgone s).
Proof.
  intros HP Hi Hd H. rewrite visit_inf_heal in H.
  destruct (heal_member_spec tm _ _ _ _ Hi H) as (Hi3 & He3 & _ & Hr). split.
  - intros y ->. destruct Hr as (-> & _). eapply cdesc_ext; eauto.
  - intros ->. eapply heal_member_none; [exact HP|exact (proj1 (proj1 Hd))|exact H].
Qed.

Lemma heal_env_c tm m x s m' r :
  inv tm m -> cdesc m x s -> visit_env (heal_visitor tm) m x = Some (m', r) ->
  (forall y, r = Some y -> cdesc m' y s) /\ (r = None -> False).
Proof.
  intros Hi Hd H. unfold visit_env, hseq, heal_visitor, hid in H; simpl in H. inversion H; subst.
  split; [intros y Hy; inversion Hy; subst; assumption|discriminate].
Qed.

(* on_<type> of the healing visitor *)
Lemma heal_type_c tm m t m' r n st :
  (forall nm, live nm -> In nm (map fst tm)) -> inv tm m -> ctd m n t st ->
  visit_type (heal_visitor tm) m t = Some (m', r) ->
  exists y, r = Some y /\ ctd m' n y st.
Proof.
  intros HP Hi Hctd H. pose proof Hctd as (k & d & ms & ifs & r0 & ds & ms' & ifs' & Hs & Ho & Hm & Hc).
  assert (HTD : tdesc src (fun n0 => n0) m n t st) by (exists k, d, ms, ifs, r0, ds, ms', ifs'; auto).
  destruct (heal_type_desc src _ tm _ _ _ _ _ _ Hi HTD H) as (y & -> & HTD').
  exists y. split; [reflexivity|].
  change (visit_type (heal_visitor tm) m t)
    with (match base_type (heal_visitor tm) m t with
          | None => None
          | Some (m2, None) => Some (m2, None)
          | Some (m2, Some o2) => heal_type tm m2 o2
          end) in H.
  destruct (base_type (heal_visitor tm) m t) as [[m2 ro]|] eqn:Hb; [|discriminate].
  destruct (base_type_spec tm _ _ _ _ Hi Hb) as (Hi2 & He2 & y2 & n2 & k2 & d2 & ms2 & ifs2 & rs2 & ds2 & -> & Hg2 & Hmg & _ & _).
  destruct (heal_type_spec tm _ _ _ _ _ _ _ _ _ _ _ Hi2 Hg2 Hmg H) as (Hi' & He' & Hy & _). inversion Hy; subst y2.
  (* coverage in m2 for the members of y *)
  assert (Hbase : cov (Km n k) (cdesc m2) ms2 ms).
  { unfold base_type in Hb. rewrite Ho in Hb.
    assert (Hgen : forall h : hook,
      (forall m x s m' r, inv tm m -> MD m x s -> h m x = Some (m', r) ->
         inv tm m' /\ ext tm m m' /\ (forall y, r = Some y -> MD m' y s)) ->
      (forall m x s m' r, inv tm m -> cdesc m x s -> h m x = Some (m', r) ->
         (forall y, r = Some y -> cdesc m' y s) /\ (r = None -> Km n k s)) ->
      match map_filter h m ms' with
      | None => None
      | Some (m1, members') =>
          if oids_eqb members' ms' then Some (m1, Some t)
          else match mget m1 t with
               | Some (OType n1 k1 d1 _ ifaces r1 ds1) =>
                   let (m3, t') := alloc m1 (OType n1 k1 d1 members' ifaces r1 ds1) in Some (m3, Some t')
               | _ => None
               end
      end = Some (m2, Some y) -> cov (Km n k) (cdesc m2) ms2 ms).
    { intros h Hh Hhc H0. destruct (map_filter h m ms') as [[m1 ms'']|] eqn:Hmf; [|discriminate].
      destruct (map_filter_cov' (inv tm) (ext tm) (ext_refl tm) (ext_trans tm) h (mdesc src (fun n0 => n0)) cdesc cdesc (Km n k)
                  (fun m0 x0 s0 m0' r0 A B C => let (a, b) := Hh m0 x0 s0 m0' r0 A B C in conj a (proj1 b))
                  (fun m0 x0 s0 m0' r0 A B C => proj1 (Hhc m0 x0 s0 m0' r0 A B C))
                  (fun m0 x0 s0 m0' A B C => proj2 (Hhc m0 x0 s0 m0' None A B C) eq_refl)
                  (MD_ext tm) (cdesc_ext tm) (cdesc_ext tm) _ _ _ _ _ Hi (subseq_exists _ _ _ Hm) Hc Hmf) as (Hi1 & He1 & Hq1).
      destruct (proj2 He1 t _ Ho) as (v1 & Hg1 & Hr1).
      destruct v1 as [n1 k1 d1 ms1 ifs1 rs1 ds1| | | |]; simpl in Hr1; try contradiction.
      destruct Hr1 as (-> & -> & -> & _ & -> & -> & ->).
      destruct (oids_eqb ms'' ms') eqn:Heq.
      - inversion H0; subst m2 y. apply oids_eqb_eq in Heq. subst ms''. rewrite Hg1 in Hg2. inversion Hg2; subst. exact Hq1.
      - rewrite Hg1 in H0.
        destruct (inv_alloc tm m1 (OType n k d ms'' ifs1 r0 ds) Hi1) as (Hi3 & He3).
        unfold alloc in H0. inversion H0; subst m2 y. clear H0.
        unfold mget in Hg2; simpl in Hg2. rewrite N.eqb_refl in Hg2. inversion Hg2; subst.
        eapply cov_impl; [|exact Hq1]. intros a b. apply (cdesc_ext tm). exact He3. }
    assert (Hsame : Some (m, Some t) = Some (m2, Some y) -> cov (Km n k) (cdesc m2) ms2 ms).
    { intros H0. inversion H0; subst. rewrite Ho in Hg2. inversion Hg2; subst. exact Hc. }
    destruct k.
    - apply Hsame; exact Hb.
    - apply (Hgen (visit_field (heal_visitor tm)) (heal_field_desc src _ tm)); [|exact Hb].
      intros m0 x0 s0 m0' r1 A B C. destruct (heal_field_c tm _ _ _ _ _ HP A B C) as (P1 & P2). split; [exact P1|intros E; right; exact (P2 E)].
    - apply (Hgen (visit_field (heal_visitor tm)) (heal_field_desc src _ tm)); [|exact Hb].
      intros m0 x0 s0 m0' r1 A B C. destruct (heal_field_c tm _ _ _ _ _ HP A B C) as (P1 & P2). split; [exact P1|intros E; right; exact (P2 E)].
    - apply Hsame; exact Hb.
    - apply (Hgen (visit_env (heal_visitor tm)) (heal_env_desc src _ tm)); [|exact Hb].
      intros m0 x0 s0 m0' r1 A B C. destruct (heal_env_c tm _ _ _ _ _ A B C) as (P1 & P2). split; [exact P1|intros E; destruct (P2 E)].
    - apply (Hgen (visit_inf (heal_visitor tm)) (heal_inf_desc src _ tm)); [|exact Hb].
      intros m0 x0 s0 m0' r1 A B C. destruct (heal_inf_c tm _ _ _ _ _ HP A B C) as (P1 & P2). split; [exact P1|intros E; right; right; exact (P2 E)]. }
  (* the type object y after heal_type: members unchanged *)
  destruct HTD' as (k3 & d3 & ms3 & ifs3 & r3 & ds3 & ms3' & ifs3' & Hs3 & Ho3 & Hm3).
  rewrite Hs in Hs3. inversion Hs3; subst k3 d3 ms3 ifs3 r3 ds3.
  destruct (proj2 He' y _ Hg2) as (v4 & Hg4 & Hr4). rewrite Ho3 in Hg4. inversion Hg4; subst v4.
  simpl in Hr4. destruct Hr4 as (_ & _ & -> & _).
  exists k, d, ms, ifs, r0, ds, ms2, ifs3'. split; [assumption|]. split; [assumption|]. split; [assumption|].
  eapply cov_impl; [|exact Hbase]. intros a b. apply (cdesc_ext tm). exact He'.
Qed.

End VisC.

Lemma tfull_ctd src p live M n o t : tfull src (fun n0 => n0) M n o t -> ctd src p live M n o t.
Proof.
  intros Hfull. pose proof (tfull_tdesc _ _ _ _ _ _ Hfull) as (k & d & ms & ifs & r & ds & ms' & ifs' & A & B & C).
  destruct Hfull as (k2 & d2 & ms2 & ifs2 & r2 & ds2 & ms2' & ifs2' & A2 & B2 & C2).
  rewrite A in A2. inversion A2; subst k2 d2 ms2 ifs2 r2 ds2. rewrite B in B2. inversion B2; subst ms2' ifs2'.
  exists k, d, ms, ifs, r, ds, ms', ifs'. split; [assumption|]. split; [assumption|]. split; [assumption|].
  apply cov_F2. eapply Forall2_impl; [|exact C2]. intros s0 y [D1 E1]. split.
  - split; [assumption|apply Forall2_subseq; exact E1].
  - apply cov_F2. exact E1.
Qed.

(* transform_schema(schema, VisibilitySchemaTransform): what is missing was
   rejected by a predicate or refers to a removed type *)
Theorem transform_vis_complete fuel p m s m' s' :
  fresh_ok m -> builtins_ok m -> closed m s -> wf_schema m s -> wf_builtins s ->
  transform fuel (vis_visitor p) m s = Ok (m', s') ->
  forall n o, In (n, o) (s_types s') -> is_builtin o = false ->
    exists t, In (n, t) (s_types s) /\
      ctd (mget m) p (fun nm => In nm (map fst (s_types s'))) m' n o t.
Proof.
  intros Hf Hb Hcl Hwf Hbi H. unfold transform in H.
  destruct (clone fuel m s) as [[m1 cl]| | |] eqn:Hc; simpl in H; try discriminate.
  destruct (clone_tfull _ _ _ _ _ Hf Hb Hcl Hwf Hbi Hc) as (Hf1 & Hb1 & Hwf1 & Hfull).
  set (live := fun nm => In nm (map fst (s_types s'))).
  apply (vis_gen p (s_types s) (ctd (mget m) p live) (fun tm => forall nm, live nm -> In nm (map fst tm))
           (fun tm tm' Hk HP nm Hl => Hk nm (HP nm Hl))
           (ctd_exists (mget m) p live) (ctd_keep (mget m) p live) (ctd_ext (mget m) p live)
           (fun tm m0 t m0' r n st HP Hi => heal_type_c (mget m) p live tm m0 t m0' r n st HP Hi)
           (vis_type_c (mget m) p live)
           fuel m1 cl m' s' Hf1 Hb1 (proj1 Hwf1) (proj2 Hwf1)); [|exact H|intros nm Hl; exact Hl].
  intros n o Hin Hbo. destruct (Hfull n o Hin Hbo) as (t & Ht & _ & Hfl). exists t. split; [assumption|].
  apply tfull_ctd. exact Hfl.
Qed.
