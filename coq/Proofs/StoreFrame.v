(* C14 -- proofs about the store model, part 4: non-interference.
   A schema that owns its objects (everything it can reach for writing lives
   at or above a watermark n0) can be visited, healed and replaced in place
   without changing any object below n0; clone builds such a schema with
   n0 = the allocation pointer before the clone. *)
From PyGql Require Import Spec.StoreSpec Proofs.StoreProofs Proofs.StoreHeal Proofs.StoreLoop.
Local Open Scope N_scope.

Definition subs (v : obj) : list oid :=
  match v with
  | OType _ _ _ ms _ _ _ => ms
  | OField _ _ _ args _ _ _ _ _ => args
  | ODir _ _ _ args => args
  | _ => []
  end.

Section Frame.
Variable n0 : oid.

Definition above (l : list oid) : Prop := Forall (fun x => n0 <= x) l.
(* objects above the watermark reach (through member and argument lists) only
   objects above the watermark *)
Definition deep (m : mem) : Prop :=
  forall o v, n0 <= o -> mget m o = Some v -> above (subs v).
Definition frame (m m' : mem) : Prop := forall o, o < n0 -> mget m' o = mget m o.

Record fr (m m' : mem) : Prop := MkFr {
  fr_frame : frame m m';
  fr_deep : deep m';
  fr_next : m_next m <= m_next m'
}.
Definition st_ok (m : mem) : Prop := deep m /\ n0 <= m_next m.

Lemma fr_refl m : deep m -> fr m m.
Proof. intros Hd. constructor; [intros o _; reflexivity|assumption|lia]. Qed.

Lemma fr_trans m m' m'' : fr m m' -> fr m' m'' -> fr m m''.
Proof.
  intros [F1 D1 N1] [F2 D2 N2]. constructor; [|assumption|lia].
  intros o Ho. rewrite (F2 o Ho). apply F1. exact Ho.
Qed.

Lemma fr_alloc m v : st_ok m -> above (subs v) -> fr m (fst (alloc m v)) /\ n0 <= m_next m.
Proof.
  intros [Hd Hn] Hv. split; [|assumption]. constructor.
  - intros o Ho. rewrite mget_alloc. destruct (N.eqb_spec o (m_next m)); [lia|reflexivity].
  - intros o w Ho. rewrite mget_alloc. destruct (N.eqb_spec o (m_next m)).
    + intros H; inversion H; subst; assumption.
    + apply Hd; assumption.
  - simpl; lia.
Qed.

Lemma fr_write m o v : st_ok m -> n0 <= o -> above (subs v) -> fr m (write m o v).
Proof.
  intros [Hd Hn] Ho Hv. constructor.
  - intros x Hx. rewrite mget_write. destruct (N.eqb_spec x o); [lia|reflexivity].
  - intros x w Hx. rewrite mget_write. destruct (N.eqb_spec x o).
    + intros H; inversion H; subst; assumption.
    + apply Hd; assumption.
  - simpl; lia.
Qed.

Lemma st_ok_fr m m' : st_ok m -> fr m m' -> st_ok m'.
Proof. intros [_ Hn] [_ D N]. split; [assumption|lia]. Qed.

(* a visitor method that respects the watermark *)
Definition hook_fr (h : hook) : Prop :=
  forall m x m' r, st_ok m -> n0 <= x -> h m x = Some (m', r) ->
    fr m m' /\ (forall y, r = Some y -> n0 <= y).

Lemma hook_fr_hid : hook_fr hid.
Proof.
  intros m x m' r [Hd Hn] Hx H. inversion H; subst. split; [apply fr_refl; assumption|].
  intros y Hy; inversion Hy; subst; assumption.
Qed.

Lemma hook_fr_hseq pre base post :
  hook_fr pre -> hook_fr base -> hook_fr post -> hook_fr (hseq pre base post).
Proof.
  intros H1 H2 H3 m x m' r Hs Hx H. unfold hseq in H.
  destruct (pre m x) as [[m1 [o1|]]|] eqn:E1; try discriminate.
  - destruct (H1 _ _ _ _ Hs Hx E1) as (F1 & Y1).
    destruct (base m1 o1) as [[m2 [o2|]]|] eqn:E2; try discriminate.
    + destruct (H2 _ _ _ _ (st_ok_fr _ _ Hs F1) (Y1 _ eq_refl) E2) as (F2 & Y2).
      destruct (H3 _ _ _ _ (st_ok_fr _ _ (st_ok_fr _ _ Hs F1) F2) (Y2 _ eq_refl) H) as (F3 & Y3).
      split; [eapply fr_trans; [exact F1|eapply fr_trans; eauto]|assumption].
    + destruct (H2 _ _ _ _ (st_ok_fr _ _ Hs F1) (Y1 _ eq_refl) E2) as (F2 & Y2).
      inversion H; subst. split; [eapply fr_trans; eauto|intros y Hy; discriminate].
  - destruct (H1 _ _ _ _ Hs Hx E1) as (F1 & Y1). inversion H; subst.
    split; [assumption|intros y Hy; discriminate].
Qed.

Lemma map_filter_fr (f : hook) : hook_fr f ->
  forall l m m' rs, st_ok m -> above l -> map_filter f m l = Some (m', rs) -> fr m m' /\ above rs.
Proof.
  intros Hf. induction l as [|x l IH]; intros m m' rs Hs Hl H; simpl in H.
  - inversion H; subst. split; [apply fr_refl; exact (proj1 Hs)|constructor].
  - inversion Hl as [|? ? Hx0 Hl0]; subst.
    destruct (f m x) as [[m1 r]|] eqn:Hx; [|discriminate].
    destruct (map_filter f m1 l) as [[m2 rs']|] eqn:Hr; [|discriminate].
    inversion H; subst m' rs; clear H.
    destruct (Hf _ _ _ _ Hs Hx0 Hx) as (F1 & Y1).
    destruct (IH _ _ _ (st_ok_fr _ _ Hs F1) Hl0 Hr) as (F2 & A2).
    split; [eapply fr_trans; eauto|]. destruct r as [y|]; [constructor; auto|assumption].
Qed.

Lemma base_field_fr v : hook_fr (visit_arg v) -> hook_fr (base_field v).
Proof.
  intros Ha m f m' r Hs Hf H. unfold base_field in H.
  destruct (mget m f) as [w|] eqn:Hg; [|discriminate].
  destruct w as [|n py ty args d dp rs sb ds| | |]; try discriminate.
  pose proof (proj1 Hs f _ Hf Hg) as Hargs. simpl in Hargs.
  destruct (map_filter (visit_arg v) m args) as [[m1 args']|] eqn:Hmf; [|discriminate].
  destruct (map_filter_fr _ Ha _ _ _ _ Hs Hargs Hmf) as (F1 & A1).
  destruct (oids_eqb args' args).
  - inversion H; subst. split; [assumption|intros y Hy; inversion Hy; subst; assumption].
  - destruct (mget m1 f) as [[|n1 py1 ty1 a1 d1 dp1 rs1 sb1 ds1| | |]|]; try discriminate.
    destruct (fr_alloc m1 (OField n1 py1 ty1 args' d1 dp1 rs1 sb1 ds1) (st_ok_fr _ _ Hs F1) A1) as (F2 & N2).
    unfold alloc in H, F2. simpl in F2. inversion H; subst m' r.
    split; [eapply fr_trans; eauto|]. intros y Hy; inversion Hy; subst. exact N2.
Qed.

Lemma base_dir_fr v : hook_fr (visit_arg v) -> hook_fr (base_dir v).
Proof.
  intros Ha m f m' r Hs Hf H. unfold base_dir in H.
  destruct (mget m f) as [w|] eqn:Hg; [|discriminate].
  destruct w as [| | | |n ds locs args]; try discriminate.
  pose proof (proj1 Hs f _ Hf Hg) as Hargs. simpl in Hargs.
  destruct (map_filter (visit_arg v) m args) as [[m1 args']|] eqn:Hmf; [|discriminate].
  destruct (map_filter_fr _ Ha _ _ _ _ Hs Hargs Hmf) as (F1 & A1).
  destruct (oids_eqb args' args).
  - inversion H; subst. split; [assumption|intros y Hy; inversion Hy; subst; assumption].
  - destruct (mget m1 f) as [[| | | |n1 ds1 locs1 a1]|]; try discriminate.
    destruct (fr_alloc m1 (ODir n1 ds1 locs1 args') (st_ok_fr _ _ Hs F1) A1) as (F2 & N2).
    unfold alloc in H, F2. simpl in F2. inversion H; subst m' r.
    split; [eapply fr_trans; eauto|]. intros y Hy; inversion Hy; subst. exact N2.
Qed.

Lemma base_type_fr v :
  hook_fr (visit_field v) -> hook_fr (visit_inf v) -> hook_fr (visit_env v) -> hook_fr (base_type v).
Proof.
  intros Hfd Hin Hen m t m' r Hs Ht H. unfold base_type in H.
  destruct (mget m t) as [w|] eqn:Hg; [|discriminate].
  destruct w as [n k d ms ifs rs ds| | | |]; try discriminate.
  pose proof (proj1 Hs t _ Ht Hg) as Hms. simpl in Hms.
  assert (Hgen : forall h : hook, hook_fr h ->
    match map_filter h m ms with
    | None => None
    | Some (m1, members') =>
        if oids_eqb members' ms then Some (m1, Some t)
        else match mget m1 t with
             | Some (OType n0' k1 d0 _ ifaces r0 ds0) =>
                 let (m2, t') := alloc m1 (OType n0' k1 d0 members' ifaces r0 ds0) in Some (m2, Some t')
             | _ => None
             end
    end = Some (m', r) -> fr m m' /\ (forall y, r = Some y -> n0 <= y)).
  { intros h Hh H0. destruct (map_filter h m ms) as [[m1 ms']|] eqn:Hmf; [|discriminate].
    destruct (map_filter_fr _ Hh _ _ _ _ Hs Hms Hmf) as (F1 & A1).
    destruct (oids_eqb ms' ms).
    - inversion H0; subst. split; [assumption|intros y Hy; inversion Hy; subst; assumption].
    - destruct (mget m1 t) as [[n1 k1 d1 ms1 ifs1 rs1 ds1| | | |]|]; try discriminate.
      destruct (fr_alloc m1 (OType n1 k1 d1 ms' ifs1 rs1 ds1) (st_ok_fr _ _ Hs F1) A1) as (F2 & N2).
      unfold alloc in H0, F2. simpl in F2. inversion H0; subst m' r.
      split; [eapply fr_trans; eauto|]. intros y Hy; inversion Hy; subst. exact N2. }
  destruct k; [|exact (Hgen _ Hfd H)|exact (Hgen _ Hfd H)| |exact (Hgen _ Hen H)|exact (Hgen _ Hin H)];
    (inversion H; subst; split; [apply fr_refl; exact (proj1 Hs)|
                                 intros y Hy; inversion Hy; subst; assumption]).
Qed.

Definition visitor_fr (v : visitor) : Prop :=
  hook_fr (v_arg_pre v) /\ hook_fr (v_arg_post v) /\ hook_fr (v_inf_pre v) /\ hook_fr (v_inf_post v) /\
  hook_fr (v_env_pre v) /\ hook_fr (v_field_pre v) /\ hook_fr (v_field_post v) /\
  hook_fr (v_type_pre v) /\ hook_fr (v_type_post v) /\ hook_fr (v_dir_pre v).

Lemma visit_type_fr v : visitor_fr v -> hook_fr (visit_type v) /\ hook_fr (visit_dir v).
Proof.
  intros (A1 & A2 & I1 & I2 & E1 & F1 & F2 & T1 & T2 & D1).
  assert (Ha : hook_fr (visit_arg v)) by (apply hook_fr_hseq; auto using hook_fr_hid).
  assert (Hi : hook_fr (visit_inf v)) by (apply hook_fr_hseq; auto using hook_fr_hid).
  assert (He : hook_fr (visit_env v)) by (apply hook_fr_hseq; auto using hook_fr_hid).
  assert (Hf : hook_fr (visit_field v)) by (apply hook_fr_hseq; auto using base_field_fr).
  split.
  - apply hook_fr_hseq; auto using base_type_fr.
  - apply hook_fr_hseq; auto using base_dir_fr, hook_fr_hid.
Qed.

(* registries that own their entries *)
Definition owned (tm : list (str * oid)) : Prop :=
  forall n o, In (n, o) tm -> is_builtin o = true \/ n0 <= o.
Definition owned_all (dm : list (str * oid)) : Prop := forall n o, In (n, o) dm -> n0 <= o.
Definition ups_above (ups : updates) : Prop := forall n y, In (n, Some y) ups -> n0 <= y.

Lemma traverse_list_fr (h : hook) skip : hook_fr h ->
  forall l m m' ups, st_ok m -> (forall n o, In (n, o) l -> skip o = true \/ n0 <= o) ->
  traverse_list h skip m l = Some (m', ups) -> fr m m' /\ ups_above ups.
Proof.
  intros Hh. induction l as [|[n o] l IH]; intros m m' ups Hs Hl H; simpl in H.
  - inversion H; subst. split; [apply fr_refl; exact (proj1 Hs)|intros ? ? []].
  - assert (Hl' : forall n1 o1, In (n1, o1) l -> skip o1 = true \/ n0 <= o1) by (intros; eapply Hl; right; eauto).
    destruct (skip o) eqn:Hsk; [eapply IH; eauto|].
    destruct (Hl n o (or_introl eq_refl)) as [Hc|Ho]; [congruence|].
    destruct (h m o) as [[m1 r]|] eqn:Hv; [|discriminate].
    destruct (traverse_list h skip m1 l) as [[m2 ups']|] eqn:Ht; [|discriminate].
    inversion H; subst m' ups; clear H.
    destruct (Hh _ _ _ _ Hs Ho Hv) as (F1 & Y1).
    destruct (IH _ _ _ (st_ok_fr _ _ Hs F1) Hl' Ht) as (F2 & U2).
    split; [eapply fr_trans; eauto|].
    match goal with |- context [if ?c then _ else _] => destruct c end; [exact U2|].
    intros n1 y [Heq|Hin]; [inversion Heq; subst; auto|eapply U2; eauto].
Qed.

Lemma traverse_fr v m s m' tu du :
  visitor_fr v -> st_ok m -> owned (s_types s) -> owned_all (s_dirs s) ->
  traverse v m s = Some (m', tu, du) -> fr m m' /\ ups_above tu /\ ups_above du.
Proof.
  intros Hv Hs Ho Hd H. unfold traverse in H. destruct (visit_type_fr v Hv) as (Ht & Hdv).
  destruct (traverse_list (visit_type v) is_builtin m (s_types s)) as [[m1 tu1]|] eqn:E1; [|discriminate].
  destruct (traverse_list (visit_dir v) (fun _ => false) m1 (s_dirs s)) as [[m2 du1]|] eqn:E2; [|discriminate].
  inversion H; subst.
  destruct (traverse_list_fr _ _ Ht _ _ _ _ Hs Ho E1) as (F1 & U1).
  destruct (traverse_list_fr _ _ Hdv _ _ _ _ (st_ok_fr _ _ Hs F1) (fun n o Hin => or_intror (Hd n o Hin)) E2) as (F2 & U2).
  split; [eapply fr_trans; eauto|split; assumption].
Qed.

Lemma replace_types_owned m : forall ups tm b tm' b',
  owned tm -> ups_above ups -> replace_types m ups tm b = Ok (tm', b') -> owned tm'.
Proof.
  induction ups as [|[n nw] ups IH]; intros tm b tm' b' Ho Hu H; simpl in H.
  - inversion H; subst; assumption.
  - assert (Hu' : ups_above ups) by (intros n1 y Hin; eapply Hu; right; eauto).
    destruct (alookup n tm) as [orig|]; [|eapply IH; eauto].
    destruct (is_builtin orig); [discriminate|]. destruct nw as [o|].
    + destruct (tkind m orig); [|discriminate]. destruct (tkind m o); [|discriminate].
      destruct (kind_eqb k k0); [|discriminate]. eapply IH; [|exact Hu'|exact H].
      intros n1 o1 Hin. apply aset_in in Hin. destruct Hin as [[-> ->]|[Hin _]]; [right; eapply Hu; left; reflexivity|eauto].
    + eapply IH; [|exact Hu'|exact H]. intros n1 o1 Hin. eapply Ho. eapply adel_in; eauto.
Qed.

Lemma replace_dirs_owned : forall ups dm dm',
  owned_all dm -> ups_above ups -> replace_dirs ups dm = Ok dm' -> owned_all dm'.
Proof.
  induction ups as [|[n nw] ups IH]; intros dm dm' Ho Hu H; simpl in H; [inversion H; subst; assumption|].
  assert (Hu' : ups_above ups) by (intros n1 y Hin; eapply Hu; right; eauto).
  destruct nw as [d|].
  - eapply IH; [|exact Hu'|exact H]. intros n1 o1 Hin. apply aset_in in Hin.
    destruct Hin as [[-> ->]|[Hin _]]; [eapply Hu; left; reflexivity|eauto].
  - destruct (ahas n dm); [|discriminate]. eapply IH; [|exact Hu'|exact H].
    intros n1 o1 Hin. eapply Ho. eapply adel_in; eauto.
Qed.

(* the healing visitor respects any watermark *)
Lemma heal_member_fr tm : hook_fr (heal_member tm).
Proof.
  intros m x m' r Hs Hx H. unfold heal_member in H.
  destruct (mget m x) as [w|] eqn:Hg; [|discriminate].
  pose proof (proj1 Hs x _ Hx Hg) as Hsub.
  destruct w as [|n py ty args d dp rs sb ds|a n py ty df d ds| |]; try discriminate;
    destruct (healed m tm ty); inversion H; subst;
    (split; [first [apply fr_write; [assumption|assumption|exact Hsub]|apply fr_refl; exact (proj1 Hs)]|
             intros y Hy; inversion Hy; subst; assumption]).
Qed.

Lemma heal_type_fr tm : hook_fr (heal_type tm).
Proof.
  intros m x m' r Hs Hx H. unfold heal_type in H.
  destruct (mget m x) as [w|] eqn:Hg; [|discriminate].
  pose proof (proj1 Hs x _ Hx Hg) as Hsub.
  destruct w as [n k d ms ifs rs ds| | | |]; try discriminate.
  destruct k; inversion H; subst;
    (split; [first [apply fr_write; [assumption|assumption|exact Hsub]|apply fr_refl; exact (proj1 Hs)]|
             intros y Hy; inversion Hy; subst; assumption]).
Qed.

Lemma heal_visitor_fr tm : visitor_fr (heal_visitor tm).
Proof.
  unfold visitor_fr, heal_visitor; simpl.
  pose proof hook_fr_hid as Hh. pose proof (heal_member_fr tm) as Hm. pose proof (heal_type_fr tm) as Ht.
  repeat (split; [assumption|]). assumption.
Qed.

Record own_schema (s : schema) : Prop := MkOwn {
  os_types : owned (s_types s);
  os_dirs : owned_all (s_dirs s)
}.

(* _replace_types_and_directives with its healing loop *)
Lemma replace_and_heal_fr : forall fuel m s tu du m' s',
  st_ok m -> own_schema s -> ups_above tu -> ups_above du ->
  replace_and_heal fuel m s tu du = Ok (m', s') -> fr m m' /\ own_schema s'.
Proof.
  induction fuel as [|fuel IH]; intros m s tu du m' s' Hs [Ho Hd] Htu Hdu H; [simpl in H; discriminate|].
  simpl in H.
  destruct (replace_types m tu (s_types s) false) as [[tm b]| | |] eqn:Hrt; simpl in H; try discriminate.
  destruct (replace_dirs du (s_dirs s)) as [dm| | |] eqn:Hrd; simpl in H; try discriminate.
  pose proof (replace_types_owned _ _ _ _ _ _ Ho Htu Hrt) as Ho'.
  pose proof (replace_dirs_owned _ _ _ Hd Hdu Hrd) as Hd'.
  destruct b.
  - match type of H with match traverse ?v m ?s1 with _ => _ end = _ =>
      destruct (traverse v m s1) as [[[m1 tu1] du1]|] eqn:Ht; [|discriminate];
      destruct (traverse_fr v m s1 m1 tu1 du1 (heal_visitor_fr tm) Hs Ho' Hd' Ht) as (F1 & U1 & U2);
      destruct (replace_and_heal fuel m1 s1 tu1 du1) as [[m2 s2]| | |] eqn:Hr; simpl in H; try discriminate;
      destruct (IH _ _ _ _ _ _ (st_ok_fr _ _ Hs F1) (MkOwn s1 Ho' Hd') U1 U2 Hr) as (F2 & [O2 D2])
    end.
    inversion H; subst. split; [eapply fr_trans; eauto|]. constructor; assumption.
  - inversion H; subst. split; [apply fr_refl; exact (proj1 Hs)|constructor; assumption].
Qed.

(* SchemaVisitor.on_schema applied in place to a schema that owns its objects *)
Theorem on_schema_fr fuel v m s m' s' :
  visitor_fr v -> st_ok m -> own_schema s ->
  on_schema fuel v m s = Ok (m', s') -> fr m m' /\ own_schema s'.
Proof.
  intros Hv Hs Hos H. unfold on_schema in H.
  destruct (traverse v m s) as [[[m1 tu] du]|] eqn:Ht; [|discriminate].
  destruct (traverse_fr v m s m1 tu du Hv Hs (os_types s Hos) (os_dirs s Hos) Ht) as (F1 & U1 & U2).
  destruct (replace_and_heal_fr _ _ _ _ _ _ _ (st_ok_fr _ _ Hs F1) Hos U1 U2 H) as (F2 & Hos').
  split; [eapply fr_trans; eauto|assumption].
Qed.

Theorem fix_type_references_fr fuel m s m' s' :
  st_ok m -> own_schema s -> fix_type_references fuel m s = Ok (m', s') -> fr m m' /\ own_schema s'.
Proof.
  intros Hs Hos H. unfold fix_type_references in H.
  destruct (traverse (heal_visitor (s_types s)) m s) as [[[m1 tu] du]|] eqn:Ht; [|discriminate].
  destruct (traverse_fr _ m s m1 tu du (heal_visitor_fr _) Hs (os_types s Hos) (os_dirs s Hos) Ht) as (F1 & U1 & U2).
  destruct (replace_and_heal fuel m1 s tu du) as [[m2 s2]| | |] eqn:Hr; simpl in H; try discriminate.
  destruct (replace_and_heal_fr _ _ _ _ _ _ _ (st_ok_fr _ _ Hs F1) Hos U1 U2 Hr) as (F2 & [O2 D2]).
  inversion H; subst. split; [eapply fr_trans; eauto|constructor; assumption].
Qed.

End Frame.
