(* Proofs about the schema printer model (C12). *)
From PyGql Require Import Spec.SdlSpec Schema.SdlPrint Spec.SdlRoundtripSpec.
From Coq Require Import Lia.

(* ------------------------------------------------------------------ *)
(* str(int) and int(text) are inverse: used for Int defaults     *)

Local Open Scope Z_scope.

Lemma small_cases d : 0 <= d < 10 ->
  d = 0 \/ d = 1 \/ d = 2 \/ d = 3 \/ d = 4 \/ d = 5 \/ d = 6 \/ d = 7 \/ d = 8 \/ d = 9.
Proof. lia. Qed.

Lemma digit_val_digit d : 0 <= d < 10 -> digit_val (N.add 48 (Z.to_N d)) = Some d.
Proof.
  intros H; destruct (small_cases d H) as [->|[->|[->|[->|[->|[->|[->|[->|[->| ->]]]]]]]]]; reflexivity.
Qed.

Lemma is_digit_digit d : 0 <= d < 10 -> is_digit (N.add 48 (Z.to_N d)) = true.
Proof.
  intros H; destruct (small_cases d H) as [->|[->|[->|[->|[->|[->|[->|[->|[->| ->]]]]]]]]]; reflexivity.
Qed.

Lemma digits_pos_spec fuel : forall z acc a0,
  0 <= z < 2 ^ Z.of_nat fuel ->
  exists k, 0 <= k /\ digits_to_Z a0 (Z_digits_pos fuel z acc) = digits_to_Z (a0 * 10 ^ k + z) acc.
Proof.
  induction fuel as [|f IH]; intros z acc a0 Hz.
  - simpl in Hz. assert (z = 0) by lia; subst. exists 0; split; [lia|].
    simpl. f_equal; lia.
  - cbn [Z_digits_pos].
    destruct (z <? 10) eqn:Hlt.
    + apply Z.ltb_lt in Hlt. exists 1; split; [lia|].
      cbn [digits_to_Z]. rewrite digit_val_digit by lia. f_equal; try lia.
    + apply Z.ltb_ge in Hlt.
      assert (Hpow : 0 < 2 ^ Z.of_nat f) by (apply Z.pow_pos_nonneg; lia).
      assert (Hs : 2 ^ Z.of_nat (S f) = 2 * 2 ^ Z.of_nat f).
      { rewrite Nat2Z.inj_succ, Z.pow_succ_r by lia. reflexivity. }
      assert (Hdiv : 0 <= z / 10 < 2 ^ Z.of_nat f).
      { split; [apply Z.div_pos; lia|]. apply Z.div_lt_upper_bound; lia. }
      destruct (IH (z / 10) (N.add 48 (Z.to_N (z mod 10)) :: acc) a0 Hdiv) as [k [Hk Heq]].
      exists (k + 1); split; [lia|].
      rewrite Heq. cbn [digits_to_Z].
      assert (Hm : 0 <= z mod 10 < 10) by (apply Z.mod_pos_bound; lia).
      rewrite digit_val_digit by assumption. f_equal.
      rewrite Z.pow_add_r by lia. rewrite (Z.div_mod z 10) at 3 by lia. ring.
Qed.

Definition head_digit (l : str) : Prop :=
  match l with d :: _ => is_digit d = true | [] => False end.

Lemma digits_pos_head fuel : forall z acc,
  0 <= z -> (head_digit acc \/ (1 <= fuel)%nat) -> head_digit (Z_digits_pos fuel z acc).
Proof.
  induction fuel as [|f IH]; intros z acc Hz H.
  - simpl. destruct H as [H|H]; [assumption|lia].
  - cbn [Z_digits_pos]. destruct (z <? 10) eqn:Hlt.
    + apply Z.ltb_lt in Hlt. cbn [head_digit]. apply is_digit_digit; lia.
    + apply IH; [apply Z.div_pos; lia|]. left; cbn [head_digit].
      apply is_digit_digit. apply Z.mod_pos_bound; lia.
Qed.

Lemma Z_of_str_digits d rest :
  is_digit d = true -> Z_of_str (d :: rest) = digits_to_Z 0 (d :: rest).
Proof.
  intros H.
  assert (Hne : d <> 45%N).
  { intros ->; discriminate. }
  unfold Z_of_str.
  destruct d as [|p]; [reflexivity|].
  do 6 (destruct p as [p|p|]; try reflexivity).
  all: try (destruct rest; reflexivity).
  all: congruence.
Qed.

Theorem Z_of_str_of_Z z : Z_of_str (str_of_Z z) = Some z.
Proof.
  unfold str_of_Z.
  set (a := Z.abs z).
  set (fuel := S (Z.to_nat (Z.log2 a))).
  assert (Ha : 0 <= a) by (apply Z.abs_nonneg).
  assert (Hb : 0 <= a < 2 ^ Z.of_nat fuel).
  { split; [assumption|]. unfold fuel.
    rewrite Nat2Z.inj_succ, Z2Nat.id by (apply Z.log2_nonneg).
    destruct (Z.eq_dec a 0) as [->|Hn]; [reflexivity|].
    apply Z.log2_spec; lia. }
  destruct (digits_pos_spec fuel a [] 0 Hb) as [k [Hk Heq]].
  replace (0 * 10 ^ k + a) with a in Heq by lia.
  change (digits_to_Z a []) with (Some a) in Heq.
  assert (Hh : head_digit (Z_digits_pos fuel a [])).
  { apply digits_pos_head; [assumption|right; unfold fuel; lia]. }
  destruct (Z_digits_pos fuel a []) as [|d rest] eqn:Hds; [contradiction|].
  simpl in Hh.
  destruct (z <? 0) eqn:Hneg.
  - apply Z.ltb_lt in Hneg.
    change (Z_of_str (45%N :: d :: rest)) with (option_map Z.opp (digits_to_Z 0 (d :: rest))).
    assert (Haz : Some (- a) = Some z) by (f_equal; unfold a; lia).
    rewrite <- Haz. destruct (digits_to_Z 0 (d :: rest)); [|discriminate].
    inversion Heq; subst; reflexivity.
  - apply Z.ltb_ge in Hneg. rewrite Z_of_str_digits by assumption.
    assert (Haz : a = z) by (unfold a; lia). rewrite <- Haz. exact Heq.
Qed.

Local Close Scope Z_scope.

(* ------------------------------------------------------------------ *)
(* default values: value -> literal -> value                            *)

Lemma not_specified n :
  mem_str n specified_scalars = false ->
  str_eqb n (S_ "Int") = false /\ str_eqb n (S_ "Float") = false /\ str_eqb n (S_ "String") = false
  /\ str_eqb n (S_ "Boolean") = false /\ str_eqb n (S_ "ID") = false.
Proof.
  unfold mem_str, specified_scalars; simpl.
  intros H. repeat (apply Bool.orb_false_iff in H; destruct H as [? H]).
  repeat split; assumption.
Qed.

Definition roundtrips (E : env) (k : nat) (t : tref) (v : pv) : Prop :=
  forall fuel, k <= fuel ->
    exists n, node_of_value fuel E v t = Ok n
              /\ forall eager fuel', k <= fuel' -> coerce fuel' eager E [] t n = Ok v.

Lemma roundtrips_mono E k k' t v : k <= k' -> roundtrips E k t v -> roundtrips E k' t v.
Proof.
  intros Hk H fuel Hf. destruct (H fuel ltac:(lia)) as [n [Hn Hc]].
  exists n; split; [assumption|intros; apply Hc; lia].
Qed.

Ltac fuel_S f H := destruct f as [|f]; [lia|].

Lemma custom_scalar_node n v node :
  mem_str n specified_scalars = false ->
  scalar_node n v = Ok node ->
  (exists s, v = PStr s /\ (node = VInt s None \/ node = VFloat s None \/ node = VString s false None))
  \/ (exists b, v = PBool b /\ node = VBool b None)
  \/ (exists z, v = PInt z) \/ (exists r, v = PFloat r).
Proof.
  intros Hn. destruct (not_specified n Hn) as (H1 & H2 & H3 & H4 & H5).
  unfold scalar_node; rewrite H1, H2, H3, H4, H5.
  destruct v; try discriminate; eauto.
  - intros H; inversion H; subst; right; left; eauto.
  - intros H; left; exists s; split; [reflexivity|].
    destruct (int_re s).
    + destruct (Z_of_str s); [destruct (strict_int32 z)|]; inversion H; auto.
    + destruct (float_re s); inversion H; auto.
Qed.

Ltac ksimpl := with_strategy opaque [mem_str alookup scalar_node coerce_scalar enum_name_of] simpl.

Lemma omap_map_ok' {A B} (f : A -> outcome B) (g : A -> B) l :
  (forall x, In x l -> f x = Ok (g x)) -> omap f l = Ok (map g l).
Proof.
  induction l as [|x l IH]; intros H; simpl; [reflexivity|].
  rewrite (H x (or_introl eq_refl)); simpl. rewrite IH; [reflexivity|].
  intros y Hy; apply H; right; exact Hy.
Qed.

Lemma omap_map2' {A B C} (f : B -> outcome C) (pre : A -> B) (dec : A -> C) l :
  (forall x, In x l -> f (pre x) = Ok (dec x)) -> omap f (map pre l) = Ok (map dec l).
Proof.
  induction l as [|x l IH]; intros H; simpl; [reflexivity|].
  rewrite (H x (or_introl eq_refl)); simpl. rewrite IH; [reflexivity|].
  intros y Hy; apply H; right; exact Hy.
Qed.

(* ---- input objects ---------------------------------------------------- *)
Section Dict.
  Variables (E : env) (kvs : list (str * pv)) (K f : nat).

  (* what node_of_value produces for one field of the type *)
  Definition field_nodes (fd : ifield) (l : list (name * value * loc)) : Prop :=
    match alookup (if_py fd) kvs with
    | Some x => exists nx, l = [(Name (if_name fd) None, nx, None)]
                           /\ forall eager fuel', K <= fuel' ->
                                coerce fuel' eager E [] (if_type fd) nx = Ok x
    | None => l = []
    end.

  Definition node_step (fd : ifield) : outcome (list (name * value * loc)) :=
    match alookup (if_py fd) kvs with
    | Some x => do nx <- node_of_value f E x (if_type fd); Ok [(Name (if_name fd) None, nx, None)]
    | None => if is_nonnull (if_type fd) && (match if_def fd with DNo => true | _ => false end)
              then Crash K_PRINT else Ok []
    end.

  Lemma build_nodes fs :
    K <= f ->
    (forall fd, In fd fs ->
       (forall v, alookup (if_py fd) kvs = Some v -> roundtrips E K (if_type fd) v)
       /\ (alookup (if_py fd) kvs = None -> if_def fd = DNo /\ is_nonnull (if_type fd) = false)) ->
    exists fns, omap node_step fs = Ok fns /\ Forall2 field_nodes fs fns.
  Proof.
    intros Hf. induction fs as [|fd fs IH]; intros H.
    - exists []; split; [reflexivity|constructor].
    - destruct IH as [fns [Ho HF]]; [intros; apply H; right; assumption|].
      destruct (H fd (or_introl eq_refl)) as [Hsome Hnone].
      cbn [omap]. unfold node_step at 1.
      destruct (alookup (if_py fd) kvs) as [x|] eqn:Hl.
      + destruct (Hsome x eq_refl f Hf) as [nx [Hn Hc]].
        exists ([(Name (if_name fd) None, nx, None)] :: fns); split.
        * rewrite Hn. cbn [obind]. rewrite Ho. reflexivity.
        * constructor; [|exact HF]. unfold field_nodes. rewrite Hl. eauto.
      + destruct (Hnone eq_refl) as [_ Hnn]. rewrite Hnn. cbn [andb].
        exists ([] :: fns); split; [rewrite Ho; reflexivity|].
        constructor; [|exact HF]. unfold field_nodes. rewrite Hl. reflexivity.
  Qed.

  Lemma obj_lookup_app nm a b :
    obj_lookup nm (a ++ b) = match obj_lookup nm b with Some v => Some v | None => obj_lookup nm a end.
  Proof.
    induction a as [|[[k v] lf] a IH]; cbn [app obj_lookup].
    - destruct (obj_lookup nm b); reflexivity.
    - rewrite IH. destruct (obj_lookup nm b); reflexivity.
  Qed.

  Lemma obj_lookup_absent fs fns nm :
    Forall2 field_nodes fs fns -> ~ In nm (map if_name fs) -> obj_lookup nm (concat fns) = None.
  Proof.
    induction 1 as [|fd l fs fns Hr HF IH]; intros Hni; [reflexivity|].
    cbn [concat]. rewrite obj_lookup_app, IH by (intros Hc; apply Hni; right; exact Hc).
    unfold field_nodes in Hr. destruct (alookup (if_py fd) kvs).
    - destruct Hr as [nx [-> _]]. cbn [obj_lookup n_val].
      destruct (str_eqb_spec nm (if_name fd)) as [->|]; [|reflexivity].
      exfalso; apply Hni; left; reflexivity.
    - subst l; reflexivity.
  Qed.

  Lemma obj_lookup_field fs fns :
    NoDup (map if_name fs) -> Forall2 field_nodes fs fns ->
    forall fd, In fd fs ->
      match alookup (if_py fd) kvs with
      | Some x => exists nx, obj_lookup (if_name fd) (concat fns) = Some nx
                             /\ forall eager fuel', K <= fuel' ->
                                  coerce fuel' eager E [] (if_type fd) nx = Ok x
      | None => obj_lookup (if_name fd) (concat fns) = None
      end.
  Proof.
    intros Hnd HF. induction HF as [|fd0 l fs fns Hr HF IH]; intros fd Hin; [contradiction|].
    cbn [map] in Hnd. apply NoDup_cons_iff in Hnd. destruct Hnd as [Hni Hnd].
    cbn [concat]. rewrite obj_lookup_app.
    destruct Hin as [<-|Hin].
    - rewrite (obj_lookup_absent fs fns (if_name fd0) HF Hni).
      unfold field_nodes in Hr. destruct (alookup (if_py fd0) kvs).
      + destruct Hr as [nx [-> Hc]]. cbn [obj_lookup n_val]. rewrite str_eqb_refl. eauto.
      + subst l; reflexivity.
    - specialize (IH Hnd fd Hin).
      assert (Hne : if_name fd <> if_name fd0).
      { intros He. apply Hni. rewrite <- He. apply in_map; exact Hin. }
      destruct (alookup (if_py fd) kvs).
      + destruct IH as [nx [Ho Hc]]. rewrite Ho. eauto.
      + rewrite IH. unfold field_nodes in Hr. destruct (alookup (if_py fd0) kvs).
        * destruct Hr as [nx [-> _]]. cbn [obj_lookup n_val].
          destruct (str_eqb_spec (if_name fd) (if_name fd0)); [contradiction|reflexivity].
        * subst l; reflexivity.
  Qed.
End Dict.

Lemma uniform_bound E kvs fs :
  (forall fd, In fd fs -> forall v, alookup (if_py fd) kvs = Some v -> exists k, roundtrips E k (if_type fd) v) ->
  exists K, forall fd, In fd fs -> forall v, alookup (if_py fd) kvs = Some v -> roundtrips E K (if_type fd) v.
Proof.
  induction fs as [|fd fs IH]; intros H.
  - exists 0; intros fd [].
  - destruct IH as [K1 HK1]; [intros; eapply H; [right; eassumption|eassumption]|].
    destruct (alookup (if_py fd) kvs) as [x|] eqn:Hl.
    + destruct (H fd (or_introl eq_refl) x Hl) as [k Hk].
      exists (k + K1); intros fd' [<-|Hin] v Hv.
      * rewrite Hl in Hv; inversion Hv; subst. eapply roundtrips_mono; [|exact Hk]; lia.
      * eapply roundtrips_mono; [|eapply HK1; eassumption]; lia.
    + exists K1; intros fd' [<-|Hin] v Hv; [congruence|eapply HK1; eassumption].
Qed.

Lemma step_roundtrip E (P : tref -> pv -> Prop) :
  (forall t v, P t v -> exists k, roundtrips E k t v) ->
  forall t v, conf_step E P t v -> exists k, roundtrips E k t v.
Proof.
  intros HP t v Hconf. induction Hconf.
  - (* null *)
    exists 1; intros fuel Hf; fuel_S fuel Hf. exists (VNull None); split.
    + destruct t; simpl in *; try discriminate; reflexivity.
    + intros eager f' Hf'; fuel_S f' Hf'. destruct t; simpl in *; try discriminate; reflexivity.
  - (* non-null *)
    destruct IHHconf as [k IH]. exists (S k); intros fuel Hf; fuel_S fuel Hf.
    destruct (IH fuel ltac:(lia)) as [n [Hn Hc]].
    assert (Hk := Hc false (S k) ltac:(lia)).
    assert (Hnn : is_null n = false).
    { destruct n; try reflexivity. simpl in Hk. destruct t; simpl in *; try discriminate;
        inversion Hk; subst; congruence. }
    assert (Hnv : forall nm l, n <> VVar nm l).
    { intros nm l ->; simpl in Hk; discriminate. }
    exists n; split.
    + simpl. rewrite Hn; simpl. rewrite Hnn; reflexivity.
    + intros eager f' Hf'; fuel_S f' Hf'.
      specialize (Hc eager f' ltac:(lia)).
      destruct n; simpl in *; try discriminate; try assumption.
  - (* empty list *)
    exists 2; intros fuel Hf; fuel_S fuel Hf. exists (VList [] None); split; [reflexivity|].
    intros eager f' Hf'; fuel_S f' Hf'; reflexivity.
  - (* cons *)
    destruct IHHconf1 as [k1 IH1]. destruct IHHconf2 as [k2 IH2].
    exists (S (k1 + k2)); intros fuel Hf; fuel_S fuel Hf.
    destruct (IH1 fuel ltac:(lia)) as [nx [Hnx Hcx]].
    destruct (IH2 (S fuel) ltac:(lia)) as [nl [Hnl Hcl]].
    simpl in Hnl.
    destruct (omap (fun x0 => node_of_value fuel E x0 t) l) as [ns| | |] eqn:Hns; simpl in Hnl; try discriminate.
    inversion Hnl; subst nl; clear Hnl.
    exists (VList (nx :: ns) None); split.
    + simpl. rewrite Hnx; simpl. rewrite Hns; reflexivity.
    + intros eager f' Hf'; fuel_S f' Hf'.
      specialize (Hcl eager (S f') ltac:(lia)). simpl in Hcl.
      destruct (omap (coerce f' eager E [] t) ns) as [l'| | |] eqn:Hl'; simpl in Hcl; try discriminate.
      inversion Hcl; subst l'.
      simpl. rewrite (Hcx eager f' ltac:(lia)); simpl. rewrite Hl'; reflexivity.
  - (* String *)
    exists 1; intros fuel Hf; fuel_S fuel Hf. exists (VString s false None); split; [reflexivity|].
    intros eager f' Hf'; fuel_S f' Hf'; reflexivity.
  - (* Boolean *)
    exists 1; intros fuel Hf; fuel_S fuel Hf. exists (VBool b None); split; [reflexivity|].
    intros eager f' Hf'; fuel_S f' Hf'; reflexivity.
  - (* ID *)
    exists 1; intros fuel Hf; fuel_S fuel Hf.
    exists (if int_re s then VInt s None else VString s false None); split.
    + simpl. unfold scalar_node; simpl. destruct (int_re s); reflexivity.
    + intros eager f' Hf'; fuel_S f' Hf'. destruct (int_re s); reflexivity.
  - (* Int *)
    exists 1; intros fuel Hf; fuel_S fuel Hf. exists (VInt (str_of_Z z) None); split.
    + simpl. unfold scalar_node; simpl. rewrite H; reflexivity.
    + intros eager f' Hf'; fuel_S f' Hf'. simpl. unfold coerce_scalar; simpl.
      rewrite Z_of_str_of_Z.
      replace (int32 z) with true; [reflexivity|].
      unfold strict_int32 in H; unfold int32. lia.
  - (* Float *)
    exists 1; intros fuel Hf; fuel_S fuel Hf. exists (VFloat r None); split.
    + simpl. unfold scalar_node; simpl. rewrite H; reflexivity.
    + intros eager f' Hf'; fuel_S f' Hf'. simpl. unfold coerce_scalar; simpl. rewrite H0; reflexivity.
  - (* custom scalar, string that does not look like a number *)
    exists 1; intros fuel Hf; fuel_S fuel Hf.
    destruct (not_specified n H) as (N1 & N2 & N3 & N4 & N5).
    exists (VString s false None); split.
    + ksimpl. rewrite H, H0. unfold scalar_node; rewrite N1, N2, N3, N4, N5, H1, H2; reflexivity.
    + intros eager f' Hf'; fuel_S f' Hf'. ksimpl; rewrite H, H0; unfold coerce_scalar;
        rewrite N1, N2, N3, N4, N5; reflexivity.
  - (* custom scalar, float *)
    exists 1; intros fuel Hf; fuel_S fuel Hf.
    destruct (not_specified n H) as (N1 & N2 & N3 & N4 & N5).
    exists (VFloat r None); split.
    + ksimpl. rewrite H, H0. unfold scalar_node; rewrite N1, N2, N3, N4, N5; reflexivity.
    + intros eager f' Hf'; fuel_S f' Hf'. ksimpl; rewrite H, H0; unfold coerce_scalar;
        rewrite N1, N2, N3, N4, N5, H1; reflexivity.
  - (* custom scalar, boolean *)
    exists 1; intros fuel Hf; fuel_S fuel Hf.
    destruct (not_specified n H) as (H1 & H2 & H3 & H4 & H5).
    exists (VBool b None); split.
    + ksimpl. rewrite H, H0. unfold scalar_node; rewrite H1, H2, H3, H4, H5; reflexivity.
    + intros eager f' Hf'; fuel_S f' Hf'. ksimpl; rewrite H, H0; unfold coerce_scalar;
        rewrite H1, H2, H3, H4, H5; reflexivity.
  - (* enum *)
    exists 1; intros fuel Hf; fuel_S fuel Hf. exists (VEnum m None); split.
    + destruct v; try congruence; ksimpl; rewrite H, H0, H1; reflexivity.
    + intros eager f' Hf'; fuel_S f' Hf'. ksimpl. rewrite H, H0, H2; reflexivity.
  - (* input object *)
    destruct (uniform_bound E kvs fs) as [K HK].
    { intros fd Hin v Hv. apply HP. destruct (H4 fd Hin) as [Hs _]. apply Hs; exact Hv. }
    exists (S K); intros fuel Hf; fuel_S fuel Hf.
    destruct (build_nodes E kvs K fuel fs ltac:(lia)) as [fns [Ho HF]].
    { intros fd Hin. split; [intros v Hv; eapply HK; eassumption|]. destruct (H4 fd Hin) as [_ Hn]; exact Hn. }
    exists (VObject (concat fns) None); split.
    + ksimpl. rewrite H, H0.
      transitivity (obind (omap (node_step E kvs fuel) fs) (fun fns0 => Ok (VObject (concat fns0) None)));
        [reflexivity|rewrite Ho; reflexivity].
    + intros eager f' Hf'; fuel_S f' Hf'. ksimpl. rewrite H, H0.
      change (mem_str n []) with false. rewrite Bool.andb_false_r.
      rewrite (omap_map_ok' _ (fun fd => (fd, @None pv))).
      2:{ intros fd Hin. rewrite forallb_forall in H2. specialize (H2 fd Hin).
          destruct (if_def fd); [reflexivity|discriminate|reflexivity]. }
      cbn [obind].
      rewrite (omap_map2' _ (fun fd => (fd, @None pv))
                 (fun fd => match alookup (if_py fd) kvs with Some v => [(if_py fd, v)] | None => [] end)).
      2:{ intros fd Hin.
          pose proof (obj_lookup_field E kvs K fs fns H1 HF fd Hin) as Hl.
          destruct (H4 fd Hin) as [_ Hnone].
          destruct (alookup (if_py fd) kvs) as [x|] eqn:Hal.
          - destruct Hl as [nx [Ho' Hcx]]. rewrite Ho'. rewrite (Hcx eager f' ltac:(lia)). reflexivity.
          - rewrite Hl. destruct (Hnone eq_refl) as [Hd Hnn]. rewrite Hd, Hnn. reflexivity. }
      cbn [obind]. rewrite <- flat_map_concat_map. fold (selection fs kvs). rewrite <- H3. reflexivity.
Qed.

Theorem default_roundtrip E t v : conforms E t v -> exists k, roundtrips E k t v.
Proof.
  intros [d Hd]. revert t v Hd. induction d as [|d IH]; intros t v Hd.
  - apply (step_roundtrip E (fun _ _ => False)); [intros ? ? []|exact Hd].
  - apply (step_roundtrip E (conformsN E d)); [exact IH|exact Hd].
Qed.

(* an int value of a custom scalar is printed as a FloatValue node holding the
   integer's text; that text is an integer literal, so the document the
   printed text denotes carries an IntValue ([relex]), which coerces back *)
Theorem custom_int_roundtrip E n z fuel fuel' eager stack :
  mem_str n specified_scalars = false -> alookup n E = Some IScalar ->
  node_of_value (S fuel) E (PInt z) (RNamed n) = Ok (VFloat (str_of_Z z) None)
  /\ coerce (S fuel') eager E stack (RNamed n) (VInt (str_of_Z z) None) = Ok (PInt z).
Proof.
  intros H H0. destruct (not_specified n H) as (N1 & N2 & N3 & N4 & N5). split.
  - ksimpl. rewrite H, H0. unfold scalar_node; rewrite N1, N2, N3, N4, N5; reflexivity.
  - ksimpl. rewrite H, H0. unfold coerce_scalar; rewrite N1, N2, N3, N4, N5, Z_of_str_of_Z; reflexivity.
Qed.

(* ------------------------------------------------------------------ *)
(* descriptions: single-line case                                       *)

Definition plain_char (c : N) : bool := negb ((c =? 10)%N || (c =? 13)%N || (c =? 34)%N).

Lemma split_nl_plain s : forallb plain_char s = true -> split_nl s = [s].
Proof.
  induction s as [|c s IH]; simpl; [reflexivity|].
  intros H; apply andb_prop in H; destruct H as [Hc Hs].
  rewrite (IH Hs). unfold plain_char in Hc.
  destruct (c =? NLc)%N eqn:E; [|reflexivity].
  unfold NLc in E; rewrite E in Hc; discriminate.
Qed.

Lemma split_lines_plain s : forallb plain_char s = true -> split_lines s = [s].
Proof.
  induction s as [|c s IH]; simpl; [reflexivity|].
  intros H; apply andb_prop in H; destruct H as [Hc Hs].
  rewrite (IH Hs). unfold plain_char in Hc.
  destruct (c =? 10)%N eqn:E1; [simpl in Hc; discriminate|].
  destruct (c =? 13)%N eqn:E2; [simpl in Hc; discriminate|].
  assert (c <> 13%N) by (apply N.eqb_neq; assumption).
  destruct c as [|p]; [reflexivity|].
  do 4 (destruct p as [p|p|]; try reflexivity); congruence.
Qed.

Lemma escape_triple_plain s : forallb plain_char s = true -> escape_triple s = s.
Proof.
  induction s as [|c s IH]; [reflexivity|].
  intros H; simpl in H; apply andb_prop in H; destruct H as [Hc Hs].
  assert (Hq : c <> 34%N).
  { intros ->; discriminate. }
  change (escape_triple (c :: s)) with
    (match c :: s with
     | 34%N :: 34%N :: 34%N :: r => (92 :: 34 :: 34 :: 34 :: escape_triple r)%N
     | c' :: r => c' :: escape_triple r
     | [] => []
     end).
  destruct c as [|p]; [rewrite (IH Hs); reflexivity|].
  do 6 (destruct p as [p|p|]; try (rewrite (IH Hs); reflexivity)); congruence.
Qed.

Lemma unescape_triple_plain s : forallb plain_char s = true -> unescape_triple s = s.
Proof.
  induction s as [|c s IH]; [reflexivity|].
  intros H; simpl in H; apply andb_prop in H; destruct H as [Hc Hs].
  destruct s as [|c2 s2].
  - destruct c as [|p]; [reflexivity|]. do 7 (destruct p as [p|p|]; try reflexivity).
  - assert (Hq : c2 <> 34%N).
    { simpl in Hs; apply andb_prop in Hs; destruct Hs as [Hc2 _]. intros ->; discriminate. }
    change (unescape_triple (c :: c2 :: s2)) with
      (match c :: c2 :: s2 with
       | 92%N :: 34%N :: 34%N :: 34%N :: r => (34 :: 34 :: 34 :: unescape_triple r)%N
       | c' :: r => c' :: unescape_triple r
       | [] => []
       end).
    destruct c as [|p]; [rewrite (IH Hs); reflexivity|].
    do 7 (destruct p as [p|p|]; try (rewrite (IH Hs); reflexivity)).
    destruct c2 as [|q]; [rewrite (IH Hs); reflexivity|].
    do 6 (destruct q as [q|q|]; try (rewrite (IH Hs); reflexivity)); congruence.
Qed.

Lemma ends_with_qb_plain s :
  forallb plain_char s = true -> last s 0%N <> 92%N -> ends_with_qb s = false.
Proof.
  induction s as [|c s IH]; [reflexivity|].
  intros H Hl; simpl in H; apply andb_prop in H; destruct H as [Hc Hs].
  destruct s as [|c2 s2].
  - cbn [ends_with_qb last] in *. unfold plain_char in Hc.
    destruct (N.eqb_spec c 92) as [->|_]; [congruence|]. rewrite Bool.orb_false_r.
    destruct (c =? 34)%N; [|reflexivity]. rewrite !Bool.orb_true_r in Hc; discriminate.
  - apply IH; assumption.
Qed.

Lemma drop_while_blank_nonblank l ls : blank l = false -> drop_while_blank (l :: ls) = l :: ls.
Proof. intros H; simpl; rewrite H; reflexivity. Qed.

(* a description of one line, without double quotes, shorter than 70
   characters and not blank is printed as """desc""" and read back unchanged *)
Theorem description_roundtrip_single_line o desc depth :
  forallb plain_char desc = true ->
  blank desc = false ->
  length desc < 70 ->
  length desc <= 120 - length (ind o depth) ->
  last desc 0%N <> 92%N ->
  description_body o desc depth = desc
  /\ block_string_value (unescape_triple (description_body o desc depth)) = desc.
Proof.
  intros Hp Hb Hl Hw Hlast.
  assert (Hbody : description_body o desc depth = desc).
  { unfold description_body. rewrite (split_nl_plain _ Hp).
    remember (120 - length (ind o depth)) as m eqn:Hm.
    assert (Hw' : Nat.leb (length desc) m = true) by (apply Nat.leb_le; lia).
    assert (Hl' : Nat.ltb (length desc) 70 = true) by (apply Nat.ltb_lt; assumption).
    unfold wrapped_lines. cbn [flat_map].
    match goal with |- context [if ?b then [desc] else _] =>
      replace b with true by (symmetry; exact Hw') end.
    cbn [app length Nat.eqb].
    match goal with |- context [andb (andb true ?b) _] =>
      replace b with true by (symmetry; exact Hl') end.
    rewrite (ends_with_qb_plain _ Hp Hlast). cbn [andb negb].
    apply escape_triple_plain; assumption. }
  split; [assumption|].
  rewrite Hbody, (unescape_triple_plain _ Hp).
  unfold block_string_value. rewrite (split_lines_plain _ Hp).
  cbn [common_indent drop_while_blank rev app]. rewrite Hb.
  cbn [rev app drop_while_blank]. rewrite Hb. cbn [rev app join]. reflexivity.
Qed.

(* ------------------------------------------------------------------ *)
(* members: wrappers and deprecations through the printed document      *)

Lemma tref_roundtrip t : tref_of (ty_of_tref t) = t.
Proof. induction t; simpl; congruence. Qed.

Lemma find_dir_custom n ds :
  mem_str n specified_directive_names = true -> find_dir n (custom_dirs ds) = None.
Proof.
  intros Hn; induction ds as [|d ds IH]; [reflexivity|].
  unfold custom_dirs in *; cbn [filter].
  destruct (mem_str (n_val (d_name d)) specified_directive_names) eqn:Hd; cbn [negb]; [exact IH|].
  cbn [find_dir].
  destruct (str_eqb_spec n (n_val (d_name d))) as [He|Hne]; [subst n; congruence|exact IH].
Qed.

Theorem deprecation_roundtrip dep ds :
  deprecation_reason (deprecated_dir dep ++ custom_dirs ds) = Ok dep.
Proof.
  unfold deprecation_reason.
  destruct dep as [r|]; simpl.
  - destruct (str_eqb_spec r default_deprecation) as [->|Hne]; reflexivity.
  - rewrite find_dir_custom; reflexivity.
Qed.

(* printing has no state: any two calls with the same schema and options, at
   any positions of any history of calls, give the same text *)
Theorem print_pure intro spec (h1 h2 : list (popts * schema)) o sc i j :
  nth_error h1 i = Some (o, sc) -> nth_error h2 j = Some (o, sc) ->
  nth_error (map (fun '(o, sc) => print_schema intro spec o sc) h1) i
  = nth_error (map (fun '(o, sc) => print_schema intro spec o sc) h2) j.
Proof.
  intros H1 H2.
  rewrite (map_nth_error _ _ _ H1), (map_nth_error _ _ _ H2). reflexivity.
Qed.

(* ------------------------------------------------------------------ *)
(* descriptions: the block layout (several lines, or one long line)     *)

Definition lchar (c : N) : bool := negb ((c =? 10)%N || (c =? 13)%N || (c =? 34)%N).

(* a line without line terminators and double quotes that is empty or starts
   with a non-blank character *)
Definition clean_line (l : str) : bool :=
  forallb lchar l && match l with c :: _ => negb (py_space c) | [] => true end.

Lemma join_cons sep (x : str) xs : xs <> [] -> join sep (x :: xs) = x ++ sep ++ join sep xs.
Proof. destruct xs; [congruence|reflexivity]. Qed.

Lemma join_split_nl s : join nl (split_nl s) = s.
Proof.
  induction s as [|c s IH]; [reflexivity|].
  cbn [split_nl]. destruct (split_nl s) as [|l ls] eqn:Hs; [simpl in IH; subst; reflexivity|].
  destruct (c =? NLc)%N eqn:Hc.
  - apply N.eqb_eq in Hc; subst c. rewrite join_cons by discriminate. rewrite IH. reflexivity.
  - destruct ls as [|l2 ls].
    + cbn [join] in *. subst; reflexivity.
    + rewrite join_cons by discriminate. rewrite join_cons in IH by discriminate.
      rewrite <- IH. reflexivity.
Qed.

Lemma split_nl_nonempty s : split_nl s <> [].
Proof. destruct s as [|c s]; [discriminate|]. cbn [split_nl]. destruct (split_nl s); [discriminate|].
       destruct (c =? NLc)%N; discriminate. Qed.

Lemma wrapped_id lines m :
  forallb (fun l => Nat.leb (length l) m) lines = true -> wrapped_lines lines m = lines.
Proof.
  unfold wrapped_lines. induction lines as [|l ls IH]; [reflexivity|]. cbn [forallb flat_map].
  intros H; apply andb_prop in H; destruct H as [Hl Hr]. rewrite Hl, (IH Hr). reflexivity.
Qed.

Lemma lchar_plain l : forallb lchar l = true -> forallb plain_char l = true.
Proof. intros H; exact H. Qed.

Lemma unescape_noquote s : forallb (fun c => negb (c =? 34)%N) s = true -> unescape_triple s = s.
Proof.
  induction s as [|c s IH]; [reflexivity|].
  intros H; cbn [forallb] in H; apply andb_prop in H; destruct H as [Hc Hs].
  destruct s as [|c2 s2].
  - destruct c as [|p]; [reflexivity|]. do 7 (destruct p as [p|p|]; try reflexivity).
  - assert (Hq : c2 <> 34%N).
    { cbn [forallb] in Hs; apply andb_prop in Hs; destruct Hs as [Hc2 _]. intros ->; discriminate. }
    change (unescape_triple (c :: c2 :: s2)) with
      (match c :: c2 :: s2 with
       | 92%N :: 34%N :: 34%N :: 34%N :: r => (34 :: 34 :: 34 :: unescape_triple r)%N
       | c' :: r => c' :: unescape_triple r
       | [] => []
       end).
    destruct c as [|p]; [rewrite (IH Hs); reflexivity|].
    do 7 (destruct p as [p|p|]; try (rewrite (IH Hs); reflexivity)).
    destruct c2 as [|q]; [rewrite (IH Hs); reflexivity|].
    do 6 (destruct q as [q|q|]; try (rewrite (IH Hs); reflexivity)); congruence.
Qed.

Definition nobreak (c : N) : bool := negb ((c =? 10)%N || (c =? 13)%N).

Lemma split_lines_seg seg rest :
  forallb nobreak seg = true ->
  split_lines (seg ++ NLc :: rest) = seg :: split_lines rest.
Proof.
  induction seg as [|c seg IH]; intros H.
  - reflexivity.
  - cbn [forallb] in H; apply andb_prop in H; destruct H as [Hc Hs].
    cbn [app]. unfold nobreak in Hc.
    destruct (c =? 10)%N eqn:E1; [simpl in Hc; discriminate|].
    destruct (c =? 13)%N eqn:E2; [simpl in Hc; discriminate|].
    assert (c <> 13%N) by (apply N.eqb_neq; assumption).
    assert (Hstep : split_lines (c :: seg ++ NLc :: rest)
                    = match split_lines (seg ++ NLc :: rest) with l :: ls => (c :: l) :: ls | [] => [[c]] end).
    { cbn [split_lines]. rewrite E1, E2. cbn [orb].
      destruct c as [|p]; [reflexivity|].
      do 4 (destruct p as [p|p|]; try reflexivity); congruence. }
    rewrite Hstep, (IH Hs). reflexivity.
Qed.

Lemma split_lines_last seg : forallb nobreak seg = true -> split_lines seg = [seg].
Proof.
  induction seg as [|c seg IH]; intros H; [reflexivity|].
  cbn [forallb] in H; apply andb_prop in H; destruct H as [Hc Hs]. unfold nobreak in Hc.
  destruct (c =? 10)%N eqn:E1; [simpl in Hc; discriminate|].
  destruct (c =? 13)%N eqn:E2; [simpl in Hc; discriminate|].
  assert (c <> 13%N) by (apply N.eqb_neq; assumption).
  assert (Hstep : split_lines (c :: seg)
                  = match split_lines seg with l :: ls => (c :: l) :: ls | [] => [[c]] end).
  { cbn [split_lines]. rewrite E1, E2. cbn [orb].
    destruct c as [|p]; [reflexivity|].
    do 4 (destruct p as [p|p|]; try reflexivity); congruence. }
  rewrite Hstep, (IH Hs). reflexivity.
Qed.

Lemma split_lines_join segs :
  segs <> [] -> forallb (forallb nobreak) segs = true -> split_lines (join nl segs) = segs.
Proof.
  induction segs as [|x xs IH]; intros Hne H; [congruence|].
  cbn [forallb] in H; apply andb_prop in H; destruct H as [Hx Hxs].
  destruct xs as [|y ys].
  - simpl. apply split_lines_last; exact Hx.
  - rewrite join_cons by discriminate.
    change (x ++ nl ++ join nl (y :: ys)) with (x ++ NLc :: join nl (y :: ys)).
    rewrite (split_lines_seg x _ Hx). rewrite IH; [reflexivity|discriminate|exact Hxs].
Qed.

Lemma block_lines_tail indent ls : forall i, 1 <= i ->
  forallb (forallb lchar) ls = true ->
  block_lines false indent i ls = map (fun l => indent ++ l) ls.
Proof.
  induction ls as [|l ls IH]; intros i Hi H; [reflexivity|].
  cbn [forallb] in H; apply andb_prop in H; destruct H as [Hl Hr].
  cbn [block_lines map]. destruct i as [|i]; [lia|]. cbn [Nat.eqb andb negb orb app].
  rewrite (escape_triple_plain _ Hl), (IH (S (S i)) ltac:(lia) Hr). reflexivity.
Qed.

Lemma blank_app a b : blank (a ++ b) = blank a && blank b.
Proof. unfold blank. apply forallb_app. Qed.

Lemma leading_ws_indent indent l :
  blank indent = true -> leading_ws (indent ++ l) = length indent + leading_ws l.
Proof.
  induction indent as [|c r IH]; intros H; [reflexivity|].
  cbn [blank forallb] in H. apply andb_prop in H; destruct H as [Hc Hr].
  cbn [app leading_ws length]. rewrite Hc. rewrite (IH Hr). reflexivity.
Qed.

Lemma clean_leading l : clean_line l = true -> blank l = false -> leading_ws l = 0.
Proof.
  unfold clean_line. intros H Hb. apply andb_prop in H; destruct H as [_ Hc].
  destruct l as [|c r]; [discriminate|]. cbn [leading_ws].
  destruct (is_ws c) eqn:Hw; [|reflexivity].
  exfalso. unfold is_ws in Hw. apply Bool.negb_true_iff in Hc. unfold py_space in Hc.
  apply Bool.orb_true_iff in Hw; destruct Hw as [Hw|Hw]; apply N.eqb_eq in Hw; subst c; discriminate.
Qed.

(* every non-blank line of [ls] is indented by exactly [n]: the common indent
   is n as soon as one line is not blank *)
Lemma common_indent_uniform n ls :
  (forall l, In l ls -> blank l = false -> leading_ws l = n) ->
  (exists l, In l ls /\ blank l = false) ->
  common_indent ls = Some n.
Proof.
  induction ls as [|l ls IH]; intros Hall [l0 [Hin Hb]]; [contradiction|].
  cbn [common_indent].
  assert (Hrest : forall l', In l' ls -> blank l' = false -> leading_ws l' = n)
    by (intros; apply Hall; [right|]; assumption).
  destruct (blank l) eqn:Hbl.
  - apply IH; [exact Hrest|]. destruct Hin as [->|Hin]; [congruence|eauto].
  - rewrite (Hall l (or_introl eq_refl) Hbl).
    destruct (common_indent ls) as [m|] eqn:Hc; [|reflexivity].
    assert (Hm : m = n).
    { clear -Hc Hrest. revert m Hc. induction ls as [|x xs IHx]; intros m Hc; [discriminate|].
      cbn [common_indent] in Hc. destruct (blank x) eqn:Hbx.
      - apply IHx; [intros; apply Hrest; [right|]; assumption|exact Hc].
      - rewrite (Hrest x (or_introl eq_refl) Hbx) in Hc.
        destruct (common_indent xs) as [m'|] eqn:Hc'; inversion Hc; subst; [|reflexivity].
        rewrite (IHx ltac:(intros; apply Hrest; [right|]; assumption) m' eq_refl). apply Nat.min_id. }
    subst m. rewrite Nat.min_id. reflexivity.
Qed.

Lemma skipn_app_exact (a l : str) : skipn (length a) (a ++ l) = l.
Proof. induction a as [|c r IH]; [reflexivity|]. exact IH. Qed.

Lemma skipn_indent (indent : str) (ls : list str) :
  map (skipn (length indent)) (map (fun l => indent ++ l) ls) = ls.
Proof.
  induction ls as [|l ls IH]; [reflexivity|]. cbn [map].
  rewrite IH, skipn_app_exact. reflexivity.
Qed.

Lemma blank_nil_false_of_clean l : clean_line l = true -> blank l = true -> l = [].
Proof.
  unfold clean_line. intros H Hb. apply andb_prop in H; destruct H as [_ Hc].
  destruct l as [|c r]; [reflexivity|]. cbn [blank forallb] in Hb. apply andb_prop in Hb; destruct Hb as [Hw _].
  exfalso. apply Bool.negb_true_iff in Hc. unfold is_ws in Hw. unfold py_space in Hc.
  apply Bool.orb_true_iff in Hw; destruct Hw as [Hw|Hw]; apply N.eqb_eq in Hw; subst c; discriminate.
Qed.

Lemma drop_rev_last (L : list str) :
  L <> [] -> blank (last L []) = false -> drop_while_blank (rev L) = rev L.
Proof.
  intros Hne Hb.
  assert (H : L = removelast L ++ [last L []]) by (apply app_removelast_last; exact Hne).
  set (a := last L []) in *. set (R := removelast L) in *. rewrite H.
  rewrite rev_app_distr. cbn [rev app drop_while_blank]. rewrite Hb. reflexivity.
Qed.

Lemma join_snoc (xs : list str) (e : str) : xs <> [] -> join nl (xs ++ [e]) = join nl xs ++ nl ++ e.
Proof.
  induction xs as [|x xs IH]; intros H; [congruence|].
  destruct xs as [|y ys]; [reflexivity|].
  cbn [app]. rewrite join_cons by discriminate. rewrite (join_cons nl x (y :: ys)) by discriminate.
  change ((y :: ys) ++ [e]) with (y :: ys ++ [e]) in IH. rewrite IH by discriminate.
  rewrite <- !app_assoc. reflexivity.
Qed.

Lemma join_prefix (p a : str) (tl : list str) : join nl ((p ++ a) :: tl) = p ++ join nl (a :: tl).
Proof. destruct tl; [reflexivity|]. rewrite !join_cons by discriminate. rewrite <- app_assoc. reflexivity. Qed.

Lemma join_block (a : str) (tl : list str) (e : str) :
  join nl ((nl ++ a) :: tl) ++ nl ++ e = join nl ([] :: (a :: tl) ++ [e]).
Proof.
  rewrite (join_prefix nl a tl).
  assert (H : join nl ([] :: (a :: tl) ++ [e]) = nl ++ join nl ((a :: tl) ++ [e])) by reflexivity.
  rewrite H. rewrite join_snoc by discriminate. rewrite <- !app_assoc. reflexivity.
Qed.

(* descriptions laid out as a block: one line of at least 70 characters, or
   several lines; every line without double quotes, within the width, empty or
   starting with a non-blank character; first and last line not empty; the
   indent made of spaces and tabs *)
Theorem description_roundtrip_block o desc depth :
  let lines := split_nl desc in
  let indent := ind o depth in
  blank indent = true ->
  forallb clean_line lines = true ->
  forallb (fun l => Nat.leb (length l) (120 - length indent)) lines = true ->
  hd [] lines <> [] -> last lines [] <> [] ->
  (2 <= length lines \/ 70 <= length (hd [] lines) \/ ends_with_qb (hd [] lines) = true) ->
  block_string_value (unescape_triple (description_body o desc depth)) = desc.
Proof.
  intros lines indent Hind Hclean Hlen Hfirst Hlast Hblock.
  assert (Hchars : forallb (forallb lchar) lines = true).
  { apply forallb_forall; intros l Hl. rewrite forallb_forall in Hclean. specialize (Hclean l Hl).
    unfold clean_line in Hclean. apply andb_prop in Hclean; tauto. }
  destruct lines as [|l0 rest] eqn:Hlines; [exfalso; apply (split_nl_nonempty desc); exact Hlines|].
  cbn [hd] in Hfirst, Hblock.
  assert (Hl0 : clean_line l0 = true) by (cbn [forallb] in Hclean; apply andb_prop in Hclean; tauto).
  (* the printed body *)
  assert (Hbody : description_body o desc depth
                  = join nl ([] :: map (fun l => indent ++ l) (l0 :: rest) ++ [indent])).
  { unfold description_body. fold indent. fold lines. rewrite Hlines.
    rewrite (wrapped_id _ _ Hlen). cbn [hd].
    assert (Hcond : Nat.eqb (length (l0 :: rest)) 1 && Nat.ltb (length l0) 70 && negb (ends_with_qb l0) = false).
    { destruct Hblock as [H2|[H70|Hqb]].
      - destruct rest; [simpl in H2; lia|reflexivity].
      - replace (Nat.ltb (length l0) 70) with false by (symmetry; apply Nat.ltb_ge; exact H70).
        rewrite Bool.andb_false_r. reflexivity.
      - rewrite Hqb. rewrite Bool.andb_false_r. reflexivity. }
    rewrite Hcond.
    assert (Hhlw : match l0 with c :: _ => py_space c | [] => false end = false).
    { unfold clean_line in Hl0. apply andb_prop in Hl0; destruct Hl0 as [_ H]. destruct l0; [reflexivity|].
      apply Bool.negb_true_iff in H; exact H. }
    rewrite Hhlw. cbn [block_lines Nat.eqb andb negb orb].
    cbn [forallb] in Hchars. apply andb_prop in Hchars; destruct Hchars as [Hc0 Hcr].
    rewrite (escape_triple_plain _ Hc0), (block_lines_tail indent rest 1 ltac:(lia) Hcr).
    cbn [map]. apply join_block. }
  rewrite Hbody.
  set (segs := [] :: map (fun l => indent ++ l) (l0 :: rest) ++ [indent]).
  assert (Hws : forall c, is_ws c = true -> lchar c = true).
  { intros c Hc. unfold is_ws in Hc. apply Bool.orb_true_iff in Hc; destruct Hc as [Hc|Hc];
      apply N.eqb_eq in Hc; subst c; reflexivity. }
  assert (Hsegs : forallb (forallb lchar) segs = true).
  { unfold segs. cbn [forallb andb]. rewrite forallb_app. apply andb_true_intro; split.
    - apply forallb_forall; intros x Hx. apply in_map_iff in Hx. destruct Hx as [l [<- Hl]].
      rewrite forallb_app. apply andb_true_intro; split.
      + apply forallb_forall; intros c Hc. apply Hws. unfold blank in Hind. rewrite forallb_forall in Hind. auto.
      + rewrite forallb_forall in Hchars. apply Hchars; exact Hl.
    - cbn [forallb]. rewrite Bool.andb_true_r.
      apply forallb_forall; intros c Hc. apply Hws. unfold blank in Hind. rewrite forallb_forall in Hind. auto. }
  assert (Hjoin : forall (p : N -> bool) (xs : list str),
             p NLc = true -> forallb (forallb p) xs = true -> forallb p (join nl xs) = true).
  { intros p xs Hnl. induction xs as [|x xs IHx]; intros H; [reflexivity|].
    cbn [forallb] in H. apply andb_prop in H; destruct H as [Hx Hxs].
    destruct xs as [|y ys]; [exact Hx|]. rewrite join_cons by discriminate.
    rewrite !forallb_app. apply andb_true_intro; split; [exact Hx|].
    apply andb_true_intro; split; [cbn [nl forallb]; rewrite Hnl; reflexivity|exact (IHx Hxs)]. }
  assert (Hweak : forall (p q : N -> bool) (xs : list str), (forall c, p c = true -> q c = true) ->
             forallb (forallb p) xs = true -> forallb (forallb q) xs = true).
  { intros p q xs Hpq H. apply forallb_forall; intros x Hx. rewrite forallb_forall in H. specialize (H x Hx).
    apply forallb_forall; intros c Hc. rewrite forallb_forall in H. auto. }
  (* no double quote anywhere in the body: nothing to unescape *)
  rewrite unescape_noquote.
  2:{ apply Hjoin; [reflexivity|]. apply (Hweak lchar); [|exact Hsegs].
      intros c Hc. unfold lchar in Hc. destruct (c =? 34)%N; [rewrite !Bool.orb_true_r in Hc; discriminate|reflexivity]. }
  (* the lines the lexer sees *)
  unfold block_string_value. rewrite split_lines_join.
  2:{ discriminate. }
  2:{ apply (Hweak lchar); [|exact Hsegs]. intros c Hc. unfold lchar in Hc. unfold nobreak.
      destruct ((c =? 10)%N || (c =? 13)%N); [discriminate|reflexivity]. }
  unfold segs.
  assert (Hl0b : blank l0 = false).
  { destruct (blank l0) eqn:Hb; [|reflexivity]. exfalso; apply Hfirst. apply blank_nil_false_of_clean; assumption. }
  rewrite (common_indent_uniform (length indent)).
  2:{ intros l Hl Hb. apply in_app_or in Hl. destruct Hl as [Hl|[<-|[]]]; [|congruence].
      apply in_map_iff in Hl. destruct Hl as [x [<- Hx]].
      rewrite blank_app, Hind in Hb. cbn [andb] in Hb.
      rewrite (leading_ws_indent _ _ Hind). rewrite forallb_forall in Hclean.
      rewrite (clean_leading x (Hclean x Hx) Hb). lia. }
  2:{ exists (indent ++ l0). split; [apply in_or_app; left; left; reflexivity|].
      rewrite blank_app, Hind, Hl0b. reflexivity. }
  rewrite map_app, skipn_indent. cbn [map].
  replace (skipn (length indent) indent) with (@nil char)
    by (symmetry; rewrite <- (app_nil_r indent) at 2; apply skipn_app_exact).
  cbn [drop_while_blank blank forallb app]. rewrite Hl0b.
  change (l0 :: rest ++ [[]]) with ((l0 :: rest) ++ [[]]). rewrite rev_app_distr. cbn [rev app].
  cbn [drop_while_blank blank forallb].
  assert (Hrev : drop_while_blank (rev (l0 :: rest)) = rev (l0 :: rest)).
  { apply drop_rev_last; [discriminate|].
    destruct (blank (last (l0 :: rest) [])) eqn:Hb; [|reflexivity].
    exfalso; apply Hlast. apply blank_nil_false_of_clean; [|exact Hb].
    rewrite forallb_forall in Hclean. apply Hclean.
    assert (Hne : l0 :: rest <> []) by discriminate.
    rewrite (app_removelast_last [] Hne) at 2. apply in_or_app; right; left; reflexivity. }
  cbn [rev] in Hrev. rewrite Hrev. change (rev rest ++ [l0]) with (rev (l0 :: rest)).
  rewrite rev_involutive. rewrite <- Hlines. unfold lines. apply join_split_nl.
Qed.

(* ------------------------------------------------------------------ *)
(* members: what the printed definition of a type declares              *)

Lemma desc_roundtrip d : nonempty_desc d = true -> desc_of (strval_of d) = d.
Proof. destruct d as [[|c r]|]; simpl; try discriminate; reflexivity. Qed.

Lemma custom_dirs_idem ds : custom_dirs (custom_dirs ds) = custom_dirs ds.
Proof.
  unfold custom_dirs. induction ds as [|d ds IH]; [reflexivity|]. cbn [filter].
  destruct (negb (mem_str (n_val (d_name d)) specified_directive_names)) eqn:H; [|exact IH].
  cbn [filter]. rewrite H, IH. reflexivity.
Qed.

Lemma custom_dirs_deprecated dep ds : custom_dirs (deprecated_dir dep ++ custom_dirs ds) = custom_dirs ds.
Proof.
  destruct dep as [r|]; [|apply custom_dirs_idem].
  unfold deprecated_dir. cbn [app]. unfold custom_dirs at 1. cbn [filter d_name mk_name n_val].
  change (mem_str (S_ "deprecated") specified_directive_names) with true. cbn [negb].
  apply custom_dirs_idem.
Qed.

Lemma omap_inv {A B} (f : A -> outcome B) l r :
  omap f l = Ok r -> Forall2 (fun x y => f x = Ok y) l r.
Proof.
  revert r; induction l as [|x l IH]; intros r H; simpl in H.
  - inversion H; constructor.
  - destruct (f x) as [y| | |] eqn:Hx; simpl in H; try discriminate.
    destruct (omap f l) as [ys| | |] eqn:Hl; simpl in H; try discriminate.
    inversion H; subst. constructor; [exact Hx|apply IH; reflexivity].
Qed.

Section KindRoundtrip.
  Variables (Ep E : env).

  (* the printed literal of the default coerces back, at the declared type *)
  Definition default_rt (a : sivalue) : Prop :=
    forall v n, siv_default a = Some v ->
      node_of_value print_fuel Ep v (siv_type a) = Ok n ->
      coerce spec_fuel false E [] (siv_type a) (relex n) = Ok v.

  Lemma ivalue_rt a iv :
    siv_sdl a = true -> ivdef_of Ep a = Ok iv -> default_rt a ->
    strip_siv (decl_ivalue E iv) = strip_siv a.
  Proof.
    unfold siv_sdl, ivdef_of, default_rt. intros Hs Hi Hd.
    apply andb_prop in Hs; destruct Hs as [Hs _]. apply andb_prop in Hs; destruct Hs as [Hpy Hdesc].
    apply str_eqb_eq in Hpy.
    destruct (siv_default a) as [v|] eqn:Hdef.
    - destruct (node_of_value print_fuel Ep v (siv_type a)) as [n| | |] eqn:Hn; simpl in Hi; try discriminate.
      inversion Hi; subst iv; clear Hi.
      unfold decl_ivalue, strip_siv, decl_default;
        cbn [iv_name iv_type iv_default iv_desc iv_dirs mk_name n_val siv_name siv_py siv_type siv_default siv_desc siv_dirs].
      rewrite tref_roundtrip, (Hd v n eq_refl Hn), Hdef, Hpy, custom_dirs_idem.
      rewrite desc_roundtrip by (unfold nonempty_desc; exact Hdesc). reflexivity.
    - simpl in Hi. inversion Hi; subst iv; clear Hi.
      unfold decl_ivalue, strip_siv, decl_default;
        cbn [iv_name iv_type iv_default iv_desc iv_dirs mk_name n_val siv_name siv_py siv_type siv_default siv_desc siv_dirs].
      rewrite tref_roundtrip, Hdef, Hpy, custom_dirs_idem.
      rewrite desc_roundtrip by (unfold nonempty_desc; exact Hdesc). reflexivity.
  Qed.

  Lemma ivalues_rt l ivs :
    forallb siv_sdl l = true -> omap (ivdef_of Ep) l = Ok ivs -> (forall a, In a l -> default_rt a) ->
    map strip_siv (map (decl_ivalue E) ivs) = map strip_siv l.
  Proof.
    intros Hs Ho Hd. apply omap_inv in Ho. induction Ho as [|a iv l ivs Hiv Hrest IH]; [reflexivity|].
    cbn [forallb] in Hs. apply andb_prop in Hs; destruct Hs as [Ha Hl].
    cbn [map]. rewrite (ivalue_rt a iv Ha Hiv (Hd a (or_introl eq_refl))).
    rewrite IH; [reflexivity|exact Hl|intros; apply Hd; right; assumption].
  Qed.

  Lemma field_rt f fd :
    sf_sdl f = true -> fdef_of Ep f = Ok fd -> (forall a, In a (sf_args f) -> default_rt a) ->
    strip_sf (decl_field E fd) = strip_sf f.
  Proof.
    unfold sf_sdl, fdef_of. intros Hs Hf Hd.
    apply andb_prop in Hs; destruct Hs as [Hs Hdesc]. apply andb_prop in Hs; destruct Hs as [Hpy Hargs].
    apply str_eqb_eq in Hpy.
    destruct (omap (ivdef_of Ep) (sf_args f)) as [ivs| | |] eqn:Ho; simpl in Hf; try discriminate.
    inversion Hf; subst fd; clear Hf.
    unfold decl_field, strip_sf;
      cbn [fd_name fd_args fd_type fd_desc fd_dirs mk_name n_val sf_name sf_py sf_args sf_type sf_desc sf_dep sf_dirs].
    rewrite (ivalues_rt _ _ Hargs Ho Hd), tref_roundtrip, Hpy.
    unfold decl_dep. rewrite deprecation_roundtrip, custom_dirs_deprecated.
    rewrite desc_roundtrip by (unfold nonempty_desc; exact Hdesc). reflexivity.
  Qed.

  Lemma fields_rt l fds :
    forallb sf_sdl l = true -> omap (fdef_of Ep) l = Ok fds ->
    (forall f, In f l -> forall a, In a (sf_args f) -> default_rt a) ->
    map strip_sf (map (decl_field E) fds) = map strip_sf l.
  Proof.
    intros Hs Ho Hd. apply omap_inv in Ho. induction Ho as [|f fd l fds Hfd Hrest IH]; [reflexivity|].
    cbn [forallb] in Hs. apply andb_prop in Hs; destruct Hs as [Hf Hl].
    cbn [map]. rewrite (field_rt f fd Hf Hfd (Hd f (or_introl eq_refl))).
    rewrite IH; [reflexivity|exact Hl|intros; eapply Hd; [right; eassumption|eassumption]].
  Qed.

  Definition tdef_ivalues (t : tdef) : list sivalue :=
    match t with
    | TObject _ _ _ fs _ | TInterface _ _ fs _ => flat_map sf_args fs
    | TInput _ _ fs _ => fs
    | _ => []
    end.

  (* every kind: the definition the printer emits for a type declares that
     type (modulo applied directives named like specified ones) *)
  Theorem kind_roundtrip t d :
    tdef_sdl t = true -> def_of_tdef Ep t = Ok d ->
    (forall a, In a (tdef_ivalues t) -> default_rt a) ->
    map strip_tdef (decl_type E d) = [strip_tdef t].
  Proof.
    unfold tdef_sdl. intros Hs Hdef Hd. apply andb_prop in Hs; destruct Hs as [Hdesc Hs].
    destruct t as [n de ds|n de is_ fs ds|n de fs ds|n de ms ds|n de vs ds|n de fs ds];
      cbn [tdef_desc def_of_tdef] in *.
    - inversion Hdef; subst d. cbn [decl_type map strip_tdef mk_name n_val].
      rewrite desc_roundtrip, custom_dirs_idem by exact Hdesc. reflexivity.
    - destruct (omap (fdef_of Ep) fs) as [fds| | |] eqn:Ho; simpl in Hdef; try discriminate.
      inversion Hdef; subst d. cbn [decl_type map strip_tdef mk_name n_val].
      rewrite (fields_rt fs fds Hs Ho), desc_roundtrip, custom_dirs_idem by
        first [exact Hdesc | intros f Hf a Ha; apply Hd; cbn [tdef_ivalues]; apply in_flat_map; eauto].
      rewrite map_map. cbn [ty_name tref_of named_ty tref_name mk_name n_val]. rewrite map_id. reflexivity.
    - destruct (omap (fdef_of Ep) fs) as [fds| | |] eqn:Ho; simpl in Hdef; try discriminate.
      inversion Hdef; subst d. cbn [decl_type map strip_tdef mk_name n_val].
      rewrite (fields_rt fs fds Hs Ho), desc_roundtrip, custom_dirs_idem by
        first [exact Hdesc | intros f Hf a Ha; apply Hd; cbn [tdef_ivalues]; apply in_flat_map; eauto].
      reflexivity.
    - inversion Hdef; subst d. cbn [decl_type map strip_tdef mk_name n_val].
      rewrite desc_roundtrip, custom_dirs_idem by exact Hdesc.
      rewrite map_map. cbn [ty_name tref_of named_ty tref_name mk_name n_val]. rewrite map_id. reflexivity.
    - inversion Hdef; subst d. cbn [decl_type map strip_tdef mk_name n_val].
      rewrite desc_roundtrip, custom_dirs_idem by exact Hdesc. f_equal. f_equal.
      rewrite !map_map. apply map_ext_in. intros v Hv.
      rewrite forallb_forall in Hs. specialize (Hs v Hv).
      apply andb_prop in Hs; destruct Hs as [Hval Hvd].
      unfold decl_value, evdef_of, strip_sev; cbn [ev_name ev_desc ev_dirs mk_name n_val sev_name sev_value sev_desc sev_dep sev_dirs].
      unfold decl_dep. rewrite deprecation_roundtrip, custom_dirs_deprecated, desc_roundtrip by exact Hvd.
      destruct (sev_value v); try discriminate. cbn [pv_eqb] in Hval. apply str_eqb_eq in Hval; subst. reflexivity.
    - destruct (omap (ivdef_of Ep) fs) as [ivs| | |] eqn:Ho; simpl in Hdef; try discriminate.
      inversion Hdef; subst d. cbn [decl_type map strip_tdef mk_name n_val].
      rewrite (ivalues_rt fs ivs Hs Ho), desc_roundtrip, custom_dirs_idem by
        first [exact Hdesc | intros a Ha; apply Hd; exact Ha].
      reflexivity.
  Qed.
End KindRoundtrip.

Theorem directive_roundtrip Ep E dd d :
  forallb siv_sdl (dd_args dd) = true -> nonempty_desc (dd_desc dd) = true ->
  def_of_ddef Ep dd = Ok d -> (forall a, In a (dd_args dd) -> default_rt Ep E a) ->
  decl_directive E d
  = [DD (dd_name dd) (dd_desc dd) (dd_locs dd) (map (decl_ivalue E) (match d with DDirective _ _ args _ _ => args | _ => [] end))]
  /\ map strip_siv (match decl_directive E d with [x] => dd_args x | _ => [] end) = map strip_siv (dd_args dd).
Proof.
  unfold def_of_ddef. intros Hs Hdesc Hdef Hd.
  destruct (omap (ivdef_of Ep) (dd_args dd)) as [ivs| | |] eqn:Ho; simpl in Hdef; try discriminate.
  inversion Hdef; subst d. cbn [decl_directive mk_name n_val dd_args].
  rewrite desc_roundtrip by exact Hdesc. rewrite map_map. cbn [n_val mk_name]. rewrite map_id.
  split; [reflexivity|]. apply (ivalues_rt Ep E _ _ Hs Ho Hd).
Qed.
