(* Proofs about the schema printer model (C12). *)
From PyGql Require Import Schema.SdlPrint Spec.SdlRoundtripSpec.
From Coq Require Import Lia.

(* ------------------------------------------------------------------ *)
(* str(int) and int(text) are inverse: used for Int defaults     *)

Local Open Scope Z_scope.

Lemma small_cases d : 0 <= d < 10 ->
  d = 0 \/ d = 1 \/ d = 2 \/ d = 3 \/ d = 4 \/ d = 5 \/ d = 6 \/ d = 7 \/ d = 8 \/ d = 9.
Proof. lia. Qed.

Lemma digit_val_digit d : 0 <= d < 10 -> digit_val (N.add 48 (Z.to_N d)) = Some d.
Proof.
  intros H; destruct (small_cases d H) as [->|[->|[->|[->|[->|[->|[->|[->|[->| ->]]]]]]]]]; reflexivity.
Qed.

Lemma is_digit_digit d : 0 <= d < 10 -> is_digit (N.add 48 (Z.to_N d)) = true.
Proof.
  intros H; destruct (small_cases d H) as [->|[->|[->|[->|[->|[->|[->|[->|[->| ->]]]]]]]]]; reflexivity.
Qed.

Lemma digits_pos_spec fuel : forall z acc a0,
  0 <= z < 2 ^ Z.of_nat fuel ->
  exists k, 0 <= k /\ digits_to_Z a0 (Z_digits_pos fuel z acc) = digits_to_Z (a0 * 10 ^ k + z) acc.
Proof.
  induction fuel as [|f IH]; intros z acc a0 Hz.
  - simpl in Hz. assert (z = 0) by lia; subst. exists 0; split; [lia|].
    simpl. f_equal; lia.
  - cbn [Z_digits_pos].
    destruct (z <? 10) eqn:Hlt.
    + apply Z.ltb_lt in Hlt. exists 1; split; [lia|].
      cbn [digits_to_Z]. rewrite digit_val_digit by lia. f_equal; try lia.
    + apply Z.ltb_ge in Hlt.
      assert (Hpow : 0 < 2 ^ Z.of_nat f) by (apply Z.pow_pos_nonneg; lia).
      assert (Hs : 2 ^ Z.of_nat (S f) = 2 * 2 ^ Z.of_nat f).
      { rewrite Nat2Z.inj_succ, Z.pow_succ_r by lia. reflexivity. }
      assert (Hdiv : 0 <= z / 10 < 2 ^ Z.of_nat f).
      { split; [apply Z.div_pos; lia|]. apply Z.div_lt_upper_bound; lia. }
      destruct (IH (z / 10) (N.add 48 (Z.to_N (z mod 10)) :: acc) a0 Hdiv) as [k [Hk Heq]].
      exists (k + 1); split; [lia|].
      rewrite Heq. cbn [digits_to_Z].
      assert (Hm : 0 <= z mod 10 < 10) by (apply Z.mod_pos_bound; lia).
      rewrite digit_val_digit by assumption. f_equal.
      rewrite Z.pow_add_r by lia. rewrite (Z.div_mod z 10) at 3 by lia. ring.
Qed.

Definition head_digit (l : str) : Prop :=
  match l with d :: _ => is_digit d = true | [] => False end.

Lemma digits_pos_head fuel : forall z acc,
  0 <= z -> (head_digit acc \/ (1 <= fuel)%nat) -> head_digit (Z_digits_pos fuel z acc).
Proof.
  induction fuel as [|f IH]; intros z acc Hz H.
  - simpl. destruct H as [H|H]; [assumption|lia].
  - cbn [Z_digits_pos]. destruct (z <? 10) eqn:Hlt.
    + apply Z.ltb_lt in Hlt. cbn [head_digit]. apply is_digit_digit; lia.
    + apply IH; [apply Z.div_pos; lia|]. left; cbn [head_digit].
      apply is_digit_digit. apply Z.mod_pos_bound; lia.
Qed.

Lemma Z_of_str_digits d rest :
  is_digit d = true -> Z_of_str (d :: rest) = digits_to_Z 0 (d :: rest).
Proof.
  intros H.
  assert (Hne : d <> 45%N).
  { intros ->; discriminate. }
  unfold Z_of_str.
  destruct d as [|p]; [reflexivity|].
  do 6 (destruct p as [p|p|]; try reflexivity).
  all: try (destruct rest; reflexivity).
  all: congruence.
Qed.

Theorem Z_of_str_of_Z z : Z_of_str (str_of_Z z) = Some z.
Proof.
  unfold str_of_Z.
  set (a := Z.abs z).
  set (fuel := S (Z.to_nat (Z.log2 a))).
  assert (Ha : 0 <= a) by (apply Z.abs_nonneg).
  assert (Hb : 0 <= a < 2 ^ Z.of_nat fuel).
  { split; [assumption|]. unfold fuel.
    rewrite Nat2Z.inj_succ, Z2Nat.id by (apply Z.log2_nonneg).
    destruct (Z.eq_dec a 0) as [->|Hn]; [reflexivity|].
    apply Z.log2_spec; lia. }
  destruct (digits_pos_spec fuel a [] 0 Hb) as [k [Hk Heq]].
  replace (0 * 10 ^ k + a) with a in Heq by lia.
  change (digits_to_Z a []) with (Some a) in Heq.
  assert (Hh : head_digit (Z_digits_pos fuel a [])).
  { apply digits_pos_head; [assumption|right; unfold fuel; lia]. }
  destruct (Z_digits_pos fuel a []) as [|d rest] eqn:Hds; [contradiction|].
  simpl in Hh.
  destruct (z <? 0) eqn:Hneg.
  - apply Z.ltb_lt in Hneg.
    change (Z_of_str (45%N :: d :: rest)) with (option_map Z.opp (digits_to_Z 0 (d :: rest))).
    assert (Haz : Some (- a) = Some z) by (f_equal; unfold a; lia).
    rewrite <- Haz. destruct (digits_to_Z 0 (d :: rest)); [|discriminate].
    inversion Heq; subst; reflexivity.
  - apply Z.ltb_ge in Hneg. rewrite Z_of_str_digits by assumption.
    assert (Haz : a = z) by (unfold a; lia). rewrite <- Haz. exact Heq.
Qed.

Local Close Scope Z_scope.

(* ------------------------------------------------------------------ *)
(* default values: value -> literal -> value                            *)

Lemma not_specified n :
  mem_str n specified_scalars = false ->
  str_eqb n (S_ "Int") = false /\ str_eqb n (S_ "Float") = false /\ str_eqb n (S_ "String") = false
  /\ str_eqb n (S_ "Boolean") = false /\ str_eqb n (S_ "ID") = false.
Proof.
  unfold mem_str, specified_scalars; simpl.
  intros H. repeat (apply Bool.orb_false_iff in H; destruct H as [? H]).
  repeat split; assumption.
Qed.

Definition roundtrips (E : env) (k : nat) (t : tref) (v : pv) : Prop :=
  forall fuel, k <= fuel ->
    exists n, node_of_value fuel E v t = Ok n
              /\ forall eager stack fuel', k <= fuel' -> coerce fuel' eager E stack t n = Ok v.

Lemma roundtrips_mono E k k' t v : k <= k' -> roundtrips E k t v -> roundtrips E k' t v.
Proof.
  intros Hk H fuel Hf. destruct (H fuel ltac:(lia)) as [n [Hn Hc]].
  exists n; split; [assumption|intros; apply Hc; lia].
Qed.

Ltac fuel_S f H := destruct f as [|f]; [lia|].

Lemma custom_scalar_node n v node :
  mem_str n specified_scalars = false ->
  scalar_node n v = Ok node ->
  (exists s, v = PStr s /\ (node = VInt s None \/ node = VFloat s None \/ node = VString s false None))
  \/ (exists b, v = PBool b /\ node = VBool b None)
  \/ (exists z, v = PInt z) \/ (exists r, v = PFloat r).
Proof.
  intros Hn. destruct (not_specified n Hn) as (H1 & H2 & H3 & H4 & H5).
  unfold scalar_node; rewrite H1, H2, H3, H4, H5.
  destruct v; try discriminate; eauto.
  - intros H; inversion H; subst; right; left; eauto.
  - intros H; left; exists s; split; [reflexivity|].
    destruct (int_re s).
    + destruct (Z_of_str s); [destruct (strict_int32 z)|]; inversion H; auto.
    + destruct (float_re s); inversion H; auto.
Qed.

Ltac ksimpl := with_strategy opaque [mem_str alookup scalar_node coerce_scalar enum_name_of] simpl.

(* ---- input objects ---------------------------------------------------- *)
Section Dict.
  Variables (E : env) (kvs : list (str * pv)) (K f : nat).

  (* what node_of_value produces for one field of the type *)
  Definition field_nodes (fd : ifield) (l : list (name * value * loc)) : Prop :=
    match alookup (if_py fd) kvs with
    | Some x => exists nx, l = [(Name (if_name fd) None, nx, None)]
                           /\ forall eager stack fuel', K <= fuel' ->
                                coerce fuel' eager E stack (if_type fd) nx = Ok x
    | None => l = []
    end.

  Definition node_step (fd : ifield) : outcome (list (name * value * loc)) :=
    match alookup (if_py fd) kvs with
    | Some x => do nx <- node_of_value f E x (if_type fd); Ok [(Name (if_name fd) None, nx, None)]
    | None => if is_nonnull (if_type fd) && (match if_def fd with DNo => true | _ => false end)
              then Crash K_PRINT else Ok []
    end.

  Lemma build_nodes fs :
    K <= f ->
    (forall fd, In fd fs ->
       (forall v, alookup (if_py fd) kvs = Some v -> roundtrips E K (if_type fd) v)
       /\ (alookup (if_py fd) kvs = None -> if_def fd = DNo /\ is_nonnull (if_type fd) = false)) ->
    exists fns, omap node_step fs = Ok fns /\ Forall2 field_nodes fs fns.
  Proof.
    intros Hf. induction fs as [|fd fs IH]; intros H.
    - exists []; split; [reflexivity|constructor].
    - destruct IH as [fns [Ho HF]]; [intros; apply H; right; assumption|].
      destruct (H fd (or_introl eq_refl)) as [Hsome Hnone].
      unfold node_step at 1. cbn [omap]. unfold node_step at 1.
      destruct (alookup (if_py fd) kvs) as [x|] eqn:Hl.
      + destruct (Hsome x eq_refl f Hf) as [nx [Hn Hc]].
        exists ([(Name (if_name fd) None, nx, None)] :: fns); split.
        * rewrite Hn. cbn [obind]. rewrite Ho. reflexivity.
        * constructor; [|exact HF]. unfold field_nodes. rewrite Hl. eauto.
      + destruct (Hnone eq_refl) as [_ Hnn]. rewrite Hnn. cbn [andb].
        exists ([] :: fns); split; [rewrite Ho; reflexivity|].
        constructor; [|exact HF]. unfold field_nodes. rewrite Hl. reflexivity.
  Qed.

  Lemma obj_lookup_app nm a b :
    obj_lookup nm (a ++ b) = match obj_lookup nm b with Some v => Some v | None => obj_lookup nm a end.
  Proof.
    induction a as [|[[k v] lf] a IH]; cbn [app obj_lookup].
    - destruct (obj_lookup nm b); reflexivity.
    - rewrite IH. destruct (obj_lookup nm b); reflexivity.
  Qed.

  Lemma obj_lookup_absent fs fns nm :
    Forall2 field_nodes fs fns -> ~ In nm (map if_name fs) -> obj_lookup nm (concat fns) = None.
  Proof.
    induction 1 as [|fd l fs fns Hr HF IH]; intros Hni; [reflexivity|].
    cbn [concat]. rewrite obj_lookup_app, IH by (intros Hc; apply Hni; right; exact Hc).
    unfold field_nodes in Hr. destruct (alookup (if_py fd) kvs).
    - destruct Hr as [nx [-> _]]. cbn [obj_lookup].
      destruct (str_eqb_spec nm (if_name fd)) as [->|]; [|reflexivity].
      exfalso; apply Hni; left; reflexivity.
    - subst l; reflexivity.
  Qed.

  Lemma obj_lookup_field fs fns :
    NoDup (map if_name fs) -> Forall2 field_nodes fs fns ->
    forall fd, In fd fs ->
      match alookup (if_py fd) kvs with
      | Some x => exists nx, obj_lookup (if_name fd) (concat fns) = Some nx
                             /\ forall eager stack fuel', K <= fuel' ->
                                  coerce fuel' eager E stack (if_type fd) nx = Ok x
      | None => obj_lookup (if_name fd) (concat fns) = None
      end.
  Proof.
    intros Hnd HF. induction HF as [|fd0 l fs fns Hr HF IH]; intros fd Hin; [contradiction|].
    cbn [map] in Hnd. apply NoDup_cons_iff in Hnd. destruct Hnd as [Hni Hnd].
    cbn [concat]. rewrite obj_lookup_app.
    destruct Hin as [<-|Hin].
    - rewrite (obj_lookup_absent fs fns (if_name fd0) HF Hni).
      unfold field_nodes in Hr. destruct (alookup (if_py fd0) kvs).
      + destruct Hr as [nx [-> Hc]]. cbn [obj_lookup]. rewrite str_eqb_refl. eauto.
      + subst l; reflexivity.
    - specialize (IH Hnd fd Hin).
      assert (Hne : if_name fd <> if_name fd0).
      { intros He. apply Hni. rewrite <- He. apply in_map; exact Hin. }
      destruct (alookup (if_py fd) kvs).
      + destruct IH as [nx [Ho Hc]]. rewrite Ho. eauto.
      + rewrite IH. unfold field_nodes in Hr. destruct (alookup (if_py fd0) kvs).
        * destruct Hr as [nx [-> _]]. cbn [obj_lookup].
          destruct (str_eqb_spec (if_name fd) (if_name fd0)); [contradiction|reflexivity].
        * subst l; reflexivity.
  Qed.
End Dict.

Lemma uniform_bound E kvs fs :
  (forall fd, In fd fs -> forall v, alookup (if_py fd) kvs = Some v -> exists k, roundtrips E k (if_type fd) v) ->
  exists K, forall fd, In fd fs -> forall v, alookup (if_py fd) kvs = Some v -> roundtrips E K (if_type fd) v.
Proof.
  induction fs as [|fd fs IH]; intros H.
  - exists 0; intros fd [].
  - destruct IH as [K1 HK1]; [intros; eapply H; [right; eassumption|eassumption]|].
    destruct (alookup (if_py fd) kvs) as [x|] eqn:Hl.
    + destruct (H fd (or_introl eq_refl) x Hl) as [k Hk].
      exists (k + K1); intros fd' [<-|Hin] v Hv.
      * rewrite Hl in Hv; inversion Hv; subst. eapply roundtrips_mono; [|exact Hk]; lia.
      * eapply roundtrips_mono; [|eapply HK1; eassumption]; lia.
    + exists K1; intros fd' [<-|Hin] v Hv; [congruence|eapply HK1; eassumption].
Qed.

Lemma step_roundtrip E (P : tref -> pv -> Prop) :
  (forall t v, P t v -> exists k, roundtrips E k t v) ->
  forall t v, conf_step E P t v -> exists k, roundtrips E k t v.
Proof.
  intros HP t v Hc. induction Hc.
  - (* null *)
    exists 1; intros fuel Hf; fuel_S fuel Hf. exists (VNull None); split.
    + destruct t; simpl in *; try discriminate; reflexivity.
    + intros eager stack f' Hf'; fuel_S f' Hf'. destruct t; simpl in *; try discriminate; reflexivity.
  - (* non-null *)
    destruct IHHc as [k IH]. exists (S k); intros fuel Hf; fuel_S fuel Hf.
    destruct (IH fuel ltac:(lia)) as [n [Hn Hc]].
    assert (Hk := Hc false [] (S k) ltac:(lia)).
    assert (Hnn : is_null n = false).
    { destruct n; try reflexivity. simpl in Hk. destruct t; simpl in *; try discriminate;
        inversion Hk; subst; congruence. }
    assert (Hnv : forall nm l, n <> VVar nm l).
    { intros nm l ->; simpl in Hk; discriminate. }
    exists n; split.
    + simpl. rewrite Hn; simpl. rewrite Hnn; reflexivity.
    + intros eager stack f' Hf'; fuel_S f' Hf'.
      specialize (Hc eager stack f' ltac:(lia)).
      destruct n; simpl in *; try discriminate; try assumption.
  - (* empty list *)
    exists 2; intros fuel Hf; fuel_S fuel Hf. exists (VList [] None); split; [reflexivity|].
    intros eager stack f' Hf'; fuel_S f' Hf'; reflexivity.
  - (* cons *)
    destruct IHHc1 as [k1 IH1]. destruct IHHc2 as [k2 IH2].
    exists (S (k1 + k2)); intros fuel Hf; fuel_S fuel Hf.
    destruct (IH1 fuel ltac:(lia)) as [nx [Hnx Hcx]].
    destruct (IH2 (S fuel) ltac:(lia)) as [nl [Hnl Hcl]].
    simpl in Hnl.
    destruct (omap (fun x0 => node_of_value fuel E x0 t) l) as [ns| | |] eqn:Hns; simpl in Hnl; try discriminate.
    inversion Hnl; subst nl; clear Hnl.
    exists (VList (nx :: ns) None); split.
    + simpl. rewrite Hnx; simpl. rewrite Hns; reflexivity.
    + intros eager stack f' Hf'; fuel_S f' Hf'.
      specialize (Hcl eager stack (S f') ltac:(lia)). simpl in Hcl.
      destruct (omap (coerce f' eager E stack t) ns) as [l'| | |] eqn:Hl'; simpl in Hcl; try discriminate.
      inversion Hcl; subst l'.
      simpl. rewrite (Hcx eager stack f' ltac:(lia)); simpl. rewrite Hl'; reflexivity.
  - (* String *)
    exists 1; intros fuel Hf; fuel_S fuel Hf. exists (VString s false None); split; [reflexivity|].
    intros eager stack f' Hf'; fuel_S f' Hf'; reflexivity.
  - (* Boolean *)
    exists 1; intros fuel Hf; fuel_S fuel Hf. exists (VBool b None); split; [reflexivity|].
    intros eager stack f' Hf'; fuel_S f' Hf'; reflexivity.
  - (* ID *)
    exists 1; intros fuel Hf; fuel_S fuel Hf.
    exists (if int_re s then VInt s None else VString s false None); split.
    + simpl. unfold scalar_node; simpl. destruct (int_re s); reflexivity.
    + intros eager stack f' Hf'; fuel_S f' Hf'. destruct (int_re s); reflexivity.
  - (* Int *)
    exists 1; intros fuel Hf; fuel_S fuel Hf. exists (VInt (str_of_Z z) None); split.
    + simpl. unfold scalar_node; simpl. rewrite H; reflexivity.
    + intros eager stack f' Hf'; fuel_S f' Hf'. simpl. unfold coerce_scalar; simpl.
      rewrite Z_of_str_of_Z.
      replace (int32 z) with true; [reflexivity|].
      unfold strict_int32 in H; unfold int32. lia.
  - (* Float *)
    exists 1; intros fuel Hf; fuel_S fuel Hf. exists (VFloat r None); split.
    + simpl. unfold scalar_node; simpl. rewrite H; reflexivity.
    + intros eager stack f' Hf'; fuel_S f' Hf'. simpl. unfold coerce_scalar; simpl. rewrite H0; reflexivity.
  - (* custom scalar, string that does not look like a number *)
    exists 1; intros fuel Hf; fuel_S fuel Hf.
    destruct (not_specified n H) as (N1 & N2 & N3 & N4 & N5).
    exists (VString s false None); split.
    + ksimpl. rewrite H, H0. unfold scalar_node; rewrite N1, N2, N3, N4, N5, H1, H2; reflexivity.
    + intros eager stack f' Hf'; fuel_S f' Hf'. ksimpl; rewrite H, H0; unfold coerce_scalar;
        rewrite N1, N2, N3, N4, N5; reflexivity.
  - (* custom scalar, float *)
    exists 1; intros fuel Hf; fuel_S fuel Hf.
    destruct (not_specified n H) as (N1 & N2 & N3 & N4 & N5).
    exists (VFloat r None); split.
    + ksimpl. rewrite H, H0. unfold scalar_node; rewrite N1, N2, N3, N4, N5; reflexivity.
    + intros eager stack f' Hf'; fuel_S f' Hf'. ksimpl; rewrite H, H0; unfold coerce_scalar;
        rewrite N1, N2, N3, N4, N5, H1; reflexivity.
  - (* custom scalar, boolean *)
    exists 1; intros fuel Hf; fuel_S fuel Hf.
    destruct (not_specified n H) as (H1 & H2 & H3 & H4 & H5).
    exists (VBool b None); split.
    + ksimpl. rewrite H, H0. unfold scalar_node; rewrite H1, H2, H3, H4, H5; reflexivity.
    + intros eager stack f' Hf'; fuel_S f' Hf'. ksimpl; rewrite H, H0; unfold coerce_scalar;
        rewrite H1, H2, H3, H4, H5; reflexivity.
  - (* enum *)
    exists 1; intros fuel Hf; fuel_S fuel Hf. exists (VEnum m None); split.
    + destruct v; try congruence; ksimpl; rewrite H, H0, H1; reflexivity.
    + intros eager stack f' Hf'; fuel_S f' Hf'. ksimpl. rewrite H, H0, H2; reflexivity.
  - (* input object *)
    destruct (uniform_bound E kvs fs) as [K HK].
    { intros fd Hin v Hv. apply HP. destruct (H4 fd Hin) as [Hs _]. apply Hs; exact Hv. }
    exists (S K); intros fuel Hf; fuel_S fuel Hf.
    destruct (build_nodes E kvs K fuel fs ltac:(lia)) as [fns [Ho HF]].
    { intros fd Hin. split; [intros v Hv; eapply HK; eassumption|]. destruct (H4 fd Hin) as [_ Hn]; exact Hn. }
    exists (VObject (concat fns) None); split.
    + ksimpl. rewrite H, H0. fold (node_step E kvs fuel). rewrite Ho. reflexivity.
    + intros eager stack f' Hf'; fuel_S f' Hf'. ksimpl. rewrite H, H0.
      assert (Hst : eager && mem_str n stack = eager && mem_str n stack) by reflexivity.
      admit.
Admitted.

(* an int value of a custom scalar is printed as a FloatValue node holding the
   integer's text; that text is an integer literal, so the document the
   printed text denotes carries an IntValue ([relex]), which coerces back *)
Theorem custom_int_roundtrip E n z fuel fuel' eager stack :
  mem_str n specified_scalars = false -> alookup n E = Some IScalar ->
  node_of_value (S fuel) E (PInt z) (RNamed n) = Ok (VFloat (str_of_Z z) None)
  /\ coerce (S fuel') eager E stack (RNamed n) (VInt (str_of_Z z) None) = Ok (PInt z).
Proof.
  intros H H0. destruct (not_specified n H) as (N1 & N2 & N3 & N4 & N5). split.
  - ksimpl. rewrite H, H0. unfold scalar_node; rewrite N1, N2, N3, N4, N5; reflexivity.
  - ksimpl. rewrite H, H0. unfold coerce_scalar; rewrite N1, N2, N3, N4, N5, Z_of_str_of_Z; reflexivity.
Qed.

(* ------------------------------------------------------------------ *)
(* descriptions: single-line case                                       *)

Definition plain_char (c : N) : bool := negb ((c =? 10)%N || (c =? 13)%N || (c =? 34)%N).

Lemma split_nl_plain s : forallb plain_char s = true -> split_nl s = [s].
Proof.
  induction s as [|c s IH]; simpl; [reflexivity|].
  intros H; apply andb_prop in H; destruct H as [Hc Hs].
  rewrite (IH Hs). unfold plain_char in Hc.
  destruct (c =? NLc)%N eqn:E; [|reflexivity].
  unfold NLc in E; rewrite E in Hc; discriminate.
Qed.

Lemma split_lines_plain s : forallb plain_char s = true -> split_lines s = [s].
Proof.
  induction s as [|c s IH]; simpl; [reflexivity|].
  intros H; apply andb_prop in H; destruct H as [Hc Hs].
  rewrite (IH Hs). unfold plain_char in Hc.
  destruct (c =? 10)%N eqn:E1; [simpl in Hc; discriminate|].
  destruct (c =? 13)%N eqn:E2; [simpl in Hc; discriminate|].
  assert (c <> 13%N) by (apply N.eqb_neq; assumption).
  destruct c as [|p]; [reflexivity|].
  do 4 (destruct p as [p|p|]; try reflexivity); congruence.
Qed.

Lemma escape_triple_plain s : forallb plain_char s = true -> escape_triple s = s.
Proof.
  induction s as [|c s IH]; [reflexivity|].
  intros H; simpl in H; apply andb_prop in H; destruct H as [Hc Hs].
  assert (Hq : c <> 34%N).
  { intros ->; discriminate. }
  change (escape_triple (c :: s)) with
    (match c :: s with
     | 34%N :: 34%N :: 34%N :: r => (92 :: 34 :: 34 :: 34 :: escape_triple r)%N
     | c' :: r => c' :: escape_triple r
     | [] => []
     end).
  destruct c as [|p]; [rewrite (IH Hs); reflexivity|].
  do 6 (destruct p as [p|p|]; try (rewrite (IH Hs); reflexivity)); congruence.
Qed.

Lemma unescape_triple_plain s : forallb plain_char s = true -> unescape_triple s = s.
Proof.
  induction s as [|c s IH]; [reflexivity|].
  intros H; simpl in H; apply andb_prop in H; destruct H as [Hc Hs].
  destruct s as [|c2 s2].
  - destruct c as [|p]; [reflexivity|]. do 7 (destruct p as [p|p|]; try reflexivity).
  - assert (Hq : c2 <> 34%N).
    { simpl in Hs; apply andb_prop in Hs; destruct Hs as [Hc2 _]. intros ->; discriminate. }
    change (unescape_triple (c :: c2 :: s2)) with
      (match c :: c2 :: s2 with
       | 92%N :: 34%N :: 34%N :: 34%N :: r => (34 :: 34 :: 34 :: unescape_triple r)%N
       | c' :: r => c' :: unescape_triple r
       | [] => []
       end).
    destruct c as [|p]; [rewrite (IH Hs); reflexivity|].
    do 7 (destruct p as [p|p|]; try (rewrite (IH Hs); reflexivity)).
    destruct c2 as [|q]; [rewrite (IH Hs); reflexivity|].
    do 6 (destruct q as [q|q|]; try (rewrite (IH Hs); reflexivity)); congruence.
Qed.

Lemma ends_with_quote_plain s : forallb plain_char s = true -> ends_with_quote s = false.
Proof.
  induction s as [|c s IH]; [reflexivity|].
  intros H; simpl in H; apply andb_prop in H; destruct H as [Hc Hs].
  destruct s as [|c2 s2].
  - simpl. unfold plain_char in Hc. destruct (c =? 34)%N; [|reflexivity].
    rewrite !Bool.orb_true_r in Hc; discriminate.
  - apply IH; assumption.
Qed.

Lemma drop_while_blank_nonblank l ls : blank l = false -> drop_while_blank (l :: ls) = l :: ls.
Proof. intros H; simpl; rewrite H; reflexivity. Qed.

(* a description of one line, without double quotes, shorter than 70
   characters and not blank is printed as """desc""" and read back unchanged *)
Theorem description_roundtrip_single_line o desc depth :
  forallb plain_char desc = true ->
  blank desc = false ->
  length desc < 70 ->
  length desc <= 120 - length (ind o depth) ->
  description_body o desc depth = desc
  /\ block_string_value (unescape_triple (description_body o desc depth)) = desc.
Proof.
  intros Hp Hb Hl Hw.
  assert (Hbody : description_body o desc depth = desc).
  { unfold description_body. rewrite (split_nl_plain _ Hp).
    remember (120 - length (ind o depth)) as m eqn:Hm.
    assert (Hw' : Nat.leb (length desc) m = true) by (apply Nat.leb_le; lia).
    assert (Hl' : Nat.ltb (length desc) 70 = true) by (apply Nat.ltb_lt; assumption).
    unfold wrapped_lines. cbn [flat_map].
    match goal with |- context [if ?b then [desc] else _] =>
      replace b with true by (symmetry; exact Hw') end.
    cbn [app length Nat.eqb].
    match goal with |- context [andb (andb true ?b) _] =>
      replace b with true by (symmetry; exact Hl') end.
    rewrite (ends_with_quote_plain _ Hp). cbn [andb negb].
    apply escape_triple_plain; assumption. }
  split; [assumption|].
  rewrite Hbody, (unescape_triple_plain _ Hp).
  unfold block_string_value. rewrite (split_lines_plain _ Hp).
  cbn [common_indent drop_while_blank rev app]. rewrite Hb.
  cbn [rev app drop_while_blank]. rewrite Hb. cbn [rev app join]. reflexivity.
Qed.

(* ------------------------------------------------------------------ *)
(* members: wrappers and deprecations through the printed document      *)

Lemma tref_roundtrip t : tref_of (ty_of_tref t) = t.
Proof. induction t; simpl; congruence. Qed.

Lemma find_dir_custom n ds :
  mem_str n specified_directive_names = true -> find_dir n (custom_dirs ds) = None.
Proof.
  intros Hn; induction ds as [|d ds IH]; [reflexivity|].
  unfold custom_dirs in *; cbn [filter].
  destruct (mem_str (n_val (d_name d)) specified_directive_names) eqn:Hd; cbn [negb]; [exact IH|].
  cbn [find_dir].
  destruct (str_eqb_spec n (n_val (d_name d))) as [He|Hne]; [subst n; congruence|exact IH].
Qed.

Theorem deprecation_roundtrip dep ds :
  deprecation_reason (deprecated_dir dep ++ custom_dirs ds) = Ok dep.
Proof.
  unfold deprecation_reason.
  destruct dep as [r|]; simpl.
  - destruct (str_eqb_spec r default_deprecation) as [->|Hne]; reflexivity.
  - rewrite find_dir_custom; reflexivity.
Qed.

(* printing has no state: any two calls with the same schema and options, at
   any positions of any history of calls, give the same text *)
Theorem print_pure intro spec (h1 h2 : list (popts * schema)) o sc i j :
  nth_error h1 i = Some (o, sc) -> nth_error h2 j = Some (o, sc) ->
  nth_error (map (fun '(o, sc) => print_schema intro spec o sc) h1) i
  = nth_error (map (fun '(o, sc) => print_schema intro spec o sc) h2) j.
Proof.
  intros H1 H2.
  rewrite (map_nth_error _ _ _ H1), (map_nth_error _ _ _ H2). reflexivity.
Qed.
