(* Rendering a syntax error never fails once the position is clamped. *)
From PyGql Require Import Lang.Loc Spec.LexSpec Proofs.BlockStringProofs.
Local Open Scope N_scope.

Fixpoint count_lf (s : str) : nat :=
  match s with [] => O | c :: r => if c =? 10 then S (count_lf r) else count_lf r end.

Lemma itl_loop_bounds : forall body offset position lines cols l c,
  itl_loop body offset position lines cols = (l, c) ->
  (S lines <= l /\ l <= S lines + count_lf body /\ 1 <= c)%nat.
Proof.
  induction body as [|ch r IH]; intros offset position lines cols l c H; simpl in H.
  - inversion H; subst. simpl. lia.
  - destruct (Nat.eqb offset position); [inversion H; subst; simpl; destruct (ch =? 10); lia|].
    simpl. destruct (ch =? 10); apply IH in H; lia.
Qed.

Lemma spec_lines_count raw : (S (count_lf raw) <= length (spec_lines raw))%nat.
Proof.
  induction raw as [|c r IH]; simpl; [lia|].
  destruct (N.eqb_spec c 10) as [->|Hc]; [simpl; lia|].
  destruct (c =? 13).
  - destruct r as [|d r']; [simpl in *; lia|]. destruct (d =? 10); simpl in *; lia.
  - pose proof (spec_lines_nonempty r). destruct (spec_lines r); [congruence|simpl in *; lia].
Qed.

Theorem render_total source position :
  exists l c, index_to_loc source (render_position source position) = Some (l, c)
              /\ (1 <= l)%nat /\ (1 <= c)%nat /\ (l <= length (split_lines source))%nat.
Proof.
  unfold index_to_loc, render_position. rewrite split_lines_spec.
  pose proof (spec_lines_count source) as Hc.
  destruct source as [|ch r].
  - simpl. rewrite Nat.min_0_r. exists 1%nat, 1%nat. simpl. repeat split; lia.
  - remember (Nat.min position (length (ch :: r))) as p.
    assert (Hp : (p <= length (ch :: r))%nat) by (subst; apply Nat.le_min_r).
    destruct (Nat.ltb_spec (length (ch :: r)) p); [lia|].
    destruct (itl_loop (ch :: r) 0 p 0 0) as [l c] eqn:E.
    apply itl_loop_bounds in E.
    exists l, c. split; [destruct p; reflexivity|]. lia.
Qed.
