(* C03 -- the round trip with no well-formedness hypothesis left: what the
   parser model accepts is well-formed (C01: Proofs/ParseOutputWf.v), and
   well-formed trees round-trip (Proofs/Printer*Roundtrip.v). *)
From PyGql Require Import Lang.Parser Spec.LexSpec Spec.GrammarSpec Spec.DocGrammarSpec Spec.ExecOnlySpec
                          Proofs.EntryProofs Proofs.ParseOutputWf.
From PyGql Require Import Lang.PrinterModel Spec.PrinterSpec Proofs.PrinterProofs Proofs.PrinterRoundtrip
                          Proofs.PrinterValueRoundtrip Proofs.PrinterExecRoundtrip.

Lemma wf_def_mono d : wf_def false d -> wf_def true d.
Proof.
  destruct d; simpl; auto. intros (H1 & H2 & H3 & H4). repeat split; try tauto.
  subst. constructor.
Qed.

Lemma wf_exec_doc_flag fv fv' d : (fv = true -> fv' = true) -> wf_exec_doc fv d -> wf_exec_doc fv' d.
Proof.
  intros Hf [Hne Hwf]. split; [assumption|]. destruct fv.
  - rewrite (Hf eq_refl). assumption.
  - destruct fv'; [|assumption]. apply Forall_forall. intros x Hx. apply wf_def_mono.
    rewrite Forall_forall in Hwf. auto.
Qed.

(* For every executable document the parser accepts (under any flags), every
   indent of spaces and tabs: printing it and parsing the text again (locations
   off; fragment variables allowed if they were) gives the same document up
   to positions. *)
Theorem roundtrip_exec_closed fl fl' s d ind :
  parse_document fl s = Ok d -> exec_only d -> all_ws ind ->
  no_location fl' = true -> (fragment_variables fl = true -> fragment_variables fl' = true) ->
  parse_document fl' (print_ast ind true d) = Ok (strip_doc d).
Proof.
  intros Hp Hex Hind Hnl Hfv. apply exec_roundtrip; [assumption|assumption|].
  apply (wf_exec_doc_flag (fragment_variables fl)); [assumption|].
  eapply parse_output_wf; eassumption.
Qed.

(* print (parse (print d)) = print d *)
Theorem idempotent_exec_closed fl fl' s d d' ind :
  parse_document fl s = Ok d -> exec_only d -> all_ws ind ->
  no_location fl' = true -> (fragment_variables fl = true -> fragment_variables fl' = true) ->
  parse_document fl' (print_ast ind true d) = Ok d' ->
  print_ast ind true d' = print_ast ind true d.
Proof.
  intros Hp Hex Hind Hnl Hfv Hp'.
  rewrite (roundtrip_exec_closed fl fl' s d ind Hp Hex Hind Hnl Hfv) in Hp'.
  inversion Hp'; subst. apply pr_document_strip.
Qed.

Lemma whole_twf ts body : Forall tok_wf ts -> whole ts body -> Forall tok_wf body.
Proof.
  intros H (sof & eof & _ & _ & ->). inversion H as [|? ? _ H']; subst.
  apply Forall_app in H'. tauto.
Qed.

Theorem roundtrip_value_closed fl fl' cf s v :
  parse_value_str fl s = Ok v -> all_ws (c_indent cf) -> no_location fl' = true ->
  parse_value_str fl' (pr_value cf v) = Ok (strip_value v).
Proof.
  intros Hp Hind Hnl. apply value_roundtrip; [assumption|assumption|].
  destruct (parse_value_str_sound fl s v Hp) as (ts & body & Hl & Hw & Dv).
  eapply D_value_wf; [exact Dv|]. eapply whole_twf; [eapply lex_tok_wf; exact Hl|exact Hw].
Qed.

Theorem roundtrip_type_closed fl fl' s t :
  parse_type_str fl s = Ok t -> no_location fl' = true ->
  parse_type_str fl' (pr_type t) = Ok (strip_ty t).
Proof.
  intros Hp Hnl. apply type_roundtrip; [assumption|].
  destruct (parse_type_str_sound fl s t Hp) as (ts & body & Hl & Hw & Dt).
  eapply D_type_wf; [exact Dt|]. eapply whole_twf; [eapply lex_tok_wf; exact Hl|exact Hw].
Qed.

(* ------------------------------------------------------------------ complete documents *)
From PyGql Require Import Spec.SdlGrammarSpec Proofs.SdlEntryProofs Proofs.PrinterSdlRoundtrip.

Section SdlWf.
  Variable nl : bool.
  Notation twf := (Forall tok_wf).

  Ltac twf_split :=
    repeat match goal with
           | H : twf (_ ++ _) |- _ => apply Forall_app in H; destruct H
           | H : twf (_ :: _) |- _ => let a := fresh "Ht" in let b := fresh "Hr" in
                                      inversion H as [|? ? a b]; subst; clear H
           end.

  Lemma D_description_wf ts desc : D_description nl ts desc -> twf ts -> wf_desc desc.
  Proof.
    intros H Ht. destruct H as [|t Hk|t Hk]; simpl; auto.
    twf_split. destruct Ht0 as (_ & _ & _ & Hb). apply Hb. assumption.
  Qed.

  Lemma D_description_none ts desc : D_description nl ts desc -> desc = None \/ exists s, desc = Some s.
  Proof. intros H. destruct H; eauto. Qed.

  Lemma D_default_wf ts dv : D_default nl ts dv -> twf ts ->
    match dv with Some d => wf_value true d | None => True end.
  Proof. intros H Ht. destruct H as [|eq vts v Ke Dv]; [exact I|]. twf_split. eapply D_value_wf; eassumption. Qed.

  Lemma D_input_value_wf ts i : D_input_value nl ts i -> twf ts -> wf_ivdef i.
  Proof.
    intros H Ht. destruct H as [dsts desc n colon tyts t defts dv dts dirs Hd Hk Hc HT HD HDs].
    twf_split. repeat split; simpl.
    - apply tok_name; assumption.
    - eapply D_type_wf; eassumption.
    - eapply D_default_wf; eassumption.
    - eapply D_directives_wf; eassumption.
  Qed.

  Lemma D_opt_block_wf {A} (R : list ptok -> A -> Prop) (Q : A -> Prop) o c ts xs :
    D_opt_block R o c ts xs -> (forall ts x, R ts x -> twf ts -> Q x) -> twf ts -> Forall Q xs.
  Proof.
    intros H HR Ht. destruct H as [|op body cl xs Ho Hc HL Hne]; [constructor|].
    twf_split. eapply D_list_wf; eassumption.
  Qed.

  Lemma D_field_def_wf ts f : D_field_def nl ts f -> twf ts -> wf_fdef f.
  Proof.
    intros H Ht. destruct H as [dsts desc n ats args colon tyts t dts dirs Hd Hk Ha Hc HT HDs].
    twf_split. repeat split; simpl.
    - apply tok_name; assumption.
    - eapply D_opt_block_wf; [exact Ha|apply D_input_value_wf|assumption].
    - eapply D_type_wf; eassumption.
    - eapply D_directives_wf; eassumption.
  Qed.

  Lemma D_enum_value_wf ts e : D_enum_value nl ts e -> twf ts -> wf_evdef e.
  Proof.
    intros H Ht. destruct H as [dsts desc n dts dirs Hd Hk Hres HDs]. twf_split. repeat split; simpl.
    - apply tok_name; assumption.
    - assumption.
    - eapply D_directives_wf; eassumption.
  Qed.

  Lemma D_op_type_def_wf ts o : D_op_type_def nl ts o -> twf ts -> wf_otdef o.
  Proof.
    intros H Ht. destruct H as [k kind colon n Hk Hc Hn]. twf_split.
    eexists _, _. split; [reflexivity|]. simpl. apply tok_name; assumption.
  Qed.

  Lemma D_sep_named_wf delim ts tys : D_sep_list (D_named_type nl) delim ts tys -> twf ts -> Forall wf_named tys.
  Proof.
    intros H. induction H as [ts x Hx|ts x d ts' xs Hx Hd Hxs IH]; intros Ht.
    - destruct Hx as [n Hk]. twf_split. repeat constructor. simpl. apply tok_name; assumption.
    - twf_split. constructor; [|apply IH; assumption].
      destruct Hx as [n Hk]. twf_split. simpl. apply tok_name; assumption.
  Qed.

  Lemma D_sep_locations_wf ts locs :
    D_sep_list (D_directive_location nl) KPipe ts locs -> locs <> [] /\ Forall wf_location locs.
  Proof.
    intros H. induction H as [ts x Hx|ts x d ts' xs Hx Hd Hxs IH].
    - split; [discriminate|]. destruct Hx as [n Hk Hin]. constructor; [exact Hin|constructor].
    - split; [discriminate|]. constructor; [|apply IH]. destruct Hx as [n Hk Hin]. exact Hin.
  Qed.

  Lemma D_op_types_wf ts ots : D_op_types nl ts ots -> twf ts -> ots <> [] /\ Forall wf_otdef ots.
  Proof.
    intros H Ht. destruct H as [o body cl ots Ho Hc HL Hne]. twf_split. split; [assumption|].
    eapply D_list_wf; [exact HL|apply D_op_type_def_wf|assumption].
  Qed.

  Lemma desc_wfd desc ts : D_description nl ts desc -> twf ts -> wfd false desc.
  Proof. intros H Ht. split; [discriminate|eapply D_description_wf; eassumption]. Qed.

  Lemma tsd_wf ts d : D_type_system_definition nl ts d -> twf ts -> wf_sdef d.
  Proof.
    intros H Ht. destruct H; twf_split; simpl.
    - destruct (D_op_types_wf _ _ H1 ltac:(assumption)) as [Hne Ho].
      repeat split; [eapply D_directives_wf; eassumption|assumption|assumption].
    - repeat split; [discriminate|eapply D_description_wf; eassumption|apply tok_name; assumption
                    |eapply D_directives_wf; eassumption|discriminate].
    - repeat split; [discriminate|eapply D_description_wf; eassumption|apply tok_name; assumption| |
                     eapply D_directives_wf; eassumption| |discriminate].
      + match goal with Hi : D_implements _ _ _ |- _ => inversion Hi as [|k0 lead tys0 tys Hw Hl Hs]; subst end;
          [constructor|]. twf_split. eapply D_sep_named_wf; eassumption.
      + eapply D_opt_block_wf; [eassumption|apply D_field_def_wf|assumption].
    - repeat split; [discriminate|eapply D_description_wf; eassumption|apply tok_name; assumption
                    |eapply D_directives_wf; eassumption| |discriminate].
      eapply D_opt_block_wf; [eassumption|apply D_field_def_wf|assumption].
    - repeat split; [discriminate|eapply D_description_wf; eassumption|apply tok_name; assumption
                    |eapply D_directives_wf; eassumption| |discriminate].
      match goal with Hi : D_union_members _ _ _ |- _ => inversion Hi as [|eq0 lead lts0 tys1 Hw Hl Hs]; subst end;
        [constructor|]. twf_split. eapply D_sep_named_wf; eassumption.
    - repeat split; [discriminate|eapply D_description_wf; eassumption|apply tok_name; assumption
                    |eapply D_directives_wf; eassumption| |discriminate].
      eapply D_opt_block_wf; [eassumption|apply D_enum_value_wf|assumption].
    - repeat split; [discriminate|eapply D_description_wf; eassumption|apply tok_name; assumption
                    |eapply D_directives_wf; eassumption| |discriminate].
      eapply D_opt_block_wf; [eassumption|apply D_input_value_wf|assumption].
    - match goal with Hs : D_sep_list (D_directive_location nl) KPipe _ _ |- _ =>
        destruct (D_sep_locations_wf _ _ Hs) as [Hne Hl] end.
      repeat split; [eapply D_description_wf; eassumption|apply tok_name; assumption| |assumption|assumption].
      eapply D_opt_block_wf; [eassumption|apply D_input_value_wf|assumption].
  Qed.

  Lemma wfd_ext : wfd true None.
  Proof. split; [reflexivity|exact I]. Qed.

  Lemma tse_wf ts d : D_type_system_extension nl ts d -> twf ts -> wf_sdef d.
  Proof.
    intros H Ht. destruct H; twf_split; simpl.
    - repeat split; [eapply D_directives_wf; eassumption| |assumption].
      match goal with Ho : D_opt_op_types _ _ _ |- _ => inversion Ho as [|ts0 ots0 Hot]; subst end;
        [constructor|]. eapply D_op_types_wf; eassumption.
    - repeat split; [apply tok_name; assumption|eapply D_directives_wf; eassumption|auto].
    - repeat split; [apply tok_name; assumption| |eapply D_directives_wf; eassumption| |auto].
      + match goal with Hi : D_implements _ _ _ |- _ => inversion Hi as [|k0 lead lts0 tys1 Hw Hl Hs]; subst end;
          [constructor|]. twf_split. eapply D_sep_named_wf; eassumption.
      + eapply D_opt_block_wf; [eassumption|apply D_field_def_wf|assumption].
    - repeat split; [apply tok_name; assumption|eapply D_directives_wf; eassumption| |auto].
      eapply D_opt_block_wf; [eassumption|apply D_field_def_wf|assumption].
    - repeat split; [apply tok_name; assumption|eapply D_directives_wf; eassumption| |auto].
      match goal with Hi : D_union_members _ _ _ |- _ => inversion Hi as [|eq0 lead lts0 tys1 Hw Hl Hs]; subst end;
        [constructor|]. twf_split. eapply D_sep_named_wf; eassumption.
    - repeat split; [apply tok_name; assumption|eapply D_directives_wf; eassumption| |auto].
      eapply D_opt_block_wf; [eassumption|apply D_enum_value_wf|assumption].
    - repeat split; [apply tok_name; assumption|eapply D_directives_wf; eassumption| |auto].
      eapply D_opt_block_wf; [eassumption|apply D_input_value_wf|assumption].
  Qed.

  (* every definition the grammar derives over lexer tokens is well-formed, up to
     the guard on member descriptions *)
  Lemma D_definition_fullwf fv en ts d :
    D_definition nl fv en ts d -> twf ts -> member_desc_free d -> wf_fulldef fv d.
  Proof.
    intros H Ht Hm. destruct H as [ts d He|ts d _ Htd|ts d _ Hte].
    - pose proof (D_executable_definition_wf nl fv ts d He Ht) as Hw.
      destruct He as [ts d Hop|ts d Hfr]; [destruct Hop|destruct Hfr]; exact Hw.
    - pose proof (tsd_wf ts d Htd Ht) as Hw. destruct Htd; split; assumption.
    - pose proof (tse_wf ts d Hte Ht) as Hw. destruct Hte; split; assumption.
  Qed.

  Lemma D_document_fullwf fv en ts d :
    D_document nl fv en ts d -> twf ts -> Forall member_desc_free (doc_defs d) -> wf_doc fv d.
  Proof.
    intros [sof body eof defs Ks Ke Hl Hne] Ht Hm. unfold wf_doc. simpl in *. split; [exact Hne|].
    twf_split. match goal with Hb : twf body |- _ => revert Hb end. clear -Hl Hm.
    induction Hl as [|ts x ts' xs Hx Hxs IH]; intros Hb; [constructor|].
    inversion Hm; subst. apply Forall_app in Hb. destruct Hb as [Hb1 Hb2].
    constructor; [eapply D_definition_fullwf; eassumption|apply IH; assumption].
  Qed.

End SdlWf.

(* no descriptions on fields, arguments, input fields, enum values
   (the complement of the open finding member-descriptions) *)
Definition no_member_descriptions (d : document) : Prop := Forall member_desc_free (doc_defs d).

Lemma member_desc_free_strip d : member_desc_free d -> True.
Proof. trivial. Qed.

(* Property C03 for complete documents: every document the parser accepts
   (type-system definitions and extensions included) that carries no member
   description, printed with any space / tab indent and parsed again with
   locations off and type-system definitions allowed, comes back up to positions. *)
Theorem roundtrip_document_closed fl fl' s d ind :
  parse_document fl s = Ok d -> no_member_descriptions d -> all_ws ind ->
  no_location fl' = true -> allow_type_system fl' = true ->
  (fragment_variables fl = true -> fragment_variables fl' = true) ->
  parse_document fl' (print_ast ind true d) = Ok (strip_doc d).
Proof.
  intros Hp Hm Hind Hnl Hts Hfv. apply sdl_roundtrip; try assumption.
  destruct (parse_document_sound_full fl s d Hp) as (ts & Hl & Dd).
  pose proof (D_document_fullwf _ _ _ _ _ Dd (lex_tok_wf s ts Hl) Hm) as [Hne Hwf].
  split; [assumption|]. destruct (fragment_variables fl) eqn:E.
  - rewrite (Hfv eq_refl). assumption.
  - destruct (fragment_variables fl'); [|assumption].
    apply Forall_forall. intros x Hx. rewrite Forall_forall in Hwf. specialize (Hwf x Hx).
    destruct x; try exact Hwf; apply wf_def_mono; exact Hwf.
Qed.

Theorem idempotent_document_closed fl fl' s d d' ind :
  parse_document fl s = Ok d -> no_member_descriptions d -> all_ws ind ->
  no_location fl' = true -> allow_type_system fl' = true ->
  (fragment_variables fl = true -> fragment_variables fl' = true) ->
  parse_document fl' (print_ast ind true d) = Ok d' ->
  print_ast ind true d' = print_ast ind true d.
Proof.
  intros Hp Hm Hind Hnl Hts Hfv Hp'.
  rewrite (roundtrip_document_closed fl fl' s d ind Hp Hm Hind Hnl Hts Hfv) in Hp'.
  inversion Hp'; subst. apply pr_document_strip.
Qed.
