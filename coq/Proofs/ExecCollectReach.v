(* C04_collect_full with the acyclicity premise weakened to the fragments
   reachable from the selection list: a document may contain a fragment cycle
   that the selection never reaches (NoFragmentCycles would reject it anyway).
   The unreachable part of the fragment table is pruned away; collect_fields
   and the specification's CollectFields cannot tell. Also: what happens on a
   reachable cycle -- the traversal does not terminate. *)
From PyGql Require Import Spec.ExecSpec Proofs.ExecProofs Proofs.ExecCollectProofs.
From PyGql Require Import Proofs.DepthTermination Proofs.ExecTermination Proofs.ExecCollectFull.

Section Prune.
  Variable frags : frag_table.
  Variable rs : list str.

  Definition restrict : frag_table := filter (fun kv => mem_str (fst kv) rs) frags.

  Lemma alookup_restrict n :
    alookup n restrict = if mem_str n rs then alookup n frags else None.
  Proof.
    unfold restrict. induction frags as [|[k v] l IH]; [destruct (mem_str n rs); reflexivity|].
    cbn [filter fst alookup].
    assert (Hk : str_eqb n k = true \/ str_eqb n k = false) by (destruct (str_eqb n k); auto).
    destruct Hk as [Hk|Hk].
    - pose proof (proj1 (str_eqb_eq n k) Hk) as E. subst k. rewrite Hk.
      destruct (mem_str n rs) eqn:Em; cbn [alookup]; [rewrite Hk; reflexivity|].
      rewrite IH. reflexivity.
    - rewrite Hk. destruct (mem_str k rs); cbn [alookup]; [rewrite Hk|]; exact IH.
  Qed.

  (* every fragment the selections can reach is in rs *)
  Definition covered (ss : list selection) : Prop :=
    forall m, In m (spreads_list ss) -> alookup m frags <> None -> In m rs.
  Definition rs_closed : Prop :=
    forall n tc fsels, In n rs -> alookup n frags = Some (tc, fsels) -> covered fsels.

  Hypothesis Hclosed : rs_closed.

  Lemma covered_tail x ss : covered (x :: ss) -> covered ss.
  Proof. intros H m Hm. apply H. unfold spreads_list in *. simpl. apply in_or_app. right. exact Hm. Qed.

  Lemma covered_inline tc ds ssl sub l ss : covered (SInline tc ds ssl sub l :: ss) -> covered sub.
  Proof. intros H m Hm. apply H. unfold spreads_list in *. simpl. apply in_or_app. left. exact Hm. Qed.

  Lemma covered_spread n ds l ss x :
    covered (SSpread n ds l :: ss) -> alookup (n_val n) frags = Some x -> In (n_val n) rs.
  Proof. intros H E. apply H; [left; reflexivity|congruence]. Qed.

  Lemma lookup_same n ds l ss :
    covered (SSpread n ds l :: ss) -> alookup (n_val n) restrict = alookup (n_val n) frags.
  Proof.
    intros H. rewrite alookup_restrict. destruct (alookup (n_val n) frags) as [x|] eqn:E.
    - apply (covered_spread _ _ _ _ _ H) in E. apply mem_str_In in E. rewrite E. reflexivity.
    - destruct (mem_str (n_val n) rs); reflexivity.
  Qed.

  Variable applies : option ty -> bool.
  Variable vs : vars.

  Lemma collect_into_prune mc : forall fuel ss g local,
    covered ss ->
    collect_into applies frags vs mc fuel ss g local = collect_into applies restrict vs mc fuel ss g local.
  Proof.
    induction fuel as [|fuel IH]; intros ss g local Hc; simpl; [reflexivity|].
    destruct ss as [|x ss]; [reflexivity|]. pose proof (covered_tail _ _ Hc) as Ht.
    destruct x as [alias n args dirs sl sub l|n dirs l|tc dirs ssl sub l].
    - destruct (skip_selection dirs vs); simpl; try reflexivity. destruct a; apply IH; exact Ht.
    - rewrite (lookup_same _ _ _ _ Hc). destruct (alookup (n_val n) frags) as [[tc fsels]|] eqn:E.
      + assert (Hf : covered fsels) by (eapply Hclosed; [eapply covered_spread; eassumption|exact E]).
        destruct (skip_selection dirs vs); simpl; try reflexivity.
        destruct (a || mem_str (n_val n) local || negb (applies (Some tc))); [apply IH; exact Ht|].
        rewrite (IH fsels [] local Hf).
        destruct (collect_into applies restrict vs mc fuel fsels [] local); simpl; try reflexivity. apply IH; exact Ht.
      + destruct mc; [reflexivity|]. destruct (skip_selection dirs vs); simpl; try reflexivity. apply IH; exact Ht.
    - destruct (skip_selection dirs vs); simpl; try reflexivity.
      destruct (a || negb (applies tc)); [apply IH; exact Ht|].
      rewrite (IH sub [] local (covered_inline _ _ _ _ _ _ Hc)).
      destruct (collect_into applies restrict vs mc fuel sub [] local); simpl; try reflexivity. apply IH; exact Ht.
  Qed.

  Lemma SFlat_unprune : forall ss V fs V',
    SFlat applies restrict vs ss V fs V' -> covered ss -> SFlat applies frags vs ss V fs V'.
  Proof.
    induction 1; intros Hc.
    - constructor.
    - apply SF_field_skip; [assumption|]. apply IHSFlat. eapply covered_tail; exact Hc.
    - apply SF_field; [assumption|]. apply IHSFlat. eapply covered_tail; exact Hc.
    - apply SF_inline_skip; [assumption|]. apply IHSFlat. eapply covered_tail; exact Hc.
    - eapply SF_inline; try assumption; [apply IHSFlat1; eapply covered_inline; exact Hc
                                        |apply IHSFlat2; eapply covered_tail; exact Hc].
    - apply SF_spread_skip; [assumption|]. apply IHSFlat. eapply covered_tail; exact Hc.
    - apply SF_spread_other; try assumption; [|apply IHSFlat; eapply covered_tail; exact Hc].
      rewrite (lookup_same _ _ _ _ Hc) in *. assumption.
    - pose proof (lookup_same _ _ _ _ Hc) as Hl.
      match goal with E : alookup (n_val n) restrict = Some _ |- _ => rewrite Hl in E end.
      eapply SF_spread; try eassumption.
      + apply IHSFlat1. eapply Hclosed; [eapply covered_spread; eassumption|eassumption].
      + apply IHSFlat2. eapply covered_tail; exact Hc.
  Qed.
End Prune.

(* C04_collect_full, acyclicity only among the fragments reachable from ss *)
Theorem collect_full_reachable applies frags vs rs rank mc fuel ss g :
  covered frags rs ss -> rs_closed frags rs -> acyclic (restrict frags rs) rank ->
  collect applies frags vs mc fuel ss = Ok g ->
  exists g', SCollect applies frags vs ss g' /\ keys g = keys g' /\
             Forall2 (fun a b => incl (snd a) (snd b) /\ incl (snd b) (snd a)) g g' /\
             Forall2 (fun a b => Ext [] (snd b) (snd a)) g g'.
Proof.
  intros Hcov Hcl Hacyc H. unfold collect in H.
  rewrite (collect_into_prune frags rs Hcl applies vs mc fuel ss [] [] Hcov) in H.
  destruct (collect_full applies (restrict frags rs) vs rank mc fuel ss g Hacyc H)
    as (g' & (fs & V' & S & ->) & K & F1 & F2).
  exists (spec_groups fs). split; [|auto].
  exists fs, V'. split; [|reflexivity]. eapply SFlat_unprune; eassumption.
Qed.

(* a reachable cycle: the code's traversal (and Python's recursion) never ends *)
Definition cyc_spread : selection := SSpread (Name (str_of_string "F"%string) None) [] None.
Definition cyc_frags : frag_table :=
  [(str_of_string "F"%string, (TNamed (Name (str_of_string "T"%string) None) None, [cyc_spread]))].

Lemma reachable_cycle_runs_out_of_fuel applies vs mc : forall fuel g local,
  ~ In (str_of_string "F"%string) local ->
  collect_into applies cyc_frags vs mc fuel [cyc_spread] g local = OutOfFuel \/
  applies (Some (TNamed (Name (str_of_string "T"%string) None) None)) = false.
Proof.
  destruct (applies (Some (TNamed (Name (str_of_string "T"%string) None) None))) eqn:Ea; [|auto].
  left. revert g local H. induction fuel as [|fuel IH]; intros g local Hn; [reflexivity|].
  simpl. unfold skip_selection, dir_if. simpl.
  assert (Em : mem_str (str_of_string "F"%string) local = false).
  { destruct (mem_str (str_of_string "F"%string) local) eqn:E; [|reflexivity]. apply mem_str_In in E. contradiction. }
  unfold str_of_string in *. simpl in *. rewrite Em. simpl. unfold cyc_spread, str_of_string in *. simpl in *.
  rewrite Ea. simpl. rewrite (IH [] local Hn). reflexivity.
Qed.
