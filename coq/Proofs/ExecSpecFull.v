(* C04_exec_eq_spec_full: the executor's result is the specification's, with
   CollectFields the specification's at every level, for arbitrary nesting of
   fragment spreads under acyclic fragments -- up to repeated locations inside
   an error (node lists of the code may repeat a node). *)
From PyGql Require Import Spec.ExecSpec Proofs.ExecProofs Proofs.ExecCollectProofs.
From PyGql Require Import Proofs.DepthTermination Proofs.ExecTermination Proofs.ExecCollectFull.
From PyGql Require Import Proofs.ExecSpecProofs.

Arguments field_definition : simpl never.
Arguments resolve_field : simpl never.
Arguments complete_named : simpl never.
Arguments collect_for : simpl never.
Arguments complete_field : simpl never.

(* [SelExt done sss ssm]: the selection list ssm is sss with additional
   occurrences of selections that are in [done] or occur earlier *)
Inductive SelExt : list selection -> list selection -> list selection -> Prop :=
| SelExt_nil D : SelExt D [] []
| SelExt_both D x a b : SelExt (x :: D) a b -> SelExt D (x :: a) (x :: b)
| SelExt_dup D x a b : In x D -> SelExt D a b -> SelExt D a (x :: b).

Lemma SelExt_weaken D D' a b : incl D D' -> SelExt D a b -> SelExt D' a b.
Proof.
  intros Hi H. revert D' Hi. induction H as [D|D x a b H IH|D x a b Hx H IH]; intros D' Hi.
  - constructor.
  - constructor. apply IH. intros y [<-|Hy]; [left; reflexivity|right; apply Hi; exact Hy].
  - apply SelExt_dup; [apply Hi; exact Hx|apply IH; exact Hi].
Qed.

Lemma SelExt_refl ss : forall D, SelExt D ss ss.
Proof. induction ss as [|x ss IH]; intros D; constructor; apply IH. Qed.

Lemma SelExt_block blk : forall D a b, SelExt (blk ++ D) a b -> SelExt D (blk ++ a) (blk ++ b).
Proof.
  induction blk as [|c blk IH]; intros D a b H; simpl; [exact H|].
  constructor. apply IH. eapply SelExt_weaken; [|exact H]. incl_solve.
Qed.

Lemma SelExt_dups blk : forall D a b, incl blk D -> SelExt D a b -> SelExt D a (blk ++ b).
Proof.
  induction blk as [|c blk IH]; intros D a b Hi H; simpl; [exact H|].
  apply SelExt_dup; [apply Hi; left; reflexivity|]. apply IH; [|exact H]. intros y Hy; apply Hi; right; exact Hy.
Qed.

Definition block_of (f : selection) : list selection :=
  match f with SField _ _ _ _ (Some _) sub _ => sub | _ => [] end.

Lemma children_of_cons x l : children_of (x :: l) = block_of x ++ children_of l.
Proof. reflexivity. Qed.

(* repeated nodes give repeated blocks of sub-selections *)
Lemma Ext_children E nodes' nodes : Ext E nodes' nodes ->
  forall D, (forall y, In y E -> incl (block_of y) D) ->
            SelExt D (children_of nodes') (children_of nodes).
Proof.
  induction 1 as [E|E x fs ms H IH|E x fs ms Hx H IH]; intros D HD.
  - constructor.
  - rewrite !children_of_cons. apply SelExt_block. apply IH.
    intros y [<-|Hy]; [incl_solve|]. specialize (HD y Hy). intros z Hz. apply in_or_app. right. apply HD, Hz.
  - rewrite children_of_cons. apply SelExt_dups; [apply HD; exact Hx|apply IH; exact HD].
Qed.

Section CollectExt.
  Variable applies : option ty -> bool.
  Variable frags : frag_table.
  Variable vs : vars.
  Variable rank : str -> nat.
  Hypothesis Hacyc : acyclic frags rank.

  Notation passes := (passes vs).
  Notation SFlat := (SFlat applies frags vs).
  Notation MFlat := (MFlat applies frags vs).
  Notation areach := (areach applies frags vs).
  Notation anames := (anames applies frags vs).
  Notation bounded := (bounded frags rank).
  Notation inv := (inv applies frags vs).

  Lemma MFlat_cons_inv x ss local ms l' :
    MFlat (x :: ss) local ms l' ->
    exists ms1 l1 ms2, MFlat [x] local ms1 l1 /\ MFlat ss l1 ms2 l' /\ ms = ms1 ++ ms2.
  Proof.
    intros H. inversion H; subst.
    - exists [], local, ms. repeat split; [apply MF_field_skip; [assumption|constructor]|assumption].
    - eexists [_], local, _. repeat split; [apply MF_field; [assumption|constructor]|eassumption].
    - exists [], local, ms. repeat split; [apply MF_inline_skip; [assumption|constructor]|assumption].
    - eexists (ms1 ++ []), _, ms2. repeat split;
        [eapply MF_inline; try eassumption; constructor|eassumption|rewrite app_nil_r; reflexivity].
    - exists [], local, ms. repeat split; [eapply MF_spread_skip; try eassumption; constructor|assumption].
    - exists [], local, ms. repeat split; [apply MF_spread_missing; [assumption|constructor]|assumption].
    - eexists (ms1 ++ []), _, ms2. repeat split;
        [eapply MF_spread; try eassumption; constructor|eassumption|rewrite app_nil_r; reflexivity].
  Qed.

  Lemma SFlat_cons x ss V fs1 V1 fs2 V2 :
    SFlat [x] V fs1 V1 -> SFlat ss V1 fs2 V2 -> SFlat (x :: ss) V (fs1 ++ fs2) V2.
  Proof.
    intros H1 H2. inversion H1; subst;
      repeat match goal with Hn : ExecSpec.SFlat _ _ _ [] _ _ _ |- _ => inversion Hn; subst; clear Hn end;
      simpl; rewrite ?app_nil_r.
    - apply SF_field_skip; assumption.
    - apply SF_field; assumption.
    - apply SF_inline_skip; assumption.
    - eapply SF_inline; eassumption.
    - apply SF_spread_skip; assumption.
    - apply SF_spread_other; assumption.
    - eapply SF_spread; eassumption.
  Qed.

  Lemma areach_weaken_tail x ss f : areach [x] f -> areach (x :: ss) f.
  Proof.
    intros H. inversion H; subst.
    - match goal with Ht : ExecCollectFull.areach _ _ _ [] _ |- _ => inversion Ht end.
    - apply AR_field; assumption.
    - apply AR_inline; assumption.
    - eapply AR_spread; eassumption.
  Qed.

  (* the code on a list with repeated selections, the specification on the
     list without them *)
  Lemma core_ext : forall D sss ssm, SelExt D sss ssm ->
    forall local ms l' O r E V,
      MFlat ssm local ms l' -> bounded r ssm -> (forall o, In o O -> r <= rank o) ->
      incl local V -> inv O E V ->
      (forall x, In x D -> (forall f, areach [x] f -> In f E) /\ (forall m, anames [x] m -> In m V)) ->
      exists fs V', SFlat sss V fs V' /\ Ext E fs ms.
  Proof.
    induction 1 as [D|D x a b H IH|D x a b Hx H IH]; intros local ms l' O r E V Hm Hb HO Hl Hinv HD.
    - inversion Hm; subst. exists [], V. split; constructor.
    - destruct (MFlat_cons_inv _ _ _ _ _ Hm) as (ms1 & l1 & ms2 & Hm1 & Hm2 & ->).
      apply (bounded_cons frags rank) in Hb. destruct Hb as [Hb1 Hb2].
      destruct (core applies frags vs rank Hacyc _ _ _ _ Hm1 O r E V Hb1 HO Hl Hinv)
        as (fs1 & V1 & S1 & X1 & I1 & L1 & Inv1 & R1 & N1).
      destruct (IH l1 ms2 l' O r (fs1 ++ E) V1 Hm2 Hb2 HO L1 Inv1) as (fs2 & V2 & S2 & X2).
      { intros y [<-|Hy]; [split; assumption|]. destruct (HD y Hy) as [A B].
        split; [intros f Hf; apply in_or_app; right; apply A, Hf|intros m Hm'; apply I1, B, Hm']. }
      exists (fs1 ++ fs2), V2. split; [eapply SFlat_cons; eassumption|].
      eapply Ext_app; [exact X1|exact X2|intros y Hy; apply in_app_or; exact Hy].
    - destruct (MFlat_cons_inv _ _ _ _ _ Hm) as (ms1 & l1 & ms2 & Hm1 & Hm2 & ->).
      apply (bounded_cons frags rank) in Hb. destruct Hb as [Hb1 Hb2].
      destruct (HD x Hx) as [A B].
      destruct (code_alone applies frags vs E V _ _ _ _ Hm1 Hl A B) as [F1 L1].
      destruct (IH l1 ms2 l' O r E V Hm2 Hb2 HO L1 Hinv HD) as (fs2 & V2 & S2 & X2).
      exists fs2, V2. split; [exact S2|apply Ext_dups; assumption].
  Qed.

  Theorem collect_full_ext mc fuel sss ssm g :
    SelExt [] sss ssm ->
    collect applies frags vs mc fuel ssm = Ok g ->
    exists g', SCollect applies frags vs sss g' /\
               Forall2 (fun a b => fst a = fst b /\ Ext [] (snd b) (snd a)) g g'.
  Proof.
    intros Hse H. unfold collect in H. apply obind_ok in H as [r0 [Hr H]]. inversion H; subst.
    destruct (collect_into_mflat applies frags vs mc _ _ _ _ _ Hr) as [ms [Hm Hg]].
    destruct (bounded_any frags rank ssm) as [r Hb].
    destruct (core_ext _ _ _ Hse [] ms _ [] r [] [] Hm Hb) as (fs & V' & S & X).
    { intros o []. } { apply incl_refl. } { intros n []. } { intros x []. }
    exists (spec_groups fs). split; [exists fs, V'; auto|].
    rewrite Hg, group_into_spec.
    destruct (Ext_groups _ _ X) as [K _]. pose proof (Ext_groups_order _ _ X) as F.
    revert K F. generalize (spec_groups ms) as g1, (spec_groups fs) as g2.
    intros g1 g2 K F. induction F as [|a b g1 g2 Hab F IH]; [constructor|].
    unfold keys in K. simpl in K. inversion K. constructor; [split; assumption|apply IH; assumption].
  Qed.
End CollectExt.

(* errors equal up to the multiset of locations inside one error *)
Definition err_sim (e e' : error) : Prop :=
  e_path e = e_path e' /\ e_kind e = e_kind e' /\
  incl (e_locs e) (e_locs e') /\ incl (e_locs e') (e_locs e).
Definition errs_sim : list error -> list error -> Prop := Forall2 err_sim.

Lemma err_sim_refl e : err_sim e e.
Proof. repeat split; apply incl_refl. Qed.

Lemma errs_sim_refl es : errs_sim es es.
Proof. induction es; constructor; [apply err_sim_refl|assumption]. Qed.

Lemma errs_sim_app a a' b b' : errs_sim a a' -> errs_sim b b' -> errs_sim (a ++ b) (a' ++ b').
Proof. apply Forall2_app. Qed.

Section ExecFull.
  Variable sch : schema.
  Variable frags : frag_table.
  Variable vs : vars.
  Variable coerce_args : fdef -> selection -> outcome (list (str * pv)).
  Variable world : world_t.
  Variable tyres : str -> option (pv -> tyname_res).
  Variable cfuel : nat.
  Variable rank : str -> nat.
  Hypothesis Hacyc : acyclic frags rank.

  (* CollectFields of the specification, at every level *)
  Definition Gs (tn : str) (ss : list selection) (g : groups) : Prop :=
    SCollect (applies sch tn) frags vs ss g.

  Notation SC := (SComplete sch coerce_args world tyres Gs).
  Notation SI := (SItems sch coerce_args world tyres Gs).
  Notation SS := (SSel sch coerce_args world tyres Gs).
  Notation SG := (SGroups sch coerce_args world tyres Gs).
  Notation SF := (SField_ sch coerce_args world tyres Gs).

  Section Level.
    Variable sub_exec : str -> pv -> path -> list selection -> result.
    Hypothesis Hsub : forall tn v p sss ssm r,
        SelExt [] sss ssm -> sub_exec tn v p ssm = Ok r -> no_abort (snd r) ->
        exists es', SS tn v p sss (fst r) es' /\ errs_sim (snd r) es'.

    Lemma complete_items_full nodes' t (f : path -> pv -> result) :
      (forall p x r, f p x = Ok r -> no_abort (snd r) -> exists es', SC nodes' t p x (fst r) es' /\ errs_sim (snd r) es') ->
      forall items p i rs es, complete_items f p i items = Ok (rs, es) -> no_abort es ->
                              exists es', SI nodes' t p i items rs es' /\ errs_sim es es'.
    Proof.
      intros Hf. induction items as [|x items IH]; intros p i rs es H NA; simpl in H.
      - inversion H; subst. exists []. split; constructor.
      - apply obind_ok in H as [[r1 es1] [H1 H]]. apply obind_ok in H as [[rs' es2] [H2 H]].
        inversion H; subst. simpl. apply no_abort_app in NA as [NA1 NA2].
        destruct (Hf _ _ _ H1 NA1) as [e1' [S1 E1]]. destruct (IH _ _ _ _ H2 NA2) as [e2' [S2 E2]].
        exists (e1' ++ e2'). split; [constructor; assumption|apply errs_sim_app; assumption].
    Qed.

    Section Nodes.
      Variable nodes nodes' : list selection.
      Hypothesis Hext : Ext [] nodes' nodes.

      Lemma children_ext : SelExt [] (children_of nodes') (children_of nodes).
      Proof. eapply Ext_children; [exact Hext|]. intros y []. Qed.

      Lemma locs_sim p : err_sim (Err p (map sel_loc nodes) ENonNull) (Err p (map sel_loc nodes') ENonNull).
      Proof.
        destruct (Ext_nodes _ _ _ Hext) as [N1 N2]. repeat split; simpl; intros l Hl;
          apply in_map_iff in Hl as [x [<- Hx]]; apply in_map.
        - destruct (N2 x Hx) as [?|[]]; assumption.
        - apply N1; exact Hx.
      Qed.

      Lemma complete_named_full n p v r :
        v <> PNone ->
        complete_named sch tyres sub_exec nodes n p v = Ok r -> no_abort (snd r) ->
        exists es', SC nodes' (RNamed n) p v (fst r) es' /\ errs_sim (snd r) es'.
      Proof.
        intros Hv. unfold complete_named.
        destruct (get_type sch n) as [[fs ifs|fs|ts|vals|k|]|] eqn:Eg; try discriminate.
        - intros H NA. destruct (Hsub _ _ _ _ _ _ children_ext H NA) as [es' [S E]].
          exists es'. split; [eapply SC_object; eassumption|exact E].
        - intros H NA. apply obind_ok in H as [rt [Hrt H]].
          destruct (Hsub _ _ _ _ _ _ children_ext H NA) as [es' [S E]]. exists es'. split; [|exact E].
          eapply SC_abstract; [exact Hv|unfold is_abstract; rewrite Eg; reflexivity|apply resolve_type_spec; exact Hrt|exact S].
        - intros H NA. apply obind_ok in H as [rt [Hrt H]].
          destruct (Hsub _ _ _ _ _ _ children_ext H NA) as [es' [S E]]. exists es'. split; [|exact E].
          eapply SC_abstract; [exact Hv|unfold is_abstract; rewrite Eg; reflexivity|apply resolve_type_spec; exact Hrt|exact S].
        - destruct (hashable v); [|discriminate]. intros H _. apply of_ser_ok in H as [Hs He].
          destruct r as [r es]; simpl in *; subst es. exists []. split; [eapply SC_enum; eassumption|constructor].
        - intros H _. apply of_ser_ok in H as [Hs He].
          destruct r as [r es]; simpl in *; subst es. exists []. split; [eapply SC_scalar; eassumption|constructor].
      Qed.

      Lemma complete_value_full : forall t p v r,
        complete_value sch tyres sub_exec nodes t p v = Ok r -> no_abort (snd r) ->
        exists es', SC nodes' t p v (fst r) es' /\ errs_sim (snd r) es'.
      Proof.
        induction t as [n|t IH|t IH]; intros p v r H NA; simpl in H.
        - destruct v; try (apply complete_named_full; [discriminate|exact H|exact NA]).
          inversion H; subst. exists []. split; [apply SC_null_named|constructor].
        - destruct (match v with PNone => true | _ => false end) eqn:Ev.
          { destruct v; try discriminate. inversion H; subst. exists []. split; [apply SC_null_list|constructor]. }
          assert (H' : match iter_items v with
                       | None => Crash CRASH_RUNTIME
                       | Some items => do r <- complete_items (complete_value sch tyres sub_exec nodes t) p 0%N items;
                                       Ok (PList (fst r), snd r)
                       end = Ok r) by (destruct v; try discriminate; exact H).
          assert (Hv : v <> PNone) by (intros ->; discriminate).
          destruct (iter_items v) as [items|] eqn:Ei; [|discriminate].
          apply obind_ok in H' as [[rs es] [Hc H']]. inversion H'; subst; simpl. simpl in NA.
          destruct (complete_items_full nodes' t _ (fun p x r => IH p x r) _ _ _ _ _ Hc NA) as [es' [S E]].
          exists es'. split; [eapply SC_list; eassumption|exact E].
        - apply obind_ok in H as [[r1 es1] [H1 H]]. simpl in H.
          assert (NA1 : no_abort es1).
          { destruct r1; inversion H; subst; simpl in NA; try exact NA; apply no_abort_app in NA; tauto. }
          destruct (IH _ _ _ H1 NA1) as [e1' [S1 E1]]. simpl in S1, E1.
          destruct r1; inversion H; subst; simpl;
            try (exists e1'; split; [apply SC_nonnull; [exact S1|discriminate]|exact E1]).
          exists (e1' ++ [Err p (map sel_loc nodes') ENonNull]). split; [apply SC_nonnull_null; exact S1|].
          apply errs_sim_app; [exact E1|]. constructor; [apply locs_sim|constructor].
      Qed.
    End Nodes.

    Lemma complete_field_full nodes nodes' t p v r :
      Ext [] nodes' nodes ->
      complete_field sch tyres sub_exec nodes t p v = Ok r -> no_abort (snd r) ->
      exists es', SC nodes' t p v (fst r) es' /\ errs_sim (snd r) es'.
    Proof.
      intros Hext. unfold complete_field.
      destruct (complete_value sch tyres sub_exec nodes t p v) as [c| |k1 q1|k1] eqn:E; try discriminate.
      - intros H NA; inversion H; subst. eapply complete_value_full; eassumption.
      - destruct (Nat.eqb k1 REJ_COERCION); [|discriminate]. intros H NA; inversion H; subst. simpl in NA.
        exfalso. apply no_abort_app in NA as [_ NA]. inversion NA as [|? ? Hx _]; subst. discriminate Hx.
    Qed.

    Lemma resolve_field_full tname parent k fd nodes nodes' p r :
      Ext [] nodes' nodes ->
      resolve_field sch coerce_args world tyres sub_exec tname parent k fd nodes p = Ok r -> no_abort (snd r) ->
      exists es', SF tname parent k fd nodes' p (fst r) es' /\ errs_sim (snd r) es'.
    Proof.
      intros Hext. unfold resolve_field. destruct nodes as [|node nodes]; [discriminate|].
      assert (Hn : exists rest', nodes' = node :: rest').
      { inversion Hext; subst; [eauto|]. match goal with Hi : In _ [] |- _ => destruct Hi end. }
      destruct Hn as [rest' ->].
      destruct (coerce_args fd node) as [args| |c q|] eqn:Ec; try discriminate.
      - destruct k; try discriminate.
        + destruct (world p parent tname (f_name fd) args) eqn:Ew; try discriminate.
          * intros H NA. destruct (complete_field_full _ _ _ _ _ _ Hext H NA) as [es' [S E]].
            exists es'. split; [|exact E]. eapply SFd_value; [exact Ec| |exact S]. simpl. rewrite Ew. reflexivity.
          * intros H NA. destruct (complete_field_full _ _ _ _ _ _ Hext H NA) as [es' [S E]].
            exists es'. split; [|exact E]. eapply SFd_value; [exact Ec| |exact S]. simpl. rewrite Ew. reflexivity.
          * intros H _; inversion H; subst. simpl. eexists. split; [|apply errs_sim_refl].
            eapply SFd_error; [exact Ec|]. simpl. rewrite Ew. reflexivity.
        + intros H NA. destruct (complete_field_full _ _ _ _ _ _ Hext H NA) as [es' [S E]].
          exists es'. split; [|exact E]. eapply SFd_value; [exact Ec| |exact S]. reflexivity.
      - intros H _; inversion H; subst. simpl. eexists. split; [|apply errs_sim_refl].
        eapply SFd_coercion. exact Ec.
    Qed.

    Lemma exec_groups_full tname parent p : forall g g' kvs es,
      Forall2 (fun a b => fst a = fst b /\ Ext [] (snd b) (snd a)) g g' ->
      exec_groups sch coerce_args world tyres sub_exec tname parent p g = Ok (kvs, es) -> no_abort es ->
      exists es', SG tname parent p g' kvs es' /\ errs_sim es es'.
    Proof.
      intros g g' kvs es F. revert kvs es.
      induction F as [|[key nodes] [key' nodes'] g g' [Hk Hext] F IH]; intros kvs es H NA; simpl in H.
      - inversion H; subst. exists []. split; constructor.
      - simpl in Hk, Hext. subst key'. destruct nodes as [|node nodes]; [discriminate|].
        assert (Hn : exists rest', nodes' = node :: rest').
        { inversion Hext; subst; [eauto|]. match goal with Hi : In _ [] |- _ => destruct Hi end. }
        destruct Hn as [rest' ->].
        destruct (field_definition sch tname (sel_name node)) as [[[k fd]|]| | |] eqn:Ed; simpl in H; try discriminate.
        + apply obind_ok in H as [[r1 es1] [H1 H]]. apply obind_ok in H as [[kvs' es2] [H2 H]].
          inversion H; subst. apply no_abort_app in NA as [NA1 NA2].
          destruct (resolve_field_full _ _ _ _ _ _ _ _ Hext H1 NA1) as [e1' [S1 E1]].
          destruct (IH _ _ H2 NA2) as [e2' [S2 E2]].
          exists (e1' ++ e2'). split; [|apply errs_sim_app; assumption].
          eapply SG_cons; [apply field_definition_spec; exact Ed|exact S1|exact S2].
        + destruct (IH _ _ H NA) as [e' [S E]]. exists e'. split; [|exact E].
          apply SG_skip; [apply field_definition_undef; exact Ed|exact S].
    Qed.
  End Level.

  Lemma exec_sel_full : forall fuel tname v p sss ssm r,
    SelExt [] sss ssm ->
    exec_sel sch frags vs coerce_args world tyres cfuel fuel tname v p ssm = Ok r -> no_abort (snd r) ->
    exists es', SS tname v p sss (fst r) es' /\ errs_sim (snd r) es'.
  Proof.
    induction fuel as [|fuel IH]; intros tname v p sss ssm r Hse H NA; simpl in H; [discriminate|].
    apply obind_ok in H as [g [Hg H]]. apply obind_ok in H as [[kvs es] [He H]].
    inversion H; subst; simpl. unfold collect_for in Hg.
    destruct (collect_full_ext (applies sch tname) frags vs rank Hacyc _ _ _ _ _ Hse Hg) as [g' [Hc F]].
    simpl in NA.
    destruct (exec_groups_full (exec_sel sch frags vs coerce_args world tyres cfuel fuel) IH _ _ _ _ _ _ _ F He NA)
      as [es' [S E]].
    exists es'. split; [eapply SS_sel; [exact Hc|exact S]|exact E].
  Qed.

  Theorem exec_eq_spec_full fuel tname v p sels r :
    exec_sel sch frags vs coerce_args world tyres cfuel fuel tname v p sels = Ok r ->
    no_abort (snd r) ->
    exists es',
      SSel sch coerce_args world tyres (fun tn ss g => SCollect (applies sch tn) frags vs ss g)
           tname v p sels (fst r) es' /\
      Forall2 (fun e e' => e_path e = e_path e' /\ e_kind e = e_kind e' /\
                           incl (e_locs e) (e_locs e') /\ incl (e_locs e') (e_locs e)) (snd r) es'.
  Proof. intros H NA. exact (exec_sel_full fuel tname v p sels sels r (SelExt_refl _ _) H NA). Qed.
End ExecFull.
