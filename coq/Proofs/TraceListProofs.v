(* C16 -- proofs about the timing model of value completion (Exec/TraceListModel.v). *)
From Coq Require Import List NArith Arith Bool Lia.
Import ListNotations.
From PyGql Require Import Spec.TraceSpec Exec.TraceListModel.

Scheme lval_mut := Induction for lval Sort Prop
with lfields_mut := Induction for lfields Sort Prop
with lvals_mut := Induction for lvals Sort Prop.
Combined Scheme lmodel_mutind from lval_mut, lfields_mut, lvals_mut.

Lemma list_max_ge : forall e l, e <= list_max e l.
Proof. intros e l; unfold list_max; induction l; cbn; lia. Qed.
Lemma list_max_in : forall e l x, In x l -> x <= list_max e l.
Proof.
  intros e l x; unfold list_max; induction l; cbn; intros H; [destruct H|].
  destruct H as [->|H]; [lia|]. specialize (IHl H). lia.
Qed.

(* what is known about one completed value *)
Definition timely (e : nat) (r : cres) : Prop :=
  e <= c_time r /\ Forall (fun qt => snd qt <= c_time r) (c_started r).
Definition timely_f (e : nat) (r : fres) : Prop :=
  e <= f_time r /\ Forall (fun qt => snd qt <= f_time r) (f_started r).

Lemma Forall_le_trans : forall (l : list (path * nat)) a b, a <= b ->
  Forall (fun qt => snd qt <= a) l -> Forall (fun qt => snd qt <= b) l.
Proof. intros l a b Hab H. eapply Forall_impl; [|exact H]. cbn. intros; lia. Qed.

(* a value that is not a list either completes, or fails at once *)
Lemma nonlist_fail_sync : forall delay e p v, not_list v ->
  c_fail (complete delay e p v) = true -> c_time (complete delay e p v) = e.
Proof. intros delay e p [] Hn H; cbn in *; try discriminate; auto. destruct Hn. Qed.

Section Proofs.
  Variable delay : path -> nat.

  (* unfolding equations of the mutual fixpoint *)
  Lemma complete_obj : forall e p fs, complete delay e p (LObj fs) =
    mkC false (Nat.max e (f_time (fields delay e p fs))) (f_started (fields delay e p fs)) (f_errs (fields delay e p fs)).
  Proof. reflexivity. Qed.
  Lemma complete_list : forall e p nested its, complete delay e p (LList nested its) =
    finish_list e nested (fst (items delay e p 0%N its)) (snd (items delay e p 0%N its)).
  Proof.
    intros. change (complete delay e p (LList nested its))
      with (let '(rs, brk) := items delay e p 0%N its in finish_list e nested rs brk).
    destruct (items delay e p 0%N its); reflexivity.
  Qed.
  Lemma fields_cons : forall e p k dfr v rest, fields delay e p (LFCons k dfr v rest) =
    let q := p ++ [k] in
    let fe := if dfr then e + S (delay q) else e in
    mkF (Nat.max (c_time (complete delay fe q v)) (f_time (fields delay e p rest)))
        ((q, fe) :: c_started (complete delay fe q v) ++ f_started (fields delay e p rest))
        ((if c_fail (complete delay fe q v) then [q] else []) ++ c_errs (complete delay fe q v) ++ f_errs (fields delay e p rest)).
  Proof. reflexivity. Qed.
  Lemma items_cons : forall e p i v rest, items delay e p i (LVCons v rest) =
    if c_fail (complete delay e (p ++ [i]) v) && Nat.eqb (c_time (complete delay e (p ++ [i]) v)) e
    then ([], Some (complete delay e (p ++ [i]) v))
    else (complete delay e (p ++ [i]) v :: fst (items delay e p (N.succ i) rest), snd (items delay e p (N.succ i) rest)).
  Proof.
    intros. change (items delay e p i (LVCons v rest))
      with (if c_fail (complete delay e (p ++ [i]) v) && Nat.eqb (c_time (complete delay e (p ++ [i]) v)) e
            then ([], Some (complete delay e (p ++ [i]) v))
            else let '(rs, brk) := items delay e p (N.succ i) rest in (complete delay e (p ++ [i]) v :: rs, brk)).
    destruct (c_fail _ && _); auto. destruct (items delay e p (N.succ i) rest); reflexivity.
  Qed.

  (* (a) every field started under a value ends before the value is delivered *)
  Lemma timely_all :
    (forall v, wf v -> forall e p, timely e (complete delay e p v)) /\
    (forall fs, wf_fields fs -> forall e p, timely_f e (fields delay e p fs)) /\
    (forall its nested, wf_items nested its -> forall e p i,
       Forall (timely e) (fst (items delay e p i its)) /\
       (forall r, snd (items delay e p i its) = Some r ->
                  c_time r = e /\ Forall (fun qt => snd qt <= e) (c_started r)) /\
       (nested = false -> Forall (fun r => c_fail r = false) (fst (items delay e p i its)))).
  Proof.
    apply lmodel_mutind.
    - intros _ e p. split; cbn; [lia|constructor].
    - intros _ e p. split; cbn; [lia|constructor].
    - intros fs IH Hw e p. destruct (IH Hw e p) as [H1 H2]. rewrite complete_obj.
      unfold timely. cbn [c_time c_started]. split; [apply Nat.le_max_l|].
      eapply Forall_le_trans; [|exact H2]. apply Nat.le_max_r.
    - intros nested its IH Hw e p. rewrite complete_list. cbn [wf] in Hw.
      destruct (IH nested Hw e p 0%N) as (Hrs & Hbrk & Hnf).
      destruct (items delay e p 0%N its) as [rs brk]. cbn [fst snd] in *.
      unfold finish_list, timely. cbv zeta. cbn [c_time c_started].
      assert (Hg : negb nested && existsb c_fail rs = false).
      { destruct nested; auto. cbn. specialize (Hnf eq_refl). clear - Hnf.
        induction Hnf as [|r0 rs0 Hr _ IHr]; cbn; auto. rewrite Hr. exact IHr. }
      rewrite Hg. split.
      + apply list_max_ge.
      + apply Forall_app. split.
        * apply Forall_forall. intros qt Hin. apply in_flat_map in Hin as (r & Hr & Hqt).
          rewrite Forall_forall in Hrs. destruct (Hrs r Hr) as [_ Hst]. rewrite Forall_forall in Hst.
          specialize (Hst qt Hqt). pose proof (list_max_in e (map c_time rs) (c_time r) (in_map c_time _ _ Hr)). lia.
        * destruct brk as [r|]; [|constructor]. destruct (Hbrk r eq_refl) as [_ Hst].
          eapply Forall_le_trans; [|exact Hst]. apply list_max_ge.
    - intros _ e p. split; cbn; [lia|constructor].
    - intros k dfr v IHv rest IHr [Hwv Hwr] e p. rewrite fields_cons. cbv zeta.
      set (q := p ++ [k]). set (fe := if dfr then e + S (delay q) else e).
      destruct (IHv Hwv fe q) as [H1 H2]. destruct (IHr Hwr e p) as [H3 H4].
      assert (Hfe : e <= fe) by (unfold fe; destruct dfr; lia).
      unfold timely_f. cbn [f_time f_started]. split; [lia|].
      constructor; [cbn; lia|]. apply Forall_app. split.
      + eapply Forall_le_trans; [|exact H2]. lia.
      + eapply Forall_le_trans; [|exact H4]. lia.
    - intros nested _ e p i. cbn. split; [constructor|]. split; [intros r0 H0; discriminate H0|intros; constructor].
    - intros v IHv rest IHr nested (Hnl & Hwv & Hwr) e p i. rewrite items_cons.
      destruct (IHv Hwv e (p ++ [i])) as [H1 H2].
      destruct (c_fail (complete delay e (p ++ [i]) v) && Nat.eqb (c_time (complete delay e (p ++ [i]) v)) e) eqn:Esync.
      + cbn [fst snd]. split; [constructor|]. split; [|intros; constructor].
        intros r [= <-]. apply andb_prop in Esync as [_ Ht]. apply Nat.eqb_eq in Ht.
        split; auto. rewrite Ht in H2. exact H2.
      + destruct (IHr nested Hwr e p (N.succ i)) as (Hrs & Hbrk & Hnf). cbn [fst snd].
        split; [constructor; [split; assumption|exact Hrs]|]. split; [exact Hbrk|].
        intros Hn. constructor; [|apply Hnf; exact Hn].
        destruct (c_fail (complete delay e (p ++ [i]) v)) eqn:Ef; auto.
        rewrite (nonlist_fail_sync delay e (p ++ [i]) v (Hnl Hn) Ef), Nat.eqb_refl in Esync. discriminate.
  Qed.

  (* (b) whatever comes after an item whose completion raises at once is never looked at *)
  Fixpoint lv_app (a b : lvals) : lvals :=
    match a with LVNil => b | LVCons v r => LVCons v (lv_app r b) end.
  Fixpoint lv_len (a : lvals) : N := match a with LVNil => 0%N | LVCons _ r => N.succ (lv_len r) end.
  Definition raises_now (e : nat) (p : path) (i : N) (v : lval) : bool :=
    c_fail (complete delay e (p ++ [i]) v) && Nat.eqb (c_time (complete delay e (p ++ [i]) v)) e.

  Lemma items_after_failure : forall pre e p i x post,
    raises_now e p (i + lv_len pre)%N x = true ->
    items delay e p i (lv_app pre (LVCons x post)) = items delay e p i (lv_app pre (LVCons x LVNil)).
  Proof.
    induction pre as [|v pre IH]; intros e p i x post Hx; cbn [lv_app lv_len] in *.
    - rewrite N.add_0_r in Hx. unfold raises_now in Hx. rewrite !items_cons, Hx. reflexivity.
    - rewrite !items_cons.
      destruct (c_fail (complete delay e (p ++ [i]) v) && Nat.eqb (c_time (complete delay e (p ++ [i]) v)) e); auto.
      rewrite (IH e p (N.succ i) x post); auto. rewrite N.add_succ_comm. exact Hx.
  Qed.

  (* (c) errors are recorded strictly below the path of the value being completed ... *)
  Definition below (p : path) (x : path) : Prop := exists s, s <> [] /\ x = p ++ s.

  Lemma errs_below :
    (forall v e p, Forall (below p) (c_errs (complete delay e p v))) /\
    (forall fs e p, Forall (below p) (f_errs (fields delay e p fs))) /\
    (forall its e p i,
       Forall (fun r => Forall (below p) (c_errs r)) (fst (items delay e p i its)) /\
       (forall r, snd (items delay e p i its) = Some r -> Forall (below p) (c_errs r))).
  Proof.
    apply lmodel_mutind.
    - intros; constructor.
    - intros; constructor.
    - intros fs IH e p. rewrite complete_obj. cbn [c_errs]. apply IH.
    - intros nested its IH e p. rewrite complete_list. destruct (IH e p 0%N) as [H1 H2].
      destruct (items delay e p 0%N its) as [rs brk]. cbn [fst snd] in *. unfold finish_list. cbv zeta. cbn [c_errs].
      apply Forall_app. split.
      + apply Forall_forall. intros x Hx. apply in_flat_map in Hx as (r & Hr & Hx).
        rewrite Forall_forall in H1. specialize (H1 r Hr). rewrite Forall_forall in H1. auto.
      + destruct brk as [r|]; [apply H2; reflexivity|constructor].
    - intros; constructor.
    - intros k dfr v IHv rest IHr e p. rewrite fields_cons. cbv zeta. cbn [f_errs].
      set (q := p ++ [k]). set (fe := if dfr then e + S (delay q) else e).
      apply Forall_app. split; [|apply Forall_app; split; [|apply IHr]].
      + destruct (c_fail (complete delay fe q v)); constructor; [|constructor].
        exists [k]. split; [discriminate|reflexivity].
      + eapply Forall_impl; [|apply (IHv fe q)]. intros x (s & Hs & ->). exists (k :: s).
        split; [discriminate|]. unfold q. rewrite <- app_assoc. reflexivity.
    - intros e p i. cbn. split; [constructor|]. intros r H; discriminate H.
    - intros v IHv rest IHr e p i. rewrite items_cons.
      assert (Hv : Forall (below p) (c_errs (complete delay e (p ++ [i]) v))).
      { eapply Forall_impl; [|apply (IHv e (p ++ [i]))]. intros x (s & Hs & ->). exists (i :: s).
        split; [discriminate|]. rewrite <- app_assoc. reflexivity. }
      destruct (c_fail (complete delay e (p ++ [i]) v) && Nat.eqb (c_time (complete delay e (p ++ [i]) v)) e).
      + cbn. split; [constructor|]. intros r [= <-]. exact Hv.
      + destruct (IHr e p (N.succ i)) as [H1 H2]. cbn [fst snd].
        split; [constructor; assumption|exact H2].
  Qed.

  Lemma below_neq : forall p x, below p x -> x <> p.
  Proof.
    intros p x (s & Hs & ->) Heq. apply Hs. rewrite <- (app_nil_r p) in Heq at 2.
    apply app_inv_head in Heq. exact Heq.
  Qed.

  (* ... so a field whose value cannot be completed gets exactly one error at its own path *)
  Theorem field_error_once : forall (e : nat) (p : path) (k : N) (dfr : bool) (v : lval) (rest : lfields),
    let q := p ++ [k] in
    let r := complete delay (if dfr then e + S (delay q) else e) q v in
    exists others,
      f_errs (fields delay e p (LFCons k dfr v rest))
      = (if c_fail r then [q] else []) ++ others ++ f_errs (fields delay e p rest)
      /\ ~ In q others.
  Proof.
    intros e p k dfr v rest q r. exists (c_errs r). split; [reflexivity|].
    intros Hin. pose proof (proj1 errs_below v (if dfr then e + S (delay q) else e) q) as Hb.
    rewrite Forall_forall in Hb. exact (below_neq q q (Hb q Hin) eq_refl).
  Qed.

  (* a list one of whose reached items cannot be completed fails (and only then) *)
  Lemma list_fails_iff : forall e p nested its,
    c_fail (complete delay e p (LList nested its)) =
    existsb c_fail (fst (items delay e p 0%N its))
    || match snd (items delay e p 0%N its) with Some _ => true | None => false end.
  Proof. intros. rewrite complete_list. reflexivity. Qed.
End Proofs.

(* packaged statements *)
Theorem list_timely : forall delay v, wf v -> forall e p,
  e <= c_time (complete delay e p v) /\
  Forall (fun qt => snd qt <= c_time (complete delay e p v)) (c_started (complete delay e p v)).
Proof. intros delay v Hw e p. exact (proj1 (timely_all delay) v Hw e p). Qed.

Theorem operation_timely : forall delay fs, wf_fields fs ->
  c_fail (operation delay fs) = false /\
  Forall (fun qt => snd qt <= c_time (operation delay fs)) (c_started (operation delay fs)).
Proof.
  intros delay fs Hw. split; [reflexivity|].
  exact (proj2 (list_timely delay (LObj fs) Hw 0 [])).
Qed.

Theorem list_after_failure : forall delay pre e p nested x post,
  raises_now delay e p (lv_len pre) x = true ->
  complete delay e p (LList nested (lv_app pre (LVCons x post)))
  = complete delay e p (LList nested (lv_app pre (LVCons x LVNil))).
Proof.
  intros delay pre e p nested x post Hx. rewrite !complete_list.
  rewrite (items_after_failure delay pre e p 0%N x post) by (rewrite N.add_0_l; exact Hx). reflexivity.
Qed.
