(* C14 -- proofs about the store model, part 7: the healing loop terminates.
   Measure: the number of fields, input fields and field arguments held by the
   registered types. A pass rebuilds a type only if one of them was dropped. *)
From PyGql Require Import Spec.StoreSpec Proofs.StoreProofs Proofs.StoreHeal Proofs.StoreLoop.
Local Open Scope N_scope.

Definition exists_in (m : mem) (x : oid) : Prop := mget m x <> None.
Definition fsz (m : mem) (f : oid) : nat := S (length (args_of m f)).
Definition lsz (sz : oid -> nat) (l : list oid) : nat := fold_right (fun x acc => (sz x + acc)%nat) O l.
Definition tsz (m : mem) (t : oid) : nat :=
  match mget m t with
  | Some (OType _ k _ ms _ _ _) =>
      match k with Kobject | Kinterface | Kinput => lsz (fsz m) ms | _ => O end
  | _ => O
  end.
Definition mu (m : mem) (tm : list (str * oid)) : nat := lsz (tsz m) (map snd tm).

(* a registered type exists and so do its members *)
Definition grounded_t (m : mem) (t : oid) : Prop :=
  match mget m t with
  | Some (OType _ _ _ ms _ _ _) => Forall (exists_in m) ms
  | _ => False
  end.
Definition grounded (m : mem) (tm : list (str * oid)) : Prop :=
  forall n o, In (n, o) tm -> grounded_t m o.

Section Term.
Variable tm : list (str * oid).

Lemma exists_ext m m' x : ext tm m m' -> exists_in m x -> exists_in m' x.
Proof.
  intros He Hx. unfold exists_in in *. destruct (mget m x) as [v|] eqn:Hg; [|congruence].
  destruct (proj2 He x v Hg) as (v' & Hg' & _). rewrite Hg'. discriminate.
Qed.

Lemma fsz_ext m m' x : ext tm m m' -> exists_in m x -> fsz m' x = fsz m x.
Proof.
  intros He Hx. unfold exists_in in Hx. destruct (mget m x) as [v|] eqn:Hg; [|congruence].
  unfold fsz. rewrite (args_of_ext tm m m' x v He Hg). reflexivity.
Qed.

Lemma lsz_ext (sz : mem -> oid -> nat) m m' l :
  (forall x, exists_in m x -> sz m' x = sz m x) -> Forall (exists_in m) l -> lsz (sz m') l = lsz (sz m) l.
Proof.
  intros Hs. induction 1 as [|x l Hx Hl IH]; simpl; [reflexivity|]. rewrite IH, (Hs x Hx). reflexivity.
Qed.

Lemma Forall_exists_ext m m' l : ext tm m m' -> Forall (exists_in m) l -> Forall (exists_in m') l.
Proof. intros He. apply Forall_impl. intros a. apply exists_ext. exact He. Qed.

Lemma tsz_ext m m' t : ext tm m m' -> grounded_t m t -> tsz m' t = tsz m t /\ grounded_t m' t.
Proof.
  intros He Hg. unfold grounded_t, tsz in *. destruct (mget m t) as [v|] eqn:Hv; [|contradiction].
  destruct (proj2 He t v Hv) as (v' & Hv' & Hr). rewrite Hv'.
  destruct v; try contradiction. destruct v'; simpl in Hr; try contradiction.
  destruct Hr as (-> & -> & -> & _). split; [|eapply Forall_exists_ext; eauto].
  destruct k; try reflexivity; apply lsz_ext; auto; intros x Hx; apply fsz_ext; assumption.
Qed.

(* map_and_filter never grows the total size; it keeps it only if it returns
   the very same list *)
Lemma map_filter_size (f : hook) (sz : mem -> oid -> nat) (E : mem -> oid -> Prop) :
  (forall m x, (0 < sz m x)%nat) ->
  (forall m m' x, ext tm m m' -> E m x -> sz m' x = sz m x /\ E m' x) ->
  (forall m x m' r, inv tm m -> E m x -> f m x = Some (m', r) ->
     inv tm m' /\ ext tm m m' /\
     match r with
     | None => True
     | Some y => E m' y /\ ((y = x /\ sz m' y = sz m x) \/ (sz m' y < sz m x)%nat)
     end) ->
  forall l m m' rs, inv tm m -> Forall (E m) l -> map_filter f m l = Some (m', rs) ->
    inv tm m' /\ ext tm m m' /\ Forall (E m') rs /\
    (lsz (sz m') rs <= lsz (sz m) l)%nat /\ (rs = l \/ (lsz (sz m') rs < lsz (sz m) l)%nat).
Proof.
  intros Hpos Hst Hf. induction l as [|x l IH]; intros m m' rs Hi Hl H; simpl in H.
  - inversion H; subst. split; [assumption|]. split; [apply ext_refl|]. split; [constructor|].
    simpl. split; [lia|left; reflexivity].
  - inversion Hl as [|? ? Hx Hl']; subst.
    destruct (f m x) as [[m1 r]|] eqn:Hfx; [|discriminate].
    destruct (map_filter f m1 l) as [[m2 rs']|] eqn:Hr; [|discriminate].
    inversion H; subst m' rs; clear H.
    destruct (Hf _ _ _ _ Hi Hx Hfx) as (Hi1 & He1 & Hq).
    assert (Hl1 : Forall (E m1) l).
    { eapply Forall_impl; [|exact Hl']. intros a Ha. exact (proj2 (Hst _ _ _ He1 Ha)). }
    assert (Hsz1 : lsz (sz m1) l = lsz (sz m) l).
    { clear - Hst He1 Hl'. induction Hl' as [|a l Ha Hl IH]; simpl; [reflexivity|].
      rewrite IH, (proj1 (Hst _ _ _ He1 Ha)). reflexivity. }
    destruct (IH _ _ _ Hi1 Hl1 Hr) as (Hi2 & He2 & HE2 & Hle & Hcase).
    split; [assumption|]. split; [eapply ext_trans; eauto|].
    pose proof (Hpos m x) as Hp.
    destruct r as [y|]; simpl.
    + destruct Hq as (Ey & Hy). destruct (Hst _ _ _ He2 Ey) as (Hsy & Ey2).
      split; [constructor; assumption|]. rewrite Hsy.
      destruct Hy as [[-> Heq]|Hlt].
      * split; [lia|]. destruct Hcase as [->|Hlt']; [left; reflexivity|right; lia].
      * split; [lia|right; lia].
    + split; [assumption|]. split; [lia|right; lia].
Qed.

(* arguments: kept as they are, or dropped *)
Lemma arg_size_hook m x m' r :
  inv tm m -> True -> visit_arg (heal_visitor tm) m x = Some (m', r) ->
  inv tm m' /\ ext tm m m' /\
  match r with
  | None => True
  | Some y => True /\ ((y = x /\ 1%nat = 1%nat) \/ (1 < 1)%nat)
  end.
Proof.
  intros Hi _ H. rewrite visit_arg_heal in H.
  destruct (heal_member_spec tm _ _ _ _ Hi H) as (Hi' & He & _ & Hr).
  split; [assumption|]. split; [assumption|]. destruct r as [y|]; [|exact I].
  destruct Hr as (-> & _). split; [exact I|left; split; reflexivity].
Qed.

Lemma own_good_exists m x : own_good tm m x -> exists_in m x.
Proof. unfold own_good, exists_in. destruct (mget m x); [discriminate|contradiction]. Qed.

(* input fields: kept or dropped, size unchanged *)
Lemma inf_size_hook m x m' r :
  inv tm m -> exists_in m x -> visit_inf (heal_visitor tm) m x = Some (m', r) ->
  inv tm m' /\ ext tm m m' /\
  match r with
  | None => True
  | Some y => exists_in m' y /\ ((y = x /\ fsz m' y = fsz m x) \/ (fsz m' y < fsz m x)%nat)
  end.
Proof.
  intros Hi Hx H. rewrite visit_inf_heal in H.
  destruct (heal_member_spec tm _ _ _ _ Hi H) as (Hi' & He & _ & Hr).
  split; [assumption|]. split; [assumption|]. destruct r as [y|]; [|exact I].
  destruct Hr as (-> & Hg & Ha). split; [eapply own_good_exists; eauto|].
  left. split; [reflexivity|]. unfold fsz. rewrite Ha. reflexivity.
Qed.

Lemma Forall_triv {A} (l : list A) : Forall (fun _ => True) l.
Proof. induction l; constructor; auto. Qed.

Lemma lsz_const l : lsz (fun _ => 1%nat) l = length l.
Proof. induction l; simpl; auto. Qed.

(* fields: kept with the same arguments, rebuilt with fewer, or dropped *)
Lemma field_size_hook m x m' r :
  inv tm m -> exists_in m x -> visit_field (heal_visitor tm) m x = Some (m', r) ->
  inv tm m' /\ ext tm m m' /\
  match r with
  | None => True
  | Some y => exists_in m' y /\ ((y = x /\ fsz m' y = fsz m x) \/ (fsz m' y < fsz m x)%nat)
  end.
Proof.
  intros Hi Hx H.
  change (visit_field (heal_visitor tm) m x)
    with (match base_field (heal_visitor tm) m x with
          | None => None
          | Some (m2, None) => Some (m2, None)
          | Some (m2, Some o2) => heal_member tm m2 o2
          end) in H.
  destruct (base_field (heal_visitor tm) m x) as [[m2 ro]|] eqn:Hb; [|discriminate].
  assert (Hbase : inv tm m2 /\ ext tm m m2 /\ exists y, ro = Some y /\
            ((y = x /\ fsz m2 y = fsz m x) \/ (fsz m2 y < fsz m x)%nat)).
  { unfold base_field in Hb. destruct (mget m x) as [v|] eqn:Hg; [|discriminate].
    destruct v as [|n py ty args d dp rs sb ds| | |]; try discriminate.
    destruct (map_filter (visit_arg (heal_visitor tm)) m args) as [[m1 args']|] eqn:Hmf; [|discriminate].
    destruct (map_filter_size _ (fun _ _ => 1%nat) (fun _ _ => True)
                (fun _ _ => Nat.lt_0_1) (fun _ _ _ _ _ => conj eq_refl I) arg_size_hook
                args m m1 args' Hi (Forall_triv args) Hmf)
      as (Hi1 & He1 & _ & Hle & Hcase).
    rewrite !lsz_const in *.
    assert (Hax : args_of m x = args) by (unfold args_of; rewrite Hg; reflexivity).
    destruct (oids_eqb args' args) eqn:Heq.
    - inversion Hb; subst m2 ro. split; [assumption|]. split; [assumption|]. exists x. split; [reflexivity|].
      left. split; [reflexivity|]. apply fsz_ext; assumption.
    - destruct (mget m1 x) as [[|n1 py1 ty1 a1 d1 dp1 rs1 sb1 ds1| | |]|] eqn:Hg1; try discriminate.
      destruct (inv_alloc tm m1 (OField n1 py1 ty1 args' d1 dp1 rs1 sb1 ds1) Hi1) as (Hi2 & He2).
      unfold alloc in Hb. inversion Hb; subst m2 ro. clear Hb.
      split; [exact Hi2|]. split; [eapply ext_trans; eauto|]. exists (m_next m1). split; [reflexivity|].
      right. unfold fsz at 1, args_of at 1, mget. simpl. rewrite N.eqb_refl.
      unfold fsz. rewrite Hax. destruct Hcase as [->|Hlt]; [|lia].
      assert (Hc : oids_eqb args args = true).
      { clear. induction args as [|a l IH]; simpl; [reflexivity|]. rewrite N.eqb_refl, IH. reflexivity. }
      congruence. }
  destruct Hbase as (Hi2 & He2 & y & -> & Hy).
  destruct (heal_member_spec tm _ _ _ _ Hi2 H) as (Hi' & He & _ & Hr).
  split; [assumption|]. split; [eapply ext_trans; eauto|].
  destruct r as [z|]; [|exact I]. destruct Hr as (-> & Hg & Ha).
  split; [eapply own_good_exists; eauto|].
  assert (Hf : fsz m' y = fsz m2 y) by (unfold fsz; rewrite Ha; reflexivity).
  rewrite Hf. exact Hy.
Qed.

Lemma fsz_pos m x : (0 < fsz m x)%nat.
Proof. unfold fsz; lia. Qed.

Lemma fsz_stable m m' x : ext tm m m' -> exists_in m x -> fsz m' x = fsz m x /\ exists_in m' x.
Proof. intros He Hx. split; [apply fsz_ext; assumption|eapply exists_ext; eauto]. Qed.

(* types: kept (same size) or rebuilt strictly smaller *)
Lemma type_size_hook m t m' r :
  inv tm m -> grounded_t m t -> visit_type (heal_visitor tm) m t = Some (m', r) ->
  exists y, r = Some y /\ grounded_t m' y /\
            ((y = t /\ tsz m' y = tsz m t) \/ (tsz m' y < tsz m t)%nat).
Proof.
  intros Hi Hgr H.
  change (visit_type (heal_visitor tm) m t)
    with (match base_type (heal_visitor tm) m t with
          | None => None
          | Some (m2, None) => Some (m2, None)
          | Some (m2, Some o2) => heal_type tm m2 o2
          end) in H.
  destruct (base_type (heal_visitor tm) m t) as [[m2 ro]|] eqn:Hb; [|discriminate].
  destruct (base_type_spec tm _ _ _ _ Hi Hb) as (Hi2 & He2 & y & n & k & d & ms & ifs & rs & ds & -> & Hg & Hmg & _ & _).
  assert (Hbase : grounded_t m2 y /\ ((y = t /\ tsz m2 y = tsz m t) \/ (tsz m2 y < tsz m t)%nat)).
  { unfold base_type in Hb. unfold grounded_t in Hgr. destruct (mget m t) as [v|] eqn:Hgt; [|contradiction].
    destruct v as [n0 k0 d0 ms0 ifs0 rs0 ds0| | | |]; try contradiction.
    assert (Hgr0 : grounded_t m t) by (unfold grounded_t; rewrite Hgt; exact Hgr).
    assert (Hsame : m2 = m -> y = t -> grounded_t m2 y /\ ((y = t /\ tsz m2 y = tsz m t) \/ (tsz m2 y < tsz m t)%nat)).
    { intros -> ->. split; [assumption|left; split; reflexivity]. }
    assert (Hgen : forall h : hook,
      (forall m x m' r, inv tm m -> exists_in m x -> h m x = Some (m', r) ->
         inv tm m' /\ ext tm m m' /\
         match r with
         | None => True
         | Some y => exists_in m' y /\ ((y = x /\ fsz m' y = fsz m x) \/ (fsz m' y < fsz m x)%nat)
         end) ->
      tsz m t = lsz (fsz m) ms0 ->
      match map_filter h m ms0 with
      | None => None
      | Some (m1, members') =>
          if oids_eqb members' ms0 then Some (m1, Some t)
          else match mget m1 t with
               | Some (OType n1 k1 d1 _ ifaces r1 ds1) =>
                   let (m3, t') := alloc m1 (OType n1 k1 d1 members' ifaces r1 ds1) in Some (m3, Some t')
               | _ => None
               end
      end = Some (m2, Some y) ->
      grounded_t m2 y /\ ((y = t /\ tsz m2 y = tsz m t) \/ (tsz m2 y < tsz m t)%nat)).
    { intros h Hh Hts H0. destruct (map_filter h m ms0) as [[m1 ms']|] eqn:Hmf; [|discriminate].
      destruct (map_filter_size h fsz exists_in fsz_pos fsz_stable Hh _ _ _ _ Hi Hgr Hmf)
        as (Hi1 & He1 & HE1 & Hle & Hcase).
      destruct (tsz_ext _ _ _ He1 Hgr0) as (Hts1 & Hgr1).
      destruct (oids_eqb ms' ms0) eqn:Heq.
      - inversion H0; subst m2 y. split; [assumption|]. left. split; [reflexivity|assumption].
      - destruct (proj2 He1 t _ Hgt) as (v1 & Hg1 & Hr1).
        destruct v1 as [n1 k1 d1 ms1 ifs1 rs1 ds1| | | |]; simpl in Hr1; try contradiction.
        destruct Hr1 as (-> & -> & -> & _). rewrite Hg1 in H0.
        destruct (inv_alloc tm m1 (OType n0 k0 d1 ms' ifs1 rs1 ds1) Hi1) as (Hi3 & He3).
        unfold alloc in H0. inversion H0; subst m2 y. clear H0.
        assert (Hne : ms' <> ms0).
        { intros ->. assert (Hc : oids_eqb ms0 ms0 = true).
          { clear. induction ms0 as [|a l IH]; simpl; [reflexivity|]. rewrite N.eqb_refl, IH. reflexivity. }
          congruence. }
        destruct Hcase as [Hc|Hlt]; [contradiction|].
        split.
        + unfold grounded_t, mget. simpl. rewrite N.eqb_refl. eapply Forall_exists_ext; eauto.
        + right. rewrite Hts. unfold tsz at 1, mget. simpl. rewrite N.eqb_refl.
          assert (Hl3 : lsz (fsz (fst (alloc m1 (OType n0 k0 d1 ms' ifs1 rs1 ds1)))) ms' = lsz (fsz m1) ms').
          { apply lsz_ext; [|assumption]. intros x Hx. apply fsz_ext; assumption. }
          unfold alloc in Hl3. simpl in Hl3.
          unfold tsz in Hts. rewrite Hgt in Hts.
          destruct k0; try (simpl in Hts; rewrite <- Hts in Hlt; lia); rewrite Hl3; exact Hlt. }
    assert (Hts : tsz m t = match k0 with Kobject | Kinterface | Kinput => lsz (fsz m) ms0 | _ => O end).
    { unfold tsz. rewrite Hgt. reflexivity. }
    destruct k0.
    - inversion Hb; subst. apply Hsame; reflexivity.
    - apply (Hgen (visit_field (heal_visitor tm)) field_size_hook Hts Hb).
    - apply (Hgen (visit_field (heal_visitor tm)) field_size_hook Hts Hb).
    - inversion Hb; subst. apply Hsame; reflexivity.
    - (* enum values are returned as they are *)
      assert (Hid : forall l m0, map_filter (visit_env (heal_visitor tm)) m0 l = Some (m0, l)).
      { induction l as [|a l IH]; intros m0; simpl; [reflexivity|].
        unfold visit_env at 1, hseq, heal_visitor, hid; simpl. rewrite IH. reflexivity. }
      rewrite Hid in Hb.
      assert (Hc : oids_eqb ms0 ms0 = true).
      { clear. induction ms0 as [|a l IH]; simpl; [reflexivity|]. rewrite N.eqb_refl, IH. reflexivity. }
      rewrite Hc in Hb. inversion Hb; subst. apply Hsame; reflexivity.
    - apply (Hgen (visit_inf (heal_visitor tm)) inf_size_hook Hts Hb). }
  destruct Hbase as (Hgr2 & Hsz2).
  destruct (heal_type_spec tm _ _ _ _ _ _ _ _ _ _ _ Hi2 Hg Hmg H) as (Hi' & He' & -> & _).
  destruct (tsz_ext _ _ _ He' Hgr2) as (Hts' & Hgr').
  exists y. split; [reflexivity|]. split; [assumption|]. rewrite Hts'. exact Hsz2.
Qed.


Lemma traverse_types_size : forall l m m' ups,
  inv tm m -> (forall n o, In (n, o) l -> grounded_t m o) ->
  traverse_list (visit_type (heal_visitor tm)) is_builtin m l = Some (m', ups) ->
  forall n r, In (n, r) ups ->
    exists o y, In (n, o) l /\ r = Some y /\ grounded_t m' y /\ (tsz m' y < tsz m o)%nat.
Proof.
  induction l as [|[n o] l IH]; intros m m' ups Hi Hgr H n1 r1 Hin; simpl in H.
  - inversion H; subst. destruct Hin.
  - assert (Hgr' : forall n2 o2, In (n2, o2) l -> grounded_t m o2) by (intros; eapply Hgr; right; eauto).
    destruct (is_builtin o).
    + destruct (IH _ _ _ Hi Hgr' H n1 r1 Hin) as (o1 & y & Ho & Hr & Hg & Hlt).
      exists o1, y. split; [right; assumption|auto].
    + destruct (visit_type (heal_visitor tm) m o) as [[m1 r]|] eqn:Hv; [|discriminate].
      destruct (traverse_list (visit_type (heal_visitor tm)) is_builtin m1 l) as [[m2 ups']|] eqn:Hl; [|discriminate].
      inversion H; subst m' ups; clear H.
      destruct (heal_type_hook tm _ _ _ _ Hi Hv) as (Hi1 & He1 & _).
      destruct (type_size_hook _ _ _ _ Hi (Hgr n o (or_introl eq_refl)) Hv) as (y & -> & Hgy & Hsz).
      destruct (traverse_types_spec tm _ _ _ _ Hi1 Hl) as (Hi2 & He2 & _ & _).
      assert (Hgr1 : forall n2 o2, In (n2, o2) l -> grounded_t m1 o2).
      { intros n2 o2 Hin2. exact (proj2 (tsz_ext _ _ _ He1 (Hgr' n2 o2 Hin2))). }
      assert (Hcases : ((n1, r1) = (n, Some y) /\ y <> o) \/ In (n1, r1) ups').
      { simpl in Hin. destruct (N.eqb_spec y o) as [->|Hne]; [right; assumption|].
        destruct Hin as [Heq|Hin]; [left; split; [symmetry; assumption|assumption]|right; assumption]. }
      destruct Hcases as [[Heq Hne]|Hin'].
      * inversion Heq; subst n1 r1. exists o, y. split; [left; reflexivity|]. split; [reflexivity|].
        destruct (tsz_ext _ _ _ He2 Hgy) as (Hts & Hg2). split; [assumption|]. rewrite Hts.
        destruct Hsz as [[-> _]|Hlt]; [contradiction|assumption].
      * destruct (IH _ _ _ Hi1 Hgr1 Hl n1 r1 Hin') as (o1 & y1 & Ho & Hr & Hg & Hlt).
        exists o1, y1. split; [right; assumption|]. split; [assumption|]. split; [assumption|].
        rewrite <- (proj1 (tsz_ext _ _ _ He1 (Hgr' n1 o1 Ho))). exact Hlt.
Qed.

End Term.

Lemma traverse_list_keys (h : hook) skip : forall l m m' ups,
  NoDup (map fst l) -> traverse_list h skip m l = Some (m', ups) ->
  NoDup (map fst ups) /\ forall k, In k (map fst ups) -> In k (map fst l).
Proof.
  induction l as [|[n o] l IH]; intros m m' ups Hnd H; simpl in H.
  - inversion H; subst. split; [constructor|intros k []].
  - inversion Hnd as [|? ? Hn Hnd']; subst. destruct (skip o).
    + destruct (IH _ _ _ Hnd' H) as (H1 & H2). split; [assumption|]. intros k Hk. right. auto.
    + destruct (h m o) as [[m1 r]|]; [|discriminate].
      destruct (traverse_list h skip m1 l) as [[m2 ups']|] eqn:Hl; [|discriminate].
      inversion H; subst m' ups; clear H. destruct (IH _ _ _ Hnd' Hl) as (H1 & H2).
      destruct (ooid_eqb r (Some o)).
      * split; [assumption|]. intros k Hk. right. auto.
      * simpl. split; [constructor; [intros Hk; apply Hn; auto|assumption]|].
        intros k [<-|Hk]; [left; reflexivity|right; auto].
Qed.

Lemma mu_aset m n y orig : forall tm0,
  alookup n tm0 = Some orig -> (mu m (aset n y tm0) + tsz m orig = mu m tm0 + tsz m y)%nat.
Proof.
  unfold mu. induction tm0 as [|[k v] tm0 IH]; simpl; [discriminate|].
  destruct (str_eqb n k); intros H.
  - inversion H; subst. simpl. lia.
  - simpl. specialize (IH H). lia.
Qed.

Lemma replace_types_mu m : forall ups tm0 b tm' b',
  NoDup (map fst ups) ->
  (forall n r, In (n, r) ups -> exists y, r = Some y /\ forall o, In (n, o) tm0 -> (tsz m y < tsz m o)%nat) ->
  replace_types m ups tm0 b = Ok (tm', b') ->
  (mu m tm' <= mu m tm0)%nat /\ (b' = true -> b = true \/ (mu m tm' < mu m tm0)%nat).
Proof.
  induction ups as [|[n nw] ups IH]; intros tm0 b tm' b' Hnd Hu H; simpl in H.
  - inversion H; subst. split; [lia|auto].
  - inversion Hnd as [|? ? Hn Hnd']; subst.
    destruct (Hu n nw (or_introl eq_refl)) as (y & -> & Hy).
    assert (Hu' : forall n1 r1, In (n1, r1) ups -> exists y1, r1 = Some y1 /\ forall o, In (n1, o) tm0 -> (tsz m y1 < tsz m o)%nat)
      by (intros; eapply Hu; right; eauto).
    destruct (alookup n tm0) as [orig|] eqn:Hl; [|eapply IH; eauto].
    destruct (is_builtin orig); [discriminate|].
    destruct (tkind m orig); [|discriminate]. destruct (tkind m y); [|discriminate].
    destruct (kind_eqb k k0); [|discriminate].
    pose proof (Hy orig (alookup_In _ _ _ Hl)) as Hlt.
    pose proof (mu_aset m n y orig tm0 Hl) as Hmu.
    edestruct (IH (aset n y tm0)) as (Hle & Hb); [exact Hnd'| |exact H|].
    + intros n1 r1 Hin1. destruct (Hu' n1 r1 Hin1) as (y1 & -> & Hy1). exists y1. split; [reflexivity|].
      intros o Ho. apply aset_in in Ho. destruct Ho as [[-> ->]|[Ho _]]; [|auto].
      exfalso. apply Hn. apply in_map_iff. exists (n, Some y1). split; auto.
    + split; [lia|]. intros _. right. lia.
Qed.

Lemma replace_types_in m : forall ups tm0 b tm' b' n o,
  replace_types m ups tm0 b = Ok (tm', b') -> In (n, o) tm' -> In (n, o) tm0 \/ In (n, Some o) ups.
Proof.
  induction ups as [|[n1 nw] ups IH]; intros tm0 b tm' b' n o H Hin; simpl in H.
  - inversion H; subst. left; assumption.
  - destruct (alookup n1 tm0) as [orig|]; [|destruct (IH _ _ _ _ _ _ H Hin); [left|right; right]; assumption].
    destruct (is_builtin orig); [discriminate|]. destruct nw as [y|].
    + destruct (tkind m orig); [|discriminate]. destruct (tkind m y); [|discriminate].
      destruct (kind_eqb k k0); [|discriminate].
      destruct (IH _ _ _ _ _ _ H Hin) as [Ha|Hb]; [|right; right; assumption].
      apply aset_in in Ha. destruct Ha as [[-> ->]|[Ha _]]; [right; left; reflexivity|left; assumption].
    + destruct (IH _ _ _ _ _ _ H Hin) as [Ha|Hb]; [left; eapply adel_in; eauto|right; right; assumption].
Qed.

Lemma replace_types_not_oof m : forall ups tm0 b, replace_types m ups tm0 b <> OutOfFuel.
Proof.
  induction ups as [|[n nw] ups IH]; intros tm0 b; simpl; [discriminate|].
  destruct (alookup n tm0); [|apply IH]. destruct (is_builtin o); [discriminate|].
  destruct nw; [|apply IH]. destruct (tkind m o); [|discriminate]. destruct (tkind m o0); [|discriminate].
  destruct (kind_eqb k k0); [apply IH|discriminate].
Qed.

Lemma replace_dirs_not_oof : forall ups dm, replace_dirs ups dm <> OutOfFuel.
Proof.
  induction ups as [|[n nw] ups IH]; intros dm; simpl; [discriminate|].
  destruct nw; [apply IH|]. destruct (ahas n dm); [apply IH|discriminate].
Qed.

Lemma mu_ext tm0 m m' tm1 : ext tm0 m m' -> grounded m tm1 -> mu m' tm1 = mu m tm1 /\ grounded m' tm1.
Proof.
  intros He Hg. split.
  - unfold mu. induction tm1 as [|[n o] tm1 IH]; simpl; [reflexivity|].
    rewrite IH; [|intros n1 o1 Hin; eapply Hg; right; eauto].
    rewrite (proj1 (tsz_ext tm0 _ _ _ He (Hg n o (or_introl eq_refl)))). reflexivity.
  - intros n o Hin. exact (proj2 (tsz_ext tm0 _ _ _ He (Hg n o Hin))).
Qed.

Theorem heal_from_terminates : forall fuel m s,
  fresh_ok m -> wf_reg m (s_types s) -> grounded m (s_types s) ->
  (mu m (s_types s) < fuel)%nat -> heal_from fuel m s <> OutOfFuel.
Proof.
  induction fuel as [|fuel IH]; intros m s Hf Hwf Hgr Hmu; [lia|].
  unfold heal_from, traverse.
  destruct (traverse_list (visit_type (heal_visitor (s_types s))) is_builtin m (s_types s))
    as [[m1 tu]|] eqn:Ht; [|discriminate].
  destruct (traverse_list (visit_dir (heal_visitor (s_types s))) (fun _ => false) m1 (s_dirs s))
    as [[m2 du]|] eqn:Hd; [|discriminate].
  assert (Hi : inv (s_types s) m) by (split; [assumption|apply wf_reg_lookup; assumption]).
  destruct (traverse_types_spec _ _ _ _ _ Hi Ht) as (Hi1 & He1 & _ & Hups).
  pose proof (traverse_types_size _ _ _ _ _ Hi Hgr Ht) as Hsz.
  destruct (traverse_list_keys _ _ _ _ _ _ (proj1 Hwf) Ht) as (Hndu & _).
  destruct (traverse_dirs_spec _ _ _ _ _ Hi1 Hd) as (Hi2 & He2 & _ & _).
  assert (He : ext (s_types s) m m2) by (eapply ext_trans; eauto).
  assert (Hwf2 : wf_reg m2 (s_types s)) by (eapply wf_reg_ext; eauto).
  destruct (mu_ext _ _ _ _ He Hgr) as (Hmu2 & Hgr2).
  rewrite replace_and_heal_S.
  destruct (replace_types m2 tu (s_types s) false) as [[tm' b]| | |] eqn:Hrt; simpl; try discriminate;
    [|exfalso; eapply replace_types_not_oof; eauto].
  destruct (replace_dirs du (s_dirs s)) as [dm| | |] eqn:Hrd; simpl; try discriminate;
    [|exfalso; eapply replace_dirs_not_oof; eauto].
  destruct b; [|discriminate].
  assert (Hwf' : wf_reg m2 tm').
  { eapply replace_types_wf; [exact Hwf2| |exact Hrt].
    intros n y Hin. destruct (Hups n (Some y) Hin) as (o & y' & Ho & Hy & Ht'). inversion Hy; subst y'.
    eapply ext_tname; [exact He2|]. apply Ht'. destruct Hwf as [_ Hn]. auto. }
  assert (Hu : forall n r, In (n, r) tu -> exists y, r = Some y /\
             forall o, In (n, o) (s_types s) -> (tsz m2 y < tsz m2 o)%nat /\ grounded_t m2 y).
  { intros n r Hin. destruct (Hsz n r Hin) as (o0 & y & Ho0 & -> & Hgy & Hlt). exists y. split; [reflexivity|].
    intros o Ho.
    assert (o = o0).
    { pose proof (nodup_lookup _ _ _ (proj1 Hwf) Ho) as A. pose proof (nodup_lookup _ _ _ (proj1 Hwf) Ho0) as B.
      congruence. }
    subst o0. destruct (tsz_ext _ _ _ _ He2 Hgy) as (Ha & Hgy2).
    destruct (tsz_ext _ _ _ _ He (Hgr n o Ho)) as (Hb & _). rewrite Ha, Hb. split; assumption. }
  destruct (replace_types_mu m2 tu (s_types s) false tm' true Hndu) as (Hle & Hstrict); [|exact Hrt|].
  { intros n r Hin. destruct (Hu n r Hin) as (y & -> & Hy). exists y. split; [reflexivity|].
    intros o Ho. exact (proj1 (Hy o Ho)). }
  destruct (Hstrict eq_refl) as [Hc|Hlt]; [discriminate|].
  assert (Hgr' : grounded m2 tm').
  { intros n o Hin. destruct (replace_types_in _ _ _ _ _ _ _ _ Hrt Hin) as [Ha|Hb]; [exact (Hgr2 n o Ha)|].
    destruct (Hu n (Some o) Hb) as (y & Hy & Hall). inversion Hy; subst y.
    destruct (Hups n (Some o) Hb) as (o0 & _ & Ho0 & _ & _). exact (proj2 (Hall o0 Ho0)). }
  match goal with |- obind (heal_from fuel m2 ?s1) _ <> _ =>
    pose proof (IH m2 s1 (proj1 Hi2) Hwf' Hgr') as Hrec; simpl in Hrec;
    destruct (heal_from fuel m2 s1) as [[m3 s3]| | |]; simpl; try discriminate end.
  exfalso. apply Hrec; [lia|reflexivity].
Qed.

Theorem fix_type_references_terminates fuel m s :
  fresh_ok m -> wf_reg m (s_types s) -> grounded m (s_types s) ->
  (mu m (s_types s) < fuel)%nat -> fix_type_references fuel m s <> OutOfFuel.
Proof.
  intros Hf Hwf Hgr Hmu. pose proof (heal_from_terminates fuel m s Hf Hwf Hgr Hmu) as H.
  unfold fix_type_references. unfold heal_from in H.
  destruct (traverse (heal_visitor (s_types s)) m s) as [[[m1 tu] du]|]; [|discriminate].
  destruct (replace_and_heal fuel m1 s tu du) as [[m2 s2]| | |]; simpl; try discriminate.
  contradiction.
Qed.
