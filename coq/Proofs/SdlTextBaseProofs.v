(* strings: facts about the printer's text combinators shared by the C12
   text-level proofs *)
From PyGql Require Import Lang.PrinterModel Spec.PrinterSpec Lang.Parser Spec.GrammarSpec Spec.SdlGrammarSpec
                          Proofs.PrinterRoundtrip Proofs.PrinterExecRoundtrip Proofs.PrinterSdlRoundtrip.
From PyGql Require Import Schema.SdlSchema Schema.SdlBuild Schema.SdlPrint Spec.SdlRoundtripSpec
                          Proofs.SdlTextProofs.
From Coq Require Import Lia.

Notation vname := PrinterRoundtrip.valid_name.

(* ------------------------------------------------------------------ *)
(* strings                                                              *)

Lemma join_ne_join (l : list str) sep : join_ne l sep = join sep l.
Proof.
  induction l as [|x l IH]; [reflexivity|]. cbn [join_ne join]. destruct l as [|y l]; [reflexivity|].
  rewrite IH. reflexivity.
Qed.

Lemma p_join_all (l : list str) sep : Forall (fun x => x <> []) l -> p_join l sep = join sep l.
Proof.
  intros H. unfold p_join. rewrite <- join_ne_join. f_equal.
  induction H as [|x l Hx Hl IH]; [reflexivity|]. cbn [filter]. destruct x; [congruence|]. cbn [is_empty negb].
  rewrite IH. reflexivity.
Qed.

Lemma p_join_nosep (l : list str) : p_join l [] = concat l.
Proof.
  unfold p_join. induction l as [|x l IH]; [reflexivity|]. cbn [filter concat].
  destruct x as [|c r]; cbn [is_empty negb]; [exact IH|].
  cbn [join_ne]. destruct (filter _ l) as [|y ys] eqn:Hf.
  - cbn [join_ne] in IH. rewrite <- IH, app_nil_r. reflexivity.
  - rewrite <- IH. cbn [app]. reflexivity.
Qed.

Lemma has_lf_app a b : has_lf (a ++ b) = has_lf a || has_lf b.
Proof. unfold has_lf. apply existsb_app. Qed.

Lemma reindent_nolf ind s : has_lf s = false -> reindent ind s = s.
Proof.
  unfold reindent, has_lf. induction s as [|c s IH]; [reflexivity|]. cbn [existsb flat_map].
  intros H. apply Bool.orb_false_iff in H. destruct H as [Hc Hs]. rewrite Hc. cbn [app]. rewrite (IH Hs). reflexivity.
Qed.

Lemma p_indent_nolf s ind : s <> [] -> has_lf s = false -> p_indent s ind = ind ++ s.
Proof. intros Hne Hl. unfold p_indent. destruct s; [congruence|]. cbn [is_empty]. rewrite (reindent_nolf _ _ Hl). reflexivity. Qed.

(* name characters are neither line feeds nor white space *)
Lemma name_cont_facts c : is_name_cont c = true -> (c =? PrinterModel.LF)%N = false /\ py_space c = false.
Proof.
  unfold is_name_cont, Lexer.is_letter, Lexer.is_digit, PrinterModel.LF, py_space. intros H.
  assert (Hr : (c = 95 \/ (65 <= c <= 90) \/ (97 <= c <= 122) \/ (48 <= c <= 57))%N).
  { repeat (apply Bool.orb_true_iff in H; destruct H as [H|H]);
      repeat match goal with
             | H : (_ && _) = true |- _ => apply andb_prop in H; destruct H
             | H : (_ =? _)%N = true |- _ => apply N.eqb_eq in H
             | H : (_ <=? _)%N = true |- _ => apply N.leb_le in H
             end; lia. }
  split.
  - apply N.eqb_neq. lia.
  - repeat match goal with |- context [(?a =? ?b)%N] => destruct (N.eqb_spec a b); [lia|] end.
    repeat match goal with |- context [(?a <=? ?b)%N] => destruct (N.leb_spec a b); try lia end.
    all: cbn; try reflexivity.
Qed.

Lemma vname_chars nm : vname nm -> nm <> [] /\ Forall (fun c => is_name_cont c = true) nm.
Proof.
  intros (c & r & -> & Hs & Hr). split; [discriminate|]. constructor; [|exact Hr].
  unfold is_name_start in Hs. unfold is_name_cont. apply Bool.orb_true_iff in Hs.
  destruct Hs as [Hs|Hs]; rewrite Hs; [reflexivity|rewrite Bool.orb_true_r; reflexivity].
Qed.

Definition nospace (s : str) : Prop := Forall (fun c => py_space c = false) s.

Lemma chars_nolf s : Forall (fun c => is_name_cont c = true) s -> has_lf s = false /\ nospace s.
Proof.
  induction 1 as [|c s Hc Hs [IH1 IH2]]; [split; [reflexivity|constructor]|].
  destruct (name_cont_facts c Hc) as [H1 H2]. split.
  - unfold has_lf in *. cbn [existsb]. rewrite H1, IH1. reflexivity.
  - constructor; assumption.
Qed.

Lemma vname_nolf nm : vname nm -> has_lf nm = false /\ nospace nm /\ nm <> [].
Proof. intros H. destruct (vname_chars nm H) as [Hne Hc]. destruct (chars_nolf nm Hc). auto. Qed.

Lemma lstrip_id s : match s with c :: _ => py_space c = false | [] => True end -> lstrip s = s.
Proof. destruct s as [|c r]; [reflexivity|]. intros H. cbn [lstrip]. rewrite H. reflexivity. Qed.

Lemma rstrip_id s : s <> [] -> py_space (last s 0%N) = false -> rstrip s = s.
Proof.
  intros Hne Hl. unfold rstrip.
  rewrite (app_removelast_last 0%N Hne) at 1. rewrite rev_app_distr. cbn [rev app lstrip].
  rewrite Hl. cbn [rev]. rewrite rev_involutive. symmetry. apply (app_removelast_last 0%N Hne).
Qed.

(* a text made of non-blank characters at both ends *)
Definition tight (s : str) : Prop :=
  s <> [] /\ py_space (hd 0%N s) = false /\ py_space (last s 0%N) = false.

Lemma strip_tight s : tight s -> strip s = s /\ rstrip s = s.
Proof.
  intros (Hne & Hh & Hl). assert (Hr : rstrip s = s) by (apply rstrip_id; assumption).
  split; [|exact Hr]. unfold strip. rewrite lstrip_id; [exact Hr|]. destruct s; [congruence|exact Hh].
Qed.

Lemma last_app_ne (a b : str) d : b <> [] -> last (a ++ b) d = last b d.
Proof.
  intros Hb. induction a as [|x a IH]; [reflexivity|]. cbn [app].
  destruct (a ++ b) eqn:He.
  - exfalso. apply app_eq_nil in He. destruct He as [_ He]. contradiction.
  - cbn [last]. exact IH.
Qed.

Lemma tight_app a b : tight a -> tight b -> tight (a ++ b).
Proof.
  intros (Ha & Hah & _) (Hb & _ & Hbl). repeat split.
  - destruct a; [congruence|discriminate].
  - destruct a; [congruence|exact Hah].
  - rewrite last_app_ne by exact Hb. exact Hbl.
Qed.

Lemma tight_mid a m b : tight a -> tight b -> tight (a ++ m ++ b).
Proof.
  intros (Ha & Hah & _) (Hb & _ & Hbl). repeat split.
  - destruct a; [congruence|discriminate].
  - destruct a; [congruence|exact Hah].
  - rewrite app_assoc, last_app_ne by exact Hb. exact Hbl.
Qed.

Lemma nospace_tight s : s <> [] -> nospace s -> tight s.
Proof.
  intros Hne Hs. repeat split; [exact Hne| |].
  - destruct s; [congruence|]. inversion Hs; assumption.
  - assert (Hin : In (last s 0%N) s).
    { clear Hs. induction s as [|x s IH]; [congruence|]. destruct s; [left; reflexivity|].
      right. apply IH. discriminate. }
    unfold nospace in Hs. rewrite Forall_forall in Hs. apply Hs; exact Hin.
Qed.

(* type references *)
Lemma print_tref_facts t : wf_tref t -> has_lf (print_tref t) = false /\ tight (print_tref t).
Proof.
  induction t as [n|t IH|t IH]; cbn [wf_tref print_tref].
  - intros H. destruct (vname_nolf n H) as (H1 & H2 & H3). split; [exact H1|apply nospace_tight; assumption].
  - intros H. destruct (IH H) as [H1 H2]. split.
    + rewrite !has_lf_app, H1. reflexivity.
    + apply (tight_mid (lit "[") (print_tref t) (lit "]")); repeat split; discriminate || reflexivity.
  - intros [H _]. destruct (IH H) as [H1 H2]. split.
    + rewrite has_lf_app, H1. reflexivity.
    + apply tight_app; [exact H2|repeat split; discriminate || reflexivity].
Qed.


Lemma has_lf_join sep (l : list str) :
  has_lf sep = false -> Forall (fun x => has_lf x = false) l -> has_lf (join sep l) = false.
Proof.
  intros Hs H. induction H as [|x l Hx Hl IH]; [reflexivity|].
  destruct l as [|y l]; [exact Hx|]. change (join sep (x :: y :: l)) with (x ++ sep ++ join sep (y :: l)).
  rewrite !has_lf_app, Hx, Hs, IH. reflexivity.
Qed.


Lemma json_char_nolf c : has_lf (PrinterModel.json_char c) = false.
Proof.
  unfold PrinterModel.json_char, PrinterModel.QUOTE, PrinterModel.BSLASH.
  assert (Hh : forall n, (PrinterModel.hex_digit n =? 10)%N = false).
  { intros n. unfold PrinterModel.hex_digit. destruct (n <? 10)%N; apply N.eqb_neq; lia. }
  destruct (c =? 34)%N; [reflexivity|]. destruct (c =? 92)%N; [reflexivity|].
  destruct (c =? 10)%N eqn:H10; [reflexivity|]. destruct (c =? 13)%N; [reflexivity|].
  destruct (c =? 9)%N; [reflexivity|]. destruct (c =? 8)%N; [reflexivity|]. destruct (c =? 12)%N; [reflexivity|].
  destruct (c <? 32)%N.
  - unfold has_lf; cbn [existsb]. unfold PrinterModel.LF. rewrite !Hh. reflexivity.
  - unfold has_lf; cbn [existsb]. unfold PrinterModel.LF. rewrite H10. reflexivity.
Qed.

Lemma json_quote_nolf r : has_lf (json_quote r) = false.
Proof.
  unfold json_quote.
  assert (H : has_lf (flat_map PrinterModel.json_char r) = false).
  { induction r as [|c r IH]; [reflexivity|]. cbn [flat_map]. rewrite has_lf_app, json_char_nolf, IH. reflexivity. }
  change (PrinterModel.QUOTE :: flat_map PrinterModel.json_char r ++ [PrinterModel.QUOTE])
    with ([PrinterModel.QUOTE] ++ flat_map PrinterModel.json_char r ++ [PrinterModel.QUOTE]).
  rewrite !has_lf_app, H. reflexivity.
Qed.

