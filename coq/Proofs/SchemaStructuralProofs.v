(* C13: validate_schema(.., enable_resolver_validation=False) reports exactly
   the default-mode errors minus the resolver-signature errors, in the same
   order. *)
From PyGql Require Import Schema.SchemaFull Schema.SchemaValidateModel
  Proofs.SchemaFullLemmas Proofs.SchemaValProofs.

Definition is_resolver_label (l : vlabel) : bool :=
  match l with
  | LResMissing | LResPosOnly | LResNeedsDefault | LResPositional | LResExtraRequired => true
  | _ => false
  end.
Definition not_resolver_error (e : verr) : bool := negb (is_resolver_label (v_label e)).
Notation nr := not_resolver_error.

(* ------------------------------------------------------------ filters *)
Lemma filter_flat_map {A B} (p : B -> bool) (f : A -> list B) l :
  filter p (flat_map f l) = flat_map (fun x => filter p (f x)) l.
Proof. induction l as [|x l IH]; simpl; [reflexivity|]. rewrite filter_app, IH. reflexivity. Qed.

Lemma filter_loop_seen {A} (p : verr -> bool) (name : A -> str) pre dup body :
  forall l seen,
    filter p (loop_seen name pre dup body seen l)
    = loop_seen name (fun x => filter p (pre x)) (fun x => filter p (dup x)) (fun x => filter p (body x)) seen l.
Proof.
  induction l as [|x l IH]; intros seen; simpl; [reflexivity|].
  rewrite filter_app. destruct (mem_str (name x) seen); rewrite filter_app, IH; reflexivity.
Qed.

Lemma loop_seen_map {A B} (h : B -> A) (name : A -> str) pre dup body :
  forall l seen,
    loop_seen name pre dup body seen (map h l)
    = loop_seen (fun x => name (h x)) (fun x => pre (h x)) (fun x => dup (h x)) (fun x => body (h x)) seen l.
Proof.
  induction l as [|x l IH]; intros seen; simpl; [reflexivity|].
  destruct (mem_str (name (h x)) seen); rewrite IH; reflexivity.
Qed.

Lemma flat_map_map {A B C} (h : A -> B) (f : B -> list C) l :
  flat_map f (map h l) = flat_map (fun x => f (h x)) l.
Proof. induction l as [|x l IH]; simpl; [reflexivity|]. rewrite IH. reflexivity. Qed.

Lemma find_last_map {A B} (h : B -> A) (p : A -> bool) l :
  find_last p (map h l) = option_map h (find_last (fun x => p (h x)) l).
Proof.
  induction l as [|x l IH]; simpl; [reflexivity|]. rewrite IH.
  destruct (find_last (fun x0 => p (h x0)) l); simpl; [reflexivity|]. destruct (p (h x)); reflexivity.
Qed.

Lemma filter_keep {A} (p : A -> bool) l : Forall (fun x => p x = true) l -> filter p l = l.
Proof. induction 1 as [|x l Hx _ IH]; simpl; [reflexivity|]. rewrite Hx, IH. reflexivity. Qed.

Lemma filter_drop {A} (p : A -> bool) l : Forall (fun x => p x = false) l -> filter p l = [].
Proof. induction 1 as [|x l Hx _ IH]; simpl; [reflexivity|]. rewrite Hx, IH. reflexivity. Qed.

Lemma Forall_loop_seen {A} (P : verr -> Prop) (name : A -> str) pre dup body :
  (forall x, Forall P (pre x)) -> (forall x, Forall P (dup x)) -> (forall x, Forall P (body x)) ->
  forall l seen, Forall P (loop_seen name pre dup body seen l).
Proof.
  intros H1 H2 H3. induction l as [|x l IH]; intros seen; simpl; [constructor|].
  apply Forall_app. split; [apply H1|].
  destruct (mem_str (name x) seen); apply Forall_app; split; auto.
Qed.

Lemma Forall_flat_map' {A} (P : verr -> Prop) (f : A -> list verr) l :
  (forall x, Forall P (f x)) -> Forall P (flat_map f l).
Proof.
  intros H. induction l as [|x l IH]; simpl; [constructor|]. apply Forall_app. split; [apply H|exact IH].
Qed.

Ltac keep1 := repeat first [ constructor | reflexivity ].

Lemma keep_name n : Forall (fun e => nr e = true) (check_valid_name n).
Proof. unfold check_valid_name. destruct (valid_name n); keep1. Qed.

Lemma keep_args ts path args : Forall (fun e => nr e = true) (validate_args ts path args).
Proof.
  unfold validate_args. apply Forall_loop_seen; intros a; [apply keep_name|keep1|].
  destruct (is_input_ty ts (a_type a)); keep1.
Qed.

Lemma drop_resolver path sg args : Forall (fun e => nr e = false) (resolver_errors path sg args).
Proof.
  unfold resolver_errors. apply Forall_app. split; [|apply Forall_app; split].
  - apply Forall_flat_map'. intros a.
    destruct (find_param sg (a_pyname a)) as [p|];
      repeat match goal with |- Forall _ (if ?c then _ else _) => destruct c end; keep1.
  - match goal with |- Forall _ (if ?c then _ else _) => destruct c end; keep1.
  - apply Forall_flat_map'. intros p.
    match goal with |- Forall _ (if ?c then _ else _) => destruct c end; keep1.
Qed.

(* ------------------------------------------------------------ lookups in the stripped schema *)
Definition strip_type (t : type_def) : type_def :=
  mkType (t_name t) (t_intro t) (t_spec t) (strip_body (t_body t)).

Section Strip.
  Variable s : schema.
  Notation ts := (s_types s).
  Notation ts' := (map strip_type (s_types s)).

  Lemma strip_types : s_types (strip_resolvers s) = ts'.
  Proof. reflexivity. Qed.

  Lemma find_type_strip k : find_type ts' k = option_map strip_type (find_type ts k).
  Proof.
    unfold find_type. induction ts as [|t l IH]; simpl; [reflexivity|].
    destruct (str_eqb k (t_name t)); [reflexivity|exact IH].
  Qed.

  Lemma kind_strip b : kind_code (strip_body b) = kind_code b.
  Proof. destruct b; reflexivity. Qed.

  Lemma kind_of_strip k : kind_of ts' k = kind_of ts k.
  Proof.
    unfold kind_of. rewrite find_type_strip. destruct (find_type ts k); simpl; [rewrite kind_strip|]; reflexivity.
  Qed.

  Lemma is_input_strip t : is_input_ty ts' t = is_input_ty ts t.
  Proof. unfold is_input_ty. rewrite kind_of_strip. reflexivity. Qed.
  Lemma is_output_strip t : is_output_ty ts' t = is_output_ty ts t.
  Proof. unfold is_output_ty. rewrite kind_of_strip. reflexivity. Qed.
  Lemma is_object_strip n : is_object_name ts' n = is_object_name ts n.
  Proof. unfold is_object_name. rewrite kind_of_strip. reflexivity. Qed.

  Lemma possible_strip a b : possible ts' a b = possible ts a b.
  Proof.
    unfold possible. rewrite !find_type_strip.
    destruct (find_type ts b) as [ot|]; simpl; [|reflexivity].
    destruct (t_body ot); simpl; try reflexivity.
    destruct (find_type ts a) as [at_|]; simpl; [|reflexivity].
    destruct (t_body at_); reflexivity.
  Qed.

  Lemma is_subtype_strip : forall t u, is_subtype_model ts' t u = is_subtype_model ts t u.
  Proof.
    induction t as [a|a IH|a IH]; intros u.
    - rewrite (is_subtype_unfold ts' (TyNamed a)), (is_subtype_unfold ts (TyNamed a)).
      destruct (ty_eqb _ u); try reflexivity. destruct u; try reflexivity. apply possible_strip.
    - rewrite (is_subtype_unfold ts' (TyList a)), (is_subtype_unfold ts (TyList a)).
      destruct (ty_eqb _ u); try reflexivity. destruct u; try reflexivity. apply IH.
    - rewrite (is_subtype_unfold ts' (TyNonNull a)), (is_subtype_unfold ts (TyNonNull a)).
      destruct (ty_eqb _ u); try reflexivity. destruct u; apply IH.
  Qed.

  Lemma args_strip path args : validate_args ts' path args = validate_args ts path args.
  Proof.
    unfold validate_args. apply loop_seen_ext; intros a; try reflexivity. rewrite is_input_strip. reflexivity.
  Qed.

  Lemma implementation_strip tn ofs i ifs :
    validate_implementation ts' tn (map strip_field ofs) i (map strip_field ifs)
    = validate_implementation ts tn ofs i ifs.
  Proof.
    unfold validate_implementation. rewrite flat_map_map. apply flat_map_ext. intros f. simpl.
    rewrite find_last_map. simpl.
    destruct (find_last (fun x => str_eqb (f_name f) (f_name x)) ofs) as [g|]; simpl; [|reflexivity].
    rewrite is_subtype_strip. reflexivity.
  Qed.

  Lemma keep_implementation tn ofs i ifs :
    Forall (fun e => nr e = true) (validate_implementation ts tn ofs i ifs).
  Proof.
    unfold validate_implementation. apply Forall_flat_map'. intros f.
    destruct (find_last _ ofs) as [g|]; [|keep1].
    destruct (negb _); [keep1|]. apply Forall_app. split; apply Forall_flat_map'; intros a.
    - destruct (find_last _ (f_args g)); [|keep1]. destruct (ty_eqb _ _); keep1.
    - destruct (find_last _ (f_args f)); [keep1|]. destruct (is_non_null _); keep1.
  Qed.

  Lemma ifaces_strip tn ofs : forall l seen,
    ifaces_go ts' tn (map strip_field ofs) seen l = ifaces_go ts tn ofs seen l.
  Proof.
    induction l as [|i l IH]; intros seen; simpl; [reflexivity|].
    rewrite find_type_strip. destruct (find_type ts i) as [it|]; simpl; [|rewrite IH; reflexivity].
    destruct (t_body it); simpl; try (rewrite IH; reflexivity).
    destruct (mem_str i seen); rewrite IH; [reflexivity|]. rewrite implementation_strip. reflexivity.
  Qed.

  Lemma keep_ifaces tn ofs : forall l seen, Forall (fun e => nr e = true) (ifaces_go ts tn ofs seen l).
  Proof.
    induction l as [|i l IH]; intros seen; simpl; [constructor|].
    destruct (find_type ts i) as [it|]; [|constructor; [reflexivity|apply IH]].
    destruct (t_body it); try (constructor; [reflexivity|apply IH]).
    destruct (mem_str i seen); [constructor; [reflexivity|apply IH]|].
    apply Forall_app. split; [apply keep_implementation|apply IH].
  Qed.

  Lemma union_strip tn : forall l seen, union_go ts' tn seen l = union_go ts tn seen l.
  Proof.
    induction l as [|m l IH]; intros seen; simpl; [reflexivity|].
    rewrite is_object_strip. destruct (is_object_name ts m); simpl; rewrite IH; reflexivity.
  Qed.

  Lemma keep_union tn : forall l seen, Forall (fun e => nr e = true) (union_go ts tn seen l).
  Proof.
    induction l as [|m l IH]; intros seen; simpl; [constructor|].
    destruct (is_object_name ts m); simpl; [|constructor; [reflexivity|apply IH]].
    apply Forall_app. split; [destruct (mem_str m seen); keep1|apply IH].
  Qed.

  (* the fields of one composite type *)
  Lemma fields_strip tn tdr fields :
    validate_fields (strip_resolvers s) tn None (map strip_field fields)
    = filter nr (validate_fields s tn tdr fields).
  Proof.
    unfold validate_fields. rewrite filter_app, filter_loop_seen, loop_seen_map. f_equal.
    - destruct fields; reflexivity.
    - apply loop_seen_ext; intros f; simpl.
      + symmetry. apply filter_keep. apply keep_name.
      + reflexivity.
      + rewrite !filter_app. rewrite is_output_strip, args_strip. f_equal.
        { destruct (is_output_ty ts (f_type f)); reflexivity. }
        rewrite (filter_keep _ _ (keep_args ts [tn; f_name f] (f_args f))). f_equal.
        destruct (or_else (f_resolver f) (or_else tdr (s_default_resolver s))) as [sg|]; [|reflexivity].
        symmetry. apply filter_drop. apply drop_resolver.
  Qed.

  Lemma type_strip t :
    validate_type (strip_resolvers s) (strip_type t) = filter nr (validate_type s t).
  Proof.
    unfold validate_type. simpl t_intro. simpl t_spec. simpl t_name. simpl t_body.
    change (s_types (strip_resolvers s)) with (map strip_type (s_types s)).
    destruct (negb (t_intro t || t_spec t || valid_name (t_name t))); [reflexivity|].
    destruct (t_body t) as [|ifaces fields dr|fields|ms|vs|fs]; simpl strip_body; cbv iota.
    - reflexivity.
    - rewrite filter_app, <- (fields_strip (t_name t) dr fields). f_equal.
      unfold validate_interfaces. rewrite (ifaces_strip (t_name t) fields ifaces []).
      symmetry. apply filter_keep. apply keep_ifaces.
    - apply fields_strip.
    - unfold validate_union_members. rewrite (union_strip (t_name t) ms []).
      symmetry. apply filter_keep. apply Forall_app. split; [destruct ms; keep1|apply keep_union].
    - symmetry. apply filter_keep. unfold validate_enum_values. apply Forall_app. split; [destruct vs; keep1|].
      apply Forall_flat_map'. intros v. apply keep_name.
    - unfold validate_input_fields. symmetry. rewrite filter_app. f_equal; [destruct fs; reflexivity|].
      rewrite filter_loop_seen. apply loop_seen_ext; intros f.
      + apply filter_keep. apply keep_name.
      + reflexivity.
      + rewrite is_input_strip. destruct (is_input_ty ts (i_type f)); reflexivity.
  Qed.

  Lemma roots_strip : validate_roots (strip_resolvers s) = validate_roots s.
  Proof.
    unfold validate_roots. simpl s_types. simpl s_query. simpl s_mutation. simpl s_subscription.
    destruct (s_query s), (s_mutation s), (s_subscription s); rewrite ?is_object_strip; reflexivity.
  Qed.

  Lemma keep_roots : Forall (fun e => nr e = true) (validate_roots s).
  Proof.
    unfold validate_roots. repeat (apply Forall_app; split).
    - destruct (s_query s); [destruct (is_object_name ts s0)|]; keep1.
    - destruct (s_mutation s); [destruct (is_object_name ts s0)|]; keep1.
    - destruct (s_subscription s); [destruct (is_object_name ts s0)|]; keep1.
  Qed.

  Lemma directives_strip : validate_directives ts' (s_dirs s) = validate_directives ts (s_dirs s).
  Proof.
    unfold validate_directives. apply flat_map_ext. intros d. f_equal.
    apply loop_seen_ext; intros a; try reflexivity. rewrite is_input_strip. reflexivity.
  Qed.

  Lemma keep_directives : Forall (fun e => nr e = true) (validate_directives ts (s_dirs s)).
  Proof.
    unfold validate_directives. apply Forall_flat_map'. intros d. apply Forall_app. split; [apply keep_name|].
    apply Forall_loop_seen; intros a; [apply keep_name|keep1|]. destruct (is_input_ty ts (a_type a)); keep1.
  Qed.

  Theorem structural_mode : validate_structural s = filter nr (validate_model s).
  Proof.
    unfold validate_structural, validate_model. rewrite !filter_app, filter_flat_map.
    rewrite roots_strip, (filter_keep _ _ keep_roots). f_equal.
    change (s_types (strip_resolvers s)) with (map strip_type (s_types s)).
    change (s_dirs (strip_resolvers s)) with (s_dirs s).
    rewrite directives_strip, (filter_keep _ _ keep_directives). f_equal.
    rewrite flat_map_map. apply flat_map_ext. intros t. apply type_strip.
  Qed.
End Strip.
