(* C17 composed with the C04 cached executor (Exec/ExecCache.v, read-only):
   the per-event execution is exec_sel_c on the ONE cache threaded through all
   events (per-execution tables included: a subscription keeps one executor),
   and the cache-invariant hypothesis of C17 is discharged from C04's
   transparency theorem (exec_sel_c_pure / C04_history_tables). *)
From PyGql Require Import Exec.SubscribeModel Spec.SubscribeSpec Proofs.SubscribeProofs.
From PyGql Require Import Exec.ExecCache Proofs.ExecCacheProofs.

Section SubscribeExec.
  Variable sch : schema.
  Variable frags : frag_table.
  Variable vs : vars.
  Variable coerce_args : fdef -> selection -> outcome (list (str * pv)).
  Variable world : world_t.
  Variable tyres : str -> option (pv -> tyname_res).
  Variable cfuel : nat.
  Variable sels_eqb : list selection -> list selection -> bool.
  Variable argkey_eqb : fdef * selection -> fdef * selection -> bool.
  Hypothesis sels_eqb_sound : forall a b, sels_eqb a b = true -> a = b.
  Hypothesis argkey_eqb_sound : forall a b, argkey_eqb a b = true -> a = b.
  Variable fuel : nat.
  Variable root_type : str.                (* the Subscription type *)
  Variable sels : list selection.          (* operation.selection_set.selections *)

  (* data of one event's result: the data tree, or the way the execution
     failed (an exception then propagates out of __anext__) *)
  Definition split_result (r : result) : outcome pv * list error :=
    match r with
    | Ok (d, es) => (Ok d, es)
    | OutOfFuel => (OutOfFuel, [])
    | Rejected k p => (Rejected k p, [])
    | Crash k => (Crash k, [])
    end.

  (* execute_fields(root_type, event, [], collect_fields(root_type, selections))
     on the shared executor *)
  Definition run_c (c : cache) (e : pv) : cache * outcome pv * list error :=
    let rc := exec_sel_c sch frags vs coerce_args world tyres cfuel sels_eqb argkey_eqb
                         fuel root_type e [] sels c in
    (snd rc, fst (split_result (fst rc)), snd (split_result (fst rc))).

  (* the same selection executed on event [e] alone, without any table *)
  Definition fresh_result (e : pv) : outcome pv * list error :=
    split_result (exec_sel sch frags vs coerce_args world tyres cfuel fuel root_type e [] sels).

  Notation inv := (cache_inv sch frags vs coerce_args cfuel).

  Lemma empty_cache_inv : inv empty_cache.
  Proof. repeat split; simpl; intros ? ? []. Qed.

  Lemma run_c_pure c e :
    inv c ->
    inv (fst (fst (run_c c e))) /\
    (snd (fst (run_c c e)), snd (run_c c e)) = fresh_result e.
  Proof.
    intros Hc. unfold run_c, fresh_result.
    destruct (exec_sel_c_pure sch frags vs coerce_args world tyres cfuel sels_eqb argkey_eqb
                sels_eqb_sound argkey_eqb_sound fuel root_type e [] sels c Hc) as [c' [E H]].
    rewrite E. simpl. split; [exact H|]. destruct (split_result _); reflexivity.
  Qed.

  Lemma run_c_keeps_inv : forall c e, inv c -> inv (fst (fst (run_c c e))).
  Proof. intros c e Hc. apply (run_c_pure c e Hc). Qed.

  Lemma run_c_cache_independent : forall c e, inv c ->
    snd (fst (run_c c e)) = snd (fst (run_c empty_cache e)) /\ snd (run_c c e) = snd (run_c empty_cache e).
  Proof.
    intros c e Hc. destruct (run_c_pure c e Hc) as [_ H1].
    destruct (run_c_pure empty_cache e empty_cache_inv) as [_ H2].
    rewrite <- H2 in H1. split; [exact (f_equal fst H1)|exact (f_equal snd H1)].
  Qed.

  Lemma spec_result_fresh e :
    spec_result cache pv (outcome pv) error run_c empty_cache e = fresh_result e.
  Proof.
    unfold spec_result. destruct (run_c_pure empty_cache e empty_cache_inv) as [_ H].
    destruct (run_c empty_cache e) as [[c' d] es]. exact H.
  Qed.

  (* whatever the tables hold (sound entries left by the stream set-up and by
     earlier events) and whatever errors linger in the shared list, the k-th
     result is the result of executing event k alone on a fresh executor *)
  Theorem isolation_exec (s : sub_state cache pv error) :
    inv (es_cache (ss_exec s)) ->
    snd (drain cache pv (outcome pv) error run_c s) = map fresh_result (ss_source s) /\
    forall k e r, nth_error (ss_source s) k = Some e ->
      nth_error (snd (drain cache pv (outcome pv) error run_c s)) k = Some r ->
      r = fresh_result e.
  Proof.
    intros Hinv.
    pose proof (stream_spec cache pv (outcome pv) error run_c empty_cache inv
                            run_c_keeps_inv run_c_cache_independent s Hinv) as Hs.
    assert (Hm : snd (drain cache pv (outcome pv) error run_c s) = map fresh_result (ss_source s)).
    { rewrite Hs. unfold spec_stream. apply map_ext. exact spec_result_fresh. }
    split; [exact Hm|]. intros k e r Hk Hr. rewrite Hm in Hr.
    rewrite (map_nth_error _ _ _ Hk) in Hr. inversion Hr. reflexivity.
  Qed.

  (* ... and for every history of __anext__ calls, not only a full drain *)
  Theorem history_exec (j : nat) (s : sub_state cache pv error) :
    inv (es_cache (ss_exec s)) ->
    snd (pulls cache pv (outcome pv) error run_c j s) =
      map Some (firstn j (map fresh_result (ss_source s))) ++ repeat None (j - length (ss_source s)) /\
    ss_source (fst (pulls cache pv (outcome pv) error run_c j s)) = skipn j (ss_source s) /\
    ss_consumed (fst (pulls cache pv (outcome pv) error run_c j s)) =
      ss_consumed s + Nat.min j (length (ss_source s)).
  Proof.
    intros Hinv.
    destruct (pulls_spec cache pv (outcome pv) error run_c empty_cache inv
                run_c_keeps_inv run_c_cache_independent j s Hinv) as (A & B & C & _).
    split; [|split; assumption]. rewrite A. do 3 f_equal. apply map_ext. exact spec_result_fresh.
  Qed.

  (* the tables stay sound along the stream *)
  Theorem stream_keeps_tables_sound (s : sub_state cache pv error) :
    inv (es_cache (ss_exec s)) ->
    inv (es_cache (ss_exec (fst (drain cache pv (outcome pv) error run_c s)))).
  Proof.
    intros Hinv. unfold drain.
    pose proof (drain_src_spec cache pv (outcome pv) error run_c empty_cache inv
                  run_c_keeps_inv run_c_cache_independent
                  (ss_source s) (ss_exec s) (ss_consumed s) (ss_trace s) Hinv) as H.
    destruct (drain_src cache pv (outcome pv) error run_c (ss_exec s) (ss_source s) (ss_consumed s) (ss_trace s)).
    simpl. apply H.
  Qed.
End SubscribeExec.

Ltac eq_goal := solve [reflexivity | eassumption].

(* ---- subscribe() on a real document: the facts the refusal checks read are
   computed with C04's get_operation / collect_for / field_definition *)
Section SubscribeRequest.
  Variable sch : schema.
  Variable coerce_args : fdef -> selection -> outcome (list (str * pv)).
  Variable world : world_t.
  Variable tyres : str -> option (pv -> tyname_res).
  Variable cfuel : nat.
  Variable sels_eqb : list selection -> list selection -> bool.
  Variable argkey_eqb : fdef * selection -> fdef * selection -> bool.
  Hypothesis sels_eqb_sound : forall a b, sels_eqb a b = true -> a = b.
  Hypothesis argkey_eqb_sound : forall a b, argkey_eqb a b = true -> a = b.
  Variable fuel : nat.
  (* Field.subscription_resolver is not None, by root type and field name *)
  Variable has_sub_resolver : str -> str -> bool.
  Variable c_created : cache.

  Definition root_of (k : op_kind) : option str :=
    match k with
    | OpQuery => s_query sch
    | OpMutation => s_mutation sch
    | OpSubscription => s_subscription sch
    end.

  Definition is_subscription_op (k : op_kind) : bool :=
    match k with OpSubscription => true | _ => false end.

  (* first collected root field: key, nodes = next(iter(fields.items())); node = nodes[0] *)
  Definition first_field (rt : str) (g : groups) : bool * bool :=
    match g with
    | (_, node :: _) :: _ =>
        match field_definition sch rt (sel_name node) with
        | Ok (Some (_, fd)) => (true, has_sub_resolver rt (f_name fd))
        | _ => (false, false)
        end
    | _ => (false, false)
    end.

  Definition request_facts (d : document) (opname : option str) (vs : vars) (vars_ok streams : bool)
    : sub_request :=
    match get_operation d opname with
    | Ok (k, sels) =>
        match root_of k with
        | Some rt =>
            match collect_for sch (frag_table_of (doc_defs d)) vs cfuel rt sels with
            | Ok g =>
                SubRequest true vars_ok (is_subscription_op k) streams true (length g)
                           (fst (first_field rt g)) (snd (first_field rt g))
            | _ => SubRequest true vars_ok (is_subscription_op k) streams false 0 false false
            end
        | None => SubRequest false vars_ok false streams false 0 false false
        end
    | _ => SubRequest false vars_ok false streams false 0 false false
    end.

  Definition subscribe_exec (d : document) (opname : option str) (vs : vars) (vars_ok streams : bool)
             (events : list pv) :=
    subscribe cache pv error c_created (request_facts d opname vs vars_ok streams) events.

  (* every way subscribe() can end for a document, read off the document:
     refusals happen with the resolver not called and nothing consumed, and say
     what was wrong with the request; otherwise the operation is a subscription
     with exactly one root field that has a subscription resolver, and the
     response stream is the per-event fresh execution of its selection *)
  Theorem subscribe_exec_spec d opname vs vars_ok streams events :
    match subscribe_exec d opname vs vars_ok streams events with
    | (Refused r, called, consumed) =>
        called = false /\ consumed = 0 /\
        match r with
        | RefInvalidOperation =>
            (forall k sels, get_operation d opname = Ok (k, sels) -> root_of k = None)
        | RefVariables => vars_ok = false
        | RefNotSubscription =>
            exists k sels, get_operation d opname = Ok (k, sels) /\ is_subscription_op k = false
        | RefRuntime => streams = false
        | RefDirectiveArguments =>
            exists sels rt, get_operation d opname = Ok (OpSubscription, sels) /\
              s_subscription sch = Some rt /\
              forall g, collect_for sch (frag_table_of (doc_defs d)) vs cfuel rt sels <> Ok g
        | RefFieldCount =>
            exists sels rt g, get_operation d opname = Ok (OpSubscription, sels) /\
              s_subscription sch = Some rt /\
              collect_for sch (frag_table_of (doc_defs d)) vs cfuel rt sels = Ok g /\ length g <> 1
        | RefNoFieldDef | RefNoResolver =>
            exists sels rt kn, get_operation d opname = Ok (OpSubscription, sels) /\
              s_subscription sch = Some rt /\
              collect_for sch (frag_table_of (doc_defs d)) vs cfuel rt sels = Ok [kn]
        end
    | (Started s0, called, consumed) =>
        called = true /\ consumed = 0 /\ vars_ok = true /\ streams = true /\
        exists sels rt key node nodes k fd,
          get_operation d opname = Ok (OpSubscription, sels) /\ s_subscription sch = Some rt /\
          collect_for sch (frag_table_of (doc_defs d)) vs cfuel rt sels = Ok [(key, node :: nodes)] /\
          field_definition sch rt (sel_name node) = Ok (Some (k, fd)) /\
          has_sub_resolver rt (f_name fd) = true /\
          s0 = SubState (ExecState c_created []) events 0 [] /\
          (cache_inv sch (frag_table_of (doc_defs d)) vs coerce_args cfuel c_created ->
           snd (drain cache pv (outcome pv) error
                  (run_c sch (frag_table_of (doc_defs d)) vs coerce_args world tyres cfuel sels_eqb argkey_eqb fuel rt sels) s0)
           = map (fresh_result sch (frag_table_of (doc_defs d)) vs coerce_args world tyres cfuel fuel rt sels) events)
    end.
  Proof.
    unfold subscribe_exec, request_facts, subscribe.
    destruct (get_operation d opname) as [[k sels]| |a b|a] eqn:Eg;
      cbn [sq_operation_found negb];
      try (repeat split; intros k0 sels0 H0; discriminate).
    destruct (root_of k) as [rt|] eqn:Er.
    2:{ cbn [sq_operation_found negb]. repeat split. intros k0 sels0 H0. inversion H0; subst. exact Er. }
    destruct (collect_for sch (frag_table_of (doc_defs d)) vs cfuel rt sels) as [g| |a b|a] eqn:Ec;
      cbn [sq_operation_found sq_variables_ok sq_is_subscription sq_runtime_streams sq_root_collect_ok
           sq_root_fields sq_field_defined sq_has_subscription_resolver negb].
    all: destruct vars_ok; cbn [negb]; [|repeat split; reflexivity].
    all: destruct k; cbn [is_subscription_op negb];
      try (repeat split; exists OpQuery, sels; split; eq_goal);
      try (repeat split; exists OpMutation, sels; split; eq_goal).
    all: destruct streams; cbn [negb]; [|repeat split; reflexivity].
    all: cbn [root_of] in Er.
    all: try (repeat split; exists sels, rt; split; [eq_goal|]; split; [exact Er|];
              intros g0 Hg0; first [discriminate|rewrite Ec in Hg0; discriminate]).
    (* collect succeeded: g *)
    destruct (length g =? 1) eqn:El; cbn [negb].
    2:{ repeat split. exists sels, rt, g. split; [eq_goal|]. split; [exact Er|]. split; [eq_goal|].
        apply Nat.eqb_neq. exact El. }
    apply Nat.eqb_eq in El. destruct g as [|kn [|kn2 g]]; try discriminate.
    unfold first_field. destruct kn as [key [|node nodes]].
    { cbn [fst snd negb]. repeat split. exists sels, rt, (key, []). repeat split; eq_goal. }
    destruct (field_definition sch rt (sel_name node)) as [[[kf fd]|]| |a b|a] eqn:Ef; cbn [fst snd negb];
      try (repeat split; exists sels, rt, (key, node :: nodes); repeat split; eq_goal).
    destruct (has_sub_resolver rt (f_name fd)) eqn:Eh; cbn [negb].
    2:{ repeat split. exists sels, rt, (key, node :: nodes). repeat split; eq_goal. }
    repeat split. exists sels, rt, key, node, nodes, kf, fd.
    split; [eq_goal|]. split; [exact Er|]. split; [eq_goal|]. split; [eq_goal|].
    split; [eq_goal|]. split; [reflexivity|].
    intros Hinv.
    exact (proj1 (isolation_exec sch (frag_table_of (doc_defs d)) vs coerce_args world tyres cfuel
                    sels_eqb argkey_eqb sels_eqb_sound argkey_eqb_sound fuel rt sels
                    (SubState (ExecState c_created []) events 0 []) Hinv)).
  Qed.
End SubscribeRequest.
