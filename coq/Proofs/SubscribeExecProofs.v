(* C17 composed with the C04 cached executor (Exec/ExecCache.v, read-only):
   the per-event execution is exec_sel_c on the ONE cache threaded through all
   events (per-execution tables included: a subscription keeps one executor),
   and the cache-invariant hypothesis of C17 is discharged from C04's
   transparency theorem (exec_sel_c_pure / C04_history_tables). *)
From PyGql Require Import Exec.SubscribeModel Spec.SubscribeSpec Proofs.SubscribeProofs.
From PyGql Require Import Exec.ExecCache Proofs.ExecCacheProofs.

Section SubscribeExec.
  Variable sch : schema.
  Variable frags : frag_table.
  Variable vs : vars.
  Variable coerce_args : fdef -> selection -> outcome (list (str * pv)).
  Variable world : world_t.
  Variable tyres : str -> option (pv -> tyname_res).
  Variable cfuel : nat.
  Variable sels_eqb : list selection -> list selection -> bool.
  Variable argkey_eqb : fdef * selection -> fdef * selection -> bool.
  Hypothesis sels_eqb_sound : forall a b, sels_eqb a b = true -> a = b.
  Hypothesis argkey_eqb_sound : forall a b, argkey_eqb a b = true -> a = b.
  Variable fuel : nat.
  Variable root_type : str.                (* the Subscription type *)
  Variable sels : list selection.          (* operation.selection_set.selections *)

  (* data of one event's result: the data tree, or the way the execution
     failed (an exception then propagates out of __anext__) *)
  Definition split_result (r : result) : outcome pv * list error :=
    match r with
    | Ok (d, es) => (Ok d, es)
    | OutOfFuel => (OutOfFuel, [])
    | Rejected k p => (Rejected k p, [])
    | Crash k => (Crash k, [])
    end.

  (* execute_fields(root_type, event, [], collect_fields(root_type, selections))
     on the shared executor *)
  Definition run_c (c : cache) (e : pv) : cache * outcome pv * list error :=
    let rc := exec_sel_c sch frags vs coerce_args world tyres cfuel sels_eqb argkey_eqb
                         fuel root_type e [] sels c in
    (snd rc, fst (split_result (fst rc)), snd (split_result (fst rc))).

  (* the same selection executed on event [e] alone, without any table *)
  Definition fresh_result (e : pv) : outcome pv * list error :=
    split_result (exec_sel sch frags vs coerce_args world tyres cfuel fuel root_type e [] sels).

  Notation inv := (cache_inv sch frags vs coerce_args cfuel).

  Lemma empty_cache_inv : inv empty_cache.
  Proof. repeat split; simpl; intros ? ? []. Qed.

  Lemma run_c_pure c e :
    inv c ->
    inv (fst (fst (run_c c e))) /\
    (snd (fst (run_c c e)), snd (run_c c e)) = fresh_result e.
  Proof.
    intros Hc. unfold run_c, fresh_result.
    destruct (exec_sel_c_pure sch frags vs coerce_args world tyres cfuel sels_eqb argkey_eqb
                sels_eqb_sound argkey_eqb_sound fuel root_type e [] sels c Hc) as [c' [E H]].
    rewrite E. simpl. split; [exact H|]. destruct (split_result _); reflexivity.
  Qed.

  Lemma run_c_keeps_inv : forall c e, inv c -> inv (fst (fst (run_c c e))).
  Proof. intros c e Hc. apply (run_c_pure c e Hc). Qed.

  Lemma run_c_cache_independent : forall c e, inv c ->
    snd (fst (run_c c e)) = snd (fst (run_c empty_cache e)) /\ snd (run_c c e) = snd (run_c empty_cache e).
  Proof.
    intros c e Hc. destruct (run_c_pure c e Hc) as [_ H1].
    destruct (run_c_pure empty_cache e empty_cache_inv) as [_ H2].
    rewrite <- H2 in H1. split; [exact (f_equal fst H1)|exact (f_equal snd H1)].
  Qed.

  Lemma spec_result_fresh e :
    spec_result cache pv (outcome pv) error run_c empty_cache e = fresh_result e.
  Proof.
    unfold spec_result. destruct (run_c_pure empty_cache e empty_cache_inv) as [_ H].
    destruct (run_c empty_cache e) as [[c' d] es]. exact H.
  Qed.

  (* whatever the tables hold (sound entries left by the stream set-up and by
     earlier events) and whatever errors linger in the shared list, the k-th
     result is the result of executing event k alone on a fresh executor *)
  Theorem isolation_exec (s : sub_state cache pv error) :
    inv (es_cache (ss_exec s)) ->
    snd (drain cache pv (outcome pv) error run_c s) = map fresh_result (ss_source s) /\
    forall k e r, nth_error (ss_source s) k = Some e ->
      nth_error (snd (drain cache pv (outcome pv) error run_c s)) k = Some r ->
      r = fresh_result e.
  Proof.
    intros Hinv.
    pose proof (stream_spec cache pv (outcome pv) error run_c empty_cache inv
                            run_c_keeps_inv run_c_cache_independent s Hinv) as Hs.
    assert (Hm : snd (drain cache pv (outcome pv) error run_c s) = map fresh_result (ss_source s)).
    { rewrite Hs. unfold spec_stream. apply map_ext. exact spec_result_fresh. }
    split; [exact Hm|]. intros k e r Hk Hr. rewrite Hm in Hr.
    rewrite (map_nth_error _ _ _ Hk) in Hr. inversion Hr. reflexivity.
  Qed.

  (* the tables stay sound along the stream *)
  Theorem stream_keeps_tables_sound (s : sub_state cache pv error) :
    inv (es_cache (ss_exec s)) ->
    inv (es_cache (ss_exec (fst (drain cache pv (outcome pv) error run_c s)))).
  Proof.
    intros Hinv. unfold drain.
    pose proof (drain_src_spec cache pv (outcome pv) error run_c empty_cache inv
                  run_c_keeps_inv run_c_cache_independent
                  (ss_source s) (ss_exec s) (ss_consumed s) (ss_trace s) Hinv) as H.
    destruct (drain_src cache pv (outcome pv) error run_c (ss_exec s) (ss_source s) (ss_consumed s) (ss_trace s)).
    simpl. apply H.
  Qed.
End SubscribeExec.
