(* End to end with the documented (strict) lexical grammar. *)
From PyGql Require Import Lang.Parser Spec.LexSpec Spec.LexicalSpec Spec.GrammarSpec Spec.DocGrammarSpec
  Spec.SdlGrammarSpec Proofs.LexicalProofs Proofs.EntryProofs Proofs.DocEntryProofs Proofs.AcceptProofs
  Proofs.SdlEntryProofs Proofs.FollowProofs.

Lemma lexes_slack_of_lexes s ts : lexes s ts -> lexes_slack s ts.
Proof. intros H. apply lex_lexes_slack. apply lexes_lex. exact H. Qed.

Theorem follow_document nl fv en ts d : D_document nl fv en ts d -> nfe ts.
Proof. intros H. apply ffe_nfe. eapply D_document_ffe; exact H. Qed.

Theorem follow_document_exec nl fv ts d : D_document_exec nl fv ts d -> nfe ts.
Proof. intros H. apply ffe_nfe. eapply D_document_exec_ffe; exact H. Qed.

Theorem accepts_document_strict fl s d :
  parse_document fl s = Ok d <->
  exists ts, lexes s ts /\
    D_document_la (no_location fl) (fragment_variables fl) (allow_type_system fl) ts d.
Proof.
  split.
  - intros H. destruct (proj1 (accepts_document fl s d) H) as (ts & Hl & Dd). exists ts. split; [|exact Dd].
    apply lexes_slack_strict; [exact Hl|]. eapply follow_document. apply D_document_la_document. exact Dd.
  - intros (ts & Hl & Dd). apply (proj2 (accepts_document fl s d)). exists ts. split; [apply lexes_slack_of_lexes; exact Hl|exact Dd].
Qed.

Theorem accepts_exec_strict_iff fl s d : allow_type_system fl = false ->
  (parse_document fl s = Ok d <->
   exists ts, lexes s ts /\ D_document_exec (no_location fl) (fragment_variables fl) ts d).
Proof.
  intros Hts. split.
  - intros H. destruct (proj1 (accepts_exec fl s d Hts) H) as (ts & Hl & Dd). exists ts. split; [|exact Dd].
    apply lexes_slack_strict; [exact Hl|]. eapply follow_document_exec; exact Dd.
  - intros (ts & Hl & Dd). eapply accepts_exec_strict; eassumption.
Qed.

Theorem accepts_value_strict fl s v :
  parse_value_str fl s = Ok v <->
  exists ts body, lexes s ts /\ whole ts body /\ D_value (no_location fl) false body v.
Proof.
  split.
  - intros H. destruct (proj1 (accepts_value fl s v) H) as (ts & body & Hl & Hw & Dv). exists ts, body.
    split; [|auto]. apply lexes_slack_strict; [exact Hl|]. eapply whole_nfe_value; eassumption.
  - intros (ts & body & Hl & Hw & Dv). apply (proj2 (accepts_value fl s v)). exists ts, body.
    split; [apply lexes_slack_of_lexes; exact Hl|auto].
Qed.

Theorem accepts_type_strict fl s t :
  parse_type_str fl s = Ok t <->
  exists ts body, lexes s ts /\ whole ts body /\ D_type (no_location fl) body t.
Proof.
  split.
  - intros H. destruct (proj1 (accepts_type fl s t) H) as (ts & body & Hl & Hw & Dt). exists ts, body.
    split; [|auto]. apply lexes_slack_strict; [exact Hl|]. eapply whole_nfe_type; eassumption.
  - intros (ts & body & Hl & Hw & Dt). apply (proj2 (accepts_type fl s t)). exists ts, body.
    split; [apply lexes_slack_of_lexes; exact Hl|auto].
Qed.
