(* Entry points parse_value / parse_type on source text against the derivation
   relations: the text is accepted exactly when its token sequence is
   SOF body EOF with body derivable, and the tree is the derivation's tree. *)
From PyGql Require Import Lang.Parser Spec.GrammarSpec Proofs.GrammarProofs.

Lemma collect_map ts : collect (map LT ts) = Ok ts.
Proof. induction ts as [|t ts IH]; simpl; [reflexivity|]. rewrite IH. reflexivity. Qed.

Lemma collect_ok_map l ts : collect l = Ok ts -> l = map LT ts.
Proof.
  revert ts; induction l as [|x l IH]; intros ts H; simpl in H.
  - inversion H; reflexivity.
  - destruct x as [t|k p|]; try discriminate.
    destruct (collect l) as [ts'| | |] eqn:E; simpl in H; try discriminate.
    inversion H; subst. simpl. f_equal. apply IH. reflexivity.
Qed.

Lemma lex_from_eof_last : forall fuel rest pos l1 t l2,
  lex_from fuel rest pos = l1 ++ LT t :: l2 -> tk t = KEOF -> l2 = [].
Proof.
  induction fuel as [|f IH]; intros rest pos l1 t l2 H Hk; simpl in H.
  - destruct l1 as [|x [|y l1]]; simpl in H; discriminate.
  - destruct (skip_ws false rest pos) as [r1 p1].
    destruct (next_token r1 p1) as [[t0 r2]| |k p|].
    + destruct l1 as [|x l1]; simpl in H.
      * injection H as E1 E2. subst t0.
        unfold is_kind in E2. rewrite Hk, tkind_eqb_refl in E2. symmetry; exact E2.
      * injection H as E1 E2.
        destruct (is_kind KEOF t0); [destruct l1; discriminate|].
        eapply IH; eassumption.
    + destruct l1 as [|x [|y l1]]; simpl in H; discriminate.
    + destruct l1 as [|x [|y l1]]; simpl in H; discriminate.
    + destruct l1 as [|x [|y l1]]; simpl in H; discriminate.
Qed.

Lemma lex_stream_eof_last s l1 t l2 :
  lex_stream s = l1 ++ LT t :: l2 -> tk t = KEOF -> l2 = [].
Proof.
  unfold lex_stream. intros H Hk.
  remember (lex_from (lex_fuel s) s 0) as L eqn:EL.
  destruct l1 as [|x l1].
  - change ([] ++ LT t :: l2) with (LT t :: l2) in H. injection H as E1 E2.
    rewrite <- E1 in Hk. simpl in Hk. discriminate Hk.
  - change ((x :: l1) ++ LT t :: l2) with (x :: (l1 ++ LT t :: l2)) in H. injection H as E1 E2.
    rewrite EL in E2. eapply lex_from_eof_last; [exact E2|exact Hk].
Qed.

Section Entry.
Variable fl : flags.
Notation nl := (no_location fl).

(* a successful run of [SOF; body-parser; EOF] consumed the whole stream *)
Lemma run_sof_eof {A} (p : nat -> parser A) (R : list ptok -> A -> Prop) s a :
  (forall n, psound (p n) R) ->
  run (fun _ n => pdo _ <- expect KSOF; pdo v <- p n; pdo _ <- expect KEOF; pret v) fl s = Ok a ->
  exists ts body, lex s = Ok ts /\ whole ts body /\ R body a.
Proof.
  intros Hp H. unfold run in H.
  destruct ((pdo _ <- expect KSOF; pdo v <- p (parse_fuel (lex_stream s)); pdo _ <- expect KEOF; pret v)
              (PSt (lex_stream s) 0)) as [[a' st']| | |] eqn:E; try discriminate.
  inversion H; subst a'. clear H.
  apply pbind_ok in E. destruct E as (sof & st1 & Hs & E).
  apply expect_ok in Hs. destruct Hs as (Hsof & _ & Hksof). simpl in Hsof.
  apply pbind_ok in E. destruct E as (v & st2 & Hv & E).
  apply Hp in Hv. destruct Hv as (body & _ & Hbody & HR & _).
  apply pbind_ok in E. destruct E as (eof & st3 & He & E).
  apply expect_ok in He. destruct He as (Heof & _ & Hkeof).
  apply pret_ok in E. destruct E as [-> ->].
  assert (Hstream : lex_stream s = (LT sof :: map LT body) ++ LT eof :: toks st3).
  { rewrite Hsof, Hbody, Heof. reflexivity. }
  pose proof (lex_stream_eof_last _ _ _ _ Hstream Hkeof) as Hnil.
  exists (sof :: body ++ [eof]), body. repeat split; auto.
  - unfold lex. rewrite Hstream, Hnil.
    replace ((LT sof :: map LT body) ++ [LT eof]) with (map LT (sof :: body ++ [eof])).
    + apply collect_map.
    + simpl. rewrite map_app. reflexivity.
  - exists sof, eof. auto.
Qed.

Theorem parse_type_str_sound s t :
  parse_type_str fl s = Ok t ->
  exists ts body, lex s = Ok ts /\ whole ts body /\ D_type nl body t.
Proof.
  intros H. apply (run_sof_eof (parse_type_reference fl) (D_type nl) s t); [|exact H].
  intros n st x st' Hx. apply (parse_type_sound fl n st x st' Hx).
Qed.

Theorem parse_value_str_sound s v :
  parse_value_str fl s = Ok v ->
  exists ts body, lex s = Ok ts /\ whole ts body /\ D_value nl false body v.
Proof.
  intros H. apply (run_sof_eof (fun n => parse_value_literal fl n false) (D_value nl false) s v); [|exact H].
  intros n. apply parse_value_sound.
Qed.

Lemma whole_stream s ts body :
  lex s = Ok ts -> whole ts body ->
  exists sof eof, tk sof = KSOF /\ tk eof = KEOF /\
    lex_stream s = LT sof :: map LT body ++ [LT eof] /\ length body < parse_fuel (lex_stream s).
Proof.
  intros Hl (sof & eof & Hs & He & ->). apply collect_ok_map in Hl.
  exists sof, eof. repeat split; auto.
  - rewrite Hl. simpl. rewrite map_app. reflexivity.
  - rewrite Hl. unfold parse_fuel. simpl. rewrite map_length, app_length. lia.
Qed.

Theorem parse_type_str_complete s ts body t :
  lex s = Ok ts -> whole ts body -> D_type nl body t -> parse_type_str fl s = Ok t.
Proof.
  intros Hl Hw Hd. destruct (whole_stream _ _ _ Hl Hw) as (sof & eof & Hs & He & Hst & Hf).
  unfold parse_type_str, run. rewrite Hst in *. unfold parse_type_p.
  pstep ltac:(apply expect_eval; exact Hs).
  assert (Hne : tk eof <> KBang) by (rewrite He; discriminate).
  destruct (parse_type_complete fl body t Hd _ eof [] (tend sof) Hf) as [_ Hc].
  pstep ltac:(apply Hc; exact Hne).
  pstep ltac:(apply expect_eval; exact He). reflexivity.
Qed.

Theorem parse_value_str_complete s ts body v :
  lex s = Ok ts -> whole ts body -> D_value nl false body v -> parse_value_str fl s = Ok v.
Proof.
  intros Hl Hw Hd. destruct (whole_stream _ _ _ Hl Hw) as (sof & eof & Hs & He & Hst & Hf).
  unfold parse_value_str, run. rewrite Hst in *. unfold parse_value_p.
  pstep ltac:(apply expect_eval; exact Hs).
  destruct (parse_value_complete_all fl) as [Hc _].
  pstep ltac:(apply (Hc false body v Hd); exact Hf).
  pstep ltac:(apply expect_eval; exact He). reflexivity.
Qed.

End Entry.
