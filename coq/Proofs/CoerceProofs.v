(* C07 -- proofs about the coercion model. *)
From PyGql Require Import Spec.CoerceSpec.
From Coq Require Import ZArith Lia.

(* ------------------------------------------------------------------ *)
(* induction principles for the nested datatypes                       *)
Section JsonInd.
  Variable P : json -> Prop.
  Hypothesis Hnull : P JNull.
  Hypothesis Hbool : forall b, P (JBool b).
  Hypothesis Hint : forall z, P (JInt z).
  Hypothesis Hfloat : forall r, P (JFloat r).
  Hypothesis Hstr : forall x, P (JStr x).
  Hypothesis Hlist : forall l, Forall P l -> P (JList l).
  Hypothesis Hobj : forall kvs, Forall (fun kv => P (snd kv)) kvs -> P (JObj kvs).
  Fixpoint json_ind' (j : json) : P j :=
    match j with
    | JNull => Hnull
    | JBool b => Hbool b
    | JInt z => Hint z
    | JFloat r => Hfloat r
    | JStr x => Hstr x
    | JList l => Hlist l ((fix go (l : list json) : Forall P l :=
                             match l with
                             | [] => Forall_nil P
                             | x :: l' => Forall_cons x (json_ind' x) (go l')
                             end) l)
    | JObj kvs => Hobj kvs ((fix go (l : list (str * json)) : Forall (fun kv => P (snd kv)) l :=
                               match l with
                               | [] => Forall_nil _
                               | (k, v) :: l' => Forall_cons (k, v) (json_ind' v) (go l')
                               end) kvs)
    end.
End JsonInd.

Section ValueInd.
  Variable P : value -> Prop.
  Hypothesis Hvar : forall n l, P (VVar n l).
  Hypothesis Hint : forall x l, P (VInt x l).
  Hypothesis Hfloat : forall x l, P (VFloat x l).
  Hypothesis Hstring : forall x b l, P (VString x b l).
  Hypothesis Hbool : forall b l, P (VBool b l).
  Hypothesis Hnull : forall l, P (VNull l).
  Hypothesis Henum : forall x l, P (VEnum x l).
  Hypothesis Hlist : forall vs l, Forall P vs -> P (VList vs l).
  Hypothesis Hobj : forall fs l, Forall (fun f => P (snd (fst f))) fs -> P (VObject fs l).
  Fixpoint value_ind' (v : value) : P v :=
    match v with
    | VVar n l => Hvar n l
    | VInt x l => Hint x l
    | VFloat x l => Hfloat x l
    | VString x b l => Hstring x b l
    | VBool b l => Hbool b l
    | VNull l => Hnull l
    | VEnum x l => Henum x l
    | VList vs l => Hlist vs l ((fix go (vs : list value) : Forall P vs :=
                                   match vs with
                                   | [] => Forall_nil P
                                   | x :: vs' => Forall_cons x (value_ind' x) (go vs')
                                   end) vs)
    | VObject fs l => Hobj fs l ((fix go (fs : list (name * value * loc))
                                    : Forall (fun f => P (snd (fst f))) fs :=
                                    match fs with
                                    | [] => Forall_nil _
                                    | (n, x, lc) :: fs' => Forall_cons (n, x, lc) (value_ind' x) (go fs')
                                    end) fs)
    end.
End ValueInd.

(* ------------------------------------------------------------------ *)
(* unfolding equations of the nested fixpoints                          *)
Definition cv_closures (s : schema) : list (str * json) -> list (str * (ity -> outcome pv)) :=
  fix go (x : list (str * json)) : list (str * (ity -> outcome pv)) :=
    match x with
    | [] => []
    | (k, v) :: x' => (k, coerce_value s v) :: go x'
    end.

Definition relabel {A} (o : outcome A) : outcome pv :=
  match o with
  | Ok _ => Ok PNone
  | OutOfFuel => OutOfFuel
  | Rejected k p => Rejected k p
  | Crash c => Crash c
  end.

Definition cv_input (s : schema) (fs : list ifield) (kvs : list (str * json)) : outcome pv :=
  match cv_fields fs (fun k => alookup k (cv_closures s kvs)) with
  | Ok asg => if forallb (fun kv => is_field (fst kv) fs) kvs
              then Ok (PDict (mkdict asg)) else rejC
  | OutOfFuel => OutOfFuel
  | Rejected k p => Rejected k p
  | Crash c => Crash c
  end.

Definition cv_named (s : schema) (n : str) (j : json) : outcome pv :=
  match alookup n s with
  | None => Crash 1
  | Some TDOutput => Ok PNone
  | Some (TDScalar k) => parse_scalar k j
  | Some (TDEnum vals) =>
      match j with
      | JStr nm => match alookup nm vals with Some v => Ok v | None => rejC end
      | _ => rejC
      end
  | Some (TDInput fs) =>
      match j with
      | JObj kvs => cv_input s fs kvs
      | _ => rejC
      end
  end.

Lemma cv_null s t : coerce_value s JNull t = if ity_nn t then rejC else Ok PNone.
Proof. destruct t; reflexivity. Qed.

Lemma cv_list s nn t l :
  coerce_value s (JList l) (IList nn t)
  = wrap_list (collect_items (map (fun x => coerce_value s x t) l)).
Proof. reflexivity. Qed.

Lemma cv_single s nn t j :
  plain_json j = true ->
  coerce_value s j (IList nn t) = wrap_single (coerce_value s j t).
Proof. destruct j; simpl; intros H; try discriminate; reflexivity. Qed.

Lemma cv_named_eq s nn n j :
  j <> JNull -> coerce_value s j (INamed nn n) = cv_named s n j.
Proof.
  destruct j; intros H; try congruence; unfold cv_named, cv_input; simpl;
    destruct (alookup n s) as [[| | |]|]; reflexivity.
Qed.

Definition vfa_closures (s : schema) (vs : vars)
  : list (name * value * loc) -> list (str * (ity -> outcome pv)) :=
  fix go (x : list (name * value * loc)) : list (str * (ity -> outcome pv)) :=
    match x with
    | [] => []
    | (nm, v, _) :: x' => (n_val nm, value_from_ast s vs v) :: go x'
    end.

Definition vfa_input (s : schema) (vs : vars) (fs : list ifield) (lfs : list (name * value * loc))
  : outcome pv :=
  match vfa_fields fs (fun k => alookup_last k (vfa_closures s vs lfs)) with
  | Ok asg => Ok (PDict (mkdict asg))
  | OutOfFuel => OutOfFuel
  | Rejected k p => Rejected k p
  | Crash c => Crash c
  end.

Definition vfa_named (s : schema) (vs : vars) (n : str) (l : value) : outcome pv :=
  match alookup n s with
  | None => Crash 1
  | Some TDOutput => Crash 2
  | Some (TDInput fs) => match l with VObject lfs _ => vfa_input s vs fs lfs | _ => rejI end
  | Some (TDEnum vals) =>
      match l with
      | VEnum nm _ => match alookup nm vals with Some v => Ok v | None => rejI end
      | _ => rejI
      end
  | Some (TDScalar k) => parse_literal k l
  end.

(* literals that are neither a variable nor null *)
Definition plain_value (l : value) : bool :=
  match l with VVar _ _ | VNull _ => false | _ => true end.
Definition is_vlist (l : value) : bool := match l with VList _ _ => true | _ => false end.

Lemma vfa_var s vs x lc t : value_from_ast s vs (VVar x lc) t = extract_variable vs (n_val x) t.
Proof. destruct t; reflexivity. Qed.

Lemma vfa_null s vs lc t : value_from_ast s vs (VNull lc) t = if ity_nn t then rejI else Ok PNone.
Proof. destruct t; reflexivity. Qed.

Lemma vfa_list s vs nn t items lc :
  value_from_ast s vs (VList items lc) (IList nn t)
  = wrap_list (seq_items (map (fun x => value_from_ast s vs x t) items)).
Proof. reflexivity. Qed.

Lemma vfa_single s vs nn t l :
  plain_value l = true -> is_vlist l = false ->
  value_from_ast s vs l (IList nn t) = wrap_single (value_from_ast s vs l t).
Proof. destruct l; simpl; intros H1 H2; try discriminate; reflexivity. Qed.

Lemma vfa_named_eq s vs nn n l :
  plain_value l = true -> value_from_ast s vs l (INamed nn n) = vfa_named s vs n l.
Proof.
  destruct l; simpl; intros H; try discriminate; unfold vfa_named, vfa_input; simpl;
    destruct (alookup n s) as [[| | |]|]; reflexivity.
Qed.

(* ------------------------------------------------------------------ *)
(* python dict assignment                                               *)
Lemma pset_In k v d k' v' :
  In (k', v') (pset k v d) -> (k' = k /\ v' = v) \/ In (k', v') d.
Proof.
  induction d as [|[k0 v0] d IH]; simpl.
  - intros [H|[]]; inversion H; auto.
  - destruct (str_eqb_spec k k0) as [->|Hn]; simpl.
    + intros [H|H]; [inversion H; auto|auto].
    + intros [H|H]; [auto|]. destruct (IH H); auto.
Qed.

Lemma pset_keys k v d k' :
  In k' (map fst (pset k v d)) <-> k' = k \/ In k' (map fst d).
Proof.
  induction d as [|[k0 v0] d IH]; simpl.
  - intuition.
  - destruct (str_eqb_spec k k0) as [->|Hn]; simpl.
    + intuition.
    + rewrite IH. intuition.
Qed.

Lemma pset_nodup k v d : NoDup (map fst d) -> NoDup (map fst (pset k v d)).
Proof.
  induction d as [|[k0 v0] d IH]; simpl; intros H.
  - constructor; [intros []|constructor].
  - inversion H as [|? ? Hnin Hnd]; subst.
    destruct (str_eqb_spec k k0) as [->|Hn]; simpl.
    + constructor; assumption.
    + constructor; [|auto]. rewrite pset_keys. intros [->|Hi]; [congruence|contradiction].
Qed.

Definition dstep (d : list (str * pv)) (kv : str * pv) := pset (fst kv) (snd kv) d.

Lemma fold_dict_In asg : forall acc k v,
  In (k, v) (fold_left dstep asg acc) -> In (k, v) asg \/ In (k, v) acc.
Proof.
  induction asg as [|[k0 v0] asg IH]; simpl; intros acc k v H; [auto|].
  apply IH in H. destruct H as [H|H]; [auto|].
  unfold dstep in H; simpl in H. apply pset_In in H. destruct H as [[-> ->]|H]; auto.
Qed.

Lemma fold_dict_keys asg : forall acc k,
  In k (map fst (fold_left dstep asg acc)) <-> In k (map fst asg) \/ In k (map fst acc).
Proof.
  induction asg as [|[k0 v0] asg IH]; simpl; intros acc k; [intuition|].
  rewrite IH. unfold dstep; simpl. rewrite pset_keys. intuition.
Qed.

Lemma fold_dict_nodup asg : forall acc,
  NoDup (map fst acc) -> NoDup (map fst (fold_left dstep asg acc)).
Proof.
  induction asg as [|[k0 v0] asg IH]; simpl; intros acc H; [assumption|].
  apply IH. apply pset_nodup; assumption.
Qed.

Lemma mkdict_In asg k v : In (k, v) (mkdict asg) -> In (k, v) asg.
Proof. intros H. apply fold_dict_In in H. destruct H as [H|[]]; assumption. Qed.

Lemma mkdict_keys asg k : In k (map fst (mkdict asg)) <-> In k (map fst asg).
Proof. unfold mkdict. change (fun d kv => pset (fst kv) (snd kv) d) with dstep.
       rewrite fold_dict_keys. simpl. intuition. Qed.

Lemma mkdict_nodup asg : NoDup (map fst (mkdict asg)).
Proof. apply fold_dict_nodup. constructor. Qed.

(* ------------------------------------------------------------------ *)
(* scalars                                                              *)
Lemma in_int32_spec z : in_int32 z = true <-> int32 z.
Proof. unfold in_int32, int32. rewrite andb_true_iff, !Z.leb_le. tauto. Qed.

Lemma int_range_ok z v : int_range z = Ok v -> v = PInt z /\ int32 z.
Proof.
  unfold int_range. destruct (in_int32 z) eqn:E; [|discriminate].
  intros H; inversion H; split; [reflexivity|apply in_int32_spec; assumption].
Qed.

Lemma int_rangeI_ok z v : int_rangeI z = Ok v -> v = PInt z /\ int32 z.
Proof.
  unfold int_rangeI. destruct (in_int32 z) eqn:E; [|discriminate].
  intros H; inversion H; split; [reflexivity|apply in_int32_spec; assumption].
Qed.

Lemma pv_of_json_none j : pv_of_json j = PNone -> j = JNull.
Proof. destruct j; simpl; congruence. Qed.

Lemma parse_scalar_sound k j v :
  j <> JNull -> parse_scalar k j = Ok v -> scalar_ok k v.
Proof.
  intros Hj H. destruct k; simpl in *.
  - (* Int *)
    destruct j; try discriminate.
    + apply int_range_ok in H as [-> Hr]; eauto.
    + destruct (dec_of_text r) as [d|]; [|discriminate].
      destruct (dec_integral d) as [z|]; [|discriminate].
      apply int_range_ok in H as [-> Hr]; eauto.
    + destruct (clean_num_text s) as [s1|]; [|discriminate].
      destruct (parse_int_text s1) as [z|].
      * apply int_range_ok in H as [-> Hr]; eauto.
      * destruct (dec_of_text s1) as [d|]; [|discriminate].
        destruct (dec_integral d) as [z|]; [|discriminate].
        apply int_range_ok in H as [-> Hr]; eauto.
  - destruct j; try discriminate.
    + destruct (float_int_ok z); inversion H; eauto.
    + destruct (dec_of_text r); inversion H; eauto.
    + destruct (clean_num_text s) as [s1|]; [|discriminate].
      destruct (dec_of_text s1); inversion H; eauto.
  - destruct j; try discriminate; inversion H; eauto.
  - destruct j; try discriminate; inversion H; eauto.
  - destruct j; try discriminate; inversion H; eauto.
  - inversion H; subst. intros E. apply pv_of_json_none in E. contradiction.
  - destruct j as [| | | |[|c x]| |]; try discriminate. inversion H; subst.
    exists (c :: x); split; [reflexivity|discriminate].
  - destruct j; try discriminate. unfold odd_value in H.
    destruct (z =? 13)%Z; [discriminate|]. destruct (Z.odd z) eqn:Eo; [|discriminate].
    inversion H; eauto.
Qed.

Lemma parse_literal_sound k l v : parse_literal k l = Ok v -> scalar_ok k v.
Proof.
  intros H. destruct k; simpl in *.
  - destruct l; try discriminate. destruct (parse_int_text s) as [z|]; [|discriminate].
    apply int_rangeI_ok in H as [-> Hr]; eauto.
  - destruct l; try discriminate; destruct (dec_of_text s); inversion H; eauto.
  - destruct l; try discriminate; inversion H; eauto.
  - destruct l; try discriminate; inversion H; eauto.
  - destruct l; try discriminate; inversion H; eauto.
  - destruct l; try discriminate.
    + destruct (parse_int_text s); inversion H; discriminate.
    + destruct (dec_of_text s); inversion H; discriminate.
    + inversion H; discriminate.
    + inversion H; discriminate.
  - destruct l as [| | |[|c x] b lc| | | | |]; try discriminate. inversion H; subst.
    exists (c :: x); split; [reflexivity|discriminate].
  - destruct l; try discriminate. destruct (parse_int_text s) as [z|]; [|discriminate].
    unfold odd_value in H.
    destruct (z =? 13)%Z; [discriminate|]. destruct (Z.odd z) eqn:Eo; [|discriminate].
    inversion H; eauto.
Qed.

(* ------------------------------------------------------------------ *)
(* the collecting / sequencing loops                                    *)
Lemma collect_items_ok rs : forall vs,
  collect_items rs = Ok vs -> Forall2 (fun r v => r = Ok v) rs vs.
Proof.
  induction rs as [|r rs IH]; simpl; intros vs H.
  - inversion H; constructor.
  - destruct r as [v| | |]; try discriminate.
    + destruct (collect_items rs) as [l| | |]; try discriminate.
      inversion H; subst. constructor; auto.
    + destruct (collect_items rs); discriminate.
Qed.

Lemma seq_items_ok rs : forall vs,
  seq_items rs = Ok vs -> Forall2 (fun r v => r = Ok v) rs vs.
Proof.
  induction rs as [|r rs IH]; simpl; intros vs H.
  - inversion H; constructor.
  - destruct r as [v| | |]; try discriminate.
    destruct (seq_items rs) as [l| | |]; try discriminate.
    inversion H; subst. constructor; auto.
Qed.

Lemma wrap_list_ok o v : wrap_list o = Ok v -> exists l, o = Ok l /\ v = PList l.
Proof. destruct o; simpl; intros H; inversion H; eauto. Qed.

Lemma wrap_single_ok o v : wrap_single o = Ok v -> exists x, o = Ok x /\ v = PList [x].
Proof. destruct o; simpl; intros H; inversion H; eauto. Qed.

Lemma some_ok_ok o b : some_ok o = Ok b -> exists v, o = Ok v /\ b = Some v.
Proof. destruct o; simpl; intros H; inversion H; eauto. Qed.

Lemma absent_field_ok f rej b :
  (forall x, rej <> Ok x) -> absent_field f rej = Ok b ->
  (exists d, f_default f = Some d /\ b = Some d)
  \/ (f_default f = None /\ ity_nn (f_ty f) = false /\ b = None).
Proof.
  unfold absent_field. intros Hr H. destruct (f_default f) as [d|].
  - inversion H; eauto.
  - destruct (ity_nn (f_ty f)); [exfalso; eapply Hr; eauto|]. inversion H; auto.
Qed.

(* what a successful pass over the declared fields produced *)
Definition field_origin (look : str -> option (ity -> outcome pv)) (f : ifield) (v : pv) : Prop :=
  (look (f_name f) = None /\ f_default f = Some v)
  \/ (exists c, look (f_name f) = Some c /\ c (f_ty f) = Ok v).

Definition fields_result (look : str -> option (ity -> outcome pv)) (fs : list ifield)
           (asg : list (str * pv)) : Prop :=
  (forall k v, In (k, v) asg -> exists f, In f fs /\ f_py f = k /\ field_origin look f v)
  /\ (forall f, In f fs -> f_default f <> None \/ ity_nn (f_ty f) = true ->
                In (f_py f) (map fst asg)).

Lemma fields_result_step look f fs b l :
  match b with
  | Some v => field_origin look f v
  | None => f_default f = None /\ ity_nn (f_ty f) = false
  end ->
  fields_result look fs l ->
  fields_result look (f :: fs) (match b with Some v => (f_py f, v) :: l | None => l end).
Proof.
  intros Hb (IH1 & IH2). split.
  - intros k v Hin. destruct b as [v0|].
    + destruct Hin as [Hin|Hin].
      * inversion Hin; subst. exists f; simpl; auto.
      * destruct (IH1 _ _ Hin) as (g & Hg & Hk & Ho). exists g; simpl; auto.
    + destruct (IH1 _ _ Hin) as (g & Hg & Hk & Ho). exists g; simpl; auto.
  - intros g [<-|Hg] Hreq.
    + destruct b as [v0|]; [left; reflexivity|].
      destruct Hb as (Hd & Hn). destruct Hreq; congruence.
    + specialize (IH2 g Hg Hreq). destruct b; [right|]; assumption.
Qed.

Lemma field_step_origin look f rej b :
  (forall x, rej <> Ok x) ->
  match look (f_name f) with
  | None => absent_field f rej
  | Some c => some_ok (c (f_ty f))
  end = Ok b ->
  match b with
  | Some v => field_origin look f v
  | None => f_default f = None /\ ity_nn (f_ty f) = false
  end.
Proof.
  intros Hr Er. destruct (look (f_name f)) as [c|] eqn:El2.
  - apply some_ok_ok in Er as (v & Hv & ->). right; eauto.
  - apply absent_field_ok in Er; [|assumption].
    destruct Er as [(d & Hd & ->)|(Hd & Hn & ->)]; [left; auto|auto].
Qed.

Lemma cv_fields_ok look fs : forall asg,
  cv_fields fs look = Ok asg -> fields_result look fs asg.
Proof.
  induction fs as [|f fs IH]; simpl; intros asg H.
  - inversion H; subst. split; simpl; intros; contradiction.
  - destruct (match look (f_name f) with
              | None => absent_field f rejC
              | Some c => some_ok (c (f_ty f))
              end) as [b| | |] eqn:Er; try discriminate.
    2:{ destruct (cv_fields fs look); discriminate. }
    destruct (cv_fields fs look) as [l| | |] eqn:El; try discriminate.
    inversion H; subst; clear H.
    apply fields_result_step; [|apply IH; reflexivity].
    eapply field_step_origin; [|exact Er]. intros x; discriminate.
Qed.

Lemma vfa_fields_ok look fs : forall asg,
  vfa_fields fs look = Ok asg -> fields_result look fs asg.
Proof.
  induction fs as [|f fs IH]; simpl; intros asg H.
  - inversion H; subst. split; simpl; intros; contradiction.
  - destruct (match look (f_name f) with
              | None => absent_field f rejI
              | Some c => some_ok (c (f_ty f))
              end) as [b| | |] eqn:Er; try discriminate.
    destruct (vfa_fields fs look) as [l| | |] eqn:El; try discriminate.
    inversion H; subst; clear H.
    apply fields_result_step; [|apply IH; reflexivity].
    eapply field_step_origin; [|exact Er]. intros x; discriminate.
Qed.

Lemma cv_closures_lookup s kvs k c :
  alookup k (cv_closures s kvs) = Some c -> exists j, In (k, j) kvs /\ c = coerce_value s j.
Proof.
  induction kvs as [|[k0 j0] kvs IH]; simpl; [discriminate|].
  destruct (str_eqb_spec k k0) as [->|Hn]; intros H.
  - inversion H; eauto.
  - destruct (IH H) as (j & Hj & ->); eauto.
Qed.

Lemma vfa_closures_In s vs lfs k c :
  In (k, c) (vfa_closures s vs lfs) ->
  exists nm v lc, In (nm, v, lc) lfs /\ n_val nm = k /\ c = value_from_ast s vs v.
Proof.
  induction lfs as [|[[nm v] lc] lfs IH]; simpl; [intros []|].
  intros [H|H].
  - inversion H; subst. exists nm, v, lc; auto.
  - destruct (IH H) as (nm' & v' & lc' & Hin & Hk & Hc). exists nm', v', lc'; auto.
Qed.

Lemma vfa_closures_lookup s vs lfs k c :
  alookup_last k (vfa_closures s vs lfs) = Some c ->
  exists nm v lc, In (nm, v, lc) lfs /\ n_val nm = k /\ c = value_from_ast s vs v.
Proof.
  unfold alookup_last. intros H. apply alookup_In in H. apply in_rev in H.
  apply vfa_closures_In; assumption.
Qed.

(* ------------------------------------------------------------------ *)
(* soundness: whatever the coercion functions return conforms           *)
Lemma Forall2_ok_map {A} (f : A -> outcome pv) (P : pv -> Prop) l : forall vs,
  Forall (fun x => forall v, f x = Ok v -> P v) l ->
  Forall2 (fun r v => r = Ok v) (map f l) vs -> Forall P vs.
Proof.
  induction l as [|x l IH]; simpl; intros vs Hall H2; inversion H2; subst; constructor.
  - inversion Hall; subst; auto.
  - inversion Hall; subst; auto.
Qed.

Section Sound.
  Variable s : schema.
  Hypothesis Hwf : schema_wf s.

  Lemma origin_conforms look fs n f v :
    alookup n s = Some (TDInput fs) -> In f fs ->
    (forall c, look (f_name f) = Some c -> forall v, c (f_ty f) = Ok v -> conforms s (f_ty f) v) ->
    field_origin look f v -> conforms s (f_ty f) v.
  Proof.
    intros Hn Hf Hc [[_ Hd]|(c & Hl & Hv)].
    - destruct Hwf as [Hw _]. eapply Hw; eauto.
    - eapply Hc; eauto.
  Qed.

  Lemma fields_result_conforms look fs nn n asg :
    alookup n s = Some (TDInput fs) ->
    (forall f c, In f fs -> look (f_name f) = Some c ->
                 forall v, c (f_ty f) = Ok v -> conforms s (f_ty f) v) ->
    fields_result look fs asg -> conforms s (INamed nn n) (PDict (mkdict asg)).
  Proof.
    intros Hn Hc (R1 & R2). eapply CF_input; [exact Hn|apply mkdict_nodup| | |].
    - intros k v Hin. apply mkdict_In in Hin. destruct (R1 _ _ Hin) as (f & Hf & Hk & Ho).
      exists f; repeat split; auto. eapply origin_conforms; eauto.
    - intros f Hf Hd. apply mkdict_keys. apply R2; auto.
    - intros f Hf Hd. apply mkdict_keys. apply R2; auto.
  Qed.

  Definition sound_at (j : json) : Prop :=
    forall t v, input_ty s t -> coerce_value s j t = Ok v -> conforms s t v.

  Lemma cv_named_sound j nn n v :
    j <> JNull -> input_ty s (INamed nn n) ->
    match j with JObj kvs => Forall (fun kv => sound_at (snd kv)) kvs | _ => True end ->
    cv_named s n j = Ok v -> conforms s (INamed nn n) v.
  Proof.
    intros Hj Hin IH H. unfold cv_named in H. unfold input_ty in Hin; simpl in Hin.
    destruct (alookup n s) as [[k|vals|fs|]|] eqn:Hn; try discriminate; try congruence.
    - eapply CF_scalar; [exact Hn|]. eapply parse_scalar_sound; eauto.
    - destruct j; try discriminate.
      destruct (alookup s0 vals) as [v0|] eqn:Hv; inversion H; subst.
      eapply CF_enum; [exact Hn|]. apply alookup_In; eassumption.
    - destruct j; try discriminate. unfold cv_input in H.
      destruct (cv_fields fs _) as [asg| | |] eqn:Hf; try discriminate.
      destruct (forallb _ kvs); inversion H; subst.
      eapply fields_result_conforms; [exact Hn| |apply cv_fields_ok; exact Hf].
      intros f c Hfin Hl v Hv. apply cv_closures_lookup in Hl as (j & Hinj & ->).
      rewrite Forall_forall in IH. apply (IH (f_name f, j) Hinj (f_ty f) v); [|exact Hv].
      destruct Hwf as (_ & _ & Hw). eapply Hw; eauto.
  Qed.

  Lemma cv_list_sound l nn t v :
    Forall sound_at l -> input_ty s t ->
    coerce_value s (JList l) (IList nn t) = Ok v -> conforms s (IList nn t) v.
  Proof.
    intros IH Hin H. rewrite cv_list in H.
    apply wrap_list_ok in H as (vs & Hc & ->). apply collect_items_ok in Hc.
    constructor. eapply Forall2_ok_map; [|exact Hc].
    rewrite Forall_forall in *. intros x Hx v Hv. eapply IH; eauto.
  Qed.

  Lemma cv_plain_sound j :
    plain_json j = true ->
    match j with JObj kvs => Forall (fun kv => sound_at (snd kv)) kvs | _ => True end ->
    sound_at j.
  Proof.
    intros Hp IH t. induction t as [nn n|nn t IHt]; intros v Hin H.
    - rewrite cv_named_eq in H by (destruct j; discriminate).
      eapply cv_named_sound; eauto. destruct j; discriminate.
    - rewrite cv_single in H by assumption.
      apply wrap_single_ok in H as (x & Hx & ->).
      constructor. constructor; [|constructor]. apply IHt; assumption.
  Qed.

  Theorem cv_sound : forall j, sound_at j.
  Proof.
    induction j using json_ind'; try (apply cv_plain_sound; [reflexivity|exact I]).
    - (* null *)
      intros t v _ H. rewrite cv_null in H.
      destruct t as [[|] n|[|] t]; simpl in H; inversion H; constructor.
    - (* list *)
      intros t. induction t as [nn n|nn t IHt]; intros v Hin Hv.
      + rewrite cv_named_eq in Hv by discriminate.
        eapply cv_named_sound; eauto; [discriminate|exact I].
      + eapply cv_list_sound; eauto.
    - apply cv_plain_sound; [reflexivity|assumption].
  Qed.
End Sound.

Lemma conforms_strengthen s t v :
  conforms s (ity_nullable t) v -> (ity_nn t = true -> v <> PNone) -> conforms s t v.
Proof.
  intros H Hn. destruct t as [[|] n|[|] t]; simpl in *; try assumption.
  - inversion H; subst; [exfalso; apply Hn; reflexivity| | |].
    + eapply CF_scalar; eauto.
    + eapply CF_enum; eauto.
    + eapply CF_input; eauto.
  - inversion H; subst; [exfalso; apply Hn; reflexivity|]. constructor; assumption.
Qed.

Lemma conforms_weaken s t v : conforms s t v -> conforms s (ity_nullable t) v.
Proof.
  intros H. destruct t as [nn n|nn t]; simpl; inversion H; subst; try constructor; auto.
  - eapply CF_scalar; eauto.
  - eapply CF_enum; eauto.
  - eapply CF_input; eauto.
Qed.

Section SoundLit.
  Variable s : schema.
  Hypothesis Hwf : schema_wf s.
  Variable vs : vars.

  Definition lsound_at (l : value) : Prop :=
    forall t v, input_ty s t -> vars_fit s vs t l ->
                value_from_ast s vs l t = Ok v -> conforms s t v.

  Lemma vfa_named_sound l nn n v :
    plain_value l = true -> input_ty s (INamed nn n) ->
    vars_fit s vs (INamed nn n) l ->
    match l with VObject lfs _ => Forall (fun f => lsound_at (snd (fst f))) lfs | _ => True end ->
    vfa_named s vs n l = Ok v -> conforms s (INamed nn n) v.
  Proof.
    intros Hp Hin Hfit IH H. unfold vfa_named in H. unfold input_ty in Hin; simpl in Hin.
    destruct (alookup n s) as [[k|vals|fs|]|] eqn:Hn; try discriminate; try congruence.
    - eapply CF_scalar; [exact Hn|]. eapply parse_literal_sound; eauto.
    - destruct l; try discriminate.
      destruct (alookup s0 vals) as [v0|] eqn:Hv; inversion H; subst.
      eapply CF_enum; [exact Hn|]. apply alookup_In; eassumption.
    - destruct l; try discriminate. unfold vfa_input in H.
      destruct (vfa_fields fs _) as [asg| | |] eqn:Hf; try discriminate.
      inversion H; subst.
      eapply fields_result_conforms; [exact Hwf|exact Hn| |apply vfa_fields_ok; exact Hf].
      intros f c Hfin Hl v Hv.
      apply vfa_closures_lookup in Hl as (nm & v0 & lc & Hinl & Hk & ->).
      rewrite Forall_forall in IH. apply (IH (nm, v0, lc) Hinl (f_ty f) v); [| |exact Hv].
      + destruct Hwf as (_ & _ & Hw). eapply Hw; eauto.
      + intros x tp w Hat Hx. apply (Hfit x tp w); [|exact Hx].
        eapply VA_field; eauto.
  Qed.

  Lemma vfa_plain_sound l :
    plain_value l = true -> is_vlist l = false ->
    match l with VObject lfs _ => Forall (fun f => lsound_at (snd (fst f))) lfs | _ => True end ->
    lsound_at l.
  Proof.
    intros Hp Hl IH t. induction t as [nn n|nn t IHt]; intros v Hin Hfit H.
    - rewrite vfa_named_eq in H by assumption. eapply vfa_named_sound; eauto.
    - rewrite vfa_single in H by assumption.
      apply wrap_single_ok in H as (x & Hx & ->).
      constructor. constructor; [|constructor]. apply IHt; [assumption| |assumption].
      intros y tp w Hat Hy. apply (Hfit y tp w); [|exact Hy]. apply VA_single; [|assumption].
      destruct l; simpl in *; try discriminate; reflexivity.
  Qed.

  Theorem vfa_sound : forall l, lsound_at l.
  Proof.
    induction l using value_ind'; try (apply vfa_plain_sound; [reflexivity|reflexivity|exact I]).
    - (* variable *)
      intros t v _ Hfit H. rewrite vfa_var in H. unfold extract_variable in H.
      destruct (alookup (n_val n) vs) as [w|] eqn:Hw; [|discriminate].
      destruct (ity_nn t && is_none w) eqn:Hc; [discriminate|]. inversion H; subst.
      apply conforms_strengthen.
      + apply (Hfit (n_val n) t v); [constructor|assumption].
      + intros Hnn ->. rewrite Hnn in Hc. discriminate.
    - (* null *)
      intros t v _ _ H. rewrite vfa_null in H.
      destruct t as [[|] n|[|] t]; simpl in H; inversion H; constructor.
    - (* list literal *)
      intros t. induction t as [nn n|nn t IHt]; intros v Hin Hfit Hv.
      + rewrite vfa_named_eq in Hv by reflexivity.
        eapply vfa_named_sound; eauto; [reflexivity|exact I].
      + rewrite vfa_list in Hv. apply wrap_list_ok in Hv as (xs & Hc & ->).
        apply seq_items_ok in Hc. constructor. eapply Forall2_ok_map; [|exact Hc].
        rewrite Forall_forall in *. intros x Hx w Hw. apply (H x Hx t w); [exact Hin| |exact Hw].
        intros y tp u Hat Hy. apply (Hfit y tp u); [|exact Hy]. eapply VA_item; eauto.
    - apply vfa_plain_sound; [reflexivity|reflexivity|assumption].
  Qed.
End SoundLit.

(* ------------------------------------------------------------------ *)
(* arguments and variables                                              *)
Definition args_wf (s : schema) (defs : list ifield) : Prop :=
  fields_wf s defs /\ (forall d, In d defs -> input_ty s (f_ty d)).

Definition call_vars_fit (s : schema) (vs : vars) (defs : list ifield) (call : list argument) : Prop :=
  forall d l, In d defs -> arg_lookup call (f_name d) = Some l -> vars_fit s vs (f_ty d) l.

Lemma arg_bindings_ok s vs call defs : forall asg,
  arg_bindings s vs call defs = Ok asg ->
  (forall k v, In (k, v) asg ->
      exists d, In d defs /\ f_py d = k /\ arg_binding s vs call d = Ok (Some v))
  /\ (forall d, In d defs -> (forall v, arg_binding s vs call d <> Ok (Some v)) ->
                arg_binding s vs call d = Ok None).
Proof.
  induction defs as [|d defs IH]; simpl; intros asg H.
  - inversion H; subst. split; simpl; intros; contradiction.
  - destruct (arg_binding s vs call d) as [b| | |] eqn:Eb; try discriminate.
    destruct (arg_bindings s vs call defs) as [l| | |]; try discriminate.
    inversion H; subst; clear H. destruct (IH l eq_refl) as (I1 & I2). split.
    + intros k v Hin. destruct b as [v0|].
      * destruct Hin as [Hin|Hin].
        -- inversion Hin; subst. exists d; auto.
        -- destruct (I1 _ _ Hin) as (g & Hg & Hk & Hb). exists g; auto.
      * destruct (I1 _ _ Hin) as (g & Hg & Hk & Hb). exists g; auto.
    + intros g [<-|Hg] Hno.
      * destruct b as [v0|]; [exfalso; eapply Hno; eauto|assumption].
      * apply I2; assumption.
Qed.

Lemma arg_binding_sound s vs call d v :
  schema_wf s -> (forall dv, f_default d = Some dv -> conforms s (f_ty d) dv) ->
  input_ty s (f_ty d) ->
  (forall l, arg_lookup call (f_name d) = Some l -> vars_fit s vs (f_ty d) l) ->
  arg_binding s vs call d = Ok (Some v) -> conforms s (f_ty d) v.
Proof.
  intros Hwf Hd Hin Hfit H. unfold arg_binding in H.
  assert (Habs : absent_field d rejC = Ok (Some v) -> conforms s (f_ty d) v).
  { intros Ha. apply absent_field_ok in Ha; [|intros x; discriminate].
    destruct Ha as [(dv & Hdv & E)|(_ & _ & E)]; inversion E; subst. auto. }
  destruct (arg_lookup call (f_name d)) as [l|] eqn:El; [|auto].
  specialize (Hfit l eq_refl).
  assert (Hlit : match value_from_ast s vs l (f_ty d) with
                 | Ok v0 => Ok (Some v0)
                 | OutOfFuel => OutOfFuel
                 | Rejected _ _ => rejC
                 | Crash c => Crash c
                 end = Ok (Some v) -> conforms s (f_ty d) v).
  { intros Hl. destruct (value_from_ast s vs l (f_ty d)) as [v0| | |] eqn:Ev; try discriminate.
    inversion Hl; subst. eapply vfa_sound; eauto. }
  destruct l; auto.
  (* a variable in argument position *)
  destruct (alookup (n_val n) vs) as [w|] eqn:Hw; [|auto].
  destruct (ity_nn (f_ty d) && is_none w) eqn:Hc; [discriminate|]. inversion H; subst.
  apply conforms_strengthen.
  - apply (Hfit (n_val n) (f_ty d) v); [constructor|assumption].
  - intros Hnn ->. rewrite Hnn in Hc. discriminate.
Qed.

Theorem cav_sound s defs call vs kw :
  schema_wf s -> args_wf s defs -> call_vars_fit s vs defs call ->
  coerce_argument_values s defs call vs = Ok kw ->
  NoDup (map fst kw)
  /\ (forall k v, In (k, v) kw -> exists d, In d defs /\ f_py d = k /\ conforms s (f_ty d) v).
Proof.
  intros Hwf (Hd & Hi) Hfit H. unfold coerce_argument_values in H.
  destruct (arg_bindings s vs call defs) as [asg| | |] eqn:Ea; try discriminate.
  inversion H; subst. split; [apply mkdict_nodup|].
  intros k v Hin. apply mkdict_In in Hin.
  destruct (arg_bindings_ok _ _ _ _ _ Ea) as (A1 & _).
  destruct (A1 _ _ Hin) as (d & Hdin & Hk & Hb). exists d; repeat split; auto.
  eapply arg_binding_sound; eauto.
Qed.

(* an argument that is not supplied (or supplied through a variable that is
   not provided) and has no default never reaches the resolver *)
Definition not_supplied (vs : vars) (call : list argument) (d : ifield) : Prop :=
  arg_lookup call (f_name d) = None
  \/ (exists x lc, arg_lookup call (f_name d) = Some (VVar x lc) /\ alookup (n_val x) vs = None).

Lemma not_supplied_binding s vs call d :
  not_supplied vs call d -> arg_binding s vs call d = absent_field d rejC.
Proof.
  unfold arg_binding. intros [->|(x & lc & -> & ->)]; reflexivity.
Qed.

Lemma NoDup_map_inj {A B} (f : A -> B) l x y :
  NoDup (map f l) -> In x l -> In y l -> f x = f y -> x = y.
Proof.
  induction l as [|a l IH]; simpl; [intros _ []|].
  intros Hnd Hx Hy E. inversion Hnd as [|? ? Hnin Hnd']; subst.
  destruct Hx as [<-|Hx], Hy as [<-|Hy]; auto.
  - exfalso. apply Hnin. rewrite E. apply in_map; assumption.
  - exfalso. apply Hnin. rewrite <- E. apply in_map; assumption.
Qed.

Theorem cav_absent_omitted s defs call vs kw d :
  NoDup (map f_py defs) -> In d defs -> f_default d = None -> not_supplied vs call d ->
  coerce_argument_values s defs call vs = Ok kw -> ~ In (f_py d) (map fst kw).
Proof.
  intros Hnd Hd Hdef Hns H Hin. unfold coerce_argument_values in H.
  destruct (arg_bindings s vs call defs) as [asg| | |] eqn:Ea; try discriminate.
  inversion H; subst. apply (proj1 (mkdict_keys _ _)) in Hin.
  apply in_map_iff in Hin as ((k, v) & Hk & Hin).
  simpl in Hk; subst k.
  destruct (arg_bindings_ok _ _ _ _ _ Ea) as (A1 & _).
  destruct (A1 _ _ Hin) as (g & Hg & Hpy & Hb).
  assert (g = d) by (eapply NoDup_map_inj; eauto). subst g.
  rewrite (not_supplied_binding s vs call d Hns) in Hb. unfold absent_field in Hb.
  rewrite Hdef in Hb. destruct (ity_nn (f_ty d)); discriminate.
Qed.

(* a required argument is always present, and a supplied null never gets
   through for a non-null argument *)
Theorem cav_required_present s defs call vs kw d :
  In d defs -> f_default d <> None \/ ity_nn (f_ty d) = true ->
  coerce_argument_values s defs call vs = Ok kw -> In (f_py d) (map fst kw).
Proof.
  intros Hd Hreq H. unfold coerce_argument_values in H.
  destruct (arg_bindings s vs call defs) as [asg| | |] eqn:Ea; try discriminate.
  inversion H; subst; clear H. apply mkdict_keys.
  revert asg Ea. induction defs as [|g defs IH]; [destruct Hd|].
  simpl. intros asg Ea.
  destruct (arg_binding s vs call g) as [b| | |] eqn:Eb; try discriminate.
  destruct (arg_bindings s vs call defs) as [l| | |] eqn:El; try discriminate.
  inversion Ea; subst; clear Ea.
  destruct Hd as [->|Hd].
  - destruct b as [v|]; [left; reflexivity|]. exfalso.
    unfold arg_binding in Eb.
    assert (Habs : absent_field d rejC <> Ok None).
    { unfold absent_field. destruct Hreq as [Hreq|Hreq].
      - destruct (f_default d); [discriminate|congruence].
      - rewrite Hreq. destruct (f_default d); discriminate. }
    destruct (arg_lookup call (f_name d)) as [l0|]; [|contradiction].
    destruct l0; try (destruct (value_from_ast s vs _ (f_ty d)); discriminate).
    destruct (alookup (n_val n) vs); [|contradiction].
    destruct (ity_nn (f_ty d) && is_none p); discriminate.
  - specialize (IH Hd l eq_refl). destruct b; [right|]; assumption.
Qed.

(* -- variables -- *)
Lemma var_bindings_ok s raw vds : forall asg,
  var_bindings s raw vds = Ok asg ->
  forall x v, In (x, v) asg ->
    exists vd, In vd vds /\ n_val (vd_var vd) = x /\ var_binding s raw vd = Ok (Some v).
Proof.
  induction vds as [|vd vds IH]; simpl; intros asg H x v Hin.
  - inversion H; subst. destruct Hin.
  - destruct (var_binding s raw vd) as [b| | |] eqn:Eb; try discriminate.
    2:{ destruct (var_bindings s raw vds); discriminate. }
    destruct (var_bindings s raw vds) as [l| | |]; try discriminate.
    inversion H; subst; clear H. destruct b as [v0|].
    + destruct Hin as [Hin|Hin].
      * inversion Hin; subst. exists vd; auto.
      * destruct (IH l eq_refl _ _ Hin) as (g & Hg & Hx & Hb). exists g; auto.
    + destruct (IH l eq_refl _ _ Hin) as (g & Hg & Hx & Hb). exists g; auto.
Qed.

Lemma var_binding_sound s raw vd v :
  schema_wf s -> var_binding s raw vd = Ok (Some v) -> conforms s (ity_of_ty (vd_type vd)) v.
Proof.
  intros Hwf H. unfold var_binding in H.
  destruct (alookup (ity_name (ity_of_ty (vd_type vd))) s) as [d|] eqn:Hd; [|discriminate].
  destruct (is_input_def d) eqn:Hi; simpl in H; [|discriminate].
  assert (Hin : input_ty s (ity_of_ty (vd_type vd))).
  { unfold input_ty. rewrite Hd. intros E; inversion E; subst. discriminate. }
  destruct (alookup (n_val (vd_var vd)) raw) as [j|].
  - destruct (coerce_value s j _) as [v0| | |] eqn:Ev; try discriminate.
    inversion H; subst. eapply cv_sound; eauto.
  - destruct (vd_default vd) as [dl|].
    + destruct (value_from_ast s [] dl _) as [v0| | |] eqn:Ev; try discriminate.
      inversion H; subst. eapply vfa_sound; eauto.
      intros x tp w _ Hx. discriminate.
    + destruct (ity_nn _); discriminate.
Qed.

Theorem cvv_sound s vds raw vs :
  schema_wf s -> coerce_variable_values s vds raw = Ok vs ->
  NoDup (map fst vs)
  /\ forall x v, In (x, v) vs ->
       exists vd, In vd vds /\ n_val (vd_var vd) = x /\ conforms s (ity_of_ty (vd_type vd)) v.
Proof.
  intros Hwf H. unfold coerce_variable_values in H.
  destruct (var_bindings s raw vds) as [asg| | |] eqn:Ea; try discriminate.
  inversion H; subst. split; [apply mkdict_nodup|].
  intros x v Hin. apply mkdict_In in Hin.
  destruct (var_bindings_ok _ _ _ _ Ea _ _ Hin) as (vd & Hvd & Hx & Hb).
  exists vd; repeat split; auto. eapply var_binding_sound; eauto.
Qed.

(* ------------------------------------------------------------------ *)
(* natural values are accepted, and both routes give the same value     *)
Lemma alookup_None_iff {A} (l : list (str * A)) k : alookup k l = None <-> ~ In k (map fst l).
Proof.
  induction l as [|[k0 v0] l IH]; simpl; [tauto|].
  destruct (str_eqb_spec k k0) as [->|Hn].
  - split; [discriminate|]. intros H; exfalso; apply H; auto.
  - rewrite IH. split; intros H; [intros [E|E]; [congruence|auto]|auto].
Qed.

Lemma alookup_iff_In {A} (l : list (str * A)) k v :
  NoDup (map fst l) -> (alookup k l = Some v <-> In (k, v) l).
Proof.
  intros Hnd. split; [apply alookup_In|].
  induction l as [|[k0 v0] l IH]; simpl; [intros []|].
  inversion Hnd as [|? ? Hnin Hnd']; subst.
  intros [E|Hin].
  - inversion E; subst. rewrite str_eqb_refl. reflexivity.
  - destruct (str_eqb_spec k k0) as [->|Hn]; [|auto].
    exfalso. apply Hnin. apply in_map_iff. exists (k0, v); auto.
Qed.

Lemma alookup_last_nodup {A} (l : list (str * A)) k :
  NoDup (map fst l) -> alookup_last k l = alookup k l.
Proof.
  intros Hnd. unfold alookup_last.
  assert (Hr : NoDup (map fst (rev l))) by (rewrite map_rev; apply NoDup_rev; assumption).
  destruct (alookup k l) as [v|] eqn:E.
  - apply alookup_iff_In; [assumption|]. apply -> in_rev. apply alookup_iff_In in E; assumption.
  - apply alookup_None_iff. apply alookup_None_iff in E. rewrite map_rev, <- in_rev. assumption.
Qed.

Lemma cv_closures_keys s kvs : map fst (cv_closures s kvs) = map fst kvs.
Proof. induction kvs as [|[k v] kvs IH]; simpl; congruence. Qed.

Lemma cv_closures_alookup s kvs k :
  alookup k (cv_closures s kvs) = option_map (coerce_value s) (alookup k kvs).
Proof.
  induction kvs as [|[k0 v0] kvs IH]; simpl; [reflexivity|].
  destruct (str_eqb k k0); [reflexivity|assumption].
Qed.

Lemma vfa_closures_In_intro s vs lfs nm v lc :
  In (nm, v, lc) lfs -> In (n_val nm, value_from_ast s vs v) (vfa_closures s vs lfs).
Proof.
  induction lfs as [|[[nm0 v0] lc0] lfs IH]; simpl; [intros []|].
  intros [E|H]; [inversion E; subst; auto|auto].
Qed.

Lemma find_field_some k fs f : find_field k fs = Some f -> In f fs /\ f_name f = k.
Proof.
  unfold find_field. intros H. apply find_some in H as [Hin He].
  apply str_eqb_eq in He. auto.
Qed.

Lemma find_field_none k fs f : find_field k fs = None -> In f fs -> f_name f <> k.
Proof.
  unfold find_field. intros H Hin E. eapply find_none in H; [|exact Hin].
  rewrite E, str_eqb_refl in H. discriminate.
Qed.

Lemma fields_agree fs0 look1 look2 :
  (forall f, In f fs0 ->
     (look1 (f_name f) = None /\ look2 (f_name f) = None
      /\ (ity_nn (f_ty f) = true -> f_default f <> None))
     \/ (exists c1 c2 v, look1 (f_name f) = Some c1 /\ look2 (f_name f) = Some c2
                         /\ c1 (f_ty f) = Ok v /\ c2 (f_ty f) = Ok v)) ->
  exists asg, cv_fields fs0 look1 = Ok asg /\ vfa_fields fs0 look2 = Ok asg.
Proof.
  induction fs0 as [|f fs0 IH]; intros H; simpl; [eauto|].
  destruct IH as (asg & H1 & H2); [intros g Hg; apply H; right; assumption|].
  rewrite H1, H2.
  destruct (H f (or_introl eq_refl)) as [(L1 & L2 & Hreq)|(c1 & c2 & v & L1 & L2 & E1 & E2)].
  - rewrite L1, L2. unfold absent_field. destruct (f_default f) as [d|]; [eauto|].
    destruct (ity_nn (f_ty f)); [exfalso; apply Hreq; reflexivity|eauto].
  - rewrite L1, L2, E1, E2. simpl. eauto.
Qed.

Definition agree_at (s : schema) (t : ity) (j : json) (l : value) : Prop :=
  forall vs, exists v, coerce_value s j t = Ok v /\ value_from_ast s vs l t = Ok v.

Definition items_agree (s : schema) (t : ity) (js : list json) (ls : list value) : Prop :=
  forall vs, exists xs,
    collect_items (map (fun x => coerce_value s x t) js) = Ok xs
    /\ seq_items (map (fun x => value_from_ast s vs x t) ls) = Ok xs.

Definition fields_agree_at (s : schema) (fs : list ifield) (kvs : list (str * json))
           (lfs : list (name * value * loc)) : Prop :=
  map (fun f => n_val (fst (fst f))) lfs = map fst kvs
  /\ forall vs k j, In (k, j) kvs ->
       exists f l nm lc v, find_field k fs = Some f /\ In (nm, l, lc) lfs /\ n_val nm = k
                           /\ coerce_value s j (f_ty f) = Ok v
                           /\ value_from_ast s vs l (f_ty f) = Ok v.

Lemma vfa_closures_keys s vs lfs :
  map fst (vfa_closures s vs lfs) = map (fun f => n_val (fst (fst f))) lfs.
Proof. induction lfs as [|[[nm v] lc] lfs IH]; simpl; congruence. Qed.

Lemma plain_spelled s t j l : spelled s t j l -> plain_json j = true ->
  plain_value l = true /\ is_vlist l = false.
Proof.
  intros H. induction H; simpl; intros Hp; try discriminate; auto.
Qed.

Lemma spelled_agree s :
  (forall t j l, spelled s t j l -> agree_at s t j l)
  /\ (forall t js ls, spelled_items s t js ls -> items_agree s t js ls)
  /\ (forall fs kvs lfs, spelled_fields s fs kvs lfs -> fields_agree_at s fs kvs lfs).
Proof.
  apply spelled_mutind; unfold agree_at, items_agree; intros.
  - (* null *) exists PNone. rewrite cv_null, vfa_null, e. auto.
  - (* Int *)
    exists (PInt z). rewrite cv_named_eq by discriminate. rewrite vfa_named_eq by reflexivity.
    unfold cv_named, vfa_named. rewrite e. simpl. rewrite e0.
    unfold int_range, int_rangeI. rewrite e1. auto.
  - (* Float *)
    exists (PFloat r). rewrite cv_named_eq by discriminate. rewrite vfa_named_eq by reflexivity.
    unfold cv_named, vfa_named. rewrite e. simpl. rewrite e0, e1, e2. auto.
  - (* Float from an integer *)
    exists (PFloat (float_text (dec_of_Z z))).
    rewrite cv_named_eq by discriminate. rewrite vfa_named_eq by reflexivity.
    unfold cv_named, vfa_named. rewrite e. simpl. rewrite e0, e1. auto.
  - exists (PStr x). rewrite cv_named_eq by discriminate. rewrite vfa_named_eq by reflexivity.
    unfold cv_named, vfa_named. rewrite e. auto.
  - exists (PStr x). rewrite cv_named_eq by discriminate. rewrite vfa_named_eq by reflexivity.
    unfold cv_named, vfa_named. rewrite e. auto.
  - exists (PStr (str_of_Z z)). rewrite cv_named_eq by discriminate.
    rewrite vfa_named_eq by reflexivity. unfold cv_named, vfa_named. rewrite e. auto.
  - exists (PBool b). rewrite cv_named_eq by discriminate. rewrite vfa_named_eq by reflexivity.
    unfold cv_named, vfa_named. rewrite e. auto.
  - exists (PStr x). rewrite cv_named_eq by discriminate. rewrite vfa_named_eq by reflexivity.
    unfold cv_named, vfa_named. rewrite e. auto.
  - exists (PBool b). rewrite cv_named_eq by discriminate. rewrite vfa_named_eq by reflexivity.
    unfold cv_named, vfa_named. rewrite e. auto.
  - exists (PInt z). rewrite cv_named_eq by discriminate. rewrite vfa_named_eq by reflexivity.
    unfold cv_named, vfa_named. rewrite e. simpl. rewrite e0. auto.
  - exists (PFloat r). rewrite cv_named_eq by discriminate. rewrite vfa_named_eq by reflexivity.
    unfold cv_named, vfa_named. rewrite e. simpl. rewrite e0, e1. auto.
  - exists (PStr (c :: x)). rewrite cv_named_eq by discriminate.
    rewrite vfa_named_eq by reflexivity. unfold cv_named, vfa_named. rewrite e. auto.
  - (* the raising user scalar, away from the value it raises on *)
    exists (PInt z). rewrite cv_named_eq by discriminate. rewrite vfa_named_eq by reflexivity.
    unfold cv_named, vfa_named. rewrite e. simpl. rewrite e0. unfold odd_value.
    destruct (Z.eqb_spec z 13); [contradiction|]. rewrite e1. auto.
  - (* enum *)
    exists v. rewrite cv_named_eq by discriminate. rewrite vfa_named_eq by reflexivity.
    unfold cv_named, vfa_named. rewrite e, e0. auto.
  - (* list *)
    destruct (H vs) as (xs & H1 & H2). exists (PList xs).
    rewrite cv_list, vfa_list, H1, H2. auto.
  - (* single value in a list position *)
    destruct (H vs) as (v & H1 & H2). exists (PList [v]).
    destruct (plain_spelled _ _ _ _ s0 e) as (Hp & Hl).
    rewrite cv_single by assumption. rewrite vfa_single by assumption.
    rewrite H1, H2. auto.
  - (* input object *)
    destruct H as (Hkeys & Hf).
    rewrite cv_named_eq by discriminate. rewrite vfa_named_eq by reflexivity.
    unfold cv_named, vfa_named. rewrite e. unfold cv_input, vfa_input.
    assert (Hnd2 : NoDup (map fst (vfa_closures s vs lfs))).
    { rewrite vfa_closures_keys, Hkeys. assumption. }
    destruct (fields_agree fs (fun k => alookup k (cv_closures s kvs))
                           (fun k => alookup_last k (vfa_closures s vs lfs)))
      as (asg & H1 & H2).
    { intros f Hfin. rewrite cv_closures_alookup. rewrite alookup_last_nodup by assumption.
      destruct (alookup (f_name f) kvs) as [j|] eqn:Ej.
      - right. apply alookup_In in Ej. destruct (Hf vs _ _ Ej) as (f0 & l & nm & lc0 & v & F1 & F2 & F3 & F4 & F5).
        apply find_field_some in F1 as (F1 & F1').
        assert (f0 = f) by (eapply NoDup_map_inj; eauto). subst f0.
        exists (coerce_value s j), (value_from_ast s vs l), v. repeat split; auto.
        apply alookup_iff_In; [assumption|]. rewrite <- F3.
        apply vfa_closures_In_intro with (lc := lc0); assumption.
      - left. split; [reflexivity|]. split.
        + apply alookup_None_iff. rewrite vfa_closures_keys, Hkeys.
          apply alookup_None_iff; assumption.
        + intros Hnn Hd. apply alookup_None_iff in Ej. apply Ej. apply i; assumption. }
    rewrite H1, H2.
    assert (Hall : forallb (fun kv => is_field (fst kv) fs) kvs = true).
    { apply forallb_forall. intros [k j] Hin. simpl.
      destruct (Hf vs _ _ Hin) as (f0 & _ & _ & _ & _ & F1 & _). unfold is_field. rewrite F1. reflexivity. }
    rewrite Hall. eauto.
  - exists []. auto.
  - destruct (H vs) as (v & H1 & H2). destruct (H0 vs) as (xs & H3 & H4).
    exists (v :: xs). simpl. rewrite H1, H2, H3, H4. auto.
  - split; [reflexivity|]. intros vs k j [].
  - destruct H0 as (Hk & Hf). split; [simpl; congruence|].
    intros vs k0 j0 [E|Hin].
    + inversion E; subst. destruct (H vs) as (v & H1 & H2).
      exists f, l, nm, lc, v. repeat split; auto. left; reflexivity.
    + destruct (Hf vs _ _ Hin) as (f0 & l0 & nm0 & lc0 & v & F1 & F2 & F3 & F4 & F5).
      exists f0, l0, nm0, lc0, v. repeat split; auto. right; assumption.
Qed.

(* ------------------------------------------------------------------ *)
(* the listed mistakes are never accepted                               *)
Definition not_ok {A} (o : outcome A) : Prop := forall v, o <> Ok v.

Lemma collect_items_not_ok rs r : In r rs -> not_ok r -> not_ok (collect_items rs).
Proof.
  induction rs as [|r0 rs IH]; simpl; [intros []|]. intros [->|Hin] Hr v.
  - destruct r as [x| | |]; [exfalso; eapply Hr; eauto| | |]; try discriminate.
    destruct (collect_items rs); discriminate.
  - specialize (IH Hin Hr). destruct r0 as [x| | |]; try discriminate.
    + destruct (collect_items rs) as [l| | |] eqn:E; try discriminate.
      exfalso; eapply IH; eauto.
    + destruct (collect_items rs); discriminate.
Qed.

Lemma seq_items_not_ok rs r : In r rs -> not_ok r -> not_ok (seq_items rs).
Proof.
  induction rs as [|r0 rs IH]; simpl; [intros []|]. intros [->|Hin] Hr v.
  - destruct r as [x| | |]; [exfalso; eapply Hr; eauto| | |]; discriminate.
  - specialize (IH Hin Hr). destruct r0 as [x| | |]; try discriminate.
    destruct (seq_items rs) as [l| | |] eqn:E; try discriminate.
    exfalso; eapply IH; eauto.
Qed.

Lemma cv_fields_not_ok look fs f :
  In f fs ->
  not_ok (match look (f_name f) with
          | None => absent_field f rejC
          | Some c => some_ok (c (f_ty f))
          end) ->
  not_ok (cv_fields fs look).
Proof.
  induction fs as [|g fs IH]; simpl; [intros []|]. intros [->|Hin] Hr asg.
  - destruct (match look (f_name f) with
              | None => absent_field f rejC | Some c => some_ok (c (f_ty f)) end) as [b| | |];
      [exfalso; eapply Hr; eauto| | |]; try discriminate.
    destruct (cv_fields fs look); discriminate.
  - specialize (IH Hin Hr).
    destruct (match look (f_name g) with
              | None => absent_field g rejC | Some c => some_ok (c (f_ty g)) end) as [b| | |];
      try discriminate.
    + destruct (cv_fields fs look) as [l| | |] eqn:E; try discriminate. exfalso; eapply IH; eauto.
    + destruct (cv_fields fs look); discriminate.
Qed.

Lemma vfa_fields_not_ok look fs f :
  In f fs ->
  not_ok (match look (f_name f) with
          | None => absent_field f rejI
          | Some c => some_ok (c (f_ty f))
          end) ->
  not_ok (vfa_fields fs look).
Proof.
  induction fs as [|g fs IH]; simpl; [intros []|]. intros [->|Hin] Hr asg.
  - destruct (match look (f_name f) with
              | None => absent_field f rejI | Some c => some_ok (c (f_ty f)) end) as [b| | |];
      [exfalso; eapply Hr; eauto| | |]; discriminate.
  - specialize (IH Hin Hr).
    destruct (match look (f_name g) with
              | None => absent_field g rejI | Some c => some_ok (c (f_ty g)) end) as [b| | |];
      try discriminate.
    destruct (vfa_fields fs look) as [l| | |] eqn:E; try discriminate. exfalso; eapply IH; eauto.
Qed.

Lemma some_ok_not_ok o : not_ok o -> not_ok (some_ok o).
Proof. intros H v. destruct o; simpl; try discriminate. exfalso; eapply H; eauto. Qed.

Lemma absent_required_not_ok f (rej : outcome (option pv)) :
  ity_nn (f_ty f) = true -> f_default f = None -> not_ok rej -> not_ok (absent_field f rej).
Proof. intros Hn Hd Hr. unfold absent_field. rewrite Hd, Hn. assumption. Qed.

Lemma scalar_mismatch_rejected k j : scalar_kind_mismatch k j -> parse_scalar k j = rejC.
Proof. destruct k, j; simpl; intros H; try contradiction; reflexivity. Qed.

Lemma scalar_mismatch_not_null k j : scalar_kind_mismatch k j -> j <> JNull.
Proof. destruct k, j; simpl; intros H; try contradiction; discriminate. Qed.

(* the guard of the rejection theorems is exactly: foreign kind, and not one
   of the two pinned leniencies *)
Lemma mismatch_exact k j :
  scalar_kind_mismatch k j <-> (scalar_kind_foreign k j /\ lenient_scalar_case k j = false).
Proof.
  destruct k, j; simpl; split; intros H; try contradiction; try (destruct H; contradiction);
    try (destruct H; discriminate); auto.
Qed.

Theorem wrong_rejected s t j : wrong s t j -> not_ok (coerce_value s j t).
Proof.
  induction 1; intros v.
  - rewrite cv_null, H. discriminate.
  - assert (Hm : scalar_kind_mismatch k j) by (apply mismatch_exact; auto).
    rewrite cv_named_eq by (eapply scalar_mismatch_not_null; eauto).
    unfold cv_named. rewrite H. rewrite scalar_mismatch_rejected by assumption. discriminate.
  - rewrite cv_named_eq by discriminate. unfold cv_named. rewrite H. simpl.
    unfold int_range. rewrite H0. discriminate.
  - rewrite cv_named_eq by discriminate. unfold cv_named. rewrite H, H0. discriminate.
  - rewrite cv_named_eq by assumption. unfold cv_named. rewrite H.
    destruct j; try discriminate. exfalso; eapply H0; eauto.
  - rewrite cv_named_eq by assumption. unfold cv_named. rewrite H.
    destruct j; try discriminate. exfalso; eapply H0; eauto.
  - (* unknown field *)
    rewrite cv_named_eq by discriminate. unfold cv_named, cv_input. rewrite H.
    destruct (cv_fields fs _); try discriminate.
    assert (Hf : forallb (fun kv => is_field (fst kv) fs) kvs = false).
    { apply in_map_iff in H0 as ((k', j') & Hk & Hin). simpl in Hk; subst k'.
      destruct (forallb _ kvs) eqn:E; [|reflexivity].
      rewrite forallb_forall in E. specialize (E _ Hin). simpl in E.
      unfold is_field in E. rewrite H1 in E. discriminate. }
    rewrite Hf. discriminate.
  - (* missing required field *)
    rewrite cv_named_eq by discriminate. unfold cv_named, cv_input. rewrite H.
    destruct (cv_fields fs _) as [asg| | |] eqn:E; try discriminate.
    exfalso. eapply (cv_fields_not_ok _ fs f H0); [|exact E].
    cbv beta. rewrite cv_closures_alookup, H3. simpl.
    apply absent_required_not_ok; auto. intros x; discriminate.
  - (* a mistake inside a field *)
    rewrite cv_named_eq by discriminate. unfold cv_named, cv_input. rewrite H.
    destruct (cv_fields fs _) as [asg| | |] eqn:E; try discriminate.
    exfalso. eapply (cv_fields_not_ok _ fs f H0); [|exact E].
    cbv beta. rewrite cv_closures_alookup, H1. simpl. apply some_ok_not_ok. assumption.
  - (* a mistake inside a list *)
    rewrite cv_list.
    destruct (collect_items _) as [xs| | |] eqn:E; try discriminate.
    exfalso. eapply (collect_items_not_ok _ (coerce_value s j t)); [|exact IHwrong|exact E].
    apply in_map_iff. exists j; auto.
  - rewrite cv_single by assumption.
    destruct (coerce_value s j t) as [x| | |] eqn:E; try discriminate.
    exfalso; eapply IHwrong; eauto.
Qed.

(* -- literals -- *)
Lemma alookup_map_snd {A B} (g : A -> B) (l : list (str * A)) k :
  alookup k (map (fun kv => (fst kv, g (snd kv))) l) = option_map g (alookup k l).
Proof.
  induction l as [|[k0 v0] l IH]; simpl; [reflexivity|].
  destruct (str_eqb k k0); [reflexivity|assumption].
Qed.

Lemma vfa_closures_pairs s vs lfs :
  vfa_closures s vs lfs = map (fun kv => (fst kv, value_from_ast s vs (snd kv))) (lit_pairs lfs).
Proof. induction lfs as [|[[nm v] lc] lfs IH]; simpl; [reflexivity|]. rewrite IH. reflexivity. Qed.

Lemma vfa_closures_last s vs lfs k :
  alookup_last k (vfa_closures s vs lfs) = option_map (value_from_ast s vs) (lit_field lfs k).
Proof.
  unfold alookup_last, lit_field, alookup_last. rewrite vfa_closures_pairs, <- map_rev.
  apply alookup_map_snd.
Qed.

Lemma literal_mismatch_rejected k l : literal_kind_mismatch k l -> parse_literal k l = rejI.
Proof. destruct k, l; simpl; intros H; try contradiction; reflexivity. Qed.

Lemma literal_mismatch_plain k l : literal_kind_mismatch k l -> plain_value l = true.
Proof. destruct k, l; simpl; intros H; try contradiction; reflexivity. Qed.

Lemma literal_plain_split l : literal_plain l = true -> plain_value l = true /\ is_vlist l = false.
Proof. destruct l; simpl; intros H; try discriminate; auto. Qed.

Lemma plain_of_neq l :
  (forall x lc, l <> VVar x lc) -> (forall lc, l <> VNull lc) -> plain_value l = true.
Proof. destruct l; simpl; intros H1 H2; try reflexivity; exfalso; [eapply H1|eapply H2]; eauto. Qed.

Theorem wrong_lit_rejected s vs t l : wrong_lit s t l -> not_ok (value_from_ast s vs l t).
Proof.
  induction 1; intros v.
  - rewrite vfa_null, H. discriminate.
  - rewrite vfa_named_eq by (eapply literal_mismatch_plain; eauto).
    unfold vfa_named. rewrite H. rewrite literal_mismatch_rejected by assumption. discriminate.
  - rewrite vfa_named_eq by reflexivity. unfold vfa_named. rewrite H. simpl. rewrite H0.
    unfold int_rangeI. rewrite H1. discriminate.
  - rewrite vfa_named_eq by reflexivity. unfold vfa_named. rewrite H, H0. discriminate.
  - rewrite vfa_named_eq by (apply plain_of_neq; assumption). unfold vfa_named. rewrite H.
    destruct l; try discriminate. exfalso; eapply H0; eauto.
  - rewrite vfa_named_eq by (apply plain_of_neq; assumption). unfold vfa_named. rewrite H.
    destruct l; try discriminate. exfalso; eapply H0; eauto.
  - rewrite vfa_named_eq by reflexivity. unfold vfa_named, vfa_input. rewrite H.
    destruct (vfa_fields fs _) as [asg| | |] eqn:E; try discriminate.
    exfalso. eapply (vfa_fields_not_ok _ fs f H0); [|exact E].
    cbv beta. rewrite vfa_closures_last, H3. simpl.
    apply absent_required_not_ok; auto. intros x; discriminate.
  - rewrite vfa_named_eq by reflexivity. unfold vfa_named, vfa_input. rewrite H.
    destruct (vfa_fields fs _) as [asg| | |] eqn:E; try discriminate.
    exfalso. eapply (vfa_fields_not_ok _ fs f H0); [|exact E].
    cbv beta. rewrite vfa_closures_last, H1. simpl. apply some_ok_not_ok. assumption.
  - rewrite vfa_list.
    destruct (seq_items _) as [xs| | |] eqn:E; try discriminate.
    exfalso. eapply (seq_items_not_ok _ (value_from_ast s vs l t)); [|exact IHwrong_lit|exact E].
    apply in_map_iff. exists l; auto.
  - apply literal_plain_split in H as (Hp & Hl). rewrite vfa_single by assumption.
    destruct (value_from_ast s vs l t) as [x| | |] eqn:E; try discriminate.
    exfalso; eapply IHwrong_lit; eauto.
Qed.

(* a rejected literal argument rejects the field: no kwargs at all *)
Lemma arg_bindings_not_ok s vs call defs d :
  In d defs -> not_ok (arg_binding s vs call d) -> not_ok (arg_bindings s vs call defs).
Proof.
  induction defs as [|g defs IH]; simpl; [intros []|]. intros [->|Hin] Hr asg.
  - destruct (arg_binding s vs call d) as [b| | |]; [exfalso; eapply Hr; eauto| | |]; discriminate.
  - specialize (IH Hin Hr). destruct (arg_binding s vs call g); try discriminate.
    destruct (arg_bindings s vs call defs) as [l| | |] eqn:E; try discriminate.
    exfalso; eapply IH; eauto.
Qed.

(* ------------------------------------------------------------------ *)
(* non-null positions never hold None                                   *)
Lemma scalar_ok_not_none k v : scalar_ok k v -> v <> PNone.
Proof.
  destruct k; simpl; intros H.
  - destruct H as (z & -> & _); discriminate.
  - destruct H as (r & ->); discriminate.
  - destruct H as (x & ->); discriminate.
  - destruct H as (x & ->); discriminate.
  - destruct H as (b & ->); discriminate.
  - assumption.
  - destruct H as (x & -> & _); discriminate.
  - destruct H as (z & -> & _); discriminate.
Qed.

Theorem nonnull_never_null s t v :
  schema_wf s -> conforms s t v -> ity_nn t = true -> v <> PNone.
Proof.
  intros (_ & He & _) H Hnn. inversion H; subst; simpl in Hnn; try discriminate.
  - eapply scalar_ok_not_none; eauto.
  - eapply He; eauto.
Qed.

(* ------------------------------------------------------------------ *)
(* inline or through a variable: the same argument                      *)
Lemma spelled_not_var s t j l : spelled s t j l -> forall x lc, l <> VVar x lc.
Proof. induction 1; intros y lc0; try discriminate; auto. Qed.

Theorem arg_routes_agree s d j l v nm lc xn lcv lc' vs0 :
  schema_wf s -> input_ty s (f_ty d) ->
  spelled s (f_ty d) j l -> coerce_value s j (f_ty d) = Ok v ->
  n_val nm = f_name d ->
  arg_binding s vs0 [Arg nm l lc] d = Ok (Some v)
  /\ arg_binding s [(n_val xn, v)] [Arg nm (VVar xn lcv) lc'] d = Ok (Some v).
Proof.
  intros Hwf Hin Hsp Hcv Hnm. unfold arg_binding, arg_lookup, alookup_last. simpl.
  rewrite Hnm, !str_eqb_refl. split.
  - destruct (proj1 (spelled_agree s) _ _ _ Hsp vs0) as (v' & H1 & H2).
    rewrite Hcv in H1. inversion H1; subst v'. rewrite H2.
    destruct l; try reflexivity. exfalso. eapply spelled_not_var; eauto.
  - destruct (ity_nn (f_ty d)) eqn:Hnn; simpl; [|reflexivity].
    assert (v <> PNone).
    { eapply nonnull_never_null; eauto. eapply cv_sound; eauto. }
    destruct v; try reflexivity. congruence.
Qed.

(* ------------------------------------------------------------------ *)
(* the whole request: what the resolver receives                        *)
Lemma conforms_sub s : forall a b v, sub a b -> conforms s a v -> conforms s b v.
Proof.
  induction a as [na n|na a IH]; intros [nb m|nb b] v Hs Hc; simpl in Hs; try contradiction.
  - destruct Hs as (<- & Hn). inversion Hc; subst.
    + destruct nb; [specialize (Hn eq_refl); discriminate|constructor].
    + eapply CF_scalar; eauto.
    + eapply CF_enum; eauto.
    + eapply CF_input; eauto.
  - destruct Hs as (Hn & Hs). inversion Hc; subst.
    + destruct nb; [specialize (Hn eq_refl); discriminate|constructor].
    + constructor. rewrite Forall_forall in *. intros x Hx. eapply IH; eauto.
Qed.

Lemma usage_gives_fit s vds raw vs defs call :
  schema_wf s -> coerce_variable_values s vds raw = Ok vs -> usage_ok s vds defs call ->
  call_vars_fit s vs defs call.
Proof.
  intros Hwf Ev Huse. destruct (cvv_sound _ _ _ _ Hwf Ev) as (Hnd & Hvs).
  intros d l Hd Hl x tp v Hat Hx.
  apply alookup_In in Hx. destruct (Hvs _ _ Hx) as (vd & Hvd & Hname & Hc).
  eapply conforms_sub; [eapply Huse; eauto|]. apply conforms_weaken. assumption.
Qed.

Theorem exec_sound s defs vds call raw kw :
  schema_wf s -> args_wf s defs -> usage_ok s vds defs call ->
  exec_kwargs s defs vds call raw = Ok kw ->
  NoDup (map fst kw)
  /\ forall k v, In (k, v) kw -> exists d, In d defs /\ f_py d = k /\ conforms s (f_ty d) v.
Proof.
  intros Hwf Hargs Huse H. unfold exec_kwargs in H.
  destruct (coerce_variable_values s vds raw) as [vs| | |] eqn:Ev; try discriminate.
  destruct (cvv_sound _ _ _ _ Hwf Ev) as (Hnd & Hvs).
  eapply cav_sound; eauto.
  intros d l Hd Hl x tp v Hat Hx.
  apply alookup_In in Hx. destruct (Hvs _ _ Hx) as (vd & Hvd & Hname & Hc).
  eapply conforms_sub; [eapply Huse; eauto|]. apply conforms_weaken. assumption.
Qed.

(* ------------------------------------------------------------------ *)
(* coerce_value raises nothing but CoercionError                        *)
Definition decided {A} (o : outcome A) : Prop :=
  match o with Ok _ => True | Rejected k _ => k = RK_coercion | _ => False end.

Lemma collect_items_decided rs : Forall decided rs -> decided (collect_items rs).
Proof.
  induction 1 as [|r rs Hr _ IH]; simpl; [exact I|].
  destruct r as [v| |k p|]; simpl in Hr; try contradiction.
  - destruct (collect_items rs); simpl in *; auto.
  - destruct (collect_items rs); simpl in *; auto; reflexivity.
Qed.

Lemma cv_fields_decided look fs :
  (forall f, In f fs -> match look (f_name f) with
                        | Some c => decided (c (f_ty f))
                        | None => True
                        end) ->
  decided (cv_fields fs look).
Proof.
  induction fs as [|f fs IH]; intros H; simpl; [exact I|].
  assert (IH' : decided (cv_fields fs look)) by (apply IH; intros g Hg; apply H; right; assumption).
  specialize (H f (or_introl eq_refl)).
  destruct (look (f_name f)) as [c|].
  - destruct (c (f_ty f)) as [v| |k p|]; simpl in H; try contradiction; simpl.
    + destruct (cv_fields fs look); simpl in *; auto.
    + destruct (cv_fields fs look); simpl in *; auto; reflexivity.
  - unfold absent_field. destruct (f_default f).
    + destruct (cv_fields fs look); simpl in *; auto.
    + destruct (ity_nn (f_ty f)); simpl.
      * destruct (cv_fields fs look); simpl in *; auto; reflexivity.
      * destruct (cv_fields fs look); simpl in *; auto.
Qed.

Lemma parse_scalar_decided k j : raising_scalar k = false -> decided (parse_scalar k j).
Proof.
  intros Hb. destruct k; try discriminate; destruct j; simpl; try exact I; try reflexivity;
    unfold int_range;
    repeat match goal with
           | |- decided (match ?x with _ => _ end) => destruct x; simpl
           | |- decided (if ?x then _ else _) => destruct x; simpl
           end; try exact I; reflexivity.
Qed.

Section Total.
  Variable s : schema.
  Hypothesis Hclosed : schema_closed s.
  Hypothesis Hbehaved : scalars_behaved s.

  Definition total_at (j : json) : Prop := forall t, bound s t -> decided (coerce_value s j t).

  Lemma cv_named_total j nn n :
    j <> JNull -> bound s (INamed nn n) ->
    match j with JObj kvs => Forall (fun kv => total_at (snd kv)) kvs | _ => True end ->
    decided (cv_named s n j).
  Proof.
    intros Hj Hb IH. unfold bound in Hb; simpl in Hb. unfold cv_named.
    destruct (alookup n s) as [[k|vals|fs|]|] eqn:Hn; try congruence; try exact I.
    - apply parse_scalar_decided. eapply Hbehaved; eauto.
    - destruct j; try reflexivity. destruct (alookup s0 vals); [exact I|reflexivity].
    - destruct j; try reflexivity. unfold cv_input.
      assert (Hd : decided (cv_fields fs (fun k => alookup k (cv_closures s kvs)))).
      { apply cv_fields_decided. intros f Hf. rewrite cv_closures_alookup.
        destruct (alookup (f_name f) kvs) as [j|] eqn:Ej; simpl; [|exact I].
        apply alookup_In in Ej. rewrite Forall_forall in IH.
        apply (IH _ Ej). eapply Hclosed; eauto. }
      destruct (cv_fields fs _); simpl in *; auto.
      destruct (forallb _ kvs); [exact I|reflexivity].
  Qed.

  Lemma cv_plain_total j :
    plain_json j = true ->
    match j with JObj kvs => Forall (fun kv => total_at (snd kv)) kvs | _ => True end ->
    total_at j.
  Proof.
    intros Hp IH t. induction t as [nn n|nn t IHt]; intros Hb.
    - rewrite cv_named_eq by (destruct j; discriminate).
      apply (cv_named_total j nn n); auto. destruct j; discriminate.
    - rewrite cv_single by assumption. specialize (IHt Hb).
      destruct (coerce_value s j t); simpl in *; auto.
  Qed.

  Theorem cv_total : forall j, total_at j.
  Proof.
    induction j using json_ind'; try (apply cv_plain_total; [reflexivity|exact I]).
    - intros t _. rewrite cv_null. destruct (ity_nn t); [reflexivity|exact I].
    - intros t. induction t as [nn n|nn t IHt]; intros Hb.
      + rewrite cv_named_eq by discriminate. apply (cv_named_total (JList l) nn n); auto.
        discriminate.
      + rewrite cv_list.
        assert (Hd : decided (collect_items (map (fun x => coerce_value s x t) l))).
        { apply collect_items_decided. rewrite Forall_forall in *.
          intros r Hr. apply in_map_iff in Hr as (x & <- & Hx). apply (H x Hx). exact Hb. }
        destruct (collect_items _); simpl in *; auto.
    - apply cv_plain_total; [reflexivity|assumption].
  Qed.
End Total.

(* ------------------------------------------------------------------ *)
(* open findings: the lenient acceptances pinned by the test-suite      *)
Definition rejects_foreign_kind_full : Prop :=
  forall s nn n k j, alookup n s = Some (TDScalar k) -> scalar_kind_foreign k j ->
                     forall v, coerce_value s j (INamed nn n) <> Ok v.

Lemma foreign_minus_pinned k j :
  scalar_kind_foreign k j ->
  scalar_kind_mismatch k j
  \/ (exists x, j = JStr x /\ (k = KInt \/ k = KFloat))
  \/ (k = KString /\ ((exists z, j = JInt z) \/ (exists r, j = JFloat r))).
Proof.
  destruct k, j; simpl; intros H; try contradiction; auto;
    try (right; left; eexists; split; [reflexivity|auto]);
    try (right; right; split; [reflexivity|]; eauto).
Qed.

Local Open Scope string_scope.
Lemma rejects_foreign_kind_refuted : ~ rejects_foreign_kind_full.
Proof.
  intros H.
  apply (H [(str_of_string "Int", TDScalar KInt)] false (str_of_string "Int") KInt
           (JStr (str_of_string "12")) eq_refl I (PInt 12)).
  vm_compute. reflexivity.
Qed.

Lemma string_from_number_accepted :
  coerce_value [(str_of_string "String", TDScalar KString)] (JInt 123)
               (INamed false (str_of_string "String")) = Ok (PStr (str_of_string "123")).
Proof. vm_compute. reflexivity. Qed.

(* ------------------------------------------------------------------ *)
(* the literal route, argument assembly and variable coercion raise      *)
(* nothing but their documented error                                    *)
Definition decided_k {A} (k : nat) (o : outcome A) : Prop :=
  match o with Ok _ => True | Rejected k' _ => k' = k | _ => False end.

Lemma decided_is_k {A} (o : outcome A) : decided o <-> decided_k RK_coercion o.
Proof. destruct o; simpl; tauto. Qed.

Lemma parse_literal_decided k l :
  raising_scalar k = false -> decided_k RK_invalid (parse_literal k l).
Proof.
  intros Hb. destruct k; try discriminate; destruct l; simpl; try exact I; try reflexivity;
    unfold int_rangeI;
    repeat match goal with
           | |- decided_k _ (match ?x with _ => _ end) => destruct x; simpl
           | |- decided_k _ (if ?x then _ else _) => destruct x; simpl
           end; try exact I; reflexivity.
Qed.

Lemma seq_items_decided rs :
  Forall (decided_k RK_invalid) rs -> decided_k RK_invalid (seq_items rs).
Proof.
  induction 1 as [|r rs Hr _ IH]; simpl; [exact I|].
  destruct r as [v| |k p|]; simpl in Hr; try contradiction; [|exact Hr].
  destruct (seq_items rs); simpl in *; auto.
Qed.

Lemma vfa_fields_decided look fs :
  (forall f, In f fs -> match look (f_name f) with
                        | Some c => decided_k RK_invalid (c (f_ty f))
                        | None => True
                        end) ->
  decided_k RK_invalid (vfa_fields fs look).
Proof.
  induction fs as [|f fs IH]; intros H; simpl; [exact I|].
  assert (IH' : decided_k RK_invalid (vfa_fields fs look))
    by (apply IH; intros g Hg; apply H; right; assumption).
  specialize (H f (or_introl eq_refl)).
  destruct (look (f_name f)) as [c|].
  - destruct (c (f_ty f)) as [v| |k p|]; simpl in H; try contradiction; simpl; [|exact H].
    destruct (vfa_fields fs look); simpl in *; auto.
  - unfold absent_field. destruct (f_default f).
    + destruct (vfa_fields fs look); simpl in *; auto.
    + destruct (ity_nn (f_ty f)); simpl; [reflexivity|].
      destruct (vfa_fields fs look); simpl in *; auto.
Qed.

Section TotalLit.
  Variable s : schema.
  Hypothesis Hclosed : schema_closed s.
  Hypothesis Hinputs : schema_inputs s.
  Hypothesis Hbehaved : scalars_behaved s.
  Variable vs : vars.

  Definition ltotal_at (l : value) : Prop :=
    forall t, usable s t -> decided_k RK_invalid (value_from_ast s vs l t).

  Lemma vfa_named_total l nn n :
    plain_value l = true -> usable s (INamed nn n) ->
    match l with VObject lfs _ => Forall (fun f => ltotal_at (snd (fst f))) lfs | _ => True end ->
    decided_k RK_invalid (vfa_named s vs n l).
  Proof.
    intros Hp (Hb & Hi) IH. unfold bound in Hb; unfold input_ty in Hi; simpl in Hb, Hi.
    unfold vfa_named.
    destruct (alookup n s) as [[k|vals|fs|]|] eqn:Hn; try congruence.
    - apply parse_literal_decided. eapply Hbehaved; eauto.
    - destruct l; try reflexivity. destruct (alookup s0 vals); [exact I|reflexivity].
    - destruct l; try reflexivity. unfold vfa_input.
      assert (Hd : decided_k RK_invalid
                     (vfa_fields fs (fun k => alookup_last k (vfa_closures s vs fs0)))).
      { apply vfa_fields_decided. intros f Hf.
        destruct (alookup_last (f_name f) (vfa_closures s vs fs0)) as [c|] eqn:Ec; [|exact I].
        apply vfa_closures_lookup in Ec as (nm & v & lc & Hin & _ & ->).
        rewrite Forall_forall in IH. apply (IH _ Hin). split; [eapply Hclosed|eapply Hinputs]; eauto. }
      destruct (vfa_fields fs _); simpl in *; auto.
  Qed.

  Lemma vfa_plain_total l :
    plain_value l = true -> is_vlist l = false ->
    match l with VObject lfs _ => Forall (fun f => ltotal_at (snd (fst f))) lfs | _ => True end ->
    ltotal_at l.
  Proof.
    intros Hp Hl IH t. induction t as [nn n|nn t IHt]; intros Hu.
    - rewrite vfa_named_eq by assumption. apply (vfa_named_total l nn n); auto.
    - rewrite vfa_single by assumption. specialize (IHt Hu).
      destruct (value_from_ast s vs l t); simpl in *; auto.
  Qed.

  Theorem vfa_total : forall l, ltotal_at l.
  Proof.
    induction l using value_ind'; try (apply vfa_plain_total; [reflexivity|reflexivity|exact I]).
    - intros t _. rewrite vfa_var. unfold extract_variable.
      destruct (alookup (n_val n) vs); [|reflexivity].
      destruct (ity_nn t && is_none p); [reflexivity|exact I].
    - intros t _. rewrite vfa_null. destruct (ity_nn t); [reflexivity|exact I].
    - intros t. induction t as [nn n|nn t IHt]; intros Hu.
      + rewrite vfa_named_eq by reflexivity. apply (vfa_named_total (VList vs0 l) nn n); auto.
      + rewrite vfa_list.
        assert (Hd : decided_k RK_invalid
                       (seq_items (map (fun x => value_from_ast s vs x t) vs0))).
        { apply seq_items_decided. rewrite Forall_forall in *.
          intros r Hr. apply in_map_iff in Hr as (x & <- & Hx). apply (H x Hx). exact Hu. }
        destruct (seq_items _); simpl in *; auto.
    - apply vfa_plain_total; [reflexivity|reflexivity|assumption].
  Qed.

  (* coerce_argument_values: a dict or CoercionError *)
  Lemma arg_binding_total call d :
    usable s (f_ty d) -> decided_k RK_coercion (arg_binding s vs call d).
  Proof.
    intros Hu. unfold arg_binding.
    assert (Habs : decided_k RK_coercion (absent_field d rejC)).
    { unfold absent_field. destruct (f_default d); [exact I|].
      destruct (ity_nn (f_ty d)); [reflexivity|exact I]. }
    destruct (arg_lookup call (f_name d)) as [l|]; [|exact Habs].
    assert (Hlit : decided_k RK_coercion
                     match value_from_ast s vs l (f_ty d) with
                     | Ok v0 => Ok (Some v0)
                     | OutOfFuel => OutOfFuel
                     | Rejected _ _ => rejC
                     | Crash c => Crash c
                     end).
    { pose proof (vfa_total l (f_ty d) Hu) as Hv.
      destruct (value_from_ast s vs l (f_ty d)); simpl in *; auto. }
    destruct l; auto.
    destruct (alookup (n_val n) vs); [|exact Habs].
    destruct (ity_nn (f_ty d) && is_none p); [reflexivity|exact I].
  Qed.

  Lemma arg_bindings_total call defs :
    (forall d, In d defs -> usable s (f_ty d)) ->
    decided_k RK_coercion (arg_bindings s vs call defs).
  Proof.
    induction defs as [|d defs IH]; intros H; simpl; [exact I|].
    pose proof (arg_binding_total call d (H d (or_introl eq_refl))) as Hd.
    assert (IH' : decided_k RK_coercion (arg_bindings s vs call defs))
      by (apply IH; intros g Hg; apply H; right; assumption).
    destruct (arg_binding s vs call d); simpl in *; auto.
    destruct (arg_bindings s vs call defs); simpl in *; auto.
  Qed.

  Theorem cav_total call defs :
    (forall d, In d defs -> usable s (f_ty d)) ->
    decided_k RK_coercion (coerce_argument_values s defs call vs).
  Proof.
    intros H. unfold coerce_argument_values.
    pose proof (arg_bindings_total call defs H) as Hd.
    destruct (arg_bindings s vs call defs); simpl in *; auto.
  Qed.
End TotalLit.

(* coerce_variable_values: a dict or VariablesCoercionError, whatever the
   variable definitions and the raw values *)
Lemma var_binding_total s raw vd :
  schema_closed s -> schema_inputs s -> scalars_behaved s ->
  decided_k RK_variables (var_binding s raw vd).
Proof.
  intros Hc Hi Hbh. unfold var_binding.
  destruct (alookup (ity_name (ity_of_ty (vd_type vd))) s) as [d|] eqn:Hd; [|reflexivity].
  destruct (is_input_def d) eqn:Hin; simpl; [|reflexivity].
  assert (Hu : usable s (ity_of_ty (vd_type vd))).
  { split; [unfold bound; congruence|]. unfold input_ty. rewrite Hd.
    intros E; inversion E; subst; discriminate. }
  destruct (alookup (n_val (vd_var vd)) raw) as [j|].
  - pose proof (cv_total s Hc Hbh j _ (proj1 Hu)) as Ht.
    destruct (coerce_value s j _); simpl in *; auto; reflexivity.
  - destruct (vd_default vd) as [dl|].
    + pose proof (vfa_total s Hc Hi Hbh [] dl _ Hu) as Ht.
      destruct (value_from_ast s [] dl _); simpl in *; auto; reflexivity.
    + destruct (ity_nn _); [reflexivity|exact I].
Qed.

Theorem cvv_total s vds raw :
  schema_closed s -> schema_inputs s -> scalars_behaved s ->
  decided_k RK_variables (coerce_variable_values s vds raw).
Proof.
  intros Hc Hi Hbh. unfold coerce_variable_values.
  assert (Hd : decided_k RK_variables (var_bindings s raw vds)).
  { induction vds as [|vd vds IH]; simpl; [exact I|].
    pose proof (var_binding_total s raw vd Hc Hi Hbh) as Hb.
    destruct (var_binding s raw vd); simpl in *; try contradiction.
    - destruct (var_bindings s raw vds); simpl in *; auto.
    - destruct (var_bindings s raw vds); simpl in *; auto; reflexivity. }
  destruct (var_bindings s raw vds); simpl in *; auto.
Qed.

Theorem exec_total s defs vds call raw :
  schema_closed s -> schema_inputs s -> scalars_behaved s ->
  (forall d, In d defs -> usable s (f_ty d)) ->
  match exec_kwargs s defs vds call raw with
  | Ok _ => True
  | Rejected k _ => k = RK_variables \/ k = RK_coercion
  | _ => False
  end.
Proof.
  intros Hc Hi Hbh Hd. unfold exec_kwargs.
  pose proof (cvv_total s vds raw Hc Hi Hbh) as Hv.
  destruct (coerce_variable_values s vds raw) as [vs| | |]; simpl in *; auto.
  pose proof (cav_total s Hc Hi Hbh vs call defs Hd) as Ha.
  destruct (coerce_argument_values s defs call vs); simpl in *; auto.
Qed.

(* ------------------------------------------------------------------ *)
(* rejection, exactly                                                   *)
Theorem wrong_rejected_exact s t j :
  schema_closed s -> scalars_behaved s -> bound s t -> wrong s t j ->
  exists p, coerce_value s j t = Rejected RK_coercion p.
Proof.
  intros Hc Hbh Hb Hw. pose proof (wrong_rejected s t j Hw) as Hn.
  pose proof (cv_total s Hc Hbh j t Hb) as Hd.
  destruct (coerce_value s j t) as [v| |k p|]; simpl in Hd; try contradiction.
  - exfalso; eapply Hn; eauto.
  - subst k. eauto.
Qed.

Theorem wrong_lit_rejected_exact s vs t l :
  schema_closed s -> schema_inputs s -> scalars_behaved s -> usable s t -> wrong_lit s t l ->
  exists p, value_from_ast s vs l t = Rejected RK_invalid p.
Proof.
  intros Hc Hi Hbh Hu Hw. pose proof (wrong_lit_rejected s vs t l Hw) as Hn.
  pose proof (vfa_total s Hc Hi Hbh vs l t Hu) as Hd.
  destruct (value_from_ast s vs l t) as [v| |k p|]; simpl in Hd; try contradiction.
  - exfalso; eapply Hn; eauto.
  - subst k. eauto.
Qed.

(* any acceptance of a foreign kind at a scalar position is one of the two
   pinned cases: a third leniency would contradict this *)
Theorem no_other_leniency s nn n k j v :
  alookup n s = Some (TDScalar k) -> scalar_kind_foreign k j ->
  coerce_value s j (INamed nn n) = Ok v -> lenient_scalar_case k j = true.
Proof.
  intros Hn Hf Hv. destruct (lenient_scalar_case k j) eqn:E; [reflexivity|].
  exfalso. eapply (wrong_rejected s (INamed nn n) j); [|exact Hv].
  eapply W_kind; eauto.
Qed.

Lemma lenient_witnesses :
  (lenient_scalar_case KInt (JStr (str_of_string "12")) = true
   /\ scalar_kind_foreign KInt (JStr (str_of_string "12"))
   /\ coerce_value [(str_of_string "Int", TDScalar KInt)] (JStr (str_of_string "12"))
                   (INamed false (str_of_string "Int")) = Ok (PInt 12))
  /\ (lenient_scalar_case KString (JInt 123) = true
      /\ scalar_kind_foreign KString (JInt 123)
      /\ coerce_value [(str_of_string "String", TDScalar KString)] (JInt 123)
                      (INamed false (str_of_string "String")) = Ok (PStr (str_of_string "123"))).
Proof. vm_compute. repeat split; reflexivity. Qed.

(* ------------------------------------------------------------------ *)
(* directive arguments: the same coerce_argument_values                 *)
Theorem directive_args_sound s defs dname ds vs kw :
  schema_wf s -> args_wf s defs ->
  (forall d, find_directive dname ds = Some d -> call_vars_fit s vs defs (d_args d)) ->
  directive_arguments s defs dname ds vs = Ok (Some kw) ->
  NoDup (map fst kw)
  /\ (forall k v, In (k, v) kw -> exists a, In a defs /\ f_py a = k /\ conforms s (f_ty a) v)
  /\ (forall a, In a defs -> f_default a <> None \/ ity_nn (f_ty a) = true -> In (f_py a) (map fst kw)).
Proof.
  intros Hwf Ha Hfit H. unfold directive_arguments in H.
  destruct (find_directive dname ds) as [d|] eqn:Ed; [|discriminate].
  destruct (coerce_argument_values s defs (d_args d) vs) as [kw'| | |] eqn:Ec; try discriminate.
  inversion H; subst kw'. destruct (cav_sound _ _ _ _ _ Hwf Ha (Hfit d eq_refl) Ec) as (H1 & H2).
  repeat split; auto. intros a Hin Hreq. eapply cav_required_present; eauto.
Qed.

Theorem directive_args_total s defs dname ds vs :
  schema_closed s -> schema_inputs s -> scalars_behaved s ->
  (forall d, In d defs -> usable s (f_ty d)) ->
  decided_k RK_coercion (directive_arguments s defs dname ds vs).
Proof.
  intros Hc Hi Hbh Hd. unfold directive_arguments.
  destruct (find_directive dname ds) as [d|]; [|exact I].
  pose proof (cav_total s Hc Hi Hbh vs (d_args d) defs Hd) as Ht.
  destruct (coerce_argument_values s defs (d_args d) vs); simpl in *; auto.
Qed.

Lemma conforms_scalar_inv s nn n k v :
  alookup n s = Some (TDScalar k) -> conforms s (INamed nn n) v -> v = PNone \/ scalar_ok k v.
Proof.
  intros Hn Hc. inversion Hc; subst; auto; try congruence.
  right. assert (k0 = k) by congruence. subst. assumption.
Qed.

(* @skip / @include: whenever the arguments are accepted, `if` is there and is
   a boolean -- so _skip_selection tests a genuine boolean *)
Theorem skip_if_is_boolean s dname ds vs kw :
  schema_wf s -> alookup (str_of_string "Boolean") s = Some (TDScalar KBoolean) ->
  (forall d, find_directive dname ds = Some d -> call_vars_fit s vs [if_arg] (d_args d)) ->
  directive_arguments s [if_arg] dname ds vs = Ok (Some kw) ->
  exists b, alookup str_if kw = Some (PBool b).
Proof.
  intros Hwf Hb Hfit H.
  assert (Ha : args_wf s [if_arg]).
  { split.
    - intros f d [<-|[]] Hd. discriminate.
    - intros d [<-|[]]. unfold input_ty.
      change (ity_name (f_ty if_arg)) with (str_of_string "Boolean"). rewrite Hb. discriminate. }
  destruct (directive_args_sound _ _ _ _ _ _ Hwf Ha Hfit H) as (Hnd & Hc & Hp).
  assert (Hin : In (f_py if_arg) (map fst kw)) by (apply Hp; [left; reflexivity|right; reflexivity]).
  apply in_map_iff in Hin as ((k, v) & Hk & Hin). simpl in Hk. subst k.
  destruct (Hc _ _ Hin) as (a & [<-|[]] & _ & Hv).
  change (f_ty if_arg) with (INamed true (str_of_string "Boolean")) in Hv.
  destruct (conforms_scalar_inv _ _ _ _ _ Hb Hv) as [->|(b & ->)].
  - exfalso. eapply nonnull_never_null; eauto.
  - exists b. apply alookup_iff_In; assumption.
Qed.

(* ------------------------------------------------------------------ *)
(* a user scalar that raises an arbitrary exception: it bubbles up       *)
Theorem raising_scalar_raises s nn n :
  alookup n s = Some (TDScalar KOdd) ->
  coerce_value s (JInt 13) (INamed nn n) = Crash CK_user_exception
  /\ (forall vs lc, value_from_ast s vs (VInt (str_of_string "13") lc) (INamed nn n)
                    = Crash CK_user_exception).
Proof.
  intros H. split.
  - rewrite cv_named_eq by discriminate. unfold cv_named. rewrite H. reflexivity.
  - intros vs lc. rewrite vfa_named_eq by reflexivity. unfold vfa_named. rewrite H. reflexivity.
Qed.

Lemma collect_items_crash rs1 : forall c rs2,
  Forall decided rs1 -> collect_items (rs1 ++ Crash c :: rs2) = Crash c.
Proof.
  induction rs1 as [|r rs1 IH]; intros c rs2 H; simpl; [reflexivity|].
  inversion H as [|? ? Hr Hrs]; subst. rewrite (IH c rs2 Hrs).
  destruct r; simpl in Hr; try contradiction; reflexivity.
Qed.

(* ... through a list even when earlier items were already rejected: the
   collecting loop only holds back CoercionErrors *)
Theorem user_exception_bubbles_list s nn t l1 j l2 c :
  (forall x, In x l1 -> decided (coerce_value s x t)) ->
  coerce_value s j t = Crash c ->
  coerce_value s (JList (l1 ++ j :: l2)) (IList nn t) = Crash c.
Proof.
  intros H1 Hj. rewrite cv_list, map_app. simpl. rewrite Hj.
  rewrite collect_items_crash; [reflexivity|].
  apply Forall_forall. intros r Hr. apply in_map_iff in Hr as (x & <- & Hx). auto.
Qed.

(* ... and out of argument assembly and variable coercion *)
Theorem user_exception_bubbles_request s defs vds call raw vd j c :
  vds = [vd] -> alookup (n_val (vd_var vd)) raw = Some j ->
  (forall d, alookup (ity_name (ity_of_ty (vd_type vd))) s = Some d -> is_input_def d = true) ->
  alookup (ity_name (ity_of_ty (vd_type vd))) s <> None ->
  coerce_value s j (ity_of_ty (vd_type vd)) = Crash c ->
  exec_kwargs s defs vds call raw = Crash c.
Proof.
  intros -> Hraw Hin Hk Hc. unfold exec_kwargs, coerce_variable_values. simpl.
  unfold var_binding.
  destruct (alookup (ity_name (ity_of_ty (vd_type vd))) s) as [d|] eqn:E; [|congruence].
  rewrite (Hin d eq_refl). simpl. rewrite Hraw, Hc. reflexivity.
Qed.

(* ------------------------------------------------------------------ *)
(* list-of-list and non-null-inside-list corners, stated explicitly      *)
Theorem single_value_wraps_every_level s j t v n1 n2 :
  plain_json j = true -> coerce_value s j t = Ok v ->
  coerce_value s j (IList n1 (IList n2 t)) = Ok (PList [PList [v]]).
Proof. intros Hp H. rewrite !cv_single by assumption. rewrite H. reflexivity. Qed.

Theorem single_literal_wraps_every_level s vs l t v n1 n2 :
  literal_plain l = true -> value_from_ast s vs l t = Ok v ->
  value_from_ast s vs l (IList n1 (IList n2 t)) = Ok (PList [PList [v]]).
Proof.
  intros Hp H. apply literal_plain_split in Hp as (Hp & Hl).
  rewrite !vfa_single by assumption. rewrite H. reflexivity.
Qed.

Theorem list_corners s n :
  (* null for a nullable list of non-null items is the null list, not [null] *)
  coerce_value s JNull (IList false (INamed true n)) = Ok PNone
  (* a non-null list of nullable items may hold nulls *)
  /\ coerce_value s (JList [JNull; JNull]) (IList true (INamed false n)) = Ok (PList [PNone; PNone])
  (* the empty list is a list at every level *)
  /\ coerce_value s (JList []) (IList true (IList true (INamed true n))) = Ok (PList [])
  /\ coerce_value s (JList [JList []]) (IList true (IList true (INamed true n))) = Ok (PList [PList []])
  (* a null item of a non-null item type is refused, at any depth, whatever else the list holds *)
  /\ (forall nn l v, In JNull l -> coerce_value s (JList l) (IList nn (INamed true n)) <> Ok v)
  /\ (forall nn nn' l l' v, In (JList l') l -> In JNull l' ->
        coerce_value s (JList l) (IList nn (IList nn' (INamed true n))) <> Ok v)
  (* null is never wrapped into a singleton list *)
  /\ (forall v, coerce_value s JNull (IList true (INamed false n)) <> Ok v).
Proof.
  repeat split; try reflexivity.
  - intros nn l v Hin. apply wrong_rejected. eapply W_item; [exact Hin|]. constructor. reflexivity.
  - intros nn nn' l l' v Hl Hn. apply wrong_rejected.
    eapply W_item; [exact Hl|]. eapply W_item; [exact Hn|]. constructor. reflexivity.
  - intros v. rewrite cv_null. discriminate.
Qed.

(* directive arguments of a request *)
Theorem exec_directive_sound s defs vds dname ds raw kw :
  schema_wf s -> args_wf s defs ->
  (forall d, find_directive dname ds = Some d -> usage_ok s vds defs (d_args d)) ->
  exec_directive_args s defs vds dname ds raw = Ok (Some kw) ->
  NoDup (map fst kw)
  /\ (forall k v, In (k, v) kw -> exists a, In a defs /\ f_py a = k /\ conforms s (f_ty a) v)
  /\ (forall a, In a defs -> f_default a <> None \/ ity_nn (f_ty a) = true -> In (f_py a) (map fst kw)).
Proof.
  intros Hwf Ha Huse H. unfold exec_directive_args in H.
  destruct (coerce_variable_values s vds raw) as [vs| | |] eqn:Ev; try discriminate.
  eapply directive_args_sound; eauto.
  intros d Hd. eapply usage_gives_fit; eauto.
Qed.

(* ------------------------------------------------------------------ *)
(* the two open findings are the ONLY places where wrong values pass    *)
Lemma wrong_full_split s t j : wrong_full s t j -> wrong s t j \/ lenient_inside s t j.
Proof.
  induction 1.
  - left. constructor; assumption.
  - destruct (lenient_scalar_case k j) eqn:E.
    + right. eapply LI_here; eauto.
    + left. eapply W_kind; eauto.
  - left. eapply W_range; eauto.
  - left. eapply W_enum_name; eauto.
  - left. eapply W_enum_kind; eauto.
  - left. eapply W_obj_kind; eauto.
  - left. eapply W_unknown_field; eauto.
  - left. eapply W_missing; eauto.
  - destruct IHwrong_full as [IH|IH]; [left; eapply W_field; eauto|right; eapply LI_field; eauto].
  - destruct IHwrong_full as [IH|IH]; [left; eapply W_item; eauto|right; eapply LI_item; eauto].
  - destruct IHwrong_full as [IH|IH]; [left; eapply W_single; eauto|right; eapply LI_single; eauto].
Qed.

Theorem wrong_accepted_only_if_lenient s t j v :
  wrong_full s t j -> coerce_value s j t = Ok v -> lenient_inside s t j.
Proof.
  intros Hw Hv. destruct (wrong_full_split s t j Hw) as [H|H]; [|exact H].
  exfalso. eapply wrong_rejected; eauto.
Qed.

Lemma wrong_is_wrong_full s t j : wrong s t j -> wrong_full s t j.
Proof.
  induction 1; [constructor; assumption|eapply WF_kind; eauto|eapply WF_range; eauto
                |eapply WF_enum_name; eauto|eapply WF_enum_kind; eauto|eapply WF_obj_kind; eauto
                |eapply WF_unknown_field; eauto|eapply WF_missing; eauto|eapply WF_field; eauto
                |eapply WF_item; eauto|eapply WF_single; eauto].
Qed.

(* at a scalar position: a foreign kind is accepted exactly in the lenient
   cases that [lenient_accepts] lists *)
Theorem foreign_accepted_iff k j :
  scalar_kind_foreign k j -> ((exists v, parse_scalar k j = Ok v) <-> lenient_accepts k j = true).
Proof.
  intros Hf. destruct k, j; simpl in Hf; try contradiction; simpl;
    try (split; [intros (v & H); discriminate H|discriminate]);
    try (split; [reflexivity|eauto]).
  - (* Int <- string *)
    destruct (clean_num_text s) as [y|]; [|split; [intros (v & H); discriminate H|discriminate]].
    destruct (parse_int_text y) as [z|].
    + unfold int_range. destruct (in_int32 z); split; eauto; try discriminate.
      intros (v & H); discriminate H.
    + destruct (dec_of_text y) as [d|]; [|split; [intros (v & H); discriminate H|discriminate]].
      destruct (dec_integral d) as [z|]; [|split; [intros (v & H); discriminate H|discriminate]].
      unfold int_range. destruct (in_int32 z); split; eauto; try discriminate.
      intros (v & H); discriminate H.
  - (* Float <- string *)
    destruct (clean_num_text s) as [y|]; [|split; [intros (v & H); discriminate H|discriminate]].
    destruct (dec_of_text y); split; eauto; try discriminate. intros (v & H); discriminate H.
Qed.

(* ------------------------------------------------------------------ *)
(* the same request with the value inline or through a variable of the  *)
(* same type: the resolver gets the same kwargs                          *)
Theorem request_routes_agree s d j l nm lc x lx tyast lv lcv lc' td :
  schema_wf s ->
  spelled s (f_ty d) j l -> n_val nm = f_name d ->
  ity_of_ty tyast = f_ty d ->
  alookup (ity_name (f_ty d)) s = Some td -> is_input_def td = true ->
  exists v,
    exec_kwargs s [d] [] [Arg nm l lc] [] = Ok [(f_py d, v)]
    /\ exec_kwargs s [d] [VarDef x lx tyast None [] lv] [Arg nm (VVar x lcv) lc'] [(n_val x, j)]
       = Ok [(f_py d, v)].
Proof.
  intros Hwf Hsp Hnm Hty Htd Hin.
  assert (Hity : input_ty s (f_ty d)).
  { unfold input_ty. rewrite Htd. intros E; inversion E; subst; discriminate. }
  destruct (proj1 (spelled_agree s) _ _ _ Hsp []) as (v & Hcv & _).
  destruct (arg_routes_agree s d j l v nm lc x lcv lc' [] Hwf Hity Hsp Hcv Hnm) as (H1 & H2).
  exists v. split.
  - unfold exec_kwargs, coerce_variable_values. simpl. unfold mkdict at 1. simpl.
    unfold coerce_argument_values. simpl. rewrite H1. reflexivity.
  - unfold exec_kwargs, coerce_variable_values. simpl. unfold var_binding. simpl.
    rewrite Hty, Htd, Hin. simpl. rewrite str_eqb_refl, Hcv. simpl. unfold mkdict at 1. simpl.
    unfold coerce_argument_values. simpl. rewrite H2. reflexivity.
Qed.
