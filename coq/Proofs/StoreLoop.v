(* C14 -- proofs about the store model, part 3: _replace_types_and_directives
   and the loop "until no type needs to be updated" (C14_heal_closed). *)
From PyGql Require Import Spec.StoreSpec Proofs.StoreProofs Proofs.StoreHeal.
Local Open Scope N_scope.

(* --------------------------------------------------- dictionaries, again *)
Lemma aset_same {A} n (o : A) tm : alookup n tm = Some o -> aset n o tm = tm.
Proof.
  induction tm as [|[k v] tm IH]; simpl; [discriminate|].
  destruct (str_eqb_spec n k) as [->|Hne]; intros H.
  - inversion H; subst. reflexivity.
  - rewrite IH; auto.
Qed.

Lemma aset_keys {A} n (o o0 : A) tm : alookup n tm = Some o0 -> map fst (aset n o tm) = map fst tm.
Proof.
  induction tm as [|[k v] tm IH]; simpl; [discriminate|].
  destruct (str_eqb_spec n k) as [->|Hne]; intros H; simpl; [reflexivity|]. rewrite IH; auto.
Qed.

Lemma aset_in {A} n (o : A) tm n1 o1 :
  In (n1, o1) (aset n o tm) -> (n1 = n /\ o1 = o) \/ (In (n1, o1) tm /\ (NoDup (map fst tm) -> n1 <> n)).
Proof.
  induction tm as [|[k v] tm IH]; simpl.
  - intros [H|[]]. inversion H; subst. left; auto.
  - destruct (str_eqb_spec n k) as [->|Hne]; simpl.
    + intros [H|H]; [inversion H; subst; left; auto|].
      right. split; [right; assumption|]. intros Hnd ->. inversion Hnd; subst.
      apply H2. apply in_map_iff. exists (k, o1); split; auto.
    + intros [H|H].
      * inversion H; subst. right. split; [left; reflexivity|]. intros _ Heq. congruence.
      * destruct (IH H) as [Hl|[Hr Hn]]; [left; assumption|]. right. split; [right; assumption|].
        intros Hnd. apply Hn. inversion Hnd; assumption.
Qed.

Lemma adel_in {A} n (tm : list (str * A)) e : In e (adel n tm) -> In e tm.
Proof.
  induction tm as [|[k v] tm IH]; simpl; [auto|].
  destruct (str_eqb n k); simpl; [auto|]. intros [H|H]; auto.
Qed.

Lemma adel_keys_in {A} n (tm : list (str * A)) k : In k (map fst (adel n tm)) -> In k (map fst tm).
Proof.
  intros H. apply in_map_iff in H. destruct H as (e & <- & He). apply in_map. eapply adel_in; eauto.
Qed.

Lemma adel_nodup {A} n (tm : list (str * A)) : NoDup (map fst tm) -> NoDup (map fst (adel n tm)).
Proof.
  induction tm as [|[k v] tm IH]; simpl; [auto|]. intros Hnd. inversion Hnd; subst.
  destruct (str_eqb n k); simpl; [assumption|]. constructor; [|auto].
  intros Hin. apply H1. eapply adel_keys_in; eauto.
Qed.

Lemma adel_key_gone {A} n (tm : list (str * A)) : NoDup (map fst tm) -> ~ In n (map fst (adel n tm)).
Proof.
  induction tm as [|[k v] tm IH]; simpl; [auto|]. intros Hnd. inversion Hnd; subst.
  destruct (str_eqb_spec n k) as [->|Hne]; simpl; [assumption|].
  intros [H|H]; [congruence|]. apply IH; assumption.
Qed.

Lemma aset_nodup {A} n (o : A) tm : NoDup (map fst tm) -> NoDup (map fst (aset n o tm)).
Proof.
  induction tm as [|[k v] tm IH]; simpl; intros Hnd.
  - constructor; [intros []|constructor].
  - inversion Hnd; subst. destruct (str_eqb_spec n k) as [->|Hne]; simpl; [constructor; assumption|].
    constructor; [|auto]. intros Hin. apply in_map_iff in Hin. destruct Hin as ([k1 v1] & Hk & Hin).
    simpl in Hk; subst k1. apply aset_in in Hin. destruct Hin as [[-> _]|[Hin _]]; [congruence|].
    apply H1. apply in_map_iff. exists (k, v1); split; auto.
Qed.

Lemma nodup_lookup {A} (tm : list (str * A)) n o : NoDup (map fst tm) -> In (n, o) tm -> alookup n tm = Some o.
Proof.
  induction tm as [|[k v] tm IH]; simpl; [intros _ []|]. intros Hnd Hin. inversion Hnd; subst.
  destruct (str_eqb_spec n k) as [->|Hne].
  - destruct Hin as [H|H]; [inversion H; reflexivity|].
    exfalso. apply H1. apply in_map_iff. exists (k, o); split; auto.
  - destruct Hin as [H|H]; [inversion H; congruence|auto].
Qed.

(* ----------------------------------------------------------- registries *)
Definition wf_reg (m : mem) (tm : list (str * oid)) : Prop :=
  NoDup (map fst tm) /\ forall n o, In (n, o) tm -> tname m o = Some n.

Lemma wf_reg_lookup m tm : wf_reg m tm -> lookup_ok m tm.
Proof. intros [_ H] n o Hl. apply H. apply alookup_In. assumption. Qed.

Lemma wf_reg_names m tm : wf_reg m tm -> names_ok m tm.
Proof. intros [Hnd H] n o Hin. split; [auto|apply nodup_lookup; assumption]. Qed.

Lemma wf_reg_ext tm0 m m' tm : ext tm0 m m' -> wf_reg m tm -> wf_reg m' tm.
Proof. intros He [Hnd H]. split; [assumption|]. intros n o Hin. eapply ext_tname; eauto. Qed.

Lemma replace_types_wf m : forall ups tm b tm' b',
  wf_reg m tm -> (forall n y, In (n, Some y) ups -> tname m y = Some n) ->
  replace_types m ups tm b = Ok (tm', b') -> wf_reg m tm'.
Proof.
  induction ups as [|[n nw] ups IH]; intros tm b tm' b' Hwf Hups H; simpl in H.
  - inversion H; subst. assumption.
  - assert (Hups' : forall n0 y, In (n0, Some y) ups -> tname m y = Some n0) by (intros; apply Hups; right; assumption).
    destruct (alookup n tm) as [orig|] eqn:Hl; [|eapply IH; eauto].
    destruct (is_builtin orig); [discriminate|].
    destruct nw as [o|].
    + destruct (tkind m orig); [|discriminate]. destruct (tkind m o); [|discriminate].
      destruct (kind_eqb k k0); [|discriminate].
      eapply IH; [|exact Hups'|exact H]. destruct Hwf as [Hnd Hn]. split; [apply aset_nodup; assumption|].
      intros n1 o1 Hin. apply aset_in in Hin. destruct Hin as [[-> ->]|[Hin _]]; [apply Hups; left; reflexivity|auto].
    + eapply IH; [|exact Hups'|exact H]. destruct Hwf as [Hnd Hn]. split; [apply adel_nodup; assumption|].
      intros n1 o1 Hin. apply Hn. eapply adel_in; eauto.
Qed.

Lemma ooid_eqb_eq a b : ooid_eqb a b = true -> a = b.
Proof. destruct a, b; simpl; try discriminate; auto. intros H. apply N.eqb_eq in H. congruence. Qed.

(* when nothing was "busted" no entry had any effect *)
Lemma replace_types_unbusted m : forall ups tm b tm',
  replace_types m ups tm b = Ok (tm', false) ->
  b = false /\ tm' = tm /\ forall n r orig, In (n, r) ups -> alookup n tm = Some orig -> r = Some orig.
Proof.
  induction ups as [|[n nw] ups IH]; intros tm b tm' H; simpl in H.
  - inversion H; subst. repeat split; auto. intros ? ? ? [].
  - destruct (alookup n tm) as [orig|] eqn:Hl.
    + destruct (is_builtin orig); [discriminate|].
      destruct nw as [o|].
      * destruct (tkind m orig); [|discriminate]. destruct (tkind m o); [|discriminate].
        destruct (kind_eqb k k0); [|discriminate].
        destruct (IH _ _ _ H) as (Hb & -> & Hrest).
        apply orb_false_iff in Hb. destruct Hb as [-> Hb]. apply negb_false_iff in Hb.
        apply ooid_eqb_eq in Hb. inversion Hb; subst o. rewrite (aset_same _ _ _ Hl) in *.
        repeat split; auto. intros n1 r orig1 [Heq|Hin] Hl1; [inversion Heq; subst; congruence|eauto].
      * destruct (IH _ _ _ H) as (Hb & _ & _). apply orb_false_iff in Hb. destruct Hb as [_ Hb]. discriminate.
    + destruct (IH _ _ _ H) as (-> & -> & Hrest). repeat split; auto.
      intros n1 r orig1 [Heq|Hin] Hl1; [inversion Heq; subst; congruence|eauto].
Qed.

Lemma replace_dirs_spec : forall du dirs dm,
  NoDup (map fst dirs) -> replace_dirs du dirs = Ok dm ->
  NoDup (map fst dm) /\
  forall n d, In (n, d) dm -> In (n, Some d) du \/ (In (n, d) dirs /\ forall r, ~ In (n, r) du).
Proof.
  induction du as [|[n0 nw] du IH]; intros dirs dm Hnd H; simpl in H; [|destruct nw as [y|]].
  - inversion H; subst. split; [assumption|]. intros n d Hin. right. split; [assumption|intros r []].
  - destruct (IH _ _ (aset_nodup n0 y dirs Hnd) H) as (Hnd' & Hin'). split; [assumption|].
    intros n d Hin. destruct (Hin' n d Hin) as [Hl|[Hr Hno]]; [left; right; assumption|].
    apply aset_in in Hr. destruct Hr as [[-> ->]|[Hr Hne]]; [left; left; reflexivity|].
    right. split; [assumption|]. intros r [Heq|Hr']; [inversion Heq; subst; apply (Hne Hnd); reflexivity|apply (Hno r Hr')].
  - destruct (ahas n0 dirs); [|discriminate].
    destruct (IH _ _ (adel_nodup n0 dirs Hnd) H) as (Hnd' & Hin'). split; [assumption|].
    intros n d Hin. destruct (Hin' n d Hin) as [Hl|[Hr Hno]]; [left; right; assumption|].
    right. split; [eapply adel_in; eauto|].
    intros r [Heq|Hr']; [|apply (Hno r Hr')]. injection Heq as Hn0 _. rewrite Hn0 in *.
    apply (adel_key_gone n dirs Hnd). apply in_map_iff. exists (n, d); split; auto.
Qed.

(* ------------------------------------------------- attribute preservation *)
Lemma same_attrs_refl v : same_attrs v v.
Proof. destruct v; simpl; repeat split; auto. Qed.

Lemma same_attrs_trans v v' v'' : same_attrs v v' -> same_attrs v' v'' -> same_attrs v v''.
Proof.
  destruct v, v'; simpl; try contradiction; destruct v''; simpl; try contradiction; intros H1 H2.
  - destruct H1 as (-> & -> & -> & -> & -> & ->). destruct H2 as (-> & -> & -> & -> & -> & ->). repeat split.
  - destruct H1 as (-> & -> & -> & -> & -> & -> & -> & ->). destruct H2 as (-> & -> & -> & -> & -> & -> & -> & ->).
    repeat split.
  - destruct H1 as (-> & -> & -> & -> & -> & ->). destruct H2 as (-> & -> & -> & -> & -> & ->). repeat split.
  - congruence.
  - congruence.
Qed.

Lemma keeps_attrs_refl m : keeps_attrs m m.
Proof. intros o v H. exists v. split; [assumption|apply same_attrs_refl]. Qed.

Lemma keeps_attrs_trans m m' m'' : keeps_attrs m m' -> keeps_attrs m' m'' -> keeps_attrs m m''.
Proof.
  intros H1 H2 o v Hg. destruct (H1 o v Hg) as (v' & Hg' & Ha). destruct (H2 o v' Hg') as (v'' & Hg'' & Ha').
  exists v''. split; [assumption|eapply same_attrs_trans; eauto].
Qed.

Lemma ext_keeps tm m m' : ext tm m m' -> keeps_attrs m m'.
Proof.
  intros [_ He] o v Hg. destruct (He o v Hg) as (v' & Hg' & Hr). exists v'. split; [assumption|].
  destruct v, v'; simpl in Hr; try contradiction; simpl.
  - destruct Hr as (-> & -> & -> & _ & -> & -> & ->). repeat split.
  - destruct Hr as (-> & _ & -> & -> & -> & -> & -> & -> & ->). repeat split.
  - destruct Hr as (_ & -> & -> & -> & -> & -> & ->). repeat split.
  - assumption.
  - assumption.
Qed.

(* ------------------------------------------------------------- the loop *)
Record closed_core (m : mem) (s : schema) : Prop := MkCore {
  cc_types : Forall (fun e => is_builtin (snd e) = false -> type_ok m (s_types s) (snd e)) (s_types s);
  cc_dirs : Forall (fun e => dir_ok m (s_types s) (snd e)) (s_dirs s);
  cc_query : root_ok m (s_types s) (s_query s);
  cc_mut : root_ok m (s_types s) (s_mut s);
  cc_sub : root_ok m (s_types s) (s_sub s)
}.

Definition heal_from (fuel : nat) (m : mem) (s : schema) : outcome (mem * schema) :=
  match traverse (heal_visitor (s_types s)) m s with
  | None => Crash 4
  | Some (m1, tu, du) => replace_and_heal fuel m1 s tu du
  end.

Lemma replace_and_heal_S fuel m s tu du :
  replace_and_heal (S fuel) m s tu du =
  (do tb <- replace_types m tu (s_types s) false;
   do dm <- replace_dirs du (s_dirs s);
   let s1 := MkSchema (fst tb) dm (reroot m (fst tb) (s_query s)) (reroot m (fst tb) (s_mut s))
                      (reroot m (fst tb) (s_sub s)) (s_impls s) (s_poss s) in
   if snd tb then do r <- heal_from fuel m s1; Ok (fst r, rebuild_caches (fst r) (snd r))
   else Ok (m, s1)).
Proof.
  simpl. destruct (replace_types m tu (s_types s) false) as [[tm b]| | |]; simpl; try reflexivity.
  destruct (replace_dirs du (s_dirs s)) as [dm| | |]; simpl; try reflexivity.
  destruct b; [|reflexivity]. unfold heal_from. simpl.
  destruct (traverse (heal_visitor tm) m _) as [[[m1 tu1] du1]|]; reflexivity.
Qed.

Lemma reroot_ok m0 m tm r : lookup_ok m tm -> root_ok m tm (reroot m0 tm r).
Proof.
  intros Hl. destruct r as [o|]; simpl; [|exact I].
  destruct (tname m0 o) as [n|]; simpl; [|exact I].
  destruct (alookup n tm) as [o'|] eqn:Ha; simpl; [|exact I].
  exists n. split; [apply Hl; assumption|assumption].
Qed.

Lemma closed_core_rebuild m s : closed_core m s -> closed_core m (rebuild_caches m s).
Proof. intros [H1 H2 H3 H4 H5]. constructor; assumption. Qed.

Lemma heal_from_closed : forall fuel m s m' s',
  fresh_ok m -> wf_reg m (s_types s) -> NoDup (map fst (s_dirs s)) ->
  heal_from fuel m s = Ok (m', s') ->
  closed_core m' s' /\ fresh_ok m' /\ wf_reg m' (s_types s') /\ NoDup (map fst (s_dirs s')) /\
  keeps_attrs m m'.
Proof.
  induction fuel as [|fuel IH]; intros m s m' s' Hf Hwf Hnd H; unfold heal_from in H.
  - destruct (traverse _ m s) as [[[m1 tu] du]|]; simpl in H; discriminate.
  - unfold traverse in H.
    destruct (traverse_list (visit_type (heal_visitor (s_types s))) is_builtin m (s_types s))
      as [[m1 tu]|] eqn:Ht; [|discriminate].
    destruct (traverse_list (visit_dir (heal_visitor (s_types s))) (fun _ => false) m1 (s_dirs s))
      as [[m2 du]|] eqn:Hd; [|discriminate].
    assert (Hi : inv (s_types s) m) by (split; [assumption|apply wf_reg_lookup; assumption]).
    destruct (traverse_types_spec _ _ _ _ _ Hi Ht) as (Hi1 & He1 & Hgood & Hups).
    destruct (traverse_dirs_spec _ _ _ _ _ Hi1 Hd) as (Hi2 & He2 & Hdgood & Hdups).
    assert (He : ext (s_types s) m m2) by (eapply ext_trans; eauto).
    assert (Hwf2 : wf_reg m2 (s_types s)) by (eapply wf_reg_ext; eauto).
    rewrite replace_and_heal_S in H.
    destruct (replace_types m2 tu (s_types s) false) as [[tm' b]| | |] eqn:Hrt; simpl in H; try discriminate.
    destruct (replace_dirs du (s_dirs s)) as [dm| | |] eqn:Hrd; simpl in H; try discriminate.
    destruct (replace_dirs_spec _ _ _ Hnd Hrd) as (Hnd' & Hdm).
    assert (Hwf' : wf_reg m2 tm').
    { eapply replace_types_wf; [exact Hwf2| |exact Hrt].
      intros n y Hin. destruct (Hups n (Some y) Hin) as (o & y' & Ho & Hy & Ht'). inversion Hy; subst y'.
      eapply ext_tname; [exact He2|]. apply Ht'. destruct Hwf as [_ Hn]. auto. }
    destruct b.
    + (* something was replaced: heal again, then refresh the indexes *)
      match type of H with obind (heal_from fuel m2 ?s1) _ = _ =>
        destruct (heal_from fuel m2 s1) as [[m3 s3]| | |] eqn:Hrec; simpl in H; try discriminate;
        destruct (IH m2 s1 m3 s3 (proj1 Hi2) Hwf' Hnd' Hrec) as (Hc & Hf3 & Hwf3 & Hnd3 & Hk3) end.
      inversion H; subst m' s'; clear H.
      split; [apply closed_core_rebuild; assumption|]. split; [assumption|]. split; [assumption|].
      split; [assumption|]. eapply keeps_attrs_trans; [eapply ext_keeps; exact He|exact Hk3].
    + (* nothing had to be replaced: the pass healed every reference *)
      inversion H; subst m' s'; clear H.
      destruct (replace_types_unbusted _ _ _ _ _ Hrt) as (_ & -> & Hnoeff).
      split; [|split; [exact (proj1 Hi2)|split; [assumption|split; [assumption|eapply ext_keeps; exact He]]]].
      constructor; simpl.
      * apply Forall_forall. intros [n o] Hin Hb. simpl in *.
        apply type_good_ok. destruct (Hgood n o Hin Hb) as [Hg|(r & Hr & Hne)].
        -- eapply type_good_ext; [exact He2|exact Hg].
        -- exfalso. apply Hne. eapply Hnoeff; eauto. apply nodup_lookup; [exact (proj1 Hwf)|assumption].
      * apply Forall_forall. intros [n d] Hin. simpl. apply dir_good_ok.
        destruct (Hdm n d Hin) as [Hl|[Hr Hno]].
        -- destruct (Hdups n (Some d) Hl) as (y & Hy & Hg). inversion Hy; subst. assumption.
        -- destruct (Hdgood n d Hr) as [Hg|(r & Hr' & _)]; [assumption|]. exfalso. apply (Hno r Hr').
      * apply reroot_ok. exact (proj2 Hi2).
      * apply reroot_ok. exact (proj2 Hi2).
      * apply reroot_ok. exact (proj2 Hi2).
Qed.

(* ------------------------------------------------------ property lemmas *)
Lemma closed_of_core m s :
  closed_core m s -> wf_reg m (s_types s) -> closed m (rebuild_caches m s).
Proof.
  intros [H1 H2 H3 H4 H5] Hwf. constructor; simpl; auto.
  - apply (rebuild_caches_impls m s). apply wf_reg_names. assumption.
Qed.

Theorem fix_type_references_closed fuel m s m' s' :
  fresh_ok m -> wf_reg m (s_types s) -> NoDup (map fst (s_dirs s)) ->
  fix_type_references fuel m s = Ok (m', s') -> closed m' s'.
Proof.
  intros Hf Hwf Hnd H. unfold fix_type_references in H.
  pose proof (heal_from_closed fuel m s) as Hh. unfold heal_from in Hh.
  destruct (traverse (heal_visitor (s_types s)) m s) as [[[m1 tu] du]|]; [|discriminate].
  destruct (replace_and_heal fuel m1 s tu du) as [[m2 s2]| | |]; simpl in H; try discriminate.
  inversion H; subst m' s'. destruct (Hh m2 s2 Hf Hwf Hnd eq_refl) as (Hc & _ & Hwf2 & _).
  apply closed_of_core; assumption.
Qed.

Theorem fix_type_references_keeps fuel m s m' s' :
  fresh_ok m -> wf_reg m (s_types s) -> NoDup (map fst (s_dirs s)) ->
  fix_type_references fuel m s = Ok (m', s') -> keeps_attrs m m'.
Proof.
  intros Hf Hwf Hnd H. unfold fix_type_references in H.
  pose proof (heal_from_closed fuel m s) as Hh. unfold heal_from in Hh.
  destruct (traverse (heal_visitor (s_types s)) m s) as [[[m1 tu] du]|]; [|discriminate].
  destruct (replace_and_heal fuel m1 s tu du) as [[m2 s2]| | |]; simpl in H; try discriminate.
  inversion H; subst m' s'. destruct (Hh m2 s2 Hf Hwf Hnd eq_refl) as (_ & _ & _ & _ & Hk). exact Hk.
Qed.

(* _replace_types_and_directives: whenever an entry really replaces or removes
   a registered type, the schema that comes out is closed *)
Theorem replace_busted_closed fuel m s tu du m' s' tm' :
  fresh_ok m -> wf_reg m (s_types s) -> NoDup (map fst (s_dirs s)) ->
  (forall n y, In (n, Some y) tu -> tname m y = Some n) ->
  replace_types m tu (s_types s) false = Ok (tm', true) ->
  replace_and_heal fuel m s tu du = Ok (m', s') -> closed m' s'.
Proof.
  intros Hf Hwf Hnd Hups Hrt H. destruct fuel as [|fuel]; [simpl in H; discriminate|].
  rewrite replace_and_heal_S in H. rewrite Hrt in H. simpl in H.
  destruct (replace_dirs du (s_dirs s)) as [dm| | |] eqn:Hrd; simpl in H; try discriminate.
  destruct (replace_dirs_spec _ _ _ Hnd Hrd) as (Hnd' & _).
  pose proof (replace_types_wf _ _ _ _ _ _ Hwf Hups Hrt) as Hwf'.
  match type of H with obind (heal_from fuel m ?s1) _ = _ =>
    destruct (heal_from fuel m s1) as [[m2 s2]| | |] eqn:Hrec; simpl in H; try discriminate;
    destruct (heal_from_closed fuel m s1 m2 s2 Hf Hwf' Hnd' Hrec) as (Hc & _ & Hwf2 & _) end.
  inversion H; subst m' s'. apply closed_of_core; assumption.
Qed.
