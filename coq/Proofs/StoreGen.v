(* C14 -- proofs about the store model, part 15: the traversal / healing-loop
   arguments of part 12, for an arbitrary per-type relation [T m n o t] ("the
   type object o registered as n relates to the source type t") that is kept
   by memory steps and re-established by the visit of a type.  Instantiated
   by the completeness relation of part 16. [P tm]: a side condition on the
   registry, monotone when keys are added (e.g. "every finally registered name
   is a key"). *)
From PyGql Require Import Spec.StoreExtSpec Proofs.StoreProofs Proofs.StoreHeal Proofs.StoreLoop
     Proofs.StoreFrame Proofs.StoreClone Proofs.StoreOps Proofs.StoreTerm Proofs.StoreVis Proofs.StoreVisM
     Proofs.StoreCloneP Proofs.StoreDesc.
Local Open Scope N_scope.

Section Gen.
Variable p : vis_preds.
Variable S : list (str * oid).
Variable T : mem -> str -> oid -> oid -> Prop.
Variable P : list (str * oid) -> Prop.
Hypothesis P_mono : forall tm tm', (forall k, In k (map fst tm') -> In k (map fst tm)) -> P tm' -> P tm.
Hypothesis T_exists : forall m n o t, T m n o t -> exists v, mget m o = Some v.
Hypothesis T_keep : forall m m' n y t v,
  tnr m m' -> mget m y = Some v -> mget m' y = Some v -> T m n y t -> T m' n y t.
Hypothesis T_ext : forall tm m m' n o t, ext tm m m' -> T m n o t -> T m' n o t.
Hypothesis T_heal : forall tm m t m' r n st,
  P tm -> inv tm m -> T m n t st -> visit_type (heal_visitor tm) m t = Some (m', r) ->
  exists y, r = Some y /\ T m' n y st.
Hypothesis T_vis : forall m o m' y n t,
  vinv m -> T m n o t -> is_builtin o = false ->
  visit_type (vis_visitor p) m o = Some (m', Some y) -> T m' n y t.

Definition rel (m : mem) (tm : list (str * oid)) : Prop :=
  forall n o, In (n, o) tm -> is_builtin o = false -> exists t, In (n, t) S /\ T m n o t.

Lemma traverse_types_gen tm0 : P tm0 -> forall l m m' ups,
  inv tm0 m ->
  (forall n o, In (n, o) l -> is_builtin o = false -> exists t, In (n, t) S /\ T m n o t) ->
  traverse_list (visit_type (heal_visitor tm0)) is_builtin m l = Some (m', ups) ->
  forall n y, In (n, Some y) ups -> exists t, In (n, t) S /\ T m' n y t.
Proof.
  intros HP. induction l as [|[n0 o0] l IH]; intros m m' ups Hi Hl H n y Hin; simpl in H.
  - inversion H; subst. destruct Hin.
  - assert (Hl' : forall n1 o1, In (n1, o1) l -> is_builtin o1 = false -> exists t, In (n1, t) S /\ T m n1 o1 t)
      by (intros n1 o1 Hi1 Hb1; apply (Hl n1 o1); [right; assumption|assumption]).
    destruct (is_builtin o0) eqn:Hb0; [exact (IH m m' ups Hi Hl' H n y Hin)|].
    destruct (visit_type (heal_visitor tm0) m o0) as [[m1 r]|] eqn:Hv; [|discriminate].
    destruct (traverse_list (visit_type (heal_visitor tm0)) is_builtin m1 l) as [[m2 ups']|] eqn:Ht; [|discriminate].
    inversion H; subst m' ups; clear H.
    destruct (Hl n0 o0 (or_introl eq_refl) Hb0) as (t0 & Ht0 & Hd0).
    destruct (heal_type_hook tm0 _ _ _ _ Hi Hv) as (Hi1 & He1 & y1 & -> & _ & _).
    destruct (traverse_types_spec tm0 _ _ _ _ Hi1 Ht) as (Hi2 & He2 & _ & _).
    assert (Hl1 : forall n1 o1, In (n1, o1) l -> is_builtin o1 = false -> exists t, In (n1, t) S /\ T m1 n1 o1 t).
    { intros n1 o1 Hin1 Hb1. destruct (Hl' n1 o1 Hin1 Hb1) as (t1 & A & B). exists t1. split; [assumption|eapply T_ext; [exact He1|exact B]]. }
    assert (Hcases : (n, Some y) = (n0, Some y1) \/ In (n, Some y) ups').
    { destruct (ooid_eqb (Some y1) (Some o0)); [right; assumption|destruct Hin; auto]. }
    destruct Hcases as [Heq|Hin'].
    + inversion Heq; subst n y. destruct (T_heal tm0 _ _ _ _ _ _ HP Hi Hd0 Hv) as (y2 & Hy2 & Hgood).
      inversion Hy2; subst y2. exists t0. split; [assumption|eapply T_ext; [exact He2|exact Hgood]].
    + exact (IH m1 m2 ups' Hi1 Hl1 Ht n y Hin').
Qed.

Lemma heal_from_gen : forall fuel m s m' s',
  fresh_ok m -> wf_reg m (s_types s) -> rel m (s_types s) ->
  heal_from fuel m s = Ok (m', s') -> P (s_types s') -> rel m' (s_types s').
Proof.
  induction fuel as [|fuel IH]; intros m s m' s' Hf Hwf Hrd H HP; unfold heal_from in H.
  - destruct (traverse _ m s) as [[[m1 tu] du]|]; simpl in H; discriminate.
  - unfold traverse in H.
    destruct (traverse_list (visit_type (heal_visitor (s_types s))) is_builtin m (s_types s))
      as [[m1 tu]|] eqn:Ht; [|discriminate].
    destruct (traverse_list (visit_dir (heal_visitor (s_types s))) (fun _ => false) m1 (s_dirs s))
      as [[m2 du]|] eqn:Hd; [|discriminate].
    assert (Hi : inv (s_types s) m) by (split; [assumption|apply wf_reg_lookup; assumption]).
    destruct (traverse_types_spec _ _ _ _ _ Hi Ht) as (Hi1 & He1 & _ & Hups).
    destruct (traverse_dirs_spec _ _ _ _ _ Hi1 Hd) as (Hi2 & He2 & _ & _).
    assert (He : ext (s_types s) m m2) by (eapply ext_trans; eauto).
    assert (Hwf2 : wf_reg m2 (s_types s)) by (eapply wf_reg_ext; eauto).
    pose proof H as H0. rewrite replace_and_heal_S in H.
    destruct (replace_types m2 tu (s_types s) false) as [[tm' b]| | |] eqn:Hrt; simpl in H; try discriminate.
    destruct (replace_dirs du (s_dirs s)) as [dm| | |] eqn:Hrd2; simpl in H; try discriminate.
    assert (HPs : P (s_types s)).
    { eapply P_mono; [|exact HP]. intros k Hk.
      eapply replace_types_keys; [exact Hrt|]. eapply replace_and_heal_keys; [exact Hrt|exact H0|exact Hk]. }
    assert (Htu : forall n y, In (n, Some y) tu -> exists t, In (n, t) S /\ T m2 n y t).
    { intros n y Hin. destruct (traverse_types_gen _ HPs _ _ _ _ Hi Hrd Ht n y Hin) as (t & A & B).
      exists t. split; [assumption|eapply T_ext; [exact He2|exact B]]. }
    assert (Hwf' : wf_reg m2 tm').
    { eapply replace_types_wf; [exact Hwf2| |exact Hrt].
      intros n y Hin. destruct (Hups n (Some y) Hin) as (o & y' & Ho & Hy & Ht'). inversion Hy; subst y'.
      eapply ext_tname; [exact He2|]. apply Ht'. destruct Hwf as [_ Hn]. auto. }
    assert (Hrd' : rel m2 tm').
    { intros n o Hin Hb. destruct (replace_types_in _ _ _ _ _ _ _ _ Hrt Hin) as [Ha|Hb'].
      - destruct (Hrd n o Ha Hb) as (t & A & B). exists t. split; [assumption|eapply T_ext; [exact He|exact B]].
      - apply Htu. assumption. }
    destruct b.
    + match type of H with obind (heal_from fuel m2 ?s1) _ = _ =>
        destruct (heal_from fuel m2 s1) as [[m3 s3]| | |] eqn:Hrec; simpl in H; try discriminate;
        assert (HP3 : P (s_types s3)) by (inversion H; subst; exact HP);
        pose proof (IH m2 s1 m3 s3 (proj1 Hi2) Hwf' Hrd' Hrec HP3) as A end.
      inversion H; subst. exact A.
    + inversion H; subst. exact Hrd'.
Qed.

Lemma vis_traverse_gen : forall l m m' ups,
  vinv m -> NoDup (map fst l) -> (forall n o, In (n, o) l -> tname m o = Some n) ->
  (forall n o, In (n, o) l -> is_builtin o = false -> exists t, In (n, t) S /\ T m n o t) ->
  traverse_list (visit_type (vis_visitor p)) is_builtin m l = Some (m', ups) ->
  (forall n y, In (n, Some y) ups -> exists t, In (n, t) S /\ T m' n y t) /\
  (forall n o, In (n, o) l -> is_builtin o = false -> (forall r, ~ In (n, r) ups) -> exists t, In (n, t) S /\ T m' n o t).
Proof.
  induction l as [|[n0 o0] l IH]; intros m m' ups Hi Hnd Hnames Hd H; simpl in H.
  - inversion H; subst. split; [intros ? ? []|intros ? ? []].
  - inversion Hnd as [|? ? Hn0 Hnd']; subst.
    assert (Hnames' : forall n o, In (n, o) l -> tname m o = Some n) by (intros; apply Hnames; right; assumption).
    assert (Hd' : forall n o, In (n, o) l -> is_builtin o = false -> exists t, In (n, t) S /\ T m n o t)
      by (intros n o Hin Hb; apply (Hd n o); [right; assumption|assumption]).
    destruct (is_builtin o0) eqn:Hb0.
    + destruct (IH _ _ _ Hi Hnd' Hnames' Hd' H) as (A & B). split; [assumption|].
      intros n o [Heq|Hin] Hb Hno; [inversion Heq; subst; congruence|eauto].
    + destruct (visit_type (vis_visitor p) m o0) as [[m1 r]|] eqn:Hv; [|discriminate].
      destruct (traverse_list (visit_type (vis_visitor p)) is_builtin m1 l) as [[m2 ups']|] eqn:Hl; [|discriminate].
      inversion H; subst m' ups; clear H.
      pose proof (Hnames n0 o0 (or_introl eq_refl)) as Ht0. destruct (tname_tyi _ _ _ Ht0) as (k0 & Hty0).
      destruct (vis_visit_type p _ _ _ _ _ Hi Ht0 Hb0 Hv) as (I1 & R1 & _ & _).
      assert (Hnames1 : forall n o, In (n, o) l -> tname m1 o = Some n)
        by (intros n o Hin; eapply tnr_tname; [exact R1|apply Hnames'; assumption]).
      destruct (vis_traverse_good p _ _ _ _ I1 Hnd' Hnames1 Hl) as (I2 & R2 & C2 & _ & _).
      destruct (traverse_list_keys _ _ _ _ _ _ Hnd' Hl) as (_ & Hkeys).
      assert (Hd1 : forall n o, In (n, o) l -> is_builtin o = false -> exists t, In (n, t) S /\ T m1 n o t).
      { intros n o Hin Hb. destruct (Hd' n o Hin Hb) as (t & A & B). exists t. split; [assumption|].
        destruct (T_exists _ _ _ _ B) as (v & Hvo).
        assert (Hne : o <> o0).
        { intros ->. pose proof (Hnames' n o0 Hin) as Hx. rewrite Ht0 in Hx. inversion Hx; subst n.
          apply Hn0. apply in_map_iff. exists (n0, o0); split; auto. }
        assert (Hkeep : mget m1 o = Some v).
        { destruct r as [y|].
          - destruct (vis_type_good p _ _ _ _ _ _ Hi Hty0 Hb0 Hv) as (_ & _ & Fr). apply Fr; assumption.
          - assert (Hsing : traverse_list (visit_type (vis_visitor p)) is_builtin m [(n0, o0)] = Some (m1, [(n0, None)])).
            { simpl. rewrite Hb0, Hv. simpl. reflexivity. }
            destruct (vis_traverse_good p [(n0, o0)] m m1 _ Hi
                        (ltac:(simpl; constructor; [intros []|constructor]))
                        (fun n1 o1 Hin1 => match Hin1 with
                                           | or_introl e => eq_ind (n0, o0) (fun q => tname m (snd q) = Some (fst q)) Ht0 _ e
                                           | or_intror f => match f with end
                                           end) Hsing) as (_ & _ & C1 & _ & _).
            apply C1; [assumption|]. intros n1 o1 [He|[]] _. inversion He; subst. exact Hne. }
        eapply T_keep; eauto. }
      destruct (IH _ _ _ I1 Hnd' Hnames1 Hd1 Hl) as (A2 & B2).
      assert (Hhead : forall y, r = Some y -> exists t, In (n0, t) S /\ T m2 n0 y t).
      { intros y ->. destruct (Hd n0 o0 (or_introl eq_refl) Hb0) as (t0 & At & Bt). exists t0. split; [assumption|].
        pose proof (T_vis _ _ _ _ _ _ Hi Bt Hb0 Hv) as Hg1.
        destruct (vis_type_good p _ _ _ _ _ _ Hi Hty0 Hb0 Hv) as (_ & Hty & _).
        destruct (tyi_exists _ _ _ Hty) as (v & Hvy).
        assert (Hkeep : mget m2 y = Some v).
        { apply C2; [assumption|]. intros n o Hin Hb Heq. subst o.
          pose proof (Hnames1 n y Hin) as Hny. destruct (tyi_tname _ _ _ _ Hty) as (Hny' & _).
          rewrite Hny in Hny'. inversion Hny'; subst n. apply Hn0. apply in_map_iff. exists (n0, y); split; auto. }
        eapply T_keep; eauto. }
      split.
      * intros n y Hin. destruct (ooid_eqb r (Some o0)) eqn:Heq; [apply A2; assumption|].
        destruct Hin as [He|Hin]; [|apply A2; assumption]. inversion He; subst. apply Hhead. reflexivity.
      * intros n o [He|Hin] Hb Hno.
        -- inversion He; subst n o. destruct (ooid_eqb r (Some o0)) eqn:Heq.
           ++ apply ooid_eqb_eq in Heq. apply Hhead. assumption.
           ++ exfalso. apply (Hno r). left; reflexivity.
        -- apply B2; [assumption|assumption|]. intros r0 Hin0. apply (Hno r0).
           destruct (ooid_eqb r (Some o0)); [assumption|right; assumption].
Qed.

(* the visibility visitor applied in place *)
Theorem vis_gen fuel m s m' s' :
  fresh_ok m -> builtins_ok m -> NoDup (map fst (s_types s)) ->
  (forall n o, In (n, o) (s_types s) -> tname m o = Some n) ->
  rel m (s_types s) ->
  on_schema fuel (vis_visitor p) m s = Ok (m', s') -> P (s_types s') ->
  rel m' (s_types s').
Proof.
  intros Hf Hb Hnd Hnames Hrd H HP.
  assert (Hi : vinv m).
  { split; [assumption|]. destruct (N.lt_ge_cases 5 (m_next m)) as [Hlt|Hle]; [assumption|].
    assert (Hin : In (str_of_string "ID", 5) builtin_types) by (simpl; auto 10).
    pose proof (Hb _ _ Hin) as Hg. rewrite (Hf 5 Hle) in Hg. discriminate. }
  unfold on_schema, traverse in H.
  destruct (traverse_list (visit_type (vis_visitor p)) is_builtin m (s_types s)) as [[m1 tu]|] eqn:Ht; [|discriminate].
  destruct (traverse_list (visit_dir (vis_visitor p)) (fun _ => false) m1 (s_dirs s)) as [[m2 du]|] eqn:Hd; [|discriminate].
  destruct (vis_traverse_good p _ _ _ _ Hi Hnd Hnames Ht) as (I1 & R1 & _ & Dt & _).
  destruct (vis_traverse_gen _ _ _ _ Hi Hnd Hnames Hrd Ht) as (Du & Dk).
  destruct (vis_traverse_dirs p _ _ _ _ I1 Hd) as (I2 & R2 & _ & _).
  pose proof (pres_tnr _ _ R2) as R2t.
  assert (Hkeep : forall n y t, T m1 n y t -> T m2 n y t).
  { intros n y t Hg. destruct (T_exists _ _ _ _ Hg) as (v & Hv).
    eapply T_keep; [exact R2t|exact Hv|apply (proj2 R2); exact Hv|exact Hg]. }
  destruct fuel as [|fuel]; [simpl in H; discriminate|].
  rewrite replace_and_heal_S in H.
  destruct (replace_types m2 tu (s_types s) false) as [[tm1 b]| | |] eqn:Hrt; simpl in H; try discriminate.
  destruct (replace_dirs du (s_dirs s)) as [dm| | |] eqn:Hrd2; simpl in H; try discriminate.
  assert (Hwf2 : wf_reg m2 (s_types s)).
  { split; [assumption|]. intros n o Hin. eapply tnr_tname; [exact R2t|]. eapply tnr_tname; [exact R1|]. auto. }
  assert (Hwf' : wf_reg m2 tm1).
  { eapply replace_types_wf; [exact Hwf2| |exact Hrt]. intros n y Hin.
    eapply tnr_tname; [exact R2t|]. exact (proj2 (Dt n y Hin)). }
  assert (Hrg : rel m2 tm1).
  { intros n o Hin Hbo. destruct (replace_types_in_strict _ _ _ _ _ _ _ _ Hnd Hrt Hin) as [Hu|[Ho Hno]].
    - destruct (Du n o Hu) as (t & A & B). exists t. split; [assumption|apply Hkeep; assumption].
    - destruct (Dk n o Ho Hbo Hno) as (t & A & B). exists t. split; [assumption|apply Hkeep; assumption]. }
  destruct b.
  - match type of H with obind (heal_from fuel m2 ?s1) _ = _ =>
      destruct (heal_from fuel m2 s1) as [[m3 s3]| | |] eqn:Hrec; simpl in H; try discriminate;
      assert (HP3 : P (s_types s3)) by (inversion H; subst; exact HP);
      pose proof (heal_from_gen fuel m2 s1 m3 s3 (proj1 I2) Hwf' Hrg Hrec HP3) as A end.
    inversion H; subst. exact A.
  - inversion H; subst. exact Hrg.
Qed.

End Gen.
