(* Generic list lemmas shared by the C13 and C20 proofs: keyed lookups in
   lists with unique names, flat_map, de-duplication, permutations. *)
From PyGql Require Import Schema.SchemaFull.
From Coq Require Import Permutation.

Lemma flat_map_nil {A B} (f : A -> list B) l :
  (forall x, In x l -> f x = []) -> flat_map f l = [].
Proof.
  induction l as [|x l IH]; intros H; simpl; [reflexivity|].
  rewrite (H x (or_introl eq_refl)), IH; [reflexivity|]. intros y Hy; apply H; right; exact Hy.
Qed.

(* lookup of a member by its own name in a list with unique names *)
Lemma find_unique {A} (name : A -> str) (l : list A) x :
  NoDup (map name l) -> In x l ->
  find (fun y => str_eqb (name x) (name y)) l = Some x.
Proof.
  induction l as [|y l IH]; intros Hnd Hin; [destruct Hin|].
  simpl in *. inversion Hnd as [|? ? Hny Hnd']; subst.
  destruct Hin as [->|Hin].
  - rewrite str_eqb_refl; reflexivity.
  - destruct (str_eqb_spec (name x) (name y)) as [He|_].
    + exfalso. apply Hny. rewrite <- He. apply in_map; exact Hin.
    + apply IH; assumption.
Qed.

Lemma find_name_some {A} (name : A -> str) (l : list A) k x :
  find (fun y => str_eqb k (name y)) l = Some x -> In x l /\ name x = k.
Proof.
  intros H. apply find_some in H. destruct H as [Hin He].
  apply str_eqb_eq in He. split; [assumption|symmetry; assumption].
Qed.

Lemma find_name_none {A} (name : A -> str) (l : list A) k :
  find (fun y => str_eqb k (name y)) l = None <-> ~ In k (map name l).
Proof.
  induction l as [|y l IH]; simpl; [tauto|].
  destruct (str_eqb_spec k (name y)) as [->|Hn].
  - split; [discriminate|]. intros H; exfalso; apply H; left; reflexivity.
  - rewrite IH. split; intros H; [intros [Hc|Hc]; [congruence|tauto]|tauto].
Qed.

Lemma dedup_In x l : In x (dedup l) -> In x l.
Proof.
  revert x; induction l as [|y l IH]; simpl; intros x; [tauto|].
  intros [->|H]; [left; reflexivity|].
  apply filter_In in H. right; apply IH; tauto.
Qed.

Lemma In_dedup x l : In x l -> In x (dedup l).
Proof.
  revert x; induction l as [|y l IH]; simpl; intros x; [tauto|].
  intros [->|H]; [left; reflexivity|].
  destruct (str_eqb_spec x y) as [->|Hn]; [left; reflexivity|].
  right. apply filter_In. split; [apply IH; exact H|].
  apply negb_true_iff. apply str_eqb_neq; exact Hn.
Qed.

Lemma find_perm {A} (name : A -> str) (l l' : list A) k :
  NoDup (map name l) -> Permutation l l' ->
  find (fun y => str_eqb k (name y)) l = find (fun y => str_eqb k (name y)) l'.
Proof.
  intros Hnd Hp.
  assert (Hnd' : NoDup (map name l')).
  { eapply Permutation_NoDup; [|exact Hnd]. apply Permutation_map; exact Hp. }
  destruct (find (fun y => str_eqb k (name y)) l) as [x|] eqn:E.
  - apply find_name_some in E. destruct E as [Hin <-].
    symmetry. apply find_unique; [assumption|]. eapply Permutation_in; eassumption.
  - symmetry. apply find_name_none. apply find_name_none in E.
    intros Hc. apply E. eapply Permutation_in; [|exact Hc].
    apply Permutation_map. apply Permutation_sym; exact Hp.
Qed.

Lemma perm_flat_map_ext {A B} (f g : A -> list B) l l' :
  (forall x, f x = g x) -> Permutation l l' -> Permutation (flat_map f l) (flat_map g l').
Proof.
  intros He Hp. rewrite (flat_map_ext f g He). apply Permutation_flat_map; exact Hp.
Qed.


Lemma flat_map_nil_inv {A B} (f : A -> list B) l :
  flat_map f l = [] -> forall x, In x l -> f x = [].
Proof.
  induction l as [|y l IH]; simpl; intros H x Hx; [destruct Hx|].
  apply app_eq_nil in H. destruct H as [H1 H2]. destruct Hx as [->|Hx]; auto.
Qed.

Lemma find_name_iff {A} (name : A -> str) (l : list A) k x :
  NoDup (map name l) ->
  (find (fun y => str_eqb k (name y)) l = Some x <-> In x l /\ name x = k).
Proof.
  intros Hnd. split; [apply find_name_some|]. intros [Hin <-]. apply find_unique; assumption.
Qed.
