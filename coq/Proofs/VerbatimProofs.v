(* C02: a numeric token carries exactly the digits written in the source. *)
From PyGql Require Import Lang.Lexer Spec.LexSpec Proofs.LexProofs Proofs.LexTotal.
Local Open Scope N_scope.

Lemma firstn_exact {A} (l r : list A) : firstn (length l) (l ++ r) = l.
Proof. induction l as [|a l IH]; simpl; [reflexivity|]. rewrite IH. reflexivity. Qed.

Lemma symbol_kind_not_number c k : symbol_kind c = Some k -> k <> KInt /\ k <> KFloat.
Proof.
  unfold symbol_kind.
  repeat match goal with
         | |- (if ?b then _ else _) = _ -> _ => destruct b; [intros H; inversion H; split; discriminate|]
         end. discriminate.
Qed.

Theorem number_token_verbatim rest pos t r' :
  next_token rest pos = Ok (t, r') -> tk t = KInt \/ tk t = KFloat ->
  rest = tval t ++ r' /\ tstart t = pos /\ tend t = (pos + length (tval t))%nat /\
  (tk t = KInt -> IntValue (tval t)) /\ (tk t = KFloat -> FloatValue (tval t)) /\
  follow_impl (match tk t with KFloat => true | _ => false end) r'.
Proof.
  unfold next_token. destruct rest as [|c r].
  { intros H; inversion H; subst. simpl. intros [?|?]; discriminate. }
  destruct (negb (is_printable c)); [discriminate|].
  destruct (symbol_kind c) as [k|] eqn:Es.
  { intros H; inversion H; subst. simpl. apply symbol_kind_not_number in Es. intros [?|?]; tauto. }
  destruct (c =? 46).
  { unfold read_ellipsis. destruct r as [|c2 [|c3 r3]]; simpl;
      repeat match goal with |- context [negb (?x =? 46)] => destruct (x =? 46); simpl end;
      try discriminate.
    intros H; inversion H; subst. simpl. intros [?|?]; discriminate. }
  destruct (starts_3q (c :: r)).
  { destruct (read_block (skipn 3 (c :: r)) (pos + 3) []) as [[[raw r0] e]| | |]; simpl; try discriminate.
    intros H; inversion H; subst. simpl. intros [?|?]; discriminate. }
  destruct (c =? 34).
  { destruct (read_string r (S pos) []) as [[[v r0] e]| | |]; simpl; try discriminate.
    intros H; inversion H; subst. simpl. intros [?|?]; discriminate. }
  destruct ((c =? 45) || is_digit c).
  { destruct (read_number (c :: r) pos) as [[[fl r0] e]| | |] eqn:E; simpl; try discriminate.
    intros H; inversion H; subst. simpl. intros _.
    destruct (read_number_sound _ _ _ _ _ E) as (lexeme & Hl & -> & Hi & Hf & Hfo).
    replace (pos + length lexeme - pos)%nat with (length lexeme) by lia.
    rewrite Hl, firstn_exact. repeat split; auto.
    - destruct fl; [discriminate|auto].
    - destruct fl; [auto|discriminate].
    - destruct fl; exact Hfo. }
  destruct (is_name_start c); [|discriminate].
  destruct (span is_name_cont (c :: r)) as [nm r0].
  intros H; inversion H; subst. simpl. intros [?|?]; discriminate.
Qed.
