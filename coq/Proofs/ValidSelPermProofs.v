(* Invariance of the specification forms (and, transported, of the rules with
   a proved specification form) under reordering of the selections of every
   selection set and of the arguments of every field and directive. *)
From PyGql Require Import Valid.ValidOverlap Spec.ValidSpec Proofs.ValidCloseProofs
     Proofs.ValidGraphProofs Proofs.ValidVarProofs Proofs.ValidPermProofs.
From Coq Require Import Lia Permutation.

Inductive dir_perm : directive -> directive -> Prop :=
| dp_intro n args args' l : Permutation args args' -> dir_perm (Dir n args l) (Dir n args' l).

(* the same selection up to the order of arguments, of directive arguments
   and of the selections inside every selection set, at every depth *)
Inductive sel_perm : selection -> selection -> Prop :=
| sp_field alias n args args' dirs dirs' sl sub sub' sub'' l :
    Permutation args args' -> Forall2 dir_perm dirs dirs' ->
    Forall2 sel_perm sub sub' -> Permutation sub' sub'' ->
    sel_perm (SField alias n args dirs sl sub l) (SField alias n args' dirs' sl sub'' l)
| sp_spread n dirs dirs' l :
    Forall2 dir_perm dirs dirs' -> sel_perm (SSpread n dirs l) (SSpread n dirs' l)
| sp_inline tc dirs dirs' ssl sub sub' sub'' l :
    Forall2 dir_perm dirs dirs' -> Forall2 sel_perm sub sub' -> Permutation sub' sub'' ->
    sel_perm (SInline tc dirs ssl sub l) (SInline tc dirs' ssl sub'' l).

Definition sels_perm (sels sels'' : list selection) : Prop :=
  exists sels', Forall2 sel_perm sels sels' /\ Permutation sels' sels''.

Inductive def_perm : definition -> definition -> Prop :=
| dfp_op k n vds dirs dirs' ssl sels sels' l :
    Forall2 dir_perm dirs dirs' -> sels_perm sels sels' ->
    def_perm (DOperation k n vds dirs ssl sels l) (DOperation k n vds dirs' ssl sels' l)
| dfp_frag n vds tc dirs dirs' ssl sels sels' l :
    Forall2 dir_perm dirs dirs' -> sels_perm sels sels' ->
    def_perm (DFragment n vds tc dirs ssl sels l) (DFragment n vds tc dirs' ssl sels' l).

Definition doc_perm (d d' : document) : Prop := Forall2 def_perm (doc_defs d) (doc_defs d').

Lemma Forall2_In_l {A B} (R : A -> B -> Prop) l l' x :
  Forall2 R l l' -> In x l -> exists y, In y l' /\ R x y.
Proof.
  induction 1 as [|a b l l' Hab Hl IH]; [intros []|].
  intros [<-|Hx]; [exists b; split; [left; reflexivity|exact Hab]|].
  destruct (IH Hx) as [y [Hy Hr]]. exists y. split; [right; exact Hy|exact Hr].
Qed.
Lemma Forall2_In_r {A B} (R : A -> B -> Prop) l l' y :
  Forall2 R l l' -> In y l' -> exists x, In x l /\ R x y.
Proof.
  induction 1 as [|a b l l' Hab Hl IH]; [intros []|].
  intros [<-|Hy]; [exists a; split; [left; reflexivity|exact Hab]|].
  destruct (IH Hy) as [x [Hx Hr]]. exists x. split; [right; exact Hx|exact Hr].
Qed.

(* ---- variables in arguments and directives ---- *)
Lemma args_var_perm args args' x : Permutation args args' -> (args_have_var args x <-> args_have_var args' x).
Proof.
  intros Hp. unfold args_have_var. split; intros [a [Ha Hv]]; exists a; (split; [|exact Hv]).
  - eapply Permutation_in; eassumption.
  - eapply Permutation_in; [symmetry; exact Hp|exact Ha].
Qed.

Lemma dirs_var_perm dirs dirs' x : Forall2 dir_perm dirs dirs' -> (dirs_have_var dirs x <-> dirs_have_var dirs' x).
Proof.
  intros H. unfold dirs_have_var. split.
  - intros [dr [Hd Hv]]. destruct (Forall2_In_l _ _ _ _ H Hd) as [dr' [Hd' Hr]].
    exists dr'. split; [exact Hd'|]. destruct Hr as [n args args' l Hp]. simpl in *.
    apply (args_var_perm _ _ x Hp). exact Hv.
  - intros [dr' [Hd' Hv]]. destruct (Forall2_In_r _ _ _ _ H Hd') as [dr [Hd Hr]].
    exists dr. split; [exact Hd|]. destruct Hr as [n args args' l Hp]. simpl in *.
    apply (args_var_perm _ _ x Hp). exact Hv.
Qed.

(* ---- spreads and variables of a selection ---- *)
Lemma sub_exists_perm (P : selection -> Prop) sub sub' sub'' :
  (forall y, In y sub -> forall y', sel_perm y y' -> (P y <-> P y')) ->
  Forall2 sel_perm sub sub' -> Permutation sub' sub'' ->
  ((exists y, In y sub /\ P y) <-> (exists y, In y sub'' /\ P y)).
Proof.
  intros IH HF HP. split.
  - intros [y [Hy Hpy]]. destruct (Forall2_In_l _ _ _ _ HF Hy) as [y' [Hy' Hr]].
    exists y'. split; [eapply Permutation_in; eassumption|apply (IH y Hy y' Hr); exact Hpy].
  - intros [y [Hy Hpy]].
    assert (Hy1 : In y sub') by (eapply Permutation_in; [symmetry; exact HP|exact Hy]).
    destruct (Forall2_In_r _ _ _ _ HF Hy1) as [y0 [Hy0 Hr]].
    exists y0. split; [exact Hy0|apply (IH y0 Hy0 y Hr); exact Hpy].
Qed.

Lemma spreads_field alias n args dirs sl sub l f :
  sel_spreads (SField alias n args dirs sl sub l) f <->
  (exists l0, sl = Some l0) /\ exists y, In y sub /\ sel_spreads y f.
Proof.
  split.
  - intros H. inversion H; subst. split; [eexists; reflexivity|eauto].
  - intros [[l0 ->] [y [Hy Hs]]]. eapply ss_field; eassumption.
Qed.
Lemma spreads_inline tc dirs ssl sub l f :
  sel_spreads (SInline tc dirs ssl sub l) f <-> exists y, In y sub /\ sel_spreads y f.
Proof.
  split.
  - intros H. inversion H; subst. eauto.
  - intros [y [Hy Hs]]. eapply ss_inline; eassumption.
Qed.

Lemma sel_perm_spreads f : forall x x', sel_perm x x' -> (sel_spreads x f <-> sel_spreads x' f).
Proof.
  induction x as [alias n args dirs sl sub l IH|n dirs l|tc dirs ssl sub l IH] using selection_ind';
    intros x' Hp; inversion Hp; subst.
  - rewrite Forall_forall in IH. rewrite !spreads_field.
    match goal with HF : Forall2 sel_perm sub ?s1, HP : Permutation ?s1 _ |- _ =>
      rewrite (sub_exists_perm (fun y => sel_spreads y f) _ _ _ IH HF HP) end. tauto.
  - split; intros H; inversion H; subst; constructor.
  - rewrite Forall_forall in IH. rewrite !spreads_inline.
    match goal with HF : Forall2 sel_perm sub ?s1, HP : Permutation ?s1 _ |- _ =>
      rewrite (sub_exists_perm (fun y => sel_spreads y f) _ _ _ IH HF HP) end. tauto.
Qed.

Lemma has_var_field alias n args dirs sl sub l x :
  sel_has_var (SField alias n args dirs sl sub l) x <->
  args_have_var args x \/ dirs_have_var dirs x \/
  ((exists l0, sl = Some l0) /\ exists y, In y sub /\ sel_has_var y x).
Proof.
  split.
  - intros H. inversion H; subst; [tauto|tauto|]. right. right. split; [eexists; reflexivity|eauto].
  - intros [H|[H|[[l0 ->] [y [Hy Hs]]]]];
      [apply sv_field_args; exact H|apply sv_field_dirs; exact H|eapply sv_field_sub; eassumption].
Qed.
Lemma has_var_spread n dirs l x : sel_has_var (SSpread n dirs l) x <-> dirs_have_var dirs x.
Proof. split; [intros H; inversion H; assumption|intros H; constructor; exact H]. Qed.
Lemma has_var_inline tc dirs ssl sub l x :
  sel_has_var (SInline tc dirs ssl sub l) x <->
  dirs_have_var dirs x \/ exists y, In y sub /\ sel_has_var y x.
Proof.
  split.
  - intros H. inversion H; subst; [tauto|]. right. eauto.
  - intros [H|[y [Hy Hs]]]; [apply sv_inline_dirs; exact H|eapply sv_inline_sub; eassumption].
Qed.

Lemma sel_perm_vars v : forall x x', sel_perm x x' -> (sel_has_var x v <-> sel_has_var x' v).
Proof.
  induction x as [alias n args dirs sl sub l IH|n dirs l|tc dirs ssl sub l IH] using selection_ind';
    intros x' Hp; inversion Hp; subst.
  - rewrite Forall_forall in IH. rewrite !has_var_field.
    match goal with HF : Forall2 sel_perm sub ?s1, HP : Permutation ?s1 _,
                    HA : Permutation args _, HD : Forall2 dir_perm dirs _ |- _ =>
      rewrite (sub_exists_perm (fun y => sel_has_var y v) _ _ _ IH HF HP),
              (args_var_perm _ _ v HA), (dirs_var_perm _ _ v HD) end. tauto.
  - rewrite !has_var_spread.
    match goal with HD : Forall2 dir_perm dirs _ |- _ => rewrite (dirs_var_perm _ _ v HD) end. tauto.
  - rewrite Forall_forall in IH. rewrite !has_var_inline.
    match goal with HF : Forall2 sel_perm sub ?s1, HP : Permutation ?s1 _, HD : Forall2 dir_perm dirs _ |- _ =>
      rewrite (sub_exists_perm (fun y => sel_has_var y v) _ _ _ IH HF HP), (dirs_var_perm _ _ v HD) end. tauto.
Qed.

Lemma sels_perm_spread sels sels' f : sels_perm sels sels' -> (sels_spread sels f <-> sels_spread sels' f).
Proof.
  intros [s1 [HF HP]]. unfold sels_spread.
  apply (sub_exists_perm (fun y => sel_spreads y f) sels s1 sels'); [|exact HF|exact HP].
  intros y _ y' Hr. apply sel_perm_spreads. exact Hr.
Qed.
Lemma sels_perm_vars sels sels' v :
  sels_perm sels sels' -> ((exists y, In y sels /\ sel_has_var y v) <-> (exists y, In y sels' /\ sel_has_var y v)).
Proof.
  intros [s1 [HF HP]].
  apply (sub_exists_perm (fun y => sel_has_var y v) sels s1 sels'); [|exact HF|exact HP].
  intros y _ y' Hr. apply sel_perm_vars. exact Hr.
Qed.

(* ---- definitions ---- *)
Lemma def_perm_facts df df' :
  def_perm df df' ->
  frag_name df = frag_name df' /\ op_key df = op_key df' /\ op_vardefs df = op_vardefs df' /\
  (is_operation df <-> is_operation df') /\
  (forall f, fragment_named df f <-> fragment_named df' f) /\
  (forall f, sels_spread (def_sels df) f <-> sels_spread (def_sels df') f) /\
  (forall v, def_has_var df v <-> def_has_var df' v) /\
  (forall v, op_defines df v <-> op_defines df' v).
Proof.
  intros H. destruct H as [k n vds dirs dirs' ssl sels sels' l HD HS|n vds tc dirs dirs' ssl sels sels' l HD HS];
    simpl.
  - split; [reflexivity|]. split; [reflexivity|]. split; [reflexivity|]. split; [tauto|].
    split; [intros f; tauto|]. split; [intros f; apply sels_perm_spread; exact HS|].
    split; [|intros v; tauto].
    intros v. unfold def_has_var. simpl. rewrite (dirs_var_perm _ _ v HD), (sels_perm_vars _ _ v HS). tauto.
  - split; [reflexivity|]. split; [reflexivity|]. split; [reflexivity|]. split; [tauto|].
    split; [intros f; tauto|]. split; [intros f; apply sels_perm_spread; exact HS|].
    split; [|intros v; tauto].
    intros v. unfold def_has_var. simpl. rewrite (dirs_var_perm _ _ v HD), (sels_perm_vars _ _ v HS). tauto.
Qed.

Lemma doc_perm_names d d' : doc_perm d d' -> frag_names d = frag_names d' /\ op_key_list d = op_key_list d'.
Proof.
  unfold doc_perm, frag_names, op_key_list. induction 1 as [|a b l l' Hab Hl [IH1 IH2]]; [split; reflexivity|].
  destruct (def_perm_facts _ _ Hab) as (Hn & Hk & _). simpl. unfold key_of at 1 3. rewrite Hn, Hk, IH1, IH2.
  split; reflexivity.
Qed.

Section DocPerm.
  Variables d d' : document.
  Hypothesis Hdp : doc_perm d d'.

  Lemma frag_edge_perm f x : frag_edge d f x <-> frag_edge d' f x.
  Proof.
    split.
    - intros [df [Hdf [Hn Hs]]]. destruct (Forall2_In_l _ _ _ _ Hdp Hdf) as [df' [Hdf' Hr]].
      destruct (def_perm_facts _ _ Hr) as (_ & _ & _ & _ & Hfn & Hsp & _).
      exists df'. split; [exact Hdf'|]. split; [apply Hfn; exact Hn|apply Hsp; exact Hs].
    - intros [df' [Hdf' [Hn Hs]]]. destruct (Forall2_In_r _ _ _ _ Hdp Hdf') as [df [Hdf Hr]].
      destruct (def_perm_facts _ _ Hr) as (_ & _ & _ & _ & Hfn & Hsp & _).
      exists df. split; [exact Hdf|]. split; [apply Hfn; exact Hn|apply Hsp; exact Hs].
  Qed.

  Lemma walk_perm f x : walk d f x <-> walk d' f x.
  Proof.
    split; intros Hw; induction Hw as [f x He|f y x Hw IH He].
    - apply walk_one. apply frag_edge_perm. exact He.
    - eapply walk_step; [exact IH|apply frag_edge_perm; exact He].
    - apply walk_one. apply frag_edge_perm. exact He.
    - eapply walk_step; [exact IH|apply frag_edge_perm; exact He].
  Qed.

  Lemma has_cycle_perm : has_cycle d <-> has_cycle d'.
  Proof. split; intros [f Hw]; exists f; apply walk_perm; exact Hw. Qed.

  Lemma frag_reach_perm sels sels' f : sels_perm sels sels' -> (frag_reach d sels f <-> frag_reach d' sels' f).
  Proof.
    intros HS. split; intros Hr; induction Hr as [x Hx|y x Hy IH He].
    - apply fr_direct. apply (sels_perm_spread _ _ _ HS). exact Hx.
    - eapply fr_step; [exact IH|apply frag_edge_perm; exact He].
    - apply fr_direct. apply (sels_perm_spread _ _ _ HS). exact Hx.
    - eapply fr_step; [exact IH|apply frag_edge_perm; exact He].
  Qed.

  Lemma def_sels_perm df df' : def_perm df df' -> sels_perm (def_sels df) (def_sels df').
  Proof. intros H. destruct H; simpl; assumption. Qed.

  Lemma op_uses_var_perm op op' v : def_perm op op' -> (op_uses_var d op v <-> op_uses_var d' op' v).
  Proof.
    intros Hr. destruct (def_perm_facts _ _ Hr) as (_ & _ & _ & _ & _ & _ & Hv & _).
    pose proof (def_sels_perm _ _ Hr) as HS. unfold op_uses_var. rewrite (Hv v). split.
    - intros [H|[f [df [Hfr [Hdf [Hn Hdv]]]]]]; [left; exact H|right].
      destruct (Forall2_In_l _ _ _ _ Hdp Hdf) as [df' [Hdf' Hr']].
      destruct (def_perm_facts _ _ Hr') as (_ & _ & _ & _ & Hfn & _ & Hv' & _).
      exists f, df'. split; [apply (frag_reach_perm _ _ f HS); exact Hfr|].
      split; [exact Hdf'|]. split; [apply Hfn; exact Hn|apply Hv'; exact Hdv].
    - intros [H|[f [df' [Hfr [Hdf' [Hn Hdv]]]]]]; [left; exact H|right].
      destruct (Forall2_In_r _ _ _ _ Hdp Hdf') as [df [Hdf Hr']].
      destruct (def_perm_facts _ _ Hr') as (_ & _ & _ & _ & Hfn & _ & Hv' & _).
      exists f, df. split; [apply (frag_reach_perm _ _ f HS); exact Hfr|].
      split; [exact Hdf|]. split; [apply Hfn; exact Hn|apply Hv'; exact Hdv].
  Qed.

  Lemma spec_undefined_perm : spec_no_undefined_variables d <-> spec_no_undefined_variables d'.
  Proof.
    split; intros Hs op x Hop Hisop Hu.
    - destruct (Forall2_In_r _ _ _ _ Hdp Hop) as [op0 [Hop0 Hr]].
      destruct (def_perm_facts _ _ Hr) as (_ & _ & _ & Hio & _ & _ & _ & Hod).
      apply Hod. apply (Hs op0 x Hop0); [apply Hio; exact Hisop|apply (op_uses_var_perm _ _ x Hr); exact Hu].
    - destruct (Forall2_In_l _ _ _ _ Hdp Hop) as [op' [Hop' Hr]].
      destruct (def_perm_facts _ _ Hr) as (_ & _ & _ & Hio & _ & _ & _ & Hod).
      apply Hod. apply (Hs op' x Hop'); [apply Hio; exact Hisop|apply (op_uses_var_perm _ _ x Hr); exact Hu].
  Qed.

  Lemma spec_unused_perm : spec_no_unused_variables d <-> spec_no_unused_variables d'.
  Proof.
    split; intros Hs op x Hop Hisop Hd.
    - destruct (Forall2_In_r _ _ _ _ Hdp Hop) as [op0 [Hop0 Hr]].
      destruct (def_perm_facts _ _ Hr) as (_ & _ & _ & Hio & _ & _ & _ & Hod).
      apply (op_uses_var_perm _ _ x Hr). apply (Hs op0 x Hop0); [apply Hio; exact Hisop|apply Hod; exact Hd].
    - destruct (Forall2_In_l _ _ _ _ Hdp Hop) as [op' [Hop' Hr]].
      destruct (def_perm_facts _ _ Hr) as (_ & _ & _ & Hio & _ & _ & _ & Hod).
      apply (op_uses_var_perm _ _ x Hr). apply (Hs op' x Hop'); [apply Hio; exact Hisop|apply Hod; exact Hd].
  Qed.

  Lemma defined_fragment_perm f : defined_fragment d f <-> defined_fragment d' f.
  Proof.
    split.
    - intros [df [Hdf Hn]]. destruct (Forall2_In_l _ _ _ _ Hdp Hdf) as [df' [Hdf' Hr]].
      destruct (def_perm_facts _ _ Hr) as (_ & _ & _ & _ & Hfn & _). exists df'. split; [exact Hdf'|apply Hfn; exact Hn].
    - intros [df' [Hdf' Hn]]. destruct (Forall2_In_r _ _ _ _ Hdp Hdf') as [df [Hdf Hr]].
      destruct (def_perm_facts _ _ Hr) as (_ & _ & _ & _ & Hfn & _). exists df. split; [exact Hdf|apply Hfn; exact Hn].
  Qed.

  Lemma spec_known_perm : spec_known_fragment_names d <-> spec_known_fragment_names d'.
  Proof.
    split; intros Hs df x Hdf Hsp.
    - destruct (Forall2_In_r _ _ _ _ Hdp Hdf) as [df0 [Hdf0 Hr]].
      destruct (def_perm_facts _ _ Hr) as (_ & _ & _ & _ & _ & Hspr & _).
      apply defined_fragment_perm. apply (Hs df0 x Hdf0). apply Hspr. exact Hsp.
    - destruct (Forall2_In_l _ _ _ _ Hdp Hdf) as [df' [Hdf' Hr]].
      destruct (def_perm_facts _ _ Hr) as (_ & _ & _ & _ & _ & Hspr & _).
      apply defined_fragment_perm. apply (Hs df' x Hdf'). apply Hspr. exact Hsp.
  Qed.
End DocPerm.

Theorem perm_selections_arguments s d d' :
  doc_perm d d' -> NoDup (frag_names d) -> NoDup (op_key_list d) ->
  (r14_no_fragment_cycles s d = Ok [] <-> r14_no_fragment_cycles s d' = Ok []) /\
  (r16_no_undefined_variables s d = Ok [] <-> r16_no_undefined_variables s d' = Ok []) /\
  (r17_no_unused_variables s d = Ok [] <-> r17_no_unused_variables s d' = Ok []) /\
  (r11_known_fragment_names s d = [] <-> r11_known_fragment_names s d' = []).
Proof.
  intros Hdp Hf Hk. destruct (doc_perm_names _ _ Hdp) as [Hfn Hkl].
  assert (Hf' : NoDup (frag_names d')) by (rewrite <- Hfn; exact Hf).
  assert (Hk' : NoDup (op_key_list d')) by (rewrite <- Hkl; exact Hk).
  split; [|split; [|split]].
  - rewrite (r14_equiv s d Hf), (r14_equiv s d' Hf'), (has_cycle_perm d d' Hdp). tauto.
  - rewrite (r16_equiv s d Hk), (r16_equiv s d' Hk'). apply spec_undefined_perm. exact Hdp.
  - rewrite (r17_equiv s d Hk), (r17_equiv s d' Hk'). apply spec_unused_perm. exact Hdp.
  - rewrite (r11_equiv s d), (r11_equiv s d'). apply spec_known_perm. exact Hdp.
Qed.
