(* C14 -- proofs about the store model, part 2: the reference-healing pass
   and its loop (C14_heal_closed). *)
From PyGql Require Import Spec.StoreSpec Proofs.StoreProofs.
Local Open Scope N_scope.

(* ----------------------------------------------------------------- memory *)
Lemma mget_write m o v o' : mget (write m o v) o' = if N.eqb o' o then Some v else mget m o'.
Proof. reflexivity. Qed.
Lemma mget_alloc m v o' :
  mget (fst (alloc m v)) o' = if N.eqb o' (m_next m) then Some v else mget m o'.
Proof. reflexivity. Qed.

Lemma fresh_write m o v w : fresh_ok m -> mget m o = Some w -> fresh_ok (write m o v).
Proof.
  intros Hf Hg o' Hle. rewrite mget_write. destruct (N.eqb_spec o' o) as [->|Hne].
  - simpl in Hle. rewrite (Hf o Hle) in Hg. discriminate.
  - apply Hf. exact Hle.
Qed.
Lemma fresh_alloc m v : fresh_ok m -> fresh_ok (fst (alloc m v)).
Proof.
  intros Hf o' Hle. rewrite mget_alloc. simpl in Hle.
  destruct (N.eqb_spec o' (m_next m)) as [->|Hne]; [lia|]. apply Hf. lia.
Qed.

(* ------------------------------------------- memory extension by healing *)
Section Heal.
Variable tm : list (str * oid).

(* two type objects carry the same name *)
Definition same_name (m' : mem) (o o' : oid) : Prop :=
  exists nm, tname m' o = Some nm /\ tname m' o' = Some nm.
(* the healed reference ty' is registered, has the wrappers of ty and names
   the type ty named *)
Definition rkept (m' : mem) (ty ty' : tref) : Prop :=
  reg m' tm (unwrap ty') /\ ref_wrappers ty' = ref_wrappers ty /\ same_name m' (unwrap ty) (unwrap ty').
(* l' is obtained from l by dropping some types and replacing each of the
   others by a type with the same name; the order is kept *)
Inductive isub (m' : mem) : list oid -> list oid -> Prop :=
| is_nil : isub m' [] []
| is_drop i l' l : isub m' l' l -> isub m' l' (i :: l)
| is_keep i' i l' l : same_name m' i i' -> isub m' l' l -> isub m' (i' :: l') (i :: l).
Definition ikept (m' : mem) (ifs ifs' : list oid) : Prop := Forall (reg m' tm) ifs' /\ isub m' ifs' ifs.

Definition heal_rel (m' : mem) (v v' : obj) : Prop :=
  match v, v' with
  | OType n k d ms ifs r ds, OType n' k' d' ms' ifs' r' ds' =>
      n' = n /\ k' = k /\ ms' = ms /\ (ifs' = ifs \/ ikept m' ifs ifs') /\
      d' = d /\ r' = r /\ ds' = ds
  | OField n py ty args d dp r sb ds, OField n' py' ty' args' d' dp' r' sb' ds' =>
      args' = args /\ (ty' = ty \/ rkept m' ty ty') /\
      n' = n /\ py' = py /\ d' = d /\ dp' = dp /\ r' = r /\ sb' = sb /\ ds' = ds
  | OInput a n py ty df d ds, OInput a' n' py' ty' df' d' ds' =>
      (ty' = ty \/ rkept m' ty ty') /\
      a' = a /\ n' = n /\ py' = py /\ df' = df /\ d' = d /\ ds' = ds
  | OEnumV _ _ _ _ _, OEnumV _ _ _ _ _ => v' = v
  | ODir _ _ _ _, ODir _ _ _ _ => v' = v
  | _, _ => False
  end.

Definition ext (m m' : mem) : Prop :=
  m_next m <= m_next m' /\
  forall o v, mget m o = Some v -> exists v', mget m' o = Some v' /\ heal_rel m' v v'.

Lemma heal_rel_refl m v : heal_rel m v v.
Proof. destruct v; simpl; repeat split; auto. Qed.

Lemma ext_refl m : ext m m.
Proof. split; [lia|]. intros o v H. exists v. split; [assumption|apply heal_rel_refl]. Qed.

Lemma ext_tname m m' o n : ext m m' -> tname m o = Some n -> tname m' o = Some n.
Proof.
  intros He Ht. unfold tname in *. destruct (mget m o) as [v|] eqn:Hg; [|discriminate].
  destruct (proj2 He o v Hg) as (v' & Hg' & Hr). rewrite Hg'.
  destruct v; try discriminate. destruct v'; simpl in Hr; try contradiction.
  destruct Hr as (-> & _). exact Ht.
Qed.

Lemma reg_ext m m' o : ext m m' -> reg m tm o -> reg m' tm o.
Proof. intros He (n & Hn & Hl). exists n. split; [eapply ext_tname; eauto|assumption]. Qed.

Lemma Forall_reg_ext m m' l : ext m m' -> Forall (reg m tm) l -> Forall (reg m' tm) l.
Proof. intros He. apply Forall_impl. intros a. apply reg_ext. exact He. Qed.

Lemma same_name_ext m m' o o' : ext m m' -> same_name m o o' -> same_name m' o o'.
Proof. intros He (nm & A & B). exists nm. split; eapply ext_tname; eauto. Qed.
Lemma same_name_trans m a b c : same_name m a b -> same_name m b c -> same_name m a c.
Proof. intros (n1 & A & B) (n2 & C & D). exists n1. split; [assumption|]. congruence. Qed.
Lemma rkept_ext m m' ty ty' : ext m m' -> rkept m ty ty' -> rkept m' ty ty'.
Proof. intros He (A & B & C). split; [eapply reg_ext; eauto|]. split; [assumption|eapply same_name_ext; eauto]. Qed.
Lemma rkept_trans m ty ty' ty'' : rkept m ty ty' -> rkept m ty' ty'' -> rkept m ty ty''.
Proof.
  intros (A & B & C) (D & E & F). split; [assumption|]. split; [congruence|eapply same_name_trans; eauto].
Qed.
Lemma isub_ext m m' l' l : ext m m' -> isub m l' l -> isub m' l' l.
Proof.
  intros He. induction 1 as [|i l' l H IH|i' i l' l Hs H IH]; [apply is_nil|apply is_drop; assumption|].
  apply is_keep; [eapply same_name_ext; eauto|assumption].
Qed.
Lemma isub_trans m : forall l'' l' l, isub m l' l -> isub m l'' l' -> isub m l'' l.
Proof.
  intros l'' l' l H. revert l''. induction H as [|i l' l H IH|i' i l' l Hs H IH]; intros l'' H2.
  - exact H2.
  - apply is_drop. apply IH. exact H2.
  - inversion H2; subst.
    + apply is_drop. apply IH. assumption.
    + apply is_keep; [eapply same_name_trans; eauto|apply IH; assumption].
Qed.
Lemma ikept_ext m m' l l' : ext m m' -> ikept m l l' -> ikept m' l l'.
Proof. intros He [A B]. split; [eapply Forall_reg_ext; eauto|eapply isub_ext; eauto]. Qed.

Lemma heal_rel_trans m' m'' v v' v'' :
  ext m' m'' -> heal_rel m' v v' -> heal_rel m'' v' v'' -> heal_rel m'' v v''.
Proof.
  intros He H1 H2. destruct v, v'; simpl in H1; try contradiction; destruct v''; simpl in H2; try contradiction; simpl.
  - destruct H1 as (-> & -> & -> & H1 & -> & -> & ->). destruct H2 as (-> & -> & -> & H2 & -> & -> & ->).
    repeat split; auto. destruct H2 as [->|H2].
    + destruct H1 as [->|H1]; [left; reflexivity|right; eapply ikept_ext; eauto].
    + destruct H1 as [->|H1]; [right; assumption|]. right.
      split; [exact (proj1 H2)|]. eapply isub_trans; [eapply isub_ext; [exact He|exact (proj2 H1)]|exact (proj2 H2)].
  - destruct H1 as (-> & H1 & -> & -> & -> & -> & -> & -> & ->).
    destruct H2 as (-> & H2 & -> & -> & -> & -> & -> & -> & ->). repeat split; auto.
    destruct H2 as [->|H2].
    + destruct H1 as [->|H1]; [left; reflexivity|right; eapply rkept_ext; eauto].
    + destruct H1 as [->|H1]; [right; assumption|]. right. eapply rkept_trans; [eapply rkept_ext; eauto|exact H2].
  - destruct H1 as (H1 & -> & -> & -> & -> & -> & ->). destruct H2 as (H2 & -> & -> & -> & -> & -> & ->).
    repeat split; auto. destruct H2 as [->|H2].
    + destruct H1 as [->|H1]; [left; reflexivity|right; eapply rkept_ext; eauto].
    + destruct H1 as [->|H1]; [right; assumption|]. right. eapply rkept_trans; [eapply rkept_ext; eauto|exact H2].
  - congruence.
  - congruence.
Qed.

Lemma ext_trans m m' m'' : ext m m' -> ext m' m'' -> ext m m''.
Proof.
  intros H1 H2. split; [destruct H1, H2; lia|]. intros o v Hg. destruct (proj2 H1 o v Hg) as (v' & Hg' & Hr').
  destruct (proj2 H2 o v' Hg') as (v'' & Hg'' & Hr''). exists v''. split; [assumption|].
  eapply heal_rel_trans; eauto.
Qed.

Lemma ext_alloc m v : fresh_ok m -> ext m (fst (alloc m v)).
Proof.
  intros Hf. split; [simpl; lia|]. intros o w Hg. exists w. rewrite mget_alloc.
  destruct (N.eqb_spec o (m_next m)) as [->|Hne].
  - rewrite (Hf (m_next m)) in Hg; [discriminate|lia].
  - split; [assumption|apply heal_rel_refl].
Qed.

(* a write that keeps the name of a type object keeps every [tname] *)
Definition keeps_tname (v v' : obj) : Prop :=
  match v, v' with
  | OType n _ _ _ _ _ _, OType n' _ _ _ _ _ _ => n' = n
  | OType _ _ _ _ _ _ _, _ => False
  | _, OType _ _ _ _ _ _ _ => False
  | _, _ => True
  end.

Lemma tname_write m o v v' x n :
  mget m o = Some v -> keeps_tname v v' -> tname m x = Some n -> tname (write m o v') x = Some n.
Proof.
  intros Hg Hk Ht. unfold tname in *. rewrite mget_write.
  destruct (N.eqb_spec x o) as [->|Hne]; [|exact Ht].
  rewrite Hg in Ht. destruct v; try discriminate. destruct v'; simpl in Hk; try contradiction.
  subst. exact Ht.
Qed.

Lemma reg_write m o v v' x :
  mget m o = Some v -> keeps_tname v v' -> reg m tm x -> reg (write m o v') tm x.
Proof. intros Hg Hk (n & Hn & Hl). exists n. split; [eapply tname_write; eauto|assumption]. Qed.

(* [ext] for one write: it suffices that the new object is heal-related to the
   old one, judged in the memory after the write *)
Lemma ext_write m o v v' :
  mget m o = Some v -> heal_rel (write m o v') v v' -> ext m (write m o v').
Proof.
  intros Hg Hr. split; [simpl; lia|]. intros x w Hx. rewrite mget_write. destruct (N.eqb_spec x o) as [->|Hne].
  - rewrite Hg in Hx. inversion Hx; subst w. exists v'. split; [reflexivity|assumption].
  - exists w. split; [assumption|apply heal_rel_refl].
Qed.

(* ------------------------------------------------------------- goodness *)
(* own type reference of a member object is registered *)
Definition own_good (m : mem) (x : oid) : Prop :=
  match mget m x with
  | Some (OField _ _ ty _ _ _ _ _ _) | Some (OInput _ _ _ ty _ _ _) => reg m tm (unwrap ty)
  | _ => False
  end.
Definition args_of (m : mem) (x : oid) : list oid :=
  match mget m x with Some (OField _ _ _ args _ _ _ _ _) => args | _ => [] end.
Definition member_good (m : mem) (x : oid) : Prop :=
  own_good m x /\ Forall (own_good m) (args_of m x).
Definition type_good (m : mem) (t : oid) : Prop :=
  match mget m t with
  | Some (OType _ k _ ms ifs _ _) =>
      match k with
      | Kobject => Forall (member_good m) ms /\ Forall (reg m tm) ifs
      | Kinterface => Forall (member_good m) ms
      | Kinput => Forall (own_good m) ms
      | Kunion => Forall (reg m tm) ifs
      | _ => True
      end
  | _ => False
  end.
Definition dir_good (m : mem) (d : oid) : Prop :=
  match mget m d with Some (ODir _ _ _ args) => Forall (own_good m) args | _ => False end.

Lemma own_good_ext m m' x : ext m m' -> own_good m x -> own_good m' x.
Proof.
  intros He H. unfold own_good in *. destruct (mget m x) as [v|] eqn:Hg; [|contradiction].
  destruct (proj2 He x v Hg) as (v' & Hg' & Hr). rewrite Hg'.
  destruct v; try contradiction; destruct v'; simpl in Hr; try contradiction.
  - destruct Hr as (_ & [->|[Hr _]] & _); [eapply reg_ext; eauto|assumption].
  - destruct Hr as ([->|[Hr _]] & _); [eapply reg_ext; eauto|assumption].
Qed.

Lemma args_of_ext m m' x v : ext m m' -> mget m x = Some v -> args_of m' x = args_of m x.
Proof.
  intros He Hg. unfold args_of. destruct (proj2 He x v Hg) as (v' & Hg' & Hr). rewrite Hg, Hg'.
  destruct v; destruct v'; simpl in Hr; try contradiction; try reflexivity.
  destruct Hr as (-> & _). reflexivity.
Qed.

Lemma member_good_ext m m' x : ext m m' -> member_good m x -> member_good m' x.
Proof.
  intros He [H1 H2]. split; [eapply own_good_ext; eauto|].
  assert (Hx : exists v, mget m x = Some v).
  { unfold own_good in H1. destruct (mget m x) as [v|]; [exists v; reflexivity|contradiction]. }
  destruct Hx as (v & Hv). rewrite (args_of_ext m m' x v He Hv).
  eapply Forall_impl; [|exact H2]. intros a. apply own_good_ext. exact He.
Qed.

Lemma type_good_ext m m' t : ext m m' -> type_good m t -> type_good m' t.
Proof.
  intros He H. unfold type_good in *. destruct (mget m t) as [v|] eqn:Hg; [|contradiction].
  destruct (proj2 He t v Hg) as (v' & Hg' & Hr). rewrite Hg'.
  destruct v; try contradiction. destruct v'; simpl in Hr; try contradiction.
  destruct Hr as (-> & -> & -> & Hr & _).
  assert (Hm : forall l, Forall (member_good m) l -> Forall (member_good m') l).
  { intros l. apply Forall_impl. intros a. apply member_good_ext. exact He. }
  assert (Hi : Forall (reg m tm) ifaces -> Forall (reg m' tm) ifaces0).
  { intros Hf. destruct Hr as [->|[Hr _]]; [eapply Forall_reg_ext; eauto|assumption]. }
  assert (Ho : forall l, Forall (own_good m) l -> Forall (own_good m') l).
  { intros l. apply Forall_impl. intros a. apply own_good_ext. exact He. }
  destruct k; auto.
  - destruct H; split; auto.
Qed.

Lemma dir_good_ext m m' d : ext m m' -> dir_good m d -> dir_good m' d.
Proof.
  intros He H. unfold dir_good in *. destruct (mget m d) as [v|] eqn:Hg; [|contradiction].
  destruct (proj2 He d v Hg) as (v' & Hg' & Hr). rewrite Hg'.
  destruct v; try contradiction. destruct v'; simpl in Hr; try contradiction. inversion Hr; subst.
  eapply Forall_impl; [|exact H]. intros a. apply own_good_ext. exact He.
Qed.

(* goodness gives the declarative closedness of the Spec *)
Lemma own_good_member_type m a : own_good m a -> Forall (reg m tm) (member_type m a).
Proof.
  unfold own_good, member_type. destruct (mget m a) as [[| | | |]|]; try contradiction; intros H.
  - constructor.
  - constructor; [assumption|constructor].
Qed.

Lemma Forall_flat_map {A B} (P : B -> Prop) (f : A -> list B) (l : list A) :
  Forall (fun a => Forall P (f a)) l -> Forall P (flat_map f l).
Proof.
  induction 1; simpl; [constructor|]. apply Forall_app. split; assumption.
Qed.

Lemma member_good_field_children m x : member_good m x -> Forall (reg m tm) (field_children m x).
Proof.
  intros [H1 H2]. unfold own_good in H1. unfold args_of in H2. unfold field_children.
  destruct (mget m x) as [[| | | |]|]; try constructor; try assumption.
  apply Forall_flat_map. eapply Forall_impl; [|exact H2]. intros a. apply own_good_member_type.
Qed.

Lemma member_good_member_type m x : member_good m x -> Forall (reg m tm) (member_type m x).
Proof. intros [H1 _]. apply own_good_member_type. exact H1. Qed.

Lemma type_good_ok m t : type_good m t -> type_ok m tm t.
Proof.
  unfold type_good, type_ok, children.
  destruct (mget m t) as [[n k d ms ifs r ds| | | |]|]; try contradiction.
  destruct k; intros H; try constructor.
  - destruct H as [H1 H2]. apply Forall_app. split; [assumption|].
    apply Forall_flat_map. eapply Forall_impl; [|exact H1]. intros a. apply member_good_field_children.
  - apply Forall_flat_map. eapply Forall_impl; [|exact H]. intros a. apply member_good_field_children.
  - assumption.
  - apply Forall_flat_map. eapply Forall_impl; [|exact H]. intros a. apply own_good_member_type.
Qed.

Lemma dir_good_ok m d : dir_good m d -> dir_ok m tm d.
Proof.
  unfold dir_good, dir_ok, dir_args. destruct (mget m d) as [[| | | |n ds locs args]|]; try contradiction.
  intros H. apply Forall_flat_map. eapply Forall_impl; [|exact H]. intros a. apply own_good_member_type.
Qed.

End Heal.

(* --------------------------------------------- the healing visitor's hooks *)
Definition lookup_ok (m : mem) (tm : list (str * oid)) : Prop :=
  forall n o, alookup n tm = Some o -> tname m o = Some n.

Lemma lookup_ok_ext tm m m' : ext tm m m' -> lookup_ok m tm -> lookup_ok m' tm.
Proof. intros He Hl n o H. eapply ext_tname; eauto. Qed.

Section HealHooks.
Variable tm : list (str * oid).

(* what is carried through a pass *)
Definition inv (m : mem) : Prop := fresh_ok m /\ lookup_ok m tm.

Lemma healed_reg m r r' : lookup_ok m tm -> healed m tm r = Some r' -> reg m tm (unwrap r').
Proof.
  intros Hl. revert r'. induction r as [o|r IH|r IH]; intros r' H; simpl in H.
  - destruct (tname m o) as [n|] eqn:Hn; [|discriminate].
    destruct (alookup n tm) as [o'|] eqn:Ha; [|discriminate]. inversion H; subst r'. simpl.
    exists n. split; [apply Hl; assumption|assumption].
  - destruct (healed m tm r) as [x|]; [|discriminate]. inversion H; subst r'. simpl. apply IH; reflexivity.
  - destruct (healed m tm r) as [x|]; [|discriminate]. inversion H; subst r'. simpl. apply IH; reflexivity.
Qed.

Lemma heal_oids_reg m l : lookup_ok m tm -> Forall (reg m tm) (heal_oids m tm l).
Proof.
  intros Hl. unfold heal_oids. apply Forall_flat_map. apply Forall_forall. intros o _.
  unfold healed_oid. destruct (tname m o) as [n|] eqn:Hn; simpl; [|constructor].
  destruct (alookup n tm) as [o'|] eqn:Ha; simpl; constructor; [|constructor].
  exists n. split; [apply Hl; assumption|assumption].
Qed.

Lemma healed_kept m r r' : lookup_ok m tm -> healed m tm r = Some r' -> rkept tm m r r'.
Proof.
  intros Hl H. split; [eapply healed_reg; eauto|]. revert r' H.
  induction r as [o|r IH|r IH]; intros r' H; simpl in H.
  - destruct (tname m o) as [n|] eqn:Hn; [|discriminate].
    destruct (alookup n tm) as [o'|] eqn:Ha; [|discriminate]. inversion H; subst r'. simpl.
    split; [reflexivity|]. exists n. split; [assumption|apply Hl; assumption].
  - destruct (healed m tm r) as [x|]; [|discriminate]. inversion H; subst r'. simpl.
    destruct (IH x eq_refl) as (A & B). split; [congruence|assumption].
  - destruct (healed m tm r) as [x|]; [|discriminate]. inversion H; subst r'. simpl.
    destruct (IH x eq_refl) as (A & B). split; [congruence|assumption].
Qed.

Lemma same_name_write m o v v' a b :
  mget m o = Some v -> keeps_tname v v' -> same_name m a b -> same_name (write m o v') a b.
Proof. intros Hg Hk (nm & A & B). exists nm. split; eapply tname_write; eauto. Qed.

Lemma rkept_write m o v v' ty ty' :
  mget m o = Some v -> keeps_tname v v' -> rkept tm m ty ty' -> rkept tm (write m o v') ty ty'.
Proof.
  intros Hg Hk (A & B & C). split; [eapply reg_write; eauto|]. split; [assumption|eapply same_name_write; eauto].
Qed.

Lemma heal_oids_isub m l : lookup_ok m tm -> isub m (heal_oids m tm l) l.
Proof.
  intros Hl. induction l as [|i l IH]; simpl; [apply is_nil|].
  unfold healed_oid. destruct (tname m i) as [n|] eqn:Hn; simpl; [|apply is_drop; exact IH].
  destruct (alookup n tm) as [i'|] eqn:Ha; simpl; [|apply is_drop; exact IH].
  apply is_keep; [|exact IH]. exists n. split; [assumption|apply Hl; assumption].
Qed.

Lemma isub_write m o v v' l' l :
  mget m o = Some v -> keeps_tname v v' -> isub m l' l -> isub (write m o v') l' l.
Proof.
  intros Hg Hk. induction 1 as [|i l' l H IH|i' i l' l Hs H IH]; [apply is_nil|apply is_drop; assumption|].
  apply is_keep; [eapply same_name_write; eauto|assumption].
Qed.

Lemma heal_member_spec m x m' r :
  inv m -> heal_member tm m x = Some (m', r) ->
  inv m' /\ ext tm m m' /\ m_next m' = m_next m /\
  match r with
  | Some y => y = x /\ own_good tm m' x /\ args_of m' x = args_of m x
  | None => True
  end.
Proof.
  intros [Hf Hl] H. unfold heal_member in H.
  destruct (mget m x) as [v|] eqn:Hg; [|discriminate].
  destruct v as [|n py ty args d dp rs sb ds|a n py ty df d ds| |]; try discriminate.
  - destruct (healed m tm ty) as [ty'|] eqn:Hh.
    + inversion H; subst m' r; clear H.
      set (v' := OField n py ty' args d dp rs sb ds).
      assert (Hreg : reg (write m x v') tm (unwrap ty')).
      { eapply reg_write; eauto; [exact I|]. eapply healed_reg; eauto. }
      assert (He : ext tm m (write m x v')).
      { eapply ext_write; eauto. simpl. repeat split; auto. right.
        eapply rkept_write; [exact Hg|exact I|]. eapply healed_kept; eauto. }
      split; [split; [eapply fresh_write; eauto|eapply lookup_ok_ext; eauto]|].
      split; [exact He|]. split; [reflexivity|]. split; [reflexivity|].
      unfold own_good, args_of. rewrite mget_write, N.eqb_refl, Hg. split; [exact Hreg|reflexivity].
    + inversion H; subst m' r. split; [split; assumption|]. split; [apply ext_refl|]. split; [reflexivity|exact I].
  - destruct (healed m tm ty) as [ty'|] eqn:Hh.
    + inversion H; subst m' r; clear H.
      set (v' := OInput a n py ty' df d ds).
      assert (Hreg : reg (write m x v') tm (unwrap ty')).
      { eapply reg_write; eauto; [exact I|]. eapply healed_reg; eauto. }
      assert (He : ext tm m (write m x v')).
      { eapply ext_write; eauto. simpl. repeat split; auto. right.
        eapply rkept_write; [exact Hg|exact I|]. eapply healed_kept; eauto. }
      split; [split; [eapply fresh_write; eauto|eapply lookup_ok_ext; eauto]|].
      split; [exact He|]. split; [reflexivity|]. split; [reflexivity|].
      unfold own_good, args_of. rewrite mget_write, N.eqb_refl, Hg. split; [exact Hreg|reflexivity].
    + inversion H; subst m' r. split; [split; assumption|]. split; [apply ext_refl|]. split; [reflexivity|exact I].
Qed.

(* visit_arg / visit_inf of the healing visitor are heal_member *)
Lemma visit_arg_heal m x : visit_arg (heal_visitor tm) m x = heal_member tm m x.
Proof. unfold visit_arg, hseq, heal_visitor, hid; simpl. reflexivity. Qed.
Lemma visit_inf_heal m x : visit_inf (heal_visitor tm) m x = heal_member tm m x.
Proof. unfold visit_inf, hseq, heal_visitor, hid; simpl. reflexivity. Qed.

(* generic: map_filter of a hook that extends memory and establishes a stable
   property of everything it returns *)
Lemma map_filter_spec (f : hook) (Q : mem -> oid -> Prop) :
  (forall m x m' r, inv m -> f m x = Some (m', r) ->
     inv m' /\ ext tm m m' /\ (forall y, r = Some y -> Q m' y)) ->
  (forall m m' y, ext tm m m' -> Q m y -> Q m' y) ->
  forall l m m' rs, inv m -> map_filter f m l = Some (m', rs) ->
    inv m' /\ ext tm m m' /\ Forall (Q m') rs.
Proof.
  intros Hf Hstable. induction l as [|x l IH]; intros m m' rs Hi H; simpl in H.
  - inversion H; subst. split; [assumption|]. split; [apply ext_refl|constructor].
  - destruct (f m x) as [[m1 r]|] eqn:Hx; [|discriminate].
    destruct (map_filter f m1 l) as [[m2 rs']|] eqn:Hr; [|discriminate].
    inversion H; subst m' rs; clear H.
    destruct (Hf _ _ _ _ Hi Hx) as (Hi1 & He1 & Hq1).
    destruct (IH _ _ _ Hi1 Hr) as (Hi2 & He2 & Hq2).
    split; [assumption|]. split; [eapply ext_trans; eauto|].
    destruct r as [y|]; [|assumption]. constructor; [|assumption].
    eapply Hstable; eauto.
Qed.


Lemma oids_eqb_eq a b : oids_eqb a b = true -> a = b.
Proof.
  revert b. induction a as [|x a IH]; intros [|y b]; simpl; try discriminate; auto.
  intros H. apply andb_true_iff in H. destruct H as [H1 H2]. apply N.eqb_eq in H1. subst. f_equal; auto.
Qed.

Lemma heal_arg_hook m x m' r :
  inv m -> visit_arg (heal_visitor tm) m x = Some (m', r) ->
  inv m' /\ ext tm m m' /\ (forall y, r = Some y -> own_good tm m' y).
Proof.
  intros Hi H. rewrite visit_arg_heal in H.
  destruct (heal_member_spec _ _ _ _ Hi H) as (Hi' & He & _ & Hr).
  split; [assumption|]. split; [assumption|]. intros y ->. destruct Hr as (-> & Hg & _). exact Hg.
Qed.

Lemma heal_inf_hook m x m' r :
  inv m -> visit_inf (heal_visitor tm) m x = Some (m', r) ->
  inv m' /\ ext tm m m' /\ (forall y, r = Some y -> own_good tm m' y).
Proof.
  intros Hi H. rewrite visit_inf_heal in H.
  destruct (heal_member_spec _ _ _ _ Hi H) as (Hi' & He & _ & Hr).
  split; [assumption|]. split; [assumption|]. intros y ->. destruct Hr as (-> & Hg & _). exact Hg.
Qed.

Lemma heal_env_hook m x m' r :
  inv m -> visit_env (heal_visitor tm) m x = Some (m', r) ->
  inv m' /\ ext tm m m' /\ (forall y, r = Some y -> True).
Proof.
  intros Hi H. unfold visit_env, hseq, heal_visitor, hid in H; simpl in H. inversion H; subst.
  split; [assumption|]. split; [apply ext_refl|auto].
Qed.

Lemma inv_alloc m v : inv m -> inv (fst (alloc m v)) /\ ext tm m (fst (alloc m v)).
Proof.
  intros [Hf Hl]. assert (He : ext tm m (fst (alloc m v))) by (apply ext_alloc; assumption).
  split; [split; [apply fresh_alloc; assumption|eapply lookup_ok_ext; eauto]|assumption].
Qed.

Lemma Forall_own_ext m m' l : ext tm m m' -> Forall (own_good tm m) l -> Forall (own_good tm m') l.
Proof. intros He. apply Forall_impl. intros a. apply own_good_ext. exact He. Qed.

Lemma heal_field_hook m x m' r :
  inv m -> visit_field (heal_visitor tm) m x = Some (m', r) ->
  inv m' /\ ext tm m m' /\ (forall y, r = Some y -> member_good tm m' y).
Proof.
  intros Hi H.
  change (visit_field (heal_visitor tm) m x)
    with (match base_field (heal_visitor tm) m x with
          | None => None
          | Some (m2, None) => Some (m2, None)
          | Some (m2, Some o2) => heal_member tm m2 o2
          end) in H.
  destruct (base_field (heal_visitor tm) m x) as [[m2 [y|]]|] eqn:Hb; try discriminate.
  2:{ inversion H; subst. unfold base_field in Hb.
      destruct (mget m x) as [[| | | |]|]; try discriminate.
      destruct (map_filter (visit_arg (heal_visitor tm)) m args) as [[m1 args']|]; [|discriminate].
      destruct (oids_eqb args' args); [discriminate|].
      destruct (mget m1 x) as [[| | | |]|]; try discriminate. }
  assert (Hbase : inv m2 /\ ext tm m m2 /\ Forall (own_good tm m2) (args_of m2 y)).
  { unfold base_field in Hb. destruct (mget m x) as [v|] eqn:Hg; [|discriminate].
    destruct v as [|n py ty args d dp rs sb ds| | |]; try discriminate.
    destruct (map_filter (visit_arg (heal_visitor tm)) m args) as [[m1 args']|] eqn:Hmf; [|discriminate].
    destruct (map_filter_spec _ (own_good tm) heal_arg_hook (fun a b c => own_good_ext tm a b c) _ _ _ _ Hi Hmf)
      as (Hi1 & He1 & Hq1).
    destruct (oids_eqb args' args) eqn:Heq.
    - inversion Hb; subst m2 y. apply oids_eqb_eq in Heq. subst args'.
      split; [assumption|]. split; [assumption|].
      rewrite (args_of_ext tm m m1 x _ He1 Hg). unfold args_of. rewrite Hg. exact Hq1.
    - destruct (mget m1 x) as [[|n1 py1 ty1 a1 d1 dp1 rs1 sb1 ds1| | |]|] eqn:Hg1; try discriminate.
      destruct (inv_alloc m1 (OField n1 py1 ty1 args' d1 dp1 rs1 sb1 ds1) Hi1) as (Hi2 & He2).
      unfold alloc in Hb. inversion Hb; subst m2 y. clear Hb.
      split; [exact Hi2|]. split; [eapply ext_trans; eauto|].
      unfold args_of. simpl. unfold mget. simpl. rewrite N.eqb_refl.
      eapply Forall_own_ext; eauto. }
  destruct Hbase as (Hi2 & He2 & Hargs).
  destruct (heal_member_spec _ _ _ _ Hi2 H) as (Hi' & He & _ & Hr).
  split; [assumption|]. split; [eapply ext_trans; eauto|].
  intros z ->. destruct Hr as (-> & Hg & Ha). split; [assumption|].
  rewrite Ha. eapply Forall_own_ext; eauto.
Qed.

Definition members_good (m : mem) (k : kind) (ms : list oid) : Prop :=
  match k with
  | Kobject | Kinterface => Forall (member_good tm m) ms
  | Kinput => Forall (own_good tm m) ms
  | _ => True
  end.

Lemma members_good_ext m m' k ms : ext tm m m' -> members_good m k ms -> members_good m' k ms.
Proof.
  intros He. destruct k; simpl; auto.
  - apply Forall_impl. intros a. apply member_good_ext. exact He.
  - apply Forall_impl. intros a. apply member_good_ext. exact He.
  - apply Forall_own_ext. exact He.
Qed.

Lemma base_type_spec m t m' r :
  inv m -> base_type (heal_visitor tm) m t = Some (m', r) ->
  inv m' /\ ext tm m m' /\
  exists y n k d ms ifs rs ds,
    r = Some y /\ mget m' y = Some (OType n k d ms ifs rs ds) /\ members_good m' k ms /\
    tname m t = Some n /\ (y = t \/ m_next m <= y).
Proof.
  intros Hi H. unfold base_type in H. destruct (mget m t) as [v|] eqn:Hg; [|discriminate].
  destruct v as [n k d ms ifs rs ds| | | |]; try discriminate.
  assert (Hn : tname m t = Some n) by (unfold tname; rewrite Hg; reflexivity).
  assert (Hgen : forall (h : hook) (Q : mem -> oid -> Prop),
     (forall m x m' r, inv m -> h m x = Some (m', r) -> inv m' /\ ext tm m m' /\ (forall y, r = Some y -> Q m' y)) ->
     (forall m m' y, ext tm m m' -> Q m y -> Q m' y) ->
     (forall m' l, Forall (Q m') l -> members_good m' k l) ->
     match map_filter h m ms with
     | None => None
     | Some (m1, members') =>
         if oids_eqb members' ms then Some (m1, Some t)
         else match mget m1 t with
              | Some (OType n0 k1 d0 _ ifaces r0 ds0) =>
                  let (m2, t') := alloc m1 (OType n0 k1 d0 members' ifaces r0 ds0) in Some (m2, Some t')
              | _ => None
              end
     end = Some (m', r) ->
     inv m' /\ ext tm m m' /\
     exists y n' k' d' ms' ifs' rs' ds',
       r = Some y /\ mget m' y = Some (OType n' k' d' ms' ifs' rs' ds') /\ members_good m' k' ms' /\
       tname m t = Some n' /\ (y = t \/ m_next m <= y)).
  { intros h Q Hh Hst Hmg H0.
    destruct (map_filter h m ms) as [[m1 ms']|] eqn:Hmf; [|discriminate].
    destruct (map_filter_spec h Q Hh Hst _ _ _ _ Hi Hmf) as (Hi1 & He1 & Hq1).
    destruct (proj2 He1 t _ Hg) as (v1 & Hg1 & Hr1).
    destruct v1 as [n1 k1 d1 ms1 ifs1 rs1 ds1| | | |]; simpl in Hr1; try contradiction.
    destruct Hr1 as (-> & -> & -> & _).
    destruct (oids_eqb ms' ms) eqn:Heq.
    - inversion H0; subst m' r. apply oids_eqb_eq in Heq. subst ms'.
      split; [assumption|]. split; [assumption|].
      exists t, n, k, d1, ms, ifs1, rs1, ds1. repeat split; auto.
    - rewrite Hg1 in H0.
      destruct (inv_alloc m1 (OType n k d1 ms' ifs1 rs1 ds1) Hi1) as (Hi2 & He2).
      unfold alloc in H0. inversion H0; subst m' r. clear H0.
      split; [exact Hi2|]. split; [eapply ext_trans; eauto|].
      exists (m_next m1), n, k, d1, ms', ifs1, rs1, ds1.
      split; [reflexivity|]. split; [unfold mget; simpl; rewrite N.eqb_refl; reflexivity|].
      split; [apply Hmg; eapply Forall_impl; [|exact Hq1]; intros a; apply Hst; exact He2|].
      split; [assumption|]. right. destruct He1; lia. }
  destruct k.
  - inversion H; subst. split; [assumption|]. split; [apply ext_refl|].
    exists t, n, Kscalar, d, ms, ifs, rs, ds. repeat split; auto.
  - apply (Hgen (visit_field (heal_visitor tm)) (member_good tm)); auto.
    + apply heal_field_hook.
    + intros a b c. apply member_good_ext.
  - apply (Hgen (visit_field (heal_visitor tm)) (member_good tm)); auto.
    + apply heal_field_hook.
    + intros a b c. apply member_good_ext.
  - inversion H; subst. split; [assumption|]. split; [apply ext_refl|].
    exists t, n, Kunion, d, ms, ifs, rs, ds. repeat split; auto.
  - apply (Hgen (visit_env (heal_visitor tm)) (fun _ _ => True)); auto.
    + apply heal_env_hook.
    + intros; exact I.
  - apply (Hgen (visit_inf (heal_visitor tm)) (own_good tm)); auto.
    + apply heal_inf_hook.
    + intros a b c. apply own_good_ext.
Qed.

Lemma heal_type_spec m y n k d ms ifs rs ds m' r :
  inv m -> mget m y = Some (OType n k d ms ifs rs ds) -> members_good m k ms ->
  heal_type tm m y = Some (m', r) ->
  inv m' /\ ext tm m m' /\ r = Some y /\ type_good tm m' y.
Proof.
  intros [Hf Hl] Hg Hmg H. unfold heal_type in H. rewrite Hg in H.
  set (v' := OType n k d ms (heal_oids m tm ifs) rs ds).
  assert (Hreg : Forall (reg (write m y v') tm) (heal_oids m tm ifs)).
  { eapply Forall_impl; [|apply heal_oids_reg; exact Hl]. intros a. eapply reg_write; eauto. reflexivity. }
  assert (He : ext tm m (write m y v')).
  { eapply ext_write; eauto. simpl. repeat split; auto. right. split; [exact Hreg|].
    eapply isub_write; [exact Hg|reflexivity|]. apply heal_oids_isub. exact Hl. }
  assert (Hiw : inv (write m y v')).
  { split; [eapply fresh_write; eauto|eapply lookup_ok_ext; eauto]. }
  assert (Hmw : members_good (write m y v') k ms) by (eapply members_good_ext; eauto).
  destruct k; inversion H; subst m' r; clear H;
    (split; [first [exact Hiw|split; assumption]|]);
    (split; [first [exact He|apply ext_refl]|]); (split; [reflexivity|]);
    unfold type_good; first [rewrite mget_write, N.eqb_refl|rewrite Hg]; simpl in *; auto.
Qed.

Lemma heal_type_hook m t m' r :
  inv m -> visit_type (heal_visitor tm) m t = Some (m', r) ->
  inv m' /\ ext tm m m' /\
  exists y, r = Some y /\ type_good tm m' y /\ (forall n, tname m t = Some n -> tname m' y = Some n).
Proof.
  intros Hi H.
  change (visit_type (heal_visitor tm) m t)
    with (match base_type (heal_visitor tm) m t with
          | None => None
          | Some (m2, None) => Some (m2, None)
          | Some (m2, Some o2) => heal_type tm m2 o2
          end) in H.
  destruct (base_type (heal_visitor tm) m t) as [[m2 ro]|] eqn:Hb; [|discriminate].
  destruct (base_type_spec _ _ _ _ Hi Hb) as (Hi2 & He2 & y & n & k & d & ms & ifs & rs & ds & -> & Hg & Hmg & Hn & _).
  destruct (heal_type_spec _ _ _ _ _ _ _ _ _ _ _ Hi2 Hg Hmg H) as (Hi' & He' & -> & Hgood).
  split; [assumption|]. split; [eapply ext_trans; eauto|].
  exists y. split; [reflexivity|]. split; [assumption|].
  intros n0 Hn0. rewrite Hn in Hn0. inversion Hn0; subst n0.
  eapply ext_tname; eauto. unfold tname. rewrite Hg. reflexivity.
Qed.

Lemma heal_dir_hook m d m' r :
  inv m -> visit_dir (heal_visitor tm) m d = Some (m', r) ->
  inv m' /\ ext tm m m' /\ exists y, r = Some y /\ dir_good tm m' y.
Proof.
  intros Hi H.
  change (visit_dir (heal_visitor tm) m d)
    with (match base_dir (heal_visitor tm) m d with
          | None => None
          | Some (m2, None) => Some (m2, None)
          | Some (m2, Some o2) => Some (m2, Some o2)
          end) in H.
  unfold base_dir in H. destruct (mget m d) as [v|] eqn:Hg; [|discriminate].
  destruct v as [| | | |n ds locs args]; try discriminate.
  destruct (map_filter (visit_arg (heal_visitor tm)) m args) as [[m1 args']|] eqn:Hmf; [|discriminate].
  destruct (map_filter_spec _ (own_good tm) heal_arg_hook (fun a b c => own_good_ext tm a b c) _ _ _ _ Hi Hmf)
    as (Hi1 & He1 & Hq1).
  destruct (proj2 He1 d _ Hg) as (v1 & Hg1 & Hr1).
  destruct v1; simpl in Hr1; try contradiction. inversion Hr1; subst.
  destruct (oids_eqb args' args) eqn:Heq.
  - inversion H; subst m' r. apply oids_eqb_eq in Heq. subst args'.
    split; [assumption|]. split; [assumption|]. exists d. split; [reflexivity|].
    unfold dir_good. rewrite Hg1. exact Hq1.
  - rewrite Hg1 in H.
    destruct (inv_alloc m1 (ODir n ds locs args') Hi1) as (Hi2 & He2).
    unfold alloc in H. inversion H; subst m' r. clear H.
    split; [exact Hi2|]. split; [eapply ext_trans; eauto|].
    exists (m_next m1). split; [reflexivity|]. unfold dir_good, mget. simpl. rewrite N.eqb_refl.
    eapply Forall_own_ext; eauto.
Qed.

(* the loop over Schema.types of on_schema, for the healing visitor *)
Lemma traverse_types_spec : forall l m m' ups,
  inv m -> traverse_list (visit_type (heal_visitor tm)) is_builtin m l = Some (m', ups) ->
  inv m' /\ ext tm m m' /\
  (forall n o, In (n, o) l -> is_builtin o = false ->
     type_good tm m' o \/ exists r, In (n, r) ups /\ r <> Some o) /\
  (forall n r, In (n, r) ups -> exists o y, In (n, o) l /\ r = Some y /\
     (tname m o = Some n -> tname m' y = Some n)).
Proof.
  induction l as [|[n o] l IH]; intros m m' ups Hi H; simpl in H.
  - inversion H; subst. split; [assumption|]. split; [apply ext_refl|]. split; [intros ? ? []|intros ? ? []].
  - destruct (is_builtin o) eqn:Hbi.
    + destruct (IH _ _ _ Hi H) as (Hi' & He & H1 & H2).
      split; [assumption|]. split; [assumption|]. split.
      * intros n1 o1 [Heq|Hin] Hb; [inversion Heq; subst; congruence|auto].
      * intros n1 r Hin. destruct (H2 n1 r Hin) as (o1 & y & Ho1 & Hr & Ht). exists o1, y. repeat split; auto. right; assumption.
    + destruct (visit_type (heal_visitor tm) m o) as [[m1 r]|] eqn:Hv; [|discriminate].
      destruct (traverse_list (visit_type (heal_visitor tm)) is_builtin m1 l) as [[m2 ups']|] eqn:Hl; [|discriminate].
      inversion H; subst m' ups; clear H.
      destruct (heal_type_hook _ _ _ _ Hi Hv) as (Hi1 & He1 & y & -> & Hgood & Hname).
      destruct (IH _ _ _ Hi1 Hl) as (Hi2 & He2 & H1 & H2).
      split; [assumption|]. split; [eapply ext_trans; eauto|]. split.
      * intros n1 o1 [Heq|Hin] Hb.
        -- inversion Heq; subst n1 o1. simpl. destruct (N.eqb_spec y o) as [->|Hne].
           ++ left. eapply type_good_ext; eauto.
           ++ right. exists (Some y). split; [left; reflexivity|congruence].
        -- destruct (H1 n1 o1 Hin Hb) as [Hg|(r & Hr & Hne)]; [left; assumption|].
           right. exists r. split; [|assumption]. destruct (ooid_eqb (Some y) (Some o)); [assumption|right; assumption].
      * intros n1 r Hin.
        assert (Hcases : (n1, r) = (n, Some y) \/ In (n1, r) ups').
        { destruct (ooid_eqb (Some y) (Some o)); [right; assumption|destruct Hin; auto]. }
        destruct Hcases as [Heq|Hin'].
        -- inversion Heq; subst n1 r. exists o, y. split; [left; reflexivity|]. split; [reflexivity|].
           intros Ht. eapply ext_tname; eauto.
        -- destruct (H2 n1 r Hin') as (o1 & y1 & Ho1 & Hr & Ht). exists o1, y1.
           split; [right; assumption|]. split; [assumption|].
           intros Ht1. apply Ht. eapply ext_tname; eauto.
Qed.

Lemma traverse_dirs_spec : forall l m m' ups,
  inv m -> traverse_list (visit_dir (heal_visitor tm)) (fun _ => false) m l = Some (m', ups) ->
  inv m' /\ ext tm m m' /\
  (forall n d, In (n, d) l -> dir_good tm m' d \/ exists r, In (n, r) ups /\ r <> Some d) /\
  (forall n r, In (n, r) ups -> exists y, r = Some y /\ dir_good tm m' y).
Proof.
  induction l as [|[n d] l IH]; intros m m' ups Hi H; simpl in H.
  - inversion H; subst. split; [assumption|]. split; [apply ext_refl|]. split; [intros ? ? []|intros ? ? []].
  - destruct (visit_dir (heal_visitor tm) m d) as [[m1 r]|] eqn:Hv; [|discriminate].
    destruct (traverse_list (visit_dir (heal_visitor tm)) (fun _ => false) m1 l) as [[m2 ups']|] eqn:Hl; [|discriminate].
    inversion H; subst m' ups; clear H.
    destruct (heal_dir_hook _ _ _ _ Hi Hv) as (Hi1 & He1 & y & -> & Hgood).
    destruct (IH _ _ _ Hi1 Hl) as (Hi2 & He2 & H1 & H2).
    split; [assumption|]. split; [eapply ext_trans; eauto|]. split.
    + intros n1 d1 [Heq|Hin].
      * inversion Heq; subst n1 d1. simpl. destruct (N.eqb_spec y d) as [->|Hne].
        -- left. eapply dir_good_ext; eauto.
        -- right. exists (Some y). split; [left; reflexivity|congruence].
      * destruct (H1 n1 d1 Hin) as [Hg|(r & Hr & Hne)]; [left; assumption|].
        right. exists r. split; [|assumption]. destruct (ooid_eqb (Some y) (Some d)); [assumption|right; assumption].
    + intros n1 r Hin.
      assert (Hcases : (n1, r) = (n, Some y) \/ In (n1, r) ups').
      { destruct (ooid_eqb (Some y) (Some d)); [right; assumption|destruct Hin; auto]. }
      destruct Hcases as [Heq|Hin'].
      * inversion Heq; subst n1 r. exists y. split; [reflexivity|]. eapply dir_good_ext; eauto.
      * apply (H2 n1 r Hin').
Qed.

End HealHooks.
