(* C14 -- proofs about the model of extend_schema: it only allocates (and
   fills the type objects it reserved), so the extended schema is built next
   to the source without touching it; being the result of Schema(...), it is
   closed. *)
From PyGql Require Import Spec.StoreSpec Proofs.StoreProofs Proofs.StoreHeal Schema.StoreExtend.
Local Open Scope N_scope.

Section XFrame.
Variable n0 : oid.
Variable W : list oid.        (* reserved type objects that may still be filled in *)

(* nothing below the watermark changes (except the cells in W), the allocation
   pointer only grows *)
Definition fr0 (m m' : mem) : Prop :=
  (forall o, o < n0 -> ~ In o W -> mget m' o = mget m o) /\ m_next m <= m_next m'.

Lemma fr0_refl m : fr0 m m.
Proof. split; [reflexivity|lia]. Qed.
Lemma fr0_trans m m' m'' : fr0 m m' -> fr0 m' m'' -> fr0 m m''.
Proof. intros [F1 N1] [F2 N2]. split; [intros o Ho Hw; rewrite (F2 o Ho Hw); auto|lia]. Qed.
Lemma fr0_alloc m v : n0 <= m_next m -> fr0 m (fst (alloc m v)).
Proof.
  intros Hn. split; [|simpl; lia]. intros o Ho _. rewrite mget_alloc.
  destruct (N.eqb_spec o (m_next m)); [lia|reflexivity].
Qed.
Lemma fr0_write m o v : n0 <= o \/ In o W -> fr0 m (write m o v).
Proof.
  intros Hn. split; [|simpl; lia]. intros x Hx Hw. rewrite mget_write.
  destruct (N.eqb_spec x o) as [->|]; [destruct Hn; [lia|contradiction]|reflexivity].
Qed.

(* a builder step: from a memory whose pointer is above the watermark *)
Definition xfr {A} (f : mem -> xres (mem * A)) : Prop :=
  forall m m' a, n0 <= m_next m -> f m = XOk (m', a) -> fr0 m m'.

Lemma build_input_fr c ia a : xfr (fun m => build_input c ia m a).
Proof.
  intros m m' o Hn H. unfold build_input in H. destruct a as [n ty df d ds].
  destruct (alookup (ntref_name ty) (c_kinds c)) as [k|];
    [destruct (is_output_only k); [discriminate|]|];
    (destruct (resolve_ntref c ty); [|discriminate]); unfold alloc in H; inversion H; subst;
    apply (fr0_alloc m _ Hn).
Qed.

Lemma build_inputs_fr c ia l : xfr (fun m => build_inputs c ia m l).
Proof.
  induction l as [|a l IH]; intros m m' o Hn H; simpl in H.
  - inversion H; subst. apply fr0_refl.
  - destruct (build_input c ia m a) as [[m1 o1]| |] eqn:E1; simpl in H; try discriminate.
    pose proof (build_input_fr c ia a m m1 o1 Hn E1) as F1.
    destruct (build_inputs c ia m1 l) as [[m2 os]| |] eqn:E2; simpl in H; try discriminate.
    inversion H; subst. eapply fr0_trans; [exact F1|]. eapply IH; [destruct F1; lia|exact E2].
Qed.

Lemma build_field_fr c f : xfr (fun m => build_field c m f).
Proof.
  intros m m' o Hn H. unfold build_field in H. destruct f as [n ty args d dp ds].
  destruct (build_inputs c true m args) as [[m1 os]| |] eqn:E1; simpl in H; try discriminate.
  pose proof (build_inputs_fr c true args m m1 os Hn E1) as F1.
  destruct (resolve_ntref c ty); [|discriminate]. unfold alloc in H. inversion H; subst.
  eapply fr0_trans; [exact F1|]. apply (fr0_alloc m1). destruct F1; lia.
Qed.

Lemma extend_input_fr c a : xfr (fun m => extend_input c m a).
Proof.
  intros m m' o Hn H. unfold extend_input in H.
  destruct (mget m a) as [[| |? ? ? ty ? ? ?| |]|]; try discriminate.
  destruct (extend_tref c m ty); [|discriminate]. unfold alloc in H. inversion H; subst.
  apply (fr0_alloc m _ Hn).
Qed.

Lemma extend_inputs_fr c l : xfr (fun m => extend_inputs c m l).
Proof.
  induction l as [|a l IH]; intros m m' o Hn H; simpl in H.
  - inversion H; subst. apply fr0_refl.
  - destruct (extend_input c m a) as [[m1 o1]| |] eqn:E1; simpl in H; try discriminate.
    pose proof (extend_input_fr c a m m1 o1 Hn E1) as F1.
    destruct (extend_inputs c m1 l) as [[m2 os]| |] eqn:E2; simpl in H; try discriminate.
    inversion H; subst. eapply fr0_trans; [exact F1|]. eapply IH; [destruct F1; lia|exact E2].
Qed.

Lemma extend_field_fr c f : xfr (fun m => extend_field c m f).
Proof.
  intros m m' o Hn H. unfold extend_field in H.
  destruct (mget m f) as [[|? ? ty args ? ? ? ? ?| | |]|]; try discriminate.
  destruct (extend_inputs c m args) as [[m1 os]| |] eqn:E1; simpl in H; try discriminate.
  pose proof (extend_inputs_fr c args m m1 os Hn E1) as F1.
  destruct (extend_tref c m ty); [|discriminate]. unfold alloc in H. inversion H; subst.
  eapply fr0_trans; [exact F1|]. apply (fr0_alloc m1). destruct F1; lia.
Qed.

Lemma extend_fields_fr c l : xfr (fun m => extend_fields c m l).
Proof.
  induction l as [|a l IH]; intros m m' o Hn H; simpl in H.
  - inversion H; subst. apply fr0_refl.
  - destruct (extend_field c m a) as [[m1 o1]| |] eqn:E1; simpl in H; try discriminate.
    pose proof (extend_field_fr c a m m1 o1 Hn E1) as F1.
    destruct (extend_fields c m1 l) as [[m2 os]| |] eqn:E2; simpl in H; try discriminate.
    inversion H; subst. eapply fr0_trans; [exact F1|]. eapply IH; [destruct F1; lia|exact E2].
Qed.

Lemma add_fields_fr c : forall l m seen acc m' seen' acc',
  n0 <= m_next m -> add_fields c m seen acc l = XOk (m', seen', acc') -> fr0 m m'.
Proof.
  induction l as [|f l IH]; intros m seen acc m' seen' acc' Hn H; simpl in H.
  - inversion H; subst. apply fr0_refl.
  - destruct (mem_str (nf_name f) seen); [discriminate|].
    destruct (build_field c m f) as [[m1 o1]| |] eqn:E1; simpl in H; try discriminate.
    pose proof (build_field_fr c f m m1 o1 Hn E1) as F1.
    eapply fr0_trans; [exact F1|]. eapply IH; [destruct F1; lia|exact H].
Qed.

Lemma add_inputs_fr c : forall l m seen acc m' seen' acc',
  n0 <= m_next m -> add_inputs c m seen acc l = XOk (m', seen', acc') -> fr0 m m'.
Proof.
  induction l as [|f l IH]; intros m seen acc m' seen' acc' Hn H; simpl in H.
  - inversion H; subst. apply fr0_refl.
  - destruct (mem_str (na_name f) seen); [discriminate|].
    destruct (build_input c false m f) as [[m1 o1]| |] eqn:E1; simpl in H; try discriminate.
    pose proof (build_input_fr c false f m m1 o1 Hn E1) as F1.
    eapply fr0_trans; [exact F1|]. eapply IH; [destruct F1; lia|exact H].
Qed.

Lemma add_values_fr : forall l m seen acc m' seen' acc',
  n0 <= m_next m -> add_values m seen acc l = XOk (m', seen', acc') -> fr0 m m'.
Proof.
  induction l as [|[n d dp ds] l IH]; intros m seen acc m' seen' acc' Hn H; simpl in H.
  - inversion H; subst. apply fr0_refl.
  - destruct (mem_str n seen); [discriminate|].
    eapply fr0_trans; [apply (fr0_alloc m (OEnumV n (PStr n) d dp ds) Hn)|].
    eapply IH; [|exact H]. simpl; lia.
Qed.

Lemma add_body_fr c k b m a bb cc d m' a' b' c' d' :
  n0 <= m_next m ->
  add_body c k (XOk (m, a, bb, cc, d)) b = XOk (m', a', b', c', d') -> fr0 m m'.
Proof.
  intros Hn H. unfold add_body in H. simpl in H.
  destruct b as [fs ifs|fs|vs|members|].
  - destruct (add_fields c m a bb fs) as [[[m1 s1] a1]| |] eqn:E; simpl in H; try discriminate.
    destruct (add_names c cc d _) as [[q1 q2]| |]; simpl in H; try discriminate.
    inversion H; subst. eapply add_fields_fr; eauto.
  - destruct (add_inputs c m a bb fs) as [[[m1 s1] a1]| |] eqn:E; simpl in H; try discriminate.
    inversion H; subst. eapply add_inputs_fr; eauto.
  - destruct (add_values m a bb vs) as [[[m1 s1] a1]| |] eqn:E; simpl in H; try discriminate.
    inversion H; subst. eapply add_values_fr; eauto.
  - destruct (add_names c cc d members) as [[q1 q2]| |]; simpl in H; try discriminate.
    inversion H; subst. apply fr0_refl.
  - inversion H; subst. apply fr0_refl.
Qed.

Lemma fold_add_body_fr c k : forall bs m a b cc d m' a' b' c' d',
  n0 <= m_next m ->
  fold_left (add_body c k) bs (XOk (m, a, b, cc, d)) = XOk (m', a', b', c', d') -> fr0 m m'.
Proof.
  induction bs as [|bd bs IH]; intros m a b cc d m' a' b' c' d' Hn H; cbn [fold_left] in H.
  - inversion H; subst. apply fr0_refl.
  - destruct (add_body c k (XOk (m, a, b, cc, d)) bd) as [[[[[m1 a1] b1] c1] d1]| |] eqn:E.
    + pose proof (add_body_fr c k bd _ _ _ _ _ _ _ _ _ _ Hn E) as F1.
      eapply fr0_trans; [exact F1|]. eapply IH; [destruct F1; lia|exact H].
    + exfalso. clear - H. induction bs; cbn [fold_left] in H; [discriminate|auto].
    + exfalso. clear - H. induction bs; cbn [fold_left] in H; [discriminate|auto].
Qed.

Lemma extend_existing_fr c doc m t self m' :
  n0 <= m_next m -> n0 <= self \/ In self W -> extend_existing c doc m t self = XOk m' -> fr0 m m'.
Proof.
  intros Hn Hs H. unfold extend_existing in H.
  destruct (mget m t) as [[n k d ms ifs r ds| | | |]|]; try discriminate.
  destruct (negb (forallb _ _)); [discriminate|].
  match type of H with xbind ?b _ = _ => destruct b as [[mb msb]| |] eqn:Eb; simpl in H; try discriminate end.
  assert (Fb : fr0 m mb).
  { destruct k; simpl in Eb;
      try (inversion Eb; subst; apply fr0_refl).
    - destruct (extend_fields c m ms) as [[m1 x1]| |] eqn:E1; simpl in Eb; try discriminate.
      inversion Eb; subst. eapply extend_fields_fr; eauto.
    - destruct (extend_fields c m ms) as [[m1 x1]| |] eqn:E1; simpl in Eb; try discriminate.
      inversion Eb; subst. eapply extend_fields_fr; eauto.
    - destruct (extend_inputs c m ms) as [[m1 x1]| |] eqn:E1; simpl in Eb; try discriminate.
      inversion Eb; subst. eapply extend_inputs_fr; eauto. }
  destruct (negb (N.eqb _ _)); [discriminate|].
  match type of H with xbind ?b _ = _ => destruct b as [[[[[m1 a1] b1] c1] d1]| |] eqn:Ef; simpl in H; try discriminate end.
  inversion H; subst.
  eapply fr0_trans; [exact Fb|]. eapply fr0_trans; [eapply fold_add_body_fr; [|exact Ef]; destruct Fb; lia|].
  apply fr0_write; assumption.
Qed.

Lemma build_new_fr c doc m def self m' :
  n0 <= m_next m -> n0 <= self \/ In self W -> build_new c doc m def self = XOk m' -> fr0 m m'.
Proof.
  intros Hn Hs H. unfold build_new in H. destruct def as [n k d body ds].
  destruct (negb _); [discriminate|].
  match type of H with xbind ?b _ = _ => destruct b as [[[[[m1 a1] b1] c1] d1]| |] eqn:Ef; simpl in H; try discriminate end.
  inversion H; subst.
  eapply fr0_trans; [eapply fold_add_body_fr; [exact Hn|exact Ef]|]. apply fr0_write; assumption.
Qed.

Lemma extend_dir_fr c d : xfr (fun m => extend_dir c m d).
Proof.
  intros m m' o Hn H. unfold extend_dir in H.
  destruct (mget m d) as [[| | | |? ? ? args]|]; try discriminate.
  destruct (extend_inputs c m args) as [[m1 os]| |] eqn:E1; simpl in H; try discriminate.
  pose proof (extend_inputs_fr c args m m1 os Hn E1) as F1.
  unfold alloc in H. inversion H; subst.
  eapply fr0_trans; [exact F1|]. apply (fr0_alloc m1). destruct F1; lia.
Qed.

Lemma build_dir_fr c d : xfr (fun m => build_dir c m d).
Proof.
  intros m m' o Hn H. unfold build_dir in H. destruct d as [n ds locs args].
  destruct (build_inputs c true m args) as [[m1 os]| |] eqn:E1; simpl in H; try discriminate.
  pose proof (build_inputs_fr c true args m m1 os Hn E1) as F1.
  unfold alloc in H. inversion H; subst.
  eapply fr0_trans; [exact F1|]. apply (fr0_alloc m1). destruct F1; lia.
Qed.

Lemma xmap_fr {A} (f : mem -> A -> xres (mem * oid)) :
  (forall a, xfr (fun m => f m a)) -> forall l, xfr (fun m => xmap f m l).
Proof.
  intros Hf. induction l as [|a l IH]; intros m m' o Hn H; simpl in H.
  - inversion H; subst. apply fr0_refl.
  - destruct (f m a) as [[m1 o1]| |] eqn:E1; simpl in H; try discriminate.
    pose proof (Hf a m m1 o1 Hn E1) as F1.
    destruct (xmap f m1 l) as [[m2 os]| |] eqn:E2; simpl in H; try discriminate.
    inversion H; subst. eapply fr0_trans; [exact F1|]. eapply IH; [destruct F1; lia|exact E2].
Qed.

Lemma xfold_fr {A} (f : mem -> A -> xres mem) :
  (forall a m m', n0 <= m_next m -> f m a = XOk m' -> fr0 m m') ->
  forall l m m', n0 <= m_next m -> xfold f m l = XOk m' -> fr0 m m'.
Proof.
  intros Hf. induction l as [|a l IH]; intros m m' Hn H; simpl in H.
  - inversion H; subst. apply fr0_refl.
  - destruct (f m a) as [m1| |] eqn:E1; simpl in H; try discriminate.
    pose proof (Hf a m m1 Hn E1) as F1.
    eapply fr0_trans; [exact F1|]. eapply IH; [destruct F1; lia|exact H].
Qed.

Lemma reserve_fr : forall l m m' plan,
  n0 <= m_next m -> reserve m l = (m', plan) ->
  fr0 m m' /\ forall n o, In (n, o) plan -> n0 <= o.
Proof.
  induction l as [|[n k] l IH]; intros m m' plan Hn H; simpl in H.
  - inversion H; subst. split; [apply fr0_refl|intros ? ? []].
  - unfold alloc in H. simpl in H.
    match type of H with (let (m2, r) := reserve ?m1 l in _) = _ => destruct (reserve m1 l) as [m2 r] eqn:E end.
    inversion H; subst.
    destruct (IH _ _ _ (ltac:(simpl; lia) : n0 <= m_next (MkMem ((m_next m, OType n k None [] [] None []) :: m_heap m) (N.succ (m_next m)))) E) as (F & P).
    split; [eapply fr0_trans; [apply (fr0_alloc m (OType n k None [] [] None []) Hn)|exact F]|].
    intros n1 o1 [Heq|Hin]; [inversion Heq; subst; assumption|eauto].
Qed.

End XFrame.

(* extend_schema leaves every object that existed before untouched *)
Theorem extend_frame fuel m s doc m' s' :
  extend fuel m s doc = Ok (m', s') -> forall o, o < m_next m -> mget m' o = mget m o.
Proof.
  intros H. unfold extend in H. destruct (extend_x fuel m s doc) as [r| |] eqn:Hx; try discriminate.
  unfold extend_x in Hx. destruct (negb (collect_ok m s doc)); [discriminate|].
  set (n0 := m_next m) in *.
  destruct (reserve m _) as [m1 plan_old] eqn:R1. destruct (reserve m1 _) as [m2 plan_new] eqn:R2.
  destruct (reserve_fr n0 [] _ _ _ _ (N.le_refl _) R1) as (F1 & P1).
  destruct (reserve_fr n0 [] _ _ _ _ (ltac:(destruct F1; lia) : n0 <= m_next m1) R2) as (F2 & P2).
  match type of Hx with xbind ?b _ = _ => destruct b as [[md dso]| |] eqn:Ed; simpl in Hx; try discriminate end.
  assert (N2 : n0 <= m_next m2) by (destruct F1, F2; lia).
  pose proof (xmap_fr n0 [] _ (extend_dir_fr n0 [] _) _ _ _ _ N2 Ed) as F3.
  match type of Hx with xbind ?b _ = _ => destruct b as [[mn dsn]| |] eqn:En; simpl in Hx; try discriminate end.
  assert (N3 : n0 <= m_next md) by (destruct F3; lia).
  pose proof (xmap_fr n0 [] _ (build_dir_fr n0 [] _) _ _ _ _ N3 En) as F4.
  match type of Hx with xbind ?b _ = _ => destruct b as [m3| |] eqn:E3; simpl in Hx; try discriminate end.
  assert (N4 : n0 <= m_next mn) by (destruct F4; lia).
  assert (F5 : fr0 n0 [] mn m3).
  { eapply (xfold_fr n0 []); [|exact N4|exact E3]. intros e mm mm' Hn He.
    cbv beta in He. destruct (alookup (fst e) plan_old) as [self|] eqn:Hl; [|discriminate He].
    eapply extend_existing_fr; [exact Hn| |exact He]. left. eapply P1. apply alookup_In. exact Hl. }
  match type of Hx with xbind ?b _ = _ => destruct b as [m4| |] eqn:E4; simpl in Hx; try discriminate end.
  assert (N5 : n0 <= m_next m3) by (destruct F5; lia).
  assert (F6 : fr0 n0 [] m3 m4).
  { eapply (xfold_fr n0 []); [|exact N5|exact E4]. intros d mm mm' Hn He.
    cbv beta in He. destruct (alookup (td_name d) plan_new) as [self|] eqn:Hl; [|discriminate He].
    eapply build_new_fr; [exact Hn| |exact He]. left. eapply P2. apply alookup_In. exact Hl. }
  destruct (ext_root _ m (s_query s)) as [q| |]; simpl in Hx; try discriminate.
  destruct (ext_root _ m (s_mut s)) as [mu| |]; simpl in Hx; try discriminate.
  destruct (ext_root _ m (s_sub s)) as [su| |]; simpl in Hx; try discriminate.
  destruct (apply_ops _ _ _) as [[[q' mu'] su']| |]; simpl in Hx; try discriminate.
  inversion Hx as [Hr]; clear Hx; rewrite <- Hr in H; clear Hr.
  destruct (build fuel m4 q' mu' su' _ _) as [sc| | |]; simpl in H; try discriminate.
  inversion H; subst m' s'.
  pose proof (fr0_trans n0 [] _ _ _ F1 (fr0_trans n0 [] _ _ _ F2 (fr0_trans n0 [] _ _ _ F3
               (fr0_trans n0 [] _ _ _ F4 (fr0_trans n0 [] _ _ _ F5 F6))))) as F.
  intros o Ho. apply (proj1 F o Ho). intros [].
Qed.

(* being the result of Schema(...), the extended schema is closed *)
Theorem extend_closed fuel m s doc m' s' :
  fresh_ok m -> builtins_ok m -> extend fuel m s doc = Ok (m', s') ->
  closed m' s' /\ names_ok m' (s_types s').
Proof.
  intros Hf Hb H. pose proof (extend_frame _ _ _ _ _ _ H) as Hfr.
  assert (Hb' : builtins_ok m').
  { intros n b Hnb. rewrite Hfr; [apply Hb; exact Hnb|].
    destruct (N.lt_ge_cases b (m_next m)) as [Hlt|Hle]; [assumption|].
    pose proof (Hb n b Hnb) as Hg. rewrite (Hf b Hle) in Hg. discriminate. }
  unfold extend in H. destruct (extend_x fuel m s doc) as [r| |] eqn:Hx; try discriminate.
  unfold extend_x in Hx. destruct (negb (collect_ok m s doc)); [discriminate|].
  destruct (reserve m _) as [m1 plan_old]. destruct (reserve m1 _) as [m2 plan_new].
  repeat match type of Hx with xbind ?b _ = _ => destruct b as [?| |]; simpl in Hx; try discriminate end.
  repeat match type of Hx with (let '(_, _) := ?p in _) = _ => destruct p end.
  inversion Hx as [Hr]; clear Hx; rewrite <- Hr in H; clear Hr.
  match type of H with obind (build ?f ?mm ?a ?b ?c ?d ?e) _ = _ =>
    destruct (build f mm a b c d e) as [sc| | |] eqn:Hbd; simpl in H; try discriminate end.
  inversion H; subst m' s'. eapply build_closed; eauto.
Qed.
