(* A concrete document (field with a sub-selection, a fragment nested in a fragment,
   distinct locations) that satisfies every hypothesis of the theorems about named
   fragments: non-vacuity. *)
From PyGql Require Import Valid.ValidOverlap Spec.ValidSpec Spec.ValidLocalSpec
     Proofs.ValidCloseProofs Proofs.ValidMergeProofs Proofs.ValidStaticProofs Proofs.ValidFuelProofs
     Proofs.ValidLocalProofs Proofs.ValidMemoProofs Proofs.ValidLocsProofs.
Local Open Scope string_scope.

Definition ex_nm (x : string) : name := Name (str_of_string x) None.
Definition ex_schema : schema :=
  Schema [(str_of_string "Q", TObject [] [SField_ (str_of_string "a") [] (RNamed (str_of_string "Int"));
                                          SField_ (str_of_string "q") [] (RNamed (str_of_string "Q"))]);
          (str_of_string "Int", TScalar SkInt)]
         (Some (str_of_string "Q")) None None [].
Definition ex_fld (al : option name) (n : string) : selection := SField al (ex_nm n) [] [] None [] None.
Definition ex_doc : document :=
  Doc [DOperation OpQuery None [] [] (Some (0, 0))
         [SField None (ex_nm "q") [] [] (Some (Some (1, 1))) [ex_fld (Some (ex_nm "x")) "a"; SSpread (ex_nm "A") [] None] None] None;
       DFragment (ex_nm "A") [] (TNamed (ex_nm "Q") None) [] (Some (2, 2)) [SSpread (ex_nm "B") [] None] None;
       DFragment (ex_nm "B") [] (TNamed (ex_nm "Q") None) [] (Some (3, 3)) [ex_fld (Some (ex_nm "x")) "a"] None] None.

Lemma ex_descends_sub p x q a n args dirs l0 sub l :
  descends ex_schema p x q (SField a n args dirs (Some l0) sub l) ->
  In x [SField None (ex_nm "q") [] [] (Some (Some (1, 1))) [ex_fld (Some (ex_nm "x")) "a"; SSpread (ex_nm "A") [] None] None;
        ex_fld (Some (ex_nm "x")) "a"; SSpread (ex_nm "A") [] None; SSpread (ex_nm "B") [] None] ->
  n = ex_nm "q" /\ q = p.
Proof.
  intros Hd Hx. simpl in Hx. destruct Hx as [<-|[<-|[<-|[<-|[]]]]]; inversion Hd; subst; try (split; reflexivity).
  - (* below the field q: its sub-selections have no sub-selection *)
    match goal with Hy : In _ _ |- _ => simpl in Hy; destruct Hy as [<-|[<-|[]]] end;
      match goal with Hd' : descends _ _ _ _ _ |- _ => inversion Hd' end.
Qed.

Example ex_faithful : faithful_locations ex_schema ex_doc.
Proof.
  apply faithful_from_agreement.
  - vm_compute. repeat (constructor; [simpl; intuition discriminate|]). constructor.
  - apply r06_equiv. vm_compute. reflexivity.
  - apply lookups_agree_plain. intros q a n args dirs l0 sub l (df & x & Hdf & Hx & Hd).
    assert (Hn : n = ex_nm "q" /\ Some q = def_parent ex_schema df).
    { eapply ex_descends_sub; [exact Hd|]. simpl in Hdf. destruct Hdf as [<-|[<-|[<-|[]]]]; simpl in Hx |- *; tauto. }
    destruct Hn as [-> Hq].
    assert (Eq : q = str_of_string "Q").
    { simpl in Hdf. destruct Hdf as [<-|[<-|[<-|[]]]]; vm_compute in Hq; inversion Hq; reflexivity. }
    subst q. split; [vm_compute; reflexivity|]. intros fd Hfd. vm_compute in Hfd. inversion Hfd; subst. vm_compute. reflexivity.
Qed.

Example ex_silent_and_conflict_free :
  r25_overlapping_fields (overlap_fuel ex_schema ex_doc) ex_schema ex_doc = Ok [] /\
  forall parent l sels, In (ESelSet parent l sels) (doc_events ex_schema ex_doc) ->
    forall c, In c (selset_calls ex_schema parent l sels) -> conflict_free ex_schema (frag_table (doc_defs ex_doc)) c.
Proof.
  assert (H : r25_overlapping_fields (overlap_fuel ex_schema ex_doc) ex_schema ex_doc = Ok []) by (vm_compute; reflexivity).
  split; [exact H|]. apply (merge_deep _ _ _ ex_faithful H).
Qed.
