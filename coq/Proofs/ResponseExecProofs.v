(* C10 composed with the C04 executor model: the errors of an execution are
   exactly its obligated positions (each once), error locations stay in the
   text, and therefore the response-level statements hold with no hypothesis
   about the executor. *)
From PyGql Require Import Exec.ResponseModel Spec.ResponseSpec Exec.ResponseCheck Proofs.ResponseProofs.
From PyGql Require Import Spec.ExecSpec Proofs.ExecProofs.
From PyGql Require Import Exec.ResponseExec.
From Coq Require Import Lia FinFun.

(* =============================================== errors = obligations *)
Section ErrObl.
  Variable sch : schema.
  Variable frags : frag_table.
  Variable vs : vars.
  Variable coerce_args : fdef -> selection -> outcome (list (str * pv)).
  Variable world : world_t.
  Variable tyres : str -> option (pv -> tyname_res).
  Variable cfuel : nat.

  Section Level.
    Variable sub_exec : str -> pv -> path -> list selection -> result.
    Variable sub_obl : str -> pv -> path -> list selection -> list path.
    Hypothesis Hsub : forall tn v p sels r,
      sub_exec tn v p sels = Ok r -> map e_path (snd r) = sub_obl tn v p sels.

    Lemma items_obl (f : path -> pv -> result) (fo : path -> pv -> list path) :
      (forall p' x r, f p' x = Ok r -> map e_path (snd r) = fo p' x) ->
      forall items p i r,
        complete_items f p i items = Ok r -> map e_path (snd r) = obl_items fo p i items.
    Proof.
      intros Hf. induction items as [|x items IH]; intros p i r H; simpl in H.
      - inversion H; reflexivity.
      - apply obind_ok in H as [r1 [H1 H]]. apply obind_ok in H as [rest [H2 H]].
        inversion H; subst; clear H. simpl. rewrite map_app.
        rewrite (Hf _ _ _ H1), (IH _ _ _ H2). reflexivity.
    Qed.

    Lemma of_ser_noerr s r : of_ser s = Ok r -> snd r = [].
    Proof. destruct s; simpl; try discriminate. intros H; inversion H; reflexivity. Qed.

    Lemma named_obl nodes n p v r :
      complete_named sch tyres sub_exec nodes n p v = Ok r ->
      map e_path (snd r) = obl_named sch tyres sub_obl nodes n p v.
    Proof.
      unfold complete_named, obl_named.
      destruct (get_type sch n) as [[fs ifs|fs|ts|vals|k|]|]; try discriminate.
      - apply Hsub.
      - intros H. apply obind_ok in H as [rt [Hrt H]]. rewrite Hrt. apply Hsub. exact H.
      - intros H. apply obind_ok in H as [rt [Hrt H]]. rewrite Hrt. apply Hsub. exact H.
      - destruct (hashable v); [|discriminate]. intros H. apply of_ser_noerr in H. rewrite H. reflexivity.
      - intros H. apply of_ser_noerr in H. rewrite H. reflexivity.
    Qed.

    Lemma value_obl nodes : forall t p v r,
      complete_value sch tyres sub_exec nodes t p v = Ok r ->
      map e_path (snd r) = obl_value sch tyres sub_exec sub_obl nodes t p v.
    Proof.
      induction t as [n|t IH|t IH]; intros p v r H; simpl in H; simpl.
      - destruct v; try (inversion H; reflexivity); apply named_obl; exact H.
      - assert (Hgo : forall items r1,
                   complete_items (complete_value sch tyres sub_exec nodes t) p 0%N items = Ok r1 ->
                   map e_path (snd r1) =
                   obl_items (obl_value sch tyres sub_exec sub_obl nodes t) p 0%N items).
        { intros items r1 Hc.
          apply (items_obl (complete_value sch tyres sub_exec nodes t)
                           (obl_value sch tyres sub_exec sub_obl nodes t)); [|exact Hc].
          intros p' x r' Hr'. apply IH; exact Hr'. }
        destruct v; simpl in H; try discriminate; try (inversion H; reflexivity);
          apply obind_ok in H as [r1 [H1 H]]; inversion H; subst; simpl; apply Hgo; exact H1.
      - apply obind_ok in H as [[r1 es1] [H1 H]]. simpl in H.
        rewrite H1. rewrite <- (IH _ _ _ H1). simpl.
        destruct r1; inversion H; subst; simpl; rewrite ?map_app, ?app_nil_r; reflexivity.
    Qed.

    Lemma items_partial_obl (f : path -> pv -> result) (fe : path -> pv -> list error)
          (fo fp : path -> pv -> list path) :
      (forall p' x r, f p' x = Ok r -> map e_path (snd r) = fo p' x) ->
      (forall p' x, map e_path (fe p' x) = fp p' x) ->
      forall items p i,
        map e_path (items_partial f fe p i items) = obl_items_partial f fo fp p i items.
    Proof.
      intros Hf Hfe. induction items as [|x items IH]; intros p i; simpl; [reflexivity|].
      destruct (f (p ++ [PIdx i]) x) as [r| | |] eqn:E; try apply Hfe.
      rewrite map_app, (Hf _ _ _ E), IH. reflexivity.
    Qed.

    Lemma partial_obl nodes : forall t p v,
      map e_path (complete_value_partial sch tyres sub_exec nodes t p v) =
      obl_value_partial sch tyres sub_exec sub_obl nodes t p v.
    Proof.
      induction t as [n|t IH|t IH]; intros p v; simpl; try reflexivity; [|apply IH].
      destruct v; try reflexivity; simpl;
        apply items_partial_obl; try (intros; apply IH); intros p' x r Hr; apply value_obl; exact Hr.
    Qed.

    Lemma cfield_obl nodes t p v r :
      complete_field sch tyres sub_exec nodes t p v = Ok r ->
      map e_path (snd r) = obl_cfield sch tyres sub_exec sub_obl nodes t p v.
    Proof.
      unfold complete_field, obl_cfield.
      destruct (complete_value sch tyres sub_exec nodes t p v) as [r0| |k q|k] eqn:E; try discriminate.
      - intros H; inversion H; subst. apply value_obl; exact E.
      - destruct (Nat.eqb k REJ_COERCION); [|discriminate].
        intros H; inversion H; subst. simpl. rewrite map_app, partial_obl. reflexivity.
    Qed.

    Lemma field_obl tname parent k fd nodes p r :
      resolve_field sch coerce_args world tyres sub_exec tname parent k fd nodes p = Ok r ->
      map e_path (snd r) = obl_field sch coerce_args world tyres sub_exec sub_obl tname parent k fd nodes p.
    Proof.
      unfold resolve_field, obl_field. destruct nodes as [|node nodes]; [discriminate|].
      destruct (coerce_args fd node) as [args| | |]; try discriminate.
      - destruct k; try discriminate.
        + destruct (world p parent tname (f_name fd) args); try discriminate; try (apply cfield_obl).
          intros H; inversion H; reflexivity.
        + apply cfield_obl.
      - intros H; inversion H; reflexivity.
    Qed.

    Lemma groups_obl tname parent p : forall g r,
      exec_groups sch coerce_args world tyres sub_exec tname parent p g = Ok r ->
      map e_path (snd r) = obl_groups sch coerce_args world tyres sub_exec sub_obl tname parent p g.
    Proof.
      induction g as [|[key nodes] g IH]; intros r H; simpl in H; simpl.
      - inversion H; reflexivity.
      - destruct nodes as [|node nodes]; [discriminate|].
        destruct (field_definition sch tname (sel_name node)) as [[[k fd]|]| | |]; simpl in H; try discriminate.
        + apply obind_ok in H as [r1 [H1 H]]. apply obind_ok in H as [rest [H2 H]].
          inversion H; subst; clear H. simpl. rewrite map_app.
          rewrite (field_obl _ _ _ _ _ _ _ H1), (IH _ H2). reflexivity.
        + apply IH; exact H.
    Qed.
  End Level.

  Lemma sel_obl : forall fuel tname v p sels r,
    exec_sel sch frags vs coerce_args world tyres cfuel fuel tname v p sels = Ok r ->
    map e_path (snd r) = obl_sel sch frags vs coerce_args world tyres cfuel fuel tname v p sels.
  Proof.
    induction fuel as [|fuel IH]; intros tname v p sels r H; simpl in H; [discriminate|].
    apply obind_ok in H as [g [Hg H]]. apply obind_ok in H as [r1 [H1 H]].
    inversion H; subst; clear H. simpl. rewrite Hg.
    eapply groups_obl; [|exact H1]. exact IH.
  Qed.
End ErrObl.

(* =============================================== error locations stay in the text *)
Definition errs_in_text (len : nat) (es : list error) : Prop :=
  Forall (fun e => forallb (loc_ok len) (e_locs e) = true) es.

Definition groups_in_text (len : nat) (g : groups) : Prop :=
  Forall (fun kn => sels_ok len (snd kn) = true) g.

Lemma sel_ok_loc len x : sel_ok len x = true -> loc_ok len (sel_loc x) = true.
Proof. destruct x; simpl; intros H; try apply andb_true_iff in H; tauto. Qed.

Lemma sels_ok_locs len nodes : sels_ok len nodes = true -> forallb (loc_ok len) (map sel_loc nodes) = true.
Proof.
  unfold sels_ok. induction nodes as [|x nodes IH]; simpl; [reflexivity|].
  rewrite !andb_true_iff. intros [Hx Hn]. split; [apply sel_ok_loc; exact Hx|apply IH; exact Hn].
Qed.

Lemma sels_ok_app len a b : sels_ok len (a ++ b) = sels_ok len a && sels_ok len b.
Proof. unfold sels_ok. apply forallb_app. Qed.

Lemma children_ok len nodes : sels_ok len nodes = true -> sels_ok len (children_of nodes) = true.
Proof.
  unfold children_of. induction nodes as [|x nodes IH]; simpl; [reflexivity|].
  rewrite andb_true_iff. intros [Hx Hn]. rewrite sels_ok_app, (IH Hn), andb_true_r.
  destruct x as [a n args dirs [sl|] sub l| |]; try reflexivity.
  simpl in Hx. apply andb_true_iff in Hx. apply Hx.
Qed.

Lemma add_group_in_text len k fs : forall g,
  sels_ok len fs = true -> groups_in_text len g -> groups_in_text len (add_group k fs g).
Proof.
  induction g as [|[k' fs'] g IH]; simpl; intros Hfs Hg.
  - constructor; [exact Hfs|constructor].
  - inversion Hg as [|x l Hx Hl]; subst. simpl in Hx.
    destruct (str_eqb k k').
    + constructor; [|assumption]. simpl. rewrite sels_ok_app, Hx, Hfs. reflexivity.
    + constructor; [assumption|]. apply IH; assumption.
Qed.

Lemma merge_groups_in_text len src : forall into,
  groups_in_text len src -> groups_in_text len into -> groups_in_text len (merge_groups src into).
Proof.
  unfold merge_groups. induction src as [|[k fs] src IH]; simpl; intros into Hs Hi; [assumption|].
  inversion Hs as [|x l Hx Hl]; subst. apply IH; [assumption|].
  apply add_group_in_text; assumption.
Qed.

Section CollectInText.
  Variable applies : option ty -> bool.
  Variable frags : frag_table.
  Variable vs : vars.
  Variable mc : bool.
  Variable len : nat.
  Hypothesis Hfrags : frags_ok len frags = true.

  Lemma frag_sels_ok nm tc fsels : alookup nm frags = Some (tc, fsels) -> sels_ok len fsels = true.
  Proof.
    intros H. apply alookup_In in H. unfold frags_ok in Hfrags. rewrite forallb_forall in Hfrags.
    apply (Hfrags _ H).
  Qed.

  Lemma collect_into_in_text : forall fuel ss g local r,
    sels_ok len ss = true -> groups_in_text len g ->
    collect_into applies frags vs mc fuel ss g local = Ok r -> groups_in_text len (fst r).
  Proof.
    induction fuel as [|fuel IH]; intros ss g local r Hss Hg H; simpl in H; [discriminate|].
    destruct ss as [|x ss]; [inversion H; subst; assumption|].
    unfold sels_ok in Hss. cbn [forallb] in Hss. apply andb_true_iff in Hss. destruct Hss as [Hx Hss].
    fold (sels_ok len ss) in Hss.
    destruct x as [alias n args dirs sl sub l|n dirs l|tc dirs ssl sub l].
    - apply obind_ok in H as [sk [_ H]]. destruct sk; [eapply IH; eassumption|].
      eapply IH; [exact Hss| |eassumption].
      apply add_group_in_text; [|assumption]. unfold sels_ok. cbn [forallb]. rewrite Hx. reflexivity.
    - destruct (alookup (n_val n) frags) as [[tc fsels]|] eqn:Ef.
      + apply obind_ok in H as [sk [_ H]].
        destruct (sk || mem_str (n_val n) local || negb (applies (Some tc))); [eapply IH; eassumption|].
        apply obind_ok in H as [r1 [H1 H]].
        eapply IH; [exact Hss| |eassumption].
        apply merge_groups_in_text; [|assumption].
        eapply IH; [|constructor|exact H1]. eapply frag_sels_ok; eassumption.
      + destruct mc; [discriminate|]. apply obind_ok in H as [sk [_ H]]. eapply IH; eassumption.
    - apply obind_ok in H as [sk [_ H]].
      destruct (sk || negb (applies tc)); [eapply IH; eassumption|].
      apply obind_ok in H as [r1 [H1 H]].
      eapply IH; [exact Hss| |eassumption].
      apply merge_groups_in_text; [|assumption].
      eapply IH; [|constructor|exact H1]. simpl in Hx. apply andb_true_iff in Hx. unfold sels_ok. apply Hx.
  Qed.

  Lemma collect_in_text fuel ss g :
    sels_ok len ss = true -> collect applies frags vs mc fuel ss = Ok g -> groups_in_text len g.
  Proof.
    unfold collect. intros Hss H. apply obind_ok in H as [r [H1 H]]. inversion H; subst.
    eapply collect_into_in_text; [exact Hss|constructor|exact H1].
  Qed.
End CollectInText.

Section ExecInText.
  Variable sch : schema.
  Variable frags : frag_table.
  Variable vs : vars.
  Variable coerce_args : fdef -> selection -> outcome (list (str * pv)).
  Variable world : world_t.
  Variable tyres : str -> option (pv -> tyname_res).
  Variable cfuel : nat.
  Variable len : nat.
  Hypothesis Hfrags : frags_ok len frags = true.

  Section Level.
    Variable sub_exec : str -> pv -> path -> list selection -> result.
    Hypothesis Hsub : forall tn v p sels r,
      sels_ok len sels = true -> sub_exec tn v p sels = Ok r -> errs_in_text len (snd r).

    Lemma items_in_text (f : path -> pv -> result) :
      (forall p' x r, f p' x = Ok r -> errs_in_text len (snd r)) ->
      forall items p i r, complete_items f p i items = Ok r -> errs_in_text len (snd r).
    Proof.
      intros Hf. induction items as [|x items IH]; intros p i r H; simpl in H.
      - inversion H; constructor.
      - apply obind_ok in H as [r1 [H1 H]]. apply obind_ok in H as [rest [H2 H]].
        inversion H; subst; clear H. simpl. apply Forall_app. split; [eapply Hf; exact H1|eapply IH; exact H2].
    Qed.

    Lemma named_in_text nodes n p v r :
      sels_ok len nodes = true ->
      complete_named sch tyres sub_exec nodes n p v = Ok r -> errs_in_text len (snd r).
    Proof.
      intros Hn. unfold complete_named.
      destruct (get_type sch n) as [[fs ifs|fs|ts|vals|k|]|]; try discriminate.
      - apply Hsub. apply children_ok; exact Hn.
      - intros H. apply obind_ok in H as [rt [_ H]]. eapply Hsub; [|exact H]. apply children_ok; exact Hn.
      - intros H. apply obind_ok in H as [rt [_ H]]. eapply Hsub; [|exact H]. apply children_ok; exact Hn.
      - destruct (hashable v); [|discriminate]. intros H. apply of_ser_noerr in H. rewrite H. constructor.
      - intros H. apply of_ser_noerr in H. rewrite H. constructor.
    Qed.

    Lemma value_in_text nodes : sels_ok len nodes = true -> forall t p v r,
      complete_value sch tyres sub_exec nodes t p v = Ok r -> errs_in_text len (snd r).
    Proof.
      intros Hn. induction t as [n|t IH|t IH]; intros p v r H; simpl in H.
      - destruct v; try (inversion H; constructor); eapply named_in_text; eassumption.
      - destruct v; simpl in H; try discriminate; try (inversion H; constructor);
          apply obind_ok in H as [r1 [H1 H]]; inversion H; subst; simpl;
          (eapply items_in_text; [|exact H1]); intros p' x r' Hr'; eapply IH; exact Hr'.
      - apply obind_ok in H as [[r1 es1] [H1 H]]. simpl in H. apply IH in H1. simpl in H1.
        destruct r1; inversion H; subst; simpl; try exact H1.
        apply Forall_app. split; [exact H1|]. constructor; [|constructor]. simpl.
        apply sels_ok_locs; exact Hn.
    Qed.

    Lemma items_partial_in_text (f : path -> pv -> result) (fe : path -> pv -> list error) :
      (forall p' x r, f p' x = Ok r -> errs_in_text len (snd r)) ->
      (forall p' x, errs_in_text len (fe p' x)) ->
      forall items p i, errs_in_text len (items_partial f fe p i items).
    Proof.
      intros Hf Hfe. induction items as [|x items IH]; intros p i; simpl; [constructor|].
      destruct (f (p ++ [PIdx i]) x) as [r| | |] eqn:E; try apply Hfe.
      apply Forall_app. split; [eapply Hf; exact E|apply IH].
    Qed.

    Lemma partial_in_text nodes : sels_ok len nodes = true -> forall t p v,
      errs_in_text len (complete_value_partial sch tyres sub_exec nodes t p v).
    Proof.
      intros Hn. induction t as [n|t IH|t IH]; intros p v; simpl; try constructor; [|apply IH].
      destruct v; simpl; try solve [apply Forall_nil];
        (apply items_partial_in_text;
         [intros p' x r Hr; exact (value_in_text nodes Hn _ _ _ _ Hr)|intros; apply IH]).
    Qed.

    Lemma cfield_in_text nodes t p v r :
      sels_ok len nodes = true ->
      complete_field sch tyres sub_exec nodes t p v = Ok r -> errs_in_text len (snd r).
    Proof.
      intros Hn. unfold complete_field.
      destruct (complete_value sch tyres sub_exec nodes t p v) as [r0| |k q|k] eqn:E; try discriminate.
      - intros H; inversion H; subst. eapply value_in_text; [exact Hn|exact E].
      - destruct (Nat.eqb k REJ_COERCION); [|discriminate].
        intros H; inversion H; subst. simpl. apply Forall_app. split; [apply partial_in_text; exact Hn|].
        constructor; [reflexivity|constructor].
    Qed.

    Lemma field_in_text tname parent k fd nodes p r :
      sels_ok len nodes = true ->
      resolve_field sch coerce_args world tyres sub_exec tname parent k fd nodes p = Ok r ->
      errs_in_text len (snd r).
    Proof.
      intros Hn. unfold resolve_field. destruct nodes as [|node nodes]; [discriminate|].
      assert (Hl : forallb (loc_ok len) [sel_loc node] = true).
      { simpl in Hn. apply andb_true_iff in Hn. simpl. rewrite (sel_ok_loc _ _ (proj1 Hn)). reflexivity. }
      destruct (coerce_args fd node) as [args| | |]; try discriminate.
      - destruct k; try discriminate.
        + destruct (world p parent tname (f_name fd) args); try discriminate;
            try (apply cfield_in_text; exact Hn).
          intros H; inversion H; subst. simpl. constructor; [exact Hl|constructor].
        + apply cfield_in_text; exact Hn.
      - intros H; inversion H; subst. simpl. constructor; [exact Hl|constructor].
    Qed.

    Lemma groups_exec_in_text tname parent p : forall g r,
      groups_in_text len g ->
      exec_groups sch coerce_args world tyres sub_exec tname parent p g = Ok r -> errs_in_text len (snd r).
    Proof.
      induction g as [|[key nodes] g IH]; intros r Hg H; simpl in H.
      - inversion H; constructor.
      - inversion Hg as [|x l Hx Hl]; subst. simpl in Hx.
        destruct nodes as [|node nodes]; [discriminate|].
        destruct (field_definition sch tname (sel_name node)) as [[[k fd]|]| | |]; simpl in H; try discriminate.
        + apply obind_ok in H as [r1 [H1 H]]. apply obind_ok in H as [rest [H2 H]].
          inversion H; subst; clear H. simpl. apply Forall_app. split.
          * eapply field_in_text; [exact Hx|exact H1].
          * eapply IH; [exact Hl|exact H2].
        + eapply IH; [exact Hl|exact H].
    Qed.
  End Level.

  Lemma sel_in_text : forall fuel tname v p sels r,
    sels_ok len sels = true ->
    exec_sel sch frags vs coerce_args world tyres cfuel fuel tname v p sels = Ok r ->
    errs_in_text len (snd r).
  Proof.
    induction fuel as [|fuel IH]; intros tname v p sels r Hs H; simpl in H; [discriminate|].
    apply obind_ok in H as [g [Hg H]]. apply obind_ok in H as [r1 [H1 H]].
    inversion H; subst; clear H. simpl.
    eapply groups_exec_in_text; [exact IH| |exact H1].
    unfold collect_for in Hg. eapply collect_in_text; [exact Hfrags|exact Hs|exact Hg].
  Qed.
End ExecInText.

(* =============================================== conversions *)
Section PvInd.
  Variable P : pv -> Prop.
  Hypothesis HN : P PNone.
  Hypothesis HB : forall b, P (PBool b).
  Hypothesis HI : forall z, P (PInt z).
  Hypothesis HF : forall r, P (PFloat r).
  Hypothesis HS : forall x, P (PStr x).
  Hypothesis HL : forall l, Forall P l -> P (PList l).
  Hypothesis HD : forall kvs, Forall (fun kv => P (snd kv)) kvs -> P (PDict kvs).

  Fixpoint pv_ind' (v : pv) : P v :=
    match v with
    | PNone => HN
    | PBool b => HB b
    | PInt z => HI z
    | PFloat r => HF r
    | PStr x => HS x
    | PList l => HL l ((fix go (l : list pv) : Forall P l :=
                          match l with
                          | [] => Forall_nil _
                          | x :: l' => Forall_cons x (pv_ind' x) (go l')
                          end) l)
    | PDict kvs => HD kvs ((fix go (l : list (str * pv)) : Forall (fun kv => P (snd kv)) l :=
                              match l with
                              | [] => Forall_nil _
                              | kv :: l' => Forall_cons kv (pv_ind' (snd kv)) (go l')
                              end) kvs)
    end.
End PvInd.

Lemma pv_strict v : strict_json (pv_to_json v) = true.
Proof.
  induction v as [| | | | |l IH|kvs IH] using pv_ind'; try reflexivity.
  - cbn [pv_to_json]. rewrite strict_arr_forallb. induction IH as [|x l Hx Hl IHl]; [reflexivity|].
    cbn [map forallb]. rewrite Hx, IHl. reflexivity.
  - cbn [pv_to_json]. induction IH as [|[k x] l Hx Hl IHl]; [reflexivity|].
    cbn [map fst snd]. rewrite strict_obj_cons. simpl in Hx. rewrite Hx, IHl. reflexivity.
Qed.

Lemma alookup_map_snd {A B} (f : A -> B) k (l : list (str * A)) :
  alookup k (map (fun kv => (fst kv, f (snd kv))) l) = option_map f (alookup k l).
Proof.
  induction l as [|[k' x] l IH]; simpl; [reflexivity|].
  destruct (str_eqb k k'); [reflexivity|exact IH].
Qed.

Lemma at_path_jget : forall q v x,
  at_path v q = Some x -> jget (pv_to_json v) (conv_path q) = Some (pv_to_json x).
Proof.
  induction q as [|[k|i] q IH]; intros v x H; simpl in H.
  - inversion H; reflexivity.
  - destruct v; try discriminate. cbn [pv_to_json conv_path map conv_pelem jget].
    rewrite alookup_map_snd. destruct (alookup k kvs) as [y|]; [|discriminate]. simpl. apply IH; exact H.
  - destruct v; try discriminate. cbn [pv_to_json conv_path map conv_pelem jget].
    destruct (nth_error l (N.to_nat i)) as [y|] eqn:E; [|discriminate].
    rewrite (map_nth_error pv_to_json _ _ E). apply IH; exact H.
Qed.

Lemma conv_pelem_inj a b : conv_pelem a = conv_pelem b -> a = b.
Proof.
  destruct a, b; simpl; intros H; inversion H; try reflexivity.
  f_equal. apply N2Nat.inj. assumption.
Qed.

Lemma conv_path_inj : forall a b, conv_path a = conv_path b -> a = b.
Proof.
  induction a as [|x a IH]; destruct b as [|y b]; simpl; intros H; try discriminate; [reflexivity|].
  inversion H. f_equal; [apply conv_pelem_inj; assumption|apply IH; assumption].
Qed.

Lemma rpseg_eqb_eq a b : pseg_eqb a b = true <-> a = b.
Proof.
  destruct a, b; simpl; split; intros H; try discriminate; try congruence.
  - apply str_eqb_eq in H; congruence.
  - inversion H; apply str_eqb_refl.
  - apply Nat.eqb_eq in H; congruence.
  - inversion H; apply Nat.eqb_refl.
Qed.

Lemma rpath_eqb_eq : forall a b, ResponseSpec.path_eqb a b = true <-> a = b.
Proof.
  induction a as [|x a IH]; destruct b as [|y b]; simpl; split; intros H; try discriminate; try reflexivity.
  - apply andb_true_iff in H. destruct H as [H1 H2]. apply rpseg_eqb_eq in H1. apply IH in H2. congruence.
  - inversion H; subst. apply andb_true_iff. split; [apply rpseg_eqb_eq; reflexivity|apply IH; reflexivity].
Qed.

Lemma count_path_nodup (l : list ResponseModel.path) p :
  NoDup l -> In p l -> count_path p (map Some l) = 1.
Proof.
  unfold count_path. induction l as [|x l IH]; intros Hn Hi; [destruct Hi|].
  inversion Hn as [|? ? Hnotin Hn']; subst. cbn [map filter].
  destruct (ResponseSpec.path_eqb p x) eqn:E.
  - apply rpath_eqb_eq in E. subst x. cbn [length]. f_equal.
    clear IH Hn Hi. induction l as [|y l IHl]; [reflexivity|]. cbn [map filter].
    destruct (ResponseSpec.path_eqb p y) eqn:E2.
    + apply rpath_eqb_eq in E2. subst. exfalso. apply Hnotin. left; reflexivity.
    + apply IHl; [intro Hx; apply Hnotin; right; exact Hx|inversion Hn'; assumption].
  - destruct Hi as [->|Hi]; [rewrite (proj2 (rpath_eqb_eq p p) eq_refl) in E; discriminate|].
    apply IH; assumption.
Qed.

(* ---- the executor's error records are well-formed response errors *)
Lemma conv_err_facts doc e :
  forallb (loc_ok (length doc)) (e_locs e) = true ->
  err_ok_b doc (conv_err e) = true /\ is_syntax (conv_err e) = false /\
  err_path (conv_err e) = Some (conv_path (e_path e)).
Proof.
  intros Hl.
  assert (Hn : nodes_ok_b doc (map conv_node (e_locs e)) = true).
  { unfold nodes_ok_b. rewrite forallb_forall in *. intros n Hin.
    apply in_map_iff in Hin as [l [<- Hin]]. specialize (Hl l Hin). unfold loc_ok in Hl. simpl.
    destruct l as [[st en]|]; [exact Hl|reflexivity]. }
  unfold conv_err. destruct (e_kind e) as [m x| |]; cbn [err_ok_b is_syntax err_path].
  - rewrite Hn. cbn [andb]. repeat split; try reflexivity.
    destruct x; try reflexivity. cbn [conv_ext]. apply (pv_strict (PDict kvs)).
  - rewrite Hn. repeat split; reflexivity.
  - rewrite Hn. repeat split; reflexivity.
Qed.

Lemma conv_errs_ok doc es :
  errs_in_text (length doc) es ->
  forallb (err_ok_b doc) (map conv_err es) = true /\
  forallb (fun e => negb (is_syntax e)) (map conv_err es) = true /\
  map err_path (map conv_err es) = map Some (map conv_path (map e_path es)).
Proof.
  induction 1 as [|e es He Hes IH]; [repeat split; reflexivity|].
  destruct (conv_err_facts doc e He) as (A & B & C). destruct IH as (IA & IB & IC).
  cbn [map forallb]. rewrite A, B, C, IA, IB, IC. repeat split; reflexivity.
Qed.

(* ---- reading [execute] *)
Lemma execute_ok_inv sch coerce_args world tyres cfuel fuel d opname vs root r :
  execute sch coerce_args world tyres cfuel fuel d opname vs root = Ok r ->
  exists k sels rt,
    get_operation d opname = Ok (k, sels) /\
    exec_sel sch (frag_table_of (doc_defs d)) vs (coerce_args vs) world tyres cfuel fuel rt root [] sels = Ok r /\
    obligations sch coerce_args world tyres cfuel fuel d opname vs root =
      obl_sel sch (frag_table_of (doc_defs d)) vs (coerce_args vs) world tyres cfuel fuel rt root [] sels.
Proof.
  unfold execute, obligations. destruct (get_operation d opname) as [[k sels]| | |]; simpl; try discriminate.
  destruct k.
  - destruct (s_query sch) as [rt|]; [|discriminate]. intros H. exists OpQuery, sels, rt. auto.
  - destruct (s_mutation sch) as [rt|]; [|discriminate]. intros H. exists OpMutation, sels, rt. auto.
  - destruct (s_subscription sch); discriminate.
Qed.

Lemma find_operation_in nm : forall ops k sels,
  find_operation nm ops = Some (k, sels) -> exists n, In (k, n, sels) ops.
Proof.
  induction ops as [|[[k' [n'|]] sels'] ops IH]; intros k sels H; simpl in H; try discriminate.
  - destruct (str_eqb (n_val n') nm).
    + inversion H; subst. exists (Some n'). left; reflexivity.
    + destruct (IH _ _ H) as [n Hn]. exists n. right; exact Hn.
  - destruct (IH _ _ H) as [n Hn]. exists n. right; exact Hn.
Qed.

Lemma get_operation_in d opname k sels :
  get_operation d opname = Ok (k, sels) -> exists n, In (k, n, sels) (operations_of (doc_defs d)).
Proof.
  unfold get_operation. destruct (operations_of (doc_defs d)) as [|op ops] eqn:E; [discriminate|].
  assert (Hone : match op :: ops with [(k0, _, sels0)] => Ok (k0, sels0) | _ => Rejected REJ_OPERATION 0 end
                 = Ok (k, sels) -> exists n, In (k, n, sels) (op :: ops)).
  { destruct op as [[k0 n0] sels0]. destruct ops; [|discriminate]. intros H; inversion H; subst.
    exists n0. left; reflexivity. }
  destruct opname as [[|c nm]|]; try exact Hone.
  destruct (find_operation (c :: nm) (op :: ops)) as [[k0 sels0]|] eqn:Ef; [|discriminate].
  intros H; inversion H; subst. eapply find_operation_in; exact Ef.
Qed.

(* =============================================== the composed statements *)
(* executor level: the errors are exactly the obligated positions, each once,
   and the data is null at each of them *)
Theorem exec_errors_are_obligations sch coerce_args world tyres cfuel fuel d opname vs root dd es :
  schema_nn_ok sch ->
  execute sch coerce_args world tyres cfuel fuel d opname vs root = Ok (dd, es) ->
  let obl := obligations sch coerce_args world tyres cfuel fuel d opname vs root in
  map e_path es = obl /\ NoDup obl /\
  forall q, In q obl -> q <> [] /\ null_on_path dd q.
Proof.
  intros Hs H. destruct (execute_ok_inv _ _ _ _ _ _ _ _ _ _ _ H) as (k & sels & rt & _ & He & Ho).
  cbv zeta. rewrite Ho. pose proof (sel_obl _ _ _ _ _ _ _ _ _ _ _ _ _ He) as Hobl. simpl in Hobl.
  destruct (exec_sel_wf _ _ _ _ _ _ _ Hs _ _ _ _ _ _ He) as [[Hw Hn] Hnn]. simpl in Hw, Hn, Hnn.
  rewrite <- Hobl. split; [reflexivity|]. split; [exact Hn|].
  intros q Hq. apply in_map_iff in Hq as [e [<- He']]. rewrite Forall_forall in Hw.
  destruct (Hw e He') as [q' [Hq' Hat]]. simpl in Hq'. rewrite Hq'. split; [|exact Hat].
  intro Hnil. rewrite Hnil in Hat. destruct Hat as (q1 & q2 & Hq12 & Hat).
  symmetry in Hq12. apply app_eq_nil in Hq12. destruct Hq12 as [-> _]. simpl in Hat.
  apply Hnn. congruence.
Qed.

Lemma pipeline_exec_at_exec doc fr dd es :
  front_early fr = false -> fr_varcoercion fr = [] ->
  pipeline_exec doc fr (Ok (dd, es)) =
  response doc (Result (Some (pv_to_json dd)) (map conv_err es)).
Proof.
  intros He Hv. unfold pipeline_exec. rewrite He, Hv. reflexivity.
Qed.

(* response level: every obligated position is null in "data" and has exactly
   one error with that path; no hypothesis about the executor remains *)
Theorem null_error_match_exec doc fr sch coerce_args world tyres cfuel fuel d opname vs root dd es r :
  schema_nn_ok sch ->
  front_early fr = false -> fr_varcoercion fr = [] ->
  execute sch coerce_args world tyres cfuel fuel d opname vs root = Ok (dd, es) ->
  pipeline_exec doc fr (Ok (dd, es)) = Ok r ->
  let obl := map conv_path (obligations sch coerce_args world tyres cfuel fuel d opname vs root) in
  null_error_match obl r /\
  (forall q, In q obl ->
     (exists data q1 q2, response_data r = Some data /\ q = q1 ++ q2 /\ jget data q1 = Some JNull) /\
     count_path q (map error_path (response_errors r)) = 1) /\
  (forall p, In (Some p) (map error_path (response_errors r)) -> In p obl).
Proof.
  intros Hs Hearly Hv Hex Hr.
  destruct (exec_errors_are_obligations _ _ _ _ _ _ _ _ _ _ _ _ Hs Hex) as (Hobl & Hnd & Hat).
  rewrite pipeline_exec_at_exec in Hr by assumption.
  destruct (response_parts _ _ _ _ Hr) as (js & Ejs & Ee & Ed).
  pose proof (map_outcome_paths _ _ _ Ejs) as Hpaths.
  set (obl0 := obligations sch coerce_args world tyres cfuel fuel d opname vs root) in *.
  (* the paths of the abstract errors *)
  assert (Herrp : map err_path (map conv_err es) = map Some (map conv_path obl0)).
  { rewrite <- Hobl. clear. induction es as [|e es IH]; [reflexivity|]. cbn [map]. rewrite IH. f_equal.
    unfold conv_err. destruct (e_kind e); reflexivity. }
  assert (Hne : forall q, In q (map conv_path obl0) -> q <> []).
  { intros q Hq. apply in_map_iff in Hq as [q0 [<- Hq0]]. destruct (Hat _ Hq0) as [Hn _].
    destruct q0; [congruence|discriminate]. }
  assert (Hnd' : NoDup (map conv_path obl0)).
  { apply FinFun.Injective_map_NoDup; [intros a b; apply conv_path_inj|exact Hnd]. }
  assert (Hcount : forall q, In q (map conv_path obl0) ->
                             count_path q (map error_path (response_errors r)) = 1).
  { intros q Hq. rewrite Ee, Hpaths, <- (map_map err_path nonempty_path).
    rewrite count_path_nonempty by (apply Hne; exact Hq).
    rewrite Herrp. apply count_path_nodup; assumption. }
  cbv zeta. split; [|split].
  - intros p dd' Hin Hd _. apply Hcount; exact Hin.
  - intros q Hq. split; [|apply Hcount; exact Hq].
    apply in_map_iff in Hq as [q0 [<- Hq0]]. destruct (Hat _ Hq0) as [_ (q1 & q2 & Hq12 & Hnull)].
    exists (pv_to_json dd), (conv_path q1), (conv_path q2). split; [exact Ed|].
    split; [subst q0; unfold conv_path; apply map_app|].
    apply (at_path_jget _ _ _ Hnull).
  - intros p Hp. rewrite Ee, Hpaths, <- (map_map err_path nonempty_path), Herrp in Hp.
    apply in_map_iff in Hp as [x [Hx Hin]]. apply in_map_iff in Hin as [q [<- Hq]].
    destruct q as [|sg q]; [discriminate|]. cbn [nonempty_path] in Hx. inversion Hx; subst. exact Hq.
Qed.

(* ---- well-formedness of the composed pipeline's response *)
Definition front_wf (doc : str) (fr : front) : bool :=
  forallb (err_ok_b doc) (fr_validation fr) && forallb (fun e => negb (is_syntax e)) (fr_validation fr) &&
  forallb (err_ok_b doc) (fr_varcoercion fr) && forallb (fun e => negb (is_syntax e)) (fr_varcoercion fr).

Lemma execute_in_text sch coerce_args world tyres cfuel fuel d opname vs root len dd es :
  doc_in_text len d ->
  execute sch coerce_args world tyres cfuel fuel d opname vs root = Ok (dd, es) ->
  errs_in_text len es.
Proof.
  intros [Hf Hops] H. destruct (execute_ok_inv _ _ _ _ _ _ _ _ _ _ _ H) as (k & sels & rt & Hg & He & _).
  destruct (get_operation_in _ _ _ _ Hg) as [n Hn].
  apply (sel_in_text _ _ _ _ _ _ _ _ Hf _ _ _ _ _ _ (Hops _ _ _ Hn) He).
Qed.

Ltac fin_stage Hstage :=
  match goal with
  | |- match pipeline_model ?doc ?st with _ => _ end =>
      let Hs := fresh "Hs" in
      let Hs2 := fresh "Hs" in
      assert (Hs : stages_wf_b doc st = true);
      [|pose proof (Hstage st Hs eq_refl eq_refl eq_refl) as Hs2;
        destruct (pipeline_model doc st); [exact Hs2|contradiction|contradiction|contradiction]]
  end.

Theorem wf_exec doc fr sch coerce_args world tyres cfuel fuel d opname vs root :
  front_wf doc fr = true -> doc_in_text (length doc) d ->
  let ex := execute sch coerce_args world tyres cfuel fuel d opname vs root in
  match pipeline_exec doc fr ex with
  | Ok r =>
      (fr_parse fr = None -> wf_response doc r) /\
      (fr_parse fr <> None -> wf_response doc (rename_columne r)) /\
      data_presence (front_early fr) r
  | Crash k => front_early fr = false /\ fr_varcoercion fr = [] /\ ex = Crash k
  | OutOfFuel => front_early fr = false /\ fr_varcoercion fr = [] /\ ex = OutOfFuel
  | Rejected _ _ => False
  end.
Proof.
  intros Hfw Hdoc. cbv zeta.
  unfold front_wf in Hfw. rewrite !andb_true_iff in Hfw. destruct Hfw as [[[V1 V2] C1] C2].
  assert (Hgen : forall st, stages_wf_b doc st = true ->
                            failed_early st = front_early fr -> st_parse st = fr_parse fr ->
                            match pipeline_model doc st with
                            | Ok r => (fr_parse fr = None -> wf_response doc r) /\
                                      (fr_parse fr <> None -> wf_response doc (rename_columne r)) /\
                                      data_presence (front_early fr) r
                            | Crash _ => st_float_returns st <> []
                            | _ => False
                            end).
  { intros st Hst Hfe Hp. pose proof (pipeline_core doc st Hst) as Hc.
    destruct (pipeline_model doc st) as [r| |k p|k] eqn:E; try contradiction.
    - destruct (pipeline_wf_partial doc st r Hst E) as [A B]. rewrite Hp in A, B.
      split; [exact A|]. split; [exact B|]. rewrite <- Hfe. apply data_presence_b_iff. apply Hc.
    - destruct Hc as (_ & _ & _ & _ & _ & Hf). intro Hnil. rewrite Hnil in Hf. discriminate. }
  unfold pipeline_exec.
  destruct (front_early fr) eqn:Hearly.
  - (* parse or validation failed *)
    set (st0 := Stages (fr_parse fr) (fr_validation fr) None [] [] [] no_exec).
    assert (Hst : stages_wf_b doc st0 = true).
    { unfold stages_wf_b, st0; cbn [st_validation st_varcoercion st_rootcoercion st_exec no_exec fst snd forallb strict_json].
      rewrite V1, V2; reflexivity. }
    assert (Hfe : failed_early st0 = true) by exact Hearly.
    specialize (Hgen st0 Hst Hfe eq_refl).
    destruct (pipeline_model doc st0); try exact Hgen; try contradiction;
      exfalso; apply Hgen; reflexivity.
  - assert (Hp : fr_parse fr = None /\ fr_validation fr = []).
    { unfold front_early in Hearly. destruct (fr_parse fr); [discriminate|].
      destruct (fr_validation fr); [auto|discriminate]. }
    destruct Hp as [Hp Hval].
    assert (Hstage : forall st, stages_wf_b doc st = true -> failed_early st = false -> st_parse st = None ->
                                st_float_returns st = [] ->
                                match pipeline_model doc st with
                                | Ok r => (fr_parse fr = None -> wf_response doc r) /\
                                          (fr_parse fr <> None -> wf_response doc (rename_columne r)) /\
                                          data_presence false r
                                | _ => False
                                end).
    { intros st Hst Hfe Hsp Hfl. specialize (Hgen st Hst Hfe).
      rewrite Hp in Hgen. specialize (Hgen Hsp). rewrite Hp.
      destruct (pipeline_model doc st); try exact Hgen. apply Hgen. exact Hfl. }
    assert (Hvar : fr_varcoercion fr <> [] ->
                   stages_wf_b doc (Stages None [] None (fr_varcoercion fr) [] [] no_exec) = true).
    { intros _. unfold stages_wf_b; cbn [st_validation st_varcoercion st_rootcoercion st_exec no_exec fst snd forallb strict_json].
      rewrite C1, C2. reflexivity. }
    destruct (execute sch coerce_args world tyres cfuel fuel d opname vs root) as [[dd es]| |k p|k] eqn:Hex.
    + destruct (fr_varcoercion fr) as [|c cs] eqn:Hv.
      * pose proof (execute_in_text _ _ _ _ _ _ _ _ _ _ _ _ _ Hdoc Hex) as Hin.
        destruct (conv_errs_ok doc es Hin) as (A & B & _).
        fin_stage Hstage.
        unfold stages_wf_b; cbn [st_validation st_varcoercion st_rootcoercion st_exec fst snd forallb].
        rewrite A, B, pv_strict. reflexivity.
      * fin_stage Hstage. apply Hvar. discriminate.
    + destruct (fr_varcoercion fr) as [|c cs] eqn:Hv; [auto|].
      fin_stage Hstage. apply Hvar. discriminate.
    + destruct (k =? REJ_OPERATION); [fin_stage Hstage; reflexivity|].
      destruct (fr_varcoercion fr) as [|c cs] eqn:Hv.
      * fin_stage Hstage. reflexivity.
      * fin_stage Hstage. apply Hvar. discriminate.
    + destruct (fr_varcoercion fr) as [|c cs] eqn:Hv; [auto|].
      fin_stage Hstage. apply Hvar. discriminate.
Qed.
