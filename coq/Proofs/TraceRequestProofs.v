(* C16 -- the composed request model satisfies the specification. *)
From Coq Require Import List NArith Arith Bool Lia.
Import ListNotations.
From PyGql Require Import Spec.TraceSpec Exec.TraceModel Proofs.TraceProofs.
From PyGql Require Import Exec.RuntimeMachine Exec.TraceDeferred Proofs.TraceDeferredProofs.
From PyGql Require Import Exec.TraceLift Proofs.TraceLiftProofs Exec.TraceRequest.

Lemma inline10_any_aw : forall text oc aw ns nd,
  word_spec (mkConfig 1 0 text oc aw ns) nd (inline_word 1 0 nd).
Proof.
  intros. unfold word_spec. destruct (submit_mode _ nd); [|reflexivity].
  unfold nocall_word, noexit_word, inline_word. cbn [c_k c_n]. split; destruct (nd_out nd); reflexivity.
Qed.

(* without middlewares it does not matter whether they would wait *)
Lemma aw_irrelevant : forall text oc aw ns t,
  trace_spec (mkConfig 1 0 text oc true ns) t -> trace_spec (mkConfig 1 0 text oc aw ns) t.
Proof.
  intros text oc aw ns t [H1 H2 H3 H4 H5]. constructor; auto.
  intros nd Hin. specialize (H4 nd Hin). unfold word_spec in H4.
  assert (Hs : submit_mode (mkConfig 1 0 text oc true ns) nd = false)
    by (unfold submit_mode; cbn; apply andb_false_r).
  rewrite Hs in H4. cbn [c_k c_n] in H4. rewrite H4. apply inline10_any_aw.
Qed.

Lemma erase_stage : forall m l, Forall (fun x => is_stage x = true) l -> erase m l = l.
Proof.
  intros m l H. unfold erase. apply filter_all. eapply Forall_impl; [|exact H].
  intros x Hx. apply keep_stage. exact Hx.
Qed.

Section RequestProofs.
  Variables (k n : nat) (aw : bool) (argerr : TraceSpec.path -> bool) (pr : prog).
  Hypothesis Hk : 1 <= k.
  Hypothesis Hcrash : crash_free pr.
  Hypothesis Hnd : NoDup (map nd_path (nodes_prog pr)).
  Hypothesis Harg : argerr_ok argerr pr.

  Lemma nodes_full_nodup : NoDup (map nd_path (nodes_full argerr pr)).
  Proof.
    unfold nodes_full. rewrite map_map.
    rewrite (map_ext (fun x => nd_path (remark argerr x)) nd_path) by (intros; apply remark_path).
    exact Hnd.
  Qed.

  Theorem deferred_full_ok : forall sigma s text oc, is_exec oc = true ->
    run sigma pr = Some s -> pending (ms s) = [] ->
    let c := cfg_full k n aw argerr pr text oc in
    trace_spec c (stage_pre c ++ deferred_fields k n aw argerr pr s ++ stage_post c).
  Proof.
    intros sigma s text oc He Hrun Hp c.
    pose proof (deferred_ok sigma pr s text oc Hcrash Hnd He Hrun Hp) as H0. cbn zeta in H0.
    apply trace_ok_decides in H0. unfold cfg_prog in H0.
    apply (aw_irrelevant text oc aw) in H0.
    set (c1 := mkConfig 1 0 text oc aw (nodes_prog pr)) in *.
    assert (Hm : forall nd, In nd (nodes_of c1) -> argerr (nd_path nd) = true -> nd_out nd = OErr).
    { intros nd Hin. apply nodes_of_in in Hin. apply Harg. exact Hin. }
    apply (erase_preserves argerr c1 _ Hm) in H0.
    change (remark_config argerr c1) with (mkConfig 1 0 text oc aw (nodes_full argerr pr)) in H0.
    apply (lift_preserves k n aw (nodes_full argerr pr) text oc _ Hk nodes_full_nodup) in H0.
    fold c in H0.
    unfold erase in H0. rewrite !filter_app in H0.
    fold (erase argerr (stage_pre (mkConfig 1 0 text oc true (nodes_prog pr)))) in H0.
    fold (erase argerr (stage_post (mkConfig 1 0 text oc true (nodes_prog pr)))) in H0.
    rewrite !erase_stage in H0 by (apply expand_stage).
    rewrite !flat_map_app in H0.
    unfold stage_pre, stage_post in H0 |- *. cbn [c_k c_text c_class] in H0.
    rewrite !(lift_expand k n aw (nodes_full argerr pr)) in H0.
    exact H0.
  Qed.

  (* Full strength for the middleware brackets: in the composed model the events
     of every resolved field are EXACTLY the word [Wk] -- for a runtime-deferred
     resolver under non-awaiting middlewares
        F+.. m(n-1)+..m0+ m0-..m(n-1)- Invoke Return|Raise F-..
     (the middlewares are left when the call has been submitted), otherwise the
     inline bracket word. The partial-order clause of the specification (exits
     unordered with respect to the resolver body) is only needed for runtimes
     in which a submitted resolver may start before submit returns. *)
  Theorem deferred_words_exact : forall sigma s text oc, is_exec oc = true ->
    run sigma pr = Some s -> pending (ms s) = [] ->
    let c := cfg_full k n aw argerr pr text oc in
    forall nd, In nd (nodes_of c) ->
    filter (about (nd_path nd)) (stage_pre c ++ deferred_fields k n aw argerr pr s ++ stage_post c)
    = Wk k n aw nd.
  Proof.
    intros sigma s text oc He Hrun Hp c nd Hin.
    pose proof (deferred_ok sigma pr s text oc Hcrash Hnd He Hrun Hp) as H0. cbn zeta in H0.
    apply trace_ok_decides in H0. unfold cfg_prog in H0.
    apply (aw_irrelevant text oc aw) in H0.
    set (c1 := mkConfig 1 0 text oc aw (nodes_prog pr)) in *.
    assert (Hm : forall nd, In nd (nodes_of c1) -> argerr (nd_path nd) = true -> nd_out nd = OErr).
    { intros nd0 Hin0. apply nodes_of_in in Hin0. apply Harg. exact Hin0. }
    apply (erase_preserves argerr c1 _ Hm) in H0.
    change (remark_config argerr c1) with (mkConfig 1 0 text oc aw (nodes_full argerr pr)) in H0.
    pose proof (lift_words_exact k n aw (nodes_full argerr pr) text oc _ nodes_full_nodup H0 nd Hin) as Hw.
    rewrite <- Hw. f_equal.
    unfold erase. rewrite !filter_app.
    fold (erase argerr (stage_pre (mkConfig 1 0 text oc true (nodes_prog pr)))).
    fold (erase argerr (stage_post (mkConfig 1 0 text oc true (nodes_prog pr)))).
    rewrite !erase_stage by (apply expand_stage).
    rewrite !flat_map_app.
    unfold stage_pre, stage_post. cbn [c_k c_text c_class].
    rewrite !(lift_expand k n aw (nodes_full argerr pr)). reflexivity.
  Qed.

  (* the whole request, every outcome class *)
  Theorem request_deferred_ok : forall sigma s text oc, wf_request text oc ->
    run sigma pr = Some s -> pending (ms s) = [] ->
    trace_spec (cfg_full k n aw argerr pr text oc) (request_deferred k n aw argerr pr text oc s).
  Proof.
    intros sigma s text oc Hwf Hrun Hp. unfold request_deferred.
    destruct (is_exec oc) eqn:He.
    - rewrite (process_split k n text oc (nodes_full argerr pr) aw _ Hwf). rewrite He. cbn [opt].
      apply (deferred_full_ok sigma s text oc He Hrun Hp).
    - apply trace_ok_decides. apply stage_only_ok; auto.
  Qed.
End RequestProofs.
