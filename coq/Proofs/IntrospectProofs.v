(* C15 -- proofs about Schema/IntrospectModel.v against Spec/IntrospectSpec.v *)
From PyGql Require Import Spec.IntrospectSpec Proofs.IntrospectJsonProofs.
From Coq Require Import Sorting.Permutation Sorting.Sorted Lia ZifyBool DecimalPos DecimalFacts.

(* ------------------------------------------------------------------ *)
(* the order on names *)

Lemma str_leb_refl a : str_leb a a = true.
Proof. induction a as [|x a IH]; simpl; [reflexivity|]. rewrite N.ltb_irrefl, N.eqb_refl. exact IH. Qed.

Lemma str_leb_antisym a b : str_leb a b = true -> str_leb b a = true -> a = b.
Proof.
  revert b; induction a as [|x a IH]; intros [|y b]; simpl; try discriminate; try reflexivity.
  destruct (N.ltb x y) eqn:Hxy; destruct (N.ltb y x) eqn:Hyx;
    destruct (N.eqb x y) eqn:Hexy; destruct (N.eqb y x) eqn:Heyx; try discriminate; try lia.
  intros H1 H2. apply N.eqb_eq in Hexy. subst. f_equal. auto.
Qed.

Lemma str_leb_trans a b c : str_leb a b = true -> str_leb b c = true -> str_leb a c = true.
Proof.
  revert b c; induction a as [|x a IH]; intros [|y b] [|z c]; simpl; try discriminate; try reflexivity.
  destruct (N.ltb x y) eqn:Hxy; destruct (N.ltb y z) eqn:Hyz; destruct (N.ltb x z) eqn:Hxz;
    destruct (N.eqb x y) eqn:Hexy; destruct (N.eqb y z) eqn:Heyz; destruct (N.eqb x z) eqn:Hexz;
    try discriminate; try reflexivity; try lia.
  intros; eapply IH; eauto.
Qed.

Lemma str_leb_total a b : str_leb a b = true \/ str_leb b a = true.
Proof.
  revert b; induction a as [|x a IH]; intros [|y b]; simpl; auto.
  destruct (N.ltb x y) eqn:Hxy; destruct (N.ltb y x) eqn:Hyx;
    destruct (N.eqb x y) eqn:Hexy; destruct (N.eqb y x) eqn:Heyx; auto; lia.
Qed.

Section SortFacts.
  Context {A : Type} (key : A -> str).
  Let le (x y : A) : Prop := str_leb (key x) (key y) = true.

  Lemma insert_by_perm x l : Permutation (insert_by key x l) (x :: l).
  Proof.
    induction l as [|y l IH]; simpl; [reflexivity|].
    destruct (str_leb (key x) (key y)); [reflexivity|].
    rewrite IH. apply perm_swap.
  Qed.

  Lemma sort_by_perm l : Permutation (sort_by key l) l.
  Proof.
    induction l as [|x l IH]; simpl; [reflexivity|].
    rewrite insert_by_perm. constructor. exact IH.
  Qed.

  Lemma insert_by_sorted x l : StronglySorted le l -> StronglySorted le (insert_by key x l).
  Proof.
    induction 1 as [|y l Hs IH Hall]; simpl.
    - constructor; constructor.
    - destruct (str_leb (key x) (key y)) eqn:Hxy.
      + constructor; [constructor; assumption|]. constructor; [exact Hxy|].
        eapply Forall_impl; [|exact Hall]. intros z Hz. unfold le in *. eapply str_leb_trans; eauto.
      + constructor; [exact IH|].
        assert (Hyx : le y x) by (unfold le; destruct (str_leb_total (key x) (key y)); congruence).
        eapply Permutation_Forall; [symmetry; apply insert_by_perm|]. constructor; assumption.
  Qed.

  Lemma sort_by_sorted l : StronglySorted le (sort_by key l).
  Proof. induction l; simpl; [constructor|apply insert_by_sorted; assumption]. Qed.

  Lemma key_inj_in l x y : NoDup (map key l) -> In x l -> In y l -> key x = key y -> x = y.
  Proof.
    induction l as [|z l IH]; simpl; [tauto|]. intros Hnd Hx Hy Hk. inversion Hnd as [|? ? Hnot Hnd']; subst.
    destruct Hx as [->|Hx], Hy as [->|Hy]; auto.
    - exfalso; apply Hnot. rewrite Hk. apply in_map; assumption.
    - exfalso; apply Hnot. rewrite <- Hk. apply in_map; assumption.
  Qed.

  (* two sorted arrangements of the same elements with pairwise distinct keys coincide *)
  Lemma sorted_unique l l' :
    StronglySorted le l -> StronglySorted le l' -> Permutation l l' -> NoDup (map key l) -> l = l'.
  Proof.
    revert l'; induction l as [|x l IH]; intros l' Hs Hs' Hp Hnd.
    - apply Permutation_nil in Hp; subst; reflexivity.
    - destruct l' as [|y l']; [apply Permutation_sym, Permutation_nil in Hp; discriminate|].
      inversion Hs as [|? ? Hsl Hall]; subst. inversion Hs' as [|? ? Hsl' Hall']; subst.
      assert (Hxy : x = y).
      { assert (Hx : In x (y :: l')) by (eapply Permutation_in; [exact Hp|left; reflexivity]).
        assert (Hy : In y (x :: l)) by (eapply Permutation_in; [symmetry; exact Hp|left; reflexivity]).
        destruct Hx as [->|Hx]; [reflexivity|]. destruct Hy as [->|Hy]; [reflexivity|].
        rewrite Forall_forall in Hall, Hall'.
        apply (key_inj_in (x :: l)); auto; [left; reflexivity|right; assumption|].
        apply str_leb_antisym; [apply Hall; assumption|apply Hall'; assumption]. }
      subst y. f_equal. apply IH; auto.
      + eapply Permutation_cons_inv; exact Hp.
      + inversion Hnd; assumption.
  Qed.

  Lemma sort_by_perm_eq l l' :
    Permutation l l' -> NoDup (map key l) -> sort_by key l = sort_by key l'.
  Proof.
    intros Hp Hnd. apply sorted_unique; try apply sort_by_sorted.
    - rewrite !sort_by_perm. exact Hp.
    - eapply Permutation_NoDup; [|exact Hnd]. apply Permutation_map. symmetry. apply sort_by_perm.
  Qed.
End SortFacts.

Lemma insert_by_map {A B} (f : A -> B) (kb : B -> str) (ka : A -> str) x l :
  (forall a, kb (f a) = ka a) -> insert_by kb (f x) (map f l) = map f (insert_by ka x l).
Proof.
  intros Hk. induction l as [|y l IH]; simpl; [reflexivity|].
  rewrite !Hk. destruct (str_leb (ka x) (ka y)); simpl; [reflexivity|]. rewrite IH. reflexivity.
Qed.

Lemma sort_by_map {A B} (f : A -> B) (kb : B -> str) (ka : A -> str) l :
  (forall a, kb (f a) = ka a) -> sort_by kb (map f l) = map f (sort_by ka l).
Proof.
  intros Hk. induction l as [|x l IH]; simpl; [reflexivity|].
  rewrite IH. apply insert_by_map. exact Hk.
Qed.

(* ------------------------------------------------------------------ *)
(* the answer does not depend on the order of the registries *)

Lemma find_type_perm {D} (ts ts' : list (itype D)) n :
  Permutation ts ts' -> NoDup (map t_name ts) -> find_type n ts = find_type n ts'.
Proof.
  induction 1 as [|x l l' Hp IH|x y l|l l' l'' Hp1 IH1 Hp2 IH2]; intros Hnd; simpl.
  - reflexivity.
  - inversion Hnd; subst. destruct (str_eqb n (t_name x)); auto.
  - destruct (str_eqb_spec n (t_name x)) as [Hx|Hx]; destruct (str_eqb_spec n (t_name y)) as [Hy|Hy]; auto.
    exfalso. simpl in Hnd. inversion Hnd as [|? ? Hnot _]; subst. apply Hnot. left. congruence.
  - rewrite IH1 by assumption. apply IH2.
    eapply Permutation_NoDup; [|exact Hnd]. apply Permutation_map; assumption.
Qed.

Section Ext.
  Variables ts ts' : list (itype pv).
  Hypothesis Hfind : forall n, find_type n ts = find_type n ts'.

  Lemma kind_of_name_ext n : kind_of_name ts n = kind_of_name ts' n.
  Proof. unfold kind_of_name. rewrite Hfind. reflexivity. Qed.

  Lemma type_ref_ext d t : type_ref ts d t = type_ref ts' d t.
  Proof.
    revert t; induction d as [|d IH]; intros t; destruct t; simpl; rewrite ?kind_of_name_ext, ?IH; reflexivity.
  Qed.

  Lemma input_value_answer_ext fl iv : input_value_answer fl ts iv = input_value_answer fl ts' iv.
  Proof. unfold input_value_answer, top_ref. rewrite type_ref_ext. reflexivity. Qed.

  Lemma field_answer_ext fl f : field_answer fl ts f = field_answer fl ts' f.
  Proof.
    unfold field_answer, top_ref. rewrite type_ref_ext.
    rewrite (map_ext _ _ (input_value_answer_ext fl)). reflexivity.
  Qed.

  Lemma directive_answer_ext fl d : directive_answer fl ts d = directive_answer fl ts' d.
  Proof. unfold directive_answer. rewrite (map_ext _ _ (input_value_answer_ext fl)). reflexivity. Qed.

  Lemma full_type_ext fl t :
    possible_types ts t = possible_types ts' t -> full_type fl ts t = full_type fl ts' t.
  Proof.
    intros Hpos. unfold full_type. rewrite Hpos.
    assert (Hr : forall l, map (fun n => top_ref ts (IRNamed n)) l = map (fun n => top_ref ts' (IRNamed n)) l).
    { intros l; apply map_ext; intros n; unfold top_ref; apply type_ref_ext. }
    destruct (possible_types ts' t); destruct (t_def t); simpl;
      rewrite ?(map_ext _ _ (field_answer_ext fl)), ?(map_ext _ _ (input_value_answer_ext fl)), ?Hr;
      reflexivity.
  Qed.
End Ext.

Lemma NoDup_map_filter {A} (key : A -> str) p l : NoDup (map key l) -> NoDup (map key (filter p l)).
Proof.
  induction l as [|x l IH]; simpl; [auto|]. intros Hnd; inversion Hnd as [|? ? Hnot Hnd']; subst.
  destruct (p x); simpl; auto. constructor; auto.
  intros Hin; apply Hnot. apply in_map_iff in Hin as (y & Hy & Hin). apply in_map_iff. exists y; split; auto.
  apply filter_In in Hin; tauto.
Qed.

Lemma Permutation_filter {A} (p : A -> bool) l l' : Permutation l l' -> Permutation (filter p l) (filter p l').
Proof.
  induction 1; simpl; auto.
  - destruct (p x); auto.
  - destruct (p x), (p y); auto. apply perm_swap.
  - etransitivity; eauto.
Qed.

Lemma possible_types_perm (ts ts' : list (itype pv)) t :
  Permutation ts ts' -> NoDup (map t_name ts) -> possible_types ts t = possible_types ts' t.
Proof.
  intros Hp Hnd. unfold possible_types, implementations. destruct (t_def t); try reflexivity.
  f_equal. apply sort_by_perm_eq.
  - apply Permutation_map, Permutation_filter, Hp.
  - rewrite map_id. apply NoDup_map_filter. exact Hnd.
Qed.

Lemma introspect_order_invariant (s s' : ischema pv) fl :
  Permutation (s_types s) (s_types s') -> Permutation (s_directives s) (s_directives s') ->
  NoDup (map t_name (s_types s)) -> NoDup (map dr_name (s_directives s)) ->
  s_query s = s_query s' -> s_mutation s = s_mutation s' -> s_subscription s = s_subscription s' ->
  introspect_model s fl = introspect_model s' fl.
Proof.
  intros Hpt Hpd Hnt Hnd Hq Hm Hs. unfold introspect_model, schema_answer, sorted_types, sorted_directives.
  rewrite Hq, Hm, Hs.
  rewrite <- (sort_by_perm_eq t_name _ _ Hpt Hnt), <- (sort_by_perm_eq dr_name _ _ Hpd Hnd).
  assert (Hfind : forall n, find_type n (s_types s) = find_type n (s_types s'))
    by (intros n; apply find_type_perm; assumption).
  rewrite (map_ext _ _ (directive_answer_ext _ _ Hfind fl)).
  rewrite (map_ext _ _ (fun t => full_type_ext _ _ Hfind fl t (possible_types_perm _ _ t Hpt Hnt))).
  reflexivity.
Qed.

(* the same for a __type(name:) query *)
Lemma type_query_order_invariant (s s' : ischema pv) fl n :
  Permutation (s_types s) (s_types s') -> NoDup (map t_name (s_types s)) ->
  type_query_model s fl n = type_query_model s' fl n.
Proof.
  intros Hpt Hnt. unfold type_query_model.
  assert (Hfind : forall n, find_type n (s_types s) = find_type n (s_types s'))
    by (intros m; apply find_type_perm; assumption).
  rewrite <- Hfind. destruct (find_type n (s_types s)); [|reflexivity].
  rewrite (full_type_ext _ _ Hfind fl i (possible_types_perm _ _ i Hpt Hnt)). reflexivity.
Qed.

(* what is sorted: the reported types, directives and possible types *)
Lemma reported_types_sorted (s : ischema pv) :
  StronglySorted str_le (map t_name (sorted_types s)) /\ Permutation (sorted_types s) (s_types s).
Proof.
  split; [|apply sort_by_perm]. unfold sorted_types.
  generalize (sort_by_sorted t_name (s_types s)). induction 1; simpl; constructor; auto.
  rewrite Forall_map. assumption.
Qed.

Lemma reported_directives_sorted (s : ischema pv) :
  StronglySorted str_le (map dr_name (sorted_directives s)) /\ Permutation (sorted_directives s) (s_directives s).
Proof.
  split; [|apply sort_by_perm]. unfold sorted_directives.
  generalize (sort_by_sorted dr_name (s_directives s)). induction 1; simpl; constructor; auto.
  rewrite Forall_map. assumption.
Qed.

Lemma possible_types_sorted (ts : list (itype pv)) t l :
  possible_types ts t = Some l ->
  StronglySorted str_le l /\
  (forall n, In n l <-> match t_def t with
                        | IUnion ms => In n ms
                        | IInterface _ => exists o, In o ts /\ t_name o = n /\ implements (t_name t) o = true
                        | _ => False end).
Proof.
  unfold possible_types. destruct (t_def t) eqn:Hd; try discriminate; intros H; inversion H; subst; clear H.
  - split.
    + generalize (sort_by_sorted (fun n : str => n) (implementations ts (t_name t))).
      induction 1; constructor; auto.
    + intros n. split.
      * intros Hin. apply (Permutation_in _ (sort_by_perm _ _)) in Hin.
        unfold implementations in Hin. apply in_map_iff in Hin as (o & Ho & Hin). apply filter_In in Hin.
        exists o; tauto.
      * intros (o & Hin & Hn & Hi). apply (Permutation_in _ (Permutation_sym (sort_by_perm _ _))).
        unfold implementations. apply in_map_iff. exists o; split; auto. apply filter_In; auto.
  - split.
    + generalize (sort_by_sorted (fun n : str => n) members). induction 1; constructor; auto.
    + intros n; split; intros Hin.
      * apply (Permutation_in _ (sort_by_perm _ _)) in Hin; assumption.
      * apply (Permutation_in _ (Permutation_sym (sort_by_perm _ _))); assumption.
Qed.

(* ------------------------------------------------------------------ *)
(* deprecated members are hidden unless requested *)

Lemma names_of_map {A} (ans : A -> pv) (nm : A -> str) l :
  (forall x, as_str (getk (S_ "name") (ans x)) = Some (nm x)) ->
  names_of (map ans l) = Some (map nm l).
Proof.
  intros H. unfold names_of. induction l as [|x l IH]; simpl; [reflexivity|].
  rewrite H. simpl in IH. rewrite IH. reflexivity.
Qed.

Lemma field_answer_name fl ts f : as_str (getk (S_ "name") (field_answer fl ts f)) = Some (f_name f).
Proof. reflexivity. Qed.
Lemma enum_value_answer_name fl e : as_str (getk (S_ "name") (enum_value_answer fl e)) = Some (ev_name e).
Proof. reflexivity. Qed.
Lemma input_value_answer_name fl ts iv : as_str (getk (S_ "name") (input_value_answer fl ts iv)) = Some (iv_name iv).
Proof. reflexivity. Qed.

Lemma full_type_fields fl ts t :
  getk (S_ "fields") (full_type fl ts t) =
  Some (opt_list match t_def t with
                 | IObject fs _ => Some (map (field_answer fl ts) (visible_fields fl fs))
                 | IInterface fs => Some (map (field_answer fl ts) (visible_fields fl fs))
                 | _ => None end).
Proof. unfold full_type, desc_entry. destruct (with_descriptions fl); reflexivity. Qed.

Lemma full_type_enum_values fl ts t :
  getk (S_ "enumValues") (full_type fl ts t) =
  Some (opt_list match t_def t with
                 | IEnum vs => Some (map (enum_value_answer fl) (visible_values fl vs))
                 | _ => None end).
Proof. unfold full_type, desc_entry. destruct (with_descriptions fl); reflexivity. Qed.

Lemma reported_fields fl ts t fs :
  (exists ifs, t_def t = IObject fs ifs) \/ t_def t = IInterface fs ->
  member_names (S_ "fields") (full_type fl ts t) = Some (map f_name (visible_fields fl fs)).
Proof.
  intros Hd. unfold member_names. rewrite full_type_fields.
  destruct Hd as [[ifs Hd]|Hd]; rewrite Hd; simpl; apply names_of_map; intros; apply field_answer_name.
Qed.

Lemma reported_enum_values fl ts t vs :
  t_def t = IEnum vs ->
  member_names (S_ "enumValues") (full_type fl ts t) = Some (map ev_name (visible_values fl vs)).
Proof.
  intros Hd. unfold member_names. rewrite full_type_enum_values, Hd. simpl.
  apply names_of_map; intros; apply enum_value_answer_name.
Qed.

Lemma visible_fields_hidden {D} fl (fs : list (ifield D)) :
  include_deprecated fl = false -> visible_fields fl fs = filter (fun f => negb (f_deprecated f)) fs.
Proof.
  intros H. unfold visible_fields. induction fs as [|f fs IH]; simpl; [reflexivity|].
  rewrite IH, H, orb_false_r. reflexivity.
Qed.
Lemma visible_fields_all {D} fl (fs : list (ifield D)) :
  include_deprecated fl = true -> visible_fields fl fs = fs.
Proof.
  intros H. unfold visible_fields. induction fs as [|f fs IH]; simpl; [reflexivity|].
  rewrite IH, H, orb_true_r. reflexivity.
Qed.
Lemma visible_values_hidden fl vs :
  include_deprecated fl = false -> visible_values fl vs = filter (fun v => negb (ev_deprecated v)) vs.
Proof.
  intros H. unfold visible_values. induction vs as [|f fs IH]; simpl; [reflexivity|].
  rewrite IH, H, orb_false_r. reflexivity.
Qed.
Lemma visible_values_all fl vs : include_deprecated fl = true -> visible_values fl vs = vs.
Proof.
  intros H. unfold visible_values. induction vs as [|f fs IH]; simpl; [reflexivity|].
  rewrite IH, H, orb_true_r. reflexivity.
Qed.

(* the answer for the type called n, inside the full introspection answer *)
Lemma answer_named_cons n x l :
  answer_named n (x :: l) = match as_str (getk (S_ "name") x) with
                            | Some m => if str_eqb n m then Some x else answer_named n l
                            | None => answer_named n l end.
Proof. reflexivity. Qed.

Lemma answer_named_full_type fl ts (l : list (itype pv)) n t :
  find_type n l = Some t -> answer_named n (map (full_type fl ts) l) = Some (full_type fl ts t).
Proof.
  induction l as [|x l IH]; [discriminate|].
  assert (Hn : as_str (getk (S_ "name") (full_type fl ts x)) = Some (t_name x)) by reflexivity.
  change (map (full_type fl ts) (x :: l)) with (full_type fl ts x :: map (full_type fl ts) l).
  rewrite answer_named_cons, Hn. cbn [find_type].
  destruct (str_eqb n (t_name x)); [intros H; inversion H; reflexivity|exact IH].
Qed.

Lemma find_type_In {D} n (l : list (itype D)) t : find_type n l = Some t -> In t l /\ t_name t = n.
Proof.
  induction l as [|x l IH]; simpl; [discriminate|].
  destruct (str_eqb_spec n (t_name x)); [intros H; inversion H; subst; auto|intros H; destruct (IH H); auto].
Qed.

Lemma find_type_complete {D} (l : list (itype D)) t :
  In t l -> NoDup (map t_name l) -> find_type (t_name t) l = Some t.
Proof.
  induction l as [|x l IH]; simpl; [tauto|]. intros [->|Hin] Hnd.
  - rewrite str_eqb_refl. reflexivity.
  - inversion Hnd as [|? ? Hnot Hnd']; subst. destruct (str_eqb_spec (t_name t) (t_name x)) as [He|He]; auto.
    exfalso. apply Hnot. rewrite <- He. apply in_map. assumption.
Qed.

Lemma schema_part_types s fl :
  schema_part (S_ "types") (introspect_model s fl) = Some (map (full_type fl (s_types s)) (sorted_types s)).
Proof. reflexivity. Qed.
Lemma schema_part_directives s fl :
  schema_part (S_ "directives") (introspect_model s fl) =
  Some (map (directive_answer fl (s_types s)) (sorted_directives s)).
Proof. reflexivity. Qed.

(* ------------------------------------------------------------------ *)
(* probe executor: __typename and the disable switch *)

Ltac inv_some :=
  repeat match goal with
         | H : Some _ = Some _ |- _ => inversion H; subst; clear H
         | H : None = Some _ |- _ => discriminate H
         | H : option_map _ ?x = Some _ |- _ => destruct x eqn:?; simpl in H
         end.

Lemma complete_value_rel s rec rec' t sub sub' :
  (forall ty v r, rec ty v sub = Some r -> rec' ty v sub' = Some r) ->
  (sub = [] -> sub' = []) ->
  forall v r, complete_value s rec t sub v = Some r -> complete_value s rec' t sub' v = Some r.
Proof.
  intros Hrec Hnil. induction t as [n|t IH|t IH]; intros v r H.
  - simpl in *.
    assert (Hcore :
      match find_type n (s_types s) with
      | Some ty =>
          if is_object ty then option_map PDict (rec ty v sub)
          else if is_abstract ty
               then match v with
                    | PDict kvs =>
                        match alookup (S_ "__typename__") kvs with
                        | Some (PStr rn) =>
                            match find_type rn (s_types s) with
                            | Some rt => if is_object rt && is_possible (s_types s) ty rn
                                         then option_map PDict (rec rt v sub) else None
                            | None => None end
                        | _ => None end
                    | _ => None end
               else match sub with [] => Some v | _ :: _ => None end
      | None => None end = Some r ->
      match find_type n (s_types s) with
      | Some ty =>
          if is_object ty then option_map PDict (rec' ty v sub')
          else if is_abstract ty
               then match v with
                    | PDict kvs =>
                        match alookup (S_ "__typename__") kvs with
                        | Some (PStr rn) =>
                            match find_type rn (s_types s) with
                            | Some rt => if is_object rt && is_possible (s_types s) ty rn
                                         then option_map PDict (rec' rt v sub') else None
                            | None => None end
                        | _ => None end
                    | _ => None end
               else match sub' with [] => Some v | _ :: _ => None end
      | None => None end = Some r).
    { destruct (find_type n (s_types s)) as [ty|]; [|discriminate].
      destruct (is_object ty).
      - destruct (rec ty v sub) eqn:Hr; simpl; [|discriminate]. rewrite (Hrec _ _ _ Hr). auto.
      - destruct (is_abstract ty).
        + destruct v; try discriminate. destruct (alookup (S_ "__typename__") kvs) as [[]|]; try discriminate.
          destruct (find_type s0 (s_types s)) as [rt|]; [|discriminate].
          destruct (is_object rt && is_possible (s_types s) ty s0); [|discriminate].
          destruct (rec rt (PDict kvs) sub) eqn:Hr; simpl; [|discriminate]. rewrite (Hrec _ _ _ Hr). auto.
        + destruct sub; [|discriminate]. rewrite (Hnil eq_refl). auto. }
    destruct v; auto.
  - simpl in *. destruct v; auto.
    destruct (fold_right _ _ l) as [rs|] eqn:Hf in H; simpl in H; [|discriminate]. inversion H; subst; clear H.
    assert (Hl : fold_right (fun x acc => match complete_value s rec' t sub' x, acc with
                                          | Some r, Some rs => Some (r :: rs) | _, _ => None end)
                            (Some []) l = Some rs).
    { revert rs Hf. induction l as [|x l IHl]; simpl; intros rs Hf; [assumption|].
      destruct (complete_value s rec t sub x) eqn:Hx; [|discriminate].
      destruct (fold_right _ _ l) as [rs'|] eqn:Hf'; [|discriminate].
      rewrite (IH _ _ Hx), (IHl _ eq_refl). assumption. }
    rewrite Hl. reflexivity.
  - simpl in *. destruct (complete_value s rec t sub v) as [x|] eqn:Hx; [|discriminate].
    rewrite (IH _ _ Hx). assumption.
Qed.

Lemma exec_one_rel rec rec' dis s parent value p q :
  (forall sub, (forall ty v r, rec ty v sub = Some r -> rec' ty v sub = Some r)) ->
  exec_one rec dis s parent value p = Some q -> exec_one rec' dis s parent value p = Some q.
Proof.
  intros Hrec. unfold exec_one. destruct (field_definition dis s parent (psel_name p)); destruct p;
    try (intros H; exact H).
  destruct (complete_value s rec (f_type f) sub _) eqn:Hc; [|discriminate].
  rewrite (complete_value_rel s rec rec' (f_type f) sub sub (Hrec sub) (fun e => e) _ _ Hc). auto.
Qed.

(* more fuel never changes a result *)
Lemma exec_sels_mono fuel dis s : forall parent value sels r,
  exec_sels fuel dis s parent value sels = Some r -> exec_sels (S fuel) dis s parent value sels = Some r.
Proof.
  induction fuel as [|f IH]; intros parent value sels r H; [discriminate|].
  cbn [exec_sels] in H. change (exec_sels (S (S f)) dis s parent value sels) with
    (match sels with
     | [] => Some []
     | p :: rest =>
         match exec_one (exec_sels (S f) dis s) dis s parent value p,
               exec_sels (S f) dis s parent value rest with
         | Some None, Some r => Some r
         | Some (Some kv), Some r => Some (kv :: r)
         | _, _ => None end end).
  destruct sels as [|p rest]; [assumption|].
  destruct (exec_one (exec_sels f dis s) dis s parent value p) as [q|] eqn:H1; [|discriminate].
  destruct (exec_sels f dis s parent value rest) as [r'|] eqn:H2; [|destruct q; discriminate].
  rewrite (exec_one_rel _ (exec_sels (S f) dis s) _ _ _ _ _ _ (fun sub ty v r => IH ty v sub r) H1).
  rewrite (IH _ _ _ _ H2). assumption.
Qed.

(* __typename reports the object type whose fields are being executed *)
Lemma field_definition_typename s parent : field_definition false s parent (S_ "__typename") = FDTypename.
Proof. reflexivity. Qed.

Lemma exec_sels_typename fuel s : forall parent value sels r k,
  exec_sels fuel false s parent value sels = Some r ->
  In (PSTypename k) sels -> In (k, PStr (t_name parent)) r.
Proof.
  induction fuel as [|f IH]; intros parent value sels r k H Hin; [discriminate|].
  cbn [exec_sels] in H. destruct sels as [|p rest]; [destruct Hin|].
  destruct (exec_one (exec_sels f false s) false s parent value p) as [q|] eqn:H1; [|discriminate].
  destruct (exec_sels f false s parent value rest) as [r'|] eqn:H2; [|destruct q; discriminate].
  destruct Hin as [->|Hin].
  - unfold exec_one in H1. cbn [psel_name] in H1. rewrite field_definition_typename in H1.
    inversion H1; subst. inversion H; subst. left; reflexivity.
  - specialize (IH _ _ _ _ k H2 Hin). destruct q; inversion H; subst; [right|]; assumption.
Qed.

(* at a composite position the selection is executed on an object type of
   the schema: the field's own type when it is an object type, otherwise the
   possible type of the abstract type named by the value *)
Lemma complete_value_runtime_type s rec n sub v r :
  complete_value s rec (IRNamed n) sub v = Some (PDict r) -> v <> PNone ->
  (exists x, sub = x :: tl sub) ->
  exists ty rt, find_type n (s_types s) = Some ty /\ rec rt v sub = Some r /\ is_object rt = true /\
                (rt = ty \/ (is_abstract ty = true /\ is_possible (s_types s) ty (t_name rt) = true /\
                             exists kvs, v = PDict kvs /\
                                         alookup (S_ "__typename__") kvs = Some (PStr (t_name rt)))).
Proof.
  intros H Hv [x Hsub]. simpl in H.
  assert (Hcore :
    match find_type n (s_types s) with
    | Some ty =>
        if is_object ty then option_map PDict (rec ty v sub)
        else if is_abstract ty
             then match v with
                  | PDict kvs =>
                      match alookup (S_ "__typename__") kvs with
                      | Some (PStr rn) =>
                          match find_type rn (s_types s) with
                          | Some rt => if is_object rt && is_possible (s_types s) ty rn
                                       then option_map PDict (rec rt v sub) else None
                          | None => None end
                      | _ => None end
                  | _ => None end
             else match sub with [] => Some v | _ :: _ => None end
    | None => None end = Some (PDict r)) by (destruct v; auto; contradiction).
  clear H. destruct (find_type n (s_types s)) as [ty|]; [|discriminate].
  destruct (is_object ty) eqn:Ho.
  - destruct (rec ty v sub) eqn:Hr; simpl in Hcore; [|discriminate]. inversion Hcore; subst.
    exists ty, ty. auto.
  - destruct (is_abstract ty) eqn:Ha.
    + destruct v; try discriminate. destruct (alookup (S_ "__typename__") kvs) as [[]|] eqn:Hk; try discriminate.
      destruct (find_type s0 (s_types s)) as [rt|] eqn:Hrt; [|discriminate].
      destruct (is_object rt && is_possible (s_types s) ty s0) eqn:Hc; [|discriminate].
      destruct (rec rt (PDict kvs) sub) eqn:Hr; simpl in Hcore; [|discriminate]. inversion Hcore; subst.
      apply andb_true_iff in Hc as [Hc1 Hc2]. apply find_type_In in Hrt as [_ Hrn]. subst s0.
      exists ty, rt. repeat split; auto. right. repeat split; auto. exists kvs; auto.
    + rewrite Hsub in Hcore. discriminate.
Qed.

Lemma field_definition_ordinary dis s parent n :
  is_meta_name n = false -> field_definition dis s parent n = field_definition false s parent n.
Proof. intros H. unfold field_definition. rewrite H. reflexivity. Qed.

Lemma field_definition_disabled_meta s parent n :
  is_meta_name n = true -> field_definition true s parent n = FDNone.
Proof. intros H. unfold field_definition. rewrite H. reflexivity. Qed.

Lemma exec_sels_S fuel dis s parent value p rest :
  exec_sels (S fuel) dis s parent value (p :: rest) =
  match exec_one (exec_sels fuel dis s) dis s parent value p, exec_sels fuel dis s parent value rest with
  | Some None, Some r => Some r
  | Some (Some kv), Some r => Some (kv :: r)
  | _, _ => None end.
Proof. reflexivity. Qed.

(* with the switch on, the meta-fields vanish and every ordinary field is
   resolved exactly as without it *)
Lemma exec_sels_disabled fuel s : forall parent value sels r,
  forallb sel_wf sels = true ->
  exec_sels fuel true s parent value sels = Some r ->
  exec_sels fuel false s parent value (erase_meta sels) = Some r.
Proof.
  induction fuel as [|f IH]; intros parent value sels r Hwf H; [discriminate|].
  destruct sels as [|p rest]; [exact H|].
  rewrite exec_sels_S in H. simpl in Hwf. apply andb_true_iff in Hwf as [Hp Hrest].
  destruct (exec_one (exec_sels f true s) true s parent value p) as [q|] eqn:H1; [|discriminate].
  destruct (exec_sels f true s parent value rest) as [r'|] eqn:H2; [|destruct q; discriminate].
  pose proof (IH _ _ _ _ Hrest H2) as IHrest.
  destruct p as [k n sub|k|k|k fl n].
  - simpl in Hp. apply andb_true_iff in Hp as [Hn Hsub]. apply negb_true_iff in Hn.
    change (erase_meta (PSField k n sub :: rest)) with (PSField k n (erase_meta sub) :: erase_meta rest).
    rewrite exec_sels_S, IHrest.
    unfold exec_one in *. cbn [psel_name] in *. rewrite (field_definition_ordinary true) in H1 by assumption.
    destruct (field_definition false s parent n) as [| | | |fd|]; cbv beta iota in *;
      try (inversion H1; subst; exact H); try discriminate H1.
    destruct (complete_value s (exec_sels f true s) (f_type fd) sub _) eqn:Hc; [|discriminate].
    rewrite (complete_value_rel s (exec_sels f true s) (exec_sels f false s) (f_type fd) sub (erase_meta sub)
               (fun ty v r0 Hr => IH ty v sub r0 Hsub Hr) (fun e => f_equal erase_meta e) _ _ Hc).
    inversion H1; subst. exact H.
  - change (erase_meta (PSTypename k :: rest)) with (erase_meta rest).
    unfold exec_one in H1. cbn [psel_name] in H1. rewrite field_definition_disabled_meta in H1 by reflexivity.
    inversion H1; subst. inversion H; subst. apply exec_sels_mono. exact IHrest.
  - change (erase_meta (PSSchema k :: rest)) with (erase_meta rest).
    unfold exec_one in H1. cbn [psel_name] in H1. rewrite field_definition_disabled_meta in H1 by reflexivity.
    inversion H1; subst. inversion H; subst. apply exec_sels_mono. exact IHrest.
  - change (erase_meta (PSType k fl n :: rest)) with (erase_meta rest).
    unfold exec_one in H1. cbn [psel_name] in H1. rewrite field_definition_disabled_meta in H1 by reflexivity.
    inversion H1; subst. inversion H; subst. apply exec_sels_mono. exact IHrest.
Qed.

(* on a selection without meta-fields the switch changes nothing at all *)
Lemma exec_sels_switch_irrelevant fuel s : forall parent value sels,
  forallb sel_meta_free sels = true ->
  exec_sels fuel true s parent value sels = exec_sels fuel false s parent value sels.
Proof.
  induction fuel as [|f IH]; intros parent value sels Hmf; [reflexivity|].
  destruct sels as [|p rest]; [reflexivity|].
  rewrite !exec_sels_S. simpl in Hmf. apply andb_true_iff in Hmf as [Hp Hrest].
  rewrite (IH _ _ _ Hrest).
  destruct p as [k n sub|k|k|k fl n]; try discriminate.
  simpl in Hp. apply andb_true_iff in Hp as [Hn Hsub]. apply negb_true_iff in Hn.
  unfold exec_one. cbn [psel_name]. rewrite (field_definition_ordinary true) by assumption.
  destruct (field_definition false s parent n); try reflexivity.
  assert (Hc : forall t v, complete_value s (exec_sels f true s) t sub v =
                           complete_value s (exec_sels f false s) t sub v).
  { intros t v.
    destruct (complete_value s (exec_sels f true s) t sub v) as [a|] eqn:Ha.
    - symmetry. eapply complete_value_rel; [| |exact Ha]; [|auto].
      intros ty v0 r0 Hr. rewrite <- (IH _ _ _ Hsub). exact Hr.
    - destruct (complete_value s (exec_sels f false s) t sub v) as [b|] eqn:Hb; [|reflexivity].
      rewrite <- Ha. eapply complete_value_rel; [| |exact Hb]; [|auto].
      intros ty v0 r0 Hr. rewrite (IH _ _ _ Hsub). exact Hr. }
  rewrite Hc. reflexivity.
Qed.

(* the switch itself: field_definition *)
Lemma field_definition_switch s parent n :
  (is_meta_name n = true -> field_definition true s parent n = FDNone) /\
  (is_meta_name n = false -> field_definition true s parent n = field_definition false s parent n).
Proof. split; [apply field_definition_disabled_meta|apply field_definition_ordinary]. Qed.

(* ------------------------------------------------------------------ *)
(* reading back the defaults that are rendered correctly *)

Lemma digit_facts c : is_digit c = true ->
  is_num_char c = true /\ is_float_mark c = false /\ is_ignored c = false /\
  N.eqb c 34 = false /\ N.eqb c 45 = false /\ N.eqb c 91 = false /\ N.eqb c 123 = false.
Proof. unfold is_num_char, is_float_mark, is_ignored, is_digit. intros H. repeat split; lia. Qed.

Lemma uint_digits_all u : forallb is_digit (uint_digits u) = true.
Proof. induction u; simpl; auto. Qed.

Lemma digits_uint_digits u : digits_uint (uint_digits u) = Some u.
Proof. induction u; simpl; rewrite ?IHu; reflexivity. Qed.

Lemma span_all p s : forallb p s = true -> span p s = (s, []).
Proof.
  induction s as [|c s IH]; simpl; [reflexivity|]. intros H. apply andb_true_iff in H as [Hc Hs].
  rewrite Hc, (IH Hs). reflexivity.
Qed.

Lemma forallb_impl {A} (p q : A -> bool) l : (forall x, p x = true -> q x = true) -> forallb p l = true -> forallb q l = true.
Proof. intros Hpq. induction l; simpl; auto. intros H. apply andb_true_iff in H as [H1 H2]. rewrite Hpq, IHl; auto. Qed.

Lemma existsb_none {A} (p q : A -> bool) l : (forall x, p x = true -> q x = false) -> forallb p l = true -> existsb q l = false.
Proof. intros Hpq. induction l; simpl; auto. intros H. apply andb_true_iff in H as [H1 H2]. rewrite Hpq, IHl; auto. Qed.

Lemma to_uint_norm p : Decimal.unorm (Pos.to_uint p) = Pos.to_uint p.
Proof.
  rewrite <- (DecimalPos.Unsigned.to_of (Pos.to_uint p)), DecimalPos.Unsigned.of_to. reflexivity.
Qed.

Lemma to_uint_head p : exists c r, uint_digits (Pos.to_uint p) = c :: r /\ is_digit c = true.
Proof.
  pose proof (uint_digits_all (Pos.to_uint p)) as Hall.
  destruct (uint_digits (Pos.to_uint p)) as [|c r] eqn:Hd.
  - exfalso. pose proof (DecimalPos.Unsigned.of_to p) as Hof.
    destruct (Pos.to_uint p); simpl in *; discriminate.
  - simpl in Hall. apply andb_true_iff in Hall as [Hc _]. exists c, r. auto.
Qed.

Lemma read_number_pos neg p :
  read_number neg (uint_digits (Pos.to_uint p)) = Some (LInt (if neg then Zneg p else Zpos p), []).
Proof.
  unfold read_number. pose proof (uint_digits_all (Pos.to_uint p)) as Hall.
  rewrite (span_all is_num_char) by (eapply forallb_impl; [|exact Hall]; intros x Hx; apply digit_facts; assumption).
  rewrite (existsb_none is_digit is_float_mark) by (auto; intros x Hx; apply digit_facts; assumption).
  unfold nat_of_digits. destruct (to_uint_head p) as (c & r & Hd & Hc). rewrite Hd. rewrite <- Hd.
  rewrite digits_uint_digits, to_uint_norm, str_eqb_refl, DecimalPos.Unsigned.of_to.
  destruct neg; reflexivity.
Qed.

Lemma parse_value_scalar f c r :
  is_ignored c = false -> N.eqb c 91 = false -> N.eqb c 123 = false ->
  parse_value (S f) (c :: r) = scalar_token (c :: r).
Proof. intros H1 H2 H3. cbn [parse_value skip_ignored]. rewrite H1, H2, H3. reflexivity. Qed.

Lemma parse_lit_int z : parse_lit (dec_of_Z z) = Some (LInt z).
Proof.
  destruct z as [|p|p]; [reflexivity| |].
  - unfold parse_lit, dec_of_Z. destruct (to_uint_head p) as (c & r & Hd & Hc).
    pose proof (read_number_pos false p) as Hn. rewrite Hd in *.
    destruct (digit_facts c Hc) as (_ & _ & Hi & H34 & H45 & H91 & H123).
    rewrite parse_value_scalar by assumption. unfold scalar_token. rewrite H34, H45, Hc. unfold char in *. rewrite Hn. reflexivity.
  - unfold parse_lit, dec_of_Z. destruct (to_uint_head p) as (c & r & Hd & Hc).
    pose proof (read_number_pos true p) as Hn. rewrite Hd in *.
    rewrite parse_value_scalar by reflexivity. unfold scalar_token.
    change (N.eqb 45 34) with false. change (N.eqb 45 45) with true. cbv beta iota. unfold char in *.
    rewrite Hc, Hn. reflexivity.
Qed.

Lemma read_string_plain x : forallb plain_char x = true -> read_string (x ++ [34%N]) = Some (x, []).
Proof.
  induction x as [|c x IH]; intros H; [reflexivity|].
  simpl in H. apply andb_true_iff in H as [Hc Hx]. specialize (IH Hx).
  unfold plain_char in Hc. cbn [app read_string].
  assert (H34 : N.eqb c 34 = false) by lia. assert (H92 : N.eqb c 92 = false) by lia.
  assert (Hnl : N.eqb c 10 || N.eqb c 13 = false) by lia.
  assert (Hok : negb (N.leb 32 c || N.eqb c 9) = false) by lia.
  rewrite H34, H92, Hnl, Hok, IH. reflexivity.
Qed.

Lemma parse_lit_string x : forallb plain_char x = true -> parse_lit (34%N :: x ++ [34%N]) = Some (LStr x).
Proof.
  intros H. unfold parse_lit. rewrite parse_value_scalar by reflexivity.
  pose proof (read_string_plain x H) as Hr. unfold scalar_token. change (N.eqb 34 34) with true. cbv beta iota.
  destruct x as [|c2 x]; [reflexivity|].
  simpl in H. apply andb_true_iff in H as [Hc _]. unfold plain_char in Hc.
  assert (H34 : N.eqb c2 34 = false) by lia.
  destruct x as [|c3 x]; cbn [app] in *; rewrite H34; cbn [andb]; rewrite Hr; reflexivity.
Qed.

Lemma leaf_lit_scalar {D} (ts : list (itype D)) n v : is_scalar_name ts n = true -> leaf_lit ts n v = plain_lit v.
Proof.
  unfold is_scalar_name, leaf_lit. destruct (find_type n ts) as [[? ? []]|]; try discriminate; reflexivity.
Qed.

Lemma strip_non_null_base t t' : strip_non_null t = IRList t' -> iref_base t' = iref_base t.
Proof. induction t; simpl; intros H; try discriminate; auto. inversion H; reflexivity. Qed.

(* at a scalar-typed position the declared default denotes itself *)
Lemma lit_of_default_scalar (ts : list (itype pv)) v : forall t,
  is_scalar_name ts (iref_base t) = true -> lit_of_default ts v t = plain_lit v.
Proof.
  induction v as [|b|z|r|x|l IH|kvs IH] using pv_ind'; intros t Hs;
    try (unfold lit_of_default; apply leaf_lit_scalar; exact Hs); try reflexivity.
  - change (lit_of_default ts (PList l) t) with
      (match strip_non_null t with
       | IRList t' => LList (map (fun x => lit_of_default ts x t') l)
       | _ => plain_lit (PList l) end).
    destruct (strip_non_null t) as [| t' |] eqn:Hst; try reflexivity.
    rewrite plain_lit_list. f_equal. apply map_ext_in. intros x Hx.
    rewrite Forall_forall in IH. apply IH; [exact Hx|].
    rewrite (strip_non_null_base _ _ Hst). exact Hs.
  - unfold is_scalar_name in Hs. cbn [lit_of_default].
    destruct (find_type (iref_base t) ts) as [[? ? []]|]; try discriminate. reflexivity.
Qed.

Lemma default_okb_inv (ts : list (itype pv)) t v : default_okb ts t v = true ->
  v = PNone \/
  (is_scalar_name ts (iref_base t) = true /\ scalar_denotable v = true /\
   match v with
   | PStr x => forallb plain_char x = true
   | PList _ => has_astral v = false
   | _ => True end).
Proof.
  unfold default_okb, in_open_finding, denotable, class_enum, class_input_object, class_string_escape,
    class_astral_in_list, base_def, is_scalar_name.
  destruct v as [|b|z|r|x|l|kvs]; [left; reflexivity|..]; intros H; right;
    destruct (find_type (iref_base t) ts) as [[? ? []]|]; simpl in H; try discriminate;
    repeat split; auto; try (apply andb_true_iff in H as [H1 H2]; auto).
  - rewrite orb_false_r, negb_involutive in H1. exact H1.
  - rewrite ?orb_false_r in H1. apply negb_true_iff in H1. exact H1.
Qed.

Lemma decode_default_ok (ts : list (itype pv)) t d :
  match d with Some v => default_ok ts t v | None => True end ->
  decode_default (Some (format_default_value d)) = Some (option_map (fun v => lit_of_default ts v t) d).
Proof.
  destruct d as [v|]; [|reflexivity]. intros Hok. apply default_okb_inv in Hok as [->|(Hs & Hd & Hx)]; [reflexivity|].
  cbn [option_map]. rewrite (lit_of_default_scalar ts v t Hs).
  destruct v as [|b|z|r|x|l|kvs]; try discriminate.
  - reflexivity.
  - destruct b; reflexivity.
  - change (format_default_value (Some (PInt z))) with (PStr (json_dumps (PInt z))).
    cbn [decode_default]. rewrite parse_lit_json by (auto; reflexivity). reflexivity.
  - change (format_default_value (Some (PFloat r))) with (PStr (json_dumps (PFloat r))).
    cbn [decode_default]. rewrite parse_lit_json by (auto; reflexivity). reflexivity.
  - cbn [format_default_value decode_default]. rewrite parse_lit_string by assumption. reflexivity.
  - change (format_default_value (Some (PList l))) with (PStr (json_dumps (PList l))).
    cbn [decode_default]. rewrite parse_lit_json by assumption. reflexivity.
Qed.

(* ------------------------------------------------------------------ *)
(* decode is a left inverse of the introspection answer *)

Lemma kind_of_def_not_wrapper {D} (d : itypedef D) :
  str_eqb (kind_of_def d) (S_ "LIST") = false /\ str_eqb (kind_of_def d) (S_ "NON_NULL") = false.
Proof. destruct d; split; reflexivity. Qed.

Lemma decode_ref_type_ref (ts : list (itype pv)) d : forall t,
  iref_depth t <= d -> decode_ref (S d) (type_ref ts d t) = Some t.
Proof.
  induction d as [|d IH]; intros t Ht.
  - destruct t; simpl in Ht; try lia. cbn [type_ref]. unfold kind_of_name.
    destruct (find_type n ts) as [ty|]; [|reflexivity].
    cbn [decode_ref getk alookup]. change (str_eqb (S_ "kind") (S_ "kind")) with true. cbv beta iota.
    destruct (kind_of_def_not_wrapper (t_def ty)) as [H1 H2]. rewrite H1, H2. reflexivity.
  - destruct t as [n|t|t]; simpl in Ht.
    + cbn [type_ref]. unfold kind_of_name. destruct (find_type n ts) as [ty|]; [|reflexivity].
      cbn [decode_ref getk alookup app]. change (str_eqb (S_ "kind") (S_ "kind")) with true. cbv beta iota.
      destruct (kind_of_def_not_wrapper (t_def ty)) as [H1 H2]. rewrite H1, H2. reflexivity.
    + assert (Hd : iref_depth t <= d) by lia. specialize (IH t Hd).
      change (decode_ref (S (S d)) (type_ref ts (S d) (IRList t))) with
        (option_map IRList (decode_ref (S d) (type_ref ts d t))).
      rewrite IH. reflexivity.
    + assert (Hd : iref_depth t <= d) by lia. specialize (IH t Hd).
      change (decode_ref (S (S d)) (type_ref ts (S d) (IRNonNull t))) with
        (option_map IRNonNull (decode_ref (S d) (type_ref ts d t))).
      rewrite IH. reflexivity.
Qed.

Lemma decode_top_ref (ts : list (itype pv)) t : ref_ok t -> decode_ref 8 (top_ref ts t) = Some t.
Proof. intros H. apply decode_ref_type_ref. exact H. Qed.

Lemma map_opt_map {A B} (dec : pv -> option B) (ans : A -> pv) (pub : A -> B) l :
  Forall (fun x => dec (ans x) = Some (pub x)) l -> map_opt dec (map ans l) = Some (map pub l).
Proof. induction 1 as [|x l Hx Hl IH]; simpl; [reflexivity|]. rewrite Hx, IH. reflexivity. Qed.

Section DecodeGen.
  Variable defaults : bool.
  Variable dd : option pv -> option (option lit).
  Variable pd : iref -> option pv -> option lit.
  Variable ts : list (itype pv).
  Hypothesis Hdd : forall t d,
    (defaults = true -> match d with Some v => default_ok ts t v | None => True end) ->
    dd (Some (format_default_value d)) = Some (pd t d).

Lemma decode_input_ok iv :
  input_ok defaults ts iv -> decode_input_with dd (input_value_answer full_flags ts iv) = Some (public_input_with pd iv).
Proof.
  intros [Hr Hd]. unfold decode_input_with.
  change (getk (S_ "name") (input_value_answer full_flags ts iv)) with (Some (PStr (iv_name iv))).
  change (getk (S_ "description") (input_value_answer full_flags ts iv)) with (Some (opt_str (iv_desc iv))).
  change (getk (S_ "type") (input_value_answer full_flags ts iv)) with (Some (top_ref ts (iv_type iv))).
  change (getk (S_ "defaultValue") (input_value_answer full_flags ts iv))
    with (Some (format_default_value (iv_default iv))).
  cbn [as_str obind_]. rewrite (decode_top_ref ts _ Hr), (Hdd _ _ Hd).
  unfold public_input_with. destruct (iv_desc iv); reflexivity.
Qed.

Lemma decode_inputs_ok ivs :
  Forall (input_ok defaults ts) ivs ->
  map_opt (decode_input_with dd) (map (input_value_answer full_flags ts) ivs) = Some (map (public_input_with pd) ivs).
Proof. intros H. apply map_opt_map. eapply Forall_impl; [|exact H]. intros; apply decode_input_ok; assumption. Qed.

Lemma decode_field_ok f :
  field_ok defaults ts f -> decode_field_with dd (field_answer full_flags ts f) = Some (public_field_with pd f).
Proof.
  intros [Hr Ha]. unfold decode_field_with.
  change (getk (S_ "name") (field_answer full_flags ts f)) with (Some (PStr (f_name f))).
  change (getk (S_ "description") (field_answer full_flags ts f)) with (Some (opt_str (f_desc f))).
  change (getk (S_ "args") (field_answer full_flags ts f))
    with (Some (PList (map (input_value_answer full_flags ts) (f_args f)))).
  change (getk (S_ "type") (field_answer full_flags ts f)) with (Some (top_ref ts (f_type f))).
  change (getk (S_ "isDeprecated") (field_answer full_flags ts f)) with (Some (PBool (f_deprecated f))).
  change (getk (S_ "deprecationReason") (field_answer full_flags ts f)) with (Some (opt_str (f_reason f))).
  cbn [as_str as_list as_bool obind_]. rewrite (decode_inputs_ok _ Ha), (decode_top_ref ts _ Hr).
  unfold public_field_with. destruct (f_desc f), (f_reason f); reflexivity.
Qed.

Lemma decode_enum_value_ok e :
  decode_enum_value (enum_value_answer full_flags e) = Some (public_enum_value e).
Proof.
  unfold decode_enum_value.
  change (getk (S_ "name") (enum_value_answer full_flags e)) with (Some (PStr (ev_name e))).
  change (getk (S_ "description") (enum_value_answer full_flags e)) with (Some (opt_str (ev_desc e))).
  change (getk (S_ "isDeprecated") (enum_value_answer full_flags e)) with (Some (PBool (ev_deprecated e))).
  change (getk (S_ "deprecationReason") (enum_value_answer full_flags e)) with (Some (opt_str (ev_reason e))).
  unfold public_enum_value. destruct (ev_desc e), (ev_reason e); reflexivity.
Qed.

Lemma decode_named_refs ns :
  map_opt decode_named_ref (map (fun n => top_ref ts (IRNamed n)) ns) = Some ns.
Proof.
  rewrite (map_opt_map decode_named_ref _ (fun n => n)); [rewrite map_id; reflexivity|].
  apply Forall_forall. intros n _. unfold decode_named_ref. rewrite decode_top_ref; [reflexivity|].
  unfold ref_ok; simpl; lia.
Qed.

Lemma decode_type_ok t :
  type_ok defaults ts t -> decode_type_with dd (full_type full_flags ts t) = Some (public_type_with pd t).
Proof.
  intros Hok. unfold decode_type_with.
  change (getk (S_ "kind") (full_type full_flags ts t)) with (Some (PStr (kind_of_def (t_def t)))).
  change (getk (S_ "name") (full_type full_flags ts t)) with (Some (PStr (t_name t))).
  change (getk (S_ "description") (full_type full_flags ts t)) with (Some (opt_str (t_desc t))).
  rewrite full_type_fields, full_type_enum_values.
  change (getk (S_ "inputFields") (full_type full_flags ts t)) with
    (Some (opt_list match t_def t with
                    | IInputObject ivs => Some (map (input_value_answer full_flags ts) ivs)
                    | _ => None end)).
  change (getk (S_ "interfaces") (full_type full_flags ts t)) with
    (Some (opt_list match t_def t with
                    | IObject _ ifs => Some (map (fun n => top_ref ts (IRNamed n)) ifs)
                    | _ => None end)).
  change (getk (S_ "possibleTypes") (full_type full_flags ts t)) with
    (Some (opt_list (option_map (map (fun n => top_ref ts (IRNamed n))) (possible_types ts t)))).
  unfold public_type_with, type_ok, possible_types in *. cbn [as_str obind_].
  assert (Hd : forall (o : option str) (X : itypedef lit),
             (let? d := as_opt_str (Some (opt_str o)) in let? def := Some X in Some (IType (t_name t) d def))
             = Some (IType (t_name t) o X)) by (intros [x|] X; reflexivity).
  destruct (t_def t) as [|fs ifs|fs|ms|vs|ivs]; cbn [kind_of_def public_def_with opt_list option_map as_list obind_].
  - apply Hd.
  - change (str_eqb (S_ "OBJECT") (S_ "SCALAR")) with false. change (str_eqb (S_ "OBJECT") (S_ "OBJECT")) with true.
    cbv beta iota. rewrite (visible_fields_all full_flags) by reflexivity.
    rewrite (map_opt_map (decode_field_with dd) _ (public_field_with pd))
      by (eapply Forall_impl; [|exact Hok]; intros; apply decode_field_ok; assumption).
    rewrite decode_named_refs. apply Hd.
  - change (str_eqb (S_ "INTERFACE") (S_ "SCALAR")) with false.
    change (str_eqb (S_ "INTERFACE") (S_ "OBJECT")) with false.
    change (str_eqb (S_ "INTERFACE") (S_ "INTERFACE")) with true.
    cbv beta iota. rewrite (visible_fields_all full_flags) by reflexivity.
    rewrite (map_opt_map (decode_field_with dd) _ (public_field_with pd))
      by (eapply Forall_impl; [|exact Hok]; intros; apply decode_field_ok; assumption).
    apply Hd.
  - change (str_eqb (S_ "UNION") (S_ "SCALAR")) with false. change (str_eqb (S_ "UNION") (S_ "OBJECT")) with false.
    change (str_eqb (S_ "UNION") (S_ "INTERFACE")) with false. change (str_eqb (S_ "UNION") (S_ "UNION")) with true.
    cbv beta iota. rewrite decode_named_refs. apply Hd.
  - change (str_eqb (S_ "ENUM") (S_ "SCALAR")) with false. change (str_eqb (S_ "ENUM") (S_ "OBJECT")) with false.
    change (str_eqb (S_ "ENUM") (S_ "INTERFACE")) with false. change (str_eqb (S_ "ENUM") (S_ "UNION")) with false.
    change (str_eqb (S_ "ENUM") (S_ "ENUM")) with true.
    cbv beta iota. rewrite (visible_values_all full_flags) by reflexivity.
    rewrite (map_opt_map decode_enum_value _ public_enum_value)
      by (apply Forall_forall; intros; apply decode_enum_value_ok).
    apply Hd.
  - change (str_eqb (S_ "INPUT_OBJECT") (S_ "SCALAR")) with false.
    change (str_eqb (S_ "INPUT_OBJECT") (S_ "OBJECT")) with false.
    change (str_eqb (S_ "INPUT_OBJECT") (S_ "INTERFACE")) with false.
    change (str_eqb (S_ "INPUT_OBJECT") (S_ "UNION")) with false.
    change (str_eqb (S_ "INPUT_OBJECT") (S_ "ENUM")) with false.
    change (str_eqb (S_ "INPUT_OBJECT") (S_ "INPUT_OBJECT")) with true.
    cbv beta iota. rewrite (decode_inputs_ok _ Hok). apply Hd.
Qed.

Lemma decode_directive_ok d :
  Forall (input_ok defaults ts) (dr_args d) ->
  decode_directive_with dd (directive_answer full_flags ts d) = Some (public_directive_with pd d).
Proof.
  intros Ha. unfold decode_directive_with.
  change (getk (S_ "name") (directive_answer full_flags ts d)) with (Some (PStr (dr_name d))).
  change (getk (S_ "description") (directive_answer full_flags ts d)) with (Some (opt_str (dr_desc d))).
  change (getk (S_ "locations") (directive_answer full_flags ts d)) with (Some (PList (map PStr (dr_locations d)))).
  change (getk (S_ "args") (directive_answer full_flags ts d))
    with (Some (PList (map (input_value_answer full_flags ts) (dr_args d)))).
  cbn [as_str as_list obind_]. rewrite (decode_inputs_ok _ Ha).
  rewrite (map_opt_map (fun x => as_str (Some x)) PStr (fun x => x)) by (apply Forall_forall; reflexivity).
  rewrite map_id. unfold public_directive_with. destruct (dr_desc d); reflexivity.
Qed.

End DecodeGen.

Theorem decode_with_exact (defaults : bool) dd pd s :
  (forall t d, (defaults = true -> match d with Some v => default_ok (s_types s) t v | None => True end) ->
               dd (Some (format_default_value d)) = Some (pd t d)) ->
  schema_ok defaults s -> decode_with dd (introspect_model s full_flags) = Some (public_with pd s).
Proof.
  intros Hdd [Ht Hd]. unfold decode_with.
  change (getk (S_ "__schema") (introspect_model s full_flags)) with (Some (schema_answer s full_flags)).
  cbn [obind_].
  change (getk (S_ "queryType") (schema_answer s full_flags)) with (Some (root_answer (Some (s_query s)))).
  change (getk (S_ "mutationType") (schema_answer s full_flags)) with (Some (root_answer (s_mutation s))).
  change (getk (S_ "subscriptionType") (schema_answer s full_flags)) with (Some (root_answer (s_subscription s))).
  change (getk (S_ "types") (schema_answer s full_flags))
    with (Some (PList (map (full_type full_flags (s_types s)) (sorted_types s)))).
  change (getk (S_ "directives") (schema_answer s full_flags))
    with (Some (PList (map (directive_answer full_flags (s_types s)) (sorted_directives s)))).
  assert (Hroot : forall o, decode_root (Some (root_answer o)) = Some o) by (intros [x|]; reflexivity).
  rewrite !Hroot. cbn [obind_ as_list].
  rewrite (map_opt_map (decode_type_with dd) _ (public_type_with pd)).
  2:{ eapply Forall_impl; [intros a Ha; apply (decode_type_ok defaults dd pd (s_types s) Hdd); exact Ha|].
      eapply Permutation_Forall; [symmetry; apply sort_by_perm|exact Ht]. }
  rewrite (map_opt_map (decode_directive_with dd) _ (public_directive_with pd)).
  2:{ eapply Forall_impl; [intros a Ha; apply (decode_directive_ok defaults dd pd (s_types s) Hdd); exact Ha|].
      eapply Permutation_Forall; [symmetry; apply sort_by_perm|exact Hd]. }
  cbn [obind_]. unfold public_with, sorted_types, sorted_directives.
  rewrite (sort_by_map (public_type_with pd) t_name t_name) by reflexivity.
  rewrite (sort_by_map (public_directive_with pd) dr_name dr_name) by reflexivity.
  reflexivity.
Qed.


Theorem decode_introspect_exact s :
  schema_ok true s -> decode (introspect_model s full_flags) = Some (public s).
Proof.
  apply (decode_with_exact true decode_default (pd_exact (s_types s)) s).
  intros t d H. apply decode_default_ok. apply H. reflexivity.
Qed.

(* everything but the default values is reported exactly, whatever the defaults are *)
Theorem decode_shape_exact s :
  schema_ok false s -> decode_shape (introspect_model s full_flags) = Some (public_shape s).
Proof. apply (decode_with_exact false dd_ignore pd_none s). intros t d _. reflexivity. Qed.

(* ------------------------------------------------------------------ *)
(* the filter statement on the full answer *)

Lemma deprecated_filter_answer (s : ischema pv) fl types t :
  schema_part (S_ "types") (introspect_model s fl) = Some types ->
  NoDup (map t_name (s_types s)) -> In t (s_types s) ->
  exists ans, answer_named (t_name t) types = Some ans /\
    (forall fs, (exists ifs, t_def t = IObject fs ifs) \/ t_def t = IInterface fs ->
        member_names (S_ "fields") ans =
        Some (map f_name (if include_deprecated fl then fs else filter (fun f => negb (f_deprecated f)) fs))) /\
    (forall vs, t_def t = IEnum vs ->
        member_names (S_ "enumValues") ans =
        Some (map ev_name (if include_deprecated fl then vs else filter (fun v => negb (ev_deprecated v)) vs))).
Proof.
  intros Hty Hnd Hin. rewrite schema_part_types in Hty. inversion Hty; subst; clear Hty.
  exists (full_type fl (s_types s) t). split; [|split].
  - apply answer_named_full_type. apply find_type_complete.
    + eapply Permutation_in; [symmetry; apply sort_by_perm|exact Hin].
    + eapply Permutation_NoDup; [|exact Hnd]. apply Permutation_map. symmetry. apply sort_by_perm.
  - intros fs Hd. rewrite (reported_fields fl _ t fs Hd). destruct (include_deprecated fl) eqn:Hi.
    + rewrite visible_fields_all by assumption. reflexivity.
    + rewrite visible_fields_hidden by assumption. reflexivity.
  - intros vs Hd. rewrite (reported_enum_values fl _ t vs Hd). destruct (include_deprecated fl) eqn:Hi.
    + rewrite visible_values_all by assumption. reflexivity.
    + rewrite visible_values_hidden by assumption. reflexivity.
Qed.

(* names reported under types / directives / possibleTypes *)
Lemma reported_type_names s fl :
  obind_ (schema_part (S_ "types") (introspect_model s fl)) names_of = Some (map t_name (sorted_types s)).
Proof.
  rewrite schema_part_types. cbn [obind_]. apply names_of_map. intros t.
  unfold full_type. reflexivity.
Qed.

Lemma reported_directive_names s fl :
  obind_ (schema_part (S_ "directives") (introspect_model s fl)) names_of = Some (map dr_name (sorted_directives s)).
Proof. rewrite schema_part_directives. cbn [obind_]. apply names_of_map. intros d. reflexivity. Qed.

Lemma full_type_possible fl ts t :
  getk (S_ "possibleTypes") (full_type fl ts t) =
  Some (opt_list (option_map (map (fun n => top_ref ts (IRNamed n))) (possible_types ts t))).
Proof. unfold full_type, desc_entry. destruct (with_descriptions fl); reflexivity. Qed.

Lemma reported_possible_types fl (ts : list (itype pv)) t l :
  possible_types ts t = Some l -> member_names (S_ "possibleTypes") (full_type fl ts t) = Some l.
Proof.
  intros H. unfold member_names. rewrite full_type_possible, H. cbn [option_map opt_list as_list obind_].
  rewrite (names_of_map _ (fun n => n)); [rewrite map_id; reflexivity|].
  intros n. unfold top_ref. reflexivity.
Qed.

(* ------------------------------------------------------------------ *)
(* the defaults that are not rendered in GraphQL syntax: witnesses *)

Definition w_iv (n : string) (t : iref) (d : option pv) : iinput pv := IInput (S_ n) None t d.
Definition w_schema (extra : list (itype pv)) (arg : iinput pv) : ischema pv :=
  ISchema ([IType (S_ "Query") None
                  (IObject [IField (S_ "f") None [arg] (IRNamed (S_ "Int")) false None] []);
            IType (S_ "Int") None IScalar; IType (S_ "String") None IScalar] ++ extra)
          [] (S_ "Query") None None.

(* f(a: Color = RED), internal value "RED" *)
Definition w_enum : ischema pv :=
  w_schema [IType (S_ "Color") None (IEnum [IEnumVal (S_ "RED") None false None (PStr (S_ "RED"))])]
           (w_iv "a" (IRNamed (S_ "Color")) (Some (PStr (S_ "RED")))).
(* f(b: Pt = {x: 2}) *)
Definition w_input : ischema pv :=
  w_schema [IType (S_ "Pt") None (IInputObject [w_iv "x" (IRNamed (S_ "Int")) None])]
           (w_iv "b" (IRNamed (S_ "Pt")) (Some (PDict [(S_ "x", PInt 2)]))).
(* f(s: String = "he\"llo")  -- the five characters h e " l l o *)
Definition w_string : ischema pv :=
  w_schema [] (w_iv "s" (IRNamed (S_ "String")) (Some (PStr (S_ "he""llo")))).

(* f(l: [String] = ["\U0001F600"]) *)
Definition w_astral : ischema pv :=
  w_schema [] (w_iv "l" (IRList (IRNamed (S_ "String"))) (Some (PList [PStr [128512%N]]))).

Ltac solve_schema_ok :=
  unfold schema_ok, type_ok, field_ok, input_ok, ref_ok; simpl;
  repeat first [ apply Forall_nil | apply Forall_cons | split | exact I
               | (unfold w_iv; simpl; lia) | (intro; discriminate) ].

Lemma w_enum_ok : schema_ok false w_enum. Proof. solve_schema_ok. Qed.
Lemma w_input_ok : schema_ok false w_input. Proof. solve_schema_ok. Qed.
Lemma w_string_ok : schema_ok false w_string. Proof. solve_schema_ok. Qed.

Lemma w_enum_refutes : decode (introspect_model w_enum full_flags) <> Some (public w_enum).
Proof. vm_compute. discriminate. Qed.
Lemma w_input_refutes : decode (introspect_model w_input full_flags) <> Some (public w_input).
Proof. vm_compute. discriminate. Qed.
Lemma w_string_refutes : decode (introspect_model w_string full_flags) <> Some (public w_string).
Proof. vm_compute. discriminate. Qed.

(* what the three answers say *)
Lemma w_astral_ok : schema_ok false w_astral. Proof. solve_schema_ok. Qed.
Lemma w_astral_refutes : decode (introspect_model w_astral full_flags) <> Some (public w_astral).
Proof. vm_compute. discriminate. Qed.

(* each witness's default is in its open-finding class, so the guard of the
   exactness theorem rejects exactly these schemas *)
Lemma w_classes :
  class_enum (s_types w_enum) (IRNamed (S_ "Color")) (PStr (S_ "RED")) = true /\
  class_input_object (s_types w_input) (IRNamed (S_ "Pt")) (PDict [(S_ "x", PInt 2)]) = true /\
  class_string_escape (s_types w_string) (IRNamed (S_ "String")) (PStr (S_ "he""llo")) = true /\
  class_astral_in_list (s_types w_astral) (IRList (IRNamed (S_ "String"))) (PList [PStr [128512%N]]) = true.
Proof. repeat split; reflexivity. Qed.

Lemma w_guard_rejects :
  schema_okb true w_enum = false /\ schema_okb true w_input = false /\
  schema_okb true w_string = false /\ schema_okb true w_astral = false /\
  schema_okb false w_enum = true /\ schema_okb false w_input = true /\
  schema_okb false w_string = true /\ schema_okb false w_astral = true.
Proof. repeat split; reflexivity. Qed.

Lemma w_renderings :
  format_default_value (Some (PStr (S_ "RED"))) = PStr (S_ """RED""") /\
  format_default_value (Some (PDict [(S_ "x", PInt 2)])) = PStr (S_ "{""x"": 2}") /\
  format_default_value (Some (PStr (S_ "he""llo"))) = PStr (S_ """he""llo""").
Proof. repeat split; reflexivity. Qed.

Lemma exact_full_refuted : ~ C15_exact_full.
Proof. intros H. exact (w_enum_refutes (H w_enum w_enum_ok)). Qed.


(* ------------------------------------------------------------------ *)
(* the boolean guard decides schema_ok *)

Lemma forallb_Forall {A} (p : A -> bool) (P : A -> Prop) l :
  (forall x, p x = true <-> P x) -> (forallb p l = true <-> Forall P l).
Proof.
  intros H. induction l as [|x l IH]; simpl; [split; auto|].
  rewrite andb_true_iff, IH, H. split; [intros [? ?]; constructor; auto|intros HF; inversion HF; auto].
Qed.

Lemma ref_okb_ok t : ref_okb t = true <-> ref_ok t.
Proof. unfold ref_okb, ref_ok. apply Nat.leb_le. Qed.

Lemma input_okb_ok d ts iv : input_okb d ts iv = true <-> input_ok d ts iv.
Proof.
  unfold input_okb, input_ok, default_ok. rewrite andb_true_iff, ref_okb_ok.
  destruct d; simpl; destruct (iv_default iv); intuition.
Qed.

Lemma field_okb_ok d ts f : field_okb d ts f = true <-> field_ok d ts f.
Proof.
  unfold field_okb, field_ok. rewrite andb_true_iff, ref_okb_ok.
  rewrite (forallb_Forall _ (input_ok d ts)) by (intros; apply input_okb_ok). reflexivity.
Qed.

Lemma type_okb_ok d ts t : type_okb d ts t = true <-> type_ok d ts t.
Proof.
  unfold type_okb, type_ok. destruct (t_def t); try (split; auto; fail).
  - apply forallb_Forall. intros; apply field_okb_ok.
  - apply forallb_Forall. intros; apply field_okb_ok.
  - apply forallb_Forall. intros; apply input_okb_ok.
Qed.

Lemma schema_okb_ok d s : schema_okb d s = true <-> schema_ok d s.
Proof.
  unfold schema_okb, schema_ok. rewrite andb_true_iff.
  rewrite (forallb_Forall _ (type_ok d (s_types s))) by (intros; apply type_okb_ok).
  rewrite (forallb_Forall _ (fun dr => Forall (input_ok d (s_types s)) (dr_args dr))).
  - reflexivity.
  - intros dr. apply forallb_Forall. intros; apply input_okb_ok.
Qed.

(* ------------------------------------------------------------------ *)
(* the ofType nesting of the TypeRef fragment *)

Lemma decode_ref_too_deep (ts : list (itype pv)) d : forall t fuel,
  d < iref_depth t -> decode_ref fuel (type_ref ts d t) = None.
Proof.
  induction d as [|d IH]; intros t fuel Ht; (destruct fuel as [|f]; [reflexivity|]).
  - destruct t as [n|t|t]; simpl in Ht; try lia; reflexivity.
  - destruct t as [n|t|t]; simpl in Ht; try lia.
    + change (decode_ref (S f) (type_ref ts (S d) (IRList t))) with
        (option_map IRList (decode_ref f (type_ref ts d t))).
      rewrite IH by lia. reflexivity.
    + change (decode_ref (S f) (type_ref ts (S d) (IRNonNull t))) with
        (option_map IRNonNull (decode_ref f (type_ref ts d t))).
      rewrite IH by lia. reflexivity.
Qed.

Fixpoint lists_of (n : nat) (t : iref) : iref :=
  match n with O => t | S n' => IRList (lists_of n' t) end.

(* type Query { f: [[[[[[[[Int]]]]]]]] }  (8 wrappers), no defaults anywhere *)
Definition w_deep (n : nat) : ischema pv :=
  ISchema [IType (S_ "Query") None
                 (IObject [IField (S_ "f") None [] (lists_of n (IRNamed (S_ "Int"))) false None] []);
           IType (S_ "Int") None IScalar]
          [] (S_ "Query") None None.

Lemma w_deep_facts :
  decode (introspect_model (w_deep 8) full_flags) = None /\
  schema_okb true (w_deep 8) = false /\
  schema_okb true (w_deep 7) = true /\
  decode (introspect_model (w_deep 7) full_flags) = Some (public (w_deep 7)).
Proof. repeat split; vm_compute; reflexivity. Qed.

(* ------------------------------------------------------------------ *)
(* result(includeDeprecated: false) = result(true) minus the deprecated members *)

Lemma field_answer_deprecated d ts f :
  is_deprecated_entry (field_answer (IFlags true d) ts f) = f_deprecated f.
Proof. destruct d; unfold is_deprecated_entry; cbn; destruct (f_deprecated f); reflexivity. Qed.

Lemma enum_value_answer_deprecated d e :
  is_deprecated_entry (enum_value_answer (IFlags true d) e) = ev_deprecated e.
Proof. destruct d; unfold is_deprecated_entry; cbn; destruct (ev_deprecated e); reflexivity. Qed.

Lemma filter_map_answer {A} (ans : A -> pv) (dep : A -> bool) l :
  (forall x, is_deprecated_entry (ans x) = dep x) ->
  filter (fun x => negb (is_deprecated_entry x)) (map ans l) = map ans (filter (fun x => negb (dep x)) l).
Proof.
  intros H. induction l as [|x l IH]; simpl; [reflexivity|]. rewrite H, IH. destruct (dep x); reflexivity.
Qed.

Lemma drop_shape_desc k n dsc F I J E P :
  drop_deprecated_type (PDict [(S_ "kind", k); (S_ "name", n); (S_ "description", dsc); (S_ "fields", F);
                               (S_ "inputFields", I); (S_ "interfaces", J); (S_ "enumValues", E);
                               (S_ "possibleTypes", P)]) =
  PDict [(S_ "kind", k); (S_ "name", n); (S_ "description", dsc); (S_ "fields", drop_deprecated_list F);
         (S_ "inputFields", I); (S_ "interfaces", J); (S_ "enumValues", drop_deprecated_list E);
         (S_ "possibleTypes", P)].
Proof. reflexivity. Qed.

Lemma drop_shape_nodesc k n F I J E P :
  drop_deprecated_type (PDict [(S_ "kind", k); (S_ "name", n); (S_ "fields", F);
                               (S_ "inputFields", I); (S_ "interfaces", J); (S_ "enumValues", E);
                               (S_ "possibleTypes", P)]) =
  PDict [(S_ "kind", k); (S_ "name", n); (S_ "fields", drop_deprecated_list F);
         (S_ "inputFields", I); (S_ "interfaces", J); (S_ "enumValues", drop_deprecated_list E);
         (S_ "possibleTypes", P)].
Proof. reflexivity. Qed.

Lemma full_type_drop_deprecated d ts t :
  full_type (IFlags false d) ts t = drop_deprecated_type (full_type (IFlags true d) ts t).
Proof.
  unfold full_type, desc_entry. destruct d; cbn [with_descriptions app];
    rewrite ?drop_shape_desc, ?drop_shape_nodesc;
    destruct (t_def t) as [|fs ifs|fs|ms|vs|ivs]; cbn [opt_list drop_deprecated_list];
    rewrite ?(visible_fields_all (IFlags true _)), ?(visible_values_all (IFlags true _)) by reflexivity;
    rewrite ?(visible_fields_hidden (IFlags false _)), ?(visible_values_hidden (IFlags false _)) by reflexivity;
    rewrite ?(filter_map_answer _ _ _ (field_answer_deprecated _ ts)),
            ?(filter_map_answer _ _ _ (enum_value_answer_deprecated _));
    reflexivity.
Qed.

Lemma on_dict_schema f (a : pv) : on_dict (S_ "__schema") f (PDict [(S_ "__schema", a)]) = PDict [(S_ "__schema", f a)].
Proof. reflexivity. Qed.
Lemma on_dict_types f q m su ty dr :
  on_dict (S_ "types") f (PDict [(S_ "queryType", q); (S_ "mutationType", m); (S_ "subscriptionType", su);
                                 (S_ "types", ty); (S_ "directives", dr)]) =
  PDict [(S_ "queryType", q); (S_ "mutationType", m); (S_ "subscriptionType", su);
         (S_ "types", f ty); (S_ "directives", dr)].
Proof. reflexivity. Qed.
Lemma on_dict_type f (a : pv) : on_dict (S_ "__type") f (PDict [(S_ "__type", a)]) = PDict [(S_ "__type", f a)].
Proof. reflexivity. Qed.

Theorem introspect_drop_deprecated s d :
  introspect_model s (IFlags false d) = drop_deprecated (introspect_model s (IFlags true d)).
Proof.
  unfold introspect_model, schema_answer, drop_deprecated. rewrite on_dict_schema, on_dict_types.
  unfold drop_deprecated_types. rewrite map_map.
  rewrite (map_ext _ _ (fun t => full_type_drop_deprecated d (s_types s) t)).
  assert (Hd : forall dr, directive_answer (IFlags false d) (s_types s) dr = directive_answer (IFlags true d) (s_types s) dr)
    by reflexivity.
  rewrite (map_ext _ _ Hd). reflexivity.
Qed.

Theorem type_query_drop_deprecated s d n :
  type_query_model s (IFlags false d) n = drop_deprecated_type_query (type_query_model s (IFlags true d) n).
Proof.
  unfold type_query_model, drop_deprecated_type_query. rewrite on_dict_type.
  destruct (find_type n (s_types s)); [rewrite full_type_drop_deprecated|]; reflexivity.
Qed.

Lemma filter_all_out {A} (p : A -> bool) l : forallb p l = true -> filter (fun x => negb (p x)) l = [].
Proof.
  induction l as [|x l IH]; simpl; [reflexivity|]. intros H. apply andb_true_iff in H as [Hx Hl].
  rewrite Hx. simpl. auto.
Qed.

(* an object / interface / enum all of whose members are deprecated reports an
   empty list, not null *)
Lemma all_deprecated_empty_list d ts t :
  (forall fs, (exists ifs, t_def t = IObject fs ifs) \/ t_def t = IInterface fs ->
     forallb (fun f => f_deprecated f) fs = true ->
     getk (S_ "fields") (full_type (IFlags false d) ts t) = Some (PList [])) /\
  (forall vs, t_def t = IEnum vs -> forallb ev_deprecated vs = true ->
     getk (S_ "enumValues") (full_type (IFlags false d) ts t) = Some (PList [])).
Proof.
  split.
  - intros fs Hd Hall. rewrite full_type_fields.
    assert (Hv : visible_fields (IFlags false d) fs = [])
      by (rewrite visible_fields_hidden by reflexivity; apply filter_all_out; exact Hall).
    destruct Hd as [[ifs Hd]|Hd]; rewrite Hd, Hv; reflexivity.
  - intros vs Hd Hall. rewrite full_type_enum_values, Hd.
    assert (Hv : visible_values (IFlags false d) vs = [])
      by (rewrite visible_values_hidden by reflexivity; apply filter_all_out; exact Hall).
    rewrite Hv. reflexivity.
Qed.

(* ------------------------------------------------------------------ *)
(* possibleTypes / interfaces symmetry, nothing twice *)

Lemma full_type_interfaces fl ts t :
  getk (S_ "interfaces") (full_type fl ts t) =
  Some (opt_list match t_def t with
                 | IObject _ ifs => Some (map (fun n => top_ref ts (IRNamed n)) ifs)
                 | _ => None end).
Proof. unfold full_type, desc_entry. destruct (with_descriptions fl); reflexivity. Qed.

Lemma reported_interfaces fl (ts : list (itype pv)) t fs ifs :
  t_def t = IObject fs ifs -> member_names (S_ "interfaces") (full_type fl ts t) = Some ifs.
Proof.
  intros H. unfold member_names. rewrite full_type_interfaces, H. cbn [opt_list as_list obind_].
  rewrite (names_of_map _ (fun n => n)); [rewrite map_id; reflexivity|]. intros n. reflexivity.
Qed.

Lemma possible_interfaces_symmetry fl (ts : list (itype pv)) I T fsI fsT ifs lp li :
  NoDup (map t_name ts) -> In T ts ->
  t_def I = IInterface fsI -> t_def T = IObject fsT ifs ->
  member_names (S_ "possibleTypes") (full_type fl ts I) = Some lp ->
  member_names (S_ "interfaces") (full_type fl ts T) = Some li ->
  (In (t_name T) lp <-> In (t_name I) li).
Proof.
  intros Hnd HT HI HTd Hlp Hli.
  rewrite (reported_interfaces fl ts T fsT ifs HTd) in Hli. inversion Hli; subst li.
  assert (Hp : possible_types ts I = Some (sort_by (fun n => n) (implementations ts (t_name I))))
    by (unfold possible_types; rewrite HI; reflexivity).
  rewrite (reported_possible_types fl ts I _ Hp) in Hlp. inversion Hlp; subst lp.
  destruct (possible_types_sorted ts I _ Hp) as [_ Hin]. rewrite Hin, HI.
  split.
  - intros (o & Ho & Hn & Himp). assert (o = T) by (eapply (key_inj_in t_name ts); eauto). subst o.
    unfold implements in Himp. rewrite HTd in Himp. apply mem_str_In. exact Himp.
  - intros Hi. exists T. repeat split; auto. unfold implements. rewrite HTd. apply mem_str_In. exact Hi.
Qed.

Lemma reported_type_names_nodup s fl l :
  NoDup (map t_name (s_types s)) ->
  obind_ (schema_part (S_ "types") (introspect_model s fl)) names_of = Some l -> NoDup l.
Proof.
  intros Hnd H. rewrite reported_type_names in H. inversion H; subst.
  eapply Permutation_NoDup; [|exact Hnd]. apply Permutation_map. symmetry. apply sort_by_perm.
Qed.

(* ------------------------------------------------------------------ *)
(* the guard at a scalar-typed position, spelled out *)
Lemma default_okb_scalar_position (ts : list (itype pv)) t v :
  is_scalar_name ts (iref_base t) = true ->
  default_okb ts t v =
  match v with
  | PStr x => forallb plain_char x
  | PList _ => scalar_denotable v && negb (has_astral v)
  | _ => scalar_denotable v
  end.
Proof.
  unfold is_scalar_name, default_okb, in_open_finding, denotable, class_enum, class_input_object,
    class_string_escape, class_astral_in_list, base_def.
  destruct (find_type (iref_base t) ts) as [[? ? []]|]; try discriminate. intros _.
  destruct v; cbn [option_map t_def orb negb andb scalar_denotable];
    rewrite ?orb_false_r, ?negb_involutive, ?andb_true_r; try reflexivity.
  apply andb_comm.
Qed.

(* every reported defaultValue of a default accepted by the guard reads back
   as the literal denoting the declared default; an absent default is reported null *)
Theorem default_value_exact (ts : list (itype pv)) t d :
  match d with Some v => default_okb ts t v = true | None => True end ->
  decode_default (Some (format_default_value d)) = Some (pd_exact ts t d).
Proof. intros H. apply decode_default_ok. exact H. Qed.
