(* C20: every applicable, reportable elementary edit is reported by a change
   naming the edited element. *)
From PyGql Require Import Schema.SchemaFull Schema.DifferModel Spec.DifferSpec
  Proofs.SchemaFullLemmas Proofs.DifferProofs.

(* ------------------------------------------------------------ keyed lists *)
Section Keyed.
  Context {A : Type}.
  Variable name : A -> str.
  Let look (k : str) (l : list A) := find (fun y => str_eqb k (name y)) l.

  Lemma look_map (h : A -> A) l k :
    (forall x, name (h x) = name x) ->
    look k (map h l) = option_map h (look k l).
  Proof.
    intros Hn. unfold look. induction l as [|x l IH]; simpl; [reflexivity|].
    rewrite Hn. destruct (str_eqb k (name x)); [reflexivity|exact IH].
  Qed.

  Lemma look_filter_self n l : look n (filter (not_named name n) l) = None.
  Proof.
    unfold look, not_named. induction l as [|x l IH]; simpl; [reflexivity|].
    destruct (str_eqb n (name x)) eqn:E; simpl; [exact IH|]. rewrite E. exact IH.
  Qed.

  Lemma look_app_new l x : look (name x) l = None -> look (name x) (l ++ [x]) = Some x.
  Proof.
    unfold look. induction l as [|y l IH]; simpl.
    - rewrite str_eqb_refl; reflexivity.
    - destruct (str_eqb (name x) (name y)); [discriminate|exact IH].
  Qed.

  Lemma look_some_in k l x : look k l = Some x -> In x l /\ name x = k.
  Proof. apply find_name_some. Qed.

  Lemma look_not_none k l : look k l <> None -> exists x, look k l = Some x.
  Proof. destruct (look k l) as [x|]; [exists x; reflexivity|congruence]. Qed.
End Keyed.

Fixpoint pv_eqb_true (a b : pv) {struct a} : pv_eqb a b = true -> a = b.
Proof.
  destruct a as [|x|x|x|x|l|l]; destruct b as [|y|y|y|y|m|m]; simpl; try discriminate; intros H.
  - reflexivity.
  - apply Bool.eqb_prop in H; congruence.
  - apply Z.eqb_eq in H; congruence.
  - apply str_eqb_eq in H; congruence.
  - apply str_eqb_eq in H; congruence.
  - f_equal. revert m H. induction l as [|u l IHl]; intros [|v m] H; try discriminate; [reflexivity|].
    apply andb_true_iff in H. destruct H as [H1 H2].
    rewrite (pv_eqb_true u v H1), (IHl m H2). reflexivity.
  - f_equal. revert m H. induction l as [|[k u] l IHl]; intros [|[k' v] m] H; try discriminate; [reflexivity|].
    apply andb_true_iff in H. destruct H as [H1 H2]. apply andb_true_iff in H1. destruct H1 as [H0 H1].
    apply str_eqb_eq in H0. rewrite H0, (pv_eqb_true u v H1), (IHl m H2). reflexivity.
Qed.

Lemma default_changed_neq a b : a <> b -> default_changed a b = true.
Proof.
  destruct a as [x|], b as [y|]; simpl; intros H; try reflexivity; [|congruence].
  destruct (pv_eqb x y) eqn:E; [|reflexivity]. apply pv_eqb_true in E. congruence.
Qed.

Lemma opt_str_neq a b : a <> b -> opt_eqb str_eqb a b = false.
Proof.
  destruct a as [x|], b as [y|]; simpl; intros H; try reflexivity; [|congruence].
  destruct (str_eqb_spec x y); [congruence|reflexivity].
Qed.

(* ------------------------------------------------------------ arguments *)
Section Args.
  Variables (R C D Ad : change_class) (path : list str).
  Notation dargs := (diff_args R C D Ad path).

  Lemma args_added oa a :
    find_arg oa (a_name a) = None ->
    exists c, In c (dargs oa (oa ++ [a])) /\ c_path c = path ++ [a_name a].
  Proof.
    intros H. eexists. split.
    - unfold diff_args. apply in_or_app. right. apply in_flat_map. exists a. split.
      + apply in_or_app; right; left; reflexivity.
      + rewrite H. left; reflexivity.
    - reflexivity.
  Qed.

  Lemma args_removed oa an :
    find_arg oa an <> None ->
    exists c, In c (dargs oa (filter (not_named a_name an) oa)) /\ c_path c = path ++ [an].
  Proof.
    intros H. apply (look_not_none a_name) in H. destruct H as [a Ha].
    pose proof (look_some_in a_name _ _ _ Ha) as [Hin Hn].
    eexists. split.
    - unfold diff_args. apply in_or_app. left. apply in_flat_map. exists a. split; [exact Hin|cbv beta].
      unfold find_arg. rewrite Hn. rewrite (look_filter_self a_name). left; reflexivity.
    - simpl; rewrite ?Hn; reflexivity.
  Qed.

  Lemma args_updated oa an a (h : arg_def -> arg_def) :
    (forall x, a_name (h x) = a_name x) ->
    find_arg oa an = Some a ->
    negb (safe_in (a_type a) (a_type (h a))) || default_changed (a_default a) (a_default (h a)) = true ->
    exists c, In c (dargs oa (upd_arg an h oa)) /\ c_path c = path ++ [an].
  Proof.
    intros Hn Ha Hch.
    pose proof (look_some_in a_name _ _ _ Ha) as [Hin Hnm].
    assert (Hf : find_arg (upd_arg an h oa) (a_name a) = Some (h a)).
    { unfold find_arg, upd_arg.
      rewrite (look_map a_name (fun x => if str_eqb an (a_name x) then h x else x)).
      - rewrite Hnm. unfold find_arg in Ha. rewrite Ha. simpl. rewrite Hnm, str_eqb_refl. reflexivity.
      - intros x. destruct (str_eqb an (a_name x)); [apply Hn|reflexivity]. }
    destruct (negb (safe_in (a_type a) (a_type (h a)))) eqn:Es.
    - eexists. split.
      + unfold diff_args. apply in_or_app. left. apply in_flat_map. exists a. split; [exact Hin|cbv beta].
        rewrite Hf, Es. left; reflexivity.
      + simpl; rewrite ?Hnm; reflexivity.
    - simpl in Hch. eexists. split.
      + unfold diff_args. apply in_or_app. left. apply in_flat_map. exists a. split; [exact Hin|cbv beta].
        rewrite Hf, Es, Hch. left; reflexivity.
      + simpl; rewrite ?Hnm; reflexivity.
  Qed.
End Args.

(* ------------------------------------------------------------ lifting to diff_model *)
Tactic Notation "in_model" integer(k) :=
  unfold diff_model; repeat rewrite in_app_iff;
  do k right; first [left | idtac].

Lemma find_type_upd tn f ts k :
  find_type (upd_body tn f ts) k =
  option_map (fun t => if str_eqb tn (t_name t)
                       then mkType (t_name t) (t_intro t) (t_spec t) (f (t_body t)) else t)
             (find_type ts k).
Proof.
  unfold find_type, upd_body. apply (look_map t_name).
  intros x. destruct (str_eqb tn (t_name x)); reflexivity.
Qed.

Lemma find_type_upd_self tn f ts t0 :
  find_type ts tn = Some t0 ->
  find_type (upd_body tn f ts) tn = Some (mkType tn (t_intro t0) (t_spec t0) (f (t_body t0))).
Proof.
  intros H. rewrite find_type_upd, H. simpl.
  destruct (look_some_in t_name _ _ _ H) as [_ Hn]. rewrite Hn, str_eqb_refl. reflexivity.
Qed.

Lemma user_body_found s tn b :
  user_body s tn = Some b ->
  exists t0, find_type (s_types s) tn = Some t0 /\ In t0 (s_types s) /\ t_name t0 = tn
             /\ t_intro t0 = false /\ t_body t0 = b.
Proof.
  unfold user_body. destruct (find_type (s_types s) tn) as [t0|] eqn:E; [|discriminate].
  destruct (t_intro t0) eqn:Ei; [discriminate|]. intros H; inversion H; subst.
  destruct (look_some_in t_name _ _ _ E) as [Hin Hn]. exists t0. auto.
Qed.

Lemma user_fields_body s tn fs :
  user_fields s tn = Some fs ->
  exists b, user_body s tn = Some b /\
            ((exists i r, b = BObject i fs r) \/ b = BInterface fs).
Proof.
  unfold user_fields, user_body. destruct (find_type (s_types s) tn) as [t0|]; [|discriminate].
  destruct (t_intro t0); [discriminate|].
  destruct (t_body t0) as [|i f r|f| | |]; try discriminate; intros H; inversion H; subst;
    eexists; split; try reflexivity; [left; eauto|right; reflexivity].
Qed.

(* an edit of the body of one user type: the per-kind pass sees old and new body *)
Section BodyEdit.
  Variables (s : schema) (tn : str) (f : type_body -> type_body) (b : type_body).
  Hypothesis Hb : user_body s tn = Some b.
  Let n := set_types s (upd_body tn f (s_types s)).

  Lemma body_edit_enum vs vs' c :
    b = BEnum vs -> f b = BEnum vs' -> In c (diff_enum tn vs vs') -> In c (diff_model s n).
  Proof.
    intros E1 E2 Hc. destruct (user_body_found _ _ _ Hb) as (t0 & Hf & Hin & Hn & Hi & Hbd).
    in_model 5. apply in_flat_map. exists t0. split; [exact Hin|cbv beta].
    unfold enum_of. rewrite Hi, Hbd, E1, Hn. simpl. rewrite (find_type_upd_self _ _ _ _ Hf).
    simpl. rewrite Hbd, E2. exact Hc.
  Qed.

  Lemma body_edit_union ms ms' c :
    b = BUnion ms -> f b = BUnion ms' -> In c (diff_union tn ms ms') -> In c (diff_model s n).
  Proof.
    intros E1 E2 Hc. destruct (user_body_found _ _ _ Hb) as (t0 & Hf & Hin & Hn & Hi & Hbd).
    in_model 4. apply in_flat_map. exists t0. split; [exact Hin|cbv beta].
    unfold union_of. rewrite Hi, Hbd, E1, Hn. simpl. rewrite (find_type_upd_self _ _ _ _ Hf).
    simpl. rewrite Hbd, E2. exact Hc.
  Qed.

  Lemma body_edit_input fs fs' c :
    b = BInput fs -> f b = BInput fs' -> In c (diff_input tn fs fs') -> In c (diff_model s n).
  Proof.
    intros E1 E2 Hc. destruct (user_body_found _ _ _ Hb) as (t0 & Hf & Hin & Hn & Hi & Hbd).
    in_model 8. apply in_flat_map. exists t0. split; [exact Hin|cbv beta].
    unfold input_of. rewrite Hi, Hbd, E1, Hn. simpl. rewrite (find_type_upd_self _ _ _ _ Hf).
    simpl. rewrite Hbd, E2. exact Hc.
  Qed.

  Lemma body_edit_object i fs r i' fs' r' c :
    b = BObject i fs r -> f b = BObject i' fs' r' ->
    In c (diff_fields tn fs fs' ++ diff_interfaces_of tn i i') -> In c (diff_model s n).
  Proof.
    intros E1 E2 Hc. destruct (user_body_found _ _ _ Hb) as (t0 & Hf & Hin & Hn & Hi & Hbd).
    in_model 6. apply in_flat_map. exists t0. split; [exact Hin|cbv beta].
    unfold object_of. rewrite Hi, Hbd, E1, Hn. simpl. rewrite (find_type_upd_self _ _ _ _ Hf).
    simpl. rewrite Hbd, E2. exact Hc.
  Qed.

  Lemma body_edit_interface fs fs' c :
    b = BInterface fs -> f b = BInterface fs' -> In c (diff_fields tn fs fs') -> In c (diff_model s n).
  Proof.
    intros E1 E2 Hc. destruct (user_body_found _ _ _ Hb) as (t0 & Hf & Hin & Hn & Hi & Hbd).
    in_model 7. apply in_flat_map. exists t0. split; [exact Hin|cbv beta].
    unfold interface_of. rewrite Hi, Hbd, E1, Hn. simpl. rewrite (find_type_upd_self _ _ _ _ Hf).
    simpl. rewrite Hbd, E2. exact Hc.
  Qed.
End BodyEdit.

(* an edit of the field list of an object or interface type *)
Lemma fields_edit s tn g fs c :
  user_fields s tn = Some fs ->
  In c (diff_fields tn fs (g fs)) ->
  In c (diff_model s (set_types s (upd_body tn (on_fields g) (s_types s)))).
Proof.
  intros Hu Hc. destruct (user_fields_body _ _ _ Hu) as (b & Hb & [(i & r & ->)| ->]).
  - eapply (body_edit_object s tn (on_fields g) _ Hb i fs r i (g fs) r); try reflexivity.
    apply in_or_app; left; exact Hc.
  - eapply (body_edit_interface s tn (on_fields g) _ Hb fs (g fs)); try reflexivity. exact Hc.
Qed.

Lemma fields_added tn fs f :
  find_field fs (f_name f) = None ->
  exists c, In c (diff_fields tn fs (fs ++ [f])) /\ c_path c = [tn; f_name f].
Proof.
  intros H. eexists. split.
  - unfold diff_fields. apply in_or_app. right. apply in_flat_map. exists f. split.
    + apply in_or_app; right; left; reflexivity.
    + rewrite H. left; reflexivity.
  - reflexivity.
Qed.

Lemma fields_removed tn fs fn :
  find_field fs fn <> None ->
  exists c, In c (diff_fields tn fs (filter (not_named f_name fn) fs)) /\ c_path c = [tn; fn].
Proof.
  intros H. apply (look_not_none f_name) in H. destruct H as [f Hf].
  pose proof (look_some_in f_name _ _ _ Hf) as [Hin Hn].
  eexists. split.
  - unfold diff_fields. apply in_or_app. left. apply in_flat_map. exists f. split; [exact Hin|cbv beta].
    unfold find_field. rewrite Hn, (look_filter_self f_name). left; reflexivity.
  - simpl; rewrite ?Hn; reflexivity.
Qed.

Lemma fields_updated tn fs fn f0 (h : field_def -> field_def) c :
  (forall x, f_name (h x) = f_name x) ->
  find_field fs fn = Some f0 ->
  In c (diff_field tn f0 (h f0)) -> In c (diff_fields tn fs (upd_field fn h fs)).
Proof.
  intros Hn Hf Hc. pose proof (look_some_in f_name _ _ _ Hf) as [Hin Hnm].
  unfold diff_fields. apply in_or_app. left. apply in_flat_map. exists f0. split; [exact Hin|cbv beta].
  unfold find_field, upd_field.
  rewrite (look_map f_name (fun x => if str_eqb fn (f_name x) then h x else x)).
  - rewrite Hnm. unfold find_field in Hf. rewrite Hf. simpl. rewrite Hnm, str_eqb_refl. exact Hc.
  - intros x. destruct (str_eqb fn (f_name x)); [apply Hn|reflexivity].
Qed.

Lemma field_args_in tn f0 g c :
  In c (diff_args CFieldArgumentRemoved CFieldArgumentChangedType CFieldArgumentDefaultValueChange
                  CFieldArgumentAdded [tn; f_name f0] (f_args f0) (g (f_args f0))) ->
  In c (diff_field tn f0 (set_f_args g f0)).
Proof. intros H. unfold diff_field. apply in_or_app; right. apply in_or_app; left. exact H. Qed.

(* the four argument edits of a field, through the three levels *)
Lemma field_arg_edit s tn fn g fs f0 c :
  user_fields s tn = Some fs -> find_field fs fn = Some f0 ->
  In c (diff_args CFieldArgumentRemoved CFieldArgumentChangedType CFieldArgumentDefaultValueChange
                  CFieldArgumentAdded [tn; f_name f0] (f_args f0) (g (f_args f0))) ->
  In c (diff_model s (set_types s (upd_body tn (on_fields (upd_field fn (set_f_args g))) (s_types s)))).
Proof.
  intros Hu Hf Hc. apply (fields_edit s tn (upd_field fn (set_f_args g)) fs c Hu).
  apply (fields_updated tn fs fn f0 (set_f_args g)); [reflexivity|exact Hf|].
  apply field_args_in; exact Hc.
Qed.

(* ------------------------------------------------------------ directives *)
Lemma find_dir_upd dn h ds d0 :
  (forall x, d_name (h x) = d_name x) -> find_dir ds dn = Some d0 ->
  find_dir (upd_dir dn h ds) dn = Some (h d0).
Proof.
  intros Hn Hf. unfold find_dir, upd_dir.
  rewrite (look_map d_name (fun d => if str_eqb dn (d_name d) then h d else d)).
  - unfold find_dir in Hf. rewrite Hf. simpl.
    destruct (look_some_in d_name _ _ _ Hf) as [_ Hnm]. rewrite Hnm, str_eqb_refl. reflexivity.
  - intros x. destruct (str_eqb dn (d_name x)); [apply Hn|reflexivity].
Qed.

Lemma user_dir_found s dn d :
  user_dir s dn = Some d ->
  find_dir (s_dirs s) dn = Some d /\ In d (s_dirs s) /\ d_name d = dn /\ d_specified d = false.
Proof.
  unfold user_dir. destruct (find_dir (s_dirs s) dn) as [d0|] eqn:E; [|discriminate].
  destruct (d_specified d0) eqn:Es; [discriminate|]. intros H; inversion H; subst.
  destruct (look_some_in d_name _ _ _ E) as [Hin Hn]. auto.
Qed.

Lemma dir_edit s dn h d c :
  (forall x, d_name (h x) = d_name x) ->
  user_dir s dn = Some d ->
  In c (map (fun l => ch CDirectiveLocationRemoved Breaking [d_name d; l])
            (filter (fun l => negb (mem_str l (d_locs (h d)))) (dedup (d_locs d)))
        ++ map (fun l => ch CDirectiveLocationAdded Compatible [d_name d; l])
            (filter (fun l => negb (mem_str l (d_locs d))) (dedup (d_locs (h d))))
        ++ diff_args CDirectiveArgumentRemoved CDirectiveArgumentChangedType
                     CDirectiveArgumentDefaultValueChange CDirectiveArgumentAdded
                     [d_name d] (d_args d) (d_args (h d))) ->
  In c (diff_model s (set_dirs s (upd_dir dn h (s_dirs s)))).
Proof.
  intros Hn Hu Hc. destruct (user_dir_found _ _ _ Hu) as (Hf & Hin & Hnm & Hs).
  in_model 2. unfold diff_directives. apply in_or_app. left. apply in_flat_map. exists d.
  split; [exact Hin|cbv beta]. rewrite Hs. simpl s_dirs. rewrite Hnm, (find_dir_upd dn h _ d Hn Hf). rewrite Hnm in Hc. exact Hc.
Qed.

(* ------------------------------------------------------------ the theorem *)
Theorem edit_reported : forall e s,
  applicable e s -> reportable e s ->
  exists c, In c (diff_model s (apply_edit e s)) /\ c_path c = edit_path e.
Proof.
  intros e s Ha Hr. destruct e; simpl in Ha, Hr; simpl apply_edit; simpl edit_path.
  - (* EAddType *)
    eexists. split.
    + in_model 1. apply in_flat_map. exists t. split.
      * simpl. apply in_or_app; right; left; reflexivity.
      * unfold added_of. rewrite Ha. left; reflexivity.
    + reflexivity.
  - (* ERemoveType *)
    apply (look_not_none t_name) in Ha. destruct Ha as [t0 Ht].
    destruct (look_some_in t_name _ _ _ Ht) as [Hin Hn].
    eexists. split.
    + in_model 0. apply in_flat_map. exists t0. split; [exact Hin|cbv beta].
      unfold removed_of, find_type. simpl s_types. rewrite Hn, (look_filter_self t_name). left; reflexivity.
    + simpl; rewrite ?Hn; reflexivity.
  - (* ERetypeType *)
    destruct Ha as (t0 & Ht & Hk). destruct (look_some_in t_name _ _ _ Ht) as [Hin Hn].
    eexists. split.
    + in_model 3. apply in_flat_map. exists t0. split; [exact Hin|cbv beta].
      unfold changed_kind_of. simpl s_types. rewrite Hn, (find_type_upd_self _ _ _ _ Ht). simpl.
      destruct (N.eqb_spec (kind_code (t_body t0)) (kind_code b)); [contradiction|]. left; reflexivity.
    + simpl; rewrite ?Hn; reflexivity.
  - (* EAddField *)
    destruct Ha as (fs & Hu & Hf). destruct (fields_added tn fs f Hf) as (c & Hc & Hp).
    exists c. split; [|exact Hp]. apply (fields_edit s tn (fun l => l ++ [f]) fs c Hu Hc).
  - (* ERemoveField *)
    destruct Ha as (fs & Hu & Hf). destruct (fields_removed tn fs fn Hf) as (c & Hc & Hp).
    exists c. split; [|exact Hp]. apply (fields_edit s tn (filter (not_named f_name fn)) fs c Hu Hc).
  - (* ERetypeField *)
    destruct Ha as (fs & f0 & Hu & Hf & Hne). specialize (Hr fs f0 Hu Hf).
    destruct (look_some_in f_name _ _ _ Hf) as [_ Hn].
    eexists. split.
    + apply (fields_edit s tn (upd_field fn (set_f_type t)) fs _ Hu).
      apply (fields_updated tn fs fn f0 (set_f_type t)); [reflexivity|exact Hf|].
      unfold diff_field. simpl f_type. rewrite Hr. left; reflexivity.
    + simpl; rewrite ?Hn; reflexivity.
  - (* EDeprecateField *)
    destruct Ha as (fs & f0 & Hu & Hf & Hne).
    destruct (look_some_in f_name _ _ _ Hf) as [_ Hn].
    assert (Hex : exists c, In c (diff_field tn f0 (set_f_depr d f0)) /\ c_path c = [tn; fn]).
    { assert (Hd : exists c, In c
         (if field_deprecated f0
          then if negb (field_deprecated (set_f_depr d f0))
               then [ch CFieldDeprecationRemoved Compatible [tn; f_name f0]]
               else if negb (opt_eqb str_eqb (f_depr f0) (f_depr (set_f_depr d f0)))
                    then [ch CFieldDeprecationReasonChanged Compatible [tn; f_name f0]] else []
          else if field_deprecated (set_f_depr d f0)
               then [ch CFieldDeprecated Compatible [tn; f_name f0]] else []) /\ c_path c = [tn; fn]).
      { unfold field_deprecated. simpl f_depr.
        destruct (f_depr f0) as [[|c0 r0]|] eqn:E0; destruct d as [[|c1 r1]|]; simpl in *;
          try (exfalso; apply Hne; reflexivity);
          try (eexists; split; [left; reflexivity|simpl; rewrite ?Hn; reflexivity]).
        destruct (N.eqb c0 c1 && str_eqb r0 r1) eqn:Eq.
        - exfalso. apply Hne. apply andb_true_iff in Eq. destruct Eq as [E1 E2].
          apply N.eqb_eq in E1. apply str_eqb_eq in E2. congruence.
        - eexists; split; [left; reflexivity|simpl; rewrite ?Hn; reflexivity]. }
      destruct Hd as (c & Hc & Hp). exists c. split; [|exact Hp].
      unfold diff_field. apply in_or_app; right. apply in_or_app; right. exact Hc. }
    destruct Hex as (c & Hc & Hp). exists c. split; [|exact Hp].
    apply (fields_edit s tn (upd_field fn (set_f_depr d)) fs _ Hu).
    apply (fields_updated tn fs fn f0 (set_f_depr d)); [reflexivity|exact Hf|exact Hc].
  - (* EAddArg *)
    destruct Ha as (fs & f0 & Hu & Hf & Hna). destruct (look_some_in f_name _ _ _ Hf) as [_ Hn].
    destruct (args_added CFieldArgumentRemoved CFieldArgumentChangedType CFieldArgumentDefaultValueChange
                CFieldArgumentAdded [tn; f_name f0] (f_args f0) a Hna) as (c & Hc & Hp).
    exists c. split; [|rewrite Hp, Hn; reflexivity].
    apply (field_arg_edit s tn fn (fun l => l ++ [a]) fs f0 c Hu Hf Hc).
  - (* ERemoveArg *)
    destruct Ha as (fs & f0 & Hu & Hf & Hna). destruct (look_some_in f_name _ _ _ Hf) as [_ Hn].
    destruct (args_removed CFieldArgumentRemoved CFieldArgumentChangedType CFieldArgumentDefaultValueChange
                CFieldArgumentAdded [tn; f_name f0] (f_args f0) an Hna) as (c & Hc & Hp).
    exists c. split; [|rewrite Hp, Hn; reflexivity].
    apply (field_arg_edit s tn fn (filter (not_named a_name an)) fs f0 c Hu Hf Hc).
  - (* ERetypeArg *)
    destruct Ha as (fs & f0 & a & Hu & Hf & Hfa & Hne). specialize (Hr fs f0 a Hu Hf Hfa).
    destruct (look_some_in f_name _ _ _ Hf) as [_ Hn].
    destruct (args_updated CFieldArgumentRemoved CFieldArgumentChangedType CFieldArgumentDefaultValueChange
                CFieldArgumentAdded [tn; f_name f0] (f_args f0) an a (set_a_type t)) as (c & Hc & Hp);
      [reflexivity|exact Hfa|simpl; rewrite Hr; reflexivity|].
    exists c. split; [|rewrite Hp, Hn; reflexivity].
    apply (field_arg_edit s tn fn (upd_arg an (set_a_type t)) fs f0 c Hu Hf Hc).
  - (* EDefaultArg *)
    destruct Ha as (fs & f0 & a & Hu & Hf & Hfa & Hne).
    destruct (look_some_in f_name _ _ _ Hf) as [_ Hn].
    destruct (args_updated CFieldArgumentRemoved CFieldArgumentChangedType CFieldArgumentDefaultValueChange
                CFieldArgumentAdded [tn; f_name f0] (f_args f0) an a (set_a_default d)) as (c & Hc & Hp);
      [reflexivity|exact Hfa|simpl; rewrite (default_changed_neq _ _ Hne); apply orb_true_r|].
    exists c. split; [|rewrite Hp, Hn; reflexivity].
    apply (field_arg_edit s tn fn (upd_arg an (set_a_default d)) fs f0 c Hu Hf Hc).
  - (* EAddInputField *)
    destruct Ha as (fs & Hu & Hf). eexists. split.
    + eapply (body_edit_input s tn _ _ Hu fs (fs ++ [f])); try reflexivity.
      unfold diff_input. apply in_or_app. right. apply in_flat_map. exists f. split.
      * apply in_or_app; right; left; reflexivity.
      * rewrite Hf. left; reflexivity.
    + reflexivity.
  - (* ERemoveInputField *)
    destruct Ha as (fs & Hu & Hf). apply (look_not_none i_name) in Hf. destruct Hf as [f0 Hf].
    destruct (look_some_in i_name _ _ _ Hf) as [Hin Hn]. eexists. split.
    + eapply (body_edit_input s tn _ _ Hu fs (filter (not_named i_name fn) fs)); try reflexivity.
      unfold diff_input. apply in_or_app. left. apply in_flat_map. exists f0. split; [exact Hin|cbv beta].
      unfold find_input. rewrite Hn, (look_filter_self i_name). left; reflexivity.
    + simpl; rewrite ?Hn; reflexivity.
  - (* ERetypeInputField *)
    destruct Ha as (fs & f0 & Hu & Hf & Hne). specialize (Hr fs f0 Hu Hf).
    destruct (look_some_in i_name _ _ _ Hf) as [Hin Hn]. eexists. split.
    + eapply (body_edit_input s tn _ _ Hu fs); try reflexivity.
      unfold diff_input. apply in_or_app. left. apply in_flat_map. exists f0. split; [exact Hin|cbv beta].
      unfold find_input.
      rewrite (look_map i_name (fun x => if str_eqb fn (i_name x) then mkInput (i_name x) t (i_default x) else x))
        by (intros x; destruct (str_eqb fn (i_name x)); reflexivity).
      rewrite Hn. unfold find_input in Hf. rewrite Hf. simpl. rewrite Hn, str_eqb_refl. simpl.
      rewrite Hr. left; reflexivity.
    + simpl; rewrite ?Hn; reflexivity.
  - (* EDefaultInputField *)
    destruct Ha as (fs & f0 & Hu & Hf & Hne).
    destruct (look_some_in i_name _ _ _ Hf) as [Hin Hn]. eexists. split.
    + eapply (body_edit_input s tn _ _ Hu fs); try reflexivity.
      unfold diff_input. apply in_or_app. left. apply in_flat_map. exists f0. split; [exact Hin|cbv beta].
      unfold find_input.
      rewrite (look_map i_name (fun x => if str_eqb fn (i_name x) then mkInput (i_name x) (i_type x) d else x))
        by (intros x; destruct (str_eqb fn (i_name x)); reflexivity).
      rewrite Hn. unfold find_input in Hf. rewrite Hf. simpl. rewrite Hn, str_eqb_refl. simpl.
      rewrite safe_in_refl, (default_changed_neq _ _ Hne). left; reflexivity.
    + simpl; rewrite ?Hn; reflexivity.
  - (* EAddEnumValue *)
    destruct Ha as (vs & Hu & Hf). eexists. split.
    + eapply (body_edit_enum s tn _ _ Hu vs (vs ++ [v])); try reflexivity.
      unfold diff_enum. apply in_or_app. right. apply in_flat_map. exists v. split.
      * apply in_or_app; right; left; reflexivity.
      * rewrite Hf. left; reflexivity.
    + reflexivity.
  - (* ERemoveEnumValue *)
    destruct Ha as (vs & Hu & Hf). apply (look_not_none e_name) in Hf. destruct Hf as [v0 Hf].
    destruct (look_some_in e_name _ _ _ Hf) as [Hin Hn]. eexists. split.
    + eapply (body_edit_enum s tn _ _ Hu vs (filter (not_named e_name vn) vs)); try reflexivity.
      unfold diff_enum. apply in_or_app. left. apply in_flat_map. exists v0. split; [exact Hin|cbv beta].
      unfold find_enum. rewrite Hn, (look_filter_self e_name). left; reflexivity.
    + simpl; rewrite ?Hn; reflexivity.
  - (* EDeprecateEnumValue *)
    destruct Ha as (vs & v0 & Hu & Hf & Hne).
    destruct (look_some_in e_name _ _ _ Hf) as [Hin Hn].
    assert (Hex : exists c, In c
       (if enum_deprecated v0
        then if negb (enum_deprecated (mkEnumV (e_name v0) d))
             then [ch CEnumValueDeprecationRemoved Compatible [tn; e_name v0]]
             else if negb (opt_eqb str_eqb (e_depr v0) d)
                  then [ch CEnumValueDeprecationReasonChanged Compatible [tn; e_name v0]] else []
        else if enum_deprecated (mkEnumV (e_name v0) d)
             then [ch CEnumValueDeprecated Compatible [tn; e_name v0]] else []) /\ c_path c = [tn; vn]).
    { unfold enum_deprecated. simpl e_depr. rewrite (opt_str_neq _ _ Hne).
      destruct (e_depr v0), d; simpl; try (exfalso; apply Hne; reflexivity);
        eexists; (split; [left; reflexivity|simpl; rewrite ?Hn; reflexivity]). }
    destruct Hex as (c & Hc & Hp). exists c. split; [|exact Hp].
    eapply (body_edit_enum s tn _ _ Hu vs); try reflexivity.
    unfold diff_enum. apply in_or_app. left. apply in_flat_map. exists v0. split; [exact Hin|cbv beta].
    unfold find_enum.
    rewrite (look_map e_name (fun x => if str_eqb vn (e_name x) then mkEnumV (e_name x) d else x))
      by (intros x; destruct (str_eqb vn (e_name x)); reflexivity).
    rewrite Hn. unfold find_enum in Hf. rewrite Hf. simpl. rewrite Hn, str_eqb_refl. simpl.
    rewrite Hn in Hc. exact Hc.
  - (* EAddUnionMember *)
    destruct Ha as (ms & Hu & Hni). eexists. split.
    + eapply (body_edit_union s tn _ _ Hu ms (ms ++ [m])); try reflexivity.
      unfold diff_union. apply in_or_app. right. apply in_map_iff. exists m. split; [reflexivity|].
      apply filter_In. split.
      * apply In_dedup. apply in_or_app; right; left; reflexivity.
      * apply negb_true_iff. destruct (mem_str m ms) eqn:E; [|reflexivity].
        apply mem_str_In in E. contradiction.
    + reflexivity.
  - (* ERemoveUnionMember *)
    destruct Ha as (ms & Hu & Hi). eexists. split.
    + eapply (body_edit_union s tn _ _ Hu ms (filter (fun x => negb (str_eqb m x)) ms)); try reflexivity.
      unfold diff_union. apply in_or_app. left. apply in_map_iff. exists m. split; [reflexivity|].
      apply filter_In. split; [apply In_dedup; exact Hi|].
      apply negb_true_iff. destruct (mem_str m (filter _ ms)) eqn:E; [|reflexivity].
      apply mem_str_In in E. apply filter_In in E. destruct E as [_ E].
      rewrite str_eqb_refl in E. discriminate.
    + reflexivity.
  - (* EAddInterface *)
    destruct Ha as (is_ & fs & r & Hu & Hni). eexists. split.
    + eapply (body_edit_object s tn _ _ Hu is_ fs r (is_ ++ [i]) fs r); try reflexivity.
      apply in_or_app. right. unfold diff_interfaces_of. apply in_or_app. right.
      apply in_map_iff. exists i. split; [reflexivity|]. apply filter_In. split.
      * apply In_dedup. apply in_or_app; right; left; reflexivity.
      * apply negb_true_iff. destruct (mem_str i is_) eqn:E; [|reflexivity].
        apply mem_str_In in E. contradiction.
    + reflexivity.
  - (* ERemoveInterface *)
    destruct Ha as (is_ & fs & r & Hu & Hi). eexists. split.
    + eapply (body_edit_object s tn _ _ Hu is_ fs r (filter (fun x => negb (str_eqb i x)) is_) fs r);
        try reflexivity.
      apply in_or_app. right. unfold diff_interfaces_of. apply in_or_app. left.
      apply in_map_iff. exists i. split; [reflexivity|]. apply filter_In. split; [apply In_dedup; exact Hi|].
      apply negb_true_iff. destruct (mem_str i (filter _ is_)) eqn:E; [|reflexivity].
      apply mem_str_In in E. apply filter_In in E. destruct E as [_ E].
      rewrite str_eqb_refl in E. discriminate.
    + reflexivity.
  - (* EAddDirective *)
    destruct Ha as [Hf Hs]. eexists. split.
    + in_model 2. unfold diff_directives. apply in_or_app. right. apply in_flat_map. exists d. split.
      * simpl. apply in_or_app; right; left; reflexivity.
      * rewrite Hs, Hf. left; reflexivity.
    + reflexivity.
  - (* ERemoveDirective *)
    destruct (user_dir s dn) as [d0|] eqn:Hu; [|congruence].
    destruct (user_dir_found _ _ _ Hu) as (Hf & Hin & Hnm & Hs).
    eexists. split.
    + in_model 2. unfold diff_directives. apply in_or_app. left. apply in_flat_map. exists d0.
      split; [exact Hin|cbv beta]. rewrite Hs. unfold find_dir. simpl s_dirs.
      rewrite Hnm, (look_filter_self d_name). left; reflexivity.
    + simpl; rewrite ?Hnm; reflexivity.
  - (* EAddLocation *)
    destruct Ha as (d0 & Hu & Hni). destruct (user_dir_found _ _ _ Hu) as (_ & _ & Hnm & _).
    eexists. split.
    + apply (dir_edit s dn (set_d_locs (fun ls => ls ++ [l])) d0 _ (fun _ => eq_refl) Hu).
      apply in_or_app. right. apply in_or_app. left.
      apply in_map_iff. exists l. split; [reflexivity|]. apply filter_In. split.
      * apply In_dedup. simpl. apply in_or_app; right; left; reflexivity.
      * apply negb_true_iff. destruct (mem_str l (d_locs d0)) eqn:E; [|reflexivity].
        apply mem_str_In in E. contradiction.
    + simpl; rewrite ?Hnm; reflexivity.
  - (* ERemoveLocation *)
    destruct Ha as (d0 & Hu & Hi). destruct (user_dir_found _ _ _ Hu) as (_ & _ & Hnm & _).
    eexists. split.
    + apply (dir_edit s dn (set_d_locs (filter (fun x => negb (str_eqb l x)))) d0 _ (fun _ => eq_refl) Hu).
      apply in_or_app. left.
      apply in_map_iff. exists l. split; [reflexivity|]. apply filter_In. split; [apply In_dedup; exact Hi|].
      apply negb_true_iff. simpl. destruct (mem_str l (filter _ (d_locs d0))) eqn:E; [|reflexivity].
      apply mem_str_In in E. apply filter_In in E. destruct E as [_ E].
      rewrite str_eqb_refl in E. discriminate.
    + simpl; rewrite ?Hnm; reflexivity.
  - (* EAddDirArg *)
    destruct Ha as (d0 & Hu & Hna). destruct (user_dir_found _ _ _ Hu) as (_ & _ & Hnm & _).
    destruct (args_added CDirectiveArgumentRemoved CDirectiveArgumentChangedType
                CDirectiveArgumentDefaultValueChange CDirectiveArgumentAdded
                [d_name d0] (d_args d0) a Hna) as (c & Hc & Hp).
    exists c. split; [|rewrite Hp, Hnm; reflexivity].
    apply (dir_edit s dn (set_d_args (fun l => l ++ [a])) d0 _ (fun _ => eq_refl) Hu).
    apply in_or_app; right. apply in_or_app; right. exact Hc.
  - (* ERemoveDirArg *)
    destruct Ha as (d0 & Hu & Hna). destruct (user_dir_found _ _ _ Hu) as (_ & _ & Hnm & _).
    destruct (args_removed CDirectiveArgumentRemoved CDirectiveArgumentChangedType
                CDirectiveArgumentDefaultValueChange CDirectiveArgumentAdded
                [d_name d0] (d_args d0) an Hna) as (c & Hc & Hp).
    exists c. split; [|rewrite Hp, Hnm; reflexivity].
    apply (dir_edit s dn (set_d_args (filter (not_named a_name an))) d0 _ (fun _ => eq_refl) Hu).
    apply in_or_app; right. apply in_or_app; right. exact Hc.
  - (* ERetypeDirArg *)
    destruct Ha as (d0 & a & Hu & Hfa & Hne). specialize (Hr d0 a Hu Hfa).
    destruct (user_dir_found _ _ _ Hu) as (_ & _ & Hnm & _).
    destruct (args_updated CDirectiveArgumentRemoved CDirectiveArgumentChangedType
                CDirectiveArgumentDefaultValueChange CDirectiveArgumentAdded
                [d_name d0] (d_args d0) an a (set_a_type t)) as (c & Hc & Hp);
      [reflexivity|exact Hfa|simpl; rewrite Hr; reflexivity|].
    exists c. split; [|rewrite Hp, Hnm; reflexivity].
    apply (dir_edit s dn (set_d_args (upd_arg an (set_a_type t))) d0 _ (fun _ => eq_refl) Hu).
    apply in_or_app; right. apply in_or_app; right. exact Hc.
  - (* EDefaultDirArg *)
    destruct Ha as (d0 & a & Hu & Hfa & Hne).
    destruct (user_dir_found _ _ _ Hu) as (_ & _ & Hnm & _).
    destruct (args_updated CDirectiveArgumentRemoved CDirectiveArgumentChangedType
                CDirectiveArgumentDefaultValueChange CDirectiveArgumentAdded
                [d_name d0] (d_args d0) an a (set_a_default d)) as (c & Hc & Hp);
      [reflexivity|exact Hfa|simpl; rewrite (default_changed_neq _ _ Hne); apply orb_true_r|].
    exists c. split; [|rewrite Hp, Hnm; reflexivity].
    apply (dir_edit s dn (set_d_args (upd_arg an (set_a_default d))) d0 _ (fun _ => eq_refl) Hu).
    apply in_or_app; right. apply in_or_app; right. exact Hc.
Qed.

(* ------------------------------------------------------------ the guard is exactly the open finding *)
Theorem reportable_or_safe_retype e s :
  applicable e s -> reportable e s \/ safe_retype e s.
Proof.
  intros Ha. destruct e; simpl in *; try (left; exact I).
  - destruct Ha as (fs & f0 & Hu & Hf & Hne).
    destruct (safe_out (f_type f0) t) eqn:E.
    + right. exists fs, f0. auto.
    + left. intros fs' f' Hu' Hf'. rewrite Hu in Hu'. inversion Hu'; subst.
      rewrite Hf in Hf'. inversion Hf'; subst. exact E.
  - destruct Ha as (fs & f0 & a & Hu & Hf & Hfa & Hne).
    destruct (safe_in (a_type a) t) eqn:E.
    + right. exists fs, f0, a. auto.
    + left. intros fs' f' a' Hu' Hf' Ha'. rewrite Hu in Hu'. inversion Hu'; subst.
      rewrite Hf in Hf'. inversion Hf'; subst. rewrite Hfa in Ha'. inversion Ha'; subst. exact E.
  - destruct Ha as (fs & f0 & Hu & Hf & Hne).
    destruct (safe_in (i_type f0) t) eqn:E.
    + right. exists fs, f0. auto.
    + left. intros fs' f' Hu' Hf'. rewrite Hu in Hu'. inversion Hu'; subst.
      rewrite Hf in Hf'. inversion Hf'; subst. exact E.
  - destruct Ha as (d0 & a & Hu & Hfa & Hne).
    destruct (safe_in (a_type a) t) eqn:E.
    + right. exists d0, a. auto.
    + left. intros d' a' Hu' Ha'. rewrite Hu in Hu'. inversion Hu'; subst.
      rewrite Hfa in Ha'. inversion Ha'; subst. exact E.
Qed.

Theorem reportable_excludes_safe_retype e s : reportable e s -> safe_retype e s -> False.
Proof.
  destruct e; simpl; try tauto.
  - intros Hr (fs & f0 & Hu & Hf & _ & Hs). rewrite (Hr fs f0 Hu Hf) in Hs. discriminate.
  - intros Hr (fs & f0 & a & Hu & Hf & Ha & _ & Hs). rewrite (Hr fs f0 a Hu Hf Ha) in Hs. discriminate.
  - intros Hr (fs & f0 & Hu & Hf & _ & Hs). rewrite (Hr fs f0 Hu Hf) in Hs. discriminate.
  - intros Hr (d0 & a & Hu & Ha & _ & Hs). rewrite (Hr d0 a Hu Ha) in Hs. discriminate.
Qed.
