(* Moving part of a selection into a fresh named fragment and spreading it in
   place does not change the depth. *)
From PyGql Require Import Spec.DepthSpec Proofs.DepthProofs Proofs.DepthTermination.

Section WrapNamed.
  Variable frags : frag_table.
  Variable vs : vars.
  Variable n : str.            (* the fresh fragment name *)
  Variable tc0 : ty.
  Variable sub0 : list selection.

  Notation frags' := ((n, (tc0, sub0)) :: frags).

  (* [n] is not spread anywhere (at any depth) in [ss] *)
  Definition fresh_in (ss : list selection) : Prop := ~ In n (spreads_list ss).
  (* ... nor in any fragment already defined *)
  Definition fresh_frags : Prop :=
    forall m tc fs, alookup m frags = Some (tc, fs) -> fresh_in fs.

  Hypothesis Hff : fresh_frags.

  Lemma fresh_in_app a b : fresh_in (a ++ b) <-> fresh_in a /\ fresh_in b.
  Proof. unfold fresh_in, spreads_list. rewrite flat_map_app, in_app_iff. tauto. Qed.

  Lemma fresh_in_member ss x : fresh_in ss -> In x ss -> ~ In n (spreads_of x).
  Proof.
    unfold fresh_in, spreads_list. intros H Hin Hx. apply H. apply in_flat_map. eauto.
  Qed.

  Lemma lookup_other m : m <> n -> alookup m frags' = alookup m frags.
  Proof.
    intros Hne. simpl. destruct (str_eqb_spec m n); [contradiction|reflexivity].
  Qed.

  Lemma reach_fresh_fwd ss f : reach frags' vs ss f -> fresh_in ss -> reach frags vs ss f.
  Proof.
    induction 1 as [ss a nm args ds sl sub l Hin Hi | ss tc ds ssl sub l f Hin Hi Hr IH
                    | ss nm ds l tc fsels f Hin Hi Hlk Hr IH]; intros Hf.
    - apply R_field; assumption.
    - eapply R_inline; [exact Hin|exact Hi|]. apply IH.
      exact (fresh_in_member _ _ Hf Hin).
    - assert (Hne : n_val nm <> n).
      { intros E. apply (fresh_in_member _ _ Hf Hin). simpl. left. exact E. }
      rewrite (lookup_other _ Hne) in Hlk.
      eapply R_spread; [exact Hin|exact Hi|exact Hlk|]. apply IH. eapply Hff; exact Hlk.
  Qed.

  Lemma reach_fresh_bwd ss f : reach frags vs ss f -> fresh_in ss -> reach frags' vs ss f.
  Proof.
    induction 1 as [ss a nm args ds sl sub l Hin Hi | ss tc ds ssl sub l f Hin Hi Hr IH
                    | ss nm ds l tc fsels f Hin Hi Hlk Hr IH]; intros Hf.
    - apply R_field; assumption.
    - eapply R_inline; [exact Hin|exact Hi|]. apply IH.
      exact (fresh_in_member _ _ Hf Hin).
    - assert (Hne : n_val nm <> n).
      { intros E. apply (fresh_in_member _ _ Hf Hin). simpl. left. exact E. }
      eapply R_spread; [exact Hin|exact Hi|rewrite (lookup_other _ Hne); exact Hlk|].
      apply IH. eapply Hff; exact Hlk.
  Qed.

  Lemma reach_fresh_children ss f :
    reach frags vs ss f -> fresh_in ss -> fresh_in (field_children f).
  Proof.
    induction 1 as [ss a nm args ds sl sub l Hin Hi | ss tc ds ssl sub l f Hin Hi Hr IH
                    | ss nm ds l tc fsels f Hin Hi Hlk Hr IH]; intros Hf.
    - simpl. destruct sl; [|intros []]. exact (fresh_in_member _ _ Hf Hin).
    - apply IH. exact (fresh_in_member _ _ Hf Hin).
    - apply IH. eapply Hff; exact Hlk.
  Qed.

  Lemma path_len_fresh : forall k ss, fresh_in ss ->
    (path_len frags' vs ss k <-> path_len frags vs ss k).
  Proof.
    induction k as [|k IH]; intros ss Hf; [split; constructor|].
    split; intros H; inversion H as [|ss0 f k0 Hr Hp]; subst.
    - assert (Hr' := reach_fresh_fwd _ _ Hr Hf).
      eapply P_step; [exact Hr'|]. apply IH; [|exact Hp].
      eapply reach_fresh_children; eassumption.
    - eapply P_step; [apply reach_fresh_bwd; eassumption|]. apply IH; [|exact Hp].
      eapply reach_fresh_children; eassumption.
  Qed.

  Hypothesis Hsub0 : fresh_in sub0.

  Lemma reach_wrap_named pre post nm ds l f :
    n_val nm = n -> included vs ds = true -> fresh_in pre -> fresh_in post ->
    (reach frags' vs (pre ++ SSpread nm ds l :: post) f <-> reach frags vs (pre ++ sub0 ++ post) f).
  Proof.
    intros Hn Hi Hpre Hpost.
    change (SSpread nm ds l :: post) with ([SSpread nm ds l] ++ post).
    rewrite !reach_app. split.
    - intros [H|[H|H]].
      + left. apply reach_fresh_fwd; assumption.
      + right; left. apply reach_single_spread in H. destruct H as [_ (tc & fs & Hlk & Hr)].
        rewrite Hn in Hlk. simpl in Hlk. rewrite str_eqb_refl in Hlk.
        injection Hlk as <- <-. apply reach_fresh_fwd; assumption.
      + right; right. apply reach_fresh_fwd; assumption.
    - intros [H|[H|H]].
      + left. apply reach_fresh_bwd; assumption.
      + right; left. eapply R_spread; [left; reflexivity|exact Hi| |apply reach_fresh_bwd; eassumption].
        rewrite Hn. simpl. rewrite str_eqb_refl. reflexivity.
      + right; right. apply reach_fresh_bwd; assumption.
  Qed.

  Lemma path_len_wrap_named pre post nm ds l k :
    n_val nm = n -> included vs ds = true -> fresh_in pre -> fresh_in post ->
    (path_len frags' vs (pre ++ SSpread nm ds l :: post) k <-> path_len frags vs (pre ++ sub0 ++ post) k).
  Proof.
    intros Hn Hi Hpre Hpost.
    assert (Hfr : fresh_in (pre ++ sub0 ++ post)).
    { apply fresh_in_app; split; [assumption|]. apply fresh_in_app; split; assumption. }
    split; intros H; inversion H as [|ss0 f k0 Hr Hp]; subst; try constructor.
    - apply (reach_wrap_named pre post nm ds l f Hn Hi Hpre Hpost) in Hr.
      eapply P_step; [exact Hr|]. apply path_len_fresh; [|exact Hp].
      eapply reach_fresh_children; eassumption.
    - eapply P_step; [apply (reach_wrap_named pre post nm ds l f Hn Hi Hpre Hpost); exact Hr|].
      apply path_len_fresh; [|exact Hp]. eapply reach_fresh_children; eassumption.
  Qed.

  Lemma is_depth_wrap_named pre post nm ds l d :
    n_val nm = n -> included vs ds = true -> fresh_in pre -> fresh_in post ->
    (is_depth frags' vs (pre ++ SSpread nm ds l :: post) d <-> is_depth frags vs (pre ++ sub0 ++ post) d).
  Proof.
    intros Hn Hi Hpre Hpost. unfold is_depth.
    assert (He := fun k => path_len_wrap_named pre post nm ds l k Hn Hi Hpre Hpost).
    split; intros [P M]; split.
    - apply He; exact P.
    - intros k Hk. apply M. apply He; exact Hk.
    - apply He; exact P.
    - intros k Hk. apply M. apply He; exact Hk.
  Qed.
End WrapNamed.
