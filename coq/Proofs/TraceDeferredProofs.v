(* C16 over the deferred executor machine of C08/C09 (imported read-only):
   every complete run of Exec/RuntimeMachine.v logs a linearisation of the
   program's obligations (part 2), hence its decorated log is an admissible
   interleaving in the sense of C16_interleave (part 3). *)
From Coq Require Import List NArith ZArith Bool Arith Lia.
Import ListNotations.
From PyGql Require Import Exec.RuntimeMachine Proofs.RuntimeMachineProofs Proofs.RuntimeMachineWf.
From PyGql Require Import Spec.TraceSpec Exec.TraceModel Proofs.TraceProofs Exec.TraceDeferred.

(* ================================================================ 1. linearisations *)

Lemma merge_nil_left : forall (A : Type) (l : list A), merge [] l l.
Proof. intros A l; induction l; constructor; auto. Qed.
Lemma merge_nil_right : forall (A : Type) (l : list A), merge l [] l.
Proof. intros A l; induction l; constructor; auto. Qed.
Lemma merge_prefix : forall (A : Type) (n1 n2 l1 l2 l : list A),
  merge l1 l2 l -> merge (n1 ++ l1) (n2 ++ l2) (n1 ++ n2 ++ l).
Proof.
  intros A n1 n2 l1 l2 l H. induction n1 as [|x n1 IH]; cbn.
  - induction n2 as [|y n2 IH2]; cbn; auto. constructor; auto.
  - constructor; auto.
Qed.

(* [steps o new o']: a computation that owes o may log [new] and then owe o' *)
Definition steps {A : Type} (o : ob A) (new : list A) (o' : ob A) : Prop :=
  forall L, sp_lin o' L -> sp_lin o (new ++ L).

Lemma steps_refl : forall (A : Type) (o : ob A), steps o [] o.
Proof. intros A o L H; exact H. Qed.
Lemma steps_trans : forall (A : Type) (a b c : ob A) n1 n2,
  steps a n1 b -> steps b n2 c -> steps a (n1 ++ n2) c.
Proof. intros A a b c n1 n2 H1 H2 L H. rewrite <- app_assoc. apply H1, H2, H. Qed.
Lemma steps_par : forall (A : Type) (a a' b b' : ob A) n1 n2,
  steps a n1 a' -> steps b n2 b' -> steps (OPar a b) (n1 ++ n2) (OPar a' b').
Proof.
  intros A a a' b b' n1 n2 H1 H2 L (La & Lb & Ha & Hb & Hm). cbn.
  exists (n1 ++ La), (n2 ++ Lb). repeat split; auto. rewrite <- app_assoc. apply merge_prefix; auto.
Qed.
Lemma steps_seq_l : forall (A : Type) (a a' b : ob A) n,
  steps a n a' -> steps (OSeq a b) n (OSeq a' b).
Proof.
  intros A a a' b n H L (La & Lb & Ha & Hb & ->). cbn.
  exists (n ++ La), Lb. repeat split; auto. apply app_assoc.
Qed.
Lemma steps_seq_done : forall (A : Type) (a b b' : ob A) n m,
  steps a n ONil -> steps b m b' -> steps (OSeq a b) (n ++ m) b'.
Proof.
  intros A a b b' n m H1 H2 L H. cbn. exists n, (m ++ L). repeat split.
  - specialize (H1 [] eq_refl). rewrite app_nil_r in H1. exact H1.
  - apply H2, H.
  - symmetry; apply app_assoc.
Qed.
Lemma steps_seq_done0 : forall (A : Type) (a b : ob A) n, steps a n ONil -> steps (OSeq a b) n b.
Proof.
  intros A a b n H L HL. cbn. exists n, L. repeat split; auto.
  specialize (H [] eq_refl). rewrite app_nil_r in H. exact H.
Qed.
Lemma steps_word : forall (A : Type) (w1 w2 : list A), steps (OW (w1 ++ w2)) w1 (OW w2).
Proof. intros A w1 w2 L H. cbn in *. subst. reflexivity. Qed.
Lemma steps_word_done : forall (A : Type) (w : list A), steps (OW w) w ONil.
Proof. intros A w L H. cbn in *. subst. apply app_nil_r. Qed.
Lemma steps_par_nil_l : forall (A : Type) (b : ob A), steps (OPar ONil b) [] b.
Proof. intros A b L H. cbn. exists [], L. repeat split; auto. apply merge_nil_left. Qed.
Lemma steps_par_nil_r : forall (A : Type) (a : ob A), steps (OPar a ONil) [] a.
Proof. intros A a L H. cbn. exists L, []. repeat split; auto. apply merge_nil_right. Qed.
Lemma steps_seq_nil_r : forall (A : Type) (a : ob A), steps a [] (OSeq a ONil).
Proof. intros A a L (La & Lb & Ha & Hb & ->). cbn in Hb. subst. rewrite app_nil_r. exact Ha. Qed.
Lemma steps_seq_nil_l : forall (A : Type) (b : ob A), steps (OSeq ONil b) [] b.
Proof. intros A b L H. cbn. exists [], L. repeat split; auto. Qed.

(* ================================================================ 2. the machine refines the obligations *)

Definition ev (st : mstate) : list entry := events_of (log st).

Lemma events_of_app : forall a b, events_of (a ++ b) = events_of a ++ events_of b.
Proof. intros; unfold events_of; apply filter_app. Qed.

Lemma ev_emit : forall e st, ev (emit e st) = ev st ++ events_of [e].
Proof. intros; unfold ev. rewrite log_emit. apply events_of_app. Qed.

Definition kclean (k : K) : Prop :=
  match k with
  | KComplete (Fld _ _ _ b) _ => exn_tags_b b = []
  | KSerial _ _ rest => exn_tags_fs rest = []
  | _ => True
  end.
Fixpoint clean (d : D) : Prop :=
  match d with
  | Val _ | Task _ _ => True
  | Exn _ => False
  | Bind d1 k => clean d1 /\ kclean k
  | Gather ds => (fix go (ds : list D) : Prop :=
                    match ds with [] => True | d1 :: r => clean d1 /\ go r end) ds
  end.
Fixpoint clean_list (ds : list D) : Prop :=
  match ds with [] => True | d :: r => clean d /\ clean_list r end.
Lemma clean_gather : forall ds, clean (Gather ds) = clean_list ds.
Proof. intros ds. cbn. induction ds as [|d ds IH]; cbn; [reflexivity|]. rewrite IH. reflexivity. Qed.
Lemma rem_gather : forall ds, rem (Gather ds) = rem_list ds.
Proof. intros ds. cbn. induction ds as [|d ds IH]; cbn; [reflexivity|]. rewrite IH. reflexivity. Qed.

Lemma clean_first_exn : forall ds, clean_list ds -> first_exn ds = None.
Proof.
  induction ds as [|d ds IH]; cbn; auto. intros [Hd Hr]. destruct d; cbn in *; auto. contradiction.
Qed.
Lemma all_vals_rem : forall ds vs, all_vals ds = Some vs -> sp_lin (rem_list ds) [].
Proof.
  induction ds as [|d ds IH]; intros vs H; cbn; auto. cbn in H. destruct d; try discriminate.
  destruct (all_vals ds) as [vs'|] eqn:E; [|discriminate].
  exists [], []. repeat split; cbn; eauto. constructor.
Qed.

(* what a synchronous call returned from state st, against what it owed *)
Definition sync_ok (r : sres * mstate) (st : mstate) (o : ob entry) : Prop :=
  exists d new, fst r = SOk d /\ ev (snd r) = ev st ++ new /\ orphans (snd r) = orphans st /\
                clean d /\ steps o new (rem d).
Definition syncf_ok (r : fres * mstate) (st : mstate) (o : ob entry) : Prop :=
  exists ds new, fst r = FOk ds /\ ev (snd r) = ev st ++ new /\ orphans (snd r) = orphans st /\
                 clean_list ds /\ steps o new (rem_list ds).
Definition d_ok (r : D * mstate) (st : mstate) (o : ob entry) : Prop :=
  exists new, ev (snd r) = ev st ++ new /\ orphans (snd r) = orphans st /\
              clean (fst r) /\ steps o new (rem (fst r)).

Lemma gather_norm_ok : forall ds st, clean_list ds -> d_ok (gather_norm ds st) st (rem_list ds).
Proof.
  intros ds st Hc. unfold gather_norm. rewrite (clean_first_exn ds Hc).
  destruct (all_vals ds) as [vs|] eqn:Ev; exists []; cbn [fst snd]; rewrite app_nil_r.
  - split; [reflexivity|]. split; [reflexivity|]. split; [exact I|].
    intros L HL. cbn in HL. subst. cbn. eapply all_vals_rem; eauto.
  - split; [reflexivity|]. split; [reflexivity|]. split.
    + rewrite clean_gather. exact Hc.
    + rewrite rem_gather. apply steps_refl.
Qed.

Lemma fields_to_sync : forall keys r st o, syncf_ok r st o ->
  sync_ok (match r with
           | (FOk ds, st1) => let '(d, st2) := collect_sync keys ds st1 in (SOk d, st2)
           | (FRaise x, st1) => (SRaise x, st1)
           end) st o.
Proof.
  intros keys [[ds|x] st1] st o (ds' & new & Hr & He & Ho & Hc & Hs); cbn [fst snd] in *; [|discriminate].
  injection Hr as <-. unfold collect_sync.
  destruct (gather_norm_ok ds st1 Hc) as (new2 & He2 & Ho2 & Hc2 & Hs2).
  destruct (gather_norm ds st1) as [g st2]. cbn [fst snd] in *.
  assert (Hsteps : steps o (new ++ new2) (rem g)) by (eapply steps_trans; eauto).
  assert (Hev : ev st2 = ev st ++ new ++ new2) by (rewrite He2, He, app_assoc; reflexivity).
  assert (Hor : orphans st2 = orphans st) by congruence.
  destruct g as [v|x|t m|d k|gs]; cbn [fst snd].
  - exists (Val (VObj (combine keys (list_of v)))), (new ++ new2).
    split; [reflexivity|]. split; [exact Hev|]. split; [exact Hor|]. split; [exact I|exact Hsteps].
  - destruct Hc2.
  - exists (Bind (Task t m) (KCollect keys)), (new ++ new2).
    split; [reflexivity|]. split; [exact Hev|]. split; [exact Hor|]. split; [split; [exact Hc2|exact I]|].
    intros L HL. apply Hsteps. apply (steps_seq_nil_r _ (rem (Task t m))). exact HL.
  - exists (Bind (Bind d k) (KCollect keys)), (new ++ new2).
    split; [reflexivity|]. split; [exact Hev|]. split; [exact Hor|]. split; [split; [exact Hc2|exact I]|].
    intros L HL. apply Hsteps. apply (steps_seq_nil_r _ (rem (Bind d k))). exact HL.
  - exists (Bind (Gather gs) (KCollect keys)), (new ++ new2).
    split; [reflexivity|]. split; [exact Hev|]. split; [exact Hor|]. split; [split; [exact Hc2|exact I]|].
    intros L HL. apply Hsteps. apply (steps_seq_nil_r _ (rem (Gather gs))). exact HL.
Qed.

Lemma items_to_sync : forall r st o, syncf_ok r st o ->
  sync_ok (match r with
           | (FOk ds, st1) => let '(d, st2) := gather_sync ds st1 in (SOk d, st2)
           | (FRaise x, st1) => (SRaise x, st1)
           end) st o.
Proof.
  intros [[ds|x] st1] st o (ds' & new & Hr & He & Ho & Hc & Hs); cbn [fst snd] in *; [|discriminate].
  injection Hr as <-. unfold gather_sync.
  destruct (gather_norm_ok ds st1 Hc) as (new2 & He2 & Ho2 & Hc2 & Hs2).
  destruct (gather_norm ds st1) as [g st2]. cbn [fst snd] in *.
  exists g, (new ++ new2). cbn [fst snd].
  split; [reflexivity|]. split; [rewrite He2, He, app_assoc; reflexivity|].
  split; [congruence|]. split; [exact Hc2|]. eapply steps_trans; eauto.
Qed.

Lemma ev_emit_err : forall p k st, ev (emit (LErr p k) st) = ev st.
Proof. intros. rewrite ev_emit. cbn. apply app_nil_r. Qed.

Lemma nonnull_wrap_ok : forall nn p r st o, sync_ok r st o -> sync_ok (nonnull_wrap nn p r) st o.
Proof.
  intros nn p [[d|x] st1] st o (d' & new & Hr & He & Ho & Hc & Hs); cbn [fst snd] in *; [|discriminate].
  injection Hr as <-. unfold nonnull_wrap. destruct nn.
  2:{ exists d, new. split; [reflexivity|]. split; [exact He|]. split; [exact Ho|]. split; assumption. }
  destruct d as [v|x|t m|d k|gs].
  - exists (Val v), new. cbn [fst snd]. split; [reflexivity|]. split.
    { destruct (is_null v); [rewrite ev_emit_err|]; exact He. }
    split; [destruct (is_null v); exact Ho|]. split; [exact I|exact Hs].
  - destruct Hc.
  - exists (Bind (Task t m) (KNonNull p)), new. cbn [fst snd].
    split; [reflexivity|]. split; [exact He|]. split; [exact Ho|]. split; [split; [exact Hc|exact I]|].
    intros L HL. apply Hs. apply (steps_seq_nil_r _ (rem (Task t m))). exact HL.
  - exists (Bind (Bind d k) (KNonNull p)), new. cbn [fst snd].
    split; [reflexivity|]. split; [exact He|]. split; [exact Ho|]. split; [split; [exact Hc|exact I]|].
    intros L HL. apply Hs. apply (steps_seq_nil_r _ (rem (Bind d k))). exact HL.
  - exists (Bind (Gather gs) (KNonNull p)), new. cbn [fst snd].
    split; [reflexivity|]. split; [exact He|]. split; [exact Ho|]. split; [split; [exact Hc|exact I]|].
    intros L HL. apply Hs. apply (steps_seq_nil_r _ (rem (Gather gs))). exact HL.
Qed.

Lemma capture_ok : forall r st o, sync_ok r st o -> sync_ok (capture r) st o.
Proof. intros [[d|x] st1] st o H; [exact H|]. destruct H as (d & new & Hr & _). discriminate. Qed.

Lemma sync_ok_prefix : forall r st1 st o o1 pre,
  ev st1 = ev st ++ pre -> orphans st1 = orphans st ->
  steps o pre o1 -> sync_ok r st1 o1 -> sync_ok r st o.
Proof.
  intros r st1 st o o1 pre He Ho Hs (d & new & Hr & He2 & Ho2 & Hc & Hs2).
  exists d, (pre ++ new). repeat split; auto.
  - rewrite He2, He, app_assoc. reflexivity.
  - congruence.
  - eapply steps_trans; eauto.
Qed.

Lemma run_eager_ev : forall e t more st,
  exists new, ev (snd (run_eager t more e st)) = ev st ++ new /\
    orphans (snd (run_eager t more e st)) = orphans st /\
    match fst (run_eager t more e st) with
    | Some (t', m) => new ++ task_log t' m = LInvoke t :: task_log t more
    | None => new = LInvoke t :: task_log t more
    end.
Proof.
  intros e t more st. destruct (run_eager_log e t more st) as (new & Hl & Ho & Hm).
  exists new. split; [|split; auto]. unfold ev. rewrite Hl, events_of_app. f_equal.
  assert (Hall : forall l, Forall (fun x => match x with LErr _ _ => False | _ => True end) l -> events_of l = l).
  { intros l H. induction H as [|x l Hx _ IH]; cbn; auto. destruct x; try contradiction; cbn; f_equal; exact IH. }
  apply Hall.
  assert (Htl : forall m t0, Forall (fun x => match x with LErr _ _ => False | _ => True end) (task_log t0 m)).
  { induction m as [|m IH]; intros t0; cbn; repeat constructor. apply IH. }
  assert (Hw : Forall (fun x => match x with LErr _ _ => False | _ => True end) (LInvoke t :: task_log t more))
    by (constructor; [exact I|apply Htl]).
  destruct (fst (run_eager t more e st)) as [[t' m]|].
  - rewrite <- Hm in Hw. apply Forall_app in Hw. tauto.
  - subst new. exact Hw.
Qed.

Lemma app_nil_both : forall (A : Type) (a b : list A), a ++ b = [] -> a = [] /\ b = [].
Proof. intros A a b H. apply app_eq_nil in H. exact H. Qed.

Lemma sync_refines :
  (forall f p st, exn_tags f = [] -> sync_ok (resolve_field p f st) st (ob_field p f)) /\
  (forall b nn p st, exn_tags_b b = [] -> sync_ok (complete_field nn b p st) st (ob_body b p)) /\
  (forall fs p st, exn_tags_fs fs = [] -> syncf_ok (start_fields p fs st) st (ob_fields p fs)) /\
  (forall its inn p i st, exn_tags_its its = [] -> syncf_ok (start_items inn p i its st) st (ob_items p i its)) /\
  (forall it inn p st, (match it with ItObj fs => exn_tags_fs fs | _ => [] end) = [] ->
                       sync_ok (complete_item inn it p st) st (ob_item it p)).
Proof.
  apply prog_mutind.
  - (* Fld *)
    intros k dfr nn b IH p st Hx. cbn [exn_tags] in Hx. cbn [resolve_field ob_field].
    destruct dfr as [[n e]|].
    + destruct (run_eager_ev e (p ++ [k], O) n st) as (new & Hl & Ho & Hm).
      destruct (run_eager (p ++ [k], O) n e st) as [[[t m]|] st1]; cbn [fst snd] in *.
      * exists (Bind (Task t m) (KComplete (Fld k (Some (n, e)) nn b) (p ++ [k]))), new.
        cbn [fst snd]. split; [reflexivity|]. split; [exact Hl|]. split; [exact Ho|].
        split; [split; [exact I|exact Hx]|].
        cbn [rem ob_k]. apply steps_seq_l. unfold field_entries. cbn [levels]. intros L HL. cbn in HL |- *. subst L. exact Hm.
      * apply capture_ok. apply (sync_ok_prefix _ st1 st _ (ob_body b (p ++ [k])) new); auto.
        -- unfold field_entries. cbn [levels]. subst new. apply steps_seq_done0, steps_word_done.
    + apply (sync_ok_prefix _ (emit (LFinish (p ++ [k], O)) (emit (LInvoke (p ++ [k], O)) st)) st _
                            (ob_body b (p ++ [k])) [LInvoke (p ++ [k], O); LFinish (p ++ [k], O)]); auto.
      * rewrite !ev_emit. cbn. rewrite <- app_assoc. reflexivity.
      * unfold field_entries. cbn [levels task_log]. apply steps_seq_done0, steps_word_done.
  - (* BInt *)
    intros z nn p st _. exists (Val (VInt z)), []. cbn. rewrite app_nil_r. repeat split; auto. apply steps_refl.
  - (* BNull *)
    intros nn p st _. exists (Val VNull), []. cbn [complete_field fst snd]. rewrite app_nil_r.
    repeat split; cbn; auto; try apply steps_refl; destruct nn; auto. apply ev_emit_err.
  - (* BErr *)
    intros nn p st _. exists (Val VNull), []. cbn [complete_field fst snd]. rewrite app_nil_r.
    repeat split; cbn; auto; try apply steps_refl. apply ev_emit_err.
  - (* BExn *)
    intros x nn p st H. cbn in H. discriminate.
  - (* BObj *)
    intros fs IH nn p st Hx. cbn [complete_field ob_body]. apply nonnull_wrap_ok.
    apply fields_to_sync. apply IH. exact Hx.
  - (* BList *)
    intros inn its IH nn p st Hx. cbn [complete_field ob_body]. apply nonnull_wrap_ok.
    apply items_to_sync. apply IH. exact Hx.
  - (* FNil *)
    intros p st _. exists [], []. cbn. rewrite app_nil_r. repeat split; auto. apply steps_refl.
  - (* FCons *)
    intros f IHf fs IHfs p st Hx. cbn [exn_tags_fs] in Hx. apply app_nil_both in Hx as [Hx1 Hx2].
    cbn [start_fields ob_fields].
    destruct (IHf p st Hx1) as (d & new1 & Hr1 & He1 & Ho1 & Hc1 & Hs1).
    destruct (resolve_field p f st) as [r1 st1]. cbn [fst snd] in *. subst r1.
    destruct (IHfs p st1 Hx2) as (ds & new2 & Hr2 & He2 & Ho2 & Hc2 & Hs2).
    destruct (start_fields p fs st1) as [r2 st2]. cbn [fst snd] in *. subst r2.
    exists (d :: ds), (new1 ++ new2). cbn [fst snd clean_list rem_list]. repeat split; auto.
    + rewrite He2, He1, app_assoc. reflexivity.
    + congruence.
    + apply steps_par; auto.
  - (* INil *)
    intros inn p i st _. exists [], []. cbn. rewrite app_nil_r. repeat split; auto. apply steps_refl.
  - (* ICons *)
    intros it IHit its IHits inn p i st Hx. cbn [exn_tags_its] in Hx. apply app_nil_both in Hx as [Hx1 Hx2].
    cbn [start_items ob_items].
    destruct (IHit inn (p ++ [i]) st Hx1) as (d & new1 & Hr1 & He1 & Ho1 & Hc1 & Hs1).
    destruct (complete_item inn it (p ++ [i]) st) as [r1 st1]. cbn [fst snd] in *. subst r1.
    destruct (IHits inn p (N.succ i) st1 Hx2) as (ds & new2 & Hr2 & He2 & Ho2 & Hc2 & Hs2).
    destruct (start_items inn p (N.succ i) its st1) as [r2 st2]. cbn [fst snd] in *. subst r2.
    exists (d :: ds), (new1 ++ new2). cbn [fst snd clean_list rem_list]. repeat split; auto.
    + rewrite He2, He1, app_assoc. reflexivity.
    + congruence.
    + apply steps_par; auto.
  - (* ItNull *)
    intros inn p st _. exists (Val VNull), []. cbn [complete_item fst snd]. rewrite app_nil_r.
    repeat split; cbn; auto; try apply steps_refl; destruct inn; auto. apply ev_emit_err.
  - (* ItInt *)
    intros z inn p st _. exists (Val (VInt z)), []. cbn. rewrite app_nil_r. repeat split; auto. apply steps_refl.
  - (* ItObj *)
    intros fs IH inn p st Hx. cbn [complete_item ob_item]. apply nonnull_wrap_ok.
    apply fields_to_sync. apply IH. exact Hx.
Qed.

Definition sync_field := proj1 sync_refines.
Definition sync_complete := proj1 (proj2 sync_refines).
Definition sync_fields := proj1 (proj2 (proj2 sync_refines)).

Lemma serial_ok : forall rest acc st, exn_tags_fs rest = [] ->
  sync_ok (serial_next acc rest st) st (ob_serial rest).
Proof.
  induction rest as [|f rest IH]; intros acc st Hx; cbn [serial_next ob_serial].
  - exists (Val (VObj acc)), []. cbn [fst snd]. rewrite app_nil_r.
    split; [reflexivity|]. split; [reflexivity|]. split; [reflexivity|]. split; [exact I|apply steps_refl].
  - cbn [exn_tags_fs] in Hx. apply app_nil_both in Hx as [Hx1 Hx2].
    destruct (sync_field f [] st Hx1) as (d & new1 & Hr1 & He1 & Ho1 & Hc1 & Hs1).
    destruct (resolve_field [] f st) as [r1 st1]. cbn [fst snd] in *. subst r1.
    destruct d as [v|x|t m|d k|gs].
    + eapply sync_ok_prefix; [exact He1|exact Ho1| |apply IH; exact Hx2].
      rewrite <- (app_nil_r new1). apply steps_seq_done; [exact Hs1|apply steps_refl].
    + destruct Hc1.
    + exists (Bind (Task t m) (KSerial (key_of f) acc rest)), new1. cbn [fst snd].
      split; [reflexivity|]. split; [exact He1|]. split; [exact Ho1|]. split; [split; [exact Hc1|exact Hx2]|].
      cbn [rem ob_k]. apply steps_seq_l. exact Hs1.
    + exists (Bind (Bind d k) (KSerial (key_of f) acc rest)), new1. cbn [fst snd].
      split; [reflexivity|]. split; [exact He1|]. split; [exact Ho1|]. split; [split; [exact Hc1|exact Hx2]|].
      apply (steps_seq_l _ _ (rem (Bind d k)) (ob_serial rest)). exact Hs1.
    + exists (Bind (Gather gs) (KSerial (key_of f) acc rest)), new1. cbn [fst snd].
      split; [reflexivity|]. split; [exact He1|]. split; [exact Ho1|]. split; [split; [exact Hc1|exact Hx2]|].
      apply (steps_seq_l _ _ (rem (Gather gs)) (ob_serial rest)). exact Hs1.
Qed.

Lemma lift_ok : forall r st o, sync_ok r st o -> d_ok (lift r) st o.
Proof.
  intros [[d|x] st1] st o (d' & new & Hr & He & Ho & Hc & Hs); cbn [fst snd] in *; [|discriminate].
  injection Hr as <-. exists new. cbn [lift fst snd]. auto.
Qed.

Lemma apply_k_ok : forall k v st, kclean k -> d_ok (apply_k k v st) st (ob_k k).
Proof.
  intros k v st Hk. destruct k as [[kk dfr nn b] p|keys|p|kk acc rest|]; cbn [apply_k ob_k kclean] in *.
  - apply lift_ok. apply sync_complete. exact Hk.
  - exists []. cbn [fst snd]. rewrite app_nil_r.
    split; [reflexivity|]. split; [reflexivity|]. split; [exact I|apply steps_refl].
  - exists []. cbn [fst snd]. rewrite app_nil_r. split.
    { destruct (is_null v); [apply ev_emit_err|reflexivity]. }
    split; [destruct (is_null v); reflexivity|]. split; [exact I|apply steps_refl].
  - apply lift_ok. apply serial_ok. exact Hk.
  - exists []. cbn [fst snd]. rewrite app_nil_r.
    split; [reflexivity|]. split; [reflexivity|]. split; [exact I|apply steps_refl].
Qed.

Definition dl_ok (r : list D * mstate) (st : mstate) (o : ob entry) : Prop :=
  exists new, ev (snd r) = ev st ++ new /\ orphans (snd r) = orphans st /\
              clean_list (fst r) /\ steps o new (rem_list (fst r)).

Lemma fire_ok : forall t d st, clean d -> d_ok (fire t d st) st (rem d).
Proof.
  intros t d; induction d as [v|x|t' more|d1 k IH|ds IH] using D_ind2; intros st Hc.
  - exists []. cbn [fire fst snd]. rewrite app_nil_r.
    split; [reflexivity|]. split; [reflexivity|]. split; [exact I|apply steps_refl].
  - destruct Hc.
  - cbn [fire]. destruct (tid_eqb t t') eqn:Et.
    + apply tid_eqb_eq in Et. subst t'. destruct more as [|n].
      * exists [LFinish t]. cbn [fst snd]. split.
        { unfold ev. cbn [log]. rewrite events_of_app. reflexivity. }
        split; [reflexivity|]. split; [exact I|]. cbn [rem task_log]. apply steps_word_done.
      * exists [LFinish t; LInvoke (next_tid t)]. cbn [fst snd]. split.
        { unfold ev. cbn [log]. rewrite events_of_app. reflexivity. }
        split; [reflexivity|]. split; [exact I|]. cbn [rem task_log].
        intros L HL. cbn in HL |- *. subst L. reflexivity.
    + exists []. cbn [fst snd]. rewrite app_nil_r.
      split; [reflexivity|]. split; [reflexivity|]. split; [exact I|apply steps_refl].
  - destruct Hc as [Hc1 Hk]. cbn [fire]. specialize (IH st Hc1).
    destruct (fire t d1 st) as [d1' st1]. destruct IH as (new1 & He1 & Ho1 & Hc1' & Hs1). cbn [fst snd] in *.
    destruct d1' as [v|x|t2 m2|d2 k2|gs].
    + destruct (apply_k_ok k v st1 Hk) as (new2 & He2 & Ho2 & Hc2 & Hs2).
      exists (new1 ++ new2). split; [rewrite He2, He1, app_assoc; reflexivity|].
      split; [congruence|]. split; [exact Hc2|].
      cbn [rem]. apply steps_seq_done; assumption.
    + destruct Hc1'.
    + exists new1. cbn [fst snd]. split; [exact He1|]. split; [exact Ho1|]. split; [split; assumption|].
      cbn [rem]. apply steps_seq_l. exact Hs1.
    + exists new1. cbn [fst snd]. split; [exact He1|]. split; [exact Ho1|]. split; [split; assumption|].
      apply (steps_seq_l _ (rem d1) (rem (Bind d2 k2)) (ob_k k)). exact Hs1.
    + exists new1. cbn [fst snd]. split; [exact He1|]. split; [exact Ho1|]. split; [split; assumption|].
      apply (steps_seq_l _ (rem d1) (rem (Gather gs)) (ob_k k)). exact Hs1.
  - rewrite clean_gather in Hc. rewrite fire_gather, rem_gather.
    assert (Hl : forall st0, clean_list ds -> dl_ok (fire_list t ds st0) st0 (rem_list ds)).
    { clear st Hc. induction IH as [|d ds Hd _ IHds]; intros st0 Hc.
      - exists []. cbn [fire_list fst snd]. rewrite app_nil_r.
        split; [reflexivity|]. split; [reflexivity|]. split; [exact I|apply steps_refl].
      - destruct Hc as [Hcd Hcs]. cbn [fire_list]. specialize (Hd st0 Hcd).
        destruct (fire t d st0) as [d' s1]. destruct Hd as (new1 & He1 & Ho1 & Hc1 & Hs1). cbn [fst snd] in *.
        specialize (IHds s1 Hcs). destruct (fire_list t ds s1) as [r' s2].
        destruct IHds as (new2 & He2 & Ho2 & Hc2 & Hs2). cbn [fst snd] in *.
        exists (new1 ++ new2). cbn [fst snd]. split; [rewrite He2, He1, app_assoc; reflexivity|].
        split; [congruence|]. split; [split; assumption|]. cbn [rem_list]. apply steps_par; assumption. }
    specialize (Hl st Hc). destruct (fire_list t ds st) as [ds' st1].
    destruct Hl as (new1 & He1 & Ho1 & Hc1 & Hs1). cbn [fst snd] in *.
    destruct (gather_norm_ok ds' st1 Hc1) as (new2 & He2 & Ho2 & Hc2 & Hs2).
    exists (new1 ++ new2). split; [rewrite He2, He1, app_assoc; reflexivity|].
    split; [congruence|]. split; [exact Hc2|]. eapply steps_trans; eauto.
Qed.

(* the invariant of a crash-free run *)
Definition inv (s : state) : Prop := clean (term s) /\ orphans (ms s) = [].

Lemma step_ok : forall s t s', inv s -> step s t = Some s' ->
  exists new, ev (ms s') = ev (ms s) ++ new /\ inv s' /\ steps (rem (term s)) new (rem (term s')).
Proof.
  intros s t s' [Hc Ho] Hs. unfold step in Hs. destruct (mem_tid t (pending (ms s))); [|discriminate].
  rewrite Ho in Hs. cbn [fire_list] in Hs.
  set (st := MkSt (pending (ms s)) (log (ms s)) [] (raised (ms s))) in *.
  destruct (fire_ok t (term s) st Hc) as (new & He & Hor & Hc' & Hst).
  destruct (fire t (term s) st) as [d' st1]. cbn [fst snd] in *.
  injection Hs as <-. exists new. cbn [term ms]. split; [|split; [split|]]; auto.
Qed.

Lemma run_ok : forall sigma s s', inv s -> run_from s sigma = Some s' ->
  exists new, ev (ms s') = ev (ms s) ++ new /\ inv s' /\ steps (rem (term s)) new (rem (term s')).
Proof.
  induction sigma as [|t sigma IH]; intros s s' Hi H; cbn in H.
  - injection H as <-. exists []. rewrite app_nil_r. split; [reflexivity|]. split; [exact Hi|apply steps_refl].
  - destruct (step s t) as [s1|] eqn:Es; [|discriminate].
    destruct (step_ok s t s1 Hi Es) as (new1 & He1 & Hi1 & Hs1).
    destruct (IH s1 s' Hi1 H) as (new2 & He2 & Hi2 & Hs2).
    exists (new1 ++ new2). split; [rewrite He2, He1, app_assoc; reflexivity|].
    split; [exact Hi2|]. eapply steps_trans; eauto.
Qed.

Lemma start_ok : forall pr, crash_free pr ->
  inv (start pr) /\ steps (ob_prog pr) (ev (ms (start pr))) (rem (term (start pr))).
Proof.
  intros [mut fs] Hx. unfold crash_free in Hx. unfold start, ob_prog.
  assert (H : sync_ok (if mut then serial_next [] fs st0
                       else match start_fields [] fs st0 with
                            | (FOk ds, st1) => let '(d, st2) := collect_sync (keys_of fs) ds st1 in (SOk d, st2)
                            | (FRaise x, st1) => (SRaise x, st1)
                            end) st0 (if mut then ob_serial fs else ob_fields [] fs)).
  { destruct mut; [apply serial_ok; exact Hx|]. apply fields_to_sync. apply sync_fields. exact Hx. }
  destruct (if mut then serial_next [] fs st0 else _) as [[d|x] st] eqn:E;
    destruct H as (d' & new & Hr & He & Ho & Hc & Hs); cbn [fst snd] in *; [|discriminate].
  injection Hr as <-. cbn in He, Ho.
  destruct d as [v|x|t m|d k|gs]; cbn [term ms]; unfold inv; cbn [term ms].
  - rewrite He. split; [split; [exact I|exact Ho]|exact Hs].
  - destruct Hc.
  - rewrite He. split; [split; [split; [exact Hc|exact I]|exact Ho]|].
    intros L HL. apply Hs. apply (steps_seq_nil_r _ (rem (Task t m))). exact HL.
  - rewrite He. split; [split; [split; [exact Hc|exact I]|exact Ho]|].
    intros L HL. apply Hs. apply (steps_seq_nil_r _ (rem (Bind d k))). exact HL.
  - rewrite He. split; [split; [split; [exact Hc|exact I]|exact Ho]|].
    intros L HL. apply Hs. apply (steps_seq_nil_r _ (rem (Gather gs))). exact HL.
Qed.

(* every complete run of a crash-free program logs a linearisation of the
   program's obligations *)
Theorem machine_linearises : forall sigma pr s, crash_free pr ->
  run sigma pr = Some s -> pending (ms s) = [] ->
  sp_lin (ob_prog pr) (events_of (log (ms s))).
Proof.
  intros sigma pr s Hx Hrun Hp.
  destruct (start_ok pr Hx) as [Hi0 Hs0].
  destruct (run_ok sigma (start pr) s Hi0 Hrun) as (new & He & [Hc _] & Hs).
  destruct (RuntimeMachineWf.run_terminates sigma pr s Hrun Hp) as [Hdone _].
  change (events_of (log (ms s))) with (ev (ms s)). rewrite He.
  apply Hs0. rewrite <- (app_nil_r new). apply Hs.
  destruct (term s); cbn in Hdone; try discriminate; cbn; auto.
Qed.

(* ================================================================ 3. from linearisations to trace_spec *)

Lemma merge_sym : forall (A : Type) (a b t : list A), merge a b t -> merge b a t.
Proof. intros A a b t H; induction H; constructor; auto. Qed.

Lemma merge_assoc : forall (A : Type) (La Lb L : list A), merge La Lb L ->
  forall w t', merge w t' La -> exists t'', merge t' Lb t'' /\ merge w t'' L.
Proof.
  intros A La Lb L H; induction H as [|x a b t H IH|x a b t H IH]; intros w t' Hm.
  - inversion Hm; subst. exists []. split; constructor.
  - inversion Hm; subst.
    + destruct (IH _ _ H3) as (t'' & H1 & H2). exists t''. split; auto. constructor; auto.
    + destruct (IH _ _ H3) as (t'' & H1 & H2). exists (x :: t''). split; constructor; auto.
  - destruct (IH _ _ Hm) as (t'' & H1 & H2). exists (x :: t''). split; constructor; auto.
Qed.

Lemma interleave_all_app : forall (A : Type) (ws1 : list (list A)) La,
  interleave_all ws1 La -> forall ws2 Lb L, interleave_all ws2 Lb -> merge La Lb L ->
  interleave_all (ws1 ++ ws2) L.
Proof.
  intros A ws1 La H; induction H as [|w ws t' t Hi IH Hm]; intros ws2 Lb L H2 HL; cbn.
  - apply merge_nil_l in HL. subst. exact H2.
  - destruct (merge_assoc _ _ _ _ HL _ _ Hm) as (t'' & H1 & H3).
    econstructor; [|exact H3]. eapply IH; eauto.
Qed.

Lemma lin_interleave : forall (A : Type) (o : ob A) L, sp_lin o L -> interleave_all (owords o) L.
Proof.
  intros A o; induction o as [|w|a IHa b IHb|a IHa b IHb]; intros L H; cbn in *.
  - subst. constructor.
  - subst. econstructor; [constructor|apply merge_nil_right].
  - destruct H as (La & Lb & Ha & Hb & ->). eapply interleave_all_app; eauto. apply merge_app.
  - destruct H as (La & Lb & Ha & Hb & Hm). eapply interleave_all_app; eauto.
Qed.

Lemma merge_prepend : forall (A : Type) (w a b t : list A), merge a b t -> merge (w ++ a) b (w ++ t).
Proof. intros A w a b t H; induction w; cbn; auto. constructor; auto. Qed.

Lemma merge_flat_map : forall (A B : Type) (f : A -> list B) a b t,
  merge a b t -> merge (flat_map f a) (flat_map f b) (flat_map f t).
Proof.
  intros A B f a b t H; induction H; cbn.
  - constructor.
  - apply merge_prepend. exact IHmerge.
  - apply merge_sym. apply merge_prepend. apply merge_sym. exact IHmerge.
Qed.

Lemma lin_flat_map : forall (A B : Type) (f : A -> list B) (o : ob A) L,
  sp_lin o L -> sp_lin (omap (flat_map f) o) (flat_map f L).
Proof.
  intros A B f o; induction o as [|w|a IHa b IHb|a IHa b IHb]; intros L H; cbn in *.
  - subst. reflexivity.
  - subst. reflexivity.
  - destruct H as (La & Lb & Ha & Hb & ->). exists (flat_map f La), (flat_map f Lb).
    repeat split; auto. apply flat_map_app.
  - destruct H as (La & Lb & Ha & Hb & Hm). exists (flat_map f La), (flat_map f Lb).
    repeat split; auto. apply merge_flat_map. exact Hm.
Qed.

Lemma seq_is_par : forall (A : Type) (a b : ob A) L, sp_lin (OSeq a b) L -> sp_lin (OPar a b) L.
Proof. intros A a b L (La & Lb & Ha & Hb & ->). exists La, Lb. repeat split; auto. apply merge_app. Qed.

Lemma serial_lin_fields : forall fs L, sp_lin (ob_serial fs) L -> sp_lin (ob_fields [] fs) L.
Proof.
  induction fs as [|f fs IH]; intros L H; cbn in *; auto.
  destruct H as (La & Lb & Ha & Hb & ->). exists La, Lb. repeat split; auto. apply merge_app.
Qed.

Lemma prog_lin_fields : forall mut fs L, sp_lin (ob_prog (Prog mut fs)) L -> sp_lin (ob_fields [] fs) L.
Proof. intros [|] fs L H; cbn in H; auto. apply serial_lin_fields; auto. Qed.

Lemma decorate_events : forall I l, decorate I (events_of l) = decorate I l.
Proof.
  intros I l; unfold decorate, events_of in *; induction l as [|e l IH]; [reflexivity|].
  destruct e; cbn [filter flat_map]; rewrite IH; reflexivity.
Qed.

(* ---- the decorated entries of one field are its bracket word *)
Definition rpath (r : frec) : TraceSpec.path := nd_path (fr_node r).
Definition W : node -> list event := inline_word 1 0.

Lemma dec_task_log : forall I p r m l, lookup I p = Some r -> fr_levels r = l + m ->
  decorate I (task_log (p, l) m) =
  [Invoke p; (match nd_out (fr_node r) with OErr => Raise p | _ => Return p end); FieldEnd O p].
Proof.
  intros I p r m; induction m as [|m IH]; intros l Hl Hlv; cbn [task_log decorate flat_map dec].
  - rewrite Hl. replace (l =? fr_levels r) with true by (symmetry; apply Nat.eqb_eq; lia). reflexivity.
  - rewrite Hl. replace (l =? fr_levels r) with false by (symmetry; apply Nat.eqb_neq; lia).
    cbn [next_tid fst snd app]. apply (IH (S l)); auto. lia.
Qed.

Lemma dec_field : forall I p dfr b par, 
  lookup I p = Some (mkFrec (mkNode p (out_of b) (is_deferred dfr) par) (levels dfr)) ->
  decorate I (field_entries p dfr) = W (mkNode p (out_of b) (is_deferred dfr) par).
Proof.
  intros I p dfr b par Hl. unfold field_entries. cbn [decorate flat_map dec].
  change (flat_map (dec I) (task_log (p, O) (levels dfr))) with (decorate I (task_log (p, O) (levels dfr))).
  rewrite (dec_task_log I p _ (levels dfr) O Hl eq_refl). cbn [fr_node nd_out].
  unfold W, inline_word. cbn. destruct b; reflexivity.
Qed.

Definition looks (I rs : list frec) : Prop := forall r, In r rs -> lookup I (rpath r) = Some r.

Lemma looks_app : forall I a b, looks I (a ++ b) -> looks I a /\ looks I b.
Proof. intros I a b H; split; intros r Hr; apply H; apply in_or_app; auto. Qed.

Definition E (I : list frec) (o : ob entry) : ob event := omap (decorate I) o.

Lemma words_refines : forall I,
  (forall f p par, looks I (recs_field p par f) ->
     owords (E I (ob_field p f)) = map W (map fr_node (recs_field p par f))) /\
  (forall b p owner, looks I (recs_body b p owner) ->
     owords (E I (ob_body b p)) = map W (map fr_node (recs_body b p owner))) /\
  (forall fs p par, looks I (recs_fields p par fs) ->
     owords (E I (ob_fields p fs)) = map W (map fr_node (recs_fields p par fs))) /\
  (forall its p i owner, looks I (recs_items p i owner its) ->
     owords (E I (ob_items p i its)) = map W (map fr_node (recs_items p i owner its))) /\
  (forall it p owner, looks I (recs_item it p owner) ->
     owords (E I (ob_item it p)) = map W (map fr_node (recs_item it p owner))).
Proof.
  intros I. apply prog_mutind.
  - intros k dfr nn b IH p par Hl. cbn [ob_field recs_field E omap owords map fr_node].
    assert (H0 : lookup I (p ++ [k]) =
                 Some (mkFrec (mkNode (p ++ [k]) (out_of b) (is_deferred dfr) par) (levels dfr))).
    { apply (Hl (mkFrec (mkNode (p ++ [k]) (out_of b) (is_deferred dfr) par) (levels dfr))). left; reflexivity. }
    rewrite (dec_field I _ dfr b par H0). cbn [app]. f_equal.
    apply IH. intros r Hr. apply Hl. right; exact Hr.
  - intros; reflexivity.
  - intros; reflexivity.
  - intros; reflexivity.
  - intros; reflexivity.
  - intros fs IH p owner Hl. cbn [ob_body recs_body]. apply IH; exact Hl.
  - intros inn its IH p owner Hl. cbn [ob_body recs_body]. apply IH; exact Hl.
  - intros; reflexivity.
  - intros f IHf fs IHfs p par Hl. cbn [ob_fields recs_fields E omap owords] in *.
    apply looks_app in Hl as [H1 H2]. rewrite !map_app. f_equal; [apply IHf|apply IHfs]; auto.
  - intros; reflexivity.
  - intros it IHit its IHits p i owner Hl. cbn [ob_items recs_items E omap owords] in *.
    apply looks_app in Hl as [H1 H2]. rewrite !map_app. f_equal; [apply IHit|apply IHits]; auto.
  - intros; reflexivity.
  - intros; reflexivity.
  - intros fs IH p owner Hl. cbn [ob_item recs_item]. apply IH; exact Hl.
Qed.

(* ---- guard_scan through contexts *)
Lemma guard_skip : forall g p a r, Forall (fun x => about p x = false) a ->
  guard_scan g p r = true -> guard_scan g p (a ++ r) = true.
Proof.
  intros g p a r H Hr; induction H as [|x a Hx _ IH]; cbn [app guard_scan]; auto.
  rewrite Hx. destruct (event_eq_dec x g); auto.
Qed.
Lemma guard_merge : forall g p La Lb L, merge La Lb L -> guard_scan g p La = true ->
  Forall (fun x => about p x = false) Lb -> guard_scan g p L = true.
Proof.
  intros g p La Lb L H; induction H as [|x a b t H IH|x a b t H IH]; intros Ha Hb; auto.
  - cbn [guard_scan] in *. destruct (about p x); [discriminate|]. destruct (event_eq_dec x g); auto.
  - inversion Hb; subst. cbn [guard_scan]. rewrite H2. destruct (event_eq_dec x g); auto.
Qed.

(* the events of a linearisation belong to the fields of the fragment *)
Lemma lin_events_about : forall (o : ob event) L rs, sp_lin o L ->
  owords o = map W (map fr_node rs) ->
  forall x, In x L -> exists r, In r rs /\ about (rpath r) x = true.
Proof.
  intros o L rs H Hw x Hx. apply lin_interleave in H. rewrite Hw in H.
  destruct (interleave_in _ _ _ _ H Hx) as (w & Hin & Hxw).
  apply in_map_iff in Hin as (nd & <- & Hnd). apply in_map_iff in Hnd as (r & <- & Hr).
  exists r. split; auto. pose proof (inline_about 1 0 (fr_node r)) as Ha.
  rewrite Forall_forall in Ha. apply Ha. exact Hxw.
Qed.

Lemma not_about_other : forall rs p L,
  (forall x, In x L -> exists r, In r rs /\ about (rpath r) x = true) ->
  ~ In p (map rpath rs) -> Forall (fun x => about p x = false) L.
Proof.
  intros rs p L H Hn. apply Forall_forall. intros x Hx. destruct (H x Hx) as (r & Hr & Ha).
  destruct (about p x) eqn:Ea; auto. exfalso. apply Hn.
  rewrite (about_unique _ _ _ Ea Ha). apply in_map. exact Hr.
Qed.

Definition par_ok (par : option TraceSpec.path) (L : list event) (rs : list frec) : Prop :=
  forall r, In r rs -> nd_parent (fr_node r) = par \/ parent_okb L (fr_node r) = true.

Lemma NoDup_app_parts : forall (A : Type) (a b : list A), NoDup (a ++ b) ->
  NoDup a /\ NoDup b /\ (forall x, In x a -> ~ In x b).
Proof.
  intros A a b H. induction a as [|x a IH]; cbn in *.
  - split; [constructor|]. split; auto.
  - inversion H; subst. destruct (IH H3) as (Ha & Hb & Hd). split; [|split; auto].
    + constructor; auto. intros Hin. apply H2. apply in_or_app; auto.
    + intros y [->|Hy]; auto. intros Hin. apply H2. apply in_or_app; auto.
Qed.

(* two fragments side by side *)
Lemma par_ok_merge : forall I par oa ob La Lb L ra rb,
  sp_lin (E I oa) La -> sp_lin (E I ob) Lb -> merge La Lb L ->
  owords (E I oa) = map W (map fr_node ra) -> owords (E I ob) = map W (map fr_node rb) ->
  NoDup (map rpath (ra ++ rb)) ->
  par_ok par La ra -> par_ok par Lb rb -> par_ok par L (ra ++ rb).
Proof.
  intros I par oa ob La Lb L ra rb Ha Hb Hm Hwa Hwb Hnd Hpa Hpb r Hr.
  rewrite map_app in Hnd. destruct (NoDup_app_parts _ _ _ Hnd) as (_ & _ & Hdis).
  apply in_app_or in Hr as [Hr|Hr].
  - destruct (Hpa r Hr) as [Hp|Hok]; [left; exact Hp|right].
    unfold parent_okb in *. destruct (nd_parent (fr_node r)) as [q|]; auto.
    eapply guard_merge; [exact Hm|exact Hok|].
    apply (not_about_other rb); [apply (lin_events_about _ _ _ Hb Hwb)|].
    apply Hdis. exact (in_map rpath _ _ Hr).
  - destruct (Hpb r Hr) as [Hp|Hok]; [left; exact Hp|right].
    unfold parent_okb in *. destruct (nd_parent (fr_node r)) as [q|]; auto.
    eapply guard_merge; [apply merge_sym; exact Hm|exact Hok|].
    apply (not_about_other ra); [apply (lin_events_about _ _ _ Ha Hwa)|].
    intros Hin. apply (Hdis _ Hin). exact (in_map rpath _ _ Hr).
Qed.

Lemma parent_refines : forall I,
  (forall f p par L, looks I (recs_field p par f) -> NoDup (map rpath (recs_field p par f)) ->
     sp_lin (E I (ob_field p f)) L -> par_ok par L (recs_field p par f)) /\
  (forall b p owner L, looks I (recs_body b p owner) -> NoDup (map rpath (recs_body b p owner)) ->
     sp_lin (E I (ob_body b p)) L -> par_ok (Some owner) L (recs_body b p owner)) /\
  (forall fs p par L, looks I (recs_fields p par fs) -> NoDup (map rpath (recs_fields p par fs)) ->
     sp_lin (E I (ob_fields p fs)) L -> par_ok par L (recs_fields p par fs)) /\
  (forall its p i owner L, looks I (recs_items p i owner its) -> NoDup (map rpath (recs_items p i owner its)) ->
     sp_lin (E I (ob_items p i its)) L -> par_ok (Some owner) L (recs_items p i owner its)) /\
  (forall it p owner L, looks I (recs_item it p owner) -> NoDup (map rpath (recs_item it p owner)) ->
     sp_lin (E I (ob_item it p)) L -> par_ok (Some owner) L (recs_item it p owner)).
Proof.
  intros I. destruct (words_refines I) as (Wf & Wb & Wfs & Wits & Wit). apply prog_mutind.
  - (* Fld *)
    intros k dfr nn b IH p par L Hl Hnd HL r Hr.
    cbn [recs_field] in *. set (p' := p ++ [k]) in *.
    set (r0 := mkFrec (mkNode p' (out_of b) (is_deferred dfr) par) (levels dfr)) in *.
    destruct Hr as [<-|Hr]; [left; reflexivity|].
    cbn [ob_field E omap] in HL. destruct HL as (Lw & Lk & Hw & Hk & ->).
    assert (H0 : lookup I p' = Some r0) by (apply (Hl r0); left; reflexivity).
    assert (Hlk : looks I (recs_body b p' p')) by (intros x Hx; apply Hl; right; exact Hx).
    cbn [map] in Hnd. apply NoDup_cons_iff in Hnd as [Hnotin Hnd'].
    change (Lw = decorate I (field_entries p' dfr)) in Hw.
    rewrite (dec_field I p' dfr b par H0) in Hw. subst Lw.
    assert (Hnotabout : Forall (fun x => about (rpath r) x = false)
                               (W (mkNode p' (out_of b) (is_deferred dfr) par))).
    { pose proof (inline_about 1 0 (mkNode p' (out_of b) (is_deferred dfr) par)) as Ha.
      rewrite Forall_forall in Ha |- *. intros x Hx. specialize (Ha x Hx). cbn [nd_path] in Ha.
      destruct (about (rpath r) x) eqn:Ea; auto. exfalso. apply Hnotin.
      pose proof (in_map rpath _ _ Hr) as Hin. rewrite (about_unique _ _ _ Ea Ha) in Hin. exact Hin. }
    right. destruct (IH p' p' Lk Hlk Hnd' Hk r Hr) as [Hp|Hok].
    + unfold parent_okb. rewrite Hp. apply guard_hit; [exact Hnotabout|].
      assert (Hov : out_of b = OVal) by (destruct b; cbn in Hr; try contradiction; reflexivity).
      change p' with (nd_path (mkNode p' (out_of b) (is_deferred dfr) par)) at 1.
      apply inline_return. exact Hov.
    + unfold parent_okb in *. destruct (nd_parent (fr_node r)) as [q|]; auto.
      apply guard_skip; assumption.
  - intros z p owner L _ _ _ r [].
  - intros p owner L _ _ _ r [].
  - intros p owner L _ _ _ r [].
  - intros x p owner L _ _ _ r [].
  - intros fs IH p owner L Hl Hnd HL. cbn [recs_body ob_body] in *. apply IH; auto.
  - intros inn its IH p owner L Hl Hnd HL. cbn [recs_body ob_body] in *. apply IH; auto.
  - intros p par L _ _ _ r [].
  - (* FCons *)
    intros f IHf fs IHfs p par L Hl Hnd HL. cbn [recs_fields ob_fields E omap] in *.
    destruct HL as (La & Lb & Ha & Hb & Hm). apply looks_app in Hl as [Hl1 Hl2].
    pose proof Hnd as Hnd0. rewrite map_app in Hnd. destruct (NoDup_app_parts _ _ _ Hnd) as (Hn1 & Hn2 & _).
    eapply (par_ok_merge I par (ob_field p f) (ob_fields p fs)); eauto.
  - intros p i owner L _ _ _ r [].
  - (* ICons *)
    intros it IHit its IHits p i owner L Hl Hnd HL. cbn [recs_items ob_items E omap] in *.
    destruct HL as (La & Lb & Ha & Hb & Hm). apply looks_app in Hl as [Hl1 Hl2].
    pose proof Hnd as Hnd0. rewrite map_app in Hnd. destruct (NoDup_app_parts _ _ _ Hnd) as (Hn1 & Hn2 & _).
    eapply (par_ok_merge I (Some owner) (ob_item it (p ++ [i])) (ob_items p (N.succ i) its)); eauto.
  - intros p owner L _ _ _ r [].
  - intros z p owner L _ _ _ r [].
  - intros fs IH p owner L Hl Hnd HL. cbn [recs_item ob_item] in *. apply IH; auto.
Qed.

Lemma lookup_unique : forall I r, NoDup (map rpath I) -> In r I -> lookup I (rpath r) = Some r.
Proof.
  induction I as [|a I IH]; intros r Hnd Hin; [destruct Hin|].
  cbn [map] in Hnd. apply NoDup_cons_iff in Hnd as [Hnotin Hnd]. unfold lookup. cbn [find].
  fold (rpath a). destruct (path_eq_dec (rpath a) (rpath r)) as [Heq|Hne].
  - destruct Hin as [->|Hin]; [reflexivity|]. exfalso. apply Hnotin. rewrite Heq. apply in_map. exact Hin.
  - destruct Hin as [->|Hin]; [congruence|]. apply IH; auto.
Qed.

(* every complete run of the deferred-executor machine, decorated with the
   field hooks, is accepted *)
Theorem deferred_ok : forall sigma pr s text oc,
  crash_free pr -> NoDup (map nd_path (nodes_prog pr)) -> is_exec oc = true ->
  run sigma pr = Some s -> pending (ms s) = [] ->
  let c := cfg_prog text oc pr in
  trace_ok c (stage_pre c ++ decorate (recs_prog pr) (log (ms s)) ++ stage_post c) = true.
Proof.
  intros sigma pr s text oc Hx Hnd He Hrun Hp c.
  pose proof (machine_linearises sigma pr s Hx Hrun Hp) as HL.
  destruct pr as [mut fs]. apply prog_lin_fields in HL.
  set (I := recs_prog (Prog mut fs)) in *.
  apply (lin_flat_map _ _ (dec I)) in HL.
  change (flat_map (dec I) (events_of (log (ms s)))) with (decorate I (events_of (log (ms s)))) in HL.
  rewrite decorate_events in HL.
  change (omap (flat_map (dec I)) (ob_fields [] fs)) with (E I (ob_fields [] fs)) in HL.
  assert (HndI : NoDup (map rpath I)).
  { unfold nodes_prog in Hnd. rewrite map_map in Hnd. exact Hnd. }
  assert (Hlooks : looks I (recs_fields [] None fs)) by (intros r Hr; apply lookup_unique; auto).
  assert (Hnodes : nodes_of c = map fr_node I) by (unfold nodes_of, c, cfg_prog; cbn; rewrite He; reflexivity).
  destruct (words_refines I) as (_ & _ & Wfs & _ & _).
  destruct (parent_refines I) as (_ & _ & Pfs & _ & _).
  apply (interleave_ok_std c W); rewrite ?Hnodes.
  - exact Hnd.
  - intros nd Hin. split; [|apply inline_about].
    unfold word_spec, submit_mode, c, cfg_prog. cbn [c_mw_awaits c_k c_n]. rewrite andb_false_r. reflexivity.
  - change I with (recs_fields [] None fs) at 1. rewrite <- (Wfs fs [] None Hlooks). apply lin_interleave. exact HL.
  - intros nd Hin. apply parent_decides. apply in_map_iff in Hin as (r & <- & Hr).
    destruct (Pfs fs [] None _ Hlooks HndI HL r Hr) as [Hnone|Hok]; auto.
    unfold parent_okb. rewrite Hnone. reflexivity.
Qed.
