(* the two description classes of C12_description_roundtrip_partial / _block
   satisfy [desc_ok] (Proofs/SdlTextDescProofs.v) at depth 0 *)
From PyGql Require Import Lang.PrinterModel Spec.PrinterSpec Spec.LexSpec.
From PyGql Require Import Schema.SdlSchema Schema.SdlBuild Schema.SdlPrint Spec.SdlRoundtripSpec
                          Proofs.SdlPrintProofs Proofs.SdlDescLexProofs Proofs.SdlTextSchemaProofs Proofs.SdlTextDescProofs
                          Proofs.SdlMemberDescProofs.
From Coq Require Import Lia.

Lemma forallb_Forall {A} (p : A -> bool) (P : A -> Prop) l :
  (forall x, p x = true -> P x) -> forallb p l = true -> Forall P l.
Proof. intros H Hf. apply Forall_forall. intros x Hx. rewrite forallb_forall in Hf. auto. Qed.

Lemma ind0 o : ind o 0 = [].
Proof. reflexivity. Qed.

(* one line, no double quote, shorter than 70, not ending with a backslash *)
Theorem desc_ok_single_line o desc :
  po_descriptions o = true ->
  forallb plain_char desc = true -> SdlRoundtripSpec.blank desc = false -> length desc < 70 ->
  last desc 0%N <> 92%N -> Forall SourceCharacter desc ->
  desc_ok o (Some desc).
Proof.
  intros Hp Hpl Hb Hl Hlast Hsc.
  destruct (description_roundtrip_single_line o desc 0 Hpl Hb Hl) as [Hbody Hval]; [rewrite ind0; cbn [length]; lia|exact Hlast|].
  cbn [desc_ok]. rewrite Hbody in *. rewrite (unescape_triple_plain _ Hpl) in Hval.
  split; [destruct desc; [discriminate|discriminate]|]. split; [exact Hp|]. split; [|exact Hval].
  split; [|split; [intros _; exact Hlast|exact Hsc]].
  eapply forallb_Forall; [|exact Hpl]. intros c Hc ->. discriminate.
Qed.

(* the block layout: shape of the body (from the proof of
   description_roundtrip_block) *)
Lemma block_body_form o desc depth :
  let lines := split_nl desc in
  let indent := ind o depth in
  forallb clean_line lines = true ->
  forallb (fun l => Nat.leb (length l) (120 - length indent)) lines = true ->
  (2 <= length lines \/ 70 <= length (hd [] lines) \/ ends_with_qb (hd [] lines) = true) ->
  description_body o desc depth = join nl ([] :: map (fun l => indent ++ l) lines ++ [indent]).
Proof.
  intros lines indent Hclean Hlen Hblock.
  assert (Hchars : forallb (forallb lchar) lines = true).
  { apply forallb_forall; intros l Hl. rewrite forallb_forall in Hclean. specialize (Hclean l Hl).
    unfold clean_line in Hclean. apply andb_prop in Hclean; tauto. }
  destruct lines as [|l0 rest] eqn:Hlines; [exfalso; apply (split_nl_nonempty desc); exact Hlines|].
  cbn [hd] in Hblock.
  assert (Hl0 : clean_line l0 = true) by (cbn [forallb] in Hclean; apply andb_prop in Hclean; tauto).
  unfold description_body. fold indent. fold lines. rewrite Hlines.
  rewrite (wrapped_id _ _ Hlen). cbn [hd].
  assert (Hcond : Nat.eqb (length (l0 :: rest)) 1 && Nat.ltb (length l0) 70 && negb (ends_with_qb l0) = false).
  { destruct Hblock as [H2|[H70|Hqb]].
    - destruct rest; [simpl in H2; lia|reflexivity].
    - replace (Nat.ltb (length l0) 70) with false by (symmetry; apply Nat.ltb_ge; exact H70).
      rewrite Bool.andb_false_r. reflexivity.
    - rewrite Hqb. rewrite Bool.andb_false_r. reflexivity. }
  rewrite Hcond.
  assert (Hhlw : match l0 with c :: _ => py_space c | [] => false end = false).
  { unfold clean_line in Hl0. apply andb_prop in Hl0; destruct Hl0 as [_ H]. destruct l0; [reflexivity|].
    apply Bool.negb_true_iff in H; exact H. }
  rewrite Hhlw. cbn [block_lines Nat.eqb andb negb orb].
  cbn [forallb] in Hchars. apply andb_prop in Hchars; destruct Hchars as [Hc0 Hcr].
  rewrite (escape_triple_plain _ Hc0), (block_lines_tail indent rest 1 ltac:(lia) Hcr).
  cbn [map]. apply join_block.
Qed.

Lemma in_join_nl c (xs : list str) : In c (join nl xs) -> c = 10%N \/ exists x, In x xs /\ In c x.
Proof.
  induction xs as [|x xs IH]; [intros []|]. destruct xs as [|y ys].
  - cbn [join]. intros H. right. exists x. split; [left; reflexivity|exact H].
  - change (join nl (x :: y :: ys)) with (x ++ nl ++ join nl (y :: ys)). intros H.
    apply in_app_or in H. destruct H as [H|H]; [right; exists x; split; [left; reflexivity|exact H]|].
    apply in_app_or in H. destruct H as [[<-|[]]|H]; [left; reflexivity|].
    destruct (IH H) as [->|(z & Hz & Hc)]; [left; reflexivity|right; exists z; split; [right; exact Hz|exact Hc]].
Qed.

Lemma in_split_nl c l s : In l (split_nl s) -> In c l -> In c s.
Proof.
  revert l. induction s as [|a s IH]; intros l Hl Hc.
  - cbn [split_nl] in Hl. destruct Hl as [<-|[]]. destruct Hc.
  - cbn [split_nl] in Hl. destruct (split_nl s) as [|l0 ls] eqn:Hs.
    + destruct Hl as [<-|[]]. destruct Hc as [<-|[]]. left; reflexivity.
    + destruct (a =? NLc)%N.
      * destruct Hl as [<-|Hl]; [destruct Hc|]. right. apply (IH l); assumption.
      * destruct Hl as [<-|Hl].
        -- destruct Hc as [<-|Hc]; [left; reflexivity|right; apply (IH l0); [left; reflexivity|exact Hc]].
        -- right. apply (IH l); [right; exact Hl|exact Hc].
Qed.

(* several lines or a long line, no double quotes, lines empty or starting
   with a non-blank character *)
Theorem desc_ok_block o desc :
  let lines := split_nl desc in
  po_descriptions o = true -> desc <> [] ->
  forallb clean_line lines = true ->
  forallb (fun l => Nat.leb (length l) 120) lines = true ->
  hd [] lines <> [] -> last lines [] <> [] ->
  (2 <= length lines \/ 70 <= length (hd [] lines) \/ ends_with_qb (hd [] lines) = true) ->
  Forall SourceCharacter desc ->
  desc_ok o (Some desc).
Proof.
  intros lines Hp Hne Hclean Hlen Hfirst Hlast Hblock Hsc.
  assert (Hlen' : forallb (fun l => Nat.leb (length l) (120 - length (ind o 0))) lines = true) by exact Hlen.
  pose proof (block_body_form o desc 0 Hclean Hlen' Hblock) as Hbody. rewrite ind0 in Hbody.
  pose proof (description_roundtrip_block o desc 0 eq_refl Hclean Hlen' Hfirst Hlast Hblock) as Hval.
  cbn [desc_ok].
  assert (Hbody' : description_body o desc 0 = join nl ([] :: lines ++ [[]])).
  { rewrite Hbody. unfold lines. rewrite (map_ext _ (fun l : str => l)) by reflexivity. rewrite map_id. reflexivity. }
  clear Hbody. rename Hbody' into Hbody.
  assert (Hin : forall c, In c (description_body o desc 0) -> c = 10%N \/ exists l, In l lines /\ In c l).
  { intros c Hc. rewrite Hbody in Hc. apply in_join_nl in Hc. destruct Hc as [->|(x & Hx & Hc)]; [left; reflexivity|].
    destruct Hx as [<-|Hx]; [destruct Hc|]. apply in_app_or in Hx. destruct Hx as [Hx|[<-|[]]]; [|destruct Hc].
    right. exists x. split; assumption. }
  assert (Hnq : Forall (fun c => c <> 34%N) (description_body o desc 0)).
  { apply Forall_forall. intros c Hc. destruct (Hin c Hc) as [->|(l & Hl & Hcl)]; [discriminate|].
    rewrite forallb_forall in Hclean. specialize (Hclean l Hl). unfold clean_line in Hclean.
    apply andb_prop in Hclean. destruct Hclean as [Hch _]. rewrite forallb_forall in Hch. specialize (Hch c Hcl).
    intros ->. discriminate. }
  assert (Hunesc : unescape_triple (description_body o desc 0) = description_body o desc 0).
  { apply unescape_noquote. apply forallb_forall. intros c Hc. rewrite Forall_forall in Hnq. specialize (Hnq c Hc).
    apply Bool.negb_true_iff. apply N.eqb_neq. exact Hnq. }
  rewrite Hunesc in Hval.
  split; [exact Hne|]. split; [exact Hp|]. split; [|exact Hval].
  split; [exact Hnq|]. split.
  - intros _. rewrite Hbody.
    assert (Hj : forall xs : list str, join nl (xs ++ [[]]) = join nl xs ++ nl \/ xs = []).
    { intros xs. destruct xs as [|x xs]; [right; reflexivity|left].
      revert x. induction xs as [|y ys IH]; intros x; [cbn [app join]; rewrite ?app_nil_r; reflexivity|].
      change ((x :: y :: ys) ++ [[]]) with (x :: (y :: ys) ++ [[]]).
      change (join nl (x :: (y :: ys) ++ [[]])) with (x ++ nl ++ join nl ((y :: ys) ++ [[]])).
      rewrite IH. change (join nl (x :: y :: ys)) with (x ++ nl ++ join nl (y :: ys)). rewrite <- !app_assoc. reflexivity. }
    assert (E' : join nl ([] :: lines ++ [[]]) = join nl ([] :: lines) ++ nl)
      by (destruct (Hj ([] :: lines)) as [E|E]; [exact E|discriminate]).
    rewrite E', last_app_ne by discriminate. discriminate.
  - apply Forall_forall. intros c Hc. destruct (Hin c Hc) as [->|(l & Hl & Hcl)]; [right; left; reflexivity|].
    rewrite Forall_forall in Hsc. apply Hsc. eapply in_split_nl; eassumption.
Qed.

(* decidable form of the side condition on characters *)
Definition source_char_b (c : N) : bool := ((c =? 9) || (c =? 10) || (c =? 13) || (32 <=? c))%N.

Lemma source_chars_b s : forallb source_char_b s = true -> Forall SourceCharacter s.
Proof.
  apply forallb_Forall. intros c H. unfold source_char_b in H. unfold SourceCharacter.
  repeat (apply Bool.orb_true_iff in H; destruct H as [H|H]);
    try (apply N.eqb_eq in H; subst; lia). apply N.leb_le in H. lia.
Qed.

(* ---- the same classes at any depth (member descriptions are indented) ---- *)
Theorem desc_okd_single_line o depth desc :
  po_descriptions o = true ->
  forallb plain_char desc = true -> SdlRoundtripSpec.blank desc = false -> length desc < 70 ->
  length desc <= 120 - length (ind o depth) ->
  last desc 0%N <> 92%N -> Forall SourceCharacter desc ->
  desc_okd o depth (Some desc).
Proof.
  intros Hp Hpl Hb Hl Hw Hlast Hsc.
  destruct (description_roundtrip_single_line o desc depth Hpl Hb Hl Hw Hlast) as [Hbody Hval].
  cbn [desc_okd]. rewrite Hbody in *. rewrite (unescape_triple_plain _ Hpl) in Hval.
  split; [destruct desc; [discriminate|discriminate]|]. split; [exact Hp|]. split; [|exact Hval].
  split; [|split; [intros _; exact Hlast|exact Hsc]].
  eapply forallb_Forall; [|exact Hpl]. intros c Hc ->. discriminate.
Qed.

Theorem desc_okd_block o depth desc :
  let lines := split_nl desc in
  let indent := ind o depth in
  po_descriptions o = true -> desc <> [] -> all_ws indent ->
  forallb clean_line lines = true ->
  forallb (fun l => Nat.leb (length l) (120 - length indent)) lines = true ->
  hd [] lines <> [] -> last lines [] <> [] ->
  (2 <= length lines \/ 70 <= length (hd [] lines) \/ ends_with_qb (hd [] lines) = true) ->
  Forall SourceCharacter desc ->
  desc_okd o depth (Some desc).
Proof.
  intros lines indent Hp Hne Hws Hclean Hlen Hfirst Hlast Hblock Hsc.
  pose proof (block_body_form o desc depth Hclean Hlen Hblock) as Hbody. fold lines indent in Hbody.
  assert (Hblank : SdlRoundtripSpec.blank indent = true) by exact Hws.
  pose proof (description_roundtrip_block o desc depth Hblank Hclean Hlen Hfirst Hlast Hblock) as Hval.
  cbn [desc_okd].
  assert (Hin : forall c, In c (description_body o desc depth) ->
                 c = 10%N \/ In c indent \/ exists l, In l lines /\ In c l).
  { intros c Hc. rewrite Hbody in Hc. apply in_join_nl in Hc. destruct Hc as [->|(x & Hx & Hc)]; [left; reflexivity|].
    destruct Hx as [<-|Hx]; [destruct Hc|]. apply in_app_or in Hx. destruct Hx as [Hx|[<-|[]]]; [|right; left; exact Hc].
    apply in_map_iff in Hx. destruct Hx as (l & <- & Hl). apply in_app_or in Hc.
    destruct Hc as [Hc|Hc]; [right; left; exact Hc|right; right; exists l; split; assumption]. }
  assert (Hwsc : forall c, In c indent -> c = 32%N \/ c = 9%N).
  { intros c Hc. unfold all_ws in Hws. rewrite forallb_forall in Hws. specialize (Hws c Hc).
    unfold PrinterSpec.is_ws in Hws. apply Bool.orb_true_iff in Hws. destruct Hws as [H|H]; apply N.eqb_eq in H; auto. }
  assert (Hnq : Forall (fun c => c <> 34%N) (description_body o desc depth)).
  { apply Forall_forall. intros c Hc. destruct (Hin c Hc) as [->|[Hi|(l & Hl & Hcl)]]; [discriminate| |].
    - destruct (Hwsc c Hi) as [->| ->]; discriminate.
    - rewrite forallb_forall in Hclean. specialize (Hclean l Hl). unfold clean_line in Hclean.
      apply andb_prop in Hclean. destruct Hclean as [Hch _]. rewrite forallb_forall in Hch. specialize (Hch c Hcl).
      intros ->. discriminate. }
  assert (Hunesc : unescape_triple (description_body o desc depth) = description_body o desc depth).
  { apply unescape_noquote. apply forallb_forall. intros c Hc. rewrite Forall_forall in Hnq. specialize (Hnq c Hc).
    apply Bool.negb_true_iff. apply N.eqb_neq. exact Hnq. }
  rewrite Hunesc in Hval.
  split; [exact Hne|]. split; [exact Hp|]. split; [|exact Hval].
  split; [exact Hnq|]. split.
  - intros _. rewrite Hbody. subst lines indent.
    assert (Hj : forall (xs : list str) e, xs <> [] -> join nl (xs ++ [e]) = join nl xs ++ nl ++ e).
    { intros xs e. destruct xs as [|x xs]; [congruence|]. intros _.
      revert x. induction xs as [|y ys IH]; intros x; [reflexivity|].
      change ((x :: y :: ys) ++ [e]) with (x :: (y :: ys) ++ [e]).
      change (join nl (x :: (y :: ys) ++ [e])) with (x ++ nl ++ join nl ((y :: ys) ++ [e])).
      rewrite IH. change (join nl (x :: y :: ys)) with (x ++ nl ++ join nl (y :: ys)). rewrite <- !app_assoc. reflexivity. }
    pose proof (Hj ([] :: map (fun l : str => ind o depth ++ l) (split_nl desc)) (ind o depth) ltac:(discriminate)) as E'.
    cbn [app] in E'.
    match goal with |- last ?x _ <> _ =>
      replace x with (join nl ([] :: map (fun l : str => ind o depth ++ l) (split_nl desc)) ++ nl ++ ind o depth)
        by (symmetry; exact E') end.
    destruct (ind o depth) as [|i0 ir] eqn:Ei.
    + rewrite app_nil_r, last_app_ne by discriminate. discriminate.
    + rewrite app_assoc, last_app_ne by discriminate.
      assert (Hl : In (last (i0 :: ir) 0%N) (i0 :: ir)).
      { clear. generalize i0. induction ir as [|b r IH]; intros a; [left; reflexivity|]. right. apply IH. }
      destruct (Hwsc _ Hl) as [E|E]; rewrite E; discriminate.
  - apply Forall_forall. intros c Hc. destruct (Hin c Hc) as [->|[Hi|(l & Hl & Hcl)]]; [right; left; reflexivity| |].
    + destruct (Hwsc c Hi) as [->| ->]; unfold SourceCharacter; [right; right; right; lia|left; reflexivity].
    + rewrite Forall_forall in Hsc. apply Hsc. eapply in_split_nl; eassumption.
Qed.
