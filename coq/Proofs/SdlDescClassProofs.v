(* the two description classes of C12_description_roundtrip_partial / _block
   satisfy [desc_ok] (Proofs/SdlTextDescProofs.v) at depth 0 *)
From PyGql Require Import Lang.PrinterModel Spec.PrinterSpec Spec.LexSpec Proofs.PrinterProofs.
From PyGql Require Import Schema.SdlSchema Schema.SdlBuild Schema.SdlPrint Spec.SdlRoundtripSpec
                          Proofs.SdlPrintProofs Proofs.SdlDescLexProofs Proofs.SdlTextSchemaProofs Proofs.SdlTextDescProofs
                          Proofs.SdlMemberDescProofs.
From Coq Require Import Lia.

Lemma forallb_Forall {A} (p : A -> bool) (P : A -> Prop) l :
  (forall x, p x = true -> P x) -> forallb p l = true -> Forall P l.
Proof. intros H Hf. apply Forall_forall. intros x Hx. rewrite forallb_forall in Hf. auto. Qed.

Lemma ind0 o : ind o 0 = [].
Proof. reflexivity. Qed.

(* one line, no double quote, shorter than 70, not ending with a backslash *)
Theorem desc_ok_single_line o desc :
  po_descriptions o = true ->
  forallb plain_char desc = true -> SdlRoundtripSpec.blank desc = false -> length desc < 70 ->
  last desc 0%N <> 92%N -> Forall SourceCharacter desc ->
  desc_ok o (Some desc).
Proof.
  intros Hp Hpl Hb Hl Hlast Hsc.
  destruct (description_roundtrip_single_line o desc 0 Hpl Hb Hl) as [Hbody Hval]; [rewrite ind0; cbn [length]; lia|exact Hlast|].
  cbn [desc_ok]. rewrite Hbody in *. rewrite (unescape_triple_plain _ Hpl) in Hval.
  split; [destruct desc; [discriminate|discriminate]|]. split; [exact Hp|]. apply noquote_body_ok; [|exact Hval].
  split; [|split; [intros _; exact Hlast|exact Hsc]].
  eapply forallb_Forall; [|exact Hpl]. intros c Hc ->. discriminate.
Qed.

(* the block layout: shape of the body (from the proof of
   description_roundtrip_block) *)
Lemma block_body_form o desc depth :
  let lines := split_nl desc in
  let indent := ind o depth in
  forallb clean_line lines = true ->
  forallb (fun l => Nat.leb (length l) (120 - length indent)) lines = true ->
  (2 <= length lines \/ 70 <= length (hd [] lines) \/ ends_with_qb (hd [] lines) = true) ->
  description_body o desc depth = join nl ([] :: map (fun l => indent ++ l) lines ++ [indent]).
Proof.
  intros lines indent Hclean Hlen Hblock.
  assert (Hchars : forallb (forallb lchar) lines = true).
  { apply forallb_forall; intros l Hl. rewrite forallb_forall in Hclean. specialize (Hclean l Hl).
    unfold clean_line in Hclean. apply andb_prop in Hclean; tauto. }
  destruct lines as [|l0 rest] eqn:Hlines; [exfalso; apply (split_nl_nonempty desc); exact Hlines|].
  cbn [hd] in Hblock.
  assert (Hl0 : clean_line l0 = true) by (cbn [forallb] in Hclean; apply andb_prop in Hclean; tauto).
  unfold description_body. fold indent. fold lines. rewrite Hlines.
  rewrite (wrapped_id _ _ Hlen). cbn [hd].
  assert (Hcond : Nat.eqb (length (l0 :: rest)) 1 && Nat.ltb (length l0) 70 && negb (ends_with_qb l0) = false).
  { destruct Hblock as [H2|[H70|Hqb]].
    - destruct rest; [simpl in H2; lia|reflexivity].
    - replace (Nat.ltb (length l0) 70) with false by (symmetry; apply Nat.ltb_ge; exact H70).
      rewrite Bool.andb_false_r. reflexivity.
    - rewrite Hqb. rewrite Bool.andb_false_r. reflexivity. }
  rewrite Hcond.
  assert (Hhlw : match l0 with c :: _ => py_space c | [] => false end = false).
  { unfold clean_line in Hl0. apply andb_prop in Hl0; destruct Hl0 as [_ H]. destruct l0; [reflexivity|].
    apply Bool.negb_true_iff in H; exact H. }
  rewrite Hhlw. cbn [block_lines Nat.eqb andb negb orb].
  cbn [forallb] in Hchars. apply andb_prop in Hchars; destruct Hchars as [Hc0 Hcr].
  rewrite (escape_triple_plain _ Hc0), (block_lines_tail indent rest 1 ltac:(lia) Hcr).
  cbn [map]. apply join_block.
Qed.

Lemma in_join_nl c (xs : list str) : In c (join nl xs) -> c = 10%N \/ exists x, In x xs /\ In c x.
Proof.
  induction xs as [|x xs IH]; [intros []|]. destruct xs as [|y ys].
  - cbn [join]. intros H. right. exists x. split; [left; reflexivity|exact H].
  - change (join nl (x :: y :: ys)) with (x ++ nl ++ join nl (y :: ys)). intros H.
    apply in_app_or in H. destruct H as [H|H]; [right; exists x; split; [left; reflexivity|exact H]|].
    apply in_app_or in H. destruct H as [[<-|[]]|H]; [left; reflexivity|].
    destruct (IH H) as [->|(z & Hz & Hc)]; [left; reflexivity|right; exists z; split; [right; exact Hz|exact Hc]].
Qed.

Lemma in_split_nl c l s : In l (split_nl s) -> In c l -> In c s.
Proof.
  revert l. induction s as [|a s IH]; intros l Hl Hc.
  - cbn [split_nl] in Hl. destruct Hl as [<-|[]]. destruct Hc.
  - cbn [split_nl] in Hl. destruct (split_nl s) as [|l0 ls] eqn:Hs.
    + destruct Hl as [<-|[]]. destruct Hc as [<-|[]]. left; reflexivity.
    + destruct (a =? NLc)%N.
      * destruct Hl as [<-|Hl]; [destruct Hc|]. right. apply (IH l); assumption.
      * destruct Hl as [<-|Hl].
        -- destruct Hc as [<-|Hc]; [left; reflexivity|right; apply (IH l0); [left; reflexivity|exact Hc]].
        -- right. apply (IH l); [right; exact Hl|exact Hc].
Qed.

(* several lines or a long line, no double quotes, lines empty or starting
   with a non-blank character *)
Theorem desc_ok_block o desc :
  let lines := split_nl desc in
  po_descriptions o = true -> desc <> [] ->
  forallb clean_line lines = true ->
  forallb (fun l => Nat.leb (length l) 120) lines = true ->
  hd [] lines <> [] -> last lines [] <> [] ->
  (2 <= length lines \/ 70 <= length (hd [] lines) \/ ends_with_qb (hd [] lines) = true) ->
  Forall SourceCharacter desc ->
  desc_ok o (Some desc).
Proof.
  intros lines Hp Hne Hclean Hlen Hfirst Hlast Hblock Hsc.
  assert (Hlen' : forallb (fun l => Nat.leb (length l) (120 - length (ind o 0))) lines = true) by exact Hlen.
  pose proof (block_body_form o desc 0 Hclean Hlen' Hblock) as Hbody. rewrite ind0 in Hbody.
  pose proof (description_roundtrip_block o desc 0 eq_refl Hclean Hlen' Hfirst Hlast Hblock) as Hval.
  cbn [desc_ok].
  assert (Hbody' : description_body o desc 0 = join nl ([] :: lines ++ [[]])).
  { rewrite Hbody. unfold lines. rewrite (map_ext _ (fun l : str => l)) by reflexivity. rewrite map_id. reflexivity. }
  clear Hbody. rename Hbody' into Hbody.
  assert (Hin : forall c, In c (description_body o desc 0) -> c = 10%N \/ exists l, In l lines /\ In c l).
  { intros c Hc. rewrite Hbody in Hc. apply in_join_nl in Hc. destruct Hc as [->|(x & Hx & Hc)]; [left; reflexivity|].
    destruct Hx as [<-|Hx]; [destruct Hc|]. apply in_app_or in Hx. destruct Hx as [Hx|[<-|[]]]; [|destruct Hc].
    right. exists x. split; assumption. }
  assert (Hnq : Forall (fun c => c <> 34%N) (description_body o desc 0)).
  { apply Forall_forall. intros c Hc. destruct (Hin c Hc) as [->|(l & Hl & Hcl)]; [discriminate|].
    rewrite forallb_forall in Hclean. specialize (Hclean l Hl). unfold clean_line in Hclean.
    apply andb_prop in Hclean. destruct Hclean as [Hch _]. rewrite forallb_forall in Hch. specialize (Hch c Hcl).
    intros ->. discriminate. }
  assert (Hunesc : unescape_triple (description_body o desc 0) = description_body o desc 0).
  { apply unescape_noquote. apply forallb_forall. intros c Hc. rewrite Forall_forall in Hnq. specialize (Hnq c Hc).
    apply Bool.negb_true_iff. apply N.eqb_neq. exact Hnq. }
  rewrite Hunesc in Hval.
  split; [exact Hne|]. split; [exact Hp|]. apply noquote_body_ok; [|exact Hval].
  split; [exact Hnq|]. split.
  - intros _. rewrite Hbody.
    assert (Hj : forall xs : list str, join nl (xs ++ [[]]) = join nl xs ++ nl \/ xs = []).
    { intros xs. destruct xs as [|x xs]; [right; reflexivity|left].
      revert x. induction xs as [|y ys IH]; intros x; [cbn [app join]; rewrite ?app_nil_r; reflexivity|].
      change ((x :: y :: ys) ++ [[]]) with (x :: (y :: ys) ++ [[]]).
      change (join nl (x :: (y :: ys) ++ [[]])) with (x ++ nl ++ join nl ((y :: ys) ++ [[]])).
      rewrite IH. change (join nl (x :: y :: ys)) with (x ++ nl ++ join nl (y :: ys)). rewrite <- !app_assoc. reflexivity. }
    assert (E' : join nl ([] :: lines ++ [[]]) = join nl ([] :: lines) ++ nl)
      by (destruct (Hj ([] :: lines)) as [E|E]; [exact E|discriminate]).
    rewrite E', last_app_ne by discriminate. discriminate.
  - apply Forall_forall. intros c Hc. destruct (Hin c Hc) as [->|(l & Hl & Hcl)]; [right; left; reflexivity|].
    rewrite Forall_forall in Hsc. apply Hsc. eapply in_split_nl; eassumption.
Qed.

(* decidable form of the side condition on characters *)
Definition source_char_b (c : N) : bool := ((c =? 9) || (c =? 10) || (c =? 13) || (32 <=? c))%N.

Lemma source_chars_b s : forallb source_char_b s = true -> Forall SourceCharacter s.
Proof.
  apply forallb_Forall. intros c H. unfold source_char_b in H. unfold SourceCharacter.
  repeat (apply Bool.orb_true_iff in H; destruct H as [H|H]);
    try (apply N.eqb_eq in H; subst; lia). apply N.leb_le in H. lia.
Qed.

(* ---- the same classes at any depth (member descriptions are indented) ---- *)
Theorem desc_okd_single_line o depth desc :
  po_descriptions o = true ->
  forallb plain_char desc = true -> SdlRoundtripSpec.blank desc = false -> length desc < 70 ->
  length desc <= 120 - length (ind o depth) ->
  last desc 0%N <> 92%N -> Forall SourceCharacter desc ->
  desc_okd o depth (Some desc).
Proof.
  intros Hp Hpl Hb Hl Hw Hlast Hsc.
  destruct (description_roundtrip_single_line o desc depth Hpl Hb Hl Hw Hlast) as [Hbody Hval].
  cbn [desc_okd]. rewrite Hbody in *. rewrite (unescape_triple_plain _ Hpl) in Hval.
  split; [destruct desc; [discriminate|discriminate]|]. split; [exact Hp|]. apply noquote_body_ok; [|exact Hval].
  split; [|split; [intros _; exact Hlast|exact Hsc]].
  eapply forallb_Forall; [|exact Hpl]. intros c Hc ->. discriminate.
Qed.

Theorem desc_okd_block o depth desc :
  let lines := split_nl desc in
  let indent := ind o depth in
  po_descriptions o = true -> desc <> [] -> all_ws indent ->
  forallb clean_line lines = true ->
  forallb (fun l => Nat.leb (length l) (120 - length indent)) lines = true ->
  hd [] lines <> [] -> last lines [] <> [] ->
  (2 <= length lines \/ 70 <= length (hd [] lines) \/ ends_with_qb (hd [] lines) = true) ->
  Forall SourceCharacter desc ->
  desc_okd o depth (Some desc).
Proof.
  intros lines indent Hp Hne Hws Hclean Hlen Hfirst Hlast Hblock Hsc.
  pose proof (block_body_form o desc depth Hclean Hlen Hblock) as Hbody. fold lines indent in Hbody.
  assert (Hblank : SdlRoundtripSpec.blank indent = true) by exact Hws.
  pose proof (description_roundtrip_block o desc depth Hblank Hclean Hlen Hfirst Hlast Hblock) as Hval.
  cbn [desc_okd].
  assert (Hin : forall c, In c (description_body o desc depth) ->
                 c = 10%N \/ In c indent \/ exists l, In l lines /\ In c l).
  { intros c Hc. rewrite Hbody in Hc. apply in_join_nl in Hc. destruct Hc as [->|(x & Hx & Hc)]; [left; reflexivity|].
    destruct Hx as [<-|Hx]; [destruct Hc|]. apply in_app_or in Hx. destruct Hx as [Hx|[<-|[]]]; [|right; left; exact Hc].
    apply in_map_iff in Hx. destruct Hx as (l & <- & Hl). apply in_app_or in Hc.
    destruct Hc as [Hc|Hc]; [right; left; exact Hc|right; right; exists l; split; assumption]. }
  assert (Hwsc : forall c, In c indent -> c = 32%N \/ c = 9%N).
  { intros c Hc. unfold all_ws in Hws. rewrite forallb_forall in Hws. specialize (Hws c Hc).
    unfold PrinterSpec.is_ws in Hws. apply Bool.orb_true_iff in Hws. destruct Hws as [H|H]; apply N.eqb_eq in H; auto. }
  assert (Hnq : Forall (fun c => c <> 34%N) (description_body o desc depth)).
  { apply Forall_forall. intros c Hc. destruct (Hin c Hc) as [->|[Hi|(l & Hl & Hcl)]]; [discriminate| |].
    - destruct (Hwsc c Hi) as [->| ->]; discriminate.
    - rewrite forallb_forall in Hclean. specialize (Hclean l Hl). unfold clean_line in Hclean.
      apply andb_prop in Hclean. destruct Hclean as [Hch _]. rewrite forallb_forall in Hch. specialize (Hch c Hcl).
      intros ->. discriminate. }
  assert (Hunesc : unescape_triple (description_body o desc depth) = description_body o desc depth).
  { apply unescape_noquote. apply forallb_forall. intros c Hc. rewrite Forall_forall in Hnq. specialize (Hnq c Hc).
    apply Bool.negb_true_iff. apply N.eqb_neq. exact Hnq. }
  rewrite Hunesc in Hval.
  split; [exact Hne|]. split; [exact Hp|]. apply noquote_body_ok; [|exact Hval].
  split; [exact Hnq|]. split.
  - intros _. rewrite Hbody. subst lines indent.
    assert (Hj : forall (xs : list str) e, xs <> [] -> join nl (xs ++ [e]) = join nl xs ++ nl ++ e).
    { intros xs e. destruct xs as [|x xs]; [congruence|]. intros _.
      revert x. induction xs as [|y ys IH]; intros x; [reflexivity|].
      change ((x :: y :: ys) ++ [e]) with (x :: (y :: ys) ++ [e]).
      change (join nl (x :: (y :: ys) ++ [e])) with (x ++ nl ++ join nl ((y :: ys) ++ [e])).
      rewrite IH. change (join nl (x :: y :: ys)) with (x ++ nl ++ join nl (y :: ys)). rewrite <- !app_assoc. reflexivity. }
    pose proof (Hj ([] :: map (fun l : str => ind o depth ++ l) (split_nl desc)) (ind o depth) ltac:(discriminate)) as E'.
    cbn [app] in E'.
    match goal with |- last ?x _ <> _ =>
      replace x with (join nl ([] :: map (fun l : str => ind o depth ++ l) (split_nl desc)) ++ nl ++ ind o depth)
        by (symmetry; exact E') end.
    destruct (ind o depth) as [|i0 ir] eqn:Ei.
    + rewrite app_nil_r, last_app_ne by discriminate. discriminate.
    + rewrite app_assoc, last_app_ne by discriminate.
      assert (Hl : In (last (i0 :: ir) 0%N) (i0 :: ir)).
      { clear. generalize i0. induction ir as [|b r IH]; intros a; [left; reflexivity|]. right. apply IH. }
      destruct (Hwsc _ Hl) as [E|E]; rewrite E; discriminate.
  - apply Forall_forall. intros c Hc. destruct (Hin c Hc) as [->|[Hi|(l & Hl & Hcl)]]; [right; left; reflexivity| |].
    + destruct (Hwsc c Hi) as [->| ->]; unfold SourceCharacter; [right; right; right; lia|left; reflexivity].
    + rewrite Forall_forall in Hsc. apply Hsc. eapply in_split_nl; eassumption.
Qed.

(* ---- one-line descriptions with double quotes ------------------------------ *)
(* one line, shorter than 70, not ending with a double quote or a backslash:
   printed with its triple quotes escaped, read back unchanged *)
Definition line_char (c : N) : bool := negb ((c =? 10)%N || (c =? 13)%N).

Lemma split_nl_line s : forallb line_char s = true -> split_nl s = [s].
Proof.
  induction s as [|c s IH]; simpl; [reflexivity|].
  intros H; apply andb_prop in H; destruct H as [Hc Hs].
  rewrite (IH Hs). unfold line_char in Hc.
  destruct (c =? NLc)%N eqn:E; [|reflexivity].
  unfold NLc in E; rewrite E in Hc; discriminate.
Qed.

Lemma split_lines_line s : forallb line_char s = true -> SdlRoundtripSpec.split_lines s = [s].
Proof.
  induction s as [|c s IH]; simpl; [reflexivity|].
  intros H; apply andb_prop in H; destruct H as [Hc Hs].
  rewrite (IH Hs). unfold line_char in Hc.
  destruct (c =? 10)%N eqn:E1; [simpl in Hc; discriminate|].
  destruct (c =? 13)%N eqn:E2; [simpl in Hc; discriminate|].
  assert (c <> 13%N) by (apply N.eqb_neq; assumption).
  destruct c as [|p]; [reflexivity|].
  do 4 (destruct p as [p|p|]; try reflexivity); congruence.
Qed.

Lemma ends_with_qb_last s : last s 0%N <> 34%N -> last s 0%N <> 92%N -> ends_with_qb s = false.
Proof.
  induction s as [|c s IH]; intros H34 H92; [reflexivity|].
  destruct s as [|c2 s2].
  - cbn [ends_with_qb last] in *. apply N.eqb_neq in H34, H92. rewrite H34, H92. reflexivity.
  - change (ends_with_qb (c :: c2 :: s2)) with (ends_with_qb (c2 :: s2)). apply IH; assumption.
Qed.

Lemma single_line_quotes o desc depth :
  forallb line_char desc = true -> SdlRoundtripSpec.blank desc = false ->
  length desc < 70 -> length desc <= 120 - length (ind o depth) ->
  last desc 0%N <> 34%N -> last desc 0%N <> 92%N ->
  description_body o desc depth = escape_triple desc
  /\ SdlRoundtripSpec.block_string_value desc = desc.
Proof.
  intros Hp Hb Hl Hw H34 H92. split.
  - unfold description_body. rewrite (split_nl_line _ Hp).
    remember (120 - length (ind o depth)) as m eqn:Hm.
    assert (Hw' : Nat.leb (length desc) m = true) by (apply Nat.leb_le; lia).
    assert (Hl' : Nat.ltb (length desc) 70 = true) by (apply Nat.ltb_lt; assumption).
    unfold wrapped_lines. cbn [flat_map].
    match goal with |- context [if ?b then [desc] else _] =>
      replace b with true by (symmetry; exact Hw') end.
    cbn [app length Nat.eqb].
    match goal with |- context [andb (andb true ?b) _] =>
      replace b with true by (symmetry; exact Hl') end.
    rewrite (ends_with_qb_last _ H34 H92). reflexivity.
  - unfold SdlRoundtripSpec.block_string_value. rewrite (split_lines_line _ Hp).
    cbn [common_indent drop_while_blank rev app]. rewrite Hb.
    cbn [rev app drop_while_blank]. rewrite Hb. cbn [rev app join]. reflexivity.
Qed.

Theorem desc_okd_single_line_quotes o depth desc :
  po_descriptions o = true ->
  forallb line_char desc = true -> SdlRoundtripSpec.blank desc = false -> length desc < 70 ->
  length desc <= 120 - length (ind o depth) ->
  last desc 0%N <> 34%N -> last desc 0%N <> 92%N -> Forall SourceCharacter desc ->
  desc_okd o depth (Some desc).
Proof.
  intros Hp Hpl Hb Hl Hw H34 H92 Hsc.
  destruct (single_line_quotes o desc depth Hpl Hb Hl Hw H34 H92) as [Hbody Hval].
  assert (Hne : desc <> []) by (destruct desc; [discriminate|discriminate]).
  cbn [desc_okd]. rewrite Hbody.
  split; [exact Hne|]. split; [exact Hp|]. exists desc. split; [|exact Hval].
  apply escaped_scan; assumption.
Qed.

Theorem desc_ok_single_line_quotes o desc :
  po_descriptions o = true ->
  forallb line_char desc = true -> SdlRoundtripSpec.blank desc = false -> length desc < 70 ->
  last desc 0%N <> 34%N -> last desc 0%N <> 92%N -> Forall SourceCharacter desc ->
  desc_ok o (Some desc).
Proof.
  intros Hp Hpl Hb Hl H34 H92 Hsc.
  destruct (single_line_quotes o desc 0 Hpl Hb Hl) as [Hbody Hval]; [rewrite ind0; cbn [length]; lia|exact H34|exact H92|].
  assert (Hne : desc <> []) by (destruct desc; [discriminate|discriminate]).
  cbn [desc_ok]. rewrite Hbody.
  split; [exact Hne|]. split; [exact Hp|]. exists desc. split; [|exact Hval].
  apply escaped_scan; assumption.
Qed.

(* ---- block layout with double quotes ---------------------------------------- *)
Definition qclean_line (l : str) : bool :=
  forallb nobreak l && match l with c :: _ => negb (py_space c) | [] => true end.

Lemma block_lines_tail_esc indent ls : forall i, 1 <= i ->
  block_lines false indent i ls = map (fun l => indent ++ escape_triple l) ls.
Proof.
  induction ls as [|l ls IH]; intros i Hi; [reflexivity|].
  cbn [block_lines map]. destruct i as [|i]; [lia|]. cbn [Nat.eqb andb negb orb app].
  rewrite (IH (S (S i))) by lia. reflexivity.
Qed.

Lemma block_body_form_q o desc depth :
  let lines := split_nl desc in
  let indent := ind o depth in
  forallb qclean_line lines = true ->
  forallb (fun l => Nat.leb (length l) (120 - length indent)) lines = true ->
  (2 <= length lines \/ 70 <= length (hd [] lines) \/ ends_with_qb (hd [] lines) = true) ->
  description_body o desc depth = join nl ([] :: map (fun l => indent ++ escape_triple l) lines ++ [indent]).
Proof.
  intros lines indent Hclean Hlen Hblock.
  destruct lines as [|l0 rest] eqn:Hlines; [exfalso; apply (split_nl_nonempty desc); exact Hlines|].
  cbn [hd] in Hblock.
  assert (Hl0 : qclean_line l0 = true) by (cbn [forallb] in Hclean; apply andb_prop in Hclean; tauto).
  unfold description_body. fold indent. fold lines. rewrite Hlines.
  rewrite (wrapped_id _ _ Hlen). cbn [hd].
  assert (Hcond : Nat.eqb (length (l0 :: rest)) 1 && Nat.ltb (length l0) 70 && negb (ends_with_qb l0) = false).
  { destruct Hblock as [H2|[H70|Hqb]].
    - destruct rest; [simpl in H2; lia|reflexivity].
    - replace (Nat.ltb (length l0) 70) with false by (symmetry; apply Nat.ltb_ge; exact H70).
      rewrite Bool.andb_false_r. reflexivity.
    - rewrite Hqb. rewrite Bool.andb_false_r. reflexivity. }
  rewrite Hcond.
  assert (Hhlw : match l0 with c :: _ => py_space c | [] => false end = false).
  { unfold qclean_line in Hl0. apply andb_prop in Hl0; destruct Hl0 as [_ H]. destruct l0; [reflexivity|].
    apply Bool.negb_true_iff in H; exact H. }
  rewrite Hhlw. cbn [block_lines Nat.eqb andb negb orb].
  rewrite (block_lines_tail_esc indent rest 1 ltac:(lia)).
  cbn [map]. apply join_block.
Qed.

Local Open Scope N_scope.
Lemma lead_q_app0 (w y : str) : lead_q y = 0%nat -> lead_q (w ++ y) = lead_q w.
Proof.
  intros Hy. induction w as [|a w IH]; cbn [app lead_q]; [exact Hy|]. rewrite IH. reflexivity.
Qed.

Lemma escape3_app : forall n (w y : str), (length w <= n)%nat -> lead_q y = 0%nat ->
  escape3 (w ++ y) = escape3 w ++ escape3 y.
Proof.
  induction n as [|n IH]; intros w y Hn Hy.
  - destruct w; [reflexivity|simpl in Hn; lia].
  - destruct w as [|a r1]; [reflexivity|].
    destruct (le_lt_dec 3 (lead_q (a :: r1))) as [G|G].
    + apply lead_q_ge3 in G. destruct G as [r3 E]. rewrite E.
      assert (Hl : (length r3 <= n)%nat).
      { clear -E Hn. inversion E; subst. cbn [length] in Hn. clear E. apply le_S_n in Hn. apply Nat.le_trans with (2 := Hn). apply Nat.le_trans with (S (length r3)); apply Nat.le_succ_diag_r. }
      pose proof (IH r3 y Hl Hy) as H3.
      change (92 :: 34 :: 34 :: 34 :: escape3 (r3 ++ y) = 92 :: 34 :: 34 :: 34 :: (escape3 r3 ++ escape3 y)).
      f_equal. f_equal. f_equal. f_equal. exact H3.
    + assert (G' : (lead_q (a :: (r1 ++ y)) < 3)%nat).
      { pose proof (lead_q_app0 (a :: r1) y Hy) as Hq. cbn [app] in Hq. rewrite Hq. exact G. }
      assert (Hl : (length r1 <= n)%nat) by (simpl in Hn; lia).
      etransitivity; [exact (esc_cons a (r1 ++ y) G')|].
      etransitivity; [|symmetry; exact (f_equal (fun l => l ++ escape3 y) (esc_cons a r1 G))].
      cbn [app]. f_equal. exact (IH r1 y Hl Hy).
Qed.

Lemma lead_q_nl (y : str) : lead_q (nl ++ y) = 0%nat.
Proof. reflexivity. Qed.

Lemma esc_nl (y : str) : escape3 (nl ++ y) = nl ++ escape3 y.
Proof. exact (esc_nonq 10 y ltac:(discriminate)). Qed.

(* escaping the indented lines = indenting the escaped lines *)
Lemma esc_join_lines (indent : str) (lines : list str) :
  all_ws indent ->
  escape3 (join nl (map (fun l => indent ++ l) lines ++ [indent]))
  = join nl (map (fun l => indent ++ escape3 l) lines ++ [indent]).
Proof.
  intros Hws. induction lines as [|l ls IH].
  - cbn [map app join]. rewrite <- (app_nil_r indent) at 1. rewrite (esc_ws indent [] Hws). rewrite esc_nil. apply app_nil_r.
  - cbn [map app].
    rewrite !join_cons by (destruct ls; discriminate).
    rewrite <- app_assoc. rewrite (esc_ws indent _ Hws).
    rewrite (escape3_app _ l _ (le_n _) (lead_q_nl _)). rewrite esc_nl. rewrite IH.
    rewrite <- !app_assoc. reflexivity.
Qed.
Local Close Scope N_scope.

Definition raw_block (indent : str) (lines : list str) : str :=
  join nl ([] :: map (fun l => indent ++ l) lines ++ [indent]).

Lemma esc_raw_block (indent : str) (lines : list str) :
  all_ws indent ->
  escape_triple (raw_block indent lines)
  = join nl ([] :: map (fun l => indent ++ escape_triple l) lines ++ [indent]).
Proof.
  intros Hws. unfold raw_block.
  rewrite (escape_triple_escape3 _ _ (le_n _)).
  rewrite !join_cons by (destruct lines; discriminate). cbn [app].
  change (10%N :: join nl (map (fun l : str => indent ++ l) lines ++ [indent]))
    with (nl ++ join nl (map (fun l : str => indent ++ l) lines ++ [indent])).
  rewrite esc_nl. rewrite (esc_join_lines indent lines Hws).
  rewrite (map_ext (fun l => indent ++ escape_triple l) (fun l => indent ++ escape3 l)); [reflexivity|].
  intros l. rewrite (escape_triple_escape3 _ l (le_n _)). reflexivity.
Qed.

Lemma qclean_leading l : qclean_line l = true -> blank l = false -> leading_ws l = 0.
Proof.
  unfold qclean_line. intros H Hb. apply andb_prop in H; destruct H as [_ Hc].
  destruct l as [|c r]; [discriminate|]. cbn [leading_ws].
  destruct (is_ws c) eqn:Hw; [|reflexivity].
  exfalso. unfold is_ws in Hw. apply Bool.negb_true_iff in Hc. unfold py_space in Hc.
  apply Bool.orb_true_iff in Hw; destruct Hw as [Hw|Hw]; apply N.eqb_eq in Hw; subst c; discriminate.
Qed.

Lemma blank_nil_false_of_qclean l : qclean_line l = true -> blank l = true -> l = [].
Proof.
  unfold qclean_line. intros H Hb. apply andb_prop in H; destruct H as [_ Hc].
  destruct l as [|c r]; [reflexivity|]. cbn [blank forallb] in Hb. apply andb_prop in Hb; destruct Hb as [Hw _].
  exfalso. apply Bool.negb_true_iff in Hc. unfold is_ws in Hw. unfold py_space in Hc.
  apply Bool.orb_true_iff in Hw; destruct Hw as [Hw|Hw]; apply N.eqb_eq in Hw; subst c; discriminate.
Qed.

(* BlockStringValue of the indented lines is the description *)
Lemma raw_block_value desc (indent : str) :
  let lines := split_nl desc in
  blank indent = true ->
  forallb qclean_line lines = true ->
  hd [] lines <> [] -> last lines [] <> [] ->
  block_string_value (raw_block indent lines) = desc.
Proof.
  intros lines Hind Hclean Hfirst Hlast.
  assert (Hchars : forallb (forallb nobreak) lines = true).
  { apply forallb_forall; intros l Hl. rewrite forallb_forall in Hclean. specialize (Hclean l Hl).
    unfold qclean_line in Hclean. apply andb_prop in Hclean; tauto. }
  destruct lines as [|l0 rest] eqn:Hlines; [exfalso; apply (split_nl_nonempty desc); exact Hlines|].
  cbn [hd] in Hfirst.
  assert (Hl0 : qclean_line l0 = true) by (cbn [forallb] in Hclean; apply andb_prop in Hclean; tauto).
  unfold raw_block.
  set (segs := [] :: map (fun l => indent ++ l) (l0 :: rest) ++ [indent]).
  assert (Hws : forall c, is_ws c = true -> nobreak c = true).
  { intros c Hc. unfold is_ws in Hc. apply Bool.orb_true_iff in Hc; destruct Hc as [Hc|Hc];
      apply N.eqb_eq in Hc; subst c; reflexivity. }
  assert (Hsegs : forallb (forallb nobreak) segs = true).
  { unfold segs. cbn [forallb andb]. rewrite forallb_app. apply andb_true_intro; split.
    - apply forallb_forall; intros x Hx. apply in_map_iff in Hx. destruct Hx as [l [<- Hl]].
      rewrite forallb_app. apply andb_true_intro; split.
      + apply forallb_forall; intros c Hc. apply Hws. unfold blank in Hind. rewrite forallb_forall in Hind. auto.
      + rewrite forallb_forall in Hchars. apply Hchars; exact Hl.
    - cbn [forallb]. rewrite Bool.andb_true_r.
      apply forallb_forall; intros c Hc. apply Hws. unfold blank in Hind. rewrite forallb_forall in Hind. auto. }
  unfold block_string_value. rewrite split_lines_join.
  2:{ discriminate. }
  2:{ exact Hsegs. }
  unfold segs.
  assert (Hl0b : blank l0 = false).
  { destruct (blank l0) eqn:Hb; [|reflexivity]. exfalso; apply Hfirst. apply blank_nil_false_of_qclean; assumption. }
  rewrite (common_indent_uniform (length indent)).
  2:{ intros l Hl Hb. apply in_app_or in Hl. destruct Hl as [Hl|[<-|[]]]; [|congruence].
      apply in_map_iff in Hl. destruct Hl as [x [<- Hx]].
      rewrite blank_app, Hind in Hb. cbn [andb] in Hb.
      rewrite (leading_ws_indent _ _ Hind). rewrite forallb_forall in Hclean.
      rewrite (qclean_leading x (Hclean x Hx) Hb). lia. }
  2:{ exists (indent ++ l0). split; [apply in_or_app; left; left; reflexivity|].
      rewrite blank_app, Hind, Hl0b. reflexivity. }
  rewrite map_app, skipn_indent. cbn [map].
  replace (skipn (length indent) indent) with (@nil char)
    by (symmetry; rewrite <- (app_nil_r indent) at 2; apply skipn_app_exact).
  cbn [drop_while_blank blank forallb app]. rewrite Hl0b.
  change (l0 :: rest ++ [[]]) with ((l0 :: rest) ++ [[]]). rewrite rev_app_distr. cbn [rev app].
  cbn [drop_while_blank blank forallb].
  assert (Hrev : drop_while_blank (rev (l0 :: rest)) = rev (l0 :: rest)).
  { apply drop_rev_last; [discriminate|].
    destruct (blank (last (l0 :: rest) [])) eqn:Hb; [|reflexivity].
    exfalso; apply Hlast. apply blank_nil_false_of_qclean; [|exact Hb].
    rewrite forallb_forall in Hclean. apply Hclean.
    assert (Hne : l0 :: rest <> []) by discriminate.
    rewrite (app_removelast_last [] Hne) at 2. apply in_or_app; right; left; reflexivity. }
  cbn [rev] in Hrev. rewrite Hrev. change (rev rest ++ [l0]) with (rev (l0 :: rest)).
  rewrite rev_involutive. rewrite <- Hlines. unfold lines. apply join_split_nl.
Qed.

Lemma last_nl_indent (A indent : str) : all_ws indent ->
  A ++ nl ++ indent <> [] /\ last (A ++ nl ++ indent) 0%N <> 34%N /\ last (A ++ nl ++ indent) 0%N <> 92%N.
Proof.
  intros Hws. split; [destruct A; discriminate|].
  induction indent as [|x ind' _] using rev_ind.
  - rewrite app_nil_r. change nl with [10%N]. rewrite last_last. split; discriminate.
  - rewrite !app_assoc. rewrite last_last.
    unfold all_ws in Hws. rewrite forallb_app in Hws. apply andb_prop in Hws. destruct Hws as [_ Hx].
    cbn [forallb] in Hx. rewrite Bool.andb_true_r in Hx. apply ws_facts in Hx. tauto.
Qed.

Theorem desc_okd_block_quotes o depth desc :
  let lines := split_nl desc in
  let indent := ind o depth in
  po_descriptions o = true -> desc <> [] -> all_ws indent ->
  forallb qclean_line lines = true ->
  forallb (fun l => Nat.leb (length l) (120 - length indent)) lines = true ->
  hd [] lines <> [] -> last lines [] <> [] ->
  (2 <= length lines \/ 70 <= length (hd [] lines) \/ ends_with_qb (hd [] lines) = true) ->
  Forall SourceCharacter desc ->
  desc_okd o depth (Some desc).
Proof.
  intros lines indent Hp Hne Hws Hclean Hlen Hfirst Hlast Hblock Hsc.
  pose proof (block_body_form_q o desc depth Hclean Hlen Hblock) as Hbody. fold lines indent in Hbody.
  assert (Hblank : SdlRoundtripSpec.blank indent = true) by exact Hws.
  pose proof (raw_block_value desc indent Hblank Hclean Hfirst Hlast) as Hval. fold lines in Hval.
  rewrite <- (esc_raw_block indent lines Hws) in Hbody.
  cbn [desc_okd]. rewrite Hbody.
  split; [exact Hne|]. split; [exact Hp|]. exists (raw_block indent lines). split; [|exact Hval].
  assert (Hraw : raw_block indent lines
                 = join nl ([] :: map (fun l => indent ++ l) lines) ++ nl ++ indent).
  { unfold raw_block. change ([] :: map (fun l => indent ++ l) lines ++ [indent])
      with (([] :: map (fun l : str => indent ++ l) lines) ++ [indent]).
    apply join_snoc. discriminate. }
  destruct (last_nl_indent (join nl ([] :: map (fun l => indent ++ l) lines)) indent Hws) as (Hn & H34 & H92).
  rewrite <- Hraw in Hn, H34, H92.
  apply escaped_scan; [exact Hn|exact H34|exact H92|].
  apply Forall_forall. intros c Hc. unfold raw_block in Hc. apply in_join_nl in Hc.
  destruct Hc as [->|(x & Hx & Hc)]; [right; left; reflexivity|].
  assert (Hwsc : forall c, In c indent -> SourceCharacter c).
  { intros c' Hc'. unfold all_ws in Hws. rewrite forallb_forall in Hws. specialize (Hws c' Hc').
    unfold PrinterSpec.is_ws in Hws. apply Bool.orb_true_iff in Hws. unfold SourceCharacter.
    destruct Hws as [H|H]; apply N.eqb_eq in H; rewrite H; lia. }
  destruct Hx as [<-|Hx]; [destruct Hc|]. apply in_app_or in Hx. destruct Hx as [Hx|[<-|[]]]; [|apply Hwsc; exact Hc].
  apply in_map_iff in Hx. destruct Hx as (l & <- & Hl). apply in_app_or in Hc.
  destruct Hc as [Hc|Hc]; [apply Hwsc; exact Hc|].
  rewrite Forall_forall in Hsc. apply Hsc. eapply in_split_nl; eassumption.
Qed.

Theorem desc_ok_block_quotes o desc :
  let lines := split_nl desc in
  po_descriptions o = true -> desc <> [] ->
  forallb qclean_line lines = true ->
  forallb (fun l => Nat.leb (length l) 120) lines = true ->
  hd [] lines <> [] -> last lines [] <> [] ->
  (2 <= length lines \/ 70 <= length (hd [] lines) \/ ends_with_qb (hd [] lines) = true) ->
  Forall SourceCharacter desc ->
  desc_ok o (Some desc).
Proof.
  intros lines Hp Hne Hclean Hlen Hfirst Hlast Hblock Hsc.
  assert (H : desc_okd o 0 (Some desc)).
  { apply desc_okd_block_quotes; try assumption. rewrite ind0. reflexivity. }
  exact H.
Qed.
