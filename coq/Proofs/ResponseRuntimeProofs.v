(* The response pipeline is the same under every runtime. *)
From PyGql Require Import Base.Str Lang.LocModel Exec.ResponseModel Exec.ResponseRuntime.

Theorem entry_point_runtime_independent (rt : runtime) (st : stages) :
  entry_point rt st = process st.
Proof.
  unfold entry_point, process_rt, process, abort, on_end, exec_outcome.
  destruct (st_parse st) as [[m p]|]; [apply run_ensure_wrapped|].
  destruct (st_validation st); [|apply run_ensure_wrapped].
  destruct (st_opselect st); [apply run_ensure_wrapped|].
  destruct (st_varcoercion st); [|apply run_ensure_wrapped].
  destruct (st_rootcoercion st); [|apply run_ensure_wrapped].
  rewrite run_map_value, run_deferred.
  destruct (forallb _ (st_float_returns st)); reflexivity.
Qed.

Theorem pipeline_runtime_independent (rt : runtime) (doc : str) (st : stages) :
  pipeline_rt rt doc st = pipeline_model doc st.
Proof.
  unfold pipeline_rt, pipeline_model. rewrite entry_point_runtime_independent. reflexivity.
Qed.
